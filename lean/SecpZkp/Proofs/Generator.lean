import Mathlib.NumberTheory.LegendreSymbol.Basic
import SecpZkp.Model.Generator
import SecpZkp.Proofs.GroupExtra
import SecpZkp.Proofs.GroupLawProved
import SecpZkp.Proofs.Algebra
import SecpZkp.Proofs.Bytes
import SecpZkp.Proofs.BytesBasic
/-
  Helper lemmas for property C08 (generator module: Pedersen commitments, tally, blind sums,
  generator derivation).  The property theorems themselves are in `Props/C08.lean`.

  Contents
  * quadratic residues modulo `P` (`P ≡ 3 mod 4`): `-1` is a non-residue, exactly one of `y`, `-y`
    is a residue, the product of two non-residues is a residue;
  * the "quadratic-residue y" point encoding: `liftXQuad` followed by the sign selection recovers
    the point (`quad_select`);
  * left folds of `Pt.add` over lists of valid points (`foldl_add`);
  * the scalar bookkeeping loops of `blindSum` and `blindGeneratorBlindSum`;
  * the Shallue–van de Woestijne map always lands on the curve (`svdw_valid`).

  Technical note.  The kernel unfolds matchers eagerly; for `svdw` (a `match` on an `if` whose condition
  contains `Fe.sqrtCand` applied to terms with literals) the generic `unfold`/`delta`/`rfl` make the
  kernel unroll `powMod` on open terms and never return.  `svdw_def` / `generateInternal_def` therefore
  state the unfolding with the verbatim definitional value (term elaborator `defValue%`, which only looks
  up the value of a constant), so that the kernel accepts `rfl` by syntactic identity; all later steps
  are propositional rewrites (`if_pos`/`if_neg`).  No axioms are involved.
-/
namespace SecpZkp
namespace GeneratorLemmas

/-- primality of the field prime and the group law, installed once for this file -/
local instance instFactP : Fact (Nat.Prime P) := ⟨prime_P⟩
local instance instHGL : HasGroupLaw := ⟨groupLaw⟩

/- `whnf` on terms containing `Fe.sqrtCand` would otherwise unroll the 520-step `powMod` loop. -/
attribute [local irreducible] powMod
open Generator

/-- right-hand side of the curve equation as the model computes it -/
abbrev rhs (x : ℕ) : ℕ := Fe.add (Fe.mul (Fe.sqr x) x) 7

/-! ### Quadratic residues modulo `P` -/

/-- `-1` is not a square modulo `P` (`P ≡ 3 mod 4`). -/
theorem neg_one_not_square : ¬ IsSquare (-1 : ZMod P) := by
  rw [ZMod.exists_sq_eq_neg_one_iff]
  exact fun h => h P_mod_four

/-- A non-zero residue and its negative are never both squares. -/
theorem not_isSquare_neg {y : ZMod P} (hy : y ≠ 0) (h : IsSquare y) : ¬ IsSquare (-y) := by
  rintro ⟨b, hb⟩
  obtain ⟨a, ha⟩ := h
  have ha0 : a ≠ 0 := by
    rintro rfl; exact hy (by rw [ha, mul_zero])
  apply neg_one_not_square
  refine ⟨b * a⁻¹, ?_⟩
  have hi : a * a⁻¹ = 1 := mul_inv_cancel₀ ha0
  have h' : b * b = -(a * a) := by rw [← hb, ha]
  linear_combination (-(a⁻¹) ^ 2) * h' + (a * a⁻¹ + 1) * hi

/-- The product of two non-residues is a residue (Euler's criterion). -/
theorem isSquare_mul_of_not {a b : ZMod P} (ha : ¬ IsSquare a) (hb : ¬ IsSquare b) :
    IsSquare (a * b) := by
  have ha0 : a ≠ 0 := by rintro rfl; exact ha ⟨0, by simp⟩
  have hb0 : b ≠ 0 := by rintro rfl; exact hb ⟨0, by simp⟩
  have ea : a ^ (P / 2) = -1 := by
    rcases ZMod.pow_div_two_eq_neg_one_or_one P ha0 with h | h
    · exact absurd ((ZMod.euler_criterion P ha0).2 h) ha
    · exact h
  have eb : b ^ (P / 2) = -1 := by
    rcases ZMod.pow_div_two_eq_neg_one_or_one P hb0 with h | h
    · exact absurd ((ZMod.euler_criterion P hb0).2 h) hb
    · exact h
  rw [ZMod.euler_criterion P (mul_ne_zero ha0 hb0), mul_pow, ea, eb]; ring

/-! ### Bytes used as prefixes -/

theorem and_FE_eq_8_iff (b : UInt8) : b &&& 0xFE = 8 ↔ b = 8 ∨ b = 9 := by
  revert b; apply UInt8.forall_of_lt256; decide +kernel

theorem and_FE_eq_10_iff (b : UInt8) : b &&& 0xFE = 10 ↔ b = 10 ∨ b = 11 := by
  revert b; apply UInt8.forall_of_lt256; decide +kernel

/-! ### The quadratic-residue-`y` encoding -/

theorem neg_neg_of_lt {y : ℕ} (hy : y < P) : Fe.neg (Fe.neg y) = y := by
  apply Fe.eq_of_cast_eq (Fe.neg_lt_P _) hy
  rw [Fe.cast_neg, Fe.cast_neg, neg_neg]

theorem cast_y_ne_zero {x y : ℕ} (h : (Pt.aff x y).valid = true) : ((y : ℕ) : ZMod P) ≠ 0 := by
  rw [Ne, Fe.cast_eq_zero_iff]; exact valid_y_mod_ne_zero h

/-- the curve equation of a valid point, over `ZMod P` -/
theorem valid_eqn {x y : ℕ} (h : (Pt.aff x y).valid = true) :
    (y : ZMod P) * y = (x : ZMod P) * x * x + 7 := by
  obtain ⟨_, _, hn⟩ := (valid_aff_iff x y).1 h
  exact (W_equation_iff _ _).1 hn.1

/-- For a valid point, `liftXQuad` finds the point with the same abscissa and a square ordinate;
    it is the point or its negative. -/
theorem liftXQuad_of_valid {x y : ℕ} (h : (Pt.aff x y).valid = true) :
    ∃ r, Pt.liftXQuad x = some (.aff x r) ∧ (Pt.aff x r).valid = true ∧
      IsSquare ((r : ℕ) : ZMod P) ∧ (r = y ∨ r = Fe.neg y) := by
  obtain ⟨hx, _, _⟩ := (valid_aff_iff x y).1 h
  cases hl : Pt.liftXQuad x with
  | none =>
    exact absurd ⟨(y : ZMod P), (valid_eqn h).symm⟩ ((liftXQuad_eq_none_iff x).1 hl)
  | some p =>
    obtain ⟨hv, hne, hxo, hsq⟩ := liftXQuad_some hl
    cases p with
    | inf => exact absurd rfl hne
    | aff x' r =>
      simp only [Pt.xOf, Pt.yOf] at hxo hsq
      rw [Nat.mod_eq_of_lt hx] at hxo
      subst hxo
      exact ⟨r, rfl, hv, hsq, eq_or_eq_neg_of_x_eq h hv⟩

/-- Decoding rule of the commitment / generator objects: lift the abscissa to the point with square
    ordinate, negate it when the stored flag says "ordinate is not a square". -/
theorem quad_select {x y : ℕ} (h : (Pt.aff x y).valid = true) :
    ∃ r, Pt.liftXQuad x = some (.aff x r) ∧
      (if Fe.isSquare y = true then Pt.aff x r else Pt.neg (.aff x r)) = .aff x y := by
  obtain ⟨_, hy, _⟩ := (valid_aff_iff x y).1 h
  obtain ⟨r, hl, hv, hsq, hr⟩ := liftXQuad_of_valid h
  refine ⟨r, hl, ?_⟩
  by_cases hs : Fe.isSquare y = true
  · rw [if_pos hs]
    rcases hr with e | e
    · rw [e]
    · exfalso
      have h1 : IsSquare ((y : ℕ) : ZMod P) := (Fe.isSquare_iff y).1 hs
      rw [e, Fe.cast_neg] at hsq
      exact not_isSquare_neg (cast_y_ne_zero h) h1 hsq
  · rw [if_neg hs]
    rcases hr with e | e
    · exfalso; rw [e] at hsq; exact hs ((Fe.isSquare_iff y).2 hsq)
    · rw [e]; simp only [Pt.neg]; rw [neg_neg_of_lt hy]

/-- `isSquare` of the ordinate of the negated point with square ordinate is false. -/
theorem isSquare_neg_false {x r : ℕ} (hv : (Pt.aff x r).valid = true)
    (hsq : IsSquare ((r : ℕ) : ZMod P)) : Fe.isSquare (Fe.neg r) = false := by
  rw [Bool.eq_false_iff, Ne, Fe.isSquare_iff, Fe.cast_neg]
  exact not_isSquare_neg (cast_y_ne_zero hv) hsq

/-! ### Left folds of point addition -/

theorem isInf_iff (p : Pt) : p.isInf = true ↔ p = .inf := by cases p <;> simp [Pt.isInf]

/-- A left fold of `Pt.add` over valid points is the start value plus the sum of the list. -/
theorem foldl_add {l : List Pt} (hl : ∀ p ∈ l, p.valid = true) {a : Pt} (ha : a.valid = true) :
    l.foldl Pt.add a = Pt.add a (Pt.sum l) ∧ (Pt.sum l).valid = true := by
  induction l generalizing a with
  | nil => exact ⟨by simp [Pt.sum], rfl⟩
  | cons p l ih =>
    have hp : p.valid = true := hl p (by simp)
    have hl' : ∀ q ∈ l, q.valid = true := fun q hq => hl q (by simp [hq])
    have hsum : Pt.sum (p :: l) = Pt.add p (Pt.sum l) := by
      show List.foldl Pt.add (Pt.add .inf p) l = _
      rw [Algebra.add_inf_left]; exact (ih hl' hp).1
    obtain ⟨e1, v1⟩ := ih hl' (valid_add ha hp)
    refine ⟨?_, by rw [hsum]; exact valid_add hp v1⟩
    rw [List.foldl_cons, e1, hsum, pt_add_assoc ha hp v1]

theorem sum_valid {l : List Pt} (hl : ∀ p ∈ l, p.valid = true) : (Pt.sum l).valid = true :=
  (foldl_add hl (a := .inf) rfl).2

theorem sum_cons {p : Pt} {l : List Pt} (hp : p.valid = true) (hl : ∀ q ∈ l, q.valid = true) :
    Pt.sum (p :: l) = Pt.add p (Pt.sum l) := by
  show List.foldl Pt.add (Pt.add .inf p) l = _
  rw [Algebra.add_inf_left]; exact (foldl_add hl hp).1

theorem sum_nil : Pt.sum [] = .inf := rfl

/-! ### Commitment and generator objects -/

theorem liftXQuad_eq (x : ℕ) : Pt.liftXQuad x =
    if Fe.isSquare (rhs x) = true then some (.aff (x % P) (Fe.sqrtCand (rhs x))) else none := by
  unfold Pt.liftXQuad Fe.sqrt Fe.isSquare
  simp only [decide_eq_true_eq]
  split <;> rename_i h <;> split at h <;> simp_all

theorem toNat_be32_mod {x : ℕ} (hx : x < P) : Bytes.toNat (Bytes.be32 x) % P = x := by
  rw [Algebra.toNat_be32 (lt_trans hx Algebra.P_lt_pow), Nat.mod_eq_of_lt hx]

theorem commitLoad_cons (b0 : UInt8) (rest : Bytes) : commitLoad (b0 :: rest) =
    match Pt.liftXQuad (Bytes.toNat rest % P) with
    | none => .inf
    | some p => if b0 &&& 1 = 1 then Pt.neg p else p := rfl

theorem commitSave_aff (x y : ℕ) : commitSave (.aff x y) =
    (if Fe.isSquare y = true then (8 : UInt8) else 9) :: Bytes.be32 x := rfl

theorem serialize_aff (x y : ℕ) : serialize (.aff x y) =
    (if Fe.isSquare y = true then (10 : UInt8) else 11) :: Bytes.be32 x := rfl

theorem commitLoad_commitSave {x y : ℕ} (h : (Pt.aff x y).valid = true) :
    commitLoad (commitSave (.aff x y)) = .aff x y := by
  obtain ⟨hx, _, _⟩ := (valid_aff_iff x y).1 h
  obtain ⟨r, hl, hsel⟩ := quad_select h
  rw [commitSave_aff, commitLoad_cons, toNat_be32_mod hx, hl]
  simp only []
  by_cases hs : Fe.isSquare y = true
  · rw [if_pos hs] at hsel
    rw [if_pos hs, if_neg (show ¬ ((8 : UInt8) &&& 1 = 1) by decide)]; exact hsel
  · rw [if_neg hs] at hsel
    rw [if_neg hs, if_pos (show (9 : UInt8) &&& 1 = 1 by decide)]; exact hsel

/-- Whatever bytes a commitment object holds, it loads to a valid point. -/
theorem commitLoad_valid (c : Bytes) : (commitLoad c).valid = true := by
  unfold commitLoad
  split
  · rfl
  · split
    · rfl
    · next p hp =>
      have hv := (liftXQuad_some hp).1
      split
      · exact valid_neg hv
      · exact hv

theorem commitParse_cons (b0 : UInt8) (rest : Bytes) :
    commitParse (b0 :: rest) =
      if (b0 = 8 ∨ b0 = 9) ∧ Bytes.toNat rest < P ∧ Fe.isSquare (rhs (Bytes.toNat rest)) = true
      then some (b0 :: rest) else none := by
  simp only [commitParse, Codec.feLimit, ← and_FE_eq_8_iff]
  by_cases h1 : b0 &&& 0xFE = 8 <;> by_cases h2 : Bytes.toNat rest < P <;>
    by_cases h3 : Fe.isSquare (rhs (Bytes.toNat rest)) = true <;> simp [h1, h2, h3, rhs]

theorem parse_cons (b0 : UInt8) (rest : Bytes) :
    parse (b0 :: rest) =
      if (b0 = 10 ∨ b0 = 11) ∧ Bytes.toNat rest < P ∧ Fe.isSquare (rhs (Bytes.toNat rest)) = true
      then some (if b0 = 11 then Pt.neg (.aff (Bytes.toNat rest) (Fe.sqrtCand (rhs (Bytes.toNat rest))))
                 else .aff (Bytes.toNat rest) (Fe.sqrtCand (rhs (Bytes.toNat rest))))
      else none := by
  simp only [parse, Codec.feLimit]
  by_cases h1 : b0 = 10 ∨ b0 = 11
  · have h1' : ¬ (b0 &&& 0xFE ≠ 10) := by rw [not_not]; exact (and_FE_eq_10_iff b0).2 h1
    rw [if_neg h1']
    by_cases h2 : Bytes.toNat rest < P
    · simp only [h2, if_true, liftXQuad_eq, Nat.mod_eq_of_lt h2]
      by_cases h3 : Fe.isSquare (rhs (Bytes.toNat rest)) = true
      · simp only [h3, if_true, h1, true_and]
        rcases h1 with rfl | rfl <;>
          simp [show ¬ ((10 : UInt8) &&& 1 = 1) by decide, show (11 : UInt8) &&& 1 = 1 by decide]
      · simp [h3]
    · simp [h2]
  · have h1' : b0 &&& 0xFE ≠ 10 := fun h => h1 ((and_FE_eq_10_iff b0).1 h)
    simp [h1, h1']

theorem commit_of_ge {blind : Bytes} (value : ℕ) (gen : Pt) (h : Bytes.toNat blind ≥ N) :
    commit blind value gen = none := by
  unfold commit Sc.setB32; simp [h]

theorem commit_of_lt {blind : Bytes} (value : ℕ) (gen : Pt) (h : Bytes.toNat blind < N) :
    commit blind value gen =
      if Pt.add (Pt.mulG (Bytes.toNat blind)) (Pt.mul value gen) = .inf then none
      else some (commitSave (Pt.add (Pt.mulG (Bytes.toNat blind)) (Pt.mul value gen))) := by
  unfold commit Sc.setB32
  simp only [Nat.mod_eq_of_lt h, ge_iff_le, Nat.not_le.2 h, decide_false]
  cases Pt.add (Pt.mulG (Bytes.toNat blind)) (Pt.mul value gen) <;> simp

/-! ### Tally -/

theorem commitLoad_map_valid (l : List Bytes) : ∀ p ∈ l.map commitLoad, p.valid = true := by
  intro p hp
  obtain ⟨c, _, rfl⟩ := List.mem_map.1 hp
  exact commitLoad_valid c

/-- The two left folds of `verifyTally` compute `(-Σneg) + Σpos`. -/
theorem verifyTally_eq (pos neg : List Bytes) :
    verifyTally pos neg =
      (Pt.add (Pt.neg (Pt.sum (neg.map commitLoad))) (Pt.sum (pos.map commitLoad))).isInf := by
  unfold verifyTally
  have e1 : neg.foldl (fun a c => Pt.add a (commitLoad c)) Pt.inf = Pt.sum (neg.map commitLoad) :=
    (List.foldl_map ..).symm
  have e2 : ∀ a, pos.foldl (fun a c => Pt.add a (commitLoad c)) a =
      (pos.map commitLoad).foldl Pt.add a := fun a => (List.foldl_map ..).symm
  simp only [e1, e2]
  have hv := sum_valid (commitLoad_map_valid neg)
  rw [(foldl_add (commitLoad_map_valid pos) (valid_neg hv)).1]

/-- `p - q = ∞` iff `p = q`, for valid points. -/
theorem sub_eq_inf_iff {p q : Pt} (hp : p.valid = true) (hq : q.valid = true) :
    Pt.sub p q = .inf ↔ p = q := by
  unfold Pt.sub
  rw [add_eq_inf_iff hp (valid_neg hq)]
  constructor
  · intro h
    have := congrArg toPoint h
    rw [toPoint_neg hq, toPoint_neg hp, neg_inj] at this
    exact (toPoint_injective hp hq this.symm)
  · intro h; rw [h]

theorem neg_add_eq_sub {p q : Pt} (hp : p.valid = true) (hq : q.valid = true) :
    Pt.add (Pt.neg q) p = Pt.sub p q := by
  unfold Pt.sub; exact pt_add_comm (valid_neg hq) hp

/-! ### Scalar bookkeeping: `blindSum` -/

/-- value of a 32-byte scalar in `ZMod N` -/
abbrev sc (b : Bytes) : ZMod N := ((Bytes.toNat b : ℕ) : ZMod N)

theorem blindSum_go_none (npos : ℕ) : ∀ (l : List Bytes) (i acc : ℕ),
    blindSum.go npos l i acc = none ↔ ∃ b ∈ l, Bytes.toNat b ≥ N := by
  intro l
  induction l with
  | nil => intro i acc; simp [blindSum.go]
  | cons b bs ih =>
    intro i acc
    simp only [blindSum.go, Sc.setB32, List.mem_cons, exists_eq_or_imp]
    by_cases h : Bytes.toNat b ≥ N
    · simp [h]
    · simp only [h, decide_false, Bool.false_eq_true, if_false, false_or]
      exact ih _ _

theorem blindSum_go_some (npos : ℕ) : ∀ (l : List Bytes) (i acc : ℕ),
    (∀ b ∈ l, Bytes.toNat b < N) → acc < N →
    ∃ r, r < N ∧ blindSum.go npos l i acc = some r ∧
      (r : ZMod N) = (acc : ZMod N) + ((l.take (npos - i)).map sc).sum
        - ((l.drop (npos - i)).map sc).sum := by
  intro l
  induction l with
  | nil => intro i acc _ hacc; exact ⟨acc, hacc, rfl, by simp⟩
  | cons b bs ih =>
    intro i acc hl hacc
    have hb : Bytes.toNat b < N := hl b (by simp)
    have hbs : ∀ c ∈ bs, Bytes.toNat c < N := fun c hc => hl c (by simp [hc])
    simp only [blindSum.go, Sc.setB32, ge_iff_le, Nat.not_le.2 hb, decide_false,
      Bool.false_eq_true, if_false, Nat.mod_eq_of_lt hb]
    obtain ⟨r, hr, hgo, hcast⟩ := ih (i + 1)
      (Sc.add acc (if i ≥ npos then Sc.neg (Bytes.toNat b) else Bytes.toNat b)) hbs (Sc.add_lt_N _ _)
    refine ⟨r, hr, hgo, ?_⟩
    rw [hcast]
    by_cases hi : i ≥ npos
    · have e1 : npos - i = 0 := by omega
      have e2 : npos - (i + 1) = 0 := by omega
      simp [e1, e2, hi, Sc.cast_add, Sc.cast_neg]
      ring
    · have e1 : npos - i = (npos - (i + 1)) + 1 := by omega
      rw [e1]
      simp [hi, Sc.cast_add]
      ring

/-- A residue below `N` that is congruent to the integer `z` is `z mod N`. -/
theorem eq_emod_of_cast {r : ℕ} {z : ℤ} (hr : r < N) (h : (r : ZMod N) = (z : ZMod N)) :
    r = (z % (N : ℤ)).toNat := by
  have h' : (((r : ℤ)) : ZMod N) = (z : ZMod N) := by rw [← h]; simp
  rw [ZMod.intCast_eq_intCast_iff'] at h'
  have : ((r : ℤ)) % (N : ℤ) = r := Int.emod_eq_of_lt (by omega) (by exact_mod_cast hr)
  rw [← h', this]; simp

theorem cast_sum_toNat (l : List Bytes) :
    (((l.map (fun b => (Bytes.toNat b : ℤ))).sum : ℤ) : ZMod N) = (l.map sc).sum := by
  induction l with
  | nil => simp
  | cons b bs ih => simp [ih]

/-! ### Scalar bookkeeping: `blindGeneratorBlindSum` -/

/-- an entry `(value, generator blind, blinding factor)` -/
abbrev Entry := ℕ × Bytes × Bytes

/-- `v·r + r'` in `ZMod N` -/
def term (e : Entry) : ZMod N := (e.1 : ZMod N) * sc e.2.1 + sc e.2.2

/-- outputs (index ≥ `k`) minus inputs (index < `k`) -/
def signedSum (l : List Entry) (k : ℕ) : ZMod N :=
  ((l.drop k).map term).sum - ((l.take k).map term).sum

/-- the entry is well-formed: both scalars are canonical -/
def entryOk (e : Entry) : Prop := Bytes.toNat e.2.1 < N ∧ Bytes.toNat e.2.2 < N

theorem bgbs_go_none (nIn : ℕ) : ∀ (l : List Entry) (i sum tmp : ℕ),
    blindGeneratorBlindSum.go nIn l i sum tmp = none ↔ ∃ e ∈ l, ¬ entryOk e := by
  intro l
  induction l with
  | nil => intro i sum tmp; simp [blindGeneratorBlindSum.go]
  | cons e es ih =>
    intro i sum tmp
    obtain ⟨v, gb, bf⟩ := e
    simp only [blindGeneratorBlindSum.go, Sc.setB32, List.mem_cons, exists_eq_or_imp, entryOk]
    by_cases h1 : Bytes.toNat gb ≥ N
    · simp [h1]
    · by_cases h2 : Bytes.toNat bf ≥ N
      · simp [h1, h2]
      · simp only [h1, h2, decide_false, Bool.false_eq_true, if_false]
        rw [ih]
        have h1' := Nat.not_le.1 h1
        have h2' := Nat.not_le.1 h2
        simp [h1', h2', entryOk]

theorem bgbs_go_some (nIn : ℕ) : ∀ (l : List Entry) (i sum tmp : ℕ),
    (∀ e ∈ l, entryOk e) →
    ∃ s, blindGeneratorBlindSum.go nIn l i sum tmp =
        some (s, ((l.getLast?.map (fun e => Bytes.toNat e.2.2)).getD tmp)) ∧
      (sum < N → s < N) ∧
      (s : ZMod N) = (sum : ZMod N) + signedSum l (nIn - i) := by
  intro l
  induction l with
  | nil => intro i sum tmp _; exact ⟨sum, rfl, id, by simp [signedSum]⟩
  | cons e es ih =>
    intro i sum tmp hl
    obtain ⟨v, gb, bf⟩ := e
    have he : entryOk (v, gb, bf) := hl _ (by simp)
    have hes : ∀ e ∈ es, entryOk e := fun c hc => hl c (by simp [hc])
    obtain ⟨h1, h2⟩ := he
    simp only at h1 h2
    simp only [blindGeneratorBlindSum.go, Sc.setB32, ge_iff_le, Nat.not_le.2 h1, Nat.not_le.2 h2,
      decide_false, Bool.false_eq_true, if_false, Nat.mod_eq_of_lt h1, Nat.mod_eq_of_lt h2]
    obtain ⟨s, hgo, hlt, hcast⟩ := ih (i + 1)
      (Sc.add sum (if i < nIn then Sc.neg (Sc.add (Sc.mul (v % N) (Bytes.toNat gb)) (Bytes.toNat bf))
        else Sc.add (Sc.mul (v % N) (Bytes.toNat gb)) (Bytes.toNat bf))) (Bytes.toNat bf) hes
    refine ⟨s, ?_, fun _ => hlt (Sc.add_lt_N _ _), ?_⟩
    · rw [hgo]
      cases es with
      | nil => rfl
      | cons e' es' =>
        rw [List.getLast?_cons_cons, List.getLast?_eq_some_getLast (List.cons_ne_nil e' es')]
        rfl
    · rw [hcast]
      by_cases hi : i < nIn
      · have e1 : nIn - i = (nIn - (i + 1)) + 1 := by omega
        rw [e1]
        simp [hi, signedSum, term, Sc.cast_add, Sc.cast_neg, Sc.cast_mul]
        ring
      · have e1 : nIn - i = 0 := by omega
        have e2 : nIn - (i + 1) = 0 := by omega
        simp [e1, e2, hi, signedSum, term, Sc.cast_add, Sc.cast_mul]
        ring

/-- splitting off the last entry: it is an output when `k ≤` the length of the rest -/
theorem signedSum_append_singleton (l : List Entry) (e : Entry) {k : ℕ} (hk : k ≤ l.length) :
    signedSum (l ++ [e]) k = signedSum l k + term e := by
  unfold signedSum
  rw [List.take_append_of_le_length hk, List.drop_append_of_le_length hk]
  simp
  ring

/-! ### The Shallue–van de Woestijne map lands on the curve -/

section SvdwAlgebra
variable {F : Type} [Field F]

/-- with `u = cT/D`, `x1 = d - u`: `(x1² + x1 + 1)·D² = 24·T` -/
theorem svdw_h {T c d D u x1 h : F} (hD : D = T + 8) (huD : u * D = c * T) (hx1 : x1 = d - u)
    (hc : c * c = -3) (hd : 2 * d + 1 = c) (hd2 : d * d + d + 1 = 0) (hh : h = x1 * x1 + x1 + 1) :
    h * D ^ 2 = 24 * T := by
  subst hh hx1 hD
  linear_combination ((T + 8) ^ 2) * hd2 - (c * T * (T + 8)) * hd - (8 * T) * hc
    + (-(2 * d + 1) * (T + 8) + (u * (T + 8) + c * T)) * huD

theorem svdw_sh {T D s h : F} (hs : s * (3 * T) = -D ^ 2) (hh : h * D ^ 2 = 24 * T)
    (hD0 : D ≠ 0) (hT0 : T ≠ 0) (h3 : (3 : F) ≠ 0) : s * h = -8 := by
  have e : (s * h + 8) * (3 * T * D ^ 2) = 0 := by
    linear_combination (h * D ^ 2) * hs + (-(D ^ 2)) * hh
  have hne : 3 * T * D ^ 2 ≠ 0 := mul_ne_zero (mul_ne_zero h3 hT0) (pow_ne_zero 2 hD0)
  have := (mul_eq_zero.1 e).resolve_right hne
  linear_combination this

/-- The three candidate right-hand sides in factored form (`g(x) = x³ + 7`, `h = x1² + x1 + 1`,
    `s·h = -8`): the classical Shallue–van de Woestijne identity `g(x3)·h² = s·g(x1)·g(x2)`. -/
theorem svdw_identity {x1 s h : F} (hh : h = x1 * x1 + x1 + 1) (hsh : s * h = -8) :
    ((1 + s) * (1 + s) * (1 + s) + 7) * h ^ 2 =
      s * (x1 * x1 * x1 + 7) * ((-(x1 + 1)) * (-(x1 + 1)) * (-(x1 + 1)) + 7) := by
  have e1 : x1 * x1 * x1 + 7 = h * (x1 - 1 - s) := by subst hh; linear_combination hsh
  have e2 : (-(x1 + 1)) * (-(x1 + 1)) * (-(x1 + 1)) + 7 = -(h * (s + 2 + x1)) := by
    subst hh; linear_combination hsh
  have e3 : (1 + s) * (1 + s) * (1 + s) + 7 = s * (s + 1 - x1) * (s + 2 + x1) := by
    subst hh; linear_combination hsh
  rw [e1, e2, e3]; ring

/-- `s = D²/(-3t²)` is the square of `D/(c·t)` -/
theorem svdw_s_sq {s D c t T : F} (hs : s * (3 * T) = -D ^ 2) (hT : T = t * t) (hc : c * c = -3)
    (hct : c * t ≠ 0) (h3T : 3 * T ≠ 0) : s = (D * (c * t)⁻¹) * (D * (c * t)⁻¹) := by
  apply mul_right_cancel₀ h3T
  rw [hs, hT]
  have hi : (c * t) * (c * t)⁻¹ = 1 := mul_inv_cancel₀ hct
  linear_combination (D ^ 2 * (c * t * (c * t)⁻¹ + 1)) * hi - (D ^ 2 * ((c * t)⁻¹) ^ 2 * t ^ 2) * hc

theorem sq_of_identity {G h σ m : F} (hh0 : h ≠ 0) (hid : G * h ^ 2 = (σ * σ) * (m * m)) :
    IsSquare G := by
  refine ⟨σ * m * h⁻¹, ?_⟩
  have hhi : h * h⁻¹ = 1 := mul_inv_cancel₀ hh0
  linear_combination (-G * (h * h⁻¹ + 1)) * hhi + (h⁻¹) ^ 2 * hid

end SvdwAlgebra

theorem isSquare_eight : IsSquare (8 : ZMod P) := by
  have h : Fe.isSquare 8 = true := by decide +kernel
  have := (Fe.isSquare_iff 8).1 h
  simpa using this

theorem zmodP_eight_ne_zero : (8 : ZMod P) ≠ 0 := by
  have : (8 : ZMod P) = 2 * 2 * 2 := by norm_num
  rw [this]
  exact mul_ne_zero (mul_ne_zero zmodP_two_ne_zero zmodP_two_ne_zero) zmodP_two_ne_zero

/-- `t² + 8 ≠ 0`: `-8` is not a square modulo `P`. -/
theorem sq_add_eight_ne_zero (t : ZMod P) : t * t + 8 ≠ 0 := by
  intro h
  apply not_isSquare_neg zmodP_eight_ne_zero isSquare_eight
  exact ⟨t, by linear_combination -h⟩

/-- the constants of the map: `c = -negc` is a square root of `-3`, `d = (c - 1)/2` is a primitive cube
    root of unity -/
theorem negc_sq : (-(negc : ZMod P)) * (-(negc : ZMod P)) = -3 := by
  have h : Fe.add (Fe.mul negc negc) 3 = 0 := by decide +kernel
  have := congrArg (Nat.cast : ℕ → ZMod P) h
  simp only [Fe.cast_add, Fe.cast_mul, Nat.cast_ofNat, Nat.cast_zero] at this
  linear_combination this

theorem dconst_rel : 2 * (dconst : ZMod P) + 1 = -(negc : ZMod P) := by
  have h : Fe.add (Fe.add (Fe.mul 2 dconst) 1) negc = 0 := by decide +kernel
  have := congrArg (Nat.cast : ℕ → ZMod P) h
  simp only [Fe.cast_add, Fe.cast_mul, Nat.cast_ofNat, Nat.cast_zero, Nat.cast_one] at this
  linear_combination this

theorem dconst_cube : (dconst : ZMod P) * dconst + dconst + 1 = 0 := by
  have h : Fe.add (Fe.add (Fe.sqr dconst) dconst) 1 = 0 := by decide +kernel
  have := congrArg (Nat.cast : ℕ → ZMod P) h
  simp only [Fe.cast_add, Fe.cast_sqr, Nat.cast_zero, Nat.cast_one] at this
  exact this

/-- **Key fact**: over `ZMod P`, for `T = t²`, if the first two candidates are not abscissas of curve
    points then the third is. -/
theorem svdw_third (t : ZMod P) :
    let T := t * t
    let D := T + 8
    let X3D := -(3 * T)
    let J := (D * X3D)⁻¹
    let x1 := (negc : ZMod P) * T * X3D * J + dconst
    let x2 := -(x1 + 1)
    let x3 := D * D * D * J + 1
    ¬ IsSquare (x1 * x1 * x1 + 7) → ¬ IsSquare (x2 * x2 * x2 + 7) → IsSquare (x3 * x3 * x3 + 7) := by
  intro T D X3D J x1 x2 x3 hg1 hg2
  have hc := negc_sq
  have hd := dconst_rel
  have hd2 := dconst_cube
  by_cases ht : t = 0
  · -- `t = 0`: `x1 = d`, `g(x1) = 8` is a square
    exfalso; apply hg1
    have e : x1 = dconst := by simp [x1, T, ht]
    rw [e]
    have : (dconst : ZMod P) * dconst * dconst + 7 = 8 := by
      linear_combination ((dconst : ZMod P) - 1) * hd2
    rw [this]; exact isSquare_eight
  · have hT0 : T ≠ 0 := mul_ne_zero ht ht
    have hD0 : D ≠ 0 := sq_add_eight_ne_zero t
    have h3 := zmodP_three_ne_zero
    have hX : X3D ≠ 0 := neg_ne_zero.2 (mul_ne_zero h3 hT0)
    have hc0 : (-(negc : ZMod P)) ≠ 0 := by
      intro h0; rw [h0, mul_zero] at hc
      exact h3 (by linear_combination hc)
    set c : ZMod P := -(negc : ZMod P) with hcdef
    -- simplified forms
    have hx1 : x1 = dconst - c * T * D⁻¹ := by
      simp only [x1, J, X3D, hcdef]; field_simp; ring
    have hs : (x3 - 1) * (3 * T) = -D ^ 2 := by
      simp only [x3, J, X3D]; field_simp; ring
    have huD : (c * T * D⁻¹) * D = c * T := by field_simp
    have hh := svdw_h (T := T) (D := D) (h := x1 * x1 + x1 + 1) rfl huD hx1 hc hd hd2 rfl
    have hsh := svdw_sh hs hh hD0 hT0 h3
    have hid := svdw_identity (x1 := x1) (s := x3 - 1) (h := x1 * x1 + x1 + 1) rfl hsh
    have hh0 : x1 * x1 + x1 + 1 ≠ 0 := by
      intro h0; rw [h0, mul_zero] at hsh
      exact zmodP_eight_ne_zero (by linear_combination hsh)
    -- `s` is a square
    have hsq := svdw_s_sq (t := t) hs rfl hc (mul_ne_zero hc0 ht) (mul_ne_zero h3 hT0)
    obtain ⟨m, hm⟩ := isSquare_mul_of_not hg1 hg2
    have hm' : (x1 * x1 * x1 + 7) * ((-(x1 + 1)) * (-(x1 + 1)) * (-(x1 + 1)) + 7) = m * m := hm
    have e3 : x3 * x3 * x3 + 7 = (1 + (x3 - 1)) * (1 + (x3 - 1)) * (1 + (x3 - 1)) + 7 := by ring
    rw [e3]
    refine sq_of_identity hh0 (σ := D * (c * t)⁻¹) (m := m) ?_
    rw [hid, ← hsq, ← hm']; ring

/-- A canonical abscissa whose right-hand side is a square gives a valid point. -/
theorem valid_of_isSquare {x : ℕ} (hx : x < P) (h : Fe.isSquare (rhs x) = true) :
    (Pt.aff x (Fe.sqrtCand (rhs x))).valid = true := by
  have hs : Fe.sqrt (rhs x) = some (Fe.sqrtCand (rhs x)) :=
    (Fe.sqrt_eq_some_iff _ _).2 ⟨rfl, (Fe.isSquare_iff _).1 h⟩
  have := valid_of_sqrt hs
  rwa [Nat.mod_eq_of_lt hx] at this

open Lean Elab Term Meta in
/-- the definitional value of a constant, verbatim -/
elab "defValue% " id:ident : term => do
  let c ← realizeGlobalConstNoOverloadWithInfo id
  let info ← getConstInfo c
  match info.value? with
  | some v => return v
  | none => throwError "constant has no value"

/-- Unfolding of `svdw`, stated with the verbatim body so that the kernel accepts it by syntactic
    identity (the generic `unfold`/`delta` makes the kernel evaluate `powMod` on open terms). -/
theorem svdw_def : svdw = defValue% svdw := rfl

theorem cast_rhs' (x : ℕ) : ((rhs x : ℕ) : ZMod P) = (x : ZMod P) * x * x + 7 := cast_rhs x

/-- **The Shallue–van de Woestijne map always lands on the curve**: `svdw t` is `(x, ±√(x³+7))` for a
    canonical `x` with `x³ + 7` a square. -/
theorem svdw_spec (t : ℕ) : ∃ x, x < P ∧ Fe.isSquare (rhs x) = true ∧
    svdw t = .aff x (if Fe.isOdd t = true then Fe.neg (Fe.sqrtCand (rhs x)) else Fe.sqrtCand (rhs x)) := by
  have h : svdw t = (defValue% svdw) t := congrFun svdw_def t
  beta_reduce at h
  extract_lets t2 wd x3d jinv x1 x2 x3 f a b c aq bq at h
  have hx1 : x1 < P := Fe.add_lt_P _ _
  have hx2 : x2 < P := Fe.neg_lt_P _
  have hx3 : x3 < P := Fe.add_lt_P _ _
  have hthird : ¬ Fe.isSquare (rhs x1) = true → ¬ Fe.isSquare (rhs x2) = true →
      Fe.isSquare (rhs x3) = true := by
    intro h1 h2
    rw [Fe.isSquare_iff, cast_rhs'] at h1 h2 ⊢
    have key := svdw_third (t : ZMod P)
    simp only [] at key
    have e1 : ((x1 : ℕ) : ZMod P) =
        (negc : ZMod P) * ((t : ZMod P) * t) * (-(3 * ((t : ZMod P) * t))) *
          (((t : ZMod P) * t + 8) * (-(3 * ((t : ZMod P) * t))))⁻¹ + dconst := by
      simp only [x1, jinv, x3d, wd, t2, Fe.cast_add, Fe.cast_mul, Fe.cast_neg, Fe.cast_inv,
        Fe.cast_sqr, Nat.cast_ofNat]
    have e3 : ((x3 : ℕ) : ZMod P) =
        ((t : ZMod P) * t + 8) * ((t : ZMod P) * t + 8) * ((t : ZMod P) * t + 8) *
          (((t : ZMod P) * t + 8) * (-(3 * ((t : ZMod P) * t))))⁻¹ + 1 := by
      simp only [x3, jinv, x3d, wd, t2, Fe.cast_add, Fe.cast_mul, Fe.cast_neg, Fe.cast_inv,
        Fe.cast_sqr, Nat.cast_ofNat, Nat.cast_one]
    have e2 : ((x2 : ℕ) : ZMod P) = -(((x1 : ℕ) : ZMod P) + 1) := by
      simp only [x2, Fe.cast_add, Fe.cast_neg, Nat.cast_one]
    rw [e2, e1] at h2
    rw [e1] at h1
    rw [e3]
    exact key h1 h2
  rw [h]
  by_cases haq : aq = true
  · refine ⟨x1, hx1, haq, ?_⟩; rw [if_pos haq]
  · by_cases hbq : bq = true
    · refine ⟨x2, hx2, hbq, ?_⟩; rw [if_neg haq, if_pos hbq]
    · refine ⟨x3, hx3, hthird haq hbq, ?_⟩; rw [if_neg haq, if_neg hbq]

theorem svdw_valid (t : ℕ) : (svdw t).valid = true := by
  obtain ⟨x, hx, hsq, h⟩ := svdw_spec t
  rw [h]
  have hv := valid_of_isSquare hx hsq
  split
  · exact valid_neg hv
  · exact hv

theorem svdw_ne_inf (t : ℕ) : svdw t ≠ .inf := by
  obtain ⟨x, _, _, h⟩ := svdw_spec t
  rw [h]; exact fun h => Pt.noConfusion h

/-! ### `generateInternal` -/

/-- the two hash-derived field elements of `generateInternal` (before the range check) -/
def genT1 (key32 : Bytes) : ℕ := Bytes.toNat (Sha256.sha256 ("1st generation: ".toUTF8.toList ++ key32))
def genT2 (key32 : Bytes) : ℕ := Bytes.toNat (Sha256.sha256 ("2nd generation: ".toUTF8.toList ++ key32))

theorem generateInternal_def : generateInternal = defValue% generateInternal := rfl

theorem generateInternal_none (key : Bytes) : generateInternal key none =
    (if genT1 key < P ∧ genT2 key < P then 1 else 0,
     Pt.add (Pt.add .inf (svdw (genT1 key % P))) (svdw (genT2 key % P))) := by
  rw [generateInternal_def]
  simp only [genT1, genT2, Bool.true_and, Bool.and_eq_true, decide_eq_true_eq]
  exact Prod.ext (if_congr Iff.rfl rfl rfl) rfl

theorem generateInternal_some (key b : Bytes) : generateInternal key (some b) =
    (if Bytes.toNat b < N ∧ genT1 key < P ∧ genT2 key < P then 1 else 0,
     Pt.add (Pt.add (Pt.mulG (Bytes.toNat b % N)) (svdw (genT1 key % P))) (svdw (genT2 key % P))) := by
  rw [generateInternal_def]
  simp only [genT1, genT2, Sc.setB32, Bool.and_eq_true, decide_eq_true_eq, Bool.not_eq_true',
    decide_eq_false_iff_not, ge_iff_le, Nat.not_le, and_assoc]
  exact Prod.ext (if_congr Iff.rfl rfl rfl) rfl

end GeneratorLemmas
end SecpZkp
