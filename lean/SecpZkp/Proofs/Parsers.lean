import SecpZkp.Model.Surjection
import SecpZkp.Model.Whitelist
import SecpZkp.Model.Halfagg
import SecpZkp.Model.Bppp
import SecpZkp.Model.Musig
import SecpZkp.Model.Adaptor
/-
  Helper lemmas for the parser / length-check theorems (C07, C11, C16, C17, C19).
  Core Lean only.
-/
namespace SecpZkp
namespace Parsers

/-! ### bytes -/

theorem length_ofNat (n x : Nat) : (Bytes.ofNat n x).length = n := by
  induction n with
  | zero => rfl
  | succ k ih => simp [Bytes.ofNat, ih]

theorem length_be32 (x : Nat) : (Bytes.be32 x).length = 32 := length_ofNat 32 x

theorem length_zeros (n : Nat) : (Bytes.zeros n).length = n := by simp [Bytes.zeros]

theorem u8_ofNat_toNat (b : UInt8) : UInt8.ofNat b.toNat = b := by
  simp

theorem u8_toNat_lt (b : UInt8) : b.toNat < 256 := UInt8.toNat_lt b

/-- `Bytes.toNat` with an accumulator -/
theorem toNat_foldl (bs : Bytes) (a : Nat) :
    bs.foldl (fun acc b => acc * 256 + b.toNat) a = a * 256 ^ bs.length + Bytes.toNat bs := by
  induction bs generalizing a with
  | nil => simp [Bytes.toNat]
  | cons b t ih =>
    simp only [List.foldl_cons, Bytes.toNat, List.length_cons]
    rw [ih, ih (0 * 256 + b.toNat)]
    rw [Nat.pow_succ, Nat.add_mul]
    simp [Nat.mul_assoc, Nat.add_assoc, Nat.mul_comm 256]

theorem toNat_cons (b : UInt8) (t : Bytes) :
    Bytes.toNat (b :: t) = b.toNat * 256 ^ t.length + Bytes.toNat t := by
  have := toNat_foldl t (0 * 256 + b.toNat)
  simpa [Bytes.toNat] using this

theorem toNat_lt (bs : Bytes) : Bytes.toNat bs < 256 ^ bs.length := by
  induction bs with
  | nil => simp [Bytes.toNat]
  | cons b t ih =>
    rw [toNat_cons, List.length_cons, Nat.pow_succ]
    have hb := u8_toNat_lt b
    have : b.toNat * 256 ^ t.length + 256 ^ t.length ≤ 256 * 256 ^ t.length := by
      have : (b.toNat + 1) * 256 ^ t.length ≤ 256 * 256 ^ t.length :=
        Nat.mul_le_mul_right _ (by omega)
      simpa [Nat.add_mul] using this
    rw [Nat.mul_comm (256 ^ t.length) 256]
    omega

/-- `Bytes.toNat (Bytes.ofNat n x) = x mod 256^n` -/
theorem toNat_ofNat (n x : Nat) : Bytes.toNat (Bytes.ofNat n x) = x % 256 ^ n := by
  induction n with
  | zero => simp [Bytes.ofNat, Bytes.toNat, Nat.mod_one]
  | succ k ih =>
    simp only [Bytes.ofNat]
    rw [toNat_cons, ih, length_ofNat, UInt8.toNat_ofNat', Nat.mod_mod_of_dvd _ (by decide : 256 ∣ 2 ^ 8),
      Nat.mod_pow_succ]
    rw [Nat.mul_comm]; omega

theorem toNat_be32 (x : Nat) (h : x < 2 ^ 256) : Bytes.toNat (Bytes.be32 x) = x := by
  unfold Bytes.be32
  rw [toNat_ofNat, Nat.mod_eq_of_lt (by rw [show (256 : Nat) ^ 32 = 2 ^ 256 by decide +kernel]; exact h)]

/-- `ofNat n` only depends on the value modulo `256^n` -/
theorem ofNat_add_mul (n x a : Nat) : Bytes.ofNat n (x + a * 256 ^ n) = Bytes.ofNat n x := by
  induction n generalizing a with
  | zero => rfl
  | succ k ih =>
    simp only [Bytes.ofNat]
    have e : a * 256 ^ (k + 1) = (a * 256) * 256 ^ k := by
      rw [Nat.pow_succ, ← Nat.mul_assoc, Nat.mul_right_comm]
    have hpos : 0 < 256 ^ k := Nat.pow_pos (by decide)
    have h1 : (x + a * 256 ^ (k + 1)) / 256 ^ k % 256 = x / 256 ^ k % 256 := by
      rw [e, Nat.add_mul_div_right _ _ hpos]; omega
    have h2 : Bytes.ofNat k (x + a * 256 ^ (k + 1)) = Bytes.ofNat k x := by
      rw [e]; exact ih _
    rw [h1, h2]

/-- `Bytes.ofNat bs.length (Bytes.toNat bs) = bs` -/
theorem ofNat_toNat (bs : Bytes) : Bytes.ofNat bs.length (Bytes.toNat bs) = bs := by
  induction bs with
  | nil => rfl
  | cons b t ih =>
    rw [toNat_cons, List.length_cons]
    simp only [Bytes.ofNat]
    have hlt := toNat_lt t
    have hb := u8_toNat_lt b
    have h1 : (b.toNat * 256 ^ t.length + Bytes.toNat t) / 256 ^ t.length % 256 = b.toNat := by
      have hpos : 0 < 256 ^ t.length := Nat.pow_pos (by decide)
      rw [Nat.add_comm, Nat.add_mul_div_right _ _ hpos, Nat.div_eq_of_lt hlt]
      omega
    rw [h1, Nat.add_comm, ofNat_add_mul, ih, UInt8.ofNat_toNat]

/-! ### scalars -/

theorem N_pos : 0 < N := by decide +kernel
theorem P_pos : 0 < P := by decide +kernel

/-- `secp256k1_scalar_set_b32` followed by the test "overflow or zero" rejects exactly the values
0 and `≥ N`. -/
theorem setB32_bad_iff (b : Bytes) :
    ((Sc.setB32 b).2 = true ∨ (Sc.setB32 b).1 = 0) ↔ (Bytes.toNat b = 0 ∨ N ≤ Bytes.toNat b) := by
  have hN := N_pos
  simp only [Sc.setB32, decide_eq_true_eq]
  constructor
  · rintro (h | h)
    · exact Or.inr h
    · by_cases hlt : Bytes.toNat b < N
      · rw [Nat.mod_eq_of_lt hlt] at h; exact Or.inl h
      · exact Or.inr (by omega)
  · rintro (h | h)
    · exact Or.inr (by rw [h]; simp)
    · exact Or.inl h

theorem setB32_fst_lt (b : Bytes) : (Sc.setB32 b).1 < N := Nat.mod_lt _ N_pos

section
open Surjection
/-! ### surjection proof parser -/

/-- the little-endian 16-bit field `n_inputs` at the start of a serialized surjection proof -/
def le16 (bs : Bytes) : Nat := (bs.getD 1 0).toNat * 256 + (bs.getD 0 0).toNat

/-- the padding-bit test of `secp256k1_surjectionproof_parse`, as written in the C code -/
def padBad (input : Bytes) (n : Nat) : Bool :=
  if n % 8 ≠ 0 then
    decide ((input.getD (2 + bitmapLen n - 1) 0 &&& UInt8.ofNat (0xFFFFFFFF * 2 ^ (n % 8) % 256)) ≠ 0)
  else false

/-- No bit at a position `≥ n` is set in the first `bitmapLen n` bytes of `bitmap`. -/
def NoPadding (n : Nat) (bitmap : Bytes) : Prop :=
  ∀ i, i < 8 * bitmapLen n → n ≤ i → testBit bitmap i = false

instance (n : Nat) (bitmap : Bytes) : Decidable (NoPadding n bitmap) := by
  unfold NoPadding; infer_instance

/-- `parse` with its `let`s named -/
theorem surj_parse_unfold (input : Bytes) (prior : Proof) :
    parse input prior =
      if input.length < 2 then (0, prior) else
      if le16 input > MAX_N_INPUTS then (0, prior) else
      if input.length < 2 + bitmapLen (le16 input) then (0, prior) else
      if padBad input (le16 input) = true then (0, prior) else
      if input.length ≠ 2 + bitmapLen (le16 input) + 32 * (1 + countBitsSet (input.drop 2) (bitmapLen (le16 input)))
      then (0, prior) else
      (1, { nInputs := le16 input
            used := (input.drop 2).take (bitmapLen (le16 input)) ++ prior.used.drop (bitmapLen (le16 input))
            data := (input.drop (2 + bitmapLen (le16 input))).take
                      (32 * (1 + countBitsSet (input.drop 2) (bitmapLen (le16 input))))
                    ++ prior.data.drop (32 * (1 + countBitsSet (input.drop 2) (bitmapLen (le16 input)))) }) := rfl

theorem mask_lemma : ∀ k, k < 8 → ∀ n, n < 256 →
    ((UInt8.ofNat n &&& UInt8.ofNat (0xFFFFFFFF * 2 ^ k % 256)) = 0 ↔ ∀ j, j < 8 → k ≤ j → n / 2 ^ j % 2 = 0) := by
  decide +kernel

theorem getD_take_drop (l : Bytes) (a c j : Nat) (d : UInt8) (h : j < c) :
    ((l.drop a).take c).getD j d = l.getD (a + j) d := by
  simp [List.getD_eq_getElem?_getD, h]

theorem testBit_eq (bm : Bytes) (i : Nat) :
    testBit bm i = decide ((bm.getD (i / 8) 0).toNat / 2 ^ (i % 8) % 2 = 1) := rfl

theorem noPadding_of_mod_zero (n : Nat) (bm : Bytes) (h : n % 8 = 0) : NoPadding n bm := by
  intro i hi hn
  unfold bitmapLen at hi
  omega

/-- with `n % 8 ≠ 0`: no padding bit iff the bits `n % 8 ..7` of byte `n / 8` are clear -/
theorem noPadding_iff_byte (n : Nat) (bm : Bytes) (h : n % 8 ≠ 0) :
    NoPadding n bm ↔ ∀ j, j < 8 → n % 8 ≤ j → (bm.getD (n / 8) 0).toNat / 2 ^ j % 2 = 0 := by
  have hbl : bitmapLen n = n / 8 + 1 := by unfold bitmapLen; omega
  constructor
  · intro hnp j hj hk
    have := hnp (8 * (n / 8) + j) (by rw [hbl]; omega) (by omega)
    rw [testBit_eq] at this
    have h1 : (8 * (n / 8) + j) / 8 = n / 8 := by omega
    have h2 : (8 * (n / 8) + j) % 8 = j := by omega
    rw [h1, h2] at this
    have := of_decide_eq_false this
    omega
  · intro hb i hi hn
    rw [hbl] at hi
    rw [testBit_eq]
    have h1 : i / 8 = n / 8 := by omega
    have := hb (i % 8) (by omega) (by omega)
    rw [h1]
    apply decide_eq_false
    omega

theorem padBad_iff (input : Bytes) (n : Nat) :
    padBad input n = true ↔ ¬ NoPadding n ((input.drop 2).take (bitmapLen n)) := by
  unfold padBad
  by_cases h : n % 8 = 0
  · simp [h, noPadding_of_mod_zero n _ h]
  · have hbl : bitmapLen n = n / 8 + 1 := by unfold bitmapLen; omega
    rw [if_pos h, noPadding_iff_byte n _ h, getD_take_drop _ _ _ _ _ (by omega)]
    have hidx : 2 + bitmapLen n - 1 = 2 + n / 8 := by omega
    rw [hidx]
    have hm := mask_lemma (n % 8) (by omega) (input.getD (2 + n / 8) 0).toNat (u8_toNat_lt _)
    rw [UInt8.ofNat_toNat] at hm
    rw [← hm]
    simp

theorem popcount8_le (b : UInt8) : popcount8 b ≤ 8 := by
  unfold popcount8; simp only []; omega

theorem popcount8_le_of_clear : ∀ k, k < 8 → ∀ n, n < 256 →
    (∀ j, j < 8 → k ≤ j → n / 2 ^ j % 2 = 0) → popcount8 (UInt8.ofNat n) ≤ k := by
  decide +kernel

theorem foldl_popcount (l : Bytes) (a : Nat) :
    l.foldl (fun acc b => acc + popcount8 b) a = a + l.foldl (fun acc b => acc + popcount8 b) 0 := by
  induction l generalizing a with
  | nil => simp
  | cons b t ih => simp only [List.foldl_cons]; rw [ih, ih (0 + popcount8 b)]; omega

theorem foldl_popcount_le (l : Bytes) : l.foldl (fun acc b => acc + popcount8 b) 0 ≤ 8 * l.length := by
  induction l with
  | nil => simp
  | cons b t ih =>
    simp only [List.foldl_cons, List.length_cons]
    rw [foldl_popcount]
    have := popcount8_le b
    omega

theorem countBitsSet_le (data : Bytes) (c : Nat) : countBitsSet data c ≤ 8 * c := by
  unfold countBitsSet
  have := foldl_popcount_le (data.take c)
  have : (data.take c).length ≤ c := by simp [List.length_take]; omega
  omega

theorem countBitsSet_take (data : Bytes) (c : Nat) : countBitsSet (data.take c) c = countBitsSet data c := by
  unfold countBitsSet; simp [List.take_take]

theorem countBitsSet_append (a b : Bytes) (c : Nat) (h : c ≤ a.length) :
    countBitsSet (a ++ b) c = countBitsSet a c := by
  unfold countBitsSet; rw [List.take_append_of_le_length h]

theorem countBitsSet_succ (data : Bytes) (c : Nat) (h : c < data.length) :
    countBitsSet data (c + 1) = countBitsSet data c + popcount8 (data.getD c 0) := by
  unfold countBitsSet
  rw [List.take_add_one, List.foldl_append]
  simp [List.getD_eq_getElem?_getD, List.getElem?_eq_getElem h]

/-- with no padding bits set, at most `n` bits are set in the bitmap -/
theorem countBitsSet_le_of_noPadding (n : Nat) (bm : Bytes) (hlen : bitmapLen n ≤ bm.length)
    (hnp : NoPadding n bm) : countBitsSet bm (bitmapLen n) ≤ n := by
  by_cases h : n % 8 = 0
  · have := countBitsSet_le bm (bitmapLen n)
    unfold bitmapLen at *
    omega
  · have hbl : bitmapLen n = n / 8 + 1 := by unfold bitmapLen; omega
    rw [hbl] at hlen ⊢
    rw [countBitsSet_succ _ _ (by omega)]
    have h1 := countBitsSet_le bm (n / 8)
    have hb := (noPadding_iff_byte n bm h).1 hnp
    have h2 := popcount8_le_of_clear (n % 8) (by omega) _ (u8_toNat_lt _) hb
    rw [UInt8.ofNat_toNat] at h2
    omega

theorem popcount8_eq_filter : ∀ n, n < 256 →
    popcount8 (UInt8.ofNat n) = ((List.range 8).filter (fun j => decide (n / 2 ^ j % 2 = 1))).length := by
  decide +kernel

/-- `secp256k1_count_bits_set` counts exactly the positions `i < 8 * count` whose bit is set -/
theorem countBitsSet_eq_filter (bm : Bytes) (c : Nat) (h : c ≤ bm.length) :
    countBitsSet bm c = ((List.range (8 * c)).filter (fun i => testBit bm i)).length := by
  induction c with
  | zero => simp [countBitsSet]
  | succ k ih =>
    rw [countBitsSet_succ _ _ (by omega), ih (by omega)]
    rw [show 8 * (k + 1) = 8 * k + 8 by omega, List.range_add, List.filter_append, List.length_append]
    congr 1
    have := popcount8_eq_filter (bm.getD k 0).toNat (u8_toNat_lt _)
    rw [UInt8.ofNat_toNat] at this
    rw [this, List.filter_map, List.length_map]
    congr 1
    apply List.filter_congr
    intro j hj
    have hj : j < 8 := by simpa using hj
    simp only [Function.comp, testBit_eq]
    rw [show (8 * k + j) / 8 = k by omega, show (8 * k + j) % 8 = j by omega]

/-- `NoPadding` only looks at the first `bitmapLen n` bytes -/
theorem noPadding_congr (n : Nat) (a b : Bytes)
    (h : ∀ j, j < bitmapLen n → a.getD j 0 = b.getD j 0) : NoPadding n a → NoPadding n b := by
  intro ha i hi hn
  have := ha i hi hn
  rw [testBit_eq] at this ⊢
  rw [← h (i / 8) (by omega)]
  exact this

theorem getD_append_left (a b : Bytes) (j : Nat) (h : j < a.length) : (a ++ b).getD j 0 = a.getD j 0 := by
  simp [List.getD_eq_getElem?_getD, List.getElem?_append_left h]

theorem getD_take (a : Bytes) (c j : Nat) (h : j < c) : (a.take c).getD j 0 = a.getD j 0 := by
  simp [List.getD_eq_getElem?_getD, h]

end

/-! ### field elements, square roots, points -/

theorem powModAux_lt' (fuel a e m acc : Nat) (hm : 0 < m) (hacc : acc < m) :
    powModAux fuel a e m acc < m := by
  induction fuel generalizing a e acc with
  | zero => simpa [powModAux]
  | succ n ih =>
    unfold powModAux
    split
    · exact hacc
    · apply ih
      split
      · exact Nat.mod_lt _ hm
      · exact hacc

theorem one_lt_P : 1 < P := by decide +kernel

theorem powMod_lt_P (a e : Nat) : powMod a e P < P :=
  powModAux_lt' _ _ _ _ _ P_pos (by rw [Nat.mod_eq_of_lt one_lt_P]; exact one_lt_P)

theorem sqrtCand_lt (a : Nat) : Fe.sqrtCand a < P := powMod_lt_P _ _

/-- the right-hand side `x^3 + 7` of the curve equation, as the C code computes it -/
def curveRhs (x : Nat) : Nat := Fe.add (Fe.mul (Fe.sqr x) x) 7

theorem curveRhs_lt (x : Nat) : curveRhs x < P := Nat.mod_lt _ P_pos

theorem sqrt_eq_some (a r : Nat) (h : Fe.sqrt a = some r) :
    r = Fe.sqrtCand a ∧ r < P ∧ Fe.sqr r = a % P := by
  unfold Fe.sqrt at h
  simp only [] at h
  split at h
  · rename_i hs
    have : Fe.sqrtCand a = r := by simpa using h
    subst this
    exact ⟨rfl, sqrtCand_lt a, hs⟩
  · simp at h

theorem sqrt_isSome_iff (a : Nat) : (Fe.sqrt a).isSome = Fe.isSquare a := by
  unfold Fe.sqrt Fe.isSquare
  simp only []
  split <;> simp_all

theorem neg_lt (y : Nat) : Fe.neg y < P := Nat.mod_lt _ P_pos

theorem sq_sub_mod (p z : Nat) (h : z ≤ p) : (p - z) * (p - z) % p = z * z % p := by
  obtain ⟨w, hw⟩ : ∃ w, p = w + z := ⟨p - z, by omega⟩
  have hpz : p - z = w := by omega
  rw [hpz]
  have e1 : w * w + z * p = z * z + w * p := by
    rw [hw, Nat.mul_add, Nat.mul_add, Nat.mul_comm z w]; omega
  have : (w * w + z * p) % p = (z * z + w * p) % p := by rw [e1]
  rwa [Nat.add_mul_mod_self_right, Nat.add_mul_mod_self_right] at this

theorem sqr_neg (y : Nat) : Fe.sqr (Fe.neg y) = Fe.sqr y := by
  unfold Fe.sqr Fe.neg
  rw [Nat.mul_mod y y P, ← Nat.mul_mod (P - y % P) (P - y % P) P]
  exact sq_sub_mod P (y % P) (Nat.le_of_lt (Nat.mod_lt _ P_pos))

theorem onCurveXY_iff (x y : Nat) :
    Pt.onCurveXY x y = true ↔ x < P ∧ y < P ∧ Fe.sqr y = curveRhs x := by
  simp [Pt.onCurveXY, curveRhs, and_assoc]

theorem onCurve_neg (x y : Nat) (h : Pt.onCurveXY x y = true) : Pt.onCurveXY x (Fe.neg y) = true := by
  rw [onCurveXY_iff] at h ⊢
  exact ⟨h.1, neg_lt y, by rw [sqr_neg]; exact h.2.2⟩

/-- `secp256k1_ge_set_xquad` on a reduced abscissa: the result is a finite point on the curve with that abscissa -/
theorem liftXQuad_some (x : Nat) (hx : x < P) (p : Pt) (h : Pt.liftXQuad x = some p) :
    p = .aff x (Fe.sqrtCand (curveRhs x)) ∧ Pt.onCurveXY x (Fe.sqrtCand (curveRhs x)) = true := by
  unfold Pt.liftXQuad at h
  cases hs : Fe.sqrt (Fe.add (Fe.mul (Fe.sqr x) x) 7) with
  | none => rw [hs] at h; simp at h
  | some r =>
    rw [hs] at h
    obtain ⟨hr, hlt, hsq⟩ := sqrt_eq_some _ _ hs
    have : p = .aff (x % P) r := by simpa using h.symm
    rw [Nat.mod_eq_of_lt hx] at this
    refine ⟨by rw [this, hr]; rfl, ?_⟩
    rw [onCurveXY_iff]
    refine ⟨hx, sqrtCand_lt _, ?_⟩
    have h2 : Fe.sqr (Fe.sqrtCand (curveRhs x)) = curveRhs x % P := by rw [hr] at hsq; exact hsq
    rw [h2, Nat.mod_eq_of_lt (curveRhs_lt x)]

/-- `secp256k1_ge_set_xo_var` on a reduced abscissa -/
theorem liftX_some (x : Nat) (odd : Bool) (hx : x < P) (p : Pt) (h : Pt.liftX x odd = some p) :
    ∃ y, p = .aff x y ∧ Pt.onCurveXY x y = true := by
  unfold Pt.liftX at h
  cases hs : Fe.sqrt (Fe.add (Fe.mul (Fe.sqr x) x) 7) with
  | none => rw [hs] at h; simp at h
  | some r =>
    rw [hs] at h
    obtain ⟨hr, hlt, hsq⟩ := sqrt_eq_some _ _ hs
    have hp : p = .aff (x % P) (if Fe.isOdd r = odd then r else Fe.neg r) := by simpa using h.symm
    rw [Nat.mod_eq_of_lt hx] at hp
    have hon : Pt.onCurveXY x r = true := by
      rw [onCurveXY_iff]
      refine ⟨hx, hlt, ?_⟩
      rw [hsq]; exact Nat.mod_eq_of_lt (curveRhs_lt x)
    refine ⟨_, hp, ?_⟩
    split
    · exact hon
    · exact onCurve_neg _ _ hon

theorem feLimit_some (b : Bytes) (x : Nat) (h : Codec.feLimit b = some x) : x = Bytes.toNat b ∧ x < P := by
  unfold Codec.feLimit at h
  simp only [] at h
  split at h
  · rename_i hlt
    have : Bytes.toNat b = x := by simpa using h
    exact ⟨this.symm, this ▸ hlt⟩
  · simp at h

/-- a finite point on the curve (what every valid public-key / generator object holds) -/
def FinValid (p : Pt) : Prop := p.valid = true ∧ p.isInf = false

instance (p : Pt) : Decidable (FinValid p) := by unfold FinValid; infer_instance

theorem finValid_aff (x y : Nat) (h : Pt.onCurveXY x y = true) : FinValid (.aff x y) := ⟨h, rfl⟩

theorem finValid_neg (p : Pt) (h : FinValid p) : FinValid (Pt.neg p) := by
  cases p with
  | inf => exact h
  | aff x y => exact finValid_aff _ _ (onCurve_neg _ _ h.1)

/-- **`secp256k1_eckey_pubkey_parse` closure**: every successfully parsed public key (33- or 65-byte
form) is a finite point on the curve with reduced coordinates. -/
theorem pubkeyParse_valid (pub : Bytes) (p : Pt) (h : Codec.pubkeyParse pub = some p) :
    FinValid p ∧ (pub.length = 33 ∨ pub.length = 65) := by
  unfold Codec.pubkeyParse at h
  cases pub with
  | nil => simp at h
  | cons tag rest =>
    simp only [] at h
    split at h
    · rename_i hc
      refine ⟨?_, Or.inl hc.1⟩
      cases hf : Codec.feLimit rest with
      | none => rw [hf] at h; simp at h
      | some x =>
        rw [hf] at h
        obtain ⟨y, hp, hon⟩ := liftX_some x _ (feLimit_some _ _ hf).2 p h
        rw [hp]; exact finValid_aff _ _ hon
    · split at h
      · rename_i hc
        refine ⟨?_, Or.inr hc.1⟩
        split at h
        · split at h
          · simp at h
          · split at h
            · rename_i hon
              rw [← Option.some.inj h]; exact finValid_aff _ _ hon
            · simp at h
        · simp at h
      · simp at h

/-! ### generators and commitments -/

theorem gen_prefix : ∀ n, n < 256 →
    ((UInt8.ofNat n &&& 0xFE = 10) ↔ (UInt8.ofNat n = 10 ∨ UInt8.ofNat n = 11)) := by decide +kernel

theorem commit_prefix : ∀ n, n < 256 →
    ((UInt8.ofNat n &&& 0xFE = 8) ↔ (UInt8.ofNat n = 8 ∨ UInt8.ofNat n = 9)) := by decide +kernel

theorem gen_prefix' (b : UInt8) : (b &&& 0xFE = 10) ↔ (b = 10 ∨ b = 11) := by
  have := gen_prefix b.toNat (u8_toNat_lt b); rwa [UInt8.ofNat_toNat] at this

theorem commit_prefix' (b : UInt8) : (b &&& 0xFE = 8) ↔ (b = 8 ∨ b = 9) := by
  have := commit_prefix b.toNat (u8_toNat_lt b); rwa [UInt8.ofNat_toNat] at this

/-- The generator parser as one case distinction. -/
theorem generator_parse_cons (b0 : UInt8) (rest : Bytes) :
    Generator.parse (b0 :: rest) =
      if (b0 = 10 ∨ b0 = 11) ∧ Bytes.toNat rest < P ∧ Fe.isSquare (curveRhs (Bytes.toNat rest)) = true then
        some (if b0 = 11 then Pt.neg (.aff (Bytes.toNat rest) (Fe.sqrtCand (curveRhs (Bytes.toNat rest))))
              else .aff (Bytes.toNat rest) (Fe.sqrtCand (curveRhs (Bytes.toNat rest))))
      else none := by
  unfold Generator.parse
  simp only []
  by_cases hp : b0 = 10 ∨ b0 = 11
  · rw [if_neg (by rw [Decidable.not_not]; exact (gen_prefix' b0).2 hp)]
    unfold Codec.feLimit
    simp only []
    by_cases hx : Bytes.toNat rest < P
    · rw [if_pos hx]
      simp only []
      unfold Pt.liftXQuad Fe.sqrt
      simp only []
      by_cases hs : Fe.isSquare (curveRhs (Bytes.toNat rest)) = true
      · have hs' : Fe.sqr (Fe.sqrtCand (curveRhs (Bytes.toNat rest))) = curveRhs (Bytes.toNat rest) % P := by
          simpa [Fe.isSquare] using hs
        unfold curveRhs at hs'
        rw [if_pos hs', if_pos ⟨hp, hx, hs⟩]
        simp only [Nat.mod_eq_of_lt hx]
        rcases hp with h | h
        · subst h; rfl
        · subst h; rfl
      · have hs' : ¬ Fe.sqr (Fe.sqrtCand (curveRhs (Bytes.toNat rest))) = curveRhs (Bytes.toNat rest) % P := by
          simpa [Fe.isSquare] using hs
        unfold curveRhs at hs'
        rw [if_neg hs', if_neg (fun h => hs h.2.2)]
    · rw [if_neg hx, if_neg (fun h => hx h.2.1)]
  · rw [if_pos (fun h => hp ((gen_prefix' b0).1 h)), if_neg (fun h => hp h.1)]

/-- the 33-byte commitment encodings that `secp256k1_pedersen_commitment_parse` accepts -/
def CommitEncodingOK (c : Bytes) : Prop :=
  (c.headD 0 = 8 ∨ c.headD 0 = 9) ∧ Bytes.toNat c.tail < P ∧
  Fe.isSquare (curveRhs (Bytes.toNat c.tail)) = true

instance (c : Bytes) : Decidable (CommitEncodingOK c) := by unfold CommitEncodingOK; infer_instance

/-- **`secp256k1_pedersen_commitment_parse`** accepts exactly prefix 8/9, `x < P`, `x` on the curve, and
the object it produces is the input itself. -/
theorem commitParse_iff (c o : Bytes) :
    Generator.commitParse c = some o ↔ c ≠ [] ∧ CommitEncodingOK c ∧ o = c := by
  cases c with
  | nil => simp [Generator.commitParse]
  | cons b0 rest =>
    unfold Generator.commitParse CommitEncodingOK Codec.feLimit
    simp only [List.headD_cons, List.tail_cons, ne_eq, reduceCtorEq, not_false_eq_true, true_and]
    by_cases hp : b0 = 8 ∨ b0 = 9
    · rw [if_neg (by rw [Decidable.not_not]; exact (commit_prefix' b0).2 hp)]
      by_cases hx : Bytes.toNat rest < P
      · rw [if_pos hx]
        simp only []
        by_cases hs : Fe.isSquare (curveRhs (Bytes.toNat rest)) = true
        · have hs' := hs
          unfold curveRhs at hs'
          rw [if_pos hs']
          simp only [Option.some.injEq]
          exact ⟨fun h => ⟨⟨hp, hx, hs⟩, h.symm⟩, fun h => h.2.symm⟩
        · have hs' := hs
          unfold curveRhs at hs'
          rw [if_neg hs']
          simp only [reduceCtorEq, false_iff]
          exact fun h => hs h.1.2.2
      · rw [if_neg hx]
        simp only [reduceCtorEq, false_iff]
        exact fun h => hx h.1.2.1
    · rw [if_pos (fun h => hp ((commit_prefix' b0).1 h))]
      simp only [reduceCtorEq, false_iff]
      exact fun h => hp h.1.1

end Parsers
end SecpZkp
