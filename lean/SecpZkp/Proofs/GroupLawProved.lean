import SecpZkp.Proofs.Prime
import SecpZkp.Proofs.Group
/-
  Assembly: the interface structure `GroupLaw` holds unconditionally — primality of p and n by Pratt
  certificates (`Proofs/Prime.lean`), the group law by refinement to Mathlib's Weierstrass group
  (`Proofs/Field.lean`, `Affine.lean`, `Jacobian.lean`, `Group.lean`).
  Property theorems stated with a hypothesis `(gl : GroupLaw)` are instantiated with `groupLaw`.
-/
namespace SecpZkp

theorem groupLaw : GroupLaw := groupLaw_holds prime_P prime_N

end SecpZkp
