import SecpZkp.Model.Bytes
import Mathlib.Tactic.Ring
/-
  Minimal byte-codec round trips needed by the protocol proofs (`Props/C01.lean`, `Props/C02.lean`).
  A fuller set lives in the codec layer; everything here is namespaced `SecpZkp.Algebra`.
-/
namespace SecpZkp
namespace Algebra

theorem toNat_foldl (bs : Bytes) (acc : Nat) :
    bs.foldl (fun acc b => acc * 256 + b.toNat) acc = acc * 256 ^ bs.length + Bytes.toNat bs := by
  induction bs generalizing acc with
  | nil => simp [Bytes.toNat]
  | cons b bs ih =>
    simp only [List.foldl_cons, List.length_cons, Bytes.toNat]
    rw [ih, ih (0 * 256 + b.toNat)]
    ring

theorem toNat_nil : Bytes.toNat [] = 0 := rfl

theorem toNat_cons (b : Byte) (bs : Bytes) :
    Bytes.toNat (b :: bs) = b.toNat * 256 ^ bs.length + Bytes.toNat bs := by
  show List.foldl _ _ _ = _
  rw [List.foldl_cons, toNat_foldl]; simp

theorem toNat_append (as bs : Bytes) :
    Bytes.toNat (as ++ bs) = Bytes.toNat as * 256 ^ bs.length + Bytes.toNat bs := by
  show List.foldl _ _ _ = _
  rw [List.foldl_append, toNat_foldl]; rfl

theorem toNat_lt (bs : Bytes) : Bytes.toNat bs < 256 ^ bs.length := by
  induction bs with
  | nil => simp [toNat_nil]
  | cons b bs ih =>
    rw [toNat_cons, List.length_cons, pow_succ]
    have hb : b.toNat < 256 := UInt8.toNat_lt b
    have h : b.toNat * 256 ^ bs.length ≤ 255 * 256 ^ bs.length := Nat.mul_le_mul_right _ (by omega)
    omega

@[simp] theorem length_ofNat (len x : Nat) : (Bytes.ofNat len x).length = len := by
  induction len with
  | zero => rfl
  | succ n ih => simp [Bytes.ofNat, ih]

theorem toNat_ofNat (len x : Nat) : Bytes.toNat (Bytes.ofNat len x) = x % 256 ^ len := by
  induction len with
  | zero => simp [Bytes.ofNat, toNat_nil, Nat.mod_one]
  | succ n ih =>
    rw [Bytes.ofNat, toNat_cons, ih, length_ofNat, Nat.mod_pow_succ]
    have : (UInt8.ofNat (x / 256 ^ n % 256)).toNat = x / 256 ^ n % 256 := by
      simp
    rw [this]; ring

@[simp] theorem length_be32 (x : Nat) : (Bytes.be32 x).length = 32 := length_ofNat 32 x

theorem toNat_be32 {x : Nat} (h : x < 2 ^ 256) : Bytes.toNat (Bytes.be32 x) = x := by
  rw [Bytes.be32, toNat_ofNat]
  exact Nat.mod_eq_of_lt (by simpa using h)

theorem take_be32_append (x : Nat) (bs : Bytes) : (Bytes.be32 x ++ bs).take 32 = Bytes.be32 x :=
  List.take_left' (length_be32 x)

theorem drop_be32_append (x : Nat) (bs : Bytes) : (Bytes.be32 x ++ bs).drop 32 = bs :=
  List.drop_left' (length_be32 x)

@[simp] theorem length_zeros (n : Nat) : (Bytes.zeros n).length = n := by simp [Bytes.zeros]

theorem toNat_zeros (n : Nat) : Bytes.toNat (Bytes.zeros n) = 0 := by
  induction n with
  | zero => rfl
  | succ n ih =>
    have : Bytes.zeros (n + 1) = (0 : UInt8) :: Bytes.zeros n := by simp [Bytes.zeros, List.replicate_succ]
    rw [this, toNat_cons, ih]; simp

end Algebra
end SecpZkp
