/-
  Helpers for `Props/C05_field_struct.lean`: the 5×52 field kernels compiled with the EMULATED 128-bit integer
  (`src/int128_struct_impl.h`, configuration `USE_FORCE_WIDEMUL_INT128_STRUCT`) compute the same limbs as the kernels
  compiled with the native `unsigned __int128`, under the wrap-around semantics `execL`, for all 64-bit inputs.

  The struct IR (`Gen.field5x52.fe_mul_inner_struct`, `fe_sqr_inner_struct`) is the native IR with every 128-bit
  operation replaced by its inlined emulation (`secp256k1_umul128`: four 32×32 products and a 34-bit middle word;
  `secp256k1_u128_accum_mul`: `r->lo += lo; r->hi += hi + (r->lo < lo)`, ...), which wraps on purpose, so the interval
  checker cannot see through it.  This file contains a VERIFIED LOCK-STEP COMPARISON of two straight-line programs:

  * `umulT`, `accT`, `accU`, `rshiftS` : the inlined helpers as blocks of statements for ARBITRARY variable names, with
    their semantics under `execL` (`umul_run`: `lo + 2^64 hi = a b`; `accT_run`, `accU_run`: addition modulo `2^128`
    with the carry detection `r.lo < lo`; `rshiftS_run`: `⌊r / 2^n⌋` in both branches of the `if`), from the arithmetic
    of `Proofs/Int128.lean`
  * `Sim G H es en` : the memories of the struct run and of the native run are related: the cells paired in `G` hold
    the same 64-bit value, and for each `(T, lo, hi)` in `H` the native cell `T` holds `lo + 2^64 hi` of the struct run
  * `step` / `simRun` / `simCheck` : an executable checker that walks both programs, recognising at each point a pair
    (plain assignment, plain assignment with related right-hand sides) or (inlined helper, native 128-bit statement),
    and `simCheck_sound`: if it accepts, the output cells of the two runs are equal.  The native `+`, `*` at width 128
    wrap exactly like the emulation (both are arithmetic modulo `2^128`), so NO bound on the accumulators is needed
    here: absence of overflow is a property of the native kernel, proved in `Props/C05_field.lean`.
  * Names are compared as NUMBERS: `String` operations are extremely slow in the kernel (a comparison of two names
    with a common prefix of 16 characters takes 40 ms), so the checker runs on an interned copy `IStmt` of the programs
    in which a name is the number whose base-256 digits are its characters (`nm`, injective: `nm_injective`).  The
    interned copy is produced at elaboration time by `intern_body%` and is CHECKED: `decL copy = original` is closed by
    `kernel_rfl`, i.e. by the kernel's own definitional unfolding (string literal versus `String.ofList` of a list).

  No axioms beyond propext / Classical.choice / Quot.sound.
-/
import SecpZkp.Proofs.ScalarKernel
import SecpZkp.Proofs.Int128
import Batteries.Data.Char.Basic
import Mathlib.Data.List.Nodup
import Lean

set_option linter.unusedSimpArgs false
set_option linter.unusedVariables false

namespace SecpZkp
namespace FieldKernelStruct
open MiniC ScalarKernel Int128

/-! ### names as numbers -/

def unpackAux : Nat → Nat → List Char
  | 0, _ => []
  | f + 1, k => if k = 0 then [] else Char.ofNat (k % 256) :: unpackAux f (k / 256)

/-- the name with key `k`: the base-256 digits of `k` (least significant first) as characters -/
def nm (k : Nat) : String := String.ofList (unpackAux k k)

def repack : List Char → Nat
  | [] => 0
  | c :: cs => c.toNat + 256 * repack cs

theorem repack_unpackAux : ∀ (f k : Nat), k ≤ f → repack (unpackAux f k) = k
  | 0, k, h => by
    have : k = 0 := by omega
    subst this; rfl
  | f + 1, k, h => by
    unfold unpackAux
    by_cases hk : k = 0
    · simp [hk, repack]
    · simp only [hk, ↓reduceIte, repack]
      rw [repack_unpackAux f (k / 256) (by omega), Char.toNat_ofNat]
      have : (k % 256).isValidChar := Or.inl (by omega)
      simp only [this, ↓reduceIte]
      omega

theorem nm_injective {k1 k2 : Nat} (h : nm k1 = nm k2) : k1 = k2 := by
  have h' := String.ofList_injective h
  have := congrArg repack h'
  rwa [repack_unpackAux _ _ (Nat.le_refl _), repack_unpackAux _ _ (Nat.le_refl _)] at this

theorem nm_ne {k1 k2 : Nat} (h : k1 ≠ k2) : nm k1 ≠ nm k2 := fun h' => h (nm_injective h')


/-! ### comparisons on numbers, as plain Boolean functions (cheap for the kernel) -/

abbrev Cell := Nat × Nat
/-- `(T, lo, hi)`: the native 128-bit variable `T` is the pair of words `lo`, `hi` of the struct configuration -/
abbrev Wide := Nat × Nat × Nat

def beqC (c d : Cell) : Bool := Nat.beq c.1 d.1 && Nat.beq c.2 d.2

theorem beqC_iff {c d : Cell} : beqC c d = true ↔ c = d := by
  obtain ⟨c1, c2⟩ := c
  obtain ⟨d1, d2⟩ := d
  simp only [beqC, Bool.and_eq_true, Nat.beq_eq, Prod.mk.injEq]

theorem beqC_false {c d : Cell} : beqC c d = false ↔ c ≠ d := by
  rw [ne_eq, ← beqC_iff, Bool.not_eq_true]

def memN (a : Nat) : List Nat → Bool
  | [] => false
  | b :: l => Nat.beq a b || memN a l

theorem memN_iff {a : Nat} {l : List Nat} : memN a l = true ↔ a ∈ l := by
  induction l with
  | nil => simp [memN]
  | cons b l ih => simp only [memN, Bool.or_eq_true, Nat.beq_eq, ih, List.mem_cons]

theorem memN_false {a : Nat} {l : List Nat} : memN a l = false ↔ a ∉ l := by
  rw [← memN_iff, Bool.not_eq_true]

def nodupN : List Nat → Bool
  | [] => true
  | a :: l => !(memN a l) && nodupN l

theorem nodupN_iff {l : List Nat} : nodupN l = true ↔ l.Nodup := by
  induction l with
  | nil => simp [nodupN]
  | cons a l ih =>
    simp only [nodupN, Bool.and_eq_true, Bool.not_eq_eq_eq_not, Bool.not_true, memN_false, ih, List.nodup_cons]

def memG (c1 c2 : Cell) : List (Cell × Cell) → Bool
  | [] => false
  | p :: l => (beqC c1 p.1 && beqC c2 p.2) || memG c1 c2 l

theorem memG_iff {c1 c2 : Cell} {l : List (Cell × Cell)} : memG c1 c2 l = true ↔ (c1, c2) ∈ l := by
  induction l with
  | nil => simp [memG]
  | cons p l ih =>
    obtain ⟨p1, p2⟩ := p
    simp only [memG, Bool.or_eq_true, Bool.and_eq_true, beqC_iff, ih, List.mem_cons, Prod.mk.injEq]

def memH (T lo hi : Nat) : List Wide → Bool
  | [] => false
  | t :: l => (Nat.beq T t.1 && Nat.beq lo t.2.1 && Nat.beq hi t.2.2) || memH T lo hi l

theorem memH_iff {T lo hi : Nat} {l : List Wide} : memH T lo hi l = true ↔ (T, lo, hi) ∈ l := by
  induction l with
  | nil => simp [memH]
  | cons t l ih =>
    obtain ⟨t1, t2, t3⟩ := t
    simp only [memH, Bool.or_eq_true, Bool.and_eq_true, Nat.beq_eq, ih, List.mem_cons, Prod.mk.injEq, and_assoc]

/-! ### interned syntax -/

inductive IExpr where
  | lit (n : Nat)
  | var (x : Nat)
  | idx (a : Nat) (i : Nat)
  | bin (op : BinOp) (w : Nat) (a b : IExpr)
  | cast (w : Nat) (e : IExpr)
deriving DecidableEq, Repr, Inhabited

inductive IStmt where
  | assign (x : Nat) (e : IExpr)
  | store (a : Nat) (i : Nat) (e : IExpr)
  | rshift (lo hi : Nat) (n : Nat)
deriving DecidableEq, Repr, Inhabited

def decE : IExpr → Expr
  | .lit n => .lit n
  | .var x => .var (nm x)
  | .idx a i => .idx (nm a) (.lit i)
  | .bin op w a b => .bin op w (decE a) (decE b)
  | .cast w e => .cast w (decE e)

/-- the inlined `secp256k1_u128_rshift(&r, n)` with a literal `n` -/
def rshiftS (lo hi : String) (n : Nat) : Stmt :=
  .ite (.bin .le 32 (.lit 64) (.lit n))
    [.assign lo (.bin .shr 64 (.var hi) (.lit ((n + (4294967296 - 64)) % 4294967296))), .assign hi (.lit 0)]
    [.ite (.bin .lt 32 (.lit 0) (.lit n))
      [.assign lo (.bin .or 64 (.bin .shl 64 (.bin .mul 64 (.lit 1) (.var hi))
          (.lit ((64 + (4294967296 - n)) % 4294967296))) (.bin .shr 64 (.var lo) (.lit n))),
       .assign hi (.bin .shr 64 (.var hi) (.lit n))]
      []]

def decS : IStmt → Stmt
  | .assign x e => .assign (nm x) (decE e)
  | .store a i e => .store (nm a) (.lit i) (decE e)
  | .rshift lo hi n => rshiftS (nm lo) (nm hi) n

/-- structural equality of interned expressions / statements -/
def beqE : IExpr → IExpr → Bool
  | .lit n, .lit m => Nat.beq n m
  | .var x, .var y => Nat.beq x y
  | .idx a i, .idx b j => Nat.beq a b && Nat.beq i j
  | .bin op w a b, .bin op' w' a' b' => (op == op') && Nat.beq w w' && beqE a a' && beqE b b'
  | .cast w a, .cast w' a' => Nat.beq w w' && beqE a a'
  | _, _ => false

theorem beqE_eq : ∀ (a b : IExpr), beqE a b = true → a = b := by
  intro a
  induction a with
  | lit n => intro b h; cases b <;> simp_all [beqE]
  | var x => intro b h; cases b <;> simp_all [beqE]
  | idx a i => intro b h; cases b <;> simp_all [beqE]
  | bin op w a b iha ihb =>
    intro c h
    cases c <;> simp only [beqE, Bool.and_eq_true, Nat.beq_eq, beq_iff_eq, Bool.false_eq_true] at h
    obtain ⟨⟨⟨rfl, rfl⟩, ha⟩, hb⟩ := h
    rw [iha _ ha, ihb _ hb]
  | cast w a iha =>
    intro c h
    cases c <;> simp only [beqE, Bool.and_eq_true, Nat.beq_eq, Bool.false_eq_true] at h
    obtain ⟨rfl, ha⟩ := h
    rw [iha _ ha]

def beqS : IStmt → IStmt → Bool
  | .assign x e, .assign y f => Nat.beq x y && beqE e f
  | .store a i e, .store b j f => Nat.beq a b && Nat.beq i j && beqE e f
  | .rshift lo hi n, .rshift lo' hi' n' => Nat.beq lo lo' && Nat.beq hi hi' && Nat.beq n n'
  | _, _ => false

theorem beqS_eq (a b : IStmt) (h : beqS a b = true) : a = b := by
  cases a <;> cases b <;> simp only [beqS, Bool.and_eq_true, Nat.beq_eq, Bool.false_eq_true] at h
  · obtain ⟨rfl, he⟩ := h; rw [beqE_eq _ _ he]
  · obtain ⟨⟨rfl, rfl⟩, he⟩ := h; rw [beqE_eq _ _ he]
  · obtain ⟨⟨rfl, rfl⟩, rfl⟩ := h; rfl

def beqL : List IStmt → List IStmt → Bool
  | [], [] => true
  | a :: l, b :: m => beqS a b && beqL l m
  | _, _ => false

theorem beqL_eq : ∀ (l m : List IStmt), beqL l m = true → l = m
  | [], [], _ => rfl
  | [], _ :: _, h => by simp [beqL] at h
  | _ :: _, [], h => by simp [beqL] at h
  | a :: l, b :: m, h => by
    simp only [beqL, Bool.and_eq_true] at h
    rw [beqS_eq _ _ h.1, beqL_eq l m h.2]

def decL (p : List IStmt) : List Stmt := p.map decS

theorem decL_append (p q : List IStmt) : decL (p ++ q) = decL p ++ decL q := List.map_append

theorem decL_take_drop (n : Nat) (p : List IStmt) : decL p = decL (p.take n) ++ decL (p.drop n) := by
  rw [← decL_append, List.take_append_drop]

/-- the decoded program equals `b` if this holds for the first `k` statements and for the rest (used to check
    `decL copy = original` in pieces) -/
theorem decL_split (k : Nat) {p : List IStmt} {b : List Stmt} (h1 : decL (p.take k) = b.take k)
    (h2 : decL (p.drop k) = b.drop k) : decL p = b := by
  rw [decL_take_drop k p, h1, h2, List.take_append_drop]

/-! ### cells, frames, the simulation relation -/

def getC (env : Env) (c : Cell) : Nat := env.get (nm c.1) c.2

theorem getC_set_same (env : Env) (c : Cell) (v : Nat) : getC (env.set (nm c.1) c.2 v) c = v :=
  Env.get_set_same _ _ _ _

theorem getC_set_other (env : Env) (c d : Cell) (v : Nat) (h : d ≠ c) :
    getC (env.set (nm c.1) c.2 v) d = getC env d := by
  refine Env.get_set_other _ _ _ _ _ _ ?_
  intro h'
  injection h' with h1 h2
  exact h (Prod.ext (nm_injective h1) h2)

/-- `e'` agrees with `e` on all cells outside the set `w` -/
def Fr (w : Cell → Bool) (e e' : Env) : Prop := ∀ c, w c = false → getC e' c = getC e c

theorem Fr.refl (w : Cell → Bool) (e : Env) : Fr w e e := fun _ _ => rfl

structure Sim (G : List (Cell × Cell)) (H : List Wide) (es en : Env) : Prop where
  good : ∀ p ∈ G, getC en p.2 = getC es p.1 ∧ getC es p.1 < 2 ^ 64
  wide : ∀ t ∈ H, getC en (t.1, 0) = getC es (t.2.1, 0) + 2 ^ 64 * getC es (t.2.2, 0) ∧
      getC es (t.2.1, 0) < 2 ^ 64 ∧ getC es (t.2.2, 0) < 2 ^ 64

def killG (ws wn : Cell → Bool) (G : List (Cell × Cell)) : List (Cell × Cell) :=
  G.filter (fun p => !(ws p.1) && !(wn p.2))

def killH (ws wn : Cell → Bool) (H : List Wide) : List Wide :=
  H.filter (fun t => !(ws (t.2.1, 0)) && !(ws (t.2.2, 0)) && !(wn (t.1, 0)))

theorem Sim.kill {G H es en es' en'} {ws wn : Cell → Bool} (h : Sim G H es en) (fs : Fr ws es es') (fn : Fr wn en en') :
    Sim (killG ws wn G) (killH ws wn H) es' en' := by
  constructor
  · intro p hp
    simp only [killG, List.mem_filter, Bool.and_eq_true, Bool.not_eq_eq_eq_not, Bool.not_true] at hp
    obtain ⟨hpG, h1, h2⟩ := hp
    rw [fs _ h1, fn _ h2]
    exact h.good p hpG
  · intro t ht
    simp only [killH, List.mem_filter, Bool.and_eq_true, Bool.not_eq_eq_eq_not, Bool.not_true] at ht
    obtain ⟨htH, ⟨h1, h2⟩, h3⟩ := ht
    rw [fs _ h1, fs _ h2, fn _ h3]
    exact h.wide t htH

theorem Sim.consG {G H es en} (h : Sim G H es en) (c1 c2 : Cell) (h1 : getC en c2 = getC es c1)
    (h2 : getC es c1 < 2 ^ 64) : Sim ((c1, c2) :: G) H es en := by
  refine ⟨?_, h.wide⟩
  intro p hp
  rcases List.mem_cons.mp hp with rfl | hp
  · exact ⟨h1, h2⟩
  · exact h.good p hp

theorem Sim.consH {G H es en} (h : Sim G H es en) (t : Wide)
    (h1 : getC en (t.1, 0) = getC es (t.2.1, 0) + 2 ^ 64 * getC es (t.2.2, 0))
    (h2 : getC es (t.2.1, 0) < 2 ^ 64) (h3 : getC es (t.2.2, 0) < 2 ^ 64) : Sim G (t :: H) es en := by
  refine ⟨h.good, ?_⟩
  intro t' ht
  rcases List.mem_cons.mp ht with rfl | ht
  · exact ⟨h1, h2, h3⟩
  · exact h.wide t' ht

/-- initially both runs start in the same memory: every cell paired with itself is related, if it holds a 64-bit
    value -/
theorem Sim.init {G0 : List (Cell × Cell)} {env : Env} (h : ∀ p ∈ G0, p.2 = p.1 ∧ getC env p.1 < 2 ^ 64) :
    Sim G0 [] env env := by
  refine ⟨fun p hp => ?_, fun t ht => by cases ht⟩
  obtain ⟨h1, h2⟩ := h p hp
  rw [h1]
  exact ⟨rfl, h2⟩

/-! ### related expressions -/

theorem binWrap64_lt (op : BinOp) (a b : Nat) (ha : a < 2 ^ 64) (hb : b < 2 ^ 64) : binWrap op 64 a b < 2 ^ 64 := by
  cases op
  · exact Nat.mod_lt _ (by decide)
  · exact Nat.mod_lt _ (by decide)
  · exact Nat.mod_lt _ (by decide)
  · exact Nat.lt_of_le_of_lt Nat.and_le_left ha
  · exact Nat.or_lt_two_pow ha hb
  · exact Nat.xor_lt_two_pow ha hb
  · exact Nat.mod_lt _ (by decide)
  · exact Nat.lt_of_le_of_lt (Nat.div_le_self _ _) ha
  all_goals (simp only [binWrap]; split <;> decide)

def relE (G : List (Cell × Cell)) : IExpr → IExpr → Bool
  | .lit n, .lit m => Nat.beq n m && decide (n < 2 ^ 64)
  | .var x, .var y => memG (x, 0) (y, 0) G
  | .idx a i, .idx b j => memG (a, i) (b, j) G
  | .bin op w a b, .bin op' w' a' b' => (op == op') && Nat.beq w 64 && Nat.beq w' 64 && relE G a a' && relE G b b'
  | .cast w a, .cast w' a' => Nat.beq w w' && decide (w ≤ 64) && relE G a a'
  | _, _ => false

theorem relE_sound {G H es en} (h : Sim G H es en) : ∀ (e f : IExpr), relE G e f = true →
    ev en (decE f) = ev es (decE e) ∧ ev es (decE e) < 2 ^ 64 := by
  intro e
  induction e with
  | lit n =>
    intro f hf
    cases f <;> simp only [relE, Bool.and_eq_true, Nat.beq_eq, decide_eq_true_eq, Bool.false_eq_true] at hf
    obtain ⟨rfl, hn⟩ := hf
    exact ⟨rfl, hn⟩
  | var x =>
    intro f hf
    cases f <;> simp only [relE, memG_iff, Bool.false_eq_true] at hf
    exact h.good _ hf
  | idx a i =>
    intro f hf
    cases f <;> simp only [relE, memG_iff, Bool.false_eq_true] at hf
    simp only [decE, ev_idx, ev_lit]
    exact h.good _ hf
  | bin op w a b iha ihb =>
    intro f hf
    cases f <;> simp only [relE, Bool.and_eq_true, beq_iff_eq, Nat.beq_eq, Bool.false_eq_true] at hf
    obtain ⟨⟨⟨⟨rfl, rfl⟩, rfl⟩, ha⟩, hb⟩ := hf
    obtain ⟨ea, la⟩ := iha _ ha
    obtain ⟨eb, lb⟩ := ihb _ hb
    refine ⟨by simp only [decE, ev_bin, ea, eb], ?_⟩
    simp only [decE, ev_bin]
    exact binWrap64_lt _ _ _ la lb
  | cast w a iha =>
    intro f hf
    cases f <;> simp only [relE, Bool.and_eq_true, Nat.beq_eq, decide_eq_true_eq, Bool.false_eq_true] at hf
    obtain ⟨⟨rfl, hw⟩, ha⟩ := hf
    obtain ⟨ea, _⟩ := iha _ ha
    refine ⟨by simp only [decE, ev_cast, ea], ?_⟩
    simp only [decE, ev_cast]
    exact Nat.lt_of_lt_of_le (Nat.mod_lt _ (Nat.two_pow_pos _)) (Nat.pow_le_pow_right (by decide) hw)

/-! ### the inlined helpers of `int128_struct_impl.h` as blocks of statements, for arbitrary variable names -/

/-- bounds on the four 32×32 partial products of `a`, `b`, the school-book split of `a * b`, and the partial
    products as atoms for `omega` (as in `Props/C05_int128.lean`) -/
macro "umul_split " a:ident b:ident : tactic => `(tactic| (
  have hll := mul_lt32 (x := $a % 4294967296) (y := $b % 4294967296) (Nat.mod_lt _ (by decide)) (Nat.mod_lt _ (by decide))
  have hlh := mul_lt32 (x := $a % 4294967296) (y := $b / 4294967296) (Nat.mod_lt _ (by decide)) (by omega)
  have hhl := mul_lt32 (x := $a / 4294967296) (y := $b % 4294967296) (by omega) (Nat.mod_lt _ (by decide))
  have hhh := mul_lt32 (x := $a / 4294967296) (y := $b / 4294967296) (by omega) (by omega)
  rw [mul_split $a $b]
  generalize $a % 4294967296 * ($b % 4294967296) = ll at *
  generalize $a % 4294967296 * ($b / 4294967296) = lh at *
  generalize $a / 4294967296 * ($b % 4294967296) = hl at *
  generalize $a / 4294967296 * ($b / 4294967296) = hh at *))

/-- the inlined `secp256k1_umul128(xa, xb, &hi)` with the result assigned to `lo` -/
def umulT (ua ub ull ulh uhl uhh umid hi uret lo xa xb : String) : List Stmt := [
  .assign ua (.var xa), .assign ub (.var xb),
  .assign ull (.bin .mul 64 (.cast 32 (.var ua)) (.cast 32 (.var ub))),
  .assign ulh (.bin .mul 64 (.cast 32 (.var ua)) (.bin .shr 64 (.var ub) (.lit 32))),
  .assign uhl (.bin .mul 64 (.bin .shr 64 (.var ua) (.lit 32)) (.cast 32 (.var ub))),
  .assign uhh (.bin .mul 64 (.bin .shr 64 (.var ua) (.lit 32)) (.bin .shr 64 (.var ub) (.lit 32))),
  .assign umid (.bin .add 64 (.bin .add 64 (.bin .shr 64 (.var ull) (.lit 32)) (.cast 32 (.var ulh)))
    (.cast 32 (.var uhl))),
  .assign hi (.bin .add 64 (.bin .add 64 (.bin .add 64 (.var uhh) (.bin .shr 64 (.var ulh) (.lit 32)))
    (.bin .shr 64 (.var uhl) (.lit 32))) (.bin .shr 64 (.var umid) (.lit 32))),
  .assign uret (.bin .add 64 (.bin .shl 64 (.var umid) (.lit 32)) (.cast 32 (.var ull))),
  .assign lo (.var uret)]

theorem umul_run (es : Env) (ua ub ull ulh uhl uhh umid hi uret lo xa xb : String)
    (hd : [ua, ub, ull, ulh, uhl, uhh, umid, hi, uret, lo].Nodup)
    (hxa : xa ∉ [ua, ub, ull, ulh, uhl, uhh, umid, hi, uret, lo])
    (hxb : xb ∉ [ua, ub, ull, ulh, uhl, uhh, umid, hi, uret, lo])
    (ha : es.get xa 0 < 2 ^ 64) (hb : es.get xb 0 < 2 ^ 64) :
    ∃ es', runR es (umulT ua ub ull ulh uhl uhh umid hi uret lo xa xb) = (es', none) ∧
      (∀ y j, y ∉ [ua, ub, ull, ulh, uhl, uhh, umid, hi, uret, lo] → es'.get y j = es.get y j) ∧
      es'.get lo 0 + 2 ^ 64 * es'.get hi 0 = es.get xa 0 * es.get xb 0 ∧
      es'.get lo 0 < 2 ^ 64 ∧ es'.get hi 0 < 2 ^ 64 := by
  have hd' := List.nodup_reverse.mpr hd
  simp only [List.reverse_cons, List.reverse_nil, List.nil_append, List.cons_append] at hd'
  simp only [List.nodup_cons, List.mem_cons, List.not_mem_nil, not_or, or_false, List.nodup_nil, and_true,
    not_false_eq_true] at hd hd' hxa hxb
  unfold umulT
  rw [runR_eq_runF 10]
  simp only [runF_assign, runF_store, runF_ret, runF_nil, runF_zero, ev_lit, ev_var, ev_idx, ev_bin, ev_cast,
    Env.get_set_same, Env.get_set_other, ne_eq, Prod.mk.injEq, false_and,
    and_false, and_true, true_and, not_false_eq_true, not_true_eq_false, hd, hd', hxa, hxb]
  refine ⟨_, rfl, ?_, ?_⟩
  · intro y j hy
    simp only [List.mem_cons, List.not_mem_nil, not_or, or_false] at hy
    simp only [Env.get_set_other, ne_eq, Prod.mk.injEq, false_and, not_false_eq_true, hy]
  · simp only [Env.get_set_same, Env.get_set_other, ne_eq, Prod.mk.injEq, false_and,
      and_false, and_true, true_and, not_false_eq_true, not_true_eq_false, hd, hd']
    generalize es.get xa 0 = a at *
    generalize es.get xb 0 = b at *
    simp only [binWrap_add, binWrap_mul, binWrap_shr, binWrap_shl, Nat.reducePow] at ha hb ⊢
    umul_split a b
    omega


/-- the tail of the inlined `secp256k1_u128_accum_mul`: `r->lo += lo; r->hi += hi + (r->lo < lo)` -/
def accT (lo hi xlo xhi : String) : List Stmt := [
  .assign lo (.bin .add 64 (.var lo) (.var xlo)),
  .assign hi (.bin .add 64 (.var hi) (.bin .add 64 (.var xhi)
    (.bin .sub 64 (.bin .xor 64 (.bin .lt 64 (.var lo) (.var xlo)) (.lit 2147483648)) (.lit 2147483648))))]

theorem accT_run (e : Env) (lo hi xlo xhi : String) (hd : [lo, hi, xlo, xhi].Nodup)
    (h1 : e.get lo 0 < 2 ^ 64) (h2 : e.get hi 0 < 2 ^ 64) (h3 : e.get xlo 0 < 2 ^ 64) (h4 : e.get xhi 0 < 2 ^ 64) :
    ∃ e', runR e (accT lo hi xlo xhi) = (e', none) ∧
      (∀ y j, y ∉ [lo, hi] → e'.get y j = e.get y j) ∧
      e'.get lo 0 + 2 ^ 64 * e'.get hi 0 =
        (e.get lo 0 + 2 ^ 64 * e.get hi 0 + (e.get xlo 0 + 2 ^ 64 * e.get xhi 0)) % 2 ^ 128 ∧
      e'.get lo 0 < 2 ^ 64 ∧ e'.get hi 0 < 2 ^ 64 := by
  have hd' := List.nodup_reverse.mpr hd
  simp only [List.reverse_cons, List.reverse_nil, List.nil_append, List.cons_append] at hd'
  simp only [List.nodup_cons, List.mem_cons, List.not_mem_nil, not_or, or_false, List.nodup_nil, and_true,
    not_false_eq_true] at hd hd'
  unfold accT
  rw [runR_eq_runF 2]
  simp only [runF_assign, runF_store, runF_ret, runF_nil, runF_zero, ev_lit, ev_var, ev_idx, ev_bin, ev_cast,
    Env.get_set_same, Env.get_set_other, ne_eq, Prod.mk.injEq, false_and,
    and_false, and_true, true_and, not_false_eq_true, not_true_eq_false, hd, hd']
  refine ⟨_, rfl, ?_, ?_⟩
  · intro y j hy
    simp only [List.mem_cons, List.not_mem_nil, not_or, or_false] at hy
    simp only [Env.get_set_other, ne_eq, Prod.mk.injEq, false_and, not_false_eq_true, hy]
  · simp only [Env.get_set_same, Env.get_set_other, ne_eq, Prod.mk.injEq, false_and,
      and_false, and_true, true_and, not_false_eq_true, not_true_eq_false, hd, hd']
    generalize e.get lo 0 = l at *
    generalize e.get hi 0 = h at *
    generalize e.get xlo 0 = xl at *
    generalize e.get xhi 0 = xh at *
    simp only [sext_lt]
    simp only [binWrap_add, binWrap_lt, Nat.reducePow] at h1 h2 h3 h4 ⊢
    split <;> omega

/-- the inlined `secp256k1_u128_accum_u64`: `r->lo += a; r->hi += r->lo < a` -/
def accU (lo hi y : String) : List Stmt := [
  .assign lo (.bin .add 64 (.var lo) (.var y)),
  .assign hi (.bin .add 64 (.var hi)
    (.bin .sub 64 (.bin .xor 64 (.bin .lt 64 (.var lo) (.var y)) (.lit 2147483648)) (.lit 2147483648)))]

theorem accU_run (e : Env) (lo hi y : String) (hd : [lo, hi, y].Nodup)
    (h1 : e.get lo 0 < 2 ^ 64) (h2 : e.get hi 0 < 2 ^ 64) (h3 : e.get y 0 < 2 ^ 64) :
    ∃ e', runR e (accU lo hi y) = (e', none) ∧
      (∀ z j, z ∉ [lo, hi] → e'.get z j = e.get z j) ∧
      e'.get lo 0 + 2 ^ 64 * e'.get hi 0 = (e.get lo 0 + 2 ^ 64 * e.get hi 0 + e.get y 0) % 2 ^ 128 ∧
      e'.get lo 0 < 2 ^ 64 ∧ e'.get hi 0 < 2 ^ 64 := by
  have hd' := List.nodup_reverse.mpr hd
  simp only [List.reverse_cons, List.reverse_nil, List.nil_append, List.cons_append] at hd'
  simp only [List.nodup_cons, List.mem_cons, List.not_mem_nil, not_or, or_false, List.nodup_nil, and_true,
    not_false_eq_true] at hd hd'
  unfold accU
  rw [runR_eq_runF 2]
  simp only [runF_assign, runF_store, runF_ret, runF_nil, runF_zero, ev_lit, ev_var, ev_idx, ev_bin, ev_cast,
    Env.get_set_same, Env.get_set_other, ne_eq, Prod.mk.injEq, false_and,
    and_false, and_true, true_and, not_false_eq_true, not_true_eq_false, hd, hd']
  refine ⟨_, rfl, ?_, ?_⟩
  · intro z j hz
    simp only [List.mem_cons, List.not_mem_nil, not_or, or_false] at hz
    simp only [Env.get_set_other, ne_eq, Prod.mk.injEq, false_and, not_false_eq_true, hz]
  · simp only [Env.get_set_same, Env.get_set_other, ne_eq, Prod.mk.injEq, false_and,
      and_false, and_true, true_and, not_false_eq_true, not_true_eq_false, hd, hd']
    generalize e.get lo 0 = l at *
    generalize e.get hi 0 = h at *
    generalize e.get y 0 = a at *
    simp only [sext_lt]
    simp only [binWrap_add, binWrap_lt, Nat.reducePow] at h1 h2 h3 ⊢
    split <;> omega


theorem runR_append' : ∀ (A B : List Stmt) (env : Env),
    runR env (A ++ B) = match (runR env A).2 with
      | some v => ((runR env A).1, some v)
      | none => runR (runR env A).1 B
  | [], B, env => by simp [runR_nil]
  | s :: A, B, env => by
    rw [List.cons_append, runR_cons, runR_cons]
    split
    · rename_i v hv; simp
    · rename_i hv
      exact runR_append' A B _

theorem runR_ite (env : Env) (c : Expr) (t e rest : List Stmt) :
    runR env (.ite c t e :: rest) = runR env ((if ev env c ≠ 0 then t else e) ++ rest) := by
  rw [runR_cons, runR_append']
  have h1 : (execS env (.ite c t e)).ret = (runR env (if ev env c ≠ 0 then t else e)).2 := by
    simp only [execS, runR, ev]
    by_cases hc : (evalE env c).1 = 0 <;> simp [hc]
  have h2 : (execS env (.ite c t e)).env = (runR env (if ev env c ≠ 0 then t else e)).1 := by
    simp only [execS, runR, ev]
    by_cases hc : (evalE env c).1 = 0 <;> simp [hc]
  rw [h1, h2]
  cases (runR env (if ev env c ≠ 0 then t else e)).2 <;> rfl

theorem rshiftS_run (e : Env) (lo hi : String) (n : Nat) (hne : lo ≠ hi) (hn0 : 0 < n) (hn : n ≤ 64)
    (h1 : e.get lo 0 < 2 ^ 64) (h2 : e.get hi 0 < 2 ^ 64) :
    ∃ e', runR e [rshiftS lo hi n] = (e', none) ∧
      (∀ y j, y ∉ [lo, hi] → e'.get y j = e.get y j) ∧
      e'.get lo 0 + 2 ^ 64 * e'.get hi 0 = (e.get lo 0 + 2 ^ 64 * e.get hi 0) / 2 ^ n ∧
      e'.get lo 0 < 2 ^ 64 ∧ e'.get hi 0 < 2 ^ 64 := by
  have hne' : ¬ hi = lo := fun h => hne h.symm
  have hne'' : ¬ lo = hi := hne
  unfold rshiftS
  rw [runR_ite]
  by_cases h64 : 64 ≤ n
  · obtain rfl : n = 64 := by omega
    simp only [ev_bin, ev_lit, binWrap_le, Nat.le_refl, ↓reduceIte, ne_eq, one_ne_zero, not_false_eq_true,
      List.append_nil]
    rw [runR_eq_runF 2]
    simp only [runF_assign, runF_nil, ev_lit, ev_var, ev_bin,
      Env.get_set_same, Env.get_set_other, ne_eq, Prod.mk.injEq, false_and,
      and_false, and_true, true_and, not_false_eq_true, not_true_eq_false, hne', hne'']
    refine ⟨_, rfl, ?_, ?_⟩
    · intro y j hy
      simp only [List.mem_cons, List.not_mem_nil, not_or, or_false] at hy
      simp only [Env.get_set_other, ne_eq, Prod.mk.injEq, false_and, not_false_eq_true, hy]
    · simp only [Env.get_set_same, Env.get_set_other, ne_eq, Prod.mk.injEq, false_and,
        and_false, and_true, true_and, not_false_eq_true, not_true_eq_false, hne', hne'']
      generalize e.get lo 0 = l at *
      generalize e.get hi 0 = h at *
      simp only [binWrap_shr, Nat.reducePow, Nat.reduceAdd, Nat.reduceSub, Nat.reduceMod, Nat.pow_zero, Nat.div_one]
        at h1 h2 ⊢
      omega
  · have hlt : n < 64 := by omega
    have hk : (64 + (4294967296 - n)) % 4294967296 = 64 - n := by omega
    simp only [ev_bin, ev_lit, binWrap_le, binWrap_lt, h64, hn0, ↓reduceIte, ne_eq, one_ne_zero, not_false_eq_true,
      not_true_eq_false, List.append_nil, List.nil_append, List.cons_append]
    rw [runR_ite]
    simp only [ev_bin, ev_lit, binWrap_le, binWrap_lt, h64, hn0, ↓reduceIte, ne_eq, one_ne_zero, not_false_eq_true,
      not_true_eq_false, List.append_nil, List.nil_append, List.cons_append]
    rw [runR_eq_runF 2]
    simp only [runF_assign, runF_nil, ev_lit, ev_var, ev_bin,
      Env.get_set_same, Env.get_set_other, ne_eq, Prod.mk.injEq, false_and,
      and_false, and_true, true_and, not_false_eq_true, not_true_eq_false, hne', hne'']
    refine ⟨_, rfl, ?_, ?_⟩
    · intro y j hy
      simp only [List.mem_cons, List.not_mem_nil, not_or, or_false] at hy
      simp only [Env.get_set_other, ne_eq, Prod.mk.injEq, false_and, not_false_eq_true, hy]
    · simp only [Env.get_set_same, Env.get_set_other, ne_eq, Prod.mk.injEq, false_and,
        and_false, and_true, true_and, not_false_eq_true, not_true_eq_false, hne', hne'']
      generalize e.get lo 0 = l at *
      generalize e.get hi 0 = h at *
      simp only [binWrap_shr, binWrap_shl, binWrap_or, binWrap_mul, hk, Nat.one_mul, Nat.mod_eq_of_lt h2]
      refine ⟨shr_lo' l h n h1 hlt, ?_, Nat.lt_of_le_of_lt (Nat.div_le_self _ _) h2⟩
      exact Nat.or_lt_two_pow (Nat.mod_lt _ (Nat.two_pow_pos 64)) (Nat.lt_of_le_of_lt (Nat.div_le_self _ _) h1)

/-! ### the blocks in interned form -/

def umulI (ua ub ull ulh uhl uhh umid hi uret lo xa xb : Nat) : List IStmt := [
  .assign ua (.var xa), .assign ub (.var xb),
  .assign ull (.bin .mul 64 (.cast 32 (.var ua)) (.cast 32 (.var ub))),
  .assign ulh (.bin .mul 64 (.cast 32 (.var ua)) (.bin .shr 64 (.var ub) (.lit 32))),
  .assign uhl (.bin .mul 64 (.bin .shr 64 (.var ua) (.lit 32)) (.cast 32 (.var ub))),
  .assign uhh (.bin .mul 64 (.bin .shr 64 (.var ua) (.lit 32)) (.bin .shr 64 (.var ub) (.lit 32))),
  .assign umid (.bin .add 64 (.bin .add 64 (.bin .shr 64 (.var ull) (.lit 32)) (.cast 32 (.var ulh)))
    (.cast 32 (.var uhl))),
  .assign hi (.bin .add 64 (.bin .add 64 (.bin .add 64 (.var uhh) (.bin .shr 64 (.var ulh) (.lit 32)))
    (.bin .shr 64 (.var uhl) (.lit 32))) (.bin .shr 64 (.var umid) (.lit 32))),
  .assign uret (.bin .add 64 (.bin .shl 64 (.var umid) (.lit 32)) (.cast 32 (.var ull))),
  .assign lo (.var uret)]

theorem decL_umulI (ua ub ull ulh uhl uhh umid hi uret lo xa xb : Nat) :
    decL (umulI ua ub ull ulh uhl uhh umid hi uret lo xa xb) =
      umulT (nm ua) (nm ub) (nm ull) (nm ulh) (nm uhl) (nm uhh) (nm umid) (nm hi) (nm uret) (nm lo) (nm xa) (nm xb) := rfl

def accI (lo hi xlo xhi : Nat) : List IStmt := [
  .assign lo (.bin .add 64 (.var lo) (.var xlo)),
  .assign hi (.bin .add 64 (.var hi) (.bin .add 64 (.var xhi)
    (.bin .sub 64 (.bin .xor 64 (.bin .lt 64 (.var lo) (.var xlo)) (.lit 2147483648)) (.lit 2147483648))))]

theorem decL_accI (lo hi xlo xhi : Nat) : decL (accI lo hi xlo xhi) = accT (nm lo) (nm hi) (nm xlo) (nm xhi) := rfl

def accUI (lo hi y : Nat) : List IStmt := [
  .assign lo (.bin .add 64 (.var lo) (.var y)),
  .assign hi (.bin .add 64 (.var hi)
    (.bin .sub 64 (.bin .xor 64 (.bin .lt 64 (.var lo) (.var y)) (.lit 2147483648)) (.lit 2147483648)))]

theorem decL_accUI (lo hi y : Nat) : decL (accUI lo hi y) = accU (nm lo) (nm hi) (nm y) := rfl

/-! ### written cells -/

/-- all cells of the variables `ks` -/
def wNames (ks : List Nat) : Cell → Bool := fun c => memN c.1 ks
/-- the single cell `d` -/
def wCell (d : Cell) : Cell → Bool := fun c => beqC c d

theorem nm_mem_map {k : Nat} {ks : List Nat} : nm k ∈ ks.map nm ↔ k ∈ ks := by
  constructor
  · intro h
    obtain ⟨k', hk', he⟩ := List.mem_map.mp h
    exact nm_injective he ▸ hk'
  · exact List.mem_map_of_mem

theorem nodup_map_nm {ks : List Nat} (h : ks.Nodup) : (ks.map nm).Nodup :=
  List.Nodup.map (fun _ _ h => nm_injective h) h

theorem Fr_of_names {ks : List Nat} {e e' : Env} (h : ∀ y j, y ∉ ks.map nm → e'.get y j = e.get y j) :
    Fr (wNames ks) e e' := by
  intro c hc
  simp only [wNames, memN_false] at hc
  exact h _ _ (fun h' => hc (nm_mem_map.mp h'))

/-- a frame for a set of names is a frame for every larger set -/
theorem frame_mono {ks ks' : List Nat} {e e' : Env} (h : ∀ y j, y ∉ ks.map nm → e'.get y j = e.get y j)
    (hsub : ∀ k ∈ ks, k ∈ ks') : ∀ y j, y ∉ ks'.map nm → e'.get y j = e.get y j := by
  intro y j hy
  refine h y j (fun h' => hy ?_)
  obtain ⟨k, hk, rfl⟩ := List.mem_map.mp h'
  exact List.mem_map_of_mem (hsub k hk)

theorem Fr_set_cell (e : Env) (c : Cell) (v : Nat) : Fr (wCell c) e (e.set (nm c.1) c.2 v) := by
  intro d hd
  simp only [wCell, beqC_false] at hd
  exact getC_set_other _ _ _ _ hd

/-! ### one step of the lock-step comparison -/

/-- result of one step: the rest of the two programs, the new table of related cells and of wide variables.
    (All names in the results are bound by pattern matching on the literal programs, so that the kernel sees
    evaluated numerals, not suspended computations.) -/
structure StepRes where
  ps' : List IStmt
  pn' : List IStmt
  G : List (Cell × Cell)
  H : List Wide

/-- the step consumed a prefix `A` of the struct program and a prefix `B` of the native program, and running `A` and
    `B` from related memories leads to related memories -/
def StepOK (G : List (Cell × Cell)) (H : List Wide) (ps pn : List IStmt) (r : StepRes) : Prop :=
  ∃ A B, ps = A ++ r.ps' ∧ pn = B ++ r.pn' ∧ ∀ es en, Sim G H es en →
    ∃ es' en', runR es (decL A) = (es', none) ∧ runR en (decL B) = (en', none) ∧ Sim r.G r.H es' en'

theorem runR_one_assign (env : Env) (x : String) (e : Expr) :
    runR env [.assign x e] = (env.set x 0 (ev env e), none) := by rw [runR_assign, runR_nil]

theorem runR_one_store (env : Env) (a : String) (i : Nat) (e : Expr) :
    runR env [.store a (.lit i) e] = (env.set a i (ev env e), none) := by rw [runR_store, runR_nil, ev_lit]

/-- a plain assignment on both sides, with related right-hand sides -/
def stepAssign (G : List (Cell × Cell)) (H : List Wide) : List IStmt → List IStmt → Option StepRes
  | .assign x e :: ps', .assign y f :: pn' =>
    if relE G e f then
      some ⟨ps', pn', ((x, 0), (y, 0)) :: killG (wCell (x, 0)) (wCell (y, 0)) G,
        killH (wCell (x, 0)) (wCell (y, 0)) H⟩
    else none
  | _, _ => none

theorem stepAssign_ok {G H ps pn r} (h : stepAssign G H ps pn = some r) : StepOK G H ps pn r := by
  unfold stepAssign at h
  split at h
  · rename_i x e ps' y f pn'
    split at h
    · rename_i hr
      injection h with h; subst h
      refine ⟨[.assign x e], [.assign y f], rfl, rfl, ?_⟩
      intro es en hs
      obtain ⟨h1, h2⟩ := relE_sound hs e f hr
      refine ⟨es.set (nm x) 0 (ev es (decE e)), en.set (nm y) 0 (ev en (decE f)), runR_one_assign _ _ _,
        runR_one_assign _ _ _, ?_⟩
      refine ((hs.kill (Fr_set_cell es (x, 0) _) (Fr_set_cell en (y, 0) _)).consG (x, 0) (y, 0) ?_ ?_)
      · rw [getC_set_same, getC_set_same, h1]
      · rw [getC_set_same]; exact h2
    · cases h
  · cases h

/-- a store at a literal index on both sides, with related right-hand sides -/
def stepStore (G : List (Cell × Cell)) (H : List Wide) : List IStmt → List IStmt → Option StepRes
  | .store a i e :: ps', .store b j f :: pn' =>
    if relE G e f then
      some ⟨ps', pn', ((a, i), (b, j)) :: killG (wCell (a, i)) (wCell (b, j)) G,
        killH (wCell (a, i)) (wCell (b, j)) H⟩
    else none
  | _, _ => none

theorem stepStore_ok {G H ps pn r} (h : stepStore G H ps pn = some r) : StepOK G H ps pn r := by
  unfold stepStore at h
  split at h
  · rename_i a i e ps' b j f pn'
    split at h
    · rename_i hr
      injection h with h; subst h
      refine ⟨[.store a i e], [.store b j f], rfl, rfl, ?_⟩
      intro es en hs
      obtain ⟨h1, h2⟩ := relE_sound hs e f hr
      refine ⟨es.set (nm a) i (ev es (decE e)), en.set (nm b) j (ev en (decE f)), runR_one_store _ _ _ _,
        runR_one_store _ _ _ _, ?_⟩
      refine ((hs.kill (Fr_set_cell es (a, i) _) (Fr_set_cell en (b, j) _)).consG (a, i) (b, j) ?_ ?_)
      · rw [getC_set_same, getC_set_same, h1]
      · rw [getC_set_same]; exact h2
    · cases h
  · cases h

/-- some wide variable `T` with low word `lo` is known -/
def anyH (T lo : Nat) : List Wide → Bool
  | [] => false
  | t :: l => (Nat.beq T t.1 && Nat.beq lo t.2.1) || anyH T lo l

theorem anyH_spec {T lo : Nat} {l : List Wide} (h : anyH T lo l = true) : ∃ hi, (T, lo, hi) ∈ l := by
  induction l with
  | nil => simp [anyH] at h
  | cons t l ih =>
    obtain ⟨t1, t2, t3⟩ := t
    simp only [anyH, Bool.or_eq_true, Bool.and_eq_true, Nat.beq_eq] at h
    rcases h with ⟨rfl, rfl⟩ | h
    · exact ⟨t3, List.mem_cons_self⟩
    · obtain ⟨hi, hh⟩ := ih h
      exact ⟨hi, List.mem_cons_of_mem _ hh⟩

/-- `secp256k1_u128_to_u64`: the struct side reads the low word, the native side converts to 64 bits -/
def stepToU64 (G : List (Cell × Cell)) (H : List Wide) : List IStmt → List IStmt → Option StepRes
  | .assign x (.var lo) :: ps', .assign y (.cast w (.var T)) :: pn' =>
    if Nat.beq w 64 && anyH T lo H then
      some ⟨ps', pn', ((x, 0), (y, 0)) :: killG (wCell (x, 0)) (wCell (y, 0)) G,
        killH (wCell (x, 0)) (wCell (y, 0)) H⟩
    else none
  | _, _ => none

theorem stepToU64_ok {G H ps pn r} (h : stepToU64 G H ps pn = some r) : StepOK G H ps pn r := by
  unfold stepToU64 at h
  split at h
  · rename_i x lo ps' y w T pn'
    split at h
    · rename_i hc
      simp only [Bool.and_eq_true, Nat.beq_eq] at hc
      obtain ⟨rfl, hany⟩ := hc
      injection h with h; subst h
      obtain ⟨hi, htH⟩ := anyH_spec hany
      refine ⟨[.assign x (.var lo)], [.assign y (.cast 64 (.var T))], rfl, rfl, ?_⟩
      intro es en hs
      obtain ⟨w1, w2, w3⟩ := hs.wide _ htH
      refine ⟨es.set (nm x) 0 (ev es (decE (.var lo))), en.set (nm y) 0 (ev en (decE (.cast 64 (.var T)))),
        runR_one_assign _ _ _, runR_one_assign _ _ _, ?_⟩
      refine ((hs.kill (Fr_set_cell es (x, 0) _) (Fr_set_cell en (y, 0) _)).consG (x, 0) (y, 0) ?_ ?_)
      · rw [getC_set_same, getC_set_same]
        simp only [decE, ev_cast, ev_var]
        simp only [getC] at w1 w2 w3
        rw [w1]
        omega
      · rw [getC_set_same]; exact w2
    · cases h
  · cases h

theorem mul_lt_128 {a b : Nat} (ha : a < 2 ^ 64) (hb : b < 2 ^ 64) : a * b < 2 ^ 128 := by
  have : a * b < 2 ^ 64 * 2 ^ 64 := Nat.mul_lt_mul'' ha hb
  simpa using this

/-- the names of an inlined `secp256k1_umul128` at the head of a program, and the rest of the program -/
structure UBlock where
  ua : Nat
  ub : Nat
  ull : Nat
  ulh : Nat
  uhl : Nat
  uhh : Nat
  umid : Nat
  hi : Nat
  uret : Nat
  lo : Nat
  xa : Nat
  xb : Nat
  rest : List IStmt

def UBlock.names (b : UBlock) : List Nat := [b.ua, b.ub, b.ull, b.ulh, b.uhl, b.uhh, b.umid, b.hi, b.uret, b.lo]

def UBlock.stmts (b : UBlock) : List IStmt :=
  umulI b.ua b.ub b.ull b.ulh b.uhl b.uhh b.umid b.hi b.uret b.lo b.xa b.xb

/-- recognise an inlined `secp256k1_umul128`: the names are read off, the ten statements are compared with the
    template `umulI` -/
def matchUmul : List IStmt → Option UBlock
  | .assign ua (.var xa) :: .assign ub (.var xb) :: .assign ull e2 :: .assign ulh e3 :: .assign uhl e4 ::
      .assign uhh e5 :: .assign umid e6 :: .assign hi e7 :: .assign uret e8 :: .assign lo e9 :: rest =>
    if beqL [IStmt.assign ua (.var xa), .assign ub (.var xb), .assign ull e2, .assign ulh e3, .assign uhl e4,
        .assign uhh e5, .assign umid e6, .assign hi e7, .assign uret e8, .assign lo e9]
        (umulI ua ub ull ulh uhl uhh umid hi uret lo xa xb) then
      some ⟨ua, ub, ull, ulh, uhl, uhh, umid, hi, uret, lo, xa, xb, rest⟩
    else none
  | _ => none

theorem matchUmul_some {ps : List IStmt} {b : UBlock} (h : matchUmul ps = some b) : ps = b.stmts ++ b.rest := by
  unfold matchUmul at h
  split at h
  · split at h
    · rename_i he
      have he' := beqL_eq _ _ he
      injection h with h; subst h
      simp only [UBlock.stmts, ← he', List.cons_append, List.nil_append]
    · cases h
  · cases h

/-- running an inlined `secp256k1_umul128` whose operands are 64-bit cells -/
theorem UBlock.run (b : UBlock) (es : Env) (hnd : b.names.Nodup) (hxa : b.xa ∉ b.names) (hxb : b.xb ∉ b.names)
    (ha : getC es (b.xa, 0) < 2 ^ 64) (hb : getC es (b.xb, 0) < 2 ^ 64) :
    ∃ es', runR es (decL b.stmts) = (es', none) ∧
      (∀ y j, y ∉ b.names.map nm → es'.get y j = es.get y j) ∧
      getC es' (b.lo, 0) + 2 ^ 64 * getC es' (b.hi, 0) = getC es (b.xa, 0) * getC es (b.xb, 0) ∧
      getC es' (b.lo, 0) < 2 ^ 64 ∧ getC es' (b.hi, 0) < 2 ^ 64 :=
  umul_run es (nm b.ua) (nm b.ub) (nm b.ull) (nm b.ulh) (nm b.uhl) (nm b.uhh) (nm b.umid) (nm b.hi) (nm b.uret)
    (nm b.lo) (nm b.xa) (nm b.xb) (nodup_map_nm hnd) (fun h' => hxa (nm_mem_map.mp h'))
    (fun h' => hxb (nm_mem_map.mp h')) ha hb

/-- `secp256k1_u128_mul(&T, a, b)`.  (The operands `xa`, `xb` are temporaries of the inlined call; their entries
    are dropped from the table, which keeps it short.) -/
def stepMul (G : List (Cell × Cell)) (H : List Wide) (ps : List IStmt) : List IStmt → Option StepRes
  | .assign T (.bin op w (.var ya) (.var yb)) :: pn' =>
    match matchUmul ps with
    | some b =>
      if (op == .mul) && Nat.beq w 128 && nodupN b.names && !(memN b.xa b.names) && !(memN b.xb b.names) &&
          memG (b.xa, 0) (ya, 0) G && memG (b.xb, 0) (yb, 0) G then
        some ⟨b.rest, pn', killG (wNames (b.xa :: b.xb :: b.names)) (wCell (T, 0)) G,
          (T, b.lo, b.hi) :: killH (wNames (b.xa :: b.xb :: b.names)) (wCell (T, 0)) H⟩
      else none
    | none => none
  | _ => none

theorem stepMul_ok {G H ps pn r} (h : stepMul G H ps pn = some r) : StepOK G H ps pn r := by
  unfold stepMul at h
  split at h
  · rename_i T op w ya yb pn'
    split at h
    · rename_i b hb
      split at h
      · rename_i hc
        simp only [Bool.and_eq_true, beq_iff_eq, Nat.beq_eq, nodupN_iff, Bool.not_eq_eq_eq_not, Bool.not_true,
          memN_false, memG_iff] at hc
        obtain ⟨⟨⟨⟨⟨⟨rfl, rfl⟩, hnd⟩, hxa⟩, hxb⟩, hga⟩, hgb⟩ := hc
        injection h with h; subst h
        refine ⟨b.stmts, [.assign T (.bin .mul 128 (.var ya) (.var yb))], matchUmul_some hb, rfl, ?_⟩
        intro es en hs
        obtain ⟨a1, a2⟩ := hs.good _ hga
        obtain ⟨b1, b2⟩ := hs.good _ hgb
        obtain ⟨es', hrun, hfr, hval, hlo, hhi⟩ := b.run es hnd hxa hxb a2 b2
        refine ⟨es', en.set (nm T) 0 (ev en (decE (.bin .mul 128 (.var ya) (.var yb)))), hrun,
          runR_one_assign _ _ _, ?_⟩
        have hfr' := frame_mono (ks' := b.xa :: b.xb :: b.names) hfr
          (fun k hk => List.mem_cons_of_mem _ (List.mem_cons_of_mem _ hk))
        refine ((hs.kill (Fr_of_names hfr') (Fr_set_cell en (T, 0) _)).consH (T, b.lo, b.hi) ?_ hlo hhi)
        rw [getC_set_same]
        simp only [decE, ev_bin, ev_var, binWrap_mul]
        simp only [getC] at a1 b1 hval ⊢
        rw [a1, b1, hval]
        exact Nat.mod_eq_of_lt (mul_lt_128 a2 b2)
      · cases h
    · cases h
  · cases h

/-- `secp256k1_u128_accum_mul(&T, a, b)` -/
def stepAccMul (G : List (Cell × Cell)) (H : List Wide) (ps : List IStmt) : List IStmt → Option StepRes
  | .assign T (.bin op w (.var T') (.bin op2 w2 (.var ya) (.var yb))) :: pn' =>
    match matchUmul ps with
    | some b =>
      match b.rest with
      | .assign lo e1 :: .assign hi e2 :: ps' =>
        if (op == .add) && Nat.beq w 128 && Nat.beq T T' && (op2 == .mul) && Nat.beq w2 128 &&
            beqL [IStmt.assign lo e1, .assign hi e2] (accI lo hi b.lo b.hi) &&
            nodupN b.names && !(memN b.xa b.names) && !(memN b.xb b.names) && !(memN lo b.names) &&
            !(memN hi b.names) && nodupN [lo, hi, b.lo, b.hi] &&
            memG (b.xa, 0) (ya, 0) G && memG (b.xb, 0) (yb, 0) G && memH T lo hi H then
          some ⟨ps', pn', killG (wNames (b.xa :: b.xb :: lo :: hi :: b.names)) (wCell (T, 0)) G,
            (T, lo, hi) :: killH (wNames (b.xa :: b.xb :: lo :: hi :: b.names)) (wCell (T, 0)) H⟩
        else none
      | _ => none
    | none => none
  | _ => none

theorem stepAccMul_ok {G H ps pn r} (h : stepAccMul G H ps pn = some r) : StepOK G H ps pn r := by
  unfold stepAccMul at h
  split at h
  · rename_i T op w T' op2 w2 ya yb pn'
    split at h
    · rename_i b hb
      split at h
      · rename_i lo e1 hi e2 ps' hrest
        split at h
        · rename_i hc
          simp only [Bool.and_eq_true, beq_iff_eq, Nat.beq_eq, nodupN_iff, Bool.not_eq_eq_eq_not, Bool.not_true,
            memN_false, memG_iff, memH_iff] at hc
          obtain ⟨⟨⟨⟨⟨⟨⟨⟨⟨⟨⟨⟨⟨⟨rfl, rfl⟩, rfl⟩, rfl⟩, rfl⟩, hacc⟩, hnd⟩, hxa⟩, hxb⟩, hlo⟩, hhi⟩, hnd2⟩, hga⟩, hgb⟩, hT⟩ := hc
          have hacc := beqL_eq _ _ hacc
          injection h with h; subst h
          refine ⟨b.stmts ++ accI lo hi b.lo b.hi,
            [.assign T (.bin .add 128 (.var T) (.bin .mul 128 (.var ya) (.var yb)))], ?_, rfl, ?_⟩
          · rw [matchUmul_some hb, hrest, ← hacc]; simp only [List.append_assoc, List.cons_append, List.nil_append]
          intro es en hs
          obtain ⟨a1, a2⟩ := hs.good _ hga
          obtain ⟨b1, b2⟩ := hs.good _ hgb
          obtain ⟨w1, w2, w3⟩ := hs.wide _ hT
          obtain ⟨es1, hrun1, hfr1, hval1, hlo1, hhi1⟩ := b.run es hnd hxa hxb a2 b2
          have el : es1.get (nm lo) 0 = es.get (nm lo) 0 := hfr1 _ _ (fun h' => hlo (nm_mem_map.mp h'))
          have eh : es1.get (nm hi) 0 = es.get (nm hi) 0 := hfr1 _ _ (fun h' => hhi (nm_mem_map.mp h'))
          simp only [getC] at a1 a2 b1 b2 w1 w2 w3 hval1 hlo1 hhi1
          obtain ⟨es2, hrun2, hfr2, hval2, hlo2, hhi2⟩ := accT_run es1 (nm lo) (nm hi) (nm b.lo) (nm b.hi)
            (nodup_map_nm hnd2) (by rw [el]; exact w2) (by rw [eh]; exact w3) hlo1 hhi1
          refine ⟨es2, en.set (nm T) 0 (ev en (decE (.bin .add 128 (.var T) (.bin .mul 128 (.var ya) (.var yb))))),
            ?_, runR_one_assign _ _ _, ?_⟩
          · rw [decL_append, decL_accI, runR_append _ _ _ (by rw [hrun1]), hrun1]
            exact hrun2
          · have hfr : ∀ y j, y ∉ (b.xa :: b.xb :: lo :: hi :: b.names).map nm → es2.get y j = es.get y j := by
              intro y j hy
              simp only [List.map_cons, List.mem_cons, not_or] at hy
              rw [hfr2 y j (by simp only [List.mem_cons, List.not_mem_nil, not_or, or_false]; exact ⟨hy.2.2.1, hy.2.2.2.1⟩)]
              exact hfr1 y j hy.2.2.2.2
            refine ((hs.kill (Fr_of_names hfr) (Fr_set_cell en (T, 0) _)).consH (T, lo, hi) ?_ hlo2 hhi2)
            rw [getC_set_same]
            simp only [decE, ev_bin, ev_var, binWrap_mul, binWrap_add]
            simp only [getC]
            rw [hval2, el, eh, hval1, w1, a1, b1, Nat.mod_eq_of_lt (mul_lt_128 a2 b2)]
        · cases h
      · cases h
    · cases h
  · cases h

/-- `secp256k1_u128_accum_u64(&T, a)` -/
def stepAccU (G : List (Cell × Cell)) (H : List Wide) : List IStmt → List IStmt → Option StepRes
  | .assign lo (.bin op1 w1 a1 (.var y)) :: .assign hi e2 :: ps', .assign T (.bin op w (.var T') (.var y')) :: pn' =>
    if (op == .add) && Nat.beq w 128 && Nat.beq T T' &&
        beqL [IStmt.assign lo (.bin op1 w1 a1 (.var y)), .assign hi e2] (accUI lo hi y) &&
        nodupN [lo, hi, y] && memG (y, 0) (y', 0) G && memH T lo hi H then
      some ⟨ps', pn', killG (wNames [y, lo, hi]) (wCell (T, 0)) G, (T, lo, hi) :: killH (wNames [y, lo, hi]) (wCell (T, 0)) H⟩
    else none
  | _, _ => none

theorem stepAccU_ok {G H ps pn r} (h : stepAccU G H ps pn = some r) : StepOK G H ps pn r := by
  unfold stepAccU at h
  split at h
  · rename_i lo op1 w1 a1 y hi e2 ps' T op w T' y' pn'
    split at h
    · rename_i hc
      simp only [Bool.and_eq_true, beq_iff_eq, Nat.beq_eq, nodupN_iff, memG_iff, memH_iff] at hc
      obtain ⟨⟨⟨⟨⟨⟨rfl, rfl⟩, rfl⟩, hacc⟩, hnd⟩, hgy⟩, hT⟩ := hc
      have hacc := beqL_eq _ _ hacc
      injection h with h; subst h
      refine ⟨accUI lo hi y, [.assign T (.bin .add 128 (.var T) (.var y'))], ?_, rfl, ?_⟩
      · rw [← hacc]; rfl
      intro es en hs
      obtain ⟨a1, a2⟩ := hs.good _ hgy
      obtain ⟨w1, w2, w3⟩ := hs.wide _ hT
      simp only [getC] at a1 a2 w1 w2 w3
      obtain ⟨es2, hrun2, hfr2, hval2, hlo2, hhi2⟩ := accU_run es (nm lo) (nm hi) (nm y) (nodup_map_nm hnd) w2 w3 a2
      refine ⟨es2, en.set (nm T) 0 (ev en (decE (.bin .add 128 (.var T) (.var y')))), ?_, runR_one_assign _ _ _, ?_⟩
      · rw [decL_accUI]; exact hrun2
      · have hfr := frame_mono (ks := [lo, hi]) (ks' := [y, lo, hi]) hfr2 (fun k hk => List.mem_cons_of_mem _ hk)
        refine ((hs.kill (Fr_of_names hfr) (Fr_set_cell en (T, 0) _)).consH (T, lo, hi) ?_ hlo2 hhi2)
        rw [getC_set_same]
        simp only [decE, ev_bin, ev_var, binWrap_add]
        simp only [getC]
        rw [hval2, w1, a1]
    · cases h
  · cases h

/-- `secp256k1_u128_rshift(&T, n)` with a literal `0 < n ≤ 64` -/
def stepShift (G : List (Cell × Cell)) (H : List Wide) : List IStmt → List IStmt → Option StepRes
  | .rshift lo hi n :: ps', .assign T (.bin op w (.var T') (.lit n')) :: pn' =>
    if (op == .shr) && Nat.beq w 128 && Nat.beq T T' && Nat.beq n' n && !(Nat.beq lo hi) && decide (0 < n) &&
        decide (n ≤ 64) && memH T lo hi H then
      some ⟨ps', pn', killG (wNames [lo, hi]) (wCell (T, 0)) G, (T, lo, hi) :: killH (wNames [lo, hi]) (wCell (T, 0)) H⟩
    else none
  | _, _ => none

theorem stepShift_ok {G H ps pn r} (h : stepShift G H ps pn = some r) : StepOK G H ps pn r := by
  unfold stepShift at h
  split at h
  · rename_i lo hi n ps' T op w T' n' pn'
    split at h
    · rename_i hc
      simp only [Bool.and_eq_true, beq_iff_eq, Nat.beq_eq, Bool.not_eq_eq_eq_not, Bool.not_true, decide_eq_true_eq,
        memH_iff] at hc
      obtain ⟨⟨⟨⟨⟨⟨⟨rfl, rfl⟩, rfl⟩, rfl⟩, hne⟩, hn0⟩, hn⟩, hT⟩ := hc
      have hne : lo ≠ hi := by
        intro he; subst he; simp at hne
      injection h with h; subst h
      refine ⟨[.rshift lo hi n'], [.assign T (.bin .shr 128 (.var T) (.lit n'))], rfl, rfl, ?_⟩
      intro es en hs
      obtain ⟨w1, w2, w3⟩ := hs.wide _ hT
      simp only [getC] at w1 w2 w3
      obtain ⟨es2, hrun2, hfr2, hval2, hlo2, hhi2⟩ := rshiftS_run es (nm lo) (nm hi) n' (nm_ne hne) hn0 hn w2 w3
      refine ⟨es2, en.set (nm T) 0 (ev en (decE (.bin .shr 128 (.var T) (.lit n')))), hrun2, runR_one_assign _ _ _, ?_⟩
      refine ((hs.kill (Fr_of_names (ks := [lo, hi]) hfr2) (Fr_set_cell en (T, 0) _)).consH (T, lo, hi) ?_ hlo2 hhi2)
      rw [getC_set_same]
      simp only [decE, ev_bin, ev_var, ev_lit, binWrap_shr]
      simp only [getC]
      rw [hval2, w1]
    · cases h
  · cases h

/-- one step: the first pattern that applies -/
def step (G : List (Cell × Cell)) (H : List Wide) (ps pn : List IStmt) : Option StepRes :=
  (stepAssign G H ps pn).orElse fun _ => (stepStore G H ps pn).orElse fun _ => (stepToU64 G H ps pn).orElse fun _ =>
  (stepShift G H ps pn).orElse fun _ => (stepAccU G H ps pn).orElse fun _ => (stepMul G H ps pn).orElse fun _ =>
  stepAccMul G H ps pn

theorem orElse_some {α : Type} {a : Option α} {b : Unit → Option α} {r : α} (h : a.orElse b = some r) :
    a = some r ∨ b () = some r := by
  cases a with
  | none => right; simpa [Option.orElse] using h
  | some v => left; simpa [Option.orElse] using h

theorem step_ok {G H ps pn r} (h : step G H ps pn = some r) : StepOK G H ps pn r := by
  unfold step at h
  rcases orElse_some h with h | h
  · exact stepAssign_ok h
  rcases orElse_some h with h | h
  · exact stepStore_ok h
  rcases orElse_some h with h | h
  · exact stepToU64_ok h
  rcases orElse_some h with h | h
  · exact stepShift_ok h
  rcases orElse_some h with h | h
  · exact stepAccU_ok h
  rcases orElse_some h with h | h
  · exact stepMul_ok h
  · exact stepAccMul_ok h

/-! ### the lock-step comparison of two programs -/

/-- `k l`, with the spine of `l` rebuilt from evaluated cells.  (The kernel evaluates by name and shares nothing:
    without this, the chain of `filter`s that produces the current table would be re-run at every lookup.) -/
def reList {α β : Type} : List α → (List α → β) → β
  | [], k => k []
  | a :: l, k => reList l fun l' => k (a :: l')

theorem reList_eq {α β : Type} : ∀ (l : List α) (k : List α → β), reList l k = k l
  | [], _ => rfl
  | a :: l, k => by rw [reList, reList_eq l]

/-- compare `ps` (struct configuration) and `pn` (native configuration) step by step; on success the final
    related cells and wide variables -/
def simRun : Nat → List (Cell × Cell) → List Wide → List IStmt → List IStmt → Option (List (Cell × Cell) × List Wide)
  | 0, _, _, _, _ => none
  | f + 1, G, H, ps, pn =>
    if ps.isEmpty && pn.isEmpty then some (G, H) else
    match step G H ps pn with
    | some r => reList r.G fun G' => reList r.H fun H' => simRun f G' H' r.ps' r.pn'
    | none => none

theorem simRun_sound : ∀ (f : Nat) (G : List (Cell × Cell)) (H : List Wide) (ps pn : List IStmt)
    (G' : List (Cell × Cell)) (H' : List Wide), simRun f G H ps pn = some (G', H') →
    ∀ es en, Sim G H es en →
      ∃ es' en', runR es (decL ps) = (es', none) ∧ runR en (decL pn) = (en', none) ∧ Sim G' H' es' en'
  | 0, _, _, _, _, _, _, h => by simp [simRun] at h
  | f + 1, G, H, ps, pn, G', H', h => by
    intro es en hs
    unfold simRun at h
    split at h
    · rename_i he
      simp only [Bool.and_eq_true, List.isEmpty_iff] at he
      obtain ⟨rfl, rfl⟩ := he
      injection h with h
      injection h with h1 h2
      subst h1; subst h2
      exact ⟨es, en, runR_nil _, runR_nil _, hs⟩
    · split at h
      · rename_i r hr
        simp only [reList_eq] at h
        obtain ⟨A, B, eA, eB, hstep⟩ := step_ok hr
        obtain ⟨es1, en1, r1, r2, hs1⟩ := hstep es en hs
        obtain ⟨es2, en2, r3, r4, hs2⟩ := simRun_sound f r.G r.H _ _ G' H' h es1 en1 hs1
        refine ⟨es2, en2, ?_, ?_, hs2⟩
        · rw [eA, decL_append, runR_append _ _ _ (by rw [r1]), r1]; exact r3
        · rw [eB, decL_append, runR_append _ _ _ (by rw [r2]), r2]; exact r4
      · cases h

/-- the comparison succeeds and relates all the listed output cells -/
def simCheck (G0 : List (Cell × Cell)) (ps pn : List IStmt) (outs : List (Cell × Cell)) : Bool :=
  match simRun (ps.length + pn.length + 1) G0 [] ps pn with
  | some (G, _) => outs.all fun o => memG o.1 o.2 G
  | none => false

/-- **Soundness of the comparison.**  If `simCheck` accepts, then running the two programs (C semantics `execL`) from
    memories that agree on the cells related by `G0` (with 64-bit values there) leaves equal values in the output
    cells. -/
theorem simCheck_sound {G0 : List (Cell × Cell)} {ps pn : List IStmt} {outs : List (Cell × Cell)}
    (h : simCheck G0 ps pn outs = true) {es en : Env} (hs : Sim G0 [] es en) :
    ∀ o ∈ outs, getC (execL en (decL pn)).env o.2 = getC (execL es (decL ps)).env o.1 := by
  unfold simCheck at h
  split at h
  · rename_i G H hr
    obtain ⟨es', en', r1, r2, hs'⟩ := simRun_sound _ _ _ _ _ _ _ hr es en hs
    intro o ho
    have hG : o ∈ G := memG_iff.mp (List.all_eq_true.mp h o ho)
    have e1 : (execL es (decL ps)).env = es' := congrArg Prod.fst r1
    have e2 : (execL en (decL pn)).env = en' := congrArg Prod.fst r2
    rw [e1, e2]
    exact (hs'.good o hG).1
  · cases h


section Interning
open Lean Meta Elab Term Tactic

/-! ### interning a generated program (elaboration time; the result is CHECKED by the kernel, see `kernel_rfl`) -/

/-- the key of a name: its characters as base-256 digits, least significant first (inverse of `nm` on names
    made of characters below 256 that do not end in the character 0) -/
def packName (s : String) : Nat := s.toList.foldr (fun c acc => c.toNat + 256 * acc) 0

private def strLit? (e : Lean.Expr) : Option String :=
  match e with
  | .lit (.strVal s) => some s
  | _ => none

private def keyOf (e : Lean.Expr) : MetaM Lean.Expr :=
  match strLit? e with
  | some s => return mkNatLit (packName s)
  | none => throwError "intern: string literal expected{indentExpr e}"

private def internE : Nat → Lean.Expr → MetaM Lean.Expr
  | 0, e => throwError "intern: expression too deep{indentExpr e}"
  | fuel + 1, e => do
    let args := e.getAppArgs
    match e.getAppFn.constName? with
    | some ``MiniC.Expr.lit => return mkApp (mkConst ``IExpr.lit) args[0]!
    | some ``MiniC.Expr.var => return mkApp (mkConst ``IExpr.var) (← keyOf args[0]!)
    | some ``MiniC.Expr.idx =>
      let i := args[1]!
      unless i.isAppOf ``MiniC.Expr.lit do throwError "intern: literal index expected{indentExpr e}"
      return mkApp2 (mkConst ``IExpr.idx) (← keyOf args[0]!) i.getAppArgs[0]!
    | some ``MiniC.Expr.bin =>
      return mkApp4 (mkConst ``IExpr.bin) args[0]! args[1]! (← internE fuel args[2]!) (← internE fuel args[3]!)
    | some ``MiniC.Expr.cast => return mkApp2 (mkConst ``IExpr.cast) args[0]! (← internE fuel args[1]!)
    | _ => throwError "intern: unsupported expression{indentExpr e}"

private def listElems (e : Lean.Expr) : MetaM (Array Lean.Expr) := do
  let mut out := #[]
  let mut cur := e
  repeat
    if cur.isAppOf ``List.cons then
      out := out.push cur.getAppArgs[1]!
      cur := cur.getAppArgs[2]!
    else if cur.isAppOf ``List.nil then
      break
    else if let .letE _ _ v b _ := cur then
      cur := b.instantiate1 v      -- long list literals are elaborated in chunks bound by `have`
    else if let .mdata _ b := cur then
      cur := b
    else throwError "intern: list literal expected{indentExpr cur}"
  return out

private def internS (s : Lean.Expr) : MetaM Lean.Expr := do
  let args := s.getAppArgs
  match s.getAppFn.constName? with
  | some ``MiniC.Stmt.assign => return mkApp2 (mkConst ``IStmt.assign) (← keyOf args[0]!) (← internE 64 args[1]!)
  | some ``MiniC.Stmt.store =>
    let i := args[1]!
    unless i.isAppOf ``MiniC.Expr.lit do throwError "intern: literal index expected{indentExpr s}"
    return mkApp3 (mkConst ``IStmt.store) (← keyOf args[0]!) i.getAppArgs[0]! (← internE 64 args[2]!)
  | some ``MiniC.Stmt.ite =>
    -- the only `if` of the kernels: the inlined `secp256k1_u128_rshift(&r, n)`; names and `n` are read off,
    -- the exact shape is checked by the kernel when the decoded program is compared with the original
    let c := args[0]!
    let t ← listElems args[1]!
    unless c.isAppOf ``MiniC.Expr.bin && t.size == 2 do throwError "intern: unsupported if{indentExpr s}"
    let n := c.getAppArgs[3]!
    unless n.isAppOf ``MiniC.Expr.lit do throwError "intern: unsupported if{indentExpr s}"
    return mkApp3 (mkConst ``IStmt.rshift) (← keyOf t[0]!.getAppArgs[0]!) (← keyOf t[1]!.getAppArgs[0]!) n.getAppArgs[0]!
  | _ => throwError "intern: unsupported statement{indentExpr s}"

/-- `intern_body% f` : the body of the translated function `f : MiniC.Fn` in interned form (`List IStmt`) -/
elab "intern_body% " id:ident : term => do
  let c ← realizeGlobalConstNoOverloadWithInfo id
  let v ← whnfD (mkConst c)
  unless v.isAppOf ``MiniC.Fn.mk do throwError "intern_body%: a literal MiniC.Fn expected"
  let elems ← listElems v.getAppArgs[3]!
  let mut out := mkApp (mkConst ``List.nil [Level.zero]) (mkConst ``IStmt)
  for s in elems.reverse do
    out := mkApp3 (mkConst ``List.cons [Level.zero]) (mkConst ``IStmt) (← internS s) out
  return out

/-- close `a = b` with `Eq.refl a`, leaving the check of the definitional equality to the KERNEL (which is the only
    judge of the final proof term anyway) instead of the elaborator's slower unifier -/
elab "kernel_rfl" : tactic => do
  let g ← getMainGoal
  let t ← instantiateMVars (← g.getType)
  match t.eq? with
  | some (_, a, _) => g.assign (← mkEqRefl a)
  | none => throwError "kernel_rfl: the goal is not an equality"

end Interning

end FieldKernelStruct
end SecpZkp
