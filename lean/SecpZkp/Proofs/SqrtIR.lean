import SecpZkp.Proofs.GroupIR
/-
  Helpers for `Props/C05_sqrt.lean`: the square-root addition chain of `secp256k1_fe_sqrt` (src/field_impl.h), as it
  appears (three times, with different variable names, because callees are inlined) in `Gen/F_group.lean`.

  * `chainL`: a checker that walks through a statement list made of `sqr`, `mul`, `set` and loop-counter assignments
    `int j (lit k)` and records, for every field variable written, the EXPONENT `e` such that the variable holds
    `a ^ e (mod P)`, `a` being the value of the base variable.  `chainL_sound`: the checker is right about `execL`
    (and the magnitude preconditions of `mul` / `sqr` hold along the way).  The checker is evaluated by the kernel
    (`decide +kernel`) on the generated statement lists, so the 255 squarings and 13 multiplications are never
    executed symbolically by a tactic.
  * `sqrt_fn`: the whole inlined body of `secp256k1_fe_sqrt` — chain, final squaring, comparison with the input —
    for arbitrary variable names.
-/
namespace SecpZkp
namespace FeIR
open MiniC

/-! ### Powers modulo `P` -/

theorem sqr_mod_pow {a v e : ℕ} (h : v % P = a ^ e % P) : Fe.sqr v % P = a ^ (2 * e) % P := by
  unfold Fe.sqr
  rw [Nat.mod_mod, Nat.mul_mod, h, ← Nat.mul_mod, two_mul, pow_add]

theorem mul_mod_pow {a v w e f : ℕ} (h1 : v % P = a ^ e % P) (h2 : w % P = a ^ f % P) :
    Fe.mul v w % P = a ^ (e + f) % P := by
  unfold Fe.mul
  rw [Nat.mod_mod, Nat.mul_mod, h1, h2, ← Nat.mul_mod, pow_add]

theorem sqrtCand_eq_pow (a : ℕ) : Fe.sqrtCand a = a ^ ((P + 1) / 4) % P := by
  unfold Fe.sqrtCand
  exact Field.powMod_eq P_pos (Field.lt_pow_520 (by decide +kernel))

/-- squaring `a ^ ((P+1)/8)` gives the candidate root `a ^ ((P+1)/4)` -/
theorem sqr_eq_sqrtCand {a v : ℕ} (h : v % P = a ^ ((P + 1) / 8) % P) : Fe.sqr v = Fe.sqrtCand a := by
  have h2 := sqr_mod_pow h
  rw [Nat.mod_eq_of_lt (Fe.sqr_lt_P v)] at h2
  rw [h2, sqrtCand_eq_pow]
  have : 2 * ((P + 1) / 8) = (P + 1) / 4 := by decide +kernel
  rw [this]

/-! ### The exponent-tracking checker -/

/-- abstract environment: field variable ↦ exponent of the base -/
abbrev XEnv := List (String × ℕ)

def XEnv.get? : XEnv → String → Option ℕ
  | [], _ => none
  | (k, v) :: rest, x => if k = x then some v else XEnv.get? rest x

def XEnv.set : XEnv → String → ℕ → XEnv
  | [], x, e => [(x, e)]
  | (k, v) :: rest, x, e => if k = x then (k, e) :: rest else (k, v) :: XEnv.set rest x e

theorem XEnv.get?_set (env : XEnv) (x y : String) (e : ℕ) :
    (env.set x e).get? y = if x = y then some e else env.get? y := by
  induction env with
  | nil => simp [XEnv.set, XEnv.get?]
  | cons p rest ih =>
    obtain ⟨k, v⟩ := p
    simp only [XEnv.set]
    by_cases hk : k = x
    · subst hk
      simp only [if_true, XEnv.get?]
      by_cases h : k = y <;> simp [h]
    · simp only [hk, if_false, XEnv.get?, ih]
      by_cases h : k = y
      · subst h
        have : ¬ x = k := fun h => hk h.symm
        simp [this]
      · simp [h]

/-- one statement of an addition chain -/
def chainS (env : XEnv) : Stmt → Option XEnv
  | .sqr d a => match env.get? a with
    | some e => some (env.set d (2 * e))
    | none => none
  | .mul d a b => match env.get? a, env.get? b with
    | some e, some f => some (env.set d (e + f))
    | _, _ => none
  | .set d s => match env.get? s with
    | some e => some (env.set d e)
    | none => none
  | .int _ (.lit _) => some env
  | _ => none

def chainL (env : XEnv) : List Stmt → Option XEnv
  | [] => some env
  | s :: rest => match chainS env s with
    | some env' => chainL env' rest
    | none => none

/-- integer variables assigned by a statement (of a chain) -/
def intName : Stmt → List String
  | .int x _ => [x]
  | _ => []

def intNames : List Stmt → List String
  | [] => []
  | s :: rest => intName s ++ intNames rest

/-- every tracked variable holds `a ^ e (mod P)` with a magnitude accepted by `mul` / `sqr` -/
def Inv (a : ℕ) (env : XEnv) (fe : FeEnv) : Prop :=
  ∀ n e, env.get? n = some e → (fe.get n).mag ≤ 8 ∧ (fe.get n).val % P = a ^ e % P

theorem Inv.set {a : ℕ} {env : XEnv} {fe : FeEnv} (h : Inv a env fe) (d : String) {v m e : ℕ} (hm : m ≤ 8)
    (hv : v % P = a ^ e % P) : Inv a (env.set d e) (fe.set d ⟨v, m⟩) := by
  intro n e' hn
  rw [XEnv.get?_set] at hn
  rw [FeEnv.get_set]
  by_cases hd : d = n
  · simp only [hd, if_true] at hn ⊢
    injection hn with hn
    subst hn
    exact ⟨hm, hv⟩
  · simp only [hd, if_false] at hn ⊢
    exact h n e' hn

theorem get?_set_none {env : XEnv} {d n : String} {e : ℕ} (h : (env.set d e).get? n = none) :
    d ≠ n ∧ env.get? n = none := by
  rw [XEnv.get?_set] at h
  by_cases hd : d = n
  · simp [hd] at h
  · simp only [hd, if_false] at h
    exact ⟨hd, h⟩

theorem chainS_sound {a : ℕ} {env env' : XEnv} {fe : FeEnv} (ints : Env) {s : Stmt} (h : Inv a env fe)
    (hc : chainS env s = some env') :
    ∃ fe' ints', execS ⟨fe, ints, false⟩ s = some ⟨fe', ints', false⟩ ∧ Inv a env' fe' ∧
      (∀ n, env'.get? n = none → fe'.get n = fe.get n ∧ env.get? n = none) ∧
      (∀ x, x ∉ intName s → ints'.get x 0 = ints.get x 0) := by
  cases s with
  | sqr d x =>
    simp only [chainS] at hc
    split at hc
    · next e he =>
      injection hc with hc
      subst hc
      obtain ⟨hm, hv⟩ := h x e he
      refine ⟨_, _, by rw [execS_sqr, guard'_pos hm], h.set d (le_of_eq_of_le rfl (by omega)) (sqr_mod_pow hv),
        fun n hn => ?_, fun _ _ => rfl⟩
      obtain ⟨h1, h2⟩ := get?_set_none hn
      exact ⟨by rw [FeEnv.get_set, if_neg h1], h2⟩
    · exact absurd hc (by simp)
  | mul d x y =>
    simp only [chainS] at hc
    split at hc
    · next e f he hf =>
      injection hc with hc
      subst hc
      obtain ⟨hm, hv⟩ := h x e he
      obtain ⟨hm', hv'⟩ := h y f hf
      refine ⟨_, _, by rw [execS_mul, guard'_pos ⟨hm, hm'⟩], h.set d (by omega) (mul_mod_pow hv hv'),
        fun n hn => ?_, fun _ _ => rfl⟩
      obtain ⟨h1, h2⟩ := get?_set_none hn
      exact ⟨by rw [FeEnv.get_set, if_neg h1], h2⟩
    · exact absurd hc (by simp)
  | set d x =>
    simp only [chainS] at hc
    split at hc
    · next e he =>
      injection hc with hc
      subst hc
      obtain ⟨hm, hv⟩ := h x e he
      refine ⟨_, _, by rw [execS_set], ?_, fun n hn => ?_, fun _ _ => rfl⟩
      · have := h.set d hm hv
        exact this
      · obtain ⟨h1, h2⟩ := get?_set_none hn
        exact ⟨by rw [FeEnv.get_set, if_neg h1], h2⟩
    · exact absurd hc (by simp)
  | int x ex =>
    cases ex with
    | lit k =>
      simp only [chainS] at hc
      injection hc with hc
      subst hc
      refine ⟨_, _, by rw [execS_int], h, fun n hn => ⟨rfl, hn⟩, fun y hy => ?_⟩
      rw [ints_get_set, if_neg]
      intro hxy
      exact hy (by simp [intName, hxy])
    | _ => exact absurd hc (by simp [chainS])
  | _ => exact absurd hc (by simp [chainS])

/-- The checker is sound: if it accepts `l` from `env` and reports `env'`, then from every state in which the
    variables of `env` hold the recorded powers of `a`, `l` executes successfully (no magnitude violation), the
    variables of `env'` hold the recorded powers, every field variable NOT in `env'` is unchanged, and only the integer
    variables `intNames l` (loop counters) are written. -/
theorem chainL_sound {a : ℕ} (l : List Stmt) : ∀ {env env' : XEnv} {fe : FeEnv} (ints : Env), Inv a env fe →
    chainL env l = some env' →
    ∃ fe' ints', execL ⟨fe, ints, false⟩ l = some ⟨fe', ints', false⟩ ∧ Inv a env' fe' ∧
      (∀ n, env'.get? n = none → fe'.get n = fe.get n ∧ env.get? n = none) ∧
      (∀ x, x ∉ intNames l → ints'.get x 0 = ints.get x 0) := by
  induction l with
  | nil =>
    intro env env' fe ints h hc
    simp only [chainL] at hc
    injection hc with hc
    subst hc
    exact ⟨fe, ints, execL_nil _, h, fun n hn => ⟨rfl, hn⟩, fun _ _ => rfl⟩
  | cons s rest ih =>
    intro env env' fe ints h hc
    simp only [chainL] at hc
    split at hc
    · next env1 h1 =>
      obtain ⟨fe1, ints1, e1, i1, f1, g1⟩ := chainS_sound ints h h1
      obtain ⟨fe2, ints2, e2, i2, f2, g2⟩ := ih ints1 i1 hc
      refine ⟨fe2, ints2, by rw [execL_cons, e1, obind_some, e2], i2, fun n hn => ?_, fun x hx => ?_⟩
      · obtain ⟨a1, a2⟩ := f2 n hn
        obtain ⟨b1, b2⟩ := f1 n a2
        exact ⟨a1.trans b1, b2⟩
      · simp only [intNames, List.mem_append, not_or] at hx
        rw [g2 x hx.2, g1 x hx.1]
    · exact absurd hc (by simp)

/-! ### The inlined body of `secp256k1_fe_sqrt`, for arbitrary variable names -/

/-- the end of `secp256k1_fe_sqrt(r, a)`: `r = t1²`, `t1 = r²`, `ret = fe_equal(t1, a)` -/
def sqrtTail (R T NA A Z FR SR : String) : List Stmt :=
  [.sqr R T, .sqr T R,
   .scope [.neg NA T 1, .add NA A, .isZero Z NA, .int FR (.var Z), .ret],
   .int SR (.var FR), .int SR (.var SR), .ret]

/-- The side conditions of `sqrt_fn`, as one closed Boolean: the chain checker accepts `chain` starting from the base
    variable `A`, the temporary `T` ends with exponent `(P+1)/8`, the names do not clash, and the variables
    `keepFe` / `keepInt` are not touched. -/
def sqrtOK (chain : List Stmt) (R T NA A Z FR SR : String) (keepFe keepInt : List String) : Bool :=
  match chainL [(A, 1)] chain with
  | none => false
  | some env' =>
    decide (env'.get? T = some ((P + 1) / 8) ∧ env'.get? A = some 1 ∧
      R ≠ T ∧ R ≠ NA ∧ A ≠ R ∧ A ≠ T ∧ A ≠ NA ∧ T ≠ NA ∧
      (∀ n ∈ keepFe, env'.get? n = none ∧ n ≠ R ∧ n ≠ T ∧ n ≠ NA) ∧
      (∀ x ∈ keepInt, x ∉ intNames chain ∧ x ≠ Z ∧ x ≠ FR ∧ x ≠ SR))

/-- the flag `secp256k1_fe_sqrt` returns, as a function of the input value: 1 iff the candidate root squares to `a` -/
def sqrtFlag (a : ℕ) : ℕ := if Fe.sqr (Fe.sqrtCand a) = a % P then 1 else 0

/-- the flag computed by the final comparison -/
theorem sqrt_flag {a av : ℕ} (hav : av % P = a % P) :
    (canon (Fe.add (Fe.neg (Fe.sqr (Fe.sqrtCand a))) av) = 0) = (Fe.sqr (Fe.sqrtCand a) = a % P) := by
  have hc : (av : ZMod P) = (a : ZMod P) := (ZMod.natCast_eq_natCast_iff' av a P).2 hav
  apply propext
  rw [canon_eq_zero_iff, ← Fe.cast_eq_iff (Fe.sqr_lt_P _) (Nat.mod_lt _ P_pos), ZMod.natCast_mod]
  simp only [Fe.cast_add, Fe.cast_neg, Fe.cast_sqr, hc]
  constructor
  · intro h; linear_combination -h
  · intro h; linear_combination -h

/-- `secp256k1_fe_sqrt` (chain `chain` followed by `sqrtTail`), with input variable `A` of magnitude ≤ 8: execution
    succeeds, the output variable `R` is `⟨sqrtCand a, 1⟩`, the returned flag `SR` is 1 iff `sqrtCand a` squares to
    `a`, and the variables of `keepFe` / `keepInt` are unchanged. -/
theorem sqrt_fn (chain : List Stmt) (R T NA A Z FR SR : String) (keepFe keepInt : List String)
    (hok : sqrtOK chain R T NA A Z FR SR keepFe keepInt = true)
    (fe : FeEnv) (ints : Env) (hA : (fe.get A).mag ≤ 8) :
    ∃ fe' ints', execL ⟨fe, ints, false⟩ (chain ++ sqrtTail R T NA A Z FR SR) = some ⟨fe', ints', true⟩ ∧
      fe'.get R = ⟨Fe.sqrtCand (fe.get A).val, 1⟩ ∧
      ints'.get SR 0 = sqrtFlag (fe.get A).val ∧
      (∀ n ∈ keepFe, fe'.get n = fe.get n) ∧ (∀ x ∈ keepInt, ints'.get x 0 = ints.get x 0) := by
  unfold sqrtOK at hok
  split at hok
  · exact absurd hok (by simp)
  · next env' hch =>
    rw [decide_eq_true_iff] at hok
    obtain ⟨hT, hA', hRT, hRNA, hAR, hAT, hANA, hTNA, hkf, hki⟩ := hok
    have hinv : Inv (fe.get A).val [(A, 1)] fe := by
      intro n e hn
      simp only [XEnv.get?] at hn
      split at hn
      · next hAn =>
        injection hn with hn
        subst hn hAn
        exact ⟨hA, by rw [pow_one]⟩
      · exact absurd hn (by simp)
    obtain ⟨fe1, ints1, e1, i1, f1, g1⟩ := chainL_sound chain ints hinv hch
    obtain ⟨hTm, hTv⟩ := i1 T _ hT
    obtain ⟨hAm, hAv⟩ := i1 A _ hA'
    rw [pow_one] at hAv
    generalize fe.get A = av0 at hAv hinv hTv ⊢
    generalize hgt : fe1.get T = tv at hTm hTv
    generalize hga : fe1.get A = av at hAm hAv
    obtain ⟨tv, tm⟩ := tv
    obtain ⟨av, am⟩ := av
    obtain ⟨a, am0⟩ := av0
    simp only at hTm hTv hAm hAv ⊢
    have hr := sqr_eq_sqrtCand hTv
    rw [execL_append, e1, obind_some]
    unfold sqrtTail
    fe_exec [hgt, hga, hRT, hRT.symm, hRNA, hRNA.symm, hAR, hAR.symm, hAT, hAT.symm, hANA, hANA.symm, hTNA,
      hTNA.symm]
    refine ⟨_, _, rfl, ?_, ?_, ?_, ?_⟩
    · fe_get [hRT, hRT.symm, hRNA, hRNA.symm, hr]
    · unfold sqrtFlag
      fe_get [hr, sqrt_flag hAv]
    · intro n hn
      obtain ⟨h1, h2, h3, h4⟩ := hkf n hn
      fe_get [h2, h3, h4, h2.symm, h3.symm, h4.symm]
      exact (f1 n h1).1
    · intro x hx
      obtain ⟨h1, h2, h3, h4⟩ := hki x hx
      fe_get [h2, h3, h4, h2.symm, h3.symm, h4.symm]
      exact g1 x h1

/-! ### The inlined body of `secp256k1_ge_set_xquad`, for arbitrary variable names -/

/-- `r->x = *x; x2 = x²; x3 = x·x2; r->infinity = 0; x3 += 7` -/
def xquadPre (X RX X2 X3 RINF : String) : List Stmt :=
  [.set RX X, .sqr X2 X, .mul X3 X X2, .int RINF (.lit 0), .addInt X3 7]

/-- `secp256k1_ge_set_xquad(r, x)`: `xquadPre`, then the inlined `ret = secp256k1_fe_sqrt(&r->y, &x3)`, `return ret` -/
def xquadFn (chain : List Stmt) (X RX X2 X3 RINF RY T NA Z FR SR RET : String) : List Stmt :=
  xquadPre X RX X2 X3 RINF ++
    [.scope (chain ++ sqrtTail RY T NA X3 Z FR SR), .int RET (.var SR), .int RET (.var RET), .ret]

/-- side conditions of `xquad_fn` (one closed Boolean) -/
def xquadOK (chain : List Stmt) (X RX X2 X3 RINF RY T NA Z FR SR RET : String) (keepInt : List String) : Bool :=
  sqrtOK chain RY T NA X3 Z FR SR [RX] (RINF :: keepInt) &&
  decide (RX ≠ X ∧ X2 ≠ X ∧ X3 ≠ X ∧ RX ≠ X2 ∧ RX ≠ X3 ∧ X2 ≠ X3 ∧ RET ≠ RINF ∧
    ∀ k ∈ keepInt, RET ≠ k ∧ RINF ≠ k)

/-- the right-hand side of the curve equation, as the C code computes it (`x · x² + 7`) -/
def rhsC (x : ℕ) : ℕ := Fe.add (Fe.mul x (Fe.sqr x)) 7

/-- `secp256k1_ge_set_xquad` with input variable `X` of magnitude ≤ 8: execution succeeds, `RX` is a copy of `X`,
    `RY = ⟨sqrtCand (x³+7), 1⟩`, the infinity flag is 0, and the returned flag is 1 iff the candidate root squares to
    `x³+7`. -/
theorem xquad_fn (chain : List Stmt) (X RX X2 X3 RINF RY T NA Z FR SR RET : String) (keepInt : List String)
    (hok : xquadOK chain X RX X2 X3 RINF RY T NA Z FR SR RET keepInt = true)
    (fe : FeEnv) (ints : Env) (hX : (fe.get X).mag ≤ 8) :
    ∃ fe' ints', execL ⟨fe, ints, false⟩ (xquadFn chain X RX X2 X3 RINF RY T NA Z FR SR RET) =
        some ⟨fe', ints', true⟩ ∧
      fe'.get RX = fe.get X ∧ fe'.get RY = ⟨Fe.sqrtCand (rhsC (fe.get X).val), 1⟩ ∧
      ints'.get RINF 0 = 0 ∧
      ints'.get RET 0 = sqrtFlag (rhsC (fe.get X).val) ∧
      (∀ k ∈ keepInt, ints'.get k 0 = ints.get k 0) := by
  unfold xquadOK at hok
  rw [Bool.and_eq_true, decide_eq_true_iff] at hok
  obtain ⟨hsq, h1, h2, h3, h4, h5, h6, h7, h8⟩ := hok
  generalize hgx : fe.get X = xv at hX
  obtain ⟨xv, xm⟩ := xv
  simp only at hX ⊢
  obtain ⟨fe1, ints1, hpre, hx3, hrx, hinf, hkeep⟩ : ∃ fe1 ints1,
      execL ⟨fe, ints, false⟩ (xquadPre X RX X2 X3 RINF) = some ⟨fe1, ints1, false⟩ ∧
      fe1.get X3 = ⟨rhsC xv, 2⟩ ∧ fe1.get RX = ⟨xv, xm⟩ ∧ ints1.get RINF 0 = 0 ∧
      ∀ k ∈ keepInt, ints1.get k 0 = ints.get k 0 := by
    unfold xquadPre
    fe_exec [hgx, h1, h2, h3, h4, h5, h6, h1.symm, h2.symm, h3.symm, h4.symm, h5.symm, h6.symm]
    refine ⟨_, _, rfl, ?_, ?_, ?_, ?_⟩
    · fe_get []
      rfl
    · fe_get [h4, h5, h4.symm, h5.symm]
    · fe_get []
    · intro k hk
      have := (h8 k hk).2
      fe_get [this]
  obtain ⟨fe2, ints2, hs, hry, hflag, hkf, hki⟩ :=
    sqrt_fn chain RY T NA X3 Z FR SR [RX] (RINF :: keepInt) hsq fe1 ints1 (by rw [hx3]; exact (by decide : (2 : ℕ) ≤ 8))
  unfold xquadFn
  rw [execL_append, hpre, obind_some, execL_cons, execS_scope, hs, unscope_some, obind_some]
  fe_exec []
  rw [hx3] at hry hflag
  refine ⟨_, _, rfl, ?_, ?_, ?_, ?_, ?_⟩
  · rw [hkf RX (List.mem_singleton_self _), hrx]
  · exact hry
  · fe_get [h7]
    rw [hki RINF (List.mem_cons_self ..), hinf]
  · fe_get []
    exact hflag
  · intro k hk
    have := (h8 k hk).1
    fe_get [this]
    rw [hki k (List.mem_cons_of_mem _ hk), hkeep k hk]

end FeIR
end SecpZkp
