import SecpZkp.Model.Musig
import SecpZkp.Proofs.Algebra
import SecpZkp.Proofs.BytesBasic
import SecpZkp.Proofs.Bytes
import SecpZkp.Props.C02
import SecpZkp.Proofs.Musig13
/-
  Helper lemmas for property C12 (MuSig2 = BIP-327, honest sessions yield valid signatures).

  A. loading the opaque objects
  B. `partialSign` / `partialSigVerify` on honest-shaped inputs, and the per-signer algebra
  C. `nonceProcess`: the session it writes
  D. key aggregation and the tweak invariant
  E. sums over the signer list, `nonceAgg`, `partialSigAgg`
  F. `adapt` / `extractAdaptor`
  G. the counter input of `nonceGenCounter`
-/
namespace SecpZkp
namespace Musig
open SecpZkp.Algebra

/-! ## A. Loading the opaque objects -/

theorem cacheLoad_of_magic {c : KeyaggCache} (h : c.magic = keyaggCacheMagic) :
    cacheLoad c = some ⟨c.pk, c.secondPk, c.pksHash, c.tweak % N, c.parityAcc % 2⟩ := by
  simp [cacheLoad, h]

theorem cacheLoad_bad {c : KeyaggCache} (h : c.magic ≠ keyaggCacheMagic) : cacheLoad c = none := by
  simp [cacheLoad, h]

theorem sessionLoad_of_magic {s : Session} (h : s.magic = sessionMagic) :
    sessionLoad s = some ⟨s.finNonceParity, s.finNonce, s.noncecoef % N, s.challenge % N, s.sPart % N⟩ := by
  simp [sessionLoad, h]

theorem sessionLoad_bad {s : Session} (h : s.magic ≠ sessionMagic) : sessionLoad s = none := by
  simp [sessionLoad, h]

theorem secnonceLoad_save {k1 k2 : Nat} (pk : Pt) (h1 : k1 < N) (h2 : k2 < N) (h : ¬ (k1 = 0 ∧ k2 = 0)) :
    secnonceLoad (secnonceSave k1 k2 pk) = some (k1, k2, pk) := by
  simp [secnonceLoad, secnonceSave, Nat.mod_eq_of_lt h1, Nat.mod_eq_of_lt h2, h]

theorem secnonceLoad_save_zero (pk : Pt) : secnonceLoad (secnonceSave 0 0 pk) = none := by
  simp [secnonceLoad, secnonceSave]

/-! ## B. Partial signatures -/

/-- The secret key as `partial_sign` uses it: negated when the parity of the aggregate key and the parity
    accumulator disagree (`g·gacc` of BIP-327). -/
def signSk (c : KeyaggCache) (d : Nat) : Nat :=
  if Fe.isOdd c.pk.yOf != (c.parityAcc % 2 == 1) then Sc.neg d else d

/-- The scalar written by `partial_sign` for signer key `d` (public key `pk`), secret nonce `(k1, k2)`. -/
def signScalar (c : KeyaggCache) (sess : Session) (pk : Pt) (d k1 k2 : Nat) : Nat :=
  let mu := keyaggCoefInternal c.pksHash pk c.secondPk
  let k1' := if sess.finNonceParity ≠ 0 then Sc.neg k1 else k1
  let k2' := if sess.finNonceParity ≠ 0 then Sc.neg k2 else k2
  Sc.add (Sc.mul (sess.challenge % N) (Sc.mul (signSk c d) mu)) (Sc.add k1' (Sc.mul (sess.noncecoef % N) k2'))

/-- `partial_sign` on an honest signer's inputs (valid keypair, own secnonce, loadable cache and session):
    returns 1 and writes `signScalar`. -/
theorem partialSign_eq {d k1 k2 : Nat} (hd0 : 0 < d) (hdN : d < N) (hk1 : k1 < N) (hk2 : k2 < N)
    (hk : ¬ (k1 = 0 ∧ k2 = 0)) {c : KeyaggCache} {sess : Session} (hc : c.magic = keyaggCacheMagic)
    (hs : sess.magic = sessionMagic) {x y : Nat} :
    partialSign true (some (secnonceSave k1 k2 (Pt.aff x y))) (some ⟨Bytes.be32 d, Pt.aff x y⟩) (some c) (some sess)
      = ⟨1, ⟨some (partialSigSave (signScalar c sess (Pt.aff x y) d k1 k2)), some Secnonce.zero⟩, 0⟩ := by
  simp only [partialSign, secnonceLoad_save _ hk1 hk2 hk, C02.keypairLoad_valid hd0 hdN, cacheLoad_of_magic hc,
    sessionLoad_of_magic hs, signScalar, signSk, keyaggCoef]
  simp

/-- The point that `partial_sig_verify` tests for infinity: `e·a·g•P − s•G + R*`. -/
def verifyTmp (c : KeyaggCache) (sess : Session) (pk r1 r2 : Pt) (s : Nat) : Pt :=
  let mu := keyaggCoefInternal c.pksHash pk c.secondPk
  let e0 := Sc.mul (sess.challenge % N) mu
  let e := if Fe.isOdd c.pk.yOf != (c.parityAcc % 2 == 1) then Sc.neg e0 else e0
  let rj := effectiveNonce r1 r2 (sess.noncecoef % N)
  let rj' := if sess.finNonceParity ≠ 0 then Pt.neg rj else rj
  Pt.add (Pt.add (Pt.mul e pk) (Pt.mulG (Sc.neg (s % N % N)))) rj'

/-- `partial_sig_verify` on loadable objects and a valid (non-zero) public key object. -/
theorem partialSigVerify_eq {c : KeyaggCache} {sess : Session} (hc : c.magic = keyaggCacheMagic)
    (hs : sess.magic = sessionMagic) (x y s : Nat) (r1 r2 : Pt) :
    partialSigVerify (some (partialSigSave s)) (some (pubnonceSave r1 r2)) (some (Pt.aff x y)) (some c) (some sess)
      = ⟨if (verifyTmp c sess (Pt.aff x y) r1 r2 s).isInf then 1 else 0, (), 0⟩ := by
  simp only [partialSigVerify, sessionLoad_of_magic hs, cacheLoad_of_magic hc, pubnonceLoad, pubnonceSave,
    partialSigLoad, partialSigSave, verifyTmp, keyaggCoef]
  simp

section
variable [HasGroupLaw]

/-- Per-signer algebra: with `s = e·(±d)·a + (±k1) + b·(±k2)` the verifier's point
    `(±e·a)•(d•G) − s•G ± (b•(k2•G) + k1•G)` is the point at infinity; the two signs are arbitrary but the
    same on both sides. -/
theorem partial_core (p q : Prop) [Decidable p] [Decidable q] (e mu b d k1 k2 : Nat) (hb : b < N) :
    Pt.add (Pt.add (Pt.mul (if p then Sc.neg (Sc.mul e mu) else Sc.mul e mu) (gmul (d : ZMod N)))
        (Pt.mulG (Sc.neg ((Sc.add (Sc.mul e (Sc.mul (if p then Sc.neg d else d) mu))
          (Sc.add (if q then Sc.neg k1 else k1) (Sc.mul b (if q then Sc.neg k2 else k2)))) % N % N))))
      (if q then Pt.neg (Pt.add (Pt.mul b (gmul (k2 : ZMod N))) (gmul (k1 : ZMod N)))
        else Pt.add (Pt.mul b (gmul (k2 : ZMod N))) (gmul (k1 : ZMod N))) = .inf := by
  have hb' := lt_mulBound_of_lt_N hb
  by_cases hp : p <;> by_cases hq : q <;>
    simp only [hp, hq, if_true, if_false, mul_gmul (lt_mulBound_of_lt_N (Sc.neg_lt _)),
      mul_gmul (lt_mulBound_of_lt_N (Sc.mul_lt _ _)), mul_gmul hb',
      mulG_eq_gmul (lt_mulBound_of_lt_N (Sc.neg_lt _)), add_gmul, neg_gmul, gmul_eq_inf_iff,
      cast_neg, cast_add, cast_mul, ZMod.natCast_mod] <;> ring

/-- The per-signer identity in the model's terms: the scalar written by `partial_sign` makes the point tested by
    `partial_sig_verify` infinite, for every cache and session object. -/
theorem verifyTmp_signScalar (c : KeyaggCache) (sess : Session) {d k1 k2 : Nat} (hd : d < N) (hk1 : k1 < N)
    (hk2 : k2 < N) :
    verifyTmp c sess (Pt.mulG d) (Pt.mulG k1) (Pt.mulG k2) (signScalar c sess (Pt.mulG d) d k1 k2) = .inf := by
  rw [mulG_eq_gmul (lt_mulBound_of_lt_N hd), mulG_eq_gmul (lt_mulBound_of_lt_N hk1),
    mulG_eq_gmul (lt_mulBound_of_lt_N hk2)]
  unfold verifyTmp signScalar signSk effectiveNonce
  exact partial_core _ _ _ _ _ d k1 k2 (Nat.mod_lt _ N_pos)

end

/-- What a return value 1 of `partial_sign` on honest-shaped inputs implies about the objects. -/
theorem partialSign_ret_one {d k1 k2 : Nat} {pk : Pt} {c : KeyaggCache} {sess : Session}
    (h : (partialSign true (some (secnonceSave k1 k2 pk)) (some ⟨Bytes.be32 d, pk⟩) (some c) (some sess)).ret = 1) :
    c.magic = keyaggCacheMagic ∧ sess.magic = sessionMagic ∧ ¬ (k1 % N = 0 ∧ k2 % N = 0) := by
  obtain ⟨_, _, _, c', s', _, ci, si, hl, _, _, hc, hs, _, _, hci, hsi⟩ := partialSign_success h
  cases hc; cases hs
  refine ⟨?_, ?_, ?_⟩
  · by_contra hm; rw [cacheLoad_bad hm] at hci; exact absurd hci (by simp)
  · by_contra hm; rw [sessionLoad_bad hm] at hsi; exact absurd hsi (by simp)
  · exact (secnonceLoad_some hl).2.1

/-! ## C. `nonceProcess`: the session it writes -/

/-- `R1` with the optional adaptor point added (what `nonce_process` hashes and combines). -/
def withAdaptor (r1 : Pt) : Option Pt → Pt
  | none => r1
  | some a => Pt.add r1 a

/-- The final nonce point of a session: `R = R1' + b•R2`, replaced by `G` when that is the point at infinity. -/
def finalNonce (r1a r2 : Pt) (aggPk32 msg : Bytes) : Pt :=
  match effectiveNonce r1a r2 (nonceCoef r1a r2 aggPk32 msg) with
  | .inf => Pt.G
  | q => q

theorem finalNonce_of_inf {r1a r2 : Pt} {aggPk32 msg : Bytes}
    (h : effectiveNonce r1a r2 (nonceCoef r1a r2 aggPk32 msg) = .inf) : finalNonce r1a r2 aggPk32 msg = Pt.G := by
  simp [finalNonce, h]

theorem finalNonce_of_ne_inf {r1a r2 : Pt} {aggPk32 msg : Bytes}
    (h : effectiveNonce r1a r2 (nonceCoef r1a r2 aggPk32 msg) ≠ .inf) :
    finalNonce r1a r2 aggPk32 msg = effectiveNonce r1a r2 (nonceCoef r1a r2 aggPk32 msg) := by
  unfold finalNonce
  cases hq : effectiveNonce r1a r2 (nonceCoef r1a r2 aggPk32 msg) with
  | inf => exact absurd hq h
  | aff x y => rfl

/-- The session object written by `nonce_process` for cache `c`, aggregate nonce `(r1a, r2)` (adaptor already
    added to the first component) and message `msg`. -/
def sessionOf (c : KeyaggCache) (r1a r2 : Pt) (msg : Bytes) : Session :=
  let aggPk32 := Bytes.be32 c.pk.xOf
  let b := nonceCoef r1a r2 aggPk32 msg
  let fin := finalNonce r1a r2 aggPk32 msg
  let e := Schnorr.challenge (Bytes.be32 fin.xOf) msg aggPk32
  let sPart :=
    if c.tweak % N ≠ 0 then
      let et := Sc.mul e (c.tweak % N)
      if Fe.isOdd c.pk.yOf then Sc.neg et else et
    else 0
  sessionSave ⟨if Fe.isOdd fin.yOf then 1 else 0, Bytes.be32 fin.xOf, b, e, sPart⟩

/-- `nonce_process` with all arguments present, a loadable cache and aggregate nonce, and an adaptor that is
    absent or a valid public key object: returns 1 and writes `sessionOf`. -/
theorem nonceProcess_eq {c : KeyaggCache} (hc : c.magic = keyaggCacheMagic) {an : Aggnonce}
    (han : an.magic = aggnonceMagic) (msg : Bytes) {adaptor : Option Pt} (ha : adaptor ≠ some .inf) :
    nonceProcess true (some an) (some msg) (some c) adaptor
      = ⟨1, some (sessionOf c (withAdaptor an.r1 adaptor) an.r2 msg), 0⟩ := by
  cases adaptor with
  | none =>
    simp only [nonceProcess, cacheLoad_of_magic hc, aggnonceLoad, han, nonceProcessInternal, Bool.not_true,
      Bool.false_eq_true, if_false, if_true]
    rfl
  | some a =>
    cases a with
    | inf => exact absurd rfl ha
    | aff x y =>
      simp only [nonceProcess, cacheLoad_of_magic hc, aggnonceLoad, han, nonceProcessInternal, Bool.not_true,
        Bool.false_eq_true, if_false, if_true]
      rfl

theorem sessionOf_magic (c : KeyaggCache) (r1a r2 : Pt) (msg : Bytes) :
    (sessionOf c r1a r2 msg).magic = sessionMagic := rfl

/-! ## D. Key aggregation and the tweak invariant -/

theorem keyaggCoefInternal_lt (h : Bytes) (pk second : Pt) : keyaggCoefInternal h pk second < N := by
  unfold keyaggCoefInternal
  split
  · exact lt_of_lt_of_le (by decide) two_le_N
  · exact Nat.mod_lt _ N_pos

/-- BIP-327 `KeyAggCoeff`: 1 for the second distinct key of the list, else the hash
    `H_agg(L ‖ cbytes(pk)) mod n`. -/
def keyAggCoeffSpec (L : Bytes) (second pk : Pt) : Nat :=
  if pk = second then 1
  else Bytes.toNat (Sha256.finalize (Sha256.writeAll shaKeyaggCoef [L, Codec.serialize33 pk])) % N

/-- On valid key objects the model's coefficient function is `keyAggCoeffSpec` (the extra test "the second key
    is not the zero point" only matters for the zero object). -/
theorem keyaggCoefInternal_eq (L : Bytes) {pk : Pt} (second : Pt) (hpk : pk ≠ .inf) :
    keyaggCoefInternal L pk second = keyAggCoeffSpec L second pk := by
  unfold keyaggCoefInternal keyAggCoeffSpec
  by_cases h : pk = second
  · subst h
    cases pk with
    | inf => exact absurd rfl hpk
    | aff x y => simp [Pt.isInf]
  · simp [h]

/-- The "second key" of BIP-327: the first entry different from the first entry; `∞` when all entries are equal. -/
def secondKey : List Pt → Pt
  | [] => .inf
  | p0 :: rest => (firstDifferent p0 rest).getD .inf

theorem firstDifferent_mem {p0 q : Pt} {l : List Pt} (h : firstDifferent p0 l = some q) : q ∈ l ∧ q ≠ p0 := by
  induction l with
  | nil => simp [firstDifferent] at h
  | cons a l ih =>
    unfold firstDifferent at h
    split at h
    · have := ih h; exact ⟨List.mem_cons_of_mem _ this.1, this.2⟩
    · next hne => cases h; exact ⟨List.mem_cons_self, hne⟩

/-- The cache object written by `pubkey_agg` for the key list `ps`. -/
def aggCache (ps : List Pt) : KeyaggCache :=
  ⟨keyaggCacheMagic, aggPoint (pksHash ps) (secondKey ps) ps, secondKey ps, pksHash ps, 0, 0⟩

/-- `pubkey_agg` on a non-empty list of valid key objects. -/
theorem pubkeyAgg_eq (wa wc : Bool) {ps : List Pt} (hne : ps ≠ []) (hv : ∀ p ∈ ps, p ≠ .inf) :
    pubkeyAgg wa wc (ps.map some) =
      ⟨1, ⟨if wa then some (Keys.evenY (aggPoint (pksHash ps) (secondKey ps) ps)).1 else none,
           if wc then some (aggCache ps) else none⟩, 0⟩ := by
  have hfm : (ps.map some).filterMap id = ps := by simp [List.filterMap_map]
  have hany : (ps.map some).any Option.isNone = false := by simp
  have hinf : ps.any Pt.isInf = false := by
    rw [List.any_eq_false]; intro p hp; have := hv p hp; cases p <;> simp_all [Pt.isInf]
  cases ps with
  | nil => exact absurd rfl hne
  | cons p0 rest =>
    unfold pubkeyAgg
    rw [hfm]
    simp only [hany, hinf]
    cases hfd : firstDifferent p0 rest with
    | none => simp [secondKey, hfd, aggCache, cacheSave]
    | some q =>
      have hq := (firstDifferent_mem hfd).1
      have hqi : q ≠ .inf := hv q (List.mem_cons_of_mem _ hq)
      cases q with
      | inf => exact absurd rfl hqi
      | aff x y => simp [secondKey, hfd, aggCache, cacheSave]

theorem aggPoint_eq_sum (h : Bytes) (second : Pt) (ps : List Pt) :
    aggPoint h second ps = Pt.sum (ps.map fun p => Pt.mul (keyaggCoefInternal h p second) p) := by
  simp [aggPoint, Pt.sum, List.foldl_map]

/-- The cache after a successful tweak step with tweak scalar `t` (x-only or plain). -/
def tweakedCache (xonly : Bool) (c : KeyaggCache) (t : Nat) : KeyaggCache :=
  let flip := xonly && Fe.isOdd c.pk.yOf
  let pk1 := if flip then Pt.neg c.pk else c.pk
  let par1 := if flip then (c.parityAcc % 2) ^^^ 1 else c.parityAcc % 2
  let tacc1 := if flip then Sc.neg (c.tweak % N) else c.tweak % N
  cacheSave ⟨Pt.add pk1 (Pt.mulG t), c.secondPk, c.pksHash, Sc.add tacc1 t, par1⟩

/-- A tweak call that returns 1: the cache loaded, the tweak is below `n`, the tweaked key is not `∞`, and the
    objects written are `tweakedCache` and its key. -/
theorem tweakAddInternal_ret_one {xonly w : Bool} {c : KeyaggCache} {tw : Bytes}
    (h : (tweakAddInternal xonly w (some c) (some tw)).ret = 1) :
    c.magic = keyaggCacheMagic ∧ Bytes.toNat tw < N ∧ (tweakedCache xonly c (Bytes.toNat tw % N)).pk ≠ .inf ∧
    tweakAddInternal xonly w (some c) (some tw) =
      ⟨1, ⟨if w then some (tweakedCache xonly c (Bytes.toNat tw % N)).pk else none,
           some (tweakedCache xonly c (Bytes.toNat tw % N))⟩, 0⟩ := by
  by_cases hc : c.magic = keyaggCacheMagic
  swap
  · simp [tweakAddInternal, cacheLoad_bad hc] at h
  by_cases hov : Bytes.toNat tw < N
  swap
  · have : Bytes.toNat tw ≥ N := by omega
    simp [tweakAddInternal, cacheLoad_of_magic hc, Sc.setB32, this] at h
  have hov' : ¬ Bytes.toNat tw ≥ N := by omega
  refine ⟨hc, hov, ?_⟩
  simp only [tweakAddInternal, cacheLoad_of_magic hc, Sc.setB32, hov', decide_false, Bool.false_eq_true,
    if_false] at h ⊢
  simp only [tweakedCache, cacheSave]
  generalize Pt.add (if (xonly && Fe.isOdd c.pk.yOf) = true then c.pk.neg else c.pk)
    (Pt.mulG (Bytes.toNat tw % N)) = pk2 at h ⊢
  cases pk2 with
  | inf => simp at h
  | aff x y => simp

section
variable [HasGroupLaw]

theorem pt_neg_neg {A : Pt} (hA : A.valid = true) : Pt.neg (Pt.neg A) = A :=
  congrArg Subtype.val (neg_neg (⟨A, hA⟩ : VPt))

theorem add_gmul_assoc {A : Pt} (hA : A.valid = true) (a b : ZMod N) :
    Pt.add (Pt.add A (gmul a)) (gmul b) = Pt.add A (gmul (a + b)) := by
  rw [gl.add_assoc _ _ _ hA (valid_gmul a) (valid_gmul b), add_gmul]

theorem neg_add_gmul {A : Pt} (hA : A.valid = true) (a : ZMod N) :
    Pt.neg (Pt.add A (gmul a)) = Pt.add (Pt.neg A) (gmul (-a)) := by
  rw [← neg_gmul]
  exact congrArg Subtype.val (neg_add (⟨A, hA⟩ : VPt) ⟨gmul a, valid_gmul a⟩)

/-- **The BIP-327 key-aggregation invariant** for a cache object relative to the untweaked aggregate point `Q0`:
    the object loads, and its key is `Q = g•Q0 + t•G` with `g = −1` iff the parity accumulator is 1 and `t` the
    tweak accumulator. -/
def CacheInv (Q0 : Pt) (c : KeyaggCache) : Prop :=
  c.magic = keyaggCacheMagic ∧
  c.pk = Pt.add (if c.parityAcc % 2 = 1 then Pt.neg Q0 else Q0) (Pt.mulG (c.tweak % N))

omit [HasGroupLaw] in
theorem mod2_cases (n : Nat) : n % 2 = 0 ∨ n % 2 = 1 := Nat.mod_two_eq_zero_or_one n

theorem inv_step {Q0 : Pt} (hQ0 : Q0.valid = true) (par : Nat) (t0 t : ZMod N) (flip : Bool) {pk : Pt}
    (hpk : pk = Pt.add (if par % 2 = 1 then Pt.neg Q0 else Q0) (gmul t0)) :
    Pt.add (if flip = true then Pt.neg pk else pk) (gmul t) =
      Pt.add (if (if flip = true then par % 2 ^^^ 1 else par % 2) % 256 % 2 = 1 then Pt.neg Q0 else Q0)
        (gmul ((if flip = true then -t0 else t0) + t)) := by
  have hnQ0 : (Pt.neg Q0).valid = true := gl.valid_neg _ hQ0
  subst hpk
  rcases mod2_cases par with hp | hp <;> cases flip <;>
    simp [hp, neg_add_gmul hQ0, neg_add_gmul hnQ0, add_gmul_assoc hQ0, add_gmul_assoc hnQ0, pt_neg_neg hQ0]

/-- One tweak step preserves the invariant. -/
theorem cacheInv_tweaked {Q0 : Pt} (hQ0 : Q0.valid = true) {c : KeyaggCache} (hinv : CacheInv Q0 c)
    (xonly : Bool) {t : Nat} (ht : t < N) : CacheInv Q0 (tweakedCache xonly c t) := by
  obtain ⟨hm, hpk⟩ := hinv
  have ht0 : c.tweak % N < mulBound := lt_mulBound_of_lt_N (Nat.mod_lt _ N_pos)
  rw [mulG_eq_gmul ht0] at hpk
  have hmod : ∀ a : Nat, Pt.mulG (a % N % N) = gmul (a : ZMod N) := fun a => by
    rw [mulG_eq_gmul (lt_mulBound_of_lt_N (Nat.mod_lt _ N_pos)), ZMod.natCast_mod, ZMod.natCast_mod]
  cases hf : (xonly && Fe.isOdd c.pk.yOf)
  · have e : tweakedCache xonly c t = cacheSave ⟨Pt.add c.pk (Pt.mulG t), c.secondPk, c.pksHash,
        Sc.add (c.tweak % N) t, c.parityAcc % 2⟩ := by simp [tweakedCache, hf]
    rw [e]
    refine ⟨rfl, ?_⟩
    show Pt.add c.pk (Pt.mulG t) = Pt.add (if c.parityAcc % 2 % 256 % 2 = 1 then Pt.neg Q0 else Q0)
      (Pt.mulG (Sc.add (c.tweak % N) t % N % N))
    have := inv_step hQ0 c.parityAcc _ (t : ZMod N) false hpk
    rw [hmod, mulG_eq_gmul (lt_mulBound_of_lt_N ht)]
    simpa using this
  · have e : tweakedCache xonly c t = cacheSave ⟨Pt.add (Pt.neg c.pk) (Pt.mulG t), c.secondPk, c.pksHash,
        Sc.add (Sc.neg (c.tweak % N)) t, (c.parityAcc % 2) ^^^ 1⟩ := by simp [tweakedCache, hf]
    rw [e]
    refine ⟨rfl, ?_⟩
    show Pt.add (Pt.neg c.pk) (Pt.mulG t) = Pt.add (if (c.parityAcc % 2 ^^^ 1) % 256 % 2 = 1 then Pt.neg Q0 else Q0)
      (Pt.mulG (Sc.add (Sc.neg (c.tweak % N)) t % N % N))
    have := inv_step hQ0 c.parityAcc _ (t : ZMod N) true hpk
    rw [hmod, mulG_eq_gmul (lt_mulBound_of_lt_N ht)]
    simpa using this

end

/-- One call of `pubkey_ec_tweak_add` (`xonly = false`) or `pubkey_xonly_tweak_add` (`xonly = true`), with or
    without an output-key pointer. -/
structure TweakStep where
  xonly : Bool
  wantOut : Bool
  tweak : Bytes

/-- Apply a sequence of tweak calls to a cache object through the API; `none` if some call does not return 1. -/
def applyTweaks : KeyaggCache → List TweakStep → Option KeyaggCache
  | c, [] => some c
  | c, st :: rest =>
    let r := tweakAddInternal st.xonly st.wantOut (some c) (some st.tweak)
    if r.ret = 1 then
      match r.out.cache with
      | some c' => applyTweaks c' rest
      | none => none
    else none

theorem applyTweaks_cons {c c' : KeyaggCache} {st : TweakStep} {rest : List TweakStep}
    (h : applyTweaks c (st :: rest) = some c') :
    (tweakAddInternal st.xonly st.wantOut (some c) (some st.tweak)).ret = 1 ∧
    applyTweaks (tweakedCache st.xonly c (Bytes.toNat st.tweak % N)) rest = some c' := by
  unfold applyTweaks at h
  simp only at h
  split at h
  · next hret =>
    obtain ⟨_, _, _, he⟩ := tweakAddInternal_ret_one hret
    rw [he] at h
    exact ⟨hret, h⟩
  · exact absurd h (by simp)

section
variable [HasGroupLaw]

/-- The invariant `Q = g•Q0 + t•G` is preserved by every sequence of successful tweak calls; the key-list hash and
    the second key are unchanged; and after at least one tweak the key in the cache is not the point at infinity. -/
theorem cacheInv_applyTweaks {Q0 : Pt} (hQ0 : Q0.valid = true) (tws : List TweakStep) {c c' : KeyaggCache}
    (hinv : CacheInv Q0 c) (h : applyTweaks c tws = some c') :
    CacheInv Q0 c' ∧ c'.secondPk = c.secondPk ∧ c'.pksHash = c.pksHash ∧ (tws ≠ [] → c'.pk ≠ .inf) := by
  induction tws generalizing c with
  | nil =>
    simp only [applyTweaks, Option.some.injEq] at h
    subst h
    exact ⟨hinv, rfl, rfl, fun h => absurd rfl h⟩
  | cons st rest ih =>
    obtain ⟨hret, hrest⟩ := applyTweaks_cons h
    obtain ⟨_, hlt, hne, _⟩ := tweakAddInternal_ret_one hret
    have hinv1 := cacheInv_tweaked hQ0 hinv st.xonly (Nat.mod_lt (Bytes.toNat st.tweak) N_pos)
    obtain ⟨h1, h2, h3, h4⟩ := ih hinv1 hrest
    refine ⟨h1, h2, h3, fun _ => ?_⟩
    cases rest with
    | nil =>
      simp only [applyTweaks, Option.some.injEq] at hrest
      subst hrest
      exact hne
    | cons a l => exact h4 (by simp)

end

/-! ## E. Sums over the signer list -/

/-- An honest signer, described by its secrets: secret key `d` and secret nonce `(k1, k2)`. -/
structure Signer where
  d : Nat
  k1 : Nat
  k2 : Nat

namespace Signer
/-- public key `d•G` -/
def pk (s : Signer) : Pt := Pt.mulG s.d
/-- keypair object -/
def keypair (s : Signer) : Keys.Keypair := ⟨Bytes.be32 s.d, Pt.mulG s.d⟩
/-- secret nonce object as `nonce_gen` writes it -/
def secnonce (s : Signer) : Secnonce := secnonceSave s.k1 s.k2 (Pt.mulG s.d)
/-- public nonce object as `nonce_gen` writes it -/
def pubnonce (s : Signer) : Pubnonce := pubnonceSave (Pt.mulG s.k1) (Pt.mulG s.k2)
/-- valid secret key; nonce scalars reduced and not both zero -/
def Honest (s : Signer) : Prop := 0 < s.d ∧ s.d < N ∧ s.k1 < N ∧ s.k2 < N ∧ ¬ (s.k1 = 0 ∧ s.k2 = 0)
instance (s : Signer) : Decidable s.Honest := by unfold Honest; infer_instance
end Signer

theorem sumPubnonces_eq (L : List Signer) (a1 a2 : Pt) :
    sumPubnonces (L.map Signer.pubnonce) (a1, a2) =
      some ((L.map fun s => Pt.mulG s.k1).foldl Pt.add a1, (L.map fun s => Pt.mulG s.k2).foldl Pt.add a2) := by
  induction L generalizing a1 a2 with
  | nil => rfl
  | cons s L ih =>
    simp only [List.map_cons, sumPubnonces, Signer.pubnonce, pubnonceLoad, pubnonceSave, if_true, List.foldl_cons]
    exact ih _ _

/-- `nonce_agg` of the honest signers' public nonces: returns 1 and writes `(Σ k1_i•G, Σ k2_i•G)`. -/
theorem nonceAgg_eq {L : List Signer} (hne : L ≠ []) :
    nonceAgg true (L.map fun s => some s.pubnonce) =
      ⟨1, some (aggnonceSave (Pt.sum (L.map fun s => Pt.mulG s.k1)) (Pt.sum (L.map fun s => Pt.mulG s.k2))), 0⟩ := by
  have hfm : (L.map fun s => some s.pubnonce).filterMap id = L.map Signer.pubnonce := by
    simp [List.filterMap_map]
  have hany : (L.map fun s => some s.pubnonce).any Option.isNone = false := by simp
  have hemp : (L.map fun s => some s.pubnonce).isEmpty = false := by
    cases L with
    | nil => exact absurd rfl hne
    | cons a l => rfl
  unfold nonceAgg
  rw [hfm, sumPubnonces_eq]
  simp only [hany, hemp, Pt.sum]
  rfl

section
variable [HasGroupLaw]

theorem foldl_add_mulG (f : Signer → Nat) (L : List Signer) (hf : ∀ s ∈ L, f s < N) (a : ZMod N) :
    (L.map fun s => Pt.mulG (f s)).foldl Pt.add (gmul a) = gmul (a + (L.map fun s => (f s : ZMod N)).sum) := by
  induction L generalizing a with
  | nil => simp
  | cons s L ih =>
    simp only [List.map_cons, List.foldl_cons, List.sum_cons]
    rw [mulG_eq_gmul (lt_mulBound_of_lt_N (hf s List.mem_cons_self)), add_gmul,
      ih (fun t ht => hf t (List.mem_cons_of_mem _ ht)), add_assoc]

theorem sum_mulG (f : Signer → Nat) (L : List Signer) (hf : ∀ s ∈ L, f s < N) :
    Pt.sum (L.map fun s => Pt.mulG (f s)) = gmul ((L.map fun s => (f s : ZMod N)).sum) := by
  have := foldl_add_mulG f L hf 0
  rw [gmul_zero, zero_add] at this
  exact this

/-- The aggregate point of honest signers' keys is `(Σ a_i·d_i)•G`. -/
theorem aggPoint_signers (h : Bytes) (sec : Pt) (L : List Signer) (hd : ∀ s ∈ L, s.d < N) :
    aggPoint h sec (L.map Signer.pk) =
      gmul ((L.map fun s => ((keyaggCoefInternal h s.pk sec : Nat) : ZMod N) * (s.d : ZMod N)).sum) := by
  suffices H : ∀ a : ZMod N, (L.map Signer.pk).foldl
      (fun acc p => Pt.add acc (Pt.mul (keyaggCoefInternal h p sec) p)) (gmul a) =
      gmul (a + (L.map fun s => ((keyaggCoefInternal h s.pk sec : Nat) : ZMod N) * (s.d : ZMod N)).sum) by
    have := H 0
    rw [gmul_zero, zero_add] at this
    exact this
  induction L with
  | nil => simp
  | cons s L ih =>
    intro a
    simp only [List.map_cons, List.foldl_cons, List.sum_cons]
    have hs : s.pk = gmul (s.d : ZMod N) := mulG_eq_gmul (lt_mulBound_of_lt_N (hd s List.mem_cons_self))
    conv_lhs => rw [hs]
    rw [mul_gmul (lt_mulBound_of_lt_N (keyaggCoefInternal_lt _ _ _)), add_gmul, ← hs,
      ih (fun t ht => hd t (List.mem_cons_of_mem _ ht)), add_assoc]

end

/-! ## F. Honest sessions -/

section
variable [HasGroupLaw]

/-- `partial_sign` of an honest signer with its own secret nonce, on loadable cache and session objects. -/
theorem partialSign_signer {s : Signer} (hs : s.Honest) {c : KeyaggCache} {sess : Session}
    (hc : c.magic = keyaggCacheMagic) (hss : sess.magic = sessionMagic) :
    partialSign true (some s.secnonce) (some s.keypair) (some c) (some sess)
      = ⟨1, ⟨some (partialSigSave (signScalar c sess s.pk s.d s.k1 s.k2)), some Secnonce.zero⟩, 0⟩ := by
  obtain ⟨hd0, hdN, hk1, hk2, hk⟩ := hs
  obtain ⟨x, y, hpk⟩ := mulG_eq_aff hd0 hdN
  simp only [Signer.secnonce, Signer.keypair, Signer.pk, hpk]
  exact partialSign_eq hd0 hdN hk1 hk2 hk hc hss

end

theorem sumPartialSigs_eq (l : List Nat) (acc : Nat) (hacc : acc < N) :
    ∃ r, sumPartialSigs (l.map partialSigSave) acc = some r ∧ r < N ∧
      (r : ZMod N) = (acc : ZMod N) + (l.map (Nat.cast : Nat → ZMod N)).sum := by
  induction l generalizing acc with
  | nil => exact ⟨acc, rfl, hacc, by simp⟩
  | cons t l ih =>
    obtain ⟨r, h1, h2, h3⟩ := ih (Sc.add acc (t % N % N)) (Sc.add_lt _ _)
    refine ⟨r, ?_, h2, ?_⟩
    · simpa [sumPartialSigs, partialSigLoad, partialSigSave] using h1
    · rw [h3]; simp [add_assoc]

/-- `partial_sig_agg` on a non-empty list of partial signature objects with scalars `l`: returns 1 and writes the
    session's final nonce followed by `s_part + Σ l mod n`. -/
theorem partialSigAgg_eq {sess : Session} (hs : sess.magic = sessionMagic) {l : List Nat} (hne : l ≠ []) :
    ∃ r, r < N ∧ (r : ZMod N) = (sess.sPart : ZMod N) + (l.map (Nat.cast : Nat → ZMod N)).sum ∧
      partialSigAgg true (some sess) (l.map fun t => some (partialSigSave t))
        = ⟨1, some (sess.finNonce ++ Bytes.be32 r), 0⟩ := by
  obtain ⟨r, h1, h2, h3⟩ := sumPartialSigs_eq l (sess.sPart % N) (Nat.mod_lt _ N_pos)
  refine ⟨r, h2, by rw [h3, ZMod.natCast_mod], ?_⟩
  have hfm : (l.map fun t => some (partialSigSave t)).filterMap id = l.map partialSigSave := by
    simp [List.filterMap_map]
  have hany : (l.map fun t => some (partialSigSave t)).any Option.isNone = false := by simp
  have hemp : (l.map fun t => some (partialSigSave t)).isEmpty = false := by
    cases l with
    | nil => exact absurd rfl hne
    | cons a l => rfl
  unfold partialSigAgg
  rw [hfm]
  simp only [hany, hemp, sessionLoad_of_magic hs, h1]
  rfl

/-- the sign `±1` in the scalar field -/
def sgn (b : Bool) : ZMod N := if b then -1 else 1

theorem cast_ite_neg (p : Prop) [Decidable p] (x : Nat) :
    ((if p then Sc.neg x else x : Nat) : ZMod N) = sgn (decide p) * (x : ZMod N) := by
  by_cases h : p <;> simp [h, sgn]

theorem cast_ite_neg_bool (b : Bool) (x : Nat) :
    ((if b = true then Sc.neg x else x : Nat) : ZMod N) = sgn b * (x : ZMod N) := by
  cases b <;> simp [sgn]

/-- The scalar of a partial signature in the field `ZMod n`:
    `s_i = e·(g'·d_i)·a_i + (σ·k1_i) + b·(σ·k2_i)`. -/
theorem cast_signScalar (c : KeyaggCache) (sess : Session) (pk : Pt) (d k1 k2 : Nat) :
    ((signScalar c sess pk d k1 k2 : Nat) : ZMod N) =
      (sess.challenge : ZMod N) * (sgn (Fe.isOdd c.pk.yOf != (c.parityAcc % 2 == 1)) * (d : ZMod N) *
          ((keyaggCoefInternal c.pksHash pk c.secondPk : Nat) : ZMod N)) +
        (sgn (decide (sess.finNonceParity ≠ 0)) * (k1 : ZMod N) +
          (sess.noncecoef : ZMod N) * (sgn (decide (sess.finNonceParity ≠ 0)) * (k2 : ZMod N))) := by
  simp only [signScalar, signSk, cast_add, cast_mul, ZMod.natCast_mod, cast_ite_neg, Bool.decide_eq_true]

/-- **The n-signer sum.**  `Σ s_i = e·g'·Σ a_i·d_i + σ·(Σ k1_i + b·Σ k2_i)`. -/
theorem sum_signScalar (c : KeyaggCache) (sess : Session) (L : List Signer) :
    (L.map fun s => ((signScalar c sess s.pk s.d s.k1 s.k2 : Nat) : ZMod N)).sum =
      (sess.challenge : ZMod N) * sgn (Fe.isOdd c.pk.yOf != (c.parityAcc % 2 == 1)) *
          (L.map fun s => ((keyaggCoefInternal c.pksHash s.pk c.secondPk : Nat) : ZMod N) * (s.d : ZMod N)).sum +
        sgn (decide (sess.finNonceParity ≠ 0)) *
          ((L.map fun s => (s.k1 : ZMod N)).sum + (sess.noncecoef : ZMod N) * (L.map fun s => (s.k2 : ZMod N)).sum) := by
  induction L with
  | nil => simp
  | cons s L ih =>
    simp only [List.map_cons, List.sum_cons]
    rw [ih, cast_signScalar]
    ring

/-- A 64-byte string `be32 rx ‖ be32 s` is accepted by BIP-340 verification under the x-only key `(qx, qy)` as soon
    as `(−e)•X + s•G` is the valid point `(rx, ry)` normalised to even `y`. -/
theorem verify_of_point {rx ry s qx qy : Nat} {msg : Bytes} (hR : (Pt.aff rx ry).valid = true) (hs : s < N)
    (h : Pt.add (Pt.mul (Sc.neg (Schnorr.challenge (Bytes.be32 rx) msg (Bytes.be32 qx))) (Pt.aff qx qy)) (Pt.mulG s)
        = if Fe.isOdd ry then Pt.neg (Pt.aff rx ry) else Pt.aff rx ry) :
    (Schnorr.verify (Bytes.be32 rx ++ Bytes.be32 s) msg (Pt.aff qx qy)).ret = 1 := by
  obtain ⟨hrx, hry⟩ := valid_aff_lt hR
  rw [C02.schnorr_verify_iff]
  unfold C02.verifyPoint
  simp only [take_be32_append, drop_be32_append, xOf_aff]
  rw [toNat_be32 (lt_trans hrx P_lt_pow), toNat_be32 (lt_trans hs N_lt_pow), h]
  refine ⟨hrx, hs, ?_, ?_, ?_⟩
  · split <;> simp [Pt.neg]
  · split
    · next ho =>
      simp only [Pt.neg, Pt.hasEvenY, decide_eq_true_eq]
      exact C02.feNeg_even_of_odd hry (by simpa [Fe.isOdd] using ho)
    · next ho =>
      simp only [Pt.hasEvenY, decide_eq_true_eq]
      simp [Fe.isOdd] at ho; omega
  · split <;> rfl

/-- The fields of the session written by `nonce_process` when the final nonce is the finite point `(rx, ry)`. -/
theorem sessionOf_fields {c : KeyaggCache} {r1a r2 : Pt} {msg : Bytes} {rx ry : Nat}
    (hfin : finalNonce r1a r2 (Bytes.be32 c.pk.xOf) msg = .aff rx ry) :
    (sessionOf c r1a r2 msg).finNonce = Bytes.be32 rx ∧
    (sessionOf c r1a r2 msg).finNonceParity = (if Fe.isOdd ry then 1 else 0) ∧
    ((sessionOf c r1a r2 msg).noncecoef : ZMod N) = (nonceCoef r1a r2 (Bytes.be32 c.pk.xOf) msg : ZMod N) ∧
    ((sessionOf c r1a r2 msg).challenge : ZMod N)
      = (Schnorr.challenge (Bytes.be32 rx) msg (Bytes.be32 c.pk.xOf) : ZMod N) ∧
    ((sessionOf c r1a r2 msg).sPart : ZMod N) = sgn (Fe.isOdd c.pk.yOf) *
      ((Schnorr.challenge (Bytes.be32 rx) msg (Bytes.be32 c.pk.xOf) : ZMod N) * (c.tweak : ZMod N)) := by
  simp only [sessionOf, sessionSave, hfin, xOf_aff, yOf_aff]
  refine ⟨trivial, by split <;> rfl, ZMod.natCast_mod _ _, ZMod.natCast_mod _ _, ?_⟩
  by_cases ht : c.tweak % N = 0
  · have : (c.tweak : ZMod N) = 0 := (cast_eq_zero_iff_mod _).mpr ht
    simp [ht, this]
  · simp only [ne_eq, ht, not_false_eq_true, if_true, ZMod.natCast_mod, cast_ite_neg_bool, cast_mul]

/-- The aggregate nonce of the honest signers. -/
def aggR1 (L : List Signer) : Pt := Pt.sum (L.map fun s => Pt.mulG s.k1)
def aggR2 (L : List Signer) : Pt := Pt.sum (L.map fun s => Pt.mulG s.k2)

/-- The combined nonce point `R = R1 (+ T) + b•R2` of the honest session, before the `∞ ↦ G` substitution. -/
def finalNoncePoint (L : List Signer) (c : KeyaggCache) (msg : Bytes) (adaptor : Option Pt) : Pt :=
  effectiveNonce (withAdaptor (aggR1 L) adaptor) (aggR2 L)
    (nonceCoef (withAdaptor (aggR1 L) adaptor) (aggR2 L) (Bytes.be32 c.pk.xOf) msg)

/-- The session object of the honest run. -/
def honestSession (L : List Signer) (c : KeyaggCache) (msg : Bytes) (adaptor : Option Pt) : Session :=
  sessionOf c (withAdaptor (aggR1 L) adaptor) (aggR2 L) msg

theorem honest_scalar_identity (oq pa ok : Bool) (e q0 t0 K1 K2 b ta r : ZMod N)
    (hr : r = sgn oq * (e * t0) + (e * sgn (oq != pa) * q0 + sgn ok * (K1 + b * K2))) :
    -e * (sgn oq * (sgn pa * q0 + t0)) + (r + sgn ok * ta) = sgn ok * (b * K2 + (K1 + ta)) := by
  subst hr
  cases oq <;> cases pa <;> cases ok <;> simp [sgn] <;> ring

section
variable [HasGroupLaw]

theorem ite_neg_gmul (b : Bool) (a : ZMod N) :
    (if b = true then Pt.neg (gmul a) else gmul a) = gmul (sgn b * a) := by
  cases b <;> simp [sgn, neg_gmul]

theorem ite_neg_gmul' (n : Nat) (a : ZMod N) :
    (if n = 1 then Pt.neg (gmul a) else gmul a) = gmul (sgn (n == 1) * a) := by
  by_cases h : n = 1 <;> simp [h, sgn, neg_gmul]

/-- **The honest run, in one statement** (with or without adaptor: `ta` is the adaptor secret, `0` when there is
    none).  Under the invariant of the cache, a finite aggregate key `(qx, qy)` and a finite combined nonce
    `(rx, ry)`: aggregation of the honest partial signatures returns 1 and writes `be32 rx ‖ be32 r`, and the
    scalar `r + (±ta)` satisfies the BIP-340 verification equation for the x-only aggregate key. -/
theorem honest_presig {L : List Signer} (hne : L ≠ []) (hh : ∀ s ∈ L, s.Honest) {c : KeyaggCache}
    (hinv : CacheInv (aggPoint c.pksHash c.secondPk (L.map Signer.pk)) c) {qx qy : Nat} (hQ : c.pk = .aff qx qy)
    (msg : Bytes) {ta : Nat} (hta : ta < N) (adaptor : Option Pt)
    (hadp : withAdaptor (aggR1 L) adaptor = Pt.add (aggR1 L) (Pt.mulG ta))
    {rx ry : Nat} (hR : finalNoncePoint L c msg adaptor = .aff rx ry) :
    (Pt.aff rx ry).valid = true ∧ (honestSession L c msg adaptor).finNonce = Bytes.be32 rx ∧
    (honestSession L c msg adaptor).finNonceParity = (if Fe.isOdd ry then 1 else 0) ∧
    ∃ r, r < N ∧
      partialSigAgg true (some (honestSession L c msg adaptor))
        (L.map fun s => (partialSign true (some s.secnonce) (some s.keypair) (some c)
          (some (honestSession L c msg adaptor))).out.sig)
        = ⟨1, some (Bytes.be32 rx ++ Bytes.be32 r), 0⟩ ∧
      Pt.add (Pt.mul (Sc.neg (Schnorr.challenge (Bytes.be32 rx) msg (Bytes.be32 qx))) (Keys.evenY (Pt.aff qx qy)).1)
          (Pt.mulG (Sc.add r (if Fe.isOdd ry then Sc.neg ta else ta)))
        = if Fe.isOdd ry then Pt.neg (Pt.aff rx ry) else Pt.aff rx ry := by
  obtain ⟨hm, hpk⟩ := hinv
  simp only [honestSession]
  have hd : ∀ s ∈ L, s.d < N := fun s hs => (hh s hs).2.1
  -- the aggregate key
  rw [aggPoint_signers c.pksHash c.secondPk L hd,
    mulG_eq_gmul (lt_mulBound_of_lt_N (Nat.mod_lt _ N_pos)), ite_neg_gmul', add_gmul, ZMod.natCast_mod] at hpk
  -- the aggregate nonce
  have hR1 : aggR1 L = gmul ((L.map fun s => (s.k1 : ZMod N)).sum) :=
    sum_mulG (·.k1) L (fun s hs => (hh s hs).2.2.1)
  have hR2 : aggR2 L = gmul ((L.map fun s => (s.k2 : ZMod N)).sum) :=
    sum_mulG (·.k2) L (fun s hs => (hh s hs).2.2.2.1)
  have hfin : finalNonce (withAdaptor (aggR1 L) adaptor) (aggR2 L) (Bytes.be32 c.pk.xOf) msg = .aff rx ry := by
    rw [finalNonce_of_ne_inf]
    · exact hR
    · unfold finalNoncePoint at hR; rw [hR]; simp
  obtain ⟨f1, f2, f3, f4, f5⟩ := sessionOf_fields hfin
  unfold finalNoncePoint effectiveNonce at hR
  generalize hb : nonceCoef (withAdaptor (aggR1 L) adaptor) (aggR2 L) (Bytes.be32 c.pk.xOf) msg = b at hR f3
  have hbN : b < N := by rw [← hb]; exact Nat.mod_lt _ N_pos
  rw [hadp, hR1, hR2, mulG_eq_gmul (lt_mulBound_of_lt_N hta), add_gmul, mul_gmul (lt_mulBound_of_lt_N hbN),
    add_gmul] at hR
  have hRv : (Pt.aff rx ry).valid = true := hR ▸ valid_gmul _
  refine ⟨hRv, f1, f2, ?_⟩
  -- the partial signatures
  have hsigs : (L.map fun s => (partialSign true (some s.secnonce) (some s.keypair) (some c)
      (some (sessionOf c (withAdaptor (aggR1 L) adaptor) (aggR2 L) msg))).out.sig) =
      (L.map fun s => signScalar c (sessionOf c (withAdaptor (aggR1 L) adaptor) (aggR2 L) msg) s.pk s.d s.k1 s.k2).map
        fun t => some (partialSigSave t) := by
    rw [List.map_map]
    apply List.map_congr_left
    intro s hs
    rw [partialSign_signer (hh s hs) hm (sessionOf_magic _ _ _ _)]
    rfl
  have hne' : (L.map fun s => signScalar c (sessionOf c (withAdaptor (aggR1 L) adaptor) (aggR2 L) msg) s.pk s.d s.k1 s.k2) ≠ [] := by
    simpa using hne
  obtain ⟨r, hrN, hrc, hagg⟩ := partialSigAgg_eq (sessionOf_magic c _ _ msg) hne'
  refine ⟨r, hrN, ?_, ?_⟩
  · rw [hsigs]
    have : (sessionOf c (withAdaptor (aggR1 L) adaptor) (aggR2 L) msg).finNonce = Bytes.be32 rx := f1
    rw [← this]
    exact hagg
  · rw [List.map_map] at hrc
    have hsum := sum_signScalar c (sessionOf c (withAdaptor (aggR1 L) adaptor) (aggR2 L) msg) L
    simp only [Function.comp_def] at hrc
    rw [hsum] at hrc
    have g3 : ((sessionOf c (withAdaptor (aggR1 L) adaptor) (aggR2 L) msg).noncecoef : ZMod N) = (b : ZMod N) := f3
    have g4 : ((sessionOf c (withAdaptor (aggR1 L) adaptor) (aggR2 L) msg).challenge : ZMod N) = _ := f4
    have g5 : ((sessionOf c (withAdaptor (aggR1 L) adaptor) (aggR2 L) msg).sPart : ZMod N) = _ := f5
    have g2 : (sessionOf c (withAdaptor (aggR1 L) adaptor) (aggR2 L) msg).finNonceParity = _ := f2
    have hpar : decide ((sessionOf c (withAdaptor (aggR1 L) adaptor) (aggR2 L) msg).finNonceParity ≠ 0) = Fe.isOdd ry := by
      rw [g2]; cases Fe.isOdd ry <;> simp
    rw [g3, g4, g5, hpar, hQ] at hrc
    simp only [xOf_aff, yOf_aff] at hrc
    rw [C02.evenY_fst_aff]
    have hX : Pt.aff qx (if Fe.isOdd qy = true then Fe.neg qy else qy) =
        if Fe.isOdd qy = true then Pt.neg (Pt.aff qx qy) else Pt.aff qx qy := by split <;> rfl
    rw [hX, ← hQ, hpk, ite_neg_gmul, ← hR, ite_neg_gmul, mul_gmul (lt_mulBound_of_lt_N (Sc.neg_lt _)),
      mulG_eq_gmul (lt_mulBound_of_lt_N (Sc.add_lt _ _)), add_gmul]
    apply gmul_congr
    simp only [cast_neg, cast_add, cast_ite_neg_bool]
    exact honest_scalar_identity _ _ _ _ _ _ _ _ _ _ _ hrc

end

/-! ## F'. `adapt` / `extractAdaptor` -/

/-- `adapt` on a pre-signature `pre` whose scalar part is below `n`, adaptor secret `t < n`, parity 0 or 1. -/
theorem adapt_eq (pre : Bytes) {t : Nat} (ht : t < N) (hs : Bytes.toNat (pre.drop 32) < N) {par : Int}
    (hp : par = 0 ∨ par = 1) :
    adapt true (some pre) (some (Bytes.be32 t)) par =
      ⟨1, some (pre.take 32 ++ Bytes.be32 (Sc.add (Bytes.toNat (pre.drop 32))
        (if par ≠ 0 then Sc.neg t else t))), 0⟩ := by
  have h1 : ¬ (par ≠ 0 ∧ par ≠ 1) := by rcases hp with h | h <;> simp [h]
  have h2 : ¬ Bytes.toNat (pre.drop 32) ≥ N := by omega
  have h3 : ¬ t ≥ N := by omega
  simp [adapt, h1, Sc.setB32, h2, toNat_be32 (lt_trans ht N_lt_pow), h3, Nat.mod_eq_of_lt hs, Nat.mod_eq_of_lt ht]

/-- `extract_adaptor` on a signature and pre-signature whose scalar parts are below `n`, parity 0 or 1. -/
theorem extractAdaptor_eq (sig pre : Bytes) (hsig : Bytes.toNat (sig.drop 32) < N)
    (hs : Bytes.toNat (pre.drop 32) < N) {par : Int} (hp : par = 0 ∨ par = 1) :
    extractAdaptor true (some sig) (some pre) par =
      ⟨1, some (Bytes.be32 (if par = 0
        then Sc.neg (Sc.add (Sc.neg (Bytes.toNat (sig.drop 32))) (Bytes.toNat (pre.drop 32)))
        else Sc.add (Sc.neg (Bytes.toNat (sig.drop 32))) (Bytes.toNat (pre.drop 32)))), 0⟩ := by
  have h1 : ¬ (par ≠ 0 ∧ par ≠ 1) := by rcases hp with h | h <;> simp [h]
  have h2 : ¬ Bytes.toNat (pre.drop 32) ≥ N := by omega
  have h3 : ¬ Bytes.toNat (sig.drop 32) ≥ N := by omega
  simp only [extractAdaptor, h1, Sc.setB32, h2, h3, Nat.mod_eq_of_lt hs, Nat.mod_eq_of_lt hsig, Bool.not_true,
    Bool.false_eq_true, if_false, decide_false]

/-- Extracting from the adapted signature returns the adaptor secret. -/
theorem extract_adapt (s t : Nat) (ht : t < N) {par : Int} (hp : par = 0 ∨ par = 1) :
    (if par = 0 then Sc.neg (Sc.add (Sc.neg (Sc.add s (if par ≠ 0 then Sc.neg t else t))) s)
      else Sc.add (Sc.neg (Sc.add s (if par ≠ 0 then Sc.neg t else t))) s) = t := by
  rcases hp with h | h <;> subst h
  · simp only [ne_eq, not_true_eq_false, if_false, if_true]
    rw [← cast_inj (Sc.neg_lt _) ht]
    simp
  · simp only [ne_eq, one_ne_zero, not_false_eq_true, if_true, if_false]
    rw [← cast_inj (Sc.add_lt _ _) ht]
    simp

/-- Adapting with the extracted secret returns the signature scalar. -/
theorem adapt_extract (s' s : Nat) (hs' : s' < N) {par : Int} (hp : par = 0 ∨ par = 1) :
    Sc.add s (if par ≠ 0 then
        Sc.neg (if par = 0 then Sc.neg (Sc.add (Sc.neg s') s) else Sc.add (Sc.neg s') s)
      else (if par = 0 then Sc.neg (Sc.add (Sc.neg s') s) else Sc.add (Sc.neg s') s)) = s' := by
  rcases hp with h | h <;> subst h
  · simp only [ne_eq, not_true_eq_false, if_false, if_true]
    rw [← cast_inj (Sc.add_lt _ _) hs']
    simp
  · simp only [ne_eq, one_ne_zero, not_false_eq_true, if_true, if_false]
    rw [← cast_inj (Sc.add_lt _ _) hs']
    simp

/-! ## F''. From the API run to the invariant -/

section
variable [HasGroupLaw]

theorem aggPoint_valid (h : Bytes) (sec : Pt) (ps : List Pt) (hv : ∀ p ∈ ps, p.valid = true) :
    (aggPoint h sec ps).valid = true := by
  suffices H : ∀ acc : Pt, acc.valid = true →
      (ps.foldl (fun acc p => Pt.add acc (Pt.mul (keyaggCoefInternal h p sec) p)) acc).valid = true from
    H .inf rfl
  induction ps with
  | nil => intro acc ha; exact ha
  | cons p ps ih =>
    intro acc ha
    simp only [List.foldl_cons]
    exact ih (fun q hq => hv q (List.mem_cons_of_mem _ hq)) _
      (gl.valid_add _ _ ha (Algebra.valid_mul (lt_mulBound_of_lt_N (keyaggCoefInternal_lt _ _ _)) (hv p List.mem_cons_self)))

/-- The cache written by `pubkey_agg` satisfies the invariant with `g = 1`, `t = 0`. -/
theorem cacheInv_aggCache (ps : List Pt) :
    CacheInv (aggPoint (pksHash ps) (secondKey ps) ps) (aggCache ps) := by
  refine ⟨rfl, ?_⟩
  show aggPoint _ _ _ = Pt.add (aggPoint _ _ _) (Pt.mulG (0 % N))
  rw [Nat.zero_mod]
  show _ = Pt.add _ (Pt.mul 0 Pt.G)
  rw [gl.mul_zero, add_inf_right]

theorem Signer.pk_ne_inf {s : Signer} (hs : s.Honest) : s.pk ≠ .inf := Algebra.mulG_ne_inf hs.1 hs.2.1

theorem Signer.pk_valid {s : Signer} (hs : s.Honest) : s.pk.valid = true :=
  Algebra.mulG_valid (lt_mulBound_of_lt_N hs.2.1)

/-- The invariant in the form used by the honest-run lemma, for a cache obtained from `pubkey_agg` of the signers'
    keys followed by any sequence of successful tweak calls. -/
theorem cacheInv_of_run {L : List Signer} (hh : ∀ s ∈ L, s.Honest) {tws : List TweakStep} {c : KeyaggCache}
    (htw : applyTweaks (aggCache (L.map Signer.pk)) tws = some c) :
    CacheInv (aggPoint c.pksHash c.secondPk (L.map Signer.pk)) c ∧ (tws ≠ [] → c.pk ≠ .inf) := by
  have hv : ∀ p ∈ L.map Signer.pk, p.valid = true := by
    intro p hp
    obtain ⟨s, hs, rfl⟩ := List.mem_map.1 hp
    exact Signer.pk_valid (hh s hs)
  obtain ⟨h1, h2, h3, h4⟩ := cacheInv_applyTweaks (aggPoint_valid _ _ _ hv) tws (cacheInv_aggCache _) htw
  have e2 : c.secondPk = secondKey (L.map Signer.pk) := h2
  have e3 : c.pksHash = pksHash (L.map Signer.pk) := h3
  rw [e2, e3]
  exact ⟨h1, h4⟩

end

theorem Sc.neg_zero : Sc.neg 0 = 0 := by decide +kernel

/-! ## G. The counter input of `nonceGenCounter` -/

/-- The 32-byte string that `nonce_gen_counter` uses in place of the session randomness: the counter as
    8 big-endian bytes followed by 24 zero bytes. -/
def counterInput (cnt : Nat) : Bytes := Bytes.be8 cnt ++ Bytes.zeros 24

/-- `nonce_gen_counter` is `nonce_gen_internal` on `counterInput cnt` (this is where the model builds the bytes). -/
theorem nonceGenCounter_eq (wantPub : Bool) (cnt : Nat) (kp : Keys.Keypair) (msg32 : Option Bytes)
    (cache : Option KeyaggCache) (extra32 : Option Bytes) :
    nonceGenCounter true wantPub cnt (some kp) msg32 cache extra32 =
      let r := nonceGenInternal wantPub (counterInput cnt) (some kp.sk) (some kp.pk) msg32 cache extra32
      ⟨r.ret, ⟨some (r.out.secnonce.getD Secnonce.zero), r.out.pubnonce, none⟩, r.illegal⟩ := rfl

/-- With a secret key present the nonce function feeds exactly the session-randomness bytes to the
    "MuSig/aux" hash and uses them nowhere else. -/
theorem nonceFunction_secrand (secrand sk : Bytes) (msg32 : Option Bytes) (pk33 : Bytes) (aggPk32 extra32 : Option Bytes) :
    nonceFunction secrand msg32 (some sk) pk33 aggPk32 extra32 =
      nonceFunction (Bytes.xor (Sha256.finalize (Sha256.write shaAux secrand)) sk) msg32 none pk33 aggPk32 extra32 :=
  rfl

theorem counterInput_length (cnt : Nat) : (counterInput cnt).length = 32 := by
  simp [counterInput, Bytes.be8]

/-- The first 8 bytes of the input are the counter: all 64 bits are present. -/
theorem counterInput_take (cnt : Nat) : Bytes.toNat ((counterInput cnt).take 8) = cnt % 2 ^ 64 := by
  have h : (Bytes.be8 cnt).length = 8 := by simp [Bytes.be8]
  rw [counterInput, List.take_left' h, Bytes.be8, Bytes.toNat_ofNat]; rfl

theorem counterInput_injective {c1 c2 : Nat} (h1 : c1 < 2 ^ 64) (h2 : c2 < 2 ^ 64)
    (h : counterInput c1 = counterInput c2) : c1 = c2 := by
  have := congrArg (fun b => Bytes.toNat (b.take 8)) h
  simp only [counterInput_take, Nat.mod_eq_of_lt h1, Nat.mod_eq_of_lt h2] at this
  exact this

/-! ## H. What nonce generation writes -/

theorem nonceFunction_lt (secrand : Bytes) (msg32 seckey32 : Option Bytes) (pk33 : Bytes) (aggPk32 extra32 : Option Bytes) :
    (nonceFunction secrand msg32 seckey32 pk33 aggPk32 extra32).1 < N ∧
    (nonceFunction secrand msg32 seckey32 pk33 aggPk32 extra32).2 < N :=
  ⟨Nat.mod_lt _ N_pos, Nat.mod_lt _ N_pos⟩

/-- What `nonce_gen_internal` (hence `nonce_gen` and `nonce_gen_counter`) writes when it returns 1: a secret nonce
    object `secnonceSave k1 k2 pk` and the public nonce object `pubnonceSave (k1•G) (k2•G)` with `k1, k2 < n` —
    the shape assumed of honest signers (`Signer.secnonce`, `Signer.pubnonce`). -/
theorem nonceGenInternal_shape {wp : Bool} {inp : Bytes} {sk : Option Bytes} {pk : Option Pt} {msg : Option Bytes}
    {c : Option KeyaggCache} {ex : Option Bytes}
    (h : (nonceGenInternal wp inp sk pk msg c ex).ret = 1) :
    ∃ k1 k2 p, k1 < N ∧ k2 < N ∧ pk = some p ∧ p ≠ Pt.inf ∧
      (nonceGenInternal wp inp sk pk msg c ex).out.secnonce = some (secnonceSave k1 k2 p) ∧
      (nonceGenInternal wp inp sk pk msg c ex).out.pubnonce = some (pubnonceSave (Pt.mulG k1) (Pt.mulG k2)) := by
  unfold nonceGenInternal at h ⊢
  repeat' split at h
  all_goals try (simp at h; done)
  all_goals (try simp_all)
  all_goals exact ⟨_, (nonceFunction_lt _ _ _ _ _ _).1, _, (nonceFunction_lt _ _ _ _ _ _).2, rfl, rfl⟩

end Musig
end SecpZkp
