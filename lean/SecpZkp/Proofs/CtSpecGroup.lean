/-
  Helpers for `Props/C05_select.lean`, group part: `secp256k1_gej_neg` and `secp256k1_ge_to_storage` of both
  configurations (`Gen.ct.*`: 5×52 field, `Gen.ct32.*`: 10×26 field), proved on the generated IR with the wrap-around
  evaluator `FieldLinear.runW`.

  * `gej_neg`: `x`, `z`, `infinity` are copied; `y` goes through the inlined `normalize_weak` and
    `negate(·, 1)`: `r.y = 4p - normalize_weak(a.y)` limb-wise, no unsigned subtraction borrows
  * `ge_to_storage`: both coordinates go through the inlined full `normalize` (the proof scripts are the ones of
    `fe_normalize_5x52_key` / `fe_normalize_10x26_exact_key`, run on the inlined copies) and are then packed into
    4×64 / 8×32 storage words (`pack_or`, `pack_or32`: `lo | (hi << k)` is an addition)
  The 10×26 statements carry `NoOvf10` (see `Proofs/FieldInv10.lean`).

  No axioms beyond propext / Classical.choice / Quot.sound.
-/
import SecpZkp.Proofs.CtSpec

namespace SecpZkp
namespace CtSpec
open MiniC FieldLinear FieldKernel

set_option linter.unusedSimpArgs false
set_option linter.unusedVariables false

/-! ## `gej_neg` -/

set_option maxRecDepth 100000 in
/-- `secp256k1_gej_neg` (5×52) copies `x`, `z`, `infinity` -/
theorem gej_neg_5x52_copy (env : Env) :
    (runW env Gen.ct.gej_neg.body).get "r.x.n" 0 = env.get "a.x.n" 0 ∧
    (runW env Gen.ct.gej_neg.body).get "r.x.n" 1 = env.get "a.x.n" 1 ∧
    (runW env Gen.ct.gej_neg.body).get "r.x.n" 2 = env.get "a.x.n" 2 ∧
    (runW env Gen.ct.gej_neg.body).get "r.x.n" 3 = env.get "a.x.n" 3 ∧
    (runW env Gen.ct.gej_neg.body).get "r.x.n" 4 = env.get "a.x.n" 4 ∧
    (runW env Gen.ct.gej_neg.body).get "r.z.n" 0 = env.get "a.z.n" 0 ∧
    (runW env Gen.ct.gej_neg.body).get "r.z.n" 1 = env.get "a.z.n" 1 ∧
    (runW env Gen.ct.gej_neg.body).get "r.z.n" 2 = env.get "a.z.n" 2 ∧
    (runW env Gen.ct.gej_neg.body).get "r.z.n" 3 = env.get "a.z.n" 3 ∧
    (runW env Gen.ct.gej_neg.body).get "r.z.n" 4 = env.get "a.z.n" 4 ∧
    (runW env Gen.ct.gej_neg.body).get "r.infinity" 0 = env.get "a.infinity" 0 := by
  simp only [Gen.ct.gej_neg]
  minic_evalW

set_option maxRecDepth 100000 in
/-- `secp256k1_gej_neg` (5×52): `r.y = 4p - normalize_weak(a.y)` limb-wise, so `r.y + a.y ≡ 0 (mod p)`, magnitude 2 -/
theorem gej_neg_5x52_key (env : Env) (h : Mag5 env "a.y.n" 32) :
    (val5At (runW env Gen.ct.gej_neg.body) "r.y.n" + val5At env "a.y.n") % P = 0 ∧
    Mag5 (runW env Gen.ct.gej_neg.body) "r.y.n" 2 := by
  simp only [Mag5, val5At, val5] at h ⊢
  simp only [Gen.ct.gej_neg]
  minic_evalW
  generalize env.get "a.y.n" 0 = r0 at *
  generalize env.get "a.y.n" 1 = r1 at *
  generalize env.get "a.y.n" 2 = r2 at *
  generalize env.get "a.y.n" 3 = r3 at *
  generalize env.get "a.y.n" 4 = r4 at *
  simp only [Nat.reducePow, and_M52, and_M48, P] at h ⊢
  generalize hx : r4 / 281474976710656 = x at *
  have hx63 : x ≤ 63 := by omega
  generalize ht0a : (r0 + x * 4294968273 % 18446744073709551616) % 18446744073709551616 = t0a at *
  have e0 : t0a = r0 + x * 4294968273 := by omega
  clear ht0a
  generalize ht1a : (r1 + t0a / 4503599627370496) % 18446744073709551616 = t1a at *
  have e1 : t1a = r1 + t0a / 4503599627370496 := by omega
  clear ht1a
  generalize ht2a : (r2 + t1a / 4503599627370496) % 18446744073709551616 = t2a at *
  have e2 : t2a = r2 + t1a / 4503599627370496 := by omega
  clear ht2a
  generalize ht3a : (r3 + t2a / 4503599627370496) % 18446744073709551616 = t3a at *
  have e3 : t3a = r3 + t2a / 4503599627370496 := by omega
  clear ht3a
  generalize ht4b : (r4 % 281474976710656 + t3a / 4503599627370496) % 18446744073709551616 = t4b at *
  have e4 : t4b = r4 % 281474976710656 + t3a / 4503599627370496 := by omega
  clear ht4b
  have hT : t0a % 4503599627370496 + t1a % 4503599627370496 * 4503599627370496 +
      t2a % 4503599627370496 * 20282409603651670423947251286016 +
      t3a % 4503599627370496 * 91343852333181432387730302044767688728495783936 +
      t4b * 411376139330301510538742295639337626245683966408394965837152256 +
      x * 115792089237316195423570985008687907853269984665640564039457584007908834671663 =
      r0 + r1 * 4503599627370496 + r2 * 20282409603651670423947251286016 +
      r3 * 91343852333181432387730302044767688728495783936 +
      r4 * 411376139330301510538742295639337626245683966408394965837152256 := by omega
  have hb4 : t4b ≤ 281474976710655 + 64 := by omega
  generalize hs0 : t0a % 4503599627370496 = s0 at *
  generalize hs1 : t1a % 4503599627370496 = s1 at *
  generalize hs2 : t2a % 4503599627370496 = s2 at *
  generalize hs3 : t3a % 4503599627370496 = s3 at *
  have hs0' : s0 < 4503599627370496 := by omega
  have hs1' : s1 < 4503599627370496 := by omega
  have hs2' : s2 < 4503599627370496 := by omega
  have hs3' : s3 < 4503599627370496 := by omega
  clear hs0 hs1 hs2 hs3 e0 e1 e2 e3 e4 hx h t0a t1a t2a t3a
  -- the unsigned subtractions `4 p_i - s_i` do not borrow
  have o0 : (18014381329608892 + (18446744073709551616 - s0 % 18446744073709551616)) % 18446744073709551616 =
      18014381329608892 - s0 := by omega
  have o1 : (18014398509481980 + (18446744073709551616 - s1 % 18446744073709551616)) % 18446744073709551616 =
      18014398509481980 - s1 := by omega
  have o2 : (18014398509481980 + (18446744073709551616 - s2 % 18446744073709551616)) % 18446744073709551616 =
      18014398509481980 - s2 := by omega
  have o3 : (18014398509481980 + (18446744073709551616 - s3 % 18446744073709551616)) % 18446744073709551616 =
      18014398509481980 - s3 := by omega
  have o4 : (1125899906842620 + (18446744073709551616 - t4b % 18446744073709551616)) % 18446744073709551616 =
      1125899906842620 - t4b := by omega
  rw [o0, o1, o2, o3, o4]
  refine ⟨?_, by omega, by omega, by omega, by omega, by omega⟩
  rw [← hT]
  have : 18014381329608892 - s0 + (18014398509481980 - s1) * 4503599627370496 +
      (18014398509481980 - s2) * 20282409603651670423947251286016 +
      (18014398509481980 - s3) * 91343852333181432387730302044767688728495783936 +
      (1125899906842620 - t4b) * 411376139330301510538742295639337626245683966408394965837152256 +
      (s0 + s1 * 4503599627370496 + s2 * 20282409603651670423947251286016 +
      s3 * 91343852333181432387730302044767688728495783936 +
      t4b * 411376139330301510538742295639337626245683966408394965837152256 +
      x * 115792089237316195423570985008687907853269984665640564039457584007908834671663) =
      (4 + x) * 115792089237316195423570985008687907853269984665640564039457584007908834671663 := by omega
  rw [this]
  exact Nat.mul_mod_left _ _

set_option maxRecDepth 100000 in
/-- `secp256k1_gej_neg` (10×26) copies `x`, `z`, `infinity` -/
theorem gej_neg_10x26_copy (env : Env) :
    (runW env Gen.ct32.gej_neg.body).get "r.x.n" 0 = env.get "a.x.n" 0 ∧
    (runW env Gen.ct32.gej_neg.body).get "r.x.n" 1 = env.get "a.x.n" 1 ∧
    (runW env Gen.ct32.gej_neg.body).get "r.x.n" 2 = env.get "a.x.n" 2 ∧
    (runW env Gen.ct32.gej_neg.body).get "r.x.n" 3 = env.get "a.x.n" 3 ∧
    (runW env Gen.ct32.gej_neg.body).get "r.x.n" 4 = env.get "a.x.n" 4 ∧
    (runW env Gen.ct32.gej_neg.body).get "r.x.n" 5 = env.get "a.x.n" 5 ∧
    (runW env Gen.ct32.gej_neg.body).get "r.x.n" 6 = env.get "a.x.n" 6 ∧
    (runW env Gen.ct32.gej_neg.body).get "r.x.n" 7 = env.get "a.x.n" 7 ∧
    (runW env Gen.ct32.gej_neg.body).get "r.x.n" 8 = env.get "a.x.n" 8 ∧
    (runW env Gen.ct32.gej_neg.body).get "r.x.n" 9 = env.get "a.x.n" 9 ∧
    (runW env Gen.ct32.gej_neg.body).get "r.z.n" 0 = env.get "a.z.n" 0 ∧
    (runW env Gen.ct32.gej_neg.body).get "r.z.n" 1 = env.get "a.z.n" 1 ∧
    (runW env Gen.ct32.gej_neg.body).get "r.z.n" 2 = env.get "a.z.n" 2 ∧
    (runW env Gen.ct32.gej_neg.body).get "r.z.n" 3 = env.get "a.z.n" 3 ∧
    (runW env Gen.ct32.gej_neg.body).get "r.z.n" 4 = env.get "a.z.n" 4 ∧
    (runW env Gen.ct32.gej_neg.body).get "r.z.n" 5 = env.get "a.z.n" 5 ∧
    (runW env Gen.ct32.gej_neg.body).get "r.z.n" 6 = env.get "a.z.n" 6 ∧
    (runW env Gen.ct32.gej_neg.body).get "r.z.n" 7 = env.get "a.z.n" 7 ∧
    (runW env Gen.ct32.gej_neg.body).get "r.z.n" 8 = env.get "a.z.n" 8 ∧
    (runW env Gen.ct32.gej_neg.body).get "r.z.n" 9 = env.get "a.z.n" 9 ∧
    (runW env Gen.ct32.gej_neg.body).get "r.infinity" 0 = env.get "a.infinity" 0 := by
  simp only [Gen.ct32.gej_neg]
  minic_evalW

set_option maxRecDepth 100000 in
set_option maxHeartbeats 4000000 in
/-- `secp256k1_gej_neg` (10×26): `r.y = 4p - normalize_weak(a.y)` limb-wise (under `NoOvf10`), so `r.y + a.y ≡ 0 (mod p)`,
    magnitude 2 -/
theorem gej_neg_10x26_key (env : Env) (h : NoOvf10 env "a.y.n") :
    (val10At (runW env Gen.ct32.gej_neg.body) "r.y.n" + val10At env "a.y.n") % P = 0 ∧
    Mag10 (runW env Gen.ct32.gej_neg.body) "r.y.n" 2 := by
  simp only [NoOvf10, Mag10, val10At, val10] at h ⊢
  simp only [Gen.ct32.gej_neg]
  minic_evalW
  generalize env.get "a.y.n" 0 = r0 at *
  generalize env.get "a.y.n" 1 = r1 at *
  generalize env.get "a.y.n" 2 = r2 at *
  generalize env.get "a.y.n" 3 = r3 at *
  generalize env.get "a.y.n" 4 = r4 at *
  generalize env.get "a.y.n" 5 = r5 at *
  generalize env.get "a.y.n" 6 = r6 at *
  generalize env.get "a.y.n" 7 = r7 at *
  generalize env.get "a.y.n" 8 = r8 at *
  generalize env.get "a.y.n" 9 = r9 at *
  simp only [Nat.reducePow, and_M26, and_M22, P, mod26_mod32, mod22_mod32] at h ⊢
  generalize hx : r9 / 4194304 = x at *
  have hx63 : x ≤ 63 := by omega
  generalize ht0 : (r0 + x * 977 % 18446744073709551616) % 18446744073709551616 % 4294967296 = t0 at *
  have e0 : t0 = r0 + x * 977 := by omega
  clear ht0
  generalize ht1 : ((r1 + x * 64 % 4294967296) % 4294967296 + t0 / 67108864) % 4294967296 = t1 at *
  have e1 : t1 = r1 + x * 64 + t0 / 67108864 := by omega
  clear ht1
  generalize ht2 : (r2 + t1 / 67108864) % 4294967296 = t2 at *
  have e2 : t2 = r2 + t1 / 67108864 := by omega
  clear ht2
  generalize ht3 : (r3 + t2 / 67108864) % 4294967296 = t3 at *
  have e3 : t3 = r3 + t2 / 67108864 := by omega
  clear ht3
  generalize ht4 : (r4 + t3 / 67108864) % 4294967296 = t4 at *
  have e4 : t4 = r4 + t3 / 67108864 := by omega
  clear ht4
  generalize ht5 : (r5 + t4 / 67108864) % 4294967296 = t5 at *
  have e5 : t5 = r5 + t4 / 67108864 := by omega
  clear ht5
  generalize ht6 : (r6 + t5 / 67108864) % 4294967296 = t6 at *
  have e6 : t6 = r6 + t5 / 67108864 := by omega
  clear ht6
  generalize ht7 : (r7 + t6 / 67108864) % 4294967296 = t7 at *
  have e7 : t7 = r7 + t6 / 67108864 := by omega
  clear ht7
  generalize ht8 : (r8 + t7 / 67108864) % 4294967296 = t8 at *
  have e8 : t8 = r8 + t7 / 67108864 := by omega
  clear ht8
  generalize ht9 : (r9 % 4194304 + t8 / 67108864) % 4294967296 = t9 at *
  have e9 : t9 = r9 % 4194304 + t8 / 67108864 := by omega
  clear ht9
  have hT : t0 % 67108864 + t1 % 67108864 * 67108864 + t2 % 67108864 * 4503599627370496 + t3 % 67108864 * 302231454903657293676544 + t4 % 67108864 * 20282409603651670423947251286016 + t5 % 67108864 * 1361129467683753853853498429727072845824 + t6 % 67108864 * 91343852333181432387730302044767688728495783936 + t7 % 67108864 * 6129982163463555433433388108601236734474956488734408704 + t8 % 67108864 * 411376139330301510538742295639337626245683966408394965837152256 + t9 * 27606985387162255149739023449108101809804435888681546220650096895197184 +
      x * 115792089237316195423570985008687907853269984665640564039457584007908834671663 =
      r0 + r1 * 67108864 + r2 * 4503599627370496 + r3 * 302231454903657293676544 + r4 * 20282409603651670423947251286016 + r5 * 1361129467683753853853498429727072845824 + r6 * 91343852333181432387730302044767688728495783936 + r7 * 6129982163463555433433388108601236734474956488734408704 + r8 * 411376139330301510538742295639337626245683966408394965837152256 + r9 * 27606985387162255149739023449108101809804435888681546220650096895197184 := by omega
  have hb9 : t9 ≤ 4194303 + 63 := by omega
  generalize hs0 : t0 % 67108864 = s0 at *
  generalize hs1 : t1 % 67108864 = s1 at *
  generalize hs2 : t2 % 67108864 = s2 at *
  generalize hs3 : t3 % 67108864 = s3 at *
  generalize hs4 : t4 % 67108864 = s4 at *
  generalize hs5 : t5 % 67108864 = s5 at *
  generalize hs6 : t6 % 67108864 = s6 at *
  generalize hs7 : t7 % 67108864 = s7 at *
  generalize hs8 : t8 % 67108864 = s8 at *
  have hs0' : s0 < 67108864 := by omega
  have hs1' : s1 < 67108864 := by omega
  have hs2' : s2 < 67108864 := by omega
  have hs3' : s3 < 67108864 := by omega
  have hs4' : s4 < 67108864 := by omega
  have hs5' : s5 < 67108864 := by omega
  have hs6' : s6 < 67108864 := by omega
  have hs7' : s7 < 67108864 := by omega
  have hs8' : s8 < 67108864 := by omega
  clear hs0 hs1 hs2 hs3 hs4 hs5 hs6 hs7 hs8 e0 e1 e2 e3 e4 e5 e6 e7 e8 e9 hx h t0 t1 t2 t3 t4 t5 t6 t7 t8
  -- the unsigned subtractions `4 p_i - s_i` do not borrow
  have o0 : (268431548 + (18446744073709551616 - s0 % 18446744073709551616)) % 18446744073709551616 % 4294967296 =
      268431548 - s0 := by omega
  have o1 : (268435196 + (18446744073709551616 - s1 % 18446744073709551616)) % 18446744073709551616 % 4294967296 =
      268435196 - s1 := by omega
  have o2 : (268435452 + (18446744073709551616 - s2 % 18446744073709551616)) % 18446744073709551616 % 4294967296 =
      268435452 - s2 := by omega
  have o3 : (268435452 + (18446744073709551616 - s3 % 18446744073709551616)) % 18446744073709551616 % 4294967296 =
      268435452 - s3 := by omega
  have o4 : (268435452 + (18446744073709551616 - s4 % 18446744073709551616)) % 18446744073709551616 % 4294967296 =
      268435452 - s4 := by omega
  have o5 : (268435452 + (18446744073709551616 - s5 % 18446744073709551616)) % 18446744073709551616 % 4294967296 =
      268435452 - s5 := by omega
  have o6 : (268435452 + (18446744073709551616 - s6 % 18446744073709551616)) % 18446744073709551616 % 4294967296 =
      268435452 - s6 := by omega
  have o7 : (268435452 + (18446744073709551616 - s7 % 18446744073709551616)) % 18446744073709551616 % 4294967296 =
      268435452 - s7 := by omega
  have o8 : (268435452 + (18446744073709551616 - s8 % 18446744073709551616)) % 18446744073709551616 % 4294967296 =
      268435452 - s8 := by omega
  have o9 : (16777212 + (18446744073709551616 - t9 % 18446744073709551616)) % 18446744073709551616 % 4294967296 =
      16777212 - t9 := by omega
  rw [o0, o1, o2, o3, o4, o5, o6, o7, o8, o9]
  refine ⟨?_, by omega, by omega, by omega, by omega, by omega, by omega, by omega, by omega, by omega, by omega⟩
  rw [← hT]
  have : (268431548 - s0) + (268435196 - s1) * 67108864 + (268435452 - s2) * 4503599627370496 + (268435452 - s3) * 302231454903657293676544 + (268435452 - s4) * 20282409603651670423947251286016 + (268435452 - s5) * 1361129467683753853853498429727072845824 + (268435452 - s6) * 91343852333181432387730302044767688728495783936 + (268435452 - s7) * 6129982163463555433433388108601236734474956488734408704 + (268435452 - s8) * 411376139330301510538742295639337626245683966408394965837152256 + (16777212 - t9) * 27606985387162255149739023449108101809804435888681546220650096895197184 +
      (s0 + s1 * 67108864 + s2 * 4503599627370496 + s3 * 302231454903657293676544 + s4 * 20282409603651670423947251286016 + s5 * 1361129467683753853853498429727072845824 + s6 * 91343852333181432387730302044767688728495783936 + s7 * 6129982163463555433433388108601236734474956488734408704 + s8 * 411376139330301510538742295639337626245683966408394965837152256 + t9 * 27606985387162255149739023449108101809804435888681546220650096895197184 +
      x * 115792089237316195423570985008687907853269984665640564039457584007908834671663) =
      (4 + x) * 115792089237316195423570985008687907853269984665640564039457584007908834671663 := by omega
  rw [this]
  exact Nat.mul_mod_left _ _

/-! ## `ge_to_storage` -/

/-- `lo | (hi << k)` at 64 bits, `lo < 2^k`: the low `64-k` bits of `hi` land above `lo` -/
theorem pack_or (a b k : Nat) (hk : k ≤ 64) (ha : a < 2 ^ k) :
    a ||| b * 2 ^ k % 2 ^ 64 = a + b % 2 ^ (64 - k) * 2 ^ k := by
  have e : (2 : Nat) ^ 64 = 2 ^ (64 - k) * 2 ^ k := by rw [← Nat.pow_add]; congr 1; omega
  rw [e, Nat.mul_mod_mul_right, Nat.or_comm, shl_or _ _ k ha, Nat.add_comm]

theorem pack52 (a b : Nat) (ha : a < 4503599627370496) :
    a ||| b * 4503599627370496 % 18446744073709551616 = a + b % 4096 * 4503599627370496 := pack_or a b 52 (by decide) ha
theorem pack40 (a b : Nat) (ha : a < 1099511627776) :
    a ||| b * 1099511627776 % 18446744073709551616 = a + b % 16777216 * 1099511627776 := pack_or a b 40 (by decide) ha
theorem pack28 (a b : Nat) (ha : a < 268435456) :
    a ||| b * 268435456 % 18446744073709551616 = a + b % 68719476736 * 268435456 := pack_or a b 28 (by decide) ha
theorem pack16 (a b : Nat) (ha : a < 65536) :
    a ||| b * 65536 % 18446744073709551616 = a + b % 281474976710656 * 65536 := pack_or a b 16 (by decide) ha

set_option maxRecDepth 100000 in
set_option maxHeartbeats 2000000 in
/-- `secp256k1_ge_to_storage` (5×52), `x` coordinate: the four 64-bit storage words hold the canonical representative -/
theorem ge_to_storage_5x52_key_x (env : Env) (h : Mag5 env "a.x.n" 32) :
    ScalarKernel.val4 ((runW env Gen.ct.ge_to_storage.body).get "r.x.n" 0) ((runW env Gen.ct.ge_to_storage.body).get "r.x.n" 1)
      ((runW env Gen.ct.ge_to_storage.body).get "r.x.n" 2) ((runW env Gen.ct.ge_to_storage.body).get "r.x.n" 3) =
      val5At env "a.x.n" % P ∧
    (runW env Gen.ct.ge_to_storage.body).get "r.x.n" 0 < 2 ^ 64 ∧ (runW env Gen.ct.ge_to_storage.body).get "r.x.n" 1 < 2 ^ 64 ∧
    (runW env Gen.ct.ge_to_storage.body).get "r.x.n" 2 < 2 ^ 64 ∧ (runW env Gen.ct.ge_to_storage.body).get "r.x.n" 3 < 2 ^ 64 := by
  simp only [Mag5, val5At, val5, ScalarKernel.val4] at h ⊢
  simp only [Gen.ct.ge_to_storage]
  minic_evalW
  generalize env.get "a.x.n" 0 = r0 at *
  generalize env.get "a.x.n" 1 = r1 at *
  generalize env.get "a.x.n" 2 = r2 at *
  generalize env.get "a.x.n" 3 = r3 at *
  generalize env.get "a.x.n" 4 = r4 at *
  simp only [Nat.reducePow, and_M52, and_M48, P] at h ⊢
  -- first pass: name the 64-bit accumulators, show they do not wrap
  generalize hx : r4 / 281474976710656 = x at *
  have hx63 : x ≤ 63 := by omega
  generalize ht0a : (r0 + x * 4294968273 % 18446744073709551616) % 18446744073709551616 = t0a at *
  have e0 : t0a = r0 + x * 4294968273 := by omega
  clear ht0a
  generalize ht1a : (r1 + t0a / 4503599627370496) % 18446744073709551616 = t1a at *
  have e1 : t1a = r1 + t0a / 4503599627370496 := by omega
  clear ht1a
  generalize ht2a : (r2 + t1a / 4503599627370496) % 18446744073709551616 = t2a at *
  have e2 : t2a = r2 + t1a / 4503599627370496 := by omega
  clear ht2a
  generalize ht3a : (r3 + t2a / 4503599627370496) % 18446744073709551616 = t3a at *
  have e3 : t3a = r3 + t2a / 4503599627370496 := by omega
  clear ht3a
  generalize ht4b : (r4 % 281474976710656 + t3a / 4503599627370496) % 18446744073709551616 = t4b at *
  have e4 : t4b = r4 % 281474976710656 + t3a / 4503599627370496 := by omega
  clear ht4b
  -- value after the first pass: `T + x p = r`
  have hT : t0a % 4503599627370496 + t1a % 4503599627370496 * 4503599627370496 +
      t2a % 4503599627370496 * 20282409603651670423947251286016 +
      t3a % 4503599627370496 * 91343852333181432387730302044767688728495783936 +
      t4b * 411376139330301510538742295639337626245683966408394965837152256 +
      x * 115792089237316195423570985008687907853269984665640564039457584007908834671663 =
      r0 + r1 * 4503599627370496 + r2 * 20282409603651670423947251286016 +
      r3 * 91343852333181432387730302044767688728495783936 +
      r4 * 411376139330301510538742295639337626245683966408394965837152256 := by omega
  have hb4 : t4b ≤ 281474976710655 + 64 := by omega
  generalize hs0 : t0a % 4503599627370496 = s0 at *
  generalize hs1 : t1a % 4503599627370496 = s1 at *
  generalize hs2 : t2a % 4503599627370496 = s2 at *
  generalize hs3 : t3a % 4503599627370496 = s3 at *
  have hs0' : s0 < 4503599627370496 := by omega
  have hs1' : s1 < 4503599627370496 := by omega
  have hs2' : s2 < 4503599627370496 := by omega
  have hs3' : s3 < 4503599627370496 := by omega
  clear hs0 hs1 hs2 hs3 e0 e1 e2 e3 e4 hx hx63 h t0a t1a t2a t3a
  -- the mask of the second pass
  simp only [ite_and_ite, sext32_ite]
  simp (disch := omega) only [and3_eq_mask]
  generalize hx2 : (t4b / 281474976710656 ||| if (t4b = 281474976710655 ∧ s1 = 4503599627370495 ∧
      s2 = 4503599627370495 ∧ s3 = 4503599627370495) ∧ 4503595332402223 ≤ s0 then 1 else 0) = x2 at *
  have hx2' : (x2 = 1 ∧ (281474976710656 ≤ t4b ∨ ((t4b = 281474976710655 ∧ s1 = 4503599627370495 ∧
      s2 = 4503599627370495 ∧ s3 = 4503599627370495) ∧ 4503595332402223 ≤ s0))) ∨
      (x2 = 0 ∧ t4b < 281474976710656 ∧ ¬ ((t4b = 281474976710655 ∧ s1 = 4503599627370495 ∧
      s2 = 4503599627370495 ∧ s3 = 4503599627370495) ∧ 4503595332402223 ≤ s0)) := by
    have hq01 : t4b / 281474976710656 = 0 ∨ t4b / 281474976710656 = 1 := by omega
    split at hx2
    · rename_i hC
      rcases hq01 with hq | hq <;> rw [hq] at hx2 <;> simp only [Nat.reduceOr] at hx2 <;> omega
    · rename_i hC
      rw [Nat.or_zero] at hx2
      rcases hq01 with hq | hq
      · right; exact ⟨by omega, by omega, hC⟩
      · left; exact ⟨by omega, by omega⟩
  clear hx2
  have hx2le : x2 ≤ 1 := by omega
  -- second pass
  generalize hu0 : (s0 + x2 * 4294968273 % 18446744073709551616) % 18446744073709551616 = u0 at *
  have f0 : u0 = s0 + x2 * 4294968273 := by omega
  clear hu0
  generalize hu1 : (s1 + u0 / 4503599627370496) % 18446744073709551616 = u1 at *
  have f1 : u1 = s1 + u0 / 4503599627370496 := by omega
  clear hu1
  generalize hu2 : (s2 + u1 / 4503599627370496) % 18446744073709551616 = u2 at *
  have f2 : u2 = s2 + u1 / 4503599627370496 := by omega
  clear hu2
  generalize hu3 : (s3 + u2 / 4503599627370496) % 18446744073709551616 = u3 at *
  have f3 : u3 = s3 + u2 / 4503599627370496 := by omega
  clear hu3
  generalize hu4 : (t4b + u3 / 4503599627370496) % 18446744073709551616 = u4 at *
  have f4 : u4 = t4b + u3 / 4503599627370496 := by omega
  clear hu4
  -- value after the second pass: `out + w 2^256 = T + x2 (2^256 - p)` with `w = u4 >> 48`
  have hU : u0 % 4503599627370496 + u1 % 4503599627370496 * 4503599627370496 +
      u2 % 4503599627370496 * 20282409603651670423947251286016 +
      u3 % 4503599627370496 * 91343852333181432387730302044767688728495783936 +
      u4 % 281474976710656 * 411376139330301510538742295639337626245683966408394965837152256 +
      u4 / 281474976710656 * 115792089237316195423570985008687907853269984665640564039457584007913129639936 =
      s0 + s1 * 4503599627370496 + s2 * 20282409603651670423947251286016 +
      s3 * 91343852333181432387730302044767688728495783936 +
      t4b * 411376139330301510538742295639337626245683966408394965837152256 + x2 * 4294968273 := by omega
  have hu4b : u4 ≤ 281474976710655 + 65 := by omega
  generalize hv0 : u0 % 4503599627370496 = v0 at *
  generalize hv1 : u1 % 4503599627370496 = v1 at *
  generalize hv2 : u2 % 4503599627370496 = v2 at *
  generalize hv3 : u3 % 4503599627370496 = v3 at *
  generalize hv4 : u4 % 281474976710656 = v4 at *
  generalize hw : u4 / 281474976710656 = w at *
  have hv0' : v0 < 4503599627370496 := by omega
  have hv1' : v1 < 4503599627370496 := by omega
  have hv2' : v2 < 4503599627370496 := by omega
  have hv3' : v3 < 4503599627370496 := by omega
  have hv4' : v4 < 281474976710656 := by omega
  have hw' : w ≤ 1 := by omega
  clear hv0 hv1 hv2 hv3 hv4 hw f0 f1 f2 f3 f4 hu4b u0 u1 u2 u3 u4
  have hV : v0 + v1 * 4503599627370496 + v2 * 20282409603651670423947251286016 +
      v3 * 91343852333181432387730302044767688728495783936 +
      v4 * 411376139330301510538742295639337626245683966408394965837152256 < 115792089237316195423570985008687907853269984665640564039457584007908834671663 ∧
      (v0 + v1 * 4503599627370496 + v2 * 20282409603651670423947251286016 +
      v3 * 91343852333181432387730302044767688728495783936 +
      v4 * 411376139330301510538742295639337626245683966408394965837152256) % 115792089237316195423570985008687907853269984665640564039457584007908834671663 =
      (r0 + r1 * 4503599627370496 + r2 * 20282409603651670423947251286016 +
        r3 * 91343852333181432387730302044767688728495783936 +
        r4 * 411376139330301510538742295639337626245683966408394965837152256) % 115792089237316195423570985008687907853269984665640564039457584007908834671663 := by
    rcases hx2' with ⟨rfl, hc⟩ | ⟨rfl, hlt, hnc⟩
    · have hw1 : w = 1 := by omega
      subst hw1
      constructor <;> omega
    · have hw0 : w = 0 := by omega
      subst hw0
      constructor <;> omega
  obtain ⟨hV1, hV2⟩ := hV
  rw [← hV2, Nat.mod_eq_of_lt hV1]
  rw [pack52 _ _ hv0', pack40 _ _ (show v1 / 4096 < 1099511627776 by omega),
    pack28 _ _ (show v2 / 16777216 < 268435456 by omega), pack16 _ _ (show v3 / 68719476736 < 65536 by omega)]
  clear hV1 hV2 hU hT hx2' hb4
  refine ⟨?_, ?_, ?_, ?_, ?_⟩ <;> omega

set_option maxRecDepth 100000 in
set_option maxHeartbeats 2000000 in
/-- `secp256k1_ge_to_storage` (5×52), `y` coordinate: the four 64-bit storage words hold the canonical representative -/
theorem ge_to_storage_5x52_key_y (env : Env) (h : Mag5 env "a.y.n" 32) :
    ScalarKernel.val4 ((runW env Gen.ct.ge_to_storage.body).get "r.y.n" 0) ((runW env Gen.ct.ge_to_storage.body).get "r.y.n" 1)
      ((runW env Gen.ct.ge_to_storage.body).get "r.y.n" 2) ((runW env Gen.ct.ge_to_storage.body).get "r.y.n" 3) =
      val5At env "a.y.n" % P ∧
    (runW env Gen.ct.ge_to_storage.body).get "r.y.n" 0 < 2 ^ 64 ∧ (runW env Gen.ct.ge_to_storage.body).get "r.y.n" 1 < 2 ^ 64 ∧
    (runW env Gen.ct.ge_to_storage.body).get "r.y.n" 2 < 2 ^ 64 ∧ (runW env Gen.ct.ge_to_storage.body).get "r.y.n" 3 < 2 ^ 64 := by
  simp only [Mag5, val5At, val5, ScalarKernel.val4] at h ⊢
  simp only [Gen.ct.ge_to_storage]
  minic_evalW
  generalize env.get "a.y.n" 0 = r0 at *
  generalize env.get "a.y.n" 1 = r1 at *
  generalize env.get "a.y.n" 2 = r2 at *
  generalize env.get "a.y.n" 3 = r3 at *
  generalize env.get "a.y.n" 4 = r4 at *
  simp only [Nat.reducePow, and_M52, and_M48, P] at h ⊢
  -- first pass: name the 64-bit accumulators, show they do not wrap
  generalize hx : r4 / 281474976710656 = x at *
  have hx63 : x ≤ 63 := by omega
  generalize ht0a : (r0 + x * 4294968273 % 18446744073709551616) % 18446744073709551616 = t0a at *
  have e0 : t0a = r0 + x * 4294968273 := by omega
  clear ht0a
  generalize ht1a : (r1 + t0a / 4503599627370496) % 18446744073709551616 = t1a at *
  have e1 : t1a = r1 + t0a / 4503599627370496 := by omega
  clear ht1a
  generalize ht2a : (r2 + t1a / 4503599627370496) % 18446744073709551616 = t2a at *
  have e2 : t2a = r2 + t1a / 4503599627370496 := by omega
  clear ht2a
  generalize ht3a : (r3 + t2a / 4503599627370496) % 18446744073709551616 = t3a at *
  have e3 : t3a = r3 + t2a / 4503599627370496 := by omega
  clear ht3a
  generalize ht4b : (r4 % 281474976710656 + t3a / 4503599627370496) % 18446744073709551616 = t4b at *
  have e4 : t4b = r4 % 281474976710656 + t3a / 4503599627370496 := by omega
  clear ht4b
  -- value after the first pass: `T + x p = r`
  have hT : t0a % 4503599627370496 + t1a % 4503599627370496 * 4503599627370496 +
      t2a % 4503599627370496 * 20282409603651670423947251286016 +
      t3a % 4503599627370496 * 91343852333181432387730302044767688728495783936 +
      t4b * 411376139330301510538742295639337626245683966408394965837152256 +
      x * 115792089237316195423570985008687907853269984665640564039457584007908834671663 =
      r0 + r1 * 4503599627370496 + r2 * 20282409603651670423947251286016 +
      r3 * 91343852333181432387730302044767688728495783936 +
      r4 * 411376139330301510538742295639337626245683966408394965837152256 := by omega
  have hb4 : t4b ≤ 281474976710655 + 64 := by omega
  generalize hs0 : t0a % 4503599627370496 = s0 at *
  generalize hs1 : t1a % 4503599627370496 = s1 at *
  generalize hs2 : t2a % 4503599627370496 = s2 at *
  generalize hs3 : t3a % 4503599627370496 = s3 at *
  have hs0' : s0 < 4503599627370496 := by omega
  have hs1' : s1 < 4503599627370496 := by omega
  have hs2' : s2 < 4503599627370496 := by omega
  have hs3' : s3 < 4503599627370496 := by omega
  clear hs0 hs1 hs2 hs3 e0 e1 e2 e3 e4 hx hx63 h t0a t1a t2a t3a
  -- the mask of the second pass
  simp only [ite_and_ite, sext32_ite]
  simp (disch := omega) only [and3_eq_mask]
  generalize hx2 : (t4b / 281474976710656 ||| if (t4b = 281474976710655 ∧ s1 = 4503599627370495 ∧
      s2 = 4503599627370495 ∧ s3 = 4503599627370495) ∧ 4503595332402223 ≤ s0 then 1 else 0) = x2 at *
  have hx2' : (x2 = 1 ∧ (281474976710656 ≤ t4b ∨ ((t4b = 281474976710655 ∧ s1 = 4503599627370495 ∧
      s2 = 4503599627370495 ∧ s3 = 4503599627370495) ∧ 4503595332402223 ≤ s0))) ∨
      (x2 = 0 ∧ t4b < 281474976710656 ∧ ¬ ((t4b = 281474976710655 ∧ s1 = 4503599627370495 ∧
      s2 = 4503599627370495 ∧ s3 = 4503599627370495) ∧ 4503595332402223 ≤ s0)) := by
    have hq01 : t4b / 281474976710656 = 0 ∨ t4b / 281474976710656 = 1 := by omega
    split at hx2
    · rename_i hC
      rcases hq01 with hq | hq <;> rw [hq] at hx2 <;> simp only [Nat.reduceOr] at hx2 <;> omega
    · rename_i hC
      rw [Nat.or_zero] at hx2
      rcases hq01 with hq | hq
      · right; exact ⟨by omega, by omega, hC⟩
      · left; exact ⟨by omega, by omega⟩
  clear hx2
  have hx2le : x2 ≤ 1 := by omega
  -- second pass
  generalize hu0 : (s0 + x2 * 4294968273 % 18446744073709551616) % 18446744073709551616 = u0 at *
  have f0 : u0 = s0 + x2 * 4294968273 := by omega
  clear hu0
  generalize hu1 : (s1 + u0 / 4503599627370496) % 18446744073709551616 = u1 at *
  have f1 : u1 = s1 + u0 / 4503599627370496 := by omega
  clear hu1
  generalize hu2 : (s2 + u1 / 4503599627370496) % 18446744073709551616 = u2 at *
  have f2 : u2 = s2 + u1 / 4503599627370496 := by omega
  clear hu2
  generalize hu3 : (s3 + u2 / 4503599627370496) % 18446744073709551616 = u3 at *
  have f3 : u3 = s3 + u2 / 4503599627370496 := by omega
  clear hu3
  generalize hu4 : (t4b + u3 / 4503599627370496) % 18446744073709551616 = u4 at *
  have f4 : u4 = t4b + u3 / 4503599627370496 := by omega
  clear hu4
  -- value after the second pass: `out + w 2^256 = T + x2 (2^256 - p)` with `w = u4 >> 48`
  have hU : u0 % 4503599627370496 + u1 % 4503599627370496 * 4503599627370496 +
      u2 % 4503599627370496 * 20282409603651670423947251286016 +
      u3 % 4503599627370496 * 91343852333181432387730302044767688728495783936 +
      u4 % 281474976710656 * 411376139330301510538742295639337626245683966408394965837152256 +
      u4 / 281474976710656 * 115792089237316195423570985008687907853269984665640564039457584007913129639936 =
      s0 + s1 * 4503599627370496 + s2 * 20282409603651670423947251286016 +
      s3 * 91343852333181432387730302044767688728495783936 +
      t4b * 411376139330301510538742295639337626245683966408394965837152256 + x2 * 4294968273 := by omega
  have hu4b : u4 ≤ 281474976710655 + 65 := by omega
  generalize hv0 : u0 % 4503599627370496 = v0 at *
  generalize hv1 : u1 % 4503599627370496 = v1 at *
  generalize hv2 : u2 % 4503599627370496 = v2 at *
  generalize hv3 : u3 % 4503599627370496 = v3 at *
  generalize hv4 : u4 % 281474976710656 = v4 at *
  generalize hw : u4 / 281474976710656 = w at *
  have hv0' : v0 < 4503599627370496 := by omega
  have hv1' : v1 < 4503599627370496 := by omega
  have hv2' : v2 < 4503599627370496 := by omega
  have hv3' : v3 < 4503599627370496 := by omega
  have hv4' : v4 < 281474976710656 := by omega
  have hw' : w ≤ 1 := by omega
  clear hv0 hv1 hv2 hv3 hv4 hw f0 f1 f2 f3 f4 hu4b u0 u1 u2 u3 u4
  have hV : v0 + v1 * 4503599627370496 + v2 * 20282409603651670423947251286016 +
      v3 * 91343852333181432387730302044767688728495783936 +
      v4 * 411376139330301510538742295639337626245683966408394965837152256 < 115792089237316195423570985008687907853269984665640564039457584007908834671663 ∧
      (v0 + v1 * 4503599627370496 + v2 * 20282409603651670423947251286016 +
      v3 * 91343852333181432387730302044767688728495783936 +
      v4 * 411376139330301510538742295639337626245683966408394965837152256) % 115792089237316195423570985008687907853269984665640564039457584007908834671663 =
      (r0 + r1 * 4503599627370496 + r2 * 20282409603651670423947251286016 +
        r3 * 91343852333181432387730302044767688728495783936 +
        r4 * 411376139330301510538742295639337626245683966408394965837152256) % 115792089237316195423570985008687907853269984665640564039457584007908834671663 := by
    rcases hx2' with ⟨rfl, hc⟩ | ⟨rfl, hlt, hnc⟩
    · have hw1 : w = 1 := by omega
      subst hw1
      constructor <;> omega
    · have hw0 : w = 0 := by omega
      subst hw0
      constructor <;> omega
  obtain ⟨hV1, hV2⟩ := hV
  rw [← hV2, Nat.mod_eq_of_lt hV1]
  rw [pack52 _ _ hv0', pack40 _ _ (show v1 / 4096 < 1099511627776 by omega),
    pack28 _ _ (show v2 / 16777216 < 268435456 by omega), pack16 _ _ (show v3 / 68719476736 < 65536 by omega)]
  clear hV1 hV2 hU hT hx2' hb4
  refine ⟨?_, ?_, ?_, ?_, ?_⟩ <;> omega

/-- `lo | (hi << k)` at 32 bits, `lo < 2^k` -/
theorem pack_or32 (a b k : Nat) (hk : k ≤ 32) (ha : a < 2 ^ k) :
    a ||| b * 2 ^ k % 2 ^ 32 = a + b % 2 ^ (32 - k) * 2 ^ k := by
  have e : (2 : Nat) ^ 32 = 2 ^ (32 - k) * 2 ^ k := by rw [← Nat.pow_add]; congr 1; omega
  rw [e, Nat.mul_mod_mul_right, Nat.or_comm, shl_or _ _ k ha, Nat.add_comm]

theorem pack32_26 (a b : Nat) (ha : a < 67108864) :
    a ||| b * 67108864 % 4294967296 = a + b % 64 * 67108864 := pack_or32 a b 26 (by decide) ha
theorem pack32_20 (a b : Nat) (ha : a < 1048576) :
    a ||| b * 1048576 % 4294967296 = a + b % 4096 * 1048576 := pack_or32 a b 20 (by decide) ha
theorem pack32_14 (a b : Nat) (ha : a < 16384) :
    a ||| b * 16384 % 4294967296 = a + b % 262144 * 16384 := pack_or32 a b 14 (by decide) ha
theorem pack32_8 (a b : Nat) (ha : a < 256) :
    a ||| b * 256 % 4294967296 = a + b % 16777216 * 256 := pack_or32 a b 8 (by decide) ha
theorem pack32_2 (a b : Nat) (ha : a < 4) :
    a ||| b * 4 % 4294967296 = a + b % 1073741824 * 4 := pack_or32 a b 2 (by decide) ha
theorem pack32_28 (a b : Nat) (ha : a < 268435456) :
    a ||| b * 268435456 % 4294967296 = a + b % 16 * 268435456 := pack_or32 a b 28 (by decide) ha
theorem pack32_22 (a b : Nat) (ha : a < 4194304) :
    a ||| b * 4194304 % 4294967296 = a + b % 1024 * 4194304 := pack_or32 a b 22 (by decide) ha
theorem pack32_16 (a b : Nat) (ha : a < 65536) :
    a ||| b * 65536 % 4294967296 = a + b % 65536 * 65536 := pack_or32 a b 16 (by decide) ha
theorem pack32_10 (a b : Nat) (ha : a < 1024) :
    a ||| b * 1024 % 4294967296 = a + b % 4194304 * 1024 := pack_or32 a b 10 (by decide) ha

/-- the packing of ten normalized 26-bit limbs into eight 32-bit storage words (`secp256k1_fe_impl_to_storage`, 10×26) keeps
    the value -/
theorem to_storage_10x26_arith (v0 v1 v2 v3 v4 v5 v6 v7 v8 v9 : Nat) (h0 : v0 < 67108864) (h1 : v1 < 67108864) (h2 : v2 < 67108864) (h3 : v3 < 67108864) (h4 : v4 < 67108864) (h5 : v5 < 67108864) (h6 : v6 < 67108864) (h7 : v7 < 67108864) (h8 : v8 < 67108864) (h9 : v9 < 4194304) :
    ScalarKernel32.val8x32 (v0 ||| v1 * 67108864 % 4294967296) (v1 / 64 ||| v2 * 1048576 % 4294967296)
      (v2 / 4096 ||| v3 * 16384 % 4294967296) (v3 / 262144 ||| v4 * 256 % 4294967296)
      (v4 / 16777216 ||| v5 * 4 % 4294967296 ||| v6 * 268435456 % 4294967296)
      (v6 / 16 ||| v7 * 4194304 % 4294967296) (v7 / 1024 ||| v8 * 65536 % 4294967296)
      (v8 / 65536 ||| v9 * 1024 % 4294967296) =
      val10 v0 v1 v2 v3 v4 v5 v6 v7 v8 v9 ∧
    v0 ||| v1 * 67108864 % 4294967296 < 4294967296 ∧ v1 / 64 ||| v2 * 1048576 % 4294967296 < 4294967296 ∧ v2 / 4096 ||| v3 * 16384 % 4294967296 < 4294967296 ∧ v3 / 262144 ||| v4 * 256 % 4294967296 < 4294967296 ∧ v4 / 16777216 ||| v5 * 4 % 4294967296 ||| v6 * 268435456 % 4294967296 < 4294967296 ∧ v6 / 16 ||| v7 * 4194304 % 4294967296 < 4294967296 ∧ v7 / 1024 ||| v8 * 65536 % 4294967296 < 4294967296 ∧ v8 / 65536 ||| v9 * 1024 % 4294967296 < 4294967296 := by
  have q4 : v4 / 16777216 ||| v5 * 4 % 4294967296 = v4 / 16777216 + v5 * 4 := by
    rw [pack32_2 _ _ (show v4 / 16777216 < 4 by omega)]; omega
  rw [pack32_26 _ _ h0, pack32_20 _ _ (show v1 / 64 < 1048576 by omega), pack32_14 _ _ (show v2 / 4096 < 16384 by omega),
    pack32_8 _ _ (show v3 / 262144 < 256 by omega), q4, pack32_28 _ _ (show v4 / 16777216 + v5 * 4 < 268435456 by omega),
    pack32_22 _ _ (show v6 / 16 < 4194304 by omega), pack32_16 _ _ (show v7 / 1024 < 65536 by omega),
    pack32_10 _ _ (show v8 / 65536 < 1024 by omega)]
  clear q4
  simp only [ScalarKernel32.val8x32, val10, Nat.reducePow]
  refine ⟨?_, ?_, ?_, ?_, ?_, ?_, ?_, ?_, ?_⟩ <;> omega

set_option maxRecDepth 100000 in
set_option maxHeartbeats 4000000 in
/-- `secp256k1_ge_to_storage` (10×26), `x` coordinate: the stored words are the packing of ten limbs `v` that are fully
    reduced, whose value is `< p` and congruent to the value of `a.x` -/
theorem ge_to_storage_10x26_norm_x (env : Env) (h : NoOvf10 env "a.x.n") :
    ∃ v0 v1 v2 v3 v4 v5 v6 v7 v8 v9 : Nat,
      (v0 < 67108864 ∧ v1 < 67108864 ∧ v2 < 67108864 ∧ v3 < 67108864 ∧ v4 < 67108864 ∧ v5 < 67108864 ∧ v6 < 67108864 ∧ v7 < 67108864 ∧ v8 < 67108864 ∧ v9 < 4194304) ∧
      val10 v0 v1 v2 v3 v4 v5 v6 v7 v8 v9 = val10At env "a.x.n" % P ∧
      (runW env Gen.ct32.ge_to_storage.body).get "r.x.n" 0 = (v0 ||| v1 * 67108864 % 4294967296) ∧
      (runW env Gen.ct32.ge_to_storage.body).get "r.x.n" 1 = (v1 / 64 ||| v2 * 1048576 % 4294967296) ∧
      (runW env Gen.ct32.ge_to_storage.body).get "r.x.n" 2 = (v2 / 4096 ||| v3 * 16384 % 4294967296) ∧
      (runW env Gen.ct32.ge_to_storage.body).get "r.x.n" 3 = (v3 / 262144 ||| v4 * 256 % 4294967296) ∧
      (runW env Gen.ct32.ge_to_storage.body).get "r.x.n" 4 = (v4 / 16777216 ||| v5 * 4 % 4294967296 ||| v6 * 268435456 % 4294967296) ∧
      (runW env Gen.ct32.ge_to_storage.body).get "r.x.n" 5 = (v6 / 16 ||| v7 * 4194304 % 4294967296) ∧
      (runW env Gen.ct32.ge_to_storage.body).get "r.x.n" 6 = (v7 / 1024 ||| v8 * 65536 % 4294967296) ∧
      (runW env Gen.ct32.ge_to_storage.body).get "r.x.n" 7 = (v8 / 65536 ||| v9 * 1024 % 4294967296) := by
  simp only [NoOvf10, Mag10, val10At, val10] at h ⊢
  simp only [Gen.ct32.ge_to_storage]
  minic_evalW
  generalize env.get "a.x.n" 0 = r0 at *
  generalize env.get "a.x.n" 1 = r1 at *
  generalize env.get "a.x.n" 2 = r2 at *
  generalize env.get "a.x.n" 3 = r3 at *
  generalize env.get "a.x.n" 4 = r4 at *
  generalize env.get "a.x.n" 5 = r5 at *
  generalize env.get "a.x.n" 6 = r6 at *
  generalize env.get "a.x.n" 7 = r7 at *
  generalize env.get "a.x.n" 8 = r8 at *
  generalize env.get "a.x.n" 9 = r9 at *
  simp only [Nat.reducePow, and_M26, and_M22, P, mod26_mod32, mod22_mod32] at h ⊢
  generalize hx : r9 / 4194304 = x at *
  have hx63 : x ≤ 63 := by omega
  generalize ht0 : (r0 + x * 977 % 18446744073709551616) % 18446744073709551616 % 4294967296 = t0 at *
  have e0 : t0 = r0 + x * 977 := by omega
  clear ht0
  generalize ht1 : ((r1 + x * 64 % 4294967296) % 4294967296 + t0 / 67108864) % 4294967296 = t1 at *
  have e1 : t1 = r1 + x * 64 + t0 / 67108864 := by omega
  clear ht1
  generalize ht2 : (r2 + t1 / 67108864) % 4294967296 = t2 at *
  have e2 : t2 = r2 + t1 / 67108864 := by omega
  clear ht2
  generalize ht3 : (r3 + t2 / 67108864) % 4294967296 = t3 at *
  have e3 : t3 = r3 + t2 / 67108864 := by omega
  clear ht3
  generalize ht4 : (r4 + t3 / 67108864) % 4294967296 = t4 at *
  have e4 : t4 = r4 + t3 / 67108864 := by omega
  clear ht4
  generalize ht5 : (r5 + t4 / 67108864) % 4294967296 = t5 at *
  have e5 : t5 = r5 + t4 / 67108864 := by omega
  clear ht5
  generalize ht6 : (r6 + t5 / 67108864) % 4294967296 = t6 at *
  have e6 : t6 = r6 + t5 / 67108864 := by omega
  clear ht6
  generalize ht7 : (r7 + t6 / 67108864) % 4294967296 = t7 at *
  have e7 : t7 = r7 + t6 / 67108864 := by omega
  clear ht7
  generalize ht8 : (r8 + t7 / 67108864) % 4294967296 = t8 at *
  have e8 : t8 = r8 + t7 / 67108864 := by omega
  clear ht8
  generalize ht9 : (r9 % 4194304 + t8 / 67108864) % 4294967296 = t9 at *
  have e9 : t9 = r9 % 4194304 + t8 / 67108864 := by omega
  clear ht9
  have hT : t0 % 67108864 + t1 % 67108864 * 67108864 + t2 % 67108864 * 4503599627370496 + t3 % 67108864 * 302231454903657293676544 + t4 % 67108864 * 20282409603651670423947251286016 + t5 % 67108864 * 1361129467683753853853498429727072845824 + t6 % 67108864 * 91343852333181432387730302044767688728495783936 + t7 % 67108864 * 6129982163463555433433388108601236734474956488734408704 + t8 % 67108864 * 411376139330301510538742295639337626245683966408394965837152256 + t9 * 27606985387162255149739023449108101809804435888681546220650096895197184 +
      x * 115792089237316195423570985008687907853269984665640564039457584007908834671663 =
      r0 + r1 * 67108864 + r2 * 4503599627370496 + r3 * 302231454903657293676544 + r4 * 20282409603651670423947251286016 + r5 * 1361129467683753853853498429727072845824 + r6 * 91343852333181432387730302044767688728495783936 + r7 * 6129982163463555433433388108601236734474956488734408704 + r8 * 411376139330301510538742295639337626245683966408394965837152256 + r9 * 27606985387162255149739023449108101809804435888681546220650096895197184 := by omega
  have hb9 : t9 ≤ 4194303 + 63 := by omega
  generalize hs0 : t0 % 67108864 = s0 at *
  generalize hs1 : t1 % 67108864 = s1 at *
  generalize hs2 : t2 % 67108864 = s2 at *
  generalize hs3 : t3 % 67108864 = s3 at *
  generalize hs4 : t4 % 67108864 = s4 at *
  generalize hs5 : t5 % 67108864 = s5 at *
  generalize hs6 : t6 % 67108864 = s6 at *
  generalize hs7 : t7 % 67108864 = s7 at *
  generalize hs8 : t8 % 67108864 = s8 at *
  have hs0' : s0 < 67108864 := by omega
  have hs1' : s1 < 67108864 := by omega
  have hs2' : s2 < 67108864 := by omega
  have hs3' : s3 < 67108864 := by omega
  have hs4' : s4 < 67108864 := by omega
  have hs5' : s5 < 67108864 := by omega
  have hs6' : s6 < 67108864 := by omega
  have hs7' : s7 < 67108864 := by omega
  have hs8' : s8 < 67108864 := by omega
  clear hs0 hs1 hs2 hs3 hs4 hs5 hs6 hs7 hs8 e0 e1 e2 e3 e4 e5 e6 e7 e8 e9 hx hx63 h t0 t1 t2 t3 t4 t5 t6 t7 t8
  simp only [ite_and_ite]
  simp (disch := omega) only [and7_eq_mask]
  rw [Nat.mod_eq_of_lt (show s1 + 64 < 18446744073709551616 by omega),
    Nat.mod_eq_of_lt (show s0 + 977 < 18446744073709551616 by omega),
    Nat.mod_eq_of_lt (show s1 + 64 + (s0 + 977) / 67108864 < 18446744073709551616 by omega)]
  generalize hx2 : (t9 / 4194304 ||| if (t9 = 4194303 ∧ s2 = 67108863 ∧ s3 = 67108863 ∧ s4 = 67108863 ∧ s5 = 67108863 ∧ s6 = 67108863 ∧ s7 = 67108863 ∧ s8 = 67108863) ∧ 67108863 < s1 + 64 + (s0 + 977) / 67108864 then 1 else 0) = x2 at *
  have hx2' : (x2 = 1 ∧ (4194304 ≤ t9 ∨ ((t9 = 4194303 ∧ s2 = 67108863 ∧ s3 = 67108863 ∧ s4 = 67108863 ∧ s5 = 67108863 ∧ s6 = 67108863 ∧ s7 = 67108863 ∧ s8 = 67108863) ∧ 67108863 < s1 + 64 + (s0 + 977) / 67108864))) ∨
      (x2 = 0 ∧ t9 < 4194304 ∧ ¬ ((t9 = 4194303 ∧ s2 = 67108863 ∧ s3 = 67108863 ∧ s4 = 67108863 ∧ s5 = 67108863 ∧ s6 = 67108863 ∧ s7 = 67108863 ∧ s8 = 67108863) ∧ 67108863 < s1 + 64 + (s0 + 977) / 67108864)) := by
    have hq01 : t9 / 4194304 = 0 ∨ t9 / 4194304 = 1 := by omega
    split at hx2
    · rename_i hC
      rcases hq01 with hq | hq <;> rw [hq] at hx2 <;> simp only [Nat.reduceOr] at hx2 <;> omega
    · rename_i hC
      rw [Nat.or_zero] at hx2
      rcases hq01 with hq | hq
      · right; exact ⟨by omega, by omega, hC⟩
      · left; exact ⟨by omega, by omega⟩
  clear hx2
  have hx2le : x2 ≤ 1 := by omega
  generalize hu0 : (s0 + x2 * 977 % 18446744073709551616) % 18446744073709551616 % 4294967296 = u0 at *
  have f0 : u0 = s0 + x2 * 977 := by omega
  clear hu0
  generalize hu1 : ((s1 + x2 * 64 % 4294967296) % 4294967296 + u0 / 67108864) % 4294967296 = u1 at *
  have f1 : u1 = s1 + x2 * 64 + u0 / 67108864 := by omega
  clear hu1
  generalize hu2 : (s2 + u1 / 67108864) % 4294967296 = u2 at *
  have f2 : u2 = s2 + u1 / 67108864 := by omega
  clear hu2
  generalize hu3 : (s3 + u2 / 67108864) % 4294967296 = u3 at *
  have f3 : u3 = s3 + u2 / 67108864 := by omega
  clear hu3
  generalize hu4 : (s4 + u3 / 67108864) % 4294967296 = u4 at *
  have f4 : u4 = s4 + u3 / 67108864 := by omega
  clear hu4
  generalize hu5 : (s5 + u4 / 67108864) % 4294967296 = u5 at *
  have f5 : u5 = s5 + u4 / 67108864 := by omega
  clear hu5
  generalize hu6 : (s6 + u5 / 67108864) % 4294967296 = u6 at *
  have f6 : u6 = s6 + u5 / 67108864 := by omega
  clear hu6
  generalize hu7 : (s7 + u6 / 67108864) % 4294967296 = u7 at *
  have f7 : u7 = s7 + u6 / 67108864 := by omega
  clear hu7
  generalize hu8 : (s8 + u7 / 67108864) % 4294967296 = u8 at *
  have f8 : u8 = s8 + u7 / 67108864 := by omega
  clear hu8
  generalize hu9 : (t9 + u8 / 67108864) % 4294967296 = u9 at *
  have f9 : u9 = t9 + u8 / 67108864 := by omega
  clear hu9
  have hU : u0 % 67108864 + u1 % 67108864 * 67108864 + u2 % 67108864 * 4503599627370496 + u3 % 67108864 * 302231454903657293676544 + u4 % 67108864 * 20282409603651670423947251286016 + u5 % 67108864 * 1361129467683753853853498429727072845824 + u6 % 67108864 * 91343852333181432387730302044767688728495783936 + u7 % 67108864 * 6129982163463555433433388108601236734474956488734408704 + u8 % 67108864 * 411376139330301510538742295639337626245683966408394965837152256 + u9 % 4194304 * 27606985387162255149739023449108101809804435888681546220650096895197184 +
      u9 / 4194304 * 115792089237316195423570985008687907853269984665640564039457584007913129639936 =
      s0 + s1 * 67108864 + s2 * 4503599627370496 + s3 * 302231454903657293676544 + s4 * 20282409603651670423947251286016 + s5 * 1361129467683753853853498429727072845824 + s6 * 91343852333181432387730302044767688728495783936 + s7 * 6129982163463555433433388108601236734474956488734408704 + s8 * 411376139330301510538742295639337626245683966408394965837152256 + t9 * 27606985387162255149739023449108101809804435888681546220650096895197184 + x2 * 4294968273 := by omega
  have hu9b : u9 ≤ 4194303 + 65 := by omega
  generalize hv0 : u0 % 67108864 = v0 at *
  generalize hv1 : u1 % 67108864 = v1 at *
  generalize hv2 : u2 % 67108864 = v2 at *
  generalize hv3 : u3 % 67108864 = v3 at *
  generalize hv4 : u4 % 67108864 = v4 at *
  generalize hv5 : u5 % 67108864 = v5 at *
  generalize hv6 : u6 % 67108864 = v6 at *
  generalize hv7 : u7 % 67108864 = v7 at *
  generalize hv8 : u8 % 67108864 = v8 at *
  generalize hv9 : u9 % 4194304 = v9 at *
  generalize hw : u9 / 4194304 = w at *
  have hv0' : v0 < 67108864 := by omega
  have hv1' : v1 < 67108864 := by omega
  have hv2' : v2 < 67108864 := by omega
  have hv3' : v3 < 67108864 := by omega
  have hv4' : v4 < 67108864 := by omega
  have hv5' : v5 < 67108864 := by omega
  have hv6' : v6 < 67108864 := by omega
  have hv7' : v7 < 67108864 := by omega
  have hv8' : v8 < 67108864 := by omega
  have hv9' : v9 < 4194304 := by omega
  have hw' : w ≤ 1 := by omega
  clear hv0 hv1 hv2 hv3 hv4 hv5 hv6 hv7 hv8 hv9 hw f0 f1 f2 f3 f4 f5 f6 f7 f8 f9 hu9b u0 u1 u2 u3 u4 u5 u6 u7 u8 u9
  refine ⟨v0, v1, v2, v3, v4, v5, v6, v7, v8, v9, ⟨hv0', hv1', hv2', hv3', hv4', hv5', hv6', hv7', hv8', hv9'⟩, ?_,
    rfl, rfl, rfl, rfl, rfl, rfl, rfl, rfl⟩
  have hV : v0 + v1 * 67108864 + v2 * 4503599627370496 + v3 * 302231454903657293676544 + v4 * 20282409603651670423947251286016 + v5 * 1361129467683753853853498429727072845824 + v6 * 91343852333181432387730302044767688728495783936 + v7 * 6129982163463555433433388108601236734474956488734408704 + v8 * 411376139330301510538742295639337626245683966408394965837152256 + v9 * 27606985387162255149739023449108101809804435888681546220650096895197184 < 115792089237316195423570985008687907853269984665640564039457584007908834671663 ∧
      (v0 + v1 * 67108864 + v2 * 4503599627370496 + v3 * 302231454903657293676544 + v4 * 20282409603651670423947251286016 + v5 * 1361129467683753853853498429727072845824 + v6 * 91343852333181432387730302044767688728495783936 + v7 * 6129982163463555433433388108601236734474956488734408704 + v8 * 411376139330301510538742295639337626245683966408394965837152256 + v9 * 27606985387162255149739023449108101809804435888681546220650096895197184) % 115792089237316195423570985008687907853269984665640564039457584007908834671663 =
      (r0 + r1 * 67108864 + r2 * 4503599627370496 + r3 * 302231454903657293676544 + r4 * 20282409603651670423947251286016 + r5 * 1361129467683753853853498429727072845824 + r6 * 91343852333181432387730302044767688728495783936 + r7 * 6129982163463555433433388108601236734474956488734408704 + r8 * 411376139330301510538742295639337626245683966408394965837152256 + r9 * 27606985387162255149739023449108101809804435888681546220650096895197184) % 115792089237316195423570985008687907853269984665640564039457584007908834671663 := by
    rcases hx2' with ⟨rfl, hc⟩ | ⟨rfl, hlt, hnc⟩
    · have hw1 : w = 1 := by omega
      subst hw1
      constructor <;> omega
    · have hw0 : w = 0 := by omega
      subst hw0
      have hTlt : s0 + s1 * 67108864 + s2 * 4503599627370496 + s3 * 302231454903657293676544 + s4 * 20282409603651670423947251286016 + s5 * 1361129467683753853853498429727072845824 + s6 * 91343852333181432387730302044767688728495783936 + s7 * 6129982163463555433433388108601236734474956488734408704 + s8 * 411376139330301510538742295639337626245683966408394965837152256 + t9 * 27606985387162255149739023449108101809804435888681546220650096895197184 <
          115792089237316195423570985008687907853269984665640564039457584007908834671663 := by
        by_cases h9 : t9 = 4194303
        · by_cases h8 : s8 = 67108863
          · by_cases h7 : s7 = 67108863
            · by_cases h6 : s6 = 67108863
              · by_cases h5 : s5 = 67108863
                · by_cases h4 : s4 = 67108863
                  · by_cases h3 : s3 = 67108863
                    · by_cases h2 : s2 = 67108863
                      · have hn : ¬ (67108863 < s1 + 64 + (s0 + 977) / 67108864) :=
                          fun hh => hnc ⟨⟨h9, h2, h3, h4, h5, h6, h7, h8⟩, hh⟩
                        clear hnc; omega
                      · clear hnc; omega
                    · clear hnc; omega
                  · clear hnc; omega
                · clear hnc; omega
              · clear hnc; omega
            · clear hnc; omega
          · clear hnc; omega
        · clear hnc; omega
      clear hnc
      constructor <;> omega
  rw [← hV.2, Nat.mod_eq_of_lt hV.1]

/-- `secp256k1_ge_to_storage` (10×26), `x` coordinate: the eight 32-bit storage words hold the canonical representative -/
theorem ge_to_storage_10x26_key_x (env : Env) (h : NoOvf10 env "a.x.n") :
    ScalarKernel32.val8x32 ((runW env Gen.ct32.ge_to_storage.body).get "r.x.n" 0) ((runW env Gen.ct32.ge_to_storage.body).get "r.x.n" 1)
      ((runW env Gen.ct32.ge_to_storage.body).get "r.x.n" 2) ((runW env Gen.ct32.ge_to_storage.body).get "r.x.n" 3)
      ((runW env Gen.ct32.ge_to_storage.body).get "r.x.n" 4) ((runW env Gen.ct32.ge_to_storage.body).get "r.x.n" 5)
      ((runW env Gen.ct32.ge_to_storage.body).get "r.x.n" 6) ((runW env Gen.ct32.ge_to_storage.body).get "r.x.n" 7) =
      val10At env "a.x.n" % P ∧
    (runW env Gen.ct32.ge_to_storage.body).get "r.x.n" 0 < 2 ^ 32 ∧ (runW env Gen.ct32.ge_to_storage.body).get "r.x.n" 1 < 2 ^ 32 ∧ (runW env Gen.ct32.ge_to_storage.body).get "r.x.n" 2 < 2 ^ 32 ∧ (runW env Gen.ct32.ge_to_storage.body).get "r.x.n" 3 < 2 ^ 32 ∧ (runW env Gen.ct32.ge_to_storage.body).get "r.x.n" 4 < 2 ^ 32 ∧ (runW env Gen.ct32.ge_to_storage.body).get "r.x.n" 5 < 2 ^ 32 ∧ (runW env Gen.ct32.ge_to_storage.body).get "r.x.n" 6 < 2 ^ 32 ∧ (runW env Gen.ct32.ge_to_storage.body).get "r.x.n" 7 < 2 ^ 32 := by
  obtain ⟨v0, v1, v2, v3, v4, v5, v6, v7, v8, v9, ⟨b0, b1, b2, b3, b4, b5, b6, b7, b8, b9⟩, hv, e0, e1, e2, e3, e4, e5, e6, e7⟩ :=
    ge_to_storage_10x26_norm_x env h
  rw [e0, e1, e2, e3, e4, e5, e6, e7, ← hv]
  exact to_storage_10x26_arith v0 v1 v2 v3 v4 v5 v6 v7 v8 v9 b0 b1 b2 b3 b4 b5 b6 b7 b8 b9

set_option maxRecDepth 100000 in
set_option maxHeartbeats 4000000 in
/-- `secp256k1_ge_to_storage` (10×26), `y` coordinate: the stored words are the packing of ten limbs `v` that are fully
    reduced, whose value is `< p` and congruent to the value of `a.y` -/
theorem ge_to_storage_10x26_norm_y (env : Env) (h : NoOvf10 env "a.y.n") :
    ∃ v0 v1 v2 v3 v4 v5 v6 v7 v8 v9 : Nat,
      (v0 < 67108864 ∧ v1 < 67108864 ∧ v2 < 67108864 ∧ v3 < 67108864 ∧ v4 < 67108864 ∧ v5 < 67108864 ∧ v6 < 67108864 ∧ v7 < 67108864 ∧ v8 < 67108864 ∧ v9 < 4194304) ∧
      val10 v0 v1 v2 v3 v4 v5 v6 v7 v8 v9 = val10At env "a.y.n" % P ∧
      (runW env Gen.ct32.ge_to_storage.body).get "r.y.n" 0 = (v0 ||| v1 * 67108864 % 4294967296) ∧
      (runW env Gen.ct32.ge_to_storage.body).get "r.y.n" 1 = (v1 / 64 ||| v2 * 1048576 % 4294967296) ∧
      (runW env Gen.ct32.ge_to_storage.body).get "r.y.n" 2 = (v2 / 4096 ||| v3 * 16384 % 4294967296) ∧
      (runW env Gen.ct32.ge_to_storage.body).get "r.y.n" 3 = (v3 / 262144 ||| v4 * 256 % 4294967296) ∧
      (runW env Gen.ct32.ge_to_storage.body).get "r.y.n" 4 = (v4 / 16777216 ||| v5 * 4 % 4294967296 ||| v6 * 268435456 % 4294967296) ∧
      (runW env Gen.ct32.ge_to_storage.body).get "r.y.n" 5 = (v6 / 16 ||| v7 * 4194304 % 4294967296) ∧
      (runW env Gen.ct32.ge_to_storage.body).get "r.y.n" 6 = (v7 / 1024 ||| v8 * 65536 % 4294967296) ∧
      (runW env Gen.ct32.ge_to_storage.body).get "r.y.n" 7 = (v8 / 65536 ||| v9 * 1024 % 4294967296) := by
  simp only [NoOvf10, Mag10, val10At, val10] at h ⊢
  simp only [Gen.ct32.ge_to_storage]
  minic_evalW
  generalize env.get "a.y.n" 0 = r0 at *
  generalize env.get "a.y.n" 1 = r1 at *
  generalize env.get "a.y.n" 2 = r2 at *
  generalize env.get "a.y.n" 3 = r3 at *
  generalize env.get "a.y.n" 4 = r4 at *
  generalize env.get "a.y.n" 5 = r5 at *
  generalize env.get "a.y.n" 6 = r6 at *
  generalize env.get "a.y.n" 7 = r7 at *
  generalize env.get "a.y.n" 8 = r8 at *
  generalize env.get "a.y.n" 9 = r9 at *
  simp only [Nat.reducePow, and_M26, and_M22, P, mod26_mod32, mod22_mod32] at h ⊢
  generalize hx : r9 / 4194304 = x at *
  have hx63 : x ≤ 63 := by omega
  generalize ht0 : (r0 + x * 977 % 18446744073709551616) % 18446744073709551616 % 4294967296 = t0 at *
  have e0 : t0 = r0 + x * 977 := by omega
  clear ht0
  generalize ht1 : ((r1 + x * 64 % 4294967296) % 4294967296 + t0 / 67108864) % 4294967296 = t1 at *
  have e1 : t1 = r1 + x * 64 + t0 / 67108864 := by omega
  clear ht1
  generalize ht2 : (r2 + t1 / 67108864) % 4294967296 = t2 at *
  have e2 : t2 = r2 + t1 / 67108864 := by omega
  clear ht2
  generalize ht3 : (r3 + t2 / 67108864) % 4294967296 = t3 at *
  have e3 : t3 = r3 + t2 / 67108864 := by omega
  clear ht3
  generalize ht4 : (r4 + t3 / 67108864) % 4294967296 = t4 at *
  have e4 : t4 = r4 + t3 / 67108864 := by omega
  clear ht4
  generalize ht5 : (r5 + t4 / 67108864) % 4294967296 = t5 at *
  have e5 : t5 = r5 + t4 / 67108864 := by omega
  clear ht5
  generalize ht6 : (r6 + t5 / 67108864) % 4294967296 = t6 at *
  have e6 : t6 = r6 + t5 / 67108864 := by omega
  clear ht6
  generalize ht7 : (r7 + t6 / 67108864) % 4294967296 = t7 at *
  have e7 : t7 = r7 + t6 / 67108864 := by omega
  clear ht7
  generalize ht8 : (r8 + t7 / 67108864) % 4294967296 = t8 at *
  have e8 : t8 = r8 + t7 / 67108864 := by omega
  clear ht8
  generalize ht9 : (r9 % 4194304 + t8 / 67108864) % 4294967296 = t9 at *
  have e9 : t9 = r9 % 4194304 + t8 / 67108864 := by omega
  clear ht9
  have hT : t0 % 67108864 + t1 % 67108864 * 67108864 + t2 % 67108864 * 4503599627370496 + t3 % 67108864 * 302231454903657293676544 + t4 % 67108864 * 20282409603651670423947251286016 + t5 % 67108864 * 1361129467683753853853498429727072845824 + t6 % 67108864 * 91343852333181432387730302044767688728495783936 + t7 % 67108864 * 6129982163463555433433388108601236734474956488734408704 + t8 % 67108864 * 411376139330301510538742295639337626245683966408394965837152256 + t9 * 27606985387162255149739023449108101809804435888681546220650096895197184 +
      x * 115792089237316195423570985008687907853269984665640564039457584007908834671663 =
      r0 + r1 * 67108864 + r2 * 4503599627370496 + r3 * 302231454903657293676544 + r4 * 20282409603651670423947251286016 + r5 * 1361129467683753853853498429727072845824 + r6 * 91343852333181432387730302044767688728495783936 + r7 * 6129982163463555433433388108601236734474956488734408704 + r8 * 411376139330301510538742295639337626245683966408394965837152256 + r9 * 27606985387162255149739023449108101809804435888681546220650096895197184 := by omega
  have hb9 : t9 ≤ 4194303 + 63 := by omega
  generalize hs0 : t0 % 67108864 = s0 at *
  generalize hs1 : t1 % 67108864 = s1 at *
  generalize hs2 : t2 % 67108864 = s2 at *
  generalize hs3 : t3 % 67108864 = s3 at *
  generalize hs4 : t4 % 67108864 = s4 at *
  generalize hs5 : t5 % 67108864 = s5 at *
  generalize hs6 : t6 % 67108864 = s6 at *
  generalize hs7 : t7 % 67108864 = s7 at *
  generalize hs8 : t8 % 67108864 = s8 at *
  have hs0' : s0 < 67108864 := by omega
  have hs1' : s1 < 67108864 := by omega
  have hs2' : s2 < 67108864 := by omega
  have hs3' : s3 < 67108864 := by omega
  have hs4' : s4 < 67108864 := by omega
  have hs5' : s5 < 67108864 := by omega
  have hs6' : s6 < 67108864 := by omega
  have hs7' : s7 < 67108864 := by omega
  have hs8' : s8 < 67108864 := by omega
  clear hs0 hs1 hs2 hs3 hs4 hs5 hs6 hs7 hs8 e0 e1 e2 e3 e4 e5 e6 e7 e8 e9 hx hx63 h t0 t1 t2 t3 t4 t5 t6 t7 t8
  simp only [ite_and_ite]
  simp (disch := omega) only [and7_eq_mask]
  rw [Nat.mod_eq_of_lt (show s1 + 64 < 18446744073709551616 by omega),
    Nat.mod_eq_of_lt (show s0 + 977 < 18446744073709551616 by omega),
    Nat.mod_eq_of_lt (show s1 + 64 + (s0 + 977) / 67108864 < 18446744073709551616 by omega)]
  generalize hx2 : (t9 / 4194304 ||| if (t9 = 4194303 ∧ s2 = 67108863 ∧ s3 = 67108863 ∧ s4 = 67108863 ∧ s5 = 67108863 ∧ s6 = 67108863 ∧ s7 = 67108863 ∧ s8 = 67108863) ∧ 67108863 < s1 + 64 + (s0 + 977) / 67108864 then 1 else 0) = x2 at *
  have hx2' : (x2 = 1 ∧ (4194304 ≤ t9 ∨ ((t9 = 4194303 ∧ s2 = 67108863 ∧ s3 = 67108863 ∧ s4 = 67108863 ∧ s5 = 67108863 ∧ s6 = 67108863 ∧ s7 = 67108863 ∧ s8 = 67108863) ∧ 67108863 < s1 + 64 + (s0 + 977) / 67108864))) ∨
      (x2 = 0 ∧ t9 < 4194304 ∧ ¬ ((t9 = 4194303 ∧ s2 = 67108863 ∧ s3 = 67108863 ∧ s4 = 67108863 ∧ s5 = 67108863 ∧ s6 = 67108863 ∧ s7 = 67108863 ∧ s8 = 67108863) ∧ 67108863 < s1 + 64 + (s0 + 977) / 67108864)) := by
    have hq01 : t9 / 4194304 = 0 ∨ t9 / 4194304 = 1 := by omega
    split at hx2
    · rename_i hC
      rcases hq01 with hq | hq <;> rw [hq] at hx2 <;> simp only [Nat.reduceOr] at hx2 <;> omega
    · rename_i hC
      rw [Nat.or_zero] at hx2
      rcases hq01 with hq | hq
      · right; exact ⟨by omega, by omega, hC⟩
      · left; exact ⟨by omega, by omega⟩
  clear hx2
  have hx2le : x2 ≤ 1 := by omega
  generalize hu0 : (s0 + x2 * 977 % 18446744073709551616) % 18446744073709551616 % 4294967296 = u0 at *
  have f0 : u0 = s0 + x2 * 977 := by omega
  clear hu0
  generalize hu1 : ((s1 + x2 * 64 % 4294967296) % 4294967296 + u0 / 67108864) % 4294967296 = u1 at *
  have f1 : u1 = s1 + x2 * 64 + u0 / 67108864 := by omega
  clear hu1
  generalize hu2 : (s2 + u1 / 67108864) % 4294967296 = u2 at *
  have f2 : u2 = s2 + u1 / 67108864 := by omega
  clear hu2
  generalize hu3 : (s3 + u2 / 67108864) % 4294967296 = u3 at *
  have f3 : u3 = s3 + u2 / 67108864 := by omega
  clear hu3
  generalize hu4 : (s4 + u3 / 67108864) % 4294967296 = u4 at *
  have f4 : u4 = s4 + u3 / 67108864 := by omega
  clear hu4
  generalize hu5 : (s5 + u4 / 67108864) % 4294967296 = u5 at *
  have f5 : u5 = s5 + u4 / 67108864 := by omega
  clear hu5
  generalize hu6 : (s6 + u5 / 67108864) % 4294967296 = u6 at *
  have f6 : u6 = s6 + u5 / 67108864 := by omega
  clear hu6
  generalize hu7 : (s7 + u6 / 67108864) % 4294967296 = u7 at *
  have f7 : u7 = s7 + u6 / 67108864 := by omega
  clear hu7
  generalize hu8 : (s8 + u7 / 67108864) % 4294967296 = u8 at *
  have f8 : u8 = s8 + u7 / 67108864 := by omega
  clear hu8
  generalize hu9 : (t9 + u8 / 67108864) % 4294967296 = u9 at *
  have f9 : u9 = t9 + u8 / 67108864 := by omega
  clear hu9
  have hU : u0 % 67108864 + u1 % 67108864 * 67108864 + u2 % 67108864 * 4503599627370496 + u3 % 67108864 * 302231454903657293676544 + u4 % 67108864 * 20282409603651670423947251286016 + u5 % 67108864 * 1361129467683753853853498429727072845824 + u6 % 67108864 * 91343852333181432387730302044767688728495783936 + u7 % 67108864 * 6129982163463555433433388108601236734474956488734408704 + u8 % 67108864 * 411376139330301510538742295639337626245683966408394965837152256 + u9 % 4194304 * 27606985387162255149739023449108101809804435888681546220650096895197184 +
      u9 / 4194304 * 115792089237316195423570985008687907853269984665640564039457584007913129639936 =
      s0 + s1 * 67108864 + s2 * 4503599627370496 + s3 * 302231454903657293676544 + s4 * 20282409603651670423947251286016 + s5 * 1361129467683753853853498429727072845824 + s6 * 91343852333181432387730302044767688728495783936 + s7 * 6129982163463555433433388108601236734474956488734408704 + s8 * 411376139330301510538742295639337626245683966408394965837152256 + t9 * 27606985387162255149739023449108101809804435888681546220650096895197184 + x2 * 4294968273 := by omega
  have hu9b : u9 ≤ 4194303 + 65 := by omega
  generalize hv0 : u0 % 67108864 = v0 at *
  generalize hv1 : u1 % 67108864 = v1 at *
  generalize hv2 : u2 % 67108864 = v2 at *
  generalize hv3 : u3 % 67108864 = v3 at *
  generalize hv4 : u4 % 67108864 = v4 at *
  generalize hv5 : u5 % 67108864 = v5 at *
  generalize hv6 : u6 % 67108864 = v6 at *
  generalize hv7 : u7 % 67108864 = v7 at *
  generalize hv8 : u8 % 67108864 = v8 at *
  generalize hv9 : u9 % 4194304 = v9 at *
  generalize hw : u9 / 4194304 = w at *
  have hv0' : v0 < 67108864 := by omega
  have hv1' : v1 < 67108864 := by omega
  have hv2' : v2 < 67108864 := by omega
  have hv3' : v3 < 67108864 := by omega
  have hv4' : v4 < 67108864 := by omega
  have hv5' : v5 < 67108864 := by omega
  have hv6' : v6 < 67108864 := by omega
  have hv7' : v7 < 67108864 := by omega
  have hv8' : v8 < 67108864 := by omega
  have hv9' : v9 < 4194304 := by omega
  have hw' : w ≤ 1 := by omega
  clear hv0 hv1 hv2 hv3 hv4 hv5 hv6 hv7 hv8 hv9 hw f0 f1 f2 f3 f4 f5 f6 f7 f8 f9 hu9b u0 u1 u2 u3 u4 u5 u6 u7 u8 u9
  refine ⟨v0, v1, v2, v3, v4, v5, v6, v7, v8, v9, ⟨hv0', hv1', hv2', hv3', hv4', hv5', hv6', hv7', hv8', hv9'⟩, ?_,
    rfl, rfl, rfl, rfl, rfl, rfl, rfl, rfl⟩
  have hV : v0 + v1 * 67108864 + v2 * 4503599627370496 + v3 * 302231454903657293676544 + v4 * 20282409603651670423947251286016 + v5 * 1361129467683753853853498429727072845824 + v6 * 91343852333181432387730302044767688728495783936 + v7 * 6129982163463555433433388108601236734474956488734408704 + v8 * 411376139330301510538742295639337626245683966408394965837152256 + v9 * 27606985387162255149739023449108101809804435888681546220650096895197184 < 115792089237316195423570985008687907853269984665640564039457584007908834671663 ∧
      (v0 + v1 * 67108864 + v2 * 4503599627370496 + v3 * 302231454903657293676544 + v4 * 20282409603651670423947251286016 + v5 * 1361129467683753853853498429727072845824 + v6 * 91343852333181432387730302044767688728495783936 + v7 * 6129982163463555433433388108601236734474956488734408704 + v8 * 411376139330301510538742295639337626245683966408394965837152256 + v9 * 27606985387162255149739023449108101809804435888681546220650096895197184) % 115792089237316195423570985008687907853269984665640564039457584007908834671663 =
      (r0 + r1 * 67108864 + r2 * 4503599627370496 + r3 * 302231454903657293676544 + r4 * 20282409603651670423947251286016 + r5 * 1361129467683753853853498429727072845824 + r6 * 91343852333181432387730302044767688728495783936 + r7 * 6129982163463555433433388108601236734474956488734408704 + r8 * 411376139330301510538742295639337626245683966408394965837152256 + r9 * 27606985387162255149739023449108101809804435888681546220650096895197184) % 115792089237316195423570985008687907853269984665640564039457584007908834671663 := by
    rcases hx2' with ⟨rfl, hc⟩ | ⟨rfl, hlt, hnc⟩
    · have hw1 : w = 1 := by omega
      subst hw1
      constructor <;> omega
    · have hw0 : w = 0 := by omega
      subst hw0
      have hTlt : s0 + s1 * 67108864 + s2 * 4503599627370496 + s3 * 302231454903657293676544 + s4 * 20282409603651670423947251286016 + s5 * 1361129467683753853853498429727072845824 + s6 * 91343852333181432387730302044767688728495783936 + s7 * 6129982163463555433433388108601236734474956488734408704 + s8 * 411376139330301510538742295639337626245683966408394965837152256 + t9 * 27606985387162255149739023449108101809804435888681546220650096895197184 <
          115792089237316195423570985008687907853269984665640564039457584007908834671663 := by
        by_cases h9 : t9 = 4194303
        · by_cases h8 : s8 = 67108863
          · by_cases h7 : s7 = 67108863
            · by_cases h6 : s6 = 67108863
              · by_cases h5 : s5 = 67108863
                · by_cases h4 : s4 = 67108863
                  · by_cases h3 : s3 = 67108863
                    · by_cases h2 : s2 = 67108863
                      · have hn : ¬ (67108863 < s1 + 64 + (s0 + 977) / 67108864) :=
                          fun hh => hnc ⟨⟨h9, h2, h3, h4, h5, h6, h7, h8⟩, hh⟩
                        clear hnc; omega
                      · clear hnc; omega
                    · clear hnc; omega
                  · clear hnc; omega
                · clear hnc; omega
              · clear hnc; omega
            · clear hnc; omega
          · clear hnc; omega
        · clear hnc; omega
      clear hnc
      constructor <;> omega
  rw [← hV.2, Nat.mod_eq_of_lt hV.1]

/-- `secp256k1_ge_to_storage` (10×26), `y` coordinate: the eight 32-bit storage words hold the canonical representative -/
theorem ge_to_storage_10x26_key_y (env : Env) (h : NoOvf10 env "a.y.n") :
    ScalarKernel32.val8x32 ((runW env Gen.ct32.ge_to_storage.body).get "r.y.n" 0) ((runW env Gen.ct32.ge_to_storage.body).get "r.y.n" 1)
      ((runW env Gen.ct32.ge_to_storage.body).get "r.y.n" 2) ((runW env Gen.ct32.ge_to_storage.body).get "r.y.n" 3)
      ((runW env Gen.ct32.ge_to_storage.body).get "r.y.n" 4) ((runW env Gen.ct32.ge_to_storage.body).get "r.y.n" 5)
      ((runW env Gen.ct32.ge_to_storage.body).get "r.y.n" 6) ((runW env Gen.ct32.ge_to_storage.body).get "r.y.n" 7) =
      val10At env "a.y.n" % P ∧
    (runW env Gen.ct32.ge_to_storage.body).get "r.y.n" 0 < 2 ^ 32 ∧ (runW env Gen.ct32.ge_to_storage.body).get "r.y.n" 1 < 2 ^ 32 ∧ (runW env Gen.ct32.ge_to_storage.body).get "r.y.n" 2 < 2 ^ 32 ∧ (runW env Gen.ct32.ge_to_storage.body).get "r.y.n" 3 < 2 ^ 32 ∧ (runW env Gen.ct32.ge_to_storage.body).get "r.y.n" 4 < 2 ^ 32 ∧ (runW env Gen.ct32.ge_to_storage.body).get "r.y.n" 5 < 2 ^ 32 ∧ (runW env Gen.ct32.ge_to_storage.body).get "r.y.n" 6 < 2 ^ 32 ∧ (runW env Gen.ct32.ge_to_storage.body).get "r.y.n" 7 < 2 ^ 32 := by
  obtain ⟨v0, v1, v2, v3, v4, v5, v6, v7, v8, v9, ⟨b0, b1, b2, b3, b4, b5, b6, b7, b8, b9⟩, hv, e0, e1, e2, e3, e4, e5, e6, e7⟩ :=
    ge_to_storage_10x26_norm_y env h
  rw [e0, e1, e2, e3, e4, e5, e6, e7, ← hv]
  exact to_storage_10x26_arith v0 v1 v2 v3 v4 v5 v6 v7 v8 v9 b0 b1 b2 b3 b4 b5 b6 b7 b8 b9

end CtSpec
end SecpZkp
