import SecpZkp.Proofs.Parsers
import SecpZkp.Proofs.Prime
import Mathlib.FieldTheory.Finite.Basic
import Mathlib.Tactic.Ring
import Mathlib.Tactic.LinearCombination
/-
  Number-theoretic part of the generator / commitment round trips: in the field `ZMod P`
  (`P` prime by `Proofs/Prime.lean`, `P ≡ 3 mod 4`) the model's square-root candidate `a^((P+1)/4)` is a
  root of every square, it is itself a square, `-1` is not a square, and `x^3 + 7` has no root (no curve
  point has `y = 0`).
-/
namespace SecpZkp
namespace Parsers

instance factPrimeP : Fact (Nat.Prime P) := ⟨prime_P⟩

/-- the exponent `(P + 1) / 4` of the square-root candidate -/
def K : Nat := (P + 1) / 4

theorem four_K : 4 * K = P + 1 := by decide +kernel
theorem K_lt : K < 2 ^ 520 := by decide +kernel

theorem sqrtCand_eq (a : Nat) : Fe.sqrtCand a = a ^ K % P := powMod_eq a K P K_lt

theorem cast_sqrtCand (a : Nat) : ((Fe.sqrtCand a : Nat) : ZMod P) = (a : ZMod P) ^ K := by
  rw [sqrtCand_eq, ZMod.natCast_mod, Nat.cast_pow]

theorem cast_sqr (a : Nat) : ((Fe.sqr a : Nat) : ZMod P) = (a : ZMod P) * a := by
  unfold Fe.sqr; rw [ZMod.natCast_mod, Nat.cast_mul]

theorem cast_curveRhs (x : Nat) : ((curveRhs x : Nat) : ZMod P) = (x : ZMod P) ^ 3 + 7 := by
  unfold curveRhs Fe.add Fe.mul Fe.sqr
  simp only [ZMod.natCast_mod, Nat.cast_add, Nat.cast_mul, Nat.cast_ofNat]
  ring

theorem cast_neg (y : Nat) : ((Fe.neg y : Nat) : ZMod P) = - (y : ZMod P) := by
  unfold Fe.neg
  rw [ZMod.natCast_mod, Nat.cast_sub (Nat.le_of_lt (Nat.mod_lt _ P_pos)), ZMod.natCast_self,
    ZMod.natCast_mod, zero_sub]

theorem eq_of_cast_eq {a b : Nat} (ha : a < P) (hb : b < P) (h : (a : ZMod P) = (b : ZMod P)) : a = b := by
  have := (ZMod.natCast_eq_natCast_iff' a b P).1 h
  rwa [Nat.mod_eq_of_lt ha, Nat.mod_eq_of_lt hb] at this

theorem cast_eq_zero_iff {a : Nat} (ha : a < P) : (a : ZMod P) = 0 ↔ a = 0 := by
  constructor
  · intro h
    exact eq_of_cast_eq ha P_pos (by simpa using h)
  · rintro rfl; simp

/-- `isSquare y` in field terms: `y^((P+1)/2) = y` -/
theorem isSquare_iff (y : Nat) : Fe.isSquare y = true ↔ (y : ZMod P) ^ (2 * K) = (y : ZMod P) := by
  unfold Fe.isSquare
  simp only [decide_eq_true_eq]
  have h1 : Fe.sqr (Fe.sqrtCand y) < P := Nat.mod_lt _ P_pos
  have h2 : y % P < P := Nat.mod_lt _ P_pos
  constructor
  · intro h
    have := congrArg (fun n : Nat => (n : ZMod P)) h
    simp only [cast_sqr, cast_sqrtCand, ZMod.natCast_mod] at this
    calc (y : ZMod P) ^ (2 * K) = (y : ZMod P) ^ K * (y : ZMod P) ^ K := by ring
      _ = y := this
  · intro h
    apply eq_of_cast_eq h1 h2
    rw [cast_sqr, cast_sqrtCand, ZMod.natCast_mod]
    calc (y : ZMod P) ^ K * (y : ZMod P) ^ K = (y : ZMod P) ^ (2 * K) := by ring
      _ = y := h

/-- Fermat: `Y^(4K) = Y^2` for every `Y` -/
theorem pow_four_K (Y : ZMod P) : Y ^ (4 * K) = Y ^ 2 := by
  by_cases hY : Y = 0
  · subst hY
    rw [zero_pow (by decide +kernel : 4 * K ≠ 0)]; simp
  · have hf := ZMod.pow_card_sub_one_eq_one hY
    rw [four_K, show P + 1 = (P - 1) + 2 by have := one_lt_P; omega, pow_add, hf, one_mul]

/-- the square-root candidate of a square is a root -/
theorem isSquare_of_sq (a : Nat) (Y : ZMod P) (h : (a : ZMod P) = Y ^ 2) : Fe.isSquare a = true := by
  rw [isSquare_iff, h, ← pow_mul, show 2 * (2 * K) = 4 * K by ring, pow_four_K]

theorem two_ne_zero_P : (2 : ZMod P) ≠ 0 := by
  have : ((2 : Nat) : ZMod P) ≠ 0 := by
    rw [Ne, cast_eq_zero_iff (by decide +kernel)]; decide
  simpa using this

/-- `-7` is not a cube in `ZMod P`: there is no `x` with `x^3 + 7 = 0`, i.e. no curve point with `y = 0`. -/
theorem curveRhs_ne_zero (X : ZMod P) : X ^ 3 + 7 ≠ 0 := by
  intro h
  have hx3 : X ^ 3 = ((P - 7 : Nat) : ZMod P) := by
    rw [Nat.cast_sub (by decide +kernel), ZMod.natCast_self]
    have : X ^ 3 = -7 := by linear_combination h
    rw [this]; simp
  have hX : X ≠ 0 := by
    rintro rfl
    have h7 : ((7 : Nat) : ZMod P) = 0 := by simpa using h
    rw [cast_eq_zero_iff (by decide +kernel)] at h7
    exact absurd h7 (by decide)
  have hf := ZMod.pow_card_sub_one_eq_one hX
  have h3 : P - 1 = 3 * ((P - 1) / 3) := by decide +kernel
  rw [h3, pow_mul, hx3, ← Nat.cast_pow] at hf
  have hpm : (P - 7) ^ ((P - 1) / 3) % P = powMod (P - 7) ((P - 1) / 3) P :=
    (powMod_eq _ _ _ (by decide +kernel)).symm
  have hne : powMod (P - 7) ((P - 1) / 3) P ≠ 1 := by decide +kernel
  rw [← ZMod.natCast_mod, hpm] at hf
  have : powMod (P - 7) ((P - 1) / 3) P = 1 :=
    eq_of_cast_eq (powMod_lt_P _ _) one_lt_P (by rw [hf, Nat.cast_one])
  exact hne this

theorem P_lt_two_pow : P < 2 ^ 256 := by decide +kernel

/-- the model's root of a point's `x^3 + 7`, in field terms: `Y^(2K)` where `Y` is the point's ordinate -/
theorem cast_sqrtCand_curveRhs (x y : Nat) (h : Pt.onCurveXY x y = true) :
    ((Fe.sqrtCand (curveRhs x) : Nat) : ZMod P) = (y : ZMod P) ^ (2 * K) := by
  obtain ⟨_, _, hs⟩ := (onCurveXY_iff x y).1 h
  rw [cast_sqrtCand, ← hs, cast_sqr, ← pow_two, ← pow_mul]

/-- in `ZMod P`, `Y^(2K)` is `Y` or `-Y` -/
theorem pow_two_K_eq (Y : ZMod P) : Y ^ (2 * K) = Y ∨ Y ^ (2 * K) = -Y := by
  have h : Y ^ (2 * K) * Y ^ (2 * K) = Y * Y := by
    rw [← pow_add, show 2 * K + 2 * K = 4 * K by ring, pow_four_K, pow_two]
  exact mul_self_eq_mul_self_iff.1 h

/-- **Core A.** For a point `(x, y)` on the curve, `x^3 + 7` passes the square test, and the root `r` the
model computes for it is `y` if `y` is a square and `-y` otherwise. -/
theorem root_of_point (x y : Nat) (hon : Pt.onCurveXY x y = true) :
    Fe.isSquare (curveRhs x) = true ∧
    (Fe.isSquare y = true → Fe.sqrtCand (curveRhs x) = y) ∧
    (¬ Fe.isSquare y = true → Fe.neg (Fe.sqrtCand (curveRhs x)) = y) := by
  obtain ⟨hx, hy, hs⟩ := (onCurveXY_iff x y).1 hon
  have hr := cast_sqrtCand_curveRhs x y hon
  refine ⟨isSquare_of_sq _ (y : ZMod P) (by rw [← hs, cast_sqr, pow_two]), fun hq => ?_, fun hq => ?_⟩
  · exact eq_of_cast_eq (sqrtCand_lt _) hy (by rw [hr]; exact (isSquare_iff y).1 hq)
  · have hne : (y : ZMod P) ^ (2 * K) ≠ y := fun he => hq ((isSquare_iff y).2 he)
    have hneg : (y : ZMod P) ^ (2 * K) = -(y : ZMod P) := (pow_two_K_eq _).resolve_left hne
    exact eq_of_cast_eq (neg_lt _) hy (by rw [cast_neg, hr, hneg, neg_neg])

/-- **Core B.** If `x^3 + 7` passes the square test, its root `r` is a square and `-r` is not (this needs
`r ≠ 0`, i.e. that the curve has no point with `y = 0`). -/
theorem root_square (x : Nat) (hsq : Fe.isSquare (curveRhs x) = true) :
    Fe.isSquare (Fe.sqrtCand (curveRhs x)) = true ∧
    ¬ Fe.isSquare (Fe.neg (Fe.sqrtCand (curveRhs x))) = true := by
  have hsq' := (isSquare_iff _).1 hsq
  have hR : ((Fe.sqrtCand (curveRhs x) : Nat) : ZMod P) ^ (2 * K) = (Fe.sqrtCand (curveRhs x) : Nat) := by
    rw [cast_sqrtCand, ← pow_mul, Nat.mul_comm K, pow_mul, hsq']
  have hRne : ((Fe.sqrtCand (curveRhs x) : Nat) : ZMod P) ≠ 0 := by
    intro h0
    rw [cast_sqrtCand] at h0
    have : ((curveRhs x : Nat) : ZMod P) = 0 := by
      rw [← hsq', pow_mul', h0]; simp
    rw [cast_curveRhs] at this
    exact curveRhs_ne_zero _ this
  refine ⟨(isSquare_iff _).2 hR, ?_⟩
  rw [isSquare_iff, cast_neg]
  intro hcon
  rw [neg_pow, hR, Even.neg_one_pow ⟨K, by ring⟩, one_mul] at hcon
  have h2 : (2 : ZMod P) * ((Fe.sqrtCand (curveRhs x) : Nat) : ZMod P) = 0 := by
    linear_combination hcon
  rcases mul_eq_zero.1 h2 with h' | h'
  · exact two_ne_zero_P h'
  · exact hRne h'

theorem generator_serialize_aff (x y : Nat) :
    Generator.serialize (.aff x y) = (if Fe.isSquare y then (10 : UInt8) else 11) :: Bytes.be32 x := rfl

/-- **Generator round trip, object → bytes → object**: every finite point on the curve is recovered from its
33-byte generator encoding. -/
theorem generator_roundtrip (g : Pt) (h : FinValid g) :
    Generator.parse (Generator.serialize g) = some g := by
  cases g with
  | inf => exact absurd h.2 (by decide)
  | aff x y =>
    have hon : Pt.onCurveXY x y = true := h.1
    obtain ⟨hx, hy, hs⟩ := (onCurveXY_iff x y).1 hon
    have hxb : Bytes.toNat (Bytes.be32 x) = x := toNat_be32 x (Nat.lt_trans hx P_lt_two_pow)
    obtain ⟨hsq, hA1, hA2⟩ := root_of_point x y hon
    rw [generator_serialize_aff, generator_parse_cons, hxb]
    by_cases hq : Fe.isSquare y = true
    · rw [if_pos hq, if_pos ⟨Or.inl rfl, hx, hsq⟩, if_neg (by decide), hA1 hq]
    · rw [if_neg hq, if_pos ⟨Or.inr rfl, hx, hsq⟩, if_pos rfl]
      simp only [Pt.neg, hA2 hq]

/-- **Generator round trip, bytes → object → bytes**: serializing a successfully parsed 33-byte generator
encoding reproduces the bytes. -/
theorem generator_parse_serialize (c : Bytes) (g : Pt) (hlen : c.length = 33)
    (h : Generator.parse c = some g) : Generator.serialize g = c := by
  cases c with
  | nil => simp at hlen
  | cons b0 rest =>
    have hrl : rest.length = 32 := by simpa using hlen
    rw [generator_parse_cons] at h
    split at h
    · rename_i hc
      obtain ⟨hb, hx, hsq⟩ := hc
      have hbe : Bytes.be32 (Bytes.toNat rest) = rest := by
        unfold Bytes.be32; rw [← hrl]; exact ofNat_toNat rest
      obtain ⟨hRsq, hnsq⟩ := root_square _ hsq
      rw [← Option.some.inj h]
      rcases hb with hb | hb
      · subst hb
        rw [if_neg (by decide), generator_serialize_aff, if_pos hRsq, hbe]
      · subst hb
        rw [if_pos rfl]
        show Generator.serialize (.aff _ (Fe.neg _)) = _
        rw [generator_serialize_aff, if_neg hnsq, hbe]
    · simp at h

/-! ### Pedersen commitments -/

theorem commitSave_aff (x y : Nat) :
    Generator.commitSave (.aff x y) = (if Fe.isSquare y then (8 : UInt8) else 9) :: Bytes.be32 x := rfl

/-- `secp256k1_pedersen_commitment_load` on an encoding with a valid abscissa -/
theorem commitLoad_cons (b0 : UInt8) (rest : Bytes) (hx : Bytes.toNat rest < P)
    (hsq : Fe.isSquare (curveRhs (Bytes.toNat rest)) = true) :
    Generator.commitLoad (b0 :: rest) =
      if b0 &&& 1 = 1 then Pt.neg (.aff (Bytes.toNat rest) (Fe.sqrtCand (curveRhs (Bytes.toNat rest))))
      else .aff (Bytes.toNat rest) (Fe.sqrtCand (curveRhs (Bytes.toNat rest))) := by
  have hs' : Fe.sqr (Fe.sqrtCand (curveRhs (Bytes.toNat rest))) = curveRhs (Bytes.toNat rest) % P := by
    simpa [Fe.isSquare] using hsq
  unfold Generator.commitLoad Pt.liftXQuad Fe.sqrt
  simp only [Nat.mod_eq_of_lt hx]
  unfold curveRhs at hs'
  rw [if_pos hs']
  rfl

/-- **Commitment round trip, object → bytes → object**: `commitment_load (commitment_save p) = p` for every
finite point on the curve. -/
theorem commit_load_save (p : Pt) (h : FinValid p) : Generator.commitLoad (Generator.commitSave p) = p := by
  cases p with
  | inf => exact absurd h.2 (by decide)
  | aff x y =>
    have hon : Pt.onCurveXY x y = true := h.1
    obtain ⟨hx, hy, hs⟩ := (onCurveXY_iff x y).1 hon
    have hxb : Bytes.toNat (Bytes.be32 x) = x := toNat_be32 x (Nat.lt_trans hx P_lt_two_pow)
    obtain ⟨hsq, hA1, hA2⟩ := root_of_point x y hon
    rw [commitSave_aff, commitLoad_cons _ _ (by rw [hxb]; exact hx) (by rw [hxb]; exact hsq), hxb]
    by_cases hq : Fe.isSquare y = true
    · rw [if_pos hq, if_neg (by decide), hA1 hq]
    · rw [if_neg hq, if_pos (by decide)]
      simp only [Pt.neg, hA2 hq]

/-- **Commitment round trip, bytes → object → bytes**: for a 33-byte string accepted by
`secp256k1_pedersen_commitment_parse`, saving the loaded point reproduces the bytes. -/
theorem commit_save_load (c o : Bytes) (hlen : c.length = 33) (h : Generator.commitParse c = some o) :
    Generator.commitSave (Generator.commitLoad o) = c := by
  obtain ⟨_, ⟨hb, hx, hsq⟩, rfl⟩ := (commitParse_iff c o).1 h
  cases o with
  | nil => simp at hlen
  | cons b0 rest =>
    have hrl : rest.length = 32 := by simpa using hlen
    simp only [List.headD_cons, List.tail_cons] at hb hx hsq
    have hbe : Bytes.be32 (Bytes.toNat rest) = rest := by
      unfold Bytes.be32; rw [← hrl]; exact ofNat_toNat rest
    obtain ⟨hRsq, hnsq⟩ := root_square _ hsq
    rw [commitLoad_cons _ _ hx hsq]
    rcases hb with hb | hb
    · subst hb
      rw [if_neg (by decide), commitSave_aff, if_pos hRsq, hbe]
    · subst hb
      rw [if_pos (by decide)]
      show Generator.commitSave (.aff _ (Fe.neg _)) = _
      rw [commitSave_aff, if_neg hnsq, hbe]

end Parsers
end SecpZkp
