import SecpZkp.Props.C09_params
import SecpZkp.Proofs.BorromeanRange
/-
  Signer-side facts for the completeness of range proofs (`Props/C09_complete.lean`):
  shape of the ring layout, deterministic randomness (`genrand`), nonce extraction (`takeNonces`).
-/
namespace SecpZkp
namespace Rangeproof
open SecpZkp.C09

/-! ### ring layout -/

/-- all rings of a layout but possibly the last have size 4: ring `i` starts at flat index `4 i` -/
theorem layout_offset (m i : Nat) (hi : i < (layout m).2.1.length) :
    Borromean.offset (layout m).2.1 i = 4 * i := by
  unfold Borromean.offset
  unfold layout at hi ⊢
  by_cases h0 : m = 0
  · simp only [h0, if_true, List.length_cons, List.length_nil] at hi ⊢
    have : i = 0 := by omega
    subst this; simp
  · by_cases h1 : m % 2 = 1
    · simp only [h0, h1, if_false, if_true, List.length_append, List.length_replicate, List.length_cons,
        List.length_nil] at hi ⊢
      rw [List.take_append_of_le_length (by simp; omega), List.take_replicate, List.sum_replicate]
      simp; omega
    · simp only [h0, h1, if_false, List.length_replicate] at hi ⊢
      rw [List.take_replicate, List.sum_replicate]
      simp; omega

theorem layout_ge_one (m : Nat) : ∀ r ∈ (layout m).2.1, 1 ≤ r := by
  intro r hr
  rcases (layout_spec m).2.2.2.2 r hr with h | h | h <;> omega

/-- the verifier's ring layout of the mantissa is the prover's -/
theorem proveParams_layout (minValue value : Nat) (exp minBits : Int) (pre : SignPre minValue value exp minBits)
    (hret : (proveParams 0 minValue exp minBits value).ret = true) :
    (layout (proveParams 0 minValue exp minBits value).mantissa).1 = (proveParams 0 minValue exp minBits value).rings ∧
    (layout (proveParams 0 minValue exp minBits value).mantissa).2.1 = (proveParams 0 minValue exp minBits value).rsizes := by
  obtain ⟨hmin, hval, he1, he2, hb1, hb2⟩ := pre
  by_cases hex : minValue = u64Max ∨ exp < 0
  · rw [proveParams_exact 0 minValue value exp minBits hex]
    simp [layout]
  · have h1 : minValue ≠ u64Max := fun h => hex (Or.inl h)
    have h2 : exp ≥ 0 := by omega
    by_cases hg : (minValue ≠ 0 ∧ value > i64Max) ∨ (value ≠ 0 ∧ minValue ≥ i64Max)
    · rw [proveParams_fail 0 minValue value exp minBits h1 h2 hg] at hret
      simp at hret
    · obtain ⟨k, v, mantissa, mb, heq, _, _, _, _, hm1, _⟩ :=
        proveParams_general 0 minValue value exp minBits hmin hval he2 hb1 hb2 h1 h2 hg
      rw [heq]
      simp only []
      rw [ringsOf_rsizes_eq _ _ _ _ _ (by omega)]
      unfold layout
      have hm0 : mantissa ≠ 0 := by omega
      rw [if_neg hm0]
      by_cases hodd : mantissa % 2 = 1
      · have hne : ¬ (mantissa % 2 = 0 ∨ (mantissa + 1) / 2 = 0) := by omega
        rw [if_pos hodd, if_neg hne]
        refine ⟨by simp only []; omega, ?_⟩
        simp only []
        congr 2; omega
      · have he : (mantissa % 2 = 0 ∨ (mantissa + 1) / 2 = 0) := by omega
        rw [if_neg hodd, if_pos he]
        refine ⟨by simp only []; omega, ?_⟩
        simp only []
        congr 1; omega

/-! ### `genrand` -/

theorem genSec_lt (fuel : Nat) (r : Sha256.Rfc6979) : (genSec fuel r).1 < N := by
  induction fuel generalizing r with
  | zero => exact Algebra.N_pos
  | succ fuel ih =>
    rw [genSec]
    simp only []
    split
    · exact ih _
    · exact Borromean.setB32_fst_lt _

/-- one ring of forged scalars: `n` reduced scalars are appended; the flag stays true only if none is zero -/
theorem genrandRing_spec (i : Nat) : ∀ (n j : Nat) (rng : Sha256.Rfc6979) (ret : Bool) (s : List Nat) (msg : Option Bytes),
    ∃ news, (genrandRing i n j rng ret s msg).2.2.1 = s ++ news ∧ news.length = n ∧ (∀ x ∈ news, x < N) ∧
      ((genrandRing i n j rng ret s msg).2.1 = true → ret = true ∧ ∀ x ∈ news, x ≠ 0) := by
  intro n
  induction n with
  | zero => intro j rng ret s msg; exact ⟨[], by simp [genrandRing], rfl, by simp, by simp [genrandRing]⟩
  | succ n ih =>
    intro j rng ret s msg
    rw [genrandRing]
    cases msg with
    | none =>
      simp only []
      refine (ih (j + 1) (Sha256.rfc6979Generate rng 32).2
        (ret && !((Sc.setB32 (Sha256.rfc6979Generate rng 32).1).2 || (Sc.setB32 (Sha256.rfc6979Generate rng 32).1).1 == 0))
        (s ++ [(Sc.setB32 (Sha256.rfc6979Generate rng 32).1).1]) none).elim ?_
      rintro news ⟨h1, h2, h3, h4⟩
      refine ⟨(Sc.setB32 (Sha256.rfc6979Generate rng 32).1).1 :: news, by rw [h1]; simp, by simp [h2], ?_, ?_⟩
      · intro x hx
        rcases List.mem_cons.mp hx with h | h
        · subst h; exact Borromean.setB32_fst_lt _
        · exact h3 x h
      · intro hret
        obtain ⟨h5, h6⟩ := h4 hret
        simp only [Bool.and_eq_true, Bool.not_eq_true', Bool.or_eq_false_iff, beq_eq_false_iff_ne] at h5
        refine ⟨h5.1, ?_⟩
        intro x hx
        rcases List.mem_cons.mp hx with h | h
        · subst h; exact h5.2.2
        · exact h6 x h
    | some m =>
      simp only []
      refine (ih (j + 1) (Sha256.rfc6979Generate rng 32).2
        (ret && !((Sc.setB32 (Bytes.xor (Sha256.rfc6979Generate rng 32).1 (getBlock m (i * 4 + j)))).2 ||
          (Sc.setB32 (Bytes.xor (Sha256.rfc6979Generate rng 32).1 (getBlock m (i * 4 + j)))).1 == 0))
        (s ++ [(Sc.setB32 (Bytes.xor (Sha256.rfc6979Generate rng 32).1 (getBlock m (i * 4 + j)))).1])
        (some (setBlock m (i * 4 + j) (Bytes.xor (Sha256.rfc6979Generate rng 32).1 (getBlock m (i * 4 + j)))))).elim ?_
      rintro news ⟨h1, h2, h3, h4⟩
      refine ⟨(Sc.setB32 (Bytes.xor (Sha256.rfc6979Generate rng 32).1 (getBlock m (i * 4 + j)))).1 :: news, by rw [h1]; simp, by simp [h2], ?_, ?_⟩
      · intro x hx
        rcases List.mem_cons.mp hx with h | h
        · subst h; exact Borromean.setB32_fst_lt _
        · exact h3 x h
      · intro hret
        obtain ⟨h5, h6⟩ := h4 hret
        simp only [Bool.and_eq_true, Bool.not_eq_true', Bool.or_eq_false_iff, beq_eq_false_iff_ne] at h5
        refine ⟨h5.1, ?_⟩
        intro x hx
        rcases List.mem_cons.mp hx with h | h
        · subst h; exact h5.2.2
        · exact h6 x h


/-- sum of scalars in `ZMod N` -/
def zsum (l : List Nat) : ZMod N := (l.map (fun x => ((x : Nat) : ZMod N))).sum

@[simp] theorem zsum_nil : zsum [] = 0 := rfl
@[simp] theorem zsum_cons (x : Nat) (l : List Nat) : zsum (x :: l) = (x : ZMod N) + zsum l := by simp [zsum]
@[simp] theorem zsum_append (a b : List Nat) : zsum (a ++ b) = zsum a + zsum b := by simp [zsum]

/-! Unfolding `genrandGo` on a non-empty list.  Lean's automatically generated equation lemma is unusable here (its
    generation tries to evaluate `genSec 64 …`, a closed-fuel loop around HMAC-SHA256 on symbolic bytes, and does not
    terminate in practice), and the kernel must never be asked to reduce a `match` whose scrutinee is `genSec 64 r`.  So the
    unfolding is stated with `genrandGo`'s own auxiliary matchers (proved by `rfl`, by syntactic identity), and the
    matchers are then turned into projections by rewriting with eta lemmas. -/

set_option linter.auxLemma false in
theorem genrandGo_cons_raw (rings rs : Nat) (rss : List Nat) (i : Nat) (rng : Sha256.Rfc6979) (acc : Nat) (ret : Bool)
    (sec s : List Nat) (msg : Option Bytes) :
    genrandGo rings (rs :: rss) i rng acc ret sec s msg =
      genrandGo.match_5 (fun _ => GenRand)
        (if i + 1 < rings then
          genSec.match_3 (fun _ => Nat × Sha256.Rfc6979 × Nat) (Sha256.rfc6979Generate rng 32) fun _ r0 =>
            genrandGo.match_1 (fun _ => Nat × Sha256.Rfc6979 × Nat) (genSec 64 r0) fun v r1 => (v, r1, Sc.add acc v)
        else (Sc.neg acc, rng, Sc.neg acc))
        fun seci rng1 acc1 =>
          genrandGo.match_3 (fun _ => GenRand) (genrandRing i rs 0 rng1 ret s msg)
            fun rng2 ret2 s2 msg2 => genrandGo rings rss (i + 1) rng2 acc1 ret2 (sec ++ [seci]) s2 msg2 := rfl

set_option linter.auxLemma false in
theorem m1_eta {α : Type} (x : Nat × Sha256.Rfc6979) (alt : Nat → Sha256.Rfc6979 → α) :
    genrandGo.match_1 (fun _ => α) x alt = alt x.1 x.2 := by
  obtain ⟨a, b⟩ := x; rfl

set_option linter.auxLemma false in
theorem gm3_eta {α : Type} (x : Bytes × Sha256.Rfc6979) (alt : Bytes → Sha256.Rfc6979 → α) :
    genSec.match_3 (fun _ => α) x alt = alt x.1 x.2 := by
  obtain ⟨a, b⟩ := x; rfl

set_option linter.auxLemma false in
/-- `genrandGo` on a non-empty list, not the last ring: a fresh blinding factor is drawn -/
theorem genrandGo_cons_lt (rings rs : Nat) (rss : List Nat) (i : Nat) (rng : Sha256.Rfc6979) (acc : Nat) (ret : Bool)
    (sec s : List Nat) (msg : Option Bytes) (h : i + 1 < rings) :
    genrandGo rings (rs :: rss) i rng acc ret sec s msg =
      genrandGo rings rss (i + 1)
        (genrandRing i rs 0 (genSec 64 (Sha256.rfc6979Generate rng 32).2).2 ret s msg).1
        (Sc.add acc (genSec 64 (Sha256.rfc6979Generate rng 32).2).1)
        (genrandRing i rs 0 (genSec 64 (Sha256.rfc6979Generate rng 32).2).2 ret s msg).2.1
        (sec ++ [(genSec 64 (Sha256.rfc6979Generate rng 32).2).1])
        (genrandRing i rs 0 (genSec 64 (Sha256.rfc6979Generate rng 32).2).2 ret s msg).2.2.1
        (genrandRing i rs 0 (genSec 64 (Sha256.rfc6979Generate rng 32).2).2 ret s msg).2.2.2 := by
  have hX : genSec.match_3 (fun _ => Nat × Sha256.Rfc6979 × Nat) (Sha256.rfc6979Generate rng 32)
      (fun _ r0 => genrandGo.match_1 (fun _ => Nat × Sha256.Rfc6979 × Nat) (genSec 64 r0)
        fun v r1 => (v, r1, Sc.add acc v)) =
      ((genSec 64 (Sha256.rfc6979Generate rng 32).2).1, (genSec 64 (Sha256.rfc6979Generate rng 32).2).2,
        Sc.add acc (genSec 64 (Sha256.rfc6979Generate rng 32).2).1) :=
    (gm3_eta (α := Nat × Sha256.Rfc6979 × Nat) (Sha256.rfc6979Generate rng 32)
      (fun _ r0 => genrandGo.match_1 (fun _ => Nat × Sha256.Rfc6979 × Nat) (genSec 64 r0)
        fun v r1 => (v, r1, Sc.add acc v))).trans
      (m1_eta (α := Nat × Sha256.Rfc6979 × Nat) (genSec 64 (Sha256.rfc6979Generate rng 32).2)
        (fun v r1 => (v, r1, Sc.add acc v)))
  rw [genrandGo_cons_raw, if_pos h, hX]

/-- `genrandGo` on the last ring: the blinding factor cancels the accumulated ones -/
theorem genrandGo_cons_last (rings rs : Nat) (rss : List Nat) (i : Nat) (rng : Sha256.Rfc6979) (acc : Nat) (ret : Bool)
    (sec s : List Nat) (msg : Option Bytes) (h : ¬ i + 1 < rings) :
    genrandGo rings (rs :: rss) i rng acc ret sec s msg =
      genrandGo rings rss (i + 1)
        (genrandRing i rs 0 rng ret s msg).1 (Sc.neg acc) (genrandRing i rs 0 rng ret s msg).2.1
        (sec ++ [Sc.neg acc]) (genrandRing i rs 0 rng ret s msg).2.2.1 (genrandRing i rs 0 rng ret s msg).2.2.2 := by
  rw [genrandGo_cons_raw, if_neg h]

theorem genrandGo_nil (rings i : Nat) (rng : Sha256.Rfc6979) (acc : Nat) (ret : Bool) (sec s : List Nat)
    (msg : Option Bytes) : genrandGo rings [] i rng acc ret sec s msg = ⟨ret, sec, s, msg⟩ := rfl

/-- `genrandGo`: one blinding factor per ring (they cancel the incoming accumulator), `Σ rsizes` forged scalars, all
    reduced; the flag stays true only if no forged scalar is zero. -/
theorem genrandGo_spec (rings : Nat) : ∀ (rsizes : List Nat) (i : Nat) (rng : Sha256.Rfc6979) (acc : Nat) (ret : Bool)
    (sec s : List Nat) (msg : Option Bytes), i + rsizes.length = rings →
    ∃ newsec news,
      (genrandGo rings rsizes i rng acc ret sec s msg).sec = sec ++ newsec ∧ newsec.length = rsizes.length ∧
      (∀ x ∈ newsec, x < N) ∧
      (genrandGo rings rsizes i rng acc ret sec s msg).s = s ++ news ∧ news.length = rsizes.sum ∧
      (∀ x ∈ news, x < N) ∧
      ((genrandGo rings rsizes i rng acc ret sec s msg).ret = true → ret = true ∧ ∀ x ∈ news, x ≠ 0) ∧
      (rsizes ≠ [] → (acc : ZMod N) + zsum newsec = 0) := by
  intro rsizes
  induction rsizes with
  | nil =>
    intro i rng acc ret sec s msg _
    exact ⟨[], [], by simp [genrandGo_nil], rfl, by simp, by simp [genrandGo_nil], rfl, by simp, by simp [genrandGo_nil],
      by simp⟩
  | cons rs rss ih =>
    intro i rng acc ret sec s msg hi
    simp only [List.length_cons] at hi
    by_cases hlast : i + 1 < rings
    · rw [genrandGo_cons_lt _ _ _ _ _ _ _ _ _ _ hlast]
      obtain ⟨nr, r1, r2, r3, r4⟩ := genrandRing_spec i rs 0 (genSec 64 (Sha256.rfc6979Generate rng 32).2).2 ret s msg
      obtain ⟨newsec, news, g1, g2, g3, g4, g5, g6, g7, g8⟩ := ih (i + 1)
        (genrandRing i rs 0 (genSec 64 (Sha256.rfc6979Generate rng 32).2).2 ret s msg).1
        (Sc.add acc (genSec 64 (Sha256.rfc6979Generate rng 32).2).1)
        (genrandRing i rs 0 (genSec 64 (Sha256.rfc6979Generate rng 32).2).2 ret s msg).2.1
        (sec ++ [(genSec 64 (Sha256.rfc6979Generate rng 32).2).1])
        (genrandRing i rs 0 (genSec 64 (Sha256.rfc6979Generate rng 32).2).2 ret s msg).2.2.1
        (genrandRing i rs 0 (genSec 64 (Sha256.rfc6979Generate rng 32).2).2 ret s msg).2.2.2 (by omega)
      have hne : rss ≠ [] := by intro h; subst h; simp at hi; omega
      refine ⟨(genSec 64 (Sha256.rfc6979Generate rng 32).2).1 :: newsec, nr ++ news, by rw [g1]; simp,
        by simp [g2], ?_, by rw [g4, r1]; simp, by simp [g5, r2], ?_, ?_, ?_⟩
      · intro x hx
        rcases List.mem_cons.mp hx with h | h
        · subst h; exact genSec_lt _ _
        · exact g3 x h
      · intro x hx
        rcases List.mem_append.mp hx with h | h
        · exact r3 x h
        · exact g6 x h
      · intro hret
        obtain ⟨h1, h2⟩ := g7 hret
        obtain ⟨h3, h4⟩ := r4 h1
        refine ⟨h3, ?_⟩
        intro x hx
        rcases List.mem_append.mp hx with h | h
        · exact h4 x h
        · exact h2 x h
      · intro _
        have := g8 hne
        rw [Algebra.cast_add] at this
        rw [zsum_cons, ← add_assoc]; exact this
    · rw [genrandGo_cons_last _ _ _ _ _ _ _ _ _ _ hlast]
      have hrss : rss = [] := by
        cases rss with
        | nil => rfl
        | cons _ _ => simp at hi; omega
      subst hrss
      obtain ⟨nr, r1, r2, r3, r4⟩ := genrandRing_spec i rs 0 rng ret s msg
      refine ⟨[Sc.neg acc], nr, by simp [genrandGo_nil], by simp, ?_, by simp [genrandGo_nil, r1], by simp [r2], r3, ?_, ?_⟩
      · intro x hx
        simp only [List.mem_singleton] at hx
        subst hx; exact Algebra.Sc.neg_lt _
      · intro hret
        simp only [genrandGo_nil] at hret
        exact r4 hret
      · intro _
        simp [Algebra.cast_neg]

/-- `genrand`: `rings` blinding factors summing to 0 mod `n`, `Σ rsizes` forged scalars, all `< n`, and — when it reports
    success — no forged scalar is zero. -/
theorem genrand_spec (message : Option Bytes) (rsizes : List Nat) (nonce : Bytes) (commit : Pt) (proof : Bytes) (genp : Pt) :
    (genrand message rsizes nonce commit proof genp).sec.length = rsizes.length ∧
    (∀ x ∈ (genrand message rsizes nonce commit proof genp).sec, x < N) ∧
    (genrand message rsizes nonce commit proof genp).s.length = rsizes.sum ∧
    (∀ x ∈ (genrand message rsizes nonce commit proof genp).s, x < N) ∧
    ((genrand message rsizes nonce commit proof genp).ret = true →
      ∀ x ∈ (genrand message rsizes nonce commit proof genp).s, x ≠ 0) ∧
    (rsizes ≠ [] → zsum (genrand message rsizes nonce commit proof genp).sec = 0) := by
  obtain ⟨newsec, news, g1, g2, g3, g4, g5, g6, g7, g8⟩ := genrandGo_spec rsizes.length rsizes 0
    (Sha256.rfc6979Init (nonce ++ serializePoint commit ++ serializePoint genp ++ proof)) 0 true [] [] message (by simp)
  unfold genrand
  simp only [List.nil_append] at g1 g4
  rw [g1, g4]
  refine ⟨g2, g3, g5, g6, fun h => (g7 h).2, fun h => by simpa using g8 h⟩


/-! ### `takeNonces` -/

theorem takeNonces_spec : ∀ (idxs : List Nat) (i : Nat) (s : List Nat), (∀ x ∈ s, x < N) →
    (takeNonces idxs i s).1.length = idxs.length ∧ (∀ x ∈ (takeNonces idxs i s).1, x < N) ∧
    (takeNonces idxs i s).2.length = s.length ∧ (∀ x ∈ (takeNonces idxs i s).2, x < N) ∧
    (∀ j, (∀ t, t < idxs.length → j ≠ (i + t) * 4 + idxs.getD t 0) → (takeNonces idxs i s).2[j]? = s[j]?) := by
  intro idxs
  induction idxs with
  | nil => intro i s hs; simp [takeNonces]; exact hs
  | cons idx rest ih =>
    intro i s hs
    have hs' : ∀ x ∈ s.set (i * 4 + idx) 0, x < N := by
      intro x hx
      rcases List.mem_or_eq_of_mem_set hx with h | h
      · exact hs x h
      · subst h; exact Algebra.N_pos
    obtain ⟨h1, h2, h3, h4, h5⟩ := ih (i + 1) (s.set (i * 4 + idx) 0) hs'
    have e : takeNonces (idx :: rest) i s =
        (s.getD (i * 4 + idx) 0 :: (takeNonces rest (i + 1) (s.set (i * 4 + idx) 0)).1,
          (takeNonces rest (i + 1) (s.set (i * 4 + idx) 0)).2) := by
      rw [takeNonces]
    rw [e]
    refine ⟨by simp [h1], ?_, by simpa using h3, h4, ?_⟩
    · intro x hx
      rcases List.mem_cons.mp hx with h | h
      · subst h
        rw [List.getD_eq_getElem?_getD]
        cases hg : s[i * 4 + idx]? with
        | none => exact Algebra.N_pos
        | some y => exact hs y (List.mem_of_getElem? hg)
      · exact h2 x h
    · intro j hj
      simp only []
      rw [h5 j (fun t ht => by
        have := hj (t + 1) (by simp; omega)
        simp only [List.getD_cons_succ] at this
        intro h; apply this; rw [h]; ring)]
      have h0 := hj 0 (by simp)
      simp only [Nat.add_zero, List.getD_cons_zero] at h0
      exact List.getElem?_set_ne (Ne.symm h0)

/-! ### what a successful `signImpl` did -/

/-- the 4096-byte side-channel buffer (`prep`) of `sign_impl`: the message, zero padded, with the value encoding in the
    last ring -/
def signPrep (pp : ProveParams) (message : Option Bytes) (msgLen : Nat) : Bytes :=
  let prep0 : Bytes := match message with
    | some m => m.take msgLen ++ Bytes.zeros (4096 - msgLen)
    | none => Bytes.zeros 4096
  let rsLast := pp.rsizes.getLastD 1
  if rsLast > 1 then
    let idx0 := rsLast - 1
    let idx1 := idx0 - (if pp.secidx.getLastD 0 = idx0 then 1 else 0)
    let blk := (pp.rings - 1) * 4 + idx1
    let v8 := Bytes.be8 pp.v
    setBlock prep0 blk ((128 : UInt8) :: Bytes.zeros 7 ++ v8 ++ v8 ++ v8)
  else prep0

/-- the deterministic randomness of `sign_impl` -/
def signRand (pp : ProveParams) (message : Option Bytes) (msgLen : Nat) (nonce : Bytes) (commit genp : Pt) : GenRand :=
  genrand (some (signPrep pp message msgLen)) pp.rsizes nonce commit (signHeader pp) genp

/-- the per-ring blinding factors of `sign_impl`: those of `genrand`, the last one shifted by the commitment's -/
def signSecs (gr : GenRand) (blind : Bytes) : List Nat :=
  gr.sec.dropLast ++ [Sc.add (gr.sec.getLastD 0) (Sc.setB32 blind).1]

/-- the ring key array (`pubs` after `secp256k1_rangeproof_pub_expand`) of `sign_impl` -/
def signRingKeys (pp : ProveParams) (gr : GenRand) (blind : Bytes) (genp : Pt) : List Pt :=
  pubExpand (digitPts pp.scale genp (signSecs gr blind) pp.secidx 0) pp.exp pp.rsizes genp

/-- `signImpl` with its `let`s named -/
theorem signImpl_eq (plen minValue : Nat) (commit : Pt) (blind nonce : Bytes) (exp minBits : Int) (value : Nat)
    (message : Option Bytes) (msgLen : Nat) (extra : Option Bytes) (genp : Pt) :
    signImpl plen minValue commit blind nonce exp minBits value message msgLen extra genp =
      if plen < 65 ∨ minValue > value ∨ minBits > 64 ∨ minBits < 0 ∨ exp < -1 ∨ exp > 18 then none else
      if !(signParams minValue value exp minBits).ret then none else
      if msgLen > 0 ∧ msgLen > 128 * ((signParams minValue value exp minBits).rings - 1) then none else
      if plen - (signHeader (signParams minValue value exp minBits)).length <
          32 * ((signParams minValue value exp minBits).npub + (signParams minValue value exp minBits).rings - 1) + 32 +
            (((signParams minValue value exp minBits).rings + 6) >>> 3) then none else
      if !(signRand (signParams minValue value exp minBits) message msgLen nonce commit genp).ret then none else
      if (Sc.setB32 blind).2 = true ∨
          Sc.add ((signRand (signParams minValue value exp minBits) message msgLen nonce commit genp).sec.getLastD 0)
            (Sc.setB32 blind).1 = 0 then none else
      signCore (signHeader (signParams minValue value exp minBits))
        (shaPrefix commit genp (signHeader (signParams minValue value exp minBits)))
        (signParams minValue value exp minBits).exp (signParams minValue value exp minBits).scale
        (signParams minValue value exp minBits).rsizes (signParams minValue value exp minBits).secidx
        (signSecs (signRand (signParams minValue value exp minBits) message msgLen nonce commit genp) blind)
        (takeNonces (signParams minValue value exp minBits).secidx 0
          (signRand (signParams minValue value exp minBits) message msgLen nonce commit genp).s).1
        (takeNonces (signParams minValue value exp minBits).secidx 0
          (signRand (signParams minValue value exp minBits) message msgLen nonce commit genp).s).2
        genp extra := by
  rfl

theorem signImpl_core (plen minValue : Nat) (commit : Pt) (blind nonce : Bytes) (exp minBits : Int) (value : Nat)
    (message : Option Bytes) (msgLen : Nat) (extra : Option Bytes) (genp : Pt) (proof : Bytes)
    (h : signImpl plen minValue commit blind nonce exp minBits value message msgLen extra genp = some proof) :
    (signRand (signParams minValue value exp minBits) message msgLen nonce commit genp).ret = true ∧
    (Sc.setB32 blind).2 = false ∧
    signCore (signHeader (signParams minValue value exp minBits))
      (shaPrefix commit genp (signHeader (signParams minValue value exp minBits)))
      (signParams minValue value exp minBits).exp (signParams minValue value exp minBits).scale
      (signParams minValue value exp minBits).rsizes (signParams minValue value exp minBits).secidx
      (signSecs (signRand (signParams minValue value exp minBits) message msgLen nonce commit genp) blind)
      (takeNonces (signParams minValue value exp minBits).secidx 0
        (signRand (signParams minValue value exp minBits) message msgLen nonce commit genp).s).1
      (takeNonces (signParams minValue value exp minBits).secidx 0
        (signRand (signParams minValue value exp minBits) message msgLen nonce commit genp).s).2
      genp extra = some proof := by
  rw [signImpl_eq] at h
  split at h
  · exact absurd h (by simp)
  split at h
  · exact absurd h (by simp)
  split at h
  · exact absurd h (by simp)
  split at h
  · exact absurd h (by simp)
  split at h
  · exact absurd h (by simp)
  rename_i hgr
  split at h
  · exact absurd h (by simp)
  rename_i hov
  refine ⟨by simpa using hgr, ?_, h⟩
  cases hb : (Sc.setB32 blind).2
  · rfl
  · exact absurd (Or.inl hb) hov


/-! ### the hypotheses of the ring-signature completeness theorem hold inside `sign_impl` -/

theorem digitsValue_ge : ∀ (l : List Nat) (i : Nat), l.getD i 0 * 4 ^ i ≤ digitsValue l := by
  intro l
  induction l with
  | nil => intro i; simp [digitsValue]
  | cons d ds ih =>
    intro i
    cases i with
    | zero => simp [digitsValue]
    | succ i =>
      have := ih i
      simp only [List.getD_cons_succ, digitsValue, Nat.pow_succ]
      calc ds.getD i 0 * (4 ^ i * 4) = 4 * (ds.getD i 0 * 4 ^ i) := by ring
        _ ≤ 4 * digitsValue ds := Nat.mul_le_mul_left 4 this
        _ ≤ d + 4 * digitsValue ds := Nat.le_add_left _ _

theorem digitValue_nowrap {d scale i : Nat} (h : d * scale * 4 ^ i < 2 ^ 64) :
    digitValue d scale i = d * scale * 4 ^ i := by
  have h4 : (4 : Nat) ^ i = 2 ^ (i * 2) := by rw [Nat.mul_comm, Nat.pow_mul]
  have h1 : d * scale < 2 ^ 64 := by
    have : 1 ≤ 4 ^ i := Nat.one_le_pow _ _ (by decide)
    calc d * scale = d * scale * 1 := by ring
      _ ≤ d * scale * 4 ^ i := Nat.mul_le_mul_left _ this
      _ < 2 ^ 64 := h
  unfold digitValue u64
  rw [Nat.mod_eq_of_lt h1, Nat.shiftLeft_eq, ← h4, Nat.mod_eq_of_lt h]

theorem getD_lt_of_zip {a b : List Nat} (hlen : a.length = b.length) (h : ∀ p ∈ List.zip a b, p.1 < p.2)
    (i : Nat) (hi : i < b.length) : a.getD i 0 < b.getD i 0 := by
  have ha : i < a.length := by omega
  have := h (a[i], b[i]) (by
    rw [List.mem_iff_getElem]
    exact ⟨i, by simp [ha, hi], by simp⟩)
  simpa [List.getD_eq_getElem?_getD, List.getElem?_eq_getElem ha, List.getElem?_eq_getElem hi] using this

/-- Inside a successful `sign_impl`, the data handed to the ring signer satisfies every hypothesis of
    `rangeproof_ring_complete_partial` except the one about infinite ring keys. -/
theorem sign_ring_hyps (minValue value : Nat) (exp minBits : Int) (pre : SignPre minValue value exp minBits)
    (hret : (signParams minValue value exp minBits).ret = true)
    (message : Option Bytes) (msgLen : Nat) (nonce blind : Bytes) (commit genp : Pt)
    (hgr : (signRand (signParams minValue value exp minBits) message msgLen nonce commit genp).ret = true) :
    let pp := signParams minValue value exp minBits
    let gr := signRand pp message msgLen nonce commit genp
    (∀ r ∈ pp.rsizes, 1 ≤ r) ∧ pp.secidx.length = pp.rsizes.length ∧
    (signSecs gr blind).length = pp.rsizes.length ∧
    (takeNonces pp.secidx 0 gr.s).1.length = pp.rsizes.length ∧
    pp.rsizes.sum ≤ (takeNonces pp.secidx 0 gr.s).2.length ∧
    (∀ x ∈ (takeNonces pp.secidx 0 gr.s).2, x < N) ∧
    (takeNonces pp.secidx 0 gr.s).2.length = pp.rsizes.sum ∧
    (∀ x ∈ signSecs gr blind, x < N) ∧
    zsum (signSecs gr blind) = ((Sc.setB32 blind).1 : ZMod N) ∧
    ∀ i, i < pp.rsizes.length →
      pp.secidx.getD i 0 < pp.rsizes.getD i 0 ∧ (signSecs gr blind).getD i 0 < N ∧
      (takeNonces pp.secidx 0 gr.s).1.getD i 0 < N ∧
      digitValue (pp.secidx.getD i 0) pp.scale i = pp.secidx.getD i 0 * pp.scale * 4 ^ i ∧
      ∀ j, j < pp.rsizes.getD i 0 → j ≠ pp.secidx.getD i 0 →
        (takeNonces pp.secidx 0 gr.s).2[Borromean.offset pp.rsizes i + j]? ≠ some 0 := by
  intro pp gr
  have ok : ParamsOK minValue value exp minBits pp := proveparams_ok 0 minValue value exp minBits pre hret
  obtain ⟨hlay1, hlay2⟩ := proveParams_layout minValue value exp minBits pre hret
  have hrs : ∀ r ∈ pp.rsizes, 1 ≤ r := by
    intro r hr; rw [show pp.rsizes = _ from hlay2.symm] at hr; exact layout_ge_one _ r hr
  have hrs4 : ∀ r ∈ pp.rsizes, r ≤ 4 := by
    intro r hr; rcases ok.rsizes_mem r hr with h | h | h <;> omega
  obtain ⟨g1, g2, g3, g4, g5, g6⟩ := genrand_spec (some (signPrep pp message msgLen)) pp.rsizes nonce commit
    (signHeader pp) genp
  have hgs : ∀ x ∈ gr.s, x < N := g4
  obtain ⟨t1, t2, t3, t4, t5⟩ := takeNonces_spec pp.secidx 0 gr.s hgs
  have hlen1 : pp.secidx.length = pp.rsizes.length := by rw [ok.secidx_len, ok.rsizes_len]
  have hrpos : 1 ≤ pp.rsizes.length := by rw [ok.rsizes_len]; exact ok.rings_pos
  have hseclen : (signSecs gr blind).length = pp.rsizes.length := by
    unfold signSecs
    have : gr.sec.length = pp.rsizes.length := g1
    simp; omega
  have hsecN : ∀ x ∈ signSecs gr blind, x < N := by
    intro x hx
    unfold signSecs at hx
    rcases List.mem_append.mp hx with h | h
    · exact g2 x (List.mem_of_mem_dropLast h)
    · simp only [List.mem_singleton] at h; subst h; exact Algebra.Sc.add_lt _ _
  have hgetN : ∀ (l : List Nat), (∀ x ∈ l, x < N) → ∀ i, l.getD i 0 < N := by
    intro l hl i
    rw [List.getD_eq_getElem?_getD]
    cases hg : l[i]? with
    | none => exact Algebra.N_pos
    | some y => exact hl y (List.mem_of_getElem? hg)
  have hzs : zsum (signSecs gr blind) = ((Sc.setB32 blind).1 : ZMod N) := by
    have hne : gr.sec ≠ [] := by
      intro h; have : gr.sec.length = pp.rsizes.length := g1; rw [h] at this; simp at this; omega
    have hrne : pp.rsizes ≠ [] := by intro h; rw [h] at hrpos; simp at hrpos
    have hz : zsum gr.sec = 0 := g6 hrne
    have hsplit : gr.sec = gr.sec.dropLast ++ [gr.sec.getLast hne] := (List.dropLast_append_getLast hne).symm
    have hgl : gr.sec.getLastD 0 = gr.sec.getLast hne := by
      rw [List.getLastD_eq_getLast?, List.getLast?_eq_some_getLast hne]; rfl
    unfold signSecs
    rw [hgl, zsum_append, zsum_cons, zsum_nil, Algebra.cast_add]
    rw [hsplit, zsum_append, zsum_cons, zsum_nil] at hz
    rw [add_zero] at hz ⊢
    rw [← add_assoc, hz, zero_add]
  refine ⟨hrs, hlen1, hseclen, by rw [t1, hlen1], by rw [t3]; exact le_of_eq g3.symm, t4, by rw [t3]; exact g3,
    hsecN, hzs, ?_⟩
  intro i hi
  have hdl : pp.secidx.getD i 0 < pp.rsizes.getD i 0 := getD_lt_of_zip hlen1 ok.digit_lt i hi
  have hr4 : pp.rsizes.getD i 0 ≤ 4 := by
    rw [List.getD_eq_getElem?_getD, List.getElem?_eq_getElem hi]
    exact hrs4 _ (List.getElem_mem hi)
  refine ⟨hdl, hgetN _ hsecN i, hgetN _ t2 i, ?_, ?_⟩
  · apply digitValue_nowrap
    have h1 := digitsValue_ge pp.secidx i
    rw [ok.digits] at h1
    have h2 := ok.value_eq
    have h3 := pre.value_lt
    calc pp.secidx.getD i 0 * pp.scale * 4 ^ i = (pp.secidx.getD i 0 * 4 ^ i) * pp.scale := by ring
      _ ≤ pp.v * pp.scale := Nat.mul_le_mul_right _ h1
      _ < 2 ^ 64 := by omega
  · intro j hj hne
    have hoff : Borromean.offset pp.rsizes i = 4 * i := by
      have hlay2' : (layout pp.mantissa).2.1 = pp.rsizes := hlay2
      have := layout_offset pp.mantissa i (by rw [hlay2']; exact hi)
      rw [hlay2'] at this; exact this
    rw [hoff, t5 (4 * i + j) (fun t ht heq => by
      have hdt : pp.secidx.getD t 0 < pp.rsizes.getD t 0 := getD_lt_of_zip hlen1 ok.digit_lt t (by omega)
      have hr4t : pp.rsizes.getD t 0 ≤ 4 := by
        have htl : t < pp.rsizes.length := by omega
        rw [List.getD_eq_getElem?_getD, List.getElem?_eq_getElem htl]
        exact hrs4 _ (List.getElem_mem htl)
      have : t = i := by omega
      subst this
      omega)]
    intro h0
    have hmem : (0 : Nat) ∈ gr.s := List.mem_of_getElem? h0
    exact g5 hgr 0 hmem rfl

end Rangeproof
end SecpZkp
