/-
  Helpers for `Props/C05_select.lean`: functional specifications of the branch-free primitives in
  `Gen/K_ct.lean` (5×52 field / 4×64 scalar) and `Gen/K_ct32.lean` (10×26 / 8×32), proved on the generated IR.

  * `Cells`, `and_ones64/32`, `inf_sel`, the `*_cmov_*_key` lemmas: the mask arithmetic of the conditional moves
    (`mask0 = flag + ~0`, `mask1 = ~mask0`, `r = (r & mask0) | (a & mask1)`), evaluated with `FieldLinear.runW`
  * `retW`, `isStraightRet`, `execL_ret_eq_retW`, `minic_evalRet`: the value returned by a straight-line program that
    ends with `return e` (a leak-free, structurally recursive copy of `(execL …).ret`)
  * scalar predicates (`is_zero`, `check_overflow`, `is_high`) and `cond_negate` of both layouts, executed statement
    by statement with `ScalarKernel.steps` / `vstep`; the arithmetic re-uses `check_overflow_spec(32)`,
    `negate_arith(32)`, `nonzero_mask32` and adds `is_high_spec32`, `cond_negate_arith(32)`
  * `fe_normalizes_to_zero` (both layouts): after the first carry pass the value `T` satisfies `T + x p = r` and
    `T < 2p`, so `r ≡ 0` iff `T = 0` (`z0 = 0`) or `T = p` (`z1` all-ones)
  * `fe_get_b32` (both layouts): every output cell as a bit field of the limbs.

  No axioms beyond propext / Classical.choice / Quot.sound.
-/
import SecpZkp.Proofs.FieldLinear
import SecpZkp.Proofs.FieldInv10
import SecpZkp.Proofs.ScalarKernel
import SecpZkp.Proofs.ScalarKernel32
import SecpZkp.Gen.K_ct
import SecpZkp.Gen.K_ct32

namespace SecpZkp
namespace CtSpec
open MiniC FieldLinear FieldKernel

set_option linter.unusedSimpArgs false
set_option linter.unusedVariables false

/-! ## 1. conditional moves -/

/-- the cells `a[0..n-1]` hold `w`-bit values -/
def Cells (env : Env) (a : String) (n w : Nat) : Prop := ∀ i, i < n → env.get a i < 2 ^ w

instance (env : Env) (a : String) (n w : Nat) : Decidable (Cells env a n w) := Nat.decidableBallLT _ _

theorem and_ones64 {x : Nat} (h : x < 18446744073709551616) : x &&& 18446744073709551615 = x := by
  have := Nat.and_two_pow_sub_one_eq_mod x 64
  simp only [Nat.reducePow, Nat.reduceSub] at this
  rw [this, Nat.mod_eq_of_lt h]

theorem and_ones32 {x : Nat} (h : x < 4294967296) : x &&& 4294967295 = x := by
  have := Nat.and_two_pow_sub_one_eq_mod x 32
  simp only [Nat.reducePow, Nat.reduceSub] at this
  rw [this, Nat.mod_eq_of_lt h]

/-- `r ^ ((r ^ a) & 1) = a` on 0/1 values (the `infinity` flag in `secp256k1_gej_cmov`) -/
theorem inf_sel (r a : Nat) (hr : r ≤ 1) (ha : a ≤ 1) : r ^^^ ((r ^^^ a) &&& 1) = a := by
  have h1 : r = 0 ∨ r = 1 := by omega
  have h2 : a = 0 ∨ a = 1 := by omega
  rcases h1 with rfl | rfl <;> rcases h2 with rfl | rfl <;> decide

set_option maxRecDepth 100000 in
/-- `secp256k1_fe_cmov` (5×52): every word of `r` becomes the word of `a` if `flag = 1` and stays if `flag = 0`; `a` is not written -/
theorem fe_cmov_5x52_key (env : Env) (hf : env.get "flag" 0 ≤ 1) (h0r : Cells env "r.n" 5 64) (h0a : Cells env "a.n" 5 64) :
    (runW env Gen.ct.fe_cmov.body).get "r.n" 0 = (if env.get "flag" 0 = 1 then env.get "a.n" 0 else env.get "r.n" 0) ∧
    (runW env Gen.ct.fe_cmov.body).get "r.n" 1 = (if env.get "flag" 0 = 1 then env.get "a.n" 1 else env.get "r.n" 1) ∧
    (runW env Gen.ct.fe_cmov.body).get "r.n" 2 = (if env.get "flag" 0 = 1 then env.get "a.n" 2 else env.get "r.n" 2) ∧
    (runW env Gen.ct.fe_cmov.body).get "r.n" 3 = (if env.get "flag" 0 = 1 then env.get "a.n" 3 else env.get "r.n" 3) ∧
    (runW env Gen.ct.fe_cmov.body).get "r.n" 4 = (if env.get "flag" 0 = 1 then env.get "a.n" 4 else env.get "r.n" 4) ∧
    (∀ i, (runW env Gen.ct.fe_cmov.body).get "a.n" i = env.get "a.n" i) := by
  have b0r0 := h0r 0 (by decide); have b0a0 := h0a 0 (by decide)
  have b0r1 := h0r 1 (by decide); have b0a1 := h0a 1 (by decide)
  have b0r2 := h0r 2 (by decide); have b0a2 := h0a 2 (by decide)
  have b0r3 := h0r 3 (by decide); have b0a3 := h0a 3 (by decide)
  have b0r4 := h0r 4 (by decide); have b0a4 := h0a 4 (by decide)
  simp only [Gen.ct.fe_cmov]
  minic_evalW
  simp only [Nat.reducePow] at b0r0 b0a0 b0r1 b0a1 b0r2 b0a2 b0r3 b0a3 b0r4 b0a4
  rcases (show env.get "flag" 0 = 0 ∨ env.get "flag" 0 = 1 by omega) with h | h
  · simp only [h, Nat.reducePow, Nat.reduceXor, Nat.reduceMod, Nat.reduceAdd, Nat.reduceSub, Nat.and_zero, Nat.or_zero,
      Nat.zero_or, Nat.xor_zero, Nat.zero_ne_one, if_true, if_false]
    simp (disch := assumption) only [and_ones64, and_self, implies_true]
  · simp only [h, Nat.reducePow, Nat.reduceXor, Nat.reduceMod, Nat.reduceAdd, Nat.reduceSub, Nat.and_zero, Nat.or_zero,
      Nat.zero_or, Nat.xor_zero, Nat.zero_ne_one, if_true, if_false]
    simp (disch := assumption) only [and_ones64, and_self, implies_true]

set_option maxRecDepth 100000 in
/-- `secp256k1_fe_cmov` (10×26): every word of `r` becomes the word of `a` if `flag = 1` and stays if `flag = 0`; `a` is not written -/
theorem fe_cmov_10x26_key (env : Env) (hf : env.get "flag" 0 ≤ 1) (h0r : Cells env "r.n" 10 32) (h0a : Cells env "a.n" 10 32) :
    (runW env Gen.ct32.fe_cmov.body).get "r.n" 0 = (if env.get "flag" 0 = 1 then env.get "a.n" 0 else env.get "r.n" 0) ∧
    (runW env Gen.ct32.fe_cmov.body).get "r.n" 1 = (if env.get "flag" 0 = 1 then env.get "a.n" 1 else env.get "r.n" 1) ∧
    (runW env Gen.ct32.fe_cmov.body).get "r.n" 2 = (if env.get "flag" 0 = 1 then env.get "a.n" 2 else env.get "r.n" 2) ∧
    (runW env Gen.ct32.fe_cmov.body).get "r.n" 3 = (if env.get "flag" 0 = 1 then env.get "a.n" 3 else env.get "r.n" 3) ∧
    (runW env Gen.ct32.fe_cmov.body).get "r.n" 4 = (if env.get "flag" 0 = 1 then env.get "a.n" 4 else env.get "r.n" 4) ∧
    (runW env Gen.ct32.fe_cmov.body).get "r.n" 5 = (if env.get "flag" 0 = 1 then env.get "a.n" 5 else env.get "r.n" 5) ∧
    (runW env Gen.ct32.fe_cmov.body).get "r.n" 6 = (if env.get "flag" 0 = 1 then env.get "a.n" 6 else env.get "r.n" 6) ∧
    (runW env Gen.ct32.fe_cmov.body).get "r.n" 7 = (if env.get "flag" 0 = 1 then env.get "a.n" 7 else env.get "r.n" 7) ∧
    (runW env Gen.ct32.fe_cmov.body).get "r.n" 8 = (if env.get "flag" 0 = 1 then env.get "a.n" 8 else env.get "r.n" 8) ∧
    (runW env Gen.ct32.fe_cmov.body).get "r.n" 9 = (if env.get "flag" 0 = 1 then env.get "a.n" 9 else env.get "r.n" 9) ∧
    (∀ i, (runW env Gen.ct32.fe_cmov.body).get "a.n" i = env.get "a.n" i) := by
  have b0r0 := h0r 0 (by decide); have b0a0 := h0a 0 (by decide)
  have b0r1 := h0r 1 (by decide); have b0a1 := h0a 1 (by decide)
  have b0r2 := h0r 2 (by decide); have b0a2 := h0a 2 (by decide)
  have b0r3 := h0r 3 (by decide); have b0a3 := h0a 3 (by decide)
  have b0r4 := h0r 4 (by decide); have b0a4 := h0a 4 (by decide)
  have b0r5 := h0r 5 (by decide); have b0a5 := h0a 5 (by decide)
  have b0r6 := h0r 6 (by decide); have b0a6 := h0a 6 (by decide)
  have b0r7 := h0r 7 (by decide); have b0a7 := h0a 7 (by decide)
  have b0r8 := h0r 8 (by decide); have b0a8 := h0a 8 (by decide)
  have b0r9 := h0r 9 (by decide); have b0a9 := h0a 9 (by decide)
  simp only [Gen.ct32.fe_cmov]
  minic_evalW
  simp only [Nat.reducePow] at b0r0 b0a0 b0r1 b0a1 b0r2 b0a2 b0r3 b0a3 b0r4 b0a4 b0r5 b0a5 b0r6 b0a6 b0r7 b0a7 b0r8 b0a8 b0r9 b0a9
  rcases (show env.get "flag" 0 = 0 ∨ env.get "flag" 0 = 1 by omega) with h | h
  · simp only [h, Nat.reducePow, Nat.reduceXor, Nat.reduceMod, Nat.reduceAdd, Nat.reduceSub, Nat.and_zero, Nat.or_zero,
      Nat.zero_or, Nat.xor_zero, Nat.zero_ne_one, if_true, if_false]
    simp (disch := assumption) only [and_ones32, and_self, implies_true]
  · simp only [h, Nat.reducePow, Nat.reduceXor, Nat.reduceMod, Nat.reduceAdd, Nat.reduceSub, Nat.and_zero, Nat.or_zero,
      Nat.zero_or, Nat.xor_zero, Nat.zero_ne_one, if_true, if_false]
    simp (disch := assumption) only [and_ones32, and_self, implies_true]

set_option maxRecDepth 100000 in
/-- `secp256k1_fe_storage_cmov` (4×64 storage words): every word of `r` becomes the word of `a` if `flag = 1` and stays if `flag = 0`; `a` is not written -/
theorem fe_storage_cmov_4x64_key (env : Env) (hf : env.get "flag" 0 ≤ 1) (h0r : Cells env "r.n" 4 64) (h0a : Cells env "a.n" 4 64) :
    (runW env Gen.ct.fe_storage_cmov.body).get "r.n" 0 = (if env.get "flag" 0 = 1 then env.get "a.n" 0 else env.get "r.n" 0) ∧
    (runW env Gen.ct.fe_storage_cmov.body).get "r.n" 1 = (if env.get "flag" 0 = 1 then env.get "a.n" 1 else env.get "r.n" 1) ∧
    (runW env Gen.ct.fe_storage_cmov.body).get "r.n" 2 = (if env.get "flag" 0 = 1 then env.get "a.n" 2 else env.get "r.n" 2) ∧
    (runW env Gen.ct.fe_storage_cmov.body).get "r.n" 3 = (if env.get "flag" 0 = 1 then env.get "a.n" 3 else env.get "r.n" 3) ∧
    (∀ i, (runW env Gen.ct.fe_storage_cmov.body).get "a.n" i = env.get "a.n" i) := by
  have b0r0 := h0r 0 (by decide); have b0a0 := h0a 0 (by decide)
  have b0r1 := h0r 1 (by decide); have b0a1 := h0a 1 (by decide)
  have b0r2 := h0r 2 (by decide); have b0a2 := h0a 2 (by decide)
  have b0r3 := h0r 3 (by decide); have b0a3 := h0a 3 (by decide)
  simp only [Gen.ct.fe_storage_cmov]
  minic_evalW
  simp only [Nat.reducePow] at b0r0 b0a0 b0r1 b0a1 b0r2 b0a2 b0r3 b0a3
  rcases (show env.get "flag" 0 = 0 ∨ env.get "flag" 0 = 1 by omega) with h | h
  · simp only [h, Nat.reducePow, Nat.reduceXor, Nat.reduceMod, Nat.reduceAdd, Nat.reduceSub, Nat.and_zero, Nat.or_zero,
      Nat.zero_or, Nat.xor_zero, Nat.zero_ne_one, if_true, if_false]
    simp (disch := assumption) only [and_ones64, and_self, implies_true]
  · simp only [h, Nat.reducePow, Nat.reduceXor, Nat.reduceMod, Nat.reduceAdd, Nat.reduceSub, Nat.and_zero, Nat.or_zero,
      Nat.zero_or, Nat.xor_zero, Nat.zero_ne_one, if_true, if_false]
    simp (disch := assumption) only [and_ones64, and_self, implies_true]

set_option maxRecDepth 100000 in
/-- `secp256k1_fe_storage_cmov` (8×32 storage words): every word of `r` becomes the word of `a` if `flag = 1` and stays if `flag = 0`; `a` is not written -/
theorem fe_storage_cmov_8x32_key (env : Env) (hf : env.get "flag" 0 ≤ 1) (h0r : Cells env "r.n" 8 32) (h0a : Cells env "a.n" 8 32) :
    (runW env Gen.ct32.fe_storage_cmov.body).get "r.n" 0 = (if env.get "flag" 0 = 1 then env.get "a.n" 0 else env.get "r.n" 0) ∧
    (runW env Gen.ct32.fe_storage_cmov.body).get "r.n" 1 = (if env.get "flag" 0 = 1 then env.get "a.n" 1 else env.get "r.n" 1) ∧
    (runW env Gen.ct32.fe_storage_cmov.body).get "r.n" 2 = (if env.get "flag" 0 = 1 then env.get "a.n" 2 else env.get "r.n" 2) ∧
    (runW env Gen.ct32.fe_storage_cmov.body).get "r.n" 3 = (if env.get "flag" 0 = 1 then env.get "a.n" 3 else env.get "r.n" 3) ∧
    (runW env Gen.ct32.fe_storage_cmov.body).get "r.n" 4 = (if env.get "flag" 0 = 1 then env.get "a.n" 4 else env.get "r.n" 4) ∧
    (runW env Gen.ct32.fe_storage_cmov.body).get "r.n" 5 = (if env.get "flag" 0 = 1 then env.get "a.n" 5 else env.get "r.n" 5) ∧
    (runW env Gen.ct32.fe_storage_cmov.body).get "r.n" 6 = (if env.get "flag" 0 = 1 then env.get "a.n" 6 else env.get "r.n" 6) ∧
    (runW env Gen.ct32.fe_storage_cmov.body).get "r.n" 7 = (if env.get "flag" 0 = 1 then env.get "a.n" 7 else env.get "r.n" 7) ∧
    (∀ i, (runW env Gen.ct32.fe_storage_cmov.body).get "a.n" i = env.get "a.n" i) := by
  have b0r0 := h0r 0 (by decide); have b0a0 := h0a 0 (by decide)
  have b0r1 := h0r 1 (by decide); have b0a1 := h0a 1 (by decide)
  have b0r2 := h0r 2 (by decide); have b0a2 := h0a 2 (by decide)
  have b0r3 := h0r 3 (by decide); have b0a3 := h0a 3 (by decide)
  have b0r4 := h0r 4 (by decide); have b0a4 := h0a 4 (by decide)
  have b0r5 := h0r 5 (by decide); have b0a5 := h0a 5 (by decide)
  have b0r6 := h0r 6 (by decide); have b0a6 := h0a 6 (by decide)
  have b0r7 := h0r 7 (by decide); have b0a7 := h0a 7 (by decide)
  simp only [Gen.ct32.fe_storage_cmov]
  minic_evalW
  simp only [Nat.reducePow] at b0r0 b0a0 b0r1 b0a1 b0r2 b0a2 b0r3 b0a3 b0r4 b0a4 b0r5 b0a5 b0r6 b0a6 b0r7 b0a7
  rcases (show env.get "flag" 0 = 0 ∨ env.get "flag" 0 = 1 by omega) with h | h
  · simp only [h, Nat.reducePow, Nat.reduceXor, Nat.reduceMod, Nat.reduceAdd, Nat.reduceSub, Nat.and_zero, Nat.or_zero,
      Nat.zero_or, Nat.xor_zero, Nat.zero_ne_one, if_true, if_false]
    simp (disch := assumption) only [and_ones32, and_self, implies_true]
  · simp only [h, Nat.reducePow, Nat.reduceXor, Nat.reduceMod, Nat.reduceAdd, Nat.reduceSub, Nat.and_zero, Nat.or_zero,
      Nat.zero_or, Nat.xor_zero, Nat.zero_ne_one, if_true, if_false]
    simp (disch := assumption) only [and_ones32, and_self, implies_true]

set_option maxRecDepth 100000 in
/-- `secp256k1_scalar_cmov` (4×64): every word of `r` becomes the word of `a` if `flag = 1` and stays if `flag = 0`; `a` is not written -/
theorem scalar_cmov_4x64_key (env : Env) (hf : env.get "flag" 0 ≤ 1) (h0r : Cells env "r.d" 4 64) (h0a : Cells env "a.d" 4 64) :
    (runW env Gen.ct.scalar_cmov.body).get "r.d" 0 = (if env.get "flag" 0 = 1 then env.get "a.d" 0 else env.get "r.d" 0) ∧
    (runW env Gen.ct.scalar_cmov.body).get "r.d" 1 = (if env.get "flag" 0 = 1 then env.get "a.d" 1 else env.get "r.d" 1) ∧
    (runW env Gen.ct.scalar_cmov.body).get "r.d" 2 = (if env.get "flag" 0 = 1 then env.get "a.d" 2 else env.get "r.d" 2) ∧
    (runW env Gen.ct.scalar_cmov.body).get "r.d" 3 = (if env.get "flag" 0 = 1 then env.get "a.d" 3 else env.get "r.d" 3) ∧
    (∀ i, (runW env Gen.ct.scalar_cmov.body).get "a.d" i = env.get "a.d" i) := by
  have b0r0 := h0r 0 (by decide); have b0a0 := h0a 0 (by decide)
  have b0r1 := h0r 1 (by decide); have b0a1 := h0a 1 (by decide)
  have b0r2 := h0r 2 (by decide); have b0a2 := h0a 2 (by decide)
  have b0r3 := h0r 3 (by decide); have b0a3 := h0a 3 (by decide)
  simp only [Gen.ct.scalar_cmov]
  minic_evalW
  simp only [Nat.reducePow] at b0r0 b0a0 b0r1 b0a1 b0r2 b0a2 b0r3 b0a3
  rcases (show env.get "flag" 0 = 0 ∨ env.get "flag" 0 = 1 by omega) with h | h
  · simp only [h, Nat.reducePow, Nat.reduceXor, Nat.reduceMod, Nat.reduceAdd, Nat.reduceSub, Nat.and_zero, Nat.or_zero,
      Nat.zero_or, Nat.xor_zero, Nat.zero_ne_one, if_true, if_false]
    simp (disch := assumption) only [and_ones64, and_self, implies_true]
  · simp only [h, Nat.reducePow, Nat.reduceXor, Nat.reduceMod, Nat.reduceAdd, Nat.reduceSub, Nat.and_zero, Nat.or_zero,
      Nat.zero_or, Nat.xor_zero, Nat.zero_ne_one, if_true, if_false]
    simp (disch := assumption) only [and_ones64, and_self, implies_true]

set_option maxRecDepth 100000 in
/-- `secp256k1_scalar_cmov` (8×32): every word of `r` becomes the word of `a` if `flag = 1` and stays if `flag = 0`; `a` is not written -/
theorem scalar_cmov_8x32_key (env : Env) (hf : env.get "flag" 0 ≤ 1) (h0r : Cells env "r.d" 8 32) (h0a : Cells env "a.d" 8 32) :
    (runW env Gen.ct32.scalar_cmov.body).get "r.d" 0 = (if env.get "flag" 0 = 1 then env.get "a.d" 0 else env.get "r.d" 0) ∧
    (runW env Gen.ct32.scalar_cmov.body).get "r.d" 1 = (if env.get "flag" 0 = 1 then env.get "a.d" 1 else env.get "r.d" 1) ∧
    (runW env Gen.ct32.scalar_cmov.body).get "r.d" 2 = (if env.get "flag" 0 = 1 then env.get "a.d" 2 else env.get "r.d" 2) ∧
    (runW env Gen.ct32.scalar_cmov.body).get "r.d" 3 = (if env.get "flag" 0 = 1 then env.get "a.d" 3 else env.get "r.d" 3) ∧
    (runW env Gen.ct32.scalar_cmov.body).get "r.d" 4 = (if env.get "flag" 0 = 1 then env.get "a.d" 4 else env.get "r.d" 4) ∧
    (runW env Gen.ct32.scalar_cmov.body).get "r.d" 5 = (if env.get "flag" 0 = 1 then env.get "a.d" 5 else env.get "r.d" 5) ∧
    (runW env Gen.ct32.scalar_cmov.body).get "r.d" 6 = (if env.get "flag" 0 = 1 then env.get "a.d" 6 else env.get "r.d" 6) ∧
    (runW env Gen.ct32.scalar_cmov.body).get "r.d" 7 = (if env.get "flag" 0 = 1 then env.get "a.d" 7 else env.get "r.d" 7) ∧
    (∀ i, (runW env Gen.ct32.scalar_cmov.body).get "a.d" i = env.get "a.d" i) := by
  have b0r0 := h0r 0 (by decide); have b0a0 := h0a 0 (by decide)
  have b0r1 := h0r 1 (by decide); have b0a1 := h0a 1 (by decide)
  have b0r2 := h0r 2 (by decide); have b0a2 := h0a 2 (by decide)
  have b0r3 := h0r 3 (by decide); have b0a3 := h0a 3 (by decide)
  have b0r4 := h0r 4 (by decide); have b0a4 := h0a 4 (by decide)
  have b0r5 := h0r 5 (by decide); have b0a5 := h0a 5 (by decide)
  have b0r6 := h0r 6 (by decide); have b0a6 := h0a 6 (by decide)
  have b0r7 := h0r 7 (by decide); have b0a7 := h0a 7 (by decide)
  simp only [Gen.ct32.scalar_cmov]
  minic_evalW
  simp only [Nat.reducePow] at b0r0 b0a0 b0r1 b0a1 b0r2 b0a2 b0r3 b0a3 b0r4 b0a4 b0r5 b0a5 b0r6 b0a6 b0r7 b0a7
  rcases (show env.get "flag" 0 = 0 ∨ env.get "flag" 0 = 1 by omega) with h | h
  · simp only [h, Nat.reducePow, Nat.reduceXor, Nat.reduceMod, Nat.reduceAdd, Nat.reduceSub, Nat.and_zero, Nat.or_zero,
      Nat.zero_or, Nat.xor_zero, Nat.zero_ne_one, if_true, if_false]
    simp (disch := assumption) only [and_ones32, and_self, implies_true]
  · simp only [h, Nat.reducePow, Nat.reduceXor, Nat.reduceMod, Nat.reduceAdd, Nat.reduceSub, Nat.and_zero, Nat.or_zero,
      Nat.zero_or, Nat.xor_zero, Nat.zero_ne_one, if_true, if_false]
    simp (disch := assumption) only [and_ones32, and_self, implies_true]

set_option maxRecDepth 100000 in
/-- `secp256k1_gej_cmov` (5×52): every word of `r` becomes the word of `a` if `flag = 1` and stays if `flag = 0`; `a` is not written -/
theorem gej_cmov_5x52_key (env : Env) (hf : env.get "flag" 0 ≤ 1) (h0r : Cells env "r.x.n" 5 64) (h0a : Cells env "a.x.n" 5 64) (h1r : Cells env "r.y.n" 5 64) (h1a : Cells env "a.y.n" 5 64) (h2r : Cells env "r.z.n" 5 64) (h2a : Cells env "a.z.n" 5 64) (hri : env.get "r.infinity" 0 ≤ 1) (hai : env.get "a.infinity" 0 ≤ 1) :
    (runW env Gen.ct.gej_cmov.body).get "r.x.n" 0 = (if env.get "flag" 0 = 1 then env.get "a.x.n" 0 else env.get "r.x.n" 0) ∧
    (runW env Gen.ct.gej_cmov.body).get "r.x.n" 1 = (if env.get "flag" 0 = 1 then env.get "a.x.n" 1 else env.get "r.x.n" 1) ∧
    (runW env Gen.ct.gej_cmov.body).get "r.x.n" 2 = (if env.get "flag" 0 = 1 then env.get "a.x.n" 2 else env.get "r.x.n" 2) ∧
    (runW env Gen.ct.gej_cmov.body).get "r.x.n" 3 = (if env.get "flag" 0 = 1 then env.get "a.x.n" 3 else env.get "r.x.n" 3) ∧
    (runW env Gen.ct.gej_cmov.body).get "r.x.n" 4 = (if env.get "flag" 0 = 1 then env.get "a.x.n" 4 else env.get "r.x.n" 4) ∧
    (runW env Gen.ct.gej_cmov.body).get "r.y.n" 0 = (if env.get "flag" 0 = 1 then env.get "a.y.n" 0 else env.get "r.y.n" 0) ∧
    (runW env Gen.ct.gej_cmov.body).get "r.y.n" 1 = (if env.get "flag" 0 = 1 then env.get "a.y.n" 1 else env.get "r.y.n" 1) ∧
    (runW env Gen.ct.gej_cmov.body).get "r.y.n" 2 = (if env.get "flag" 0 = 1 then env.get "a.y.n" 2 else env.get "r.y.n" 2) ∧
    (runW env Gen.ct.gej_cmov.body).get "r.y.n" 3 = (if env.get "flag" 0 = 1 then env.get "a.y.n" 3 else env.get "r.y.n" 3) ∧
    (runW env Gen.ct.gej_cmov.body).get "r.y.n" 4 = (if env.get "flag" 0 = 1 then env.get "a.y.n" 4 else env.get "r.y.n" 4) ∧
    (runW env Gen.ct.gej_cmov.body).get "r.z.n" 0 = (if env.get "flag" 0 = 1 then env.get "a.z.n" 0 else env.get "r.z.n" 0) ∧
    (runW env Gen.ct.gej_cmov.body).get "r.z.n" 1 = (if env.get "flag" 0 = 1 then env.get "a.z.n" 1 else env.get "r.z.n" 1) ∧
    (runW env Gen.ct.gej_cmov.body).get "r.z.n" 2 = (if env.get "flag" 0 = 1 then env.get "a.z.n" 2 else env.get "r.z.n" 2) ∧
    (runW env Gen.ct.gej_cmov.body).get "r.z.n" 3 = (if env.get "flag" 0 = 1 then env.get "a.z.n" 3 else env.get "r.z.n" 3) ∧
    (runW env Gen.ct.gej_cmov.body).get "r.z.n" 4 = (if env.get "flag" 0 = 1 then env.get "a.z.n" 4 else env.get "r.z.n" 4) ∧
    (runW env Gen.ct.gej_cmov.body).get "r.infinity" 0 = (if env.get "flag" 0 = 1 then env.get "a.infinity" 0 else env.get "r.infinity" 0) ∧
    (∀ i, (runW env Gen.ct.gej_cmov.body).get "a.x.n" i = env.get "a.x.n" i) ∧
    (∀ i, (runW env Gen.ct.gej_cmov.body).get "a.y.n" i = env.get "a.y.n" i) ∧
    (∀ i, (runW env Gen.ct.gej_cmov.body).get "a.z.n" i = env.get "a.z.n" i) := by
  have b0r0 := h0r 0 (by decide); have b0a0 := h0a 0 (by decide)
  have b0r1 := h0r 1 (by decide); have b0a1 := h0a 1 (by decide)
  have b0r2 := h0r 2 (by decide); have b0a2 := h0a 2 (by decide)
  have b0r3 := h0r 3 (by decide); have b0a3 := h0a 3 (by decide)
  have b0r4 := h0r 4 (by decide); have b0a4 := h0a 4 (by decide)
  have b1r0 := h1r 0 (by decide); have b1a0 := h1a 0 (by decide)
  have b1r1 := h1r 1 (by decide); have b1a1 := h1a 1 (by decide)
  have b1r2 := h1r 2 (by decide); have b1a2 := h1a 2 (by decide)
  have b1r3 := h1r 3 (by decide); have b1a3 := h1a 3 (by decide)
  have b1r4 := h1r 4 (by decide); have b1a4 := h1a 4 (by decide)
  have b2r0 := h2r 0 (by decide); have b2a0 := h2a 0 (by decide)
  have b2r1 := h2r 1 (by decide); have b2a1 := h2a 1 (by decide)
  have b2r2 := h2r 2 (by decide); have b2a2 := h2a 2 (by decide)
  have b2r3 := h2r 3 (by decide); have b2a3 := h2a 3 (by decide)
  have b2r4 := h2r 4 (by decide); have b2a4 := h2a 4 (by decide)
  simp only [Gen.ct.gej_cmov]
  minic_evalW
  simp only [Nat.reducePow] at b0r0 b0a0 b0r1 b0a1 b0r2 b0a2 b0r3 b0a3 b0r4 b0a4 b1r0 b1a0 b1r1 b1a1 b1r2 b1a2 b1r3 b1a3 b1r4 b1a4 b2r0 b2a0 b2r1 b2a1 b2r2 b2a2 b2r3 b2a3 b2r4 b2a4
  rcases (show env.get "flag" 0 = 0 ∨ env.get "flag" 0 = 1 by omega) with h | h
  · simp only [h, Nat.reducePow, Nat.reduceXor, Nat.reduceMod, Nat.reduceAdd, Nat.reduceSub, Nat.and_zero, Nat.or_zero,
      Nat.zero_or, Nat.xor_zero, Nat.zero_ne_one, if_true, if_false, inf_sel _ _ hri hai]
    simp (disch := assumption) only [and_ones64, and_self, implies_true]
  · simp only [h, Nat.reducePow, Nat.reduceXor, Nat.reduceMod, Nat.reduceAdd, Nat.reduceSub, Nat.and_zero, Nat.or_zero,
      Nat.zero_or, Nat.xor_zero, Nat.zero_ne_one, if_true, if_false, inf_sel _ _ hri hai]
    simp (disch := assumption) only [and_ones64, and_self, implies_true]

set_option maxRecDepth 100000 in
/-- `secp256k1_gej_cmov` (10×26): every word of `r` becomes the word of `a` if `flag = 1` and stays if `flag = 0`; `a` is not written -/
theorem gej_cmov_10x26_key (env : Env) (hf : env.get "flag" 0 ≤ 1) (h0r : Cells env "r.x.n" 10 32) (h0a : Cells env "a.x.n" 10 32) (h1r : Cells env "r.y.n" 10 32) (h1a : Cells env "a.y.n" 10 32) (h2r : Cells env "r.z.n" 10 32) (h2a : Cells env "a.z.n" 10 32) (hri : env.get "r.infinity" 0 ≤ 1) (hai : env.get "a.infinity" 0 ≤ 1) :
    (runW env Gen.ct32.gej_cmov.body).get "r.x.n" 0 = (if env.get "flag" 0 = 1 then env.get "a.x.n" 0 else env.get "r.x.n" 0) ∧
    (runW env Gen.ct32.gej_cmov.body).get "r.x.n" 1 = (if env.get "flag" 0 = 1 then env.get "a.x.n" 1 else env.get "r.x.n" 1) ∧
    (runW env Gen.ct32.gej_cmov.body).get "r.x.n" 2 = (if env.get "flag" 0 = 1 then env.get "a.x.n" 2 else env.get "r.x.n" 2) ∧
    (runW env Gen.ct32.gej_cmov.body).get "r.x.n" 3 = (if env.get "flag" 0 = 1 then env.get "a.x.n" 3 else env.get "r.x.n" 3) ∧
    (runW env Gen.ct32.gej_cmov.body).get "r.x.n" 4 = (if env.get "flag" 0 = 1 then env.get "a.x.n" 4 else env.get "r.x.n" 4) ∧
    (runW env Gen.ct32.gej_cmov.body).get "r.x.n" 5 = (if env.get "flag" 0 = 1 then env.get "a.x.n" 5 else env.get "r.x.n" 5) ∧
    (runW env Gen.ct32.gej_cmov.body).get "r.x.n" 6 = (if env.get "flag" 0 = 1 then env.get "a.x.n" 6 else env.get "r.x.n" 6) ∧
    (runW env Gen.ct32.gej_cmov.body).get "r.x.n" 7 = (if env.get "flag" 0 = 1 then env.get "a.x.n" 7 else env.get "r.x.n" 7) ∧
    (runW env Gen.ct32.gej_cmov.body).get "r.x.n" 8 = (if env.get "flag" 0 = 1 then env.get "a.x.n" 8 else env.get "r.x.n" 8) ∧
    (runW env Gen.ct32.gej_cmov.body).get "r.x.n" 9 = (if env.get "flag" 0 = 1 then env.get "a.x.n" 9 else env.get "r.x.n" 9) ∧
    (runW env Gen.ct32.gej_cmov.body).get "r.y.n" 0 = (if env.get "flag" 0 = 1 then env.get "a.y.n" 0 else env.get "r.y.n" 0) ∧
    (runW env Gen.ct32.gej_cmov.body).get "r.y.n" 1 = (if env.get "flag" 0 = 1 then env.get "a.y.n" 1 else env.get "r.y.n" 1) ∧
    (runW env Gen.ct32.gej_cmov.body).get "r.y.n" 2 = (if env.get "flag" 0 = 1 then env.get "a.y.n" 2 else env.get "r.y.n" 2) ∧
    (runW env Gen.ct32.gej_cmov.body).get "r.y.n" 3 = (if env.get "flag" 0 = 1 then env.get "a.y.n" 3 else env.get "r.y.n" 3) ∧
    (runW env Gen.ct32.gej_cmov.body).get "r.y.n" 4 = (if env.get "flag" 0 = 1 then env.get "a.y.n" 4 else env.get "r.y.n" 4) ∧
    (runW env Gen.ct32.gej_cmov.body).get "r.y.n" 5 = (if env.get "flag" 0 = 1 then env.get "a.y.n" 5 else env.get "r.y.n" 5) ∧
    (runW env Gen.ct32.gej_cmov.body).get "r.y.n" 6 = (if env.get "flag" 0 = 1 then env.get "a.y.n" 6 else env.get "r.y.n" 6) ∧
    (runW env Gen.ct32.gej_cmov.body).get "r.y.n" 7 = (if env.get "flag" 0 = 1 then env.get "a.y.n" 7 else env.get "r.y.n" 7) ∧
    (runW env Gen.ct32.gej_cmov.body).get "r.y.n" 8 = (if env.get "flag" 0 = 1 then env.get "a.y.n" 8 else env.get "r.y.n" 8) ∧
    (runW env Gen.ct32.gej_cmov.body).get "r.y.n" 9 = (if env.get "flag" 0 = 1 then env.get "a.y.n" 9 else env.get "r.y.n" 9) ∧
    (runW env Gen.ct32.gej_cmov.body).get "r.z.n" 0 = (if env.get "flag" 0 = 1 then env.get "a.z.n" 0 else env.get "r.z.n" 0) ∧
    (runW env Gen.ct32.gej_cmov.body).get "r.z.n" 1 = (if env.get "flag" 0 = 1 then env.get "a.z.n" 1 else env.get "r.z.n" 1) ∧
    (runW env Gen.ct32.gej_cmov.body).get "r.z.n" 2 = (if env.get "flag" 0 = 1 then env.get "a.z.n" 2 else env.get "r.z.n" 2) ∧
    (runW env Gen.ct32.gej_cmov.body).get "r.z.n" 3 = (if env.get "flag" 0 = 1 then env.get "a.z.n" 3 else env.get "r.z.n" 3) ∧
    (runW env Gen.ct32.gej_cmov.body).get "r.z.n" 4 = (if env.get "flag" 0 = 1 then env.get "a.z.n" 4 else env.get "r.z.n" 4) ∧
    (runW env Gen.ct32.gej_cmov.body).get "r.z.n" 5 = (if env.get "flag" 0 = 1 then env.get "a.z.n" 5 else env.get "r.z.n" 5) ∧
    (runW env Gen.ct32.gej_cmov.body).get "r.z.n" 6 = (if env.get "flag" 0 = 1 then env.get "a.z.n" 6 else env.get "r.z.n" 6) ∧
    (runW env Gen.ct32.gej_cmov.body).get "r.z.n" 7 = (if env.get "flag" 0 = 1 then env.get "a.z.n" 7 else env.get "r.z.n" 7) ∧
    (runW env Gen.ct32.gej_cmov.body).get "r.z.n" 8 = (if env.get "flag" 0 = 1 then env.get "a.z.n" 8 else env.get "r.z.n" 8) ∧
    (runW env Gen.ct32.gej_cmov.body).get "r.z.n" 9 = (if env.get "flag" 0 = 1 then env.get "a.z.n" 9 else env.get "r.z.n" 9) ∧
    (runW env Gen.ct32.gej_cmov.body).get "r.infinity" 0 = (if env.get "flag" 0 = 1 then env.get "a.infinity" 0 else env.get "r.infinity" 0) ∧
    (∀ i, (runW env Gen.ct32.gej_cmov.body).get "a.x.n" i = env.get "a.x.n" i) ∧
    (∀ i, (runW env Gen.ct32.gej_cmov.body).get "a.y.n" i = env.get "a.y.n" i) ∧
    (∀ i, (runW env Gen.ct32.gej_cmov.body).get "a.z.n" i = env.get "a.z.n" i) := by
  have b0r0 := h0r 0 (by decide); have b0a0 := h0a 0 (by decide)
  have b0r1 := h0r 1 (by decide); have b0a1 := h0a 1 (by decide)
  have b0r2 := h0r 2 (by decide); have b0a2 := h0a 2 (by decide)
  have b0r3 := h0r 3 (by decide); have b0a3 := h0a 3 (by decide)
  have b0r4 := h0r 4 (by decide); have b0a4 := h0a 4 (by decide)
  have b0r5 := h0r 5 (by decide); have b0a5 := h0a 5 (by decide)
  have b0r6 := h0r 6 (by decide); have b0a6 := h0a 6 (by decide)
  have b0r7 := h0r 7 (by decide); have b0a7 := h0a 7 (by decide)
  have b0r8 := h0r 8 (by decide); have b0a8 := h0a 8 (by decide)
  have b0r9 := h0r 9 (by decide); have b0a9 := h0a 9 (by decide)
  have b1r0 := h1r 0 (by decide); have b1a0 := h1a 0 (by decide)
  have b1r1 := h1r 1 (by decide); have b1a1 := h1a 1 (by decide)
  have b1r2 := h1r 2 (by decide); have b1a2 := h1a 2 (by decide)
  have b1r3 := h1r 3 (by decide); have b1a3 := h1a 3 (by decide)
  have b1r4 := h1r 4 (by decide); have b1a4 := h1a 4 (by decide)
  have b1r5 := h1r 5 (by decide); have b1a5 := h1a 5 (by decide)
  have b1r6 := h1r 6 (by decide); have b1a6 := h1a 6 (by decide)
  have b1r7 := h1r 7 (by decide); have b1a7 := h1a 7 (by decide)
  have b1r8 := h1r 8 (by decide); have b1a8 := h1a 8 (by decide)
  have b1r9 := h1r 9 (by decide); have b1a9 := h1a 9 (by decide)
  have b2r0 := h2r 0 (by decide); have b2a0 := h2a 0 (by decide)
  have b2r1 := h2r 1 (by decide); have b2a1 := h2a 1 (by decide)
  have b2r2 := h2r 2 (by decide); have b2a2 := h2a 2 (by decide)
  have b2r3 := h2r 3 (by decide); have b2a3 := h2a 3 (by decide)
  have b2r4 := h2r 4 (by decide); have b2a4 := h2a 4 (by decide)
  have b2r5 := h2r 5 (by decide); have b2a5 := h2a 5 (by decide)
  have b2r6 := h2r 6 (by decide); have b2a6 := h2a 6 (by decide)
  have b2r7 := h2r 7 (by decide); have b2a7 := h2a 7 (by decide)
  have b2r8 := h2r 8 (by decide); have b2a8 := h2a 8 (by decide)
  have b2r9 := h2r 9 (by decide); have b2a9 := h2a 9 (by decide)
  simp only [Gen.ct32.gej_cmov]
  minic_evalW
  simp only [Nat.reducePow] at b0r0 b0a0 b0r1 b0a1 b0r2 b0a2 b0r3 b0a3 b0r4 b0a4 b0r5 b0a5 b0r6 b0a6 b0r7 b0a7 b0r8 b0a8 b0r9 b0a9 b1r0 b1a0 b1r1 b1a1 b1r2 b1a2 b1r3 b1a3 b1r4 b1a4 b1r5 b1a5 b1r6 b1a6 b1r7 b1a7 b1r8 b1a8 b1r9 b1a9 b2r0 b2a0 b2r1 b2a1 b2r2 b2a2 b2r3 b2a3 b2r4 b2a4 b2r5 b2a5 b2r6 b2a6 b2r7 b2a7 b2r8 b2a8 b2r9 b2a9
  rcases (show env.get "flag" 0 = 0 ∨ env.get "flag" 0 = 1 by omega) with h | h
  · simp only [h, Nat.reducePow, Nat.reduceXor, Nat.reduceMod, Nat.reduceAdd, Nat.reduceSub, Nat.and_zero, Nat.or_zero,
      Nat.zero_or, Nat.xor_zero, Nat.zero_ne_one, if_true, if_false, inf_sel _ _ hri hai]
    simp (disch := assumption) only [and_ones32, and_self, implies_true]
  · simp only [h, Nat.reducePow, Nat.reduceXor, Nat.reduceMod, Nat.reduceAdd, Nat.reduceSub, Nat.and_zero, Nat.or_zero,
      Nat.zero_or, Nat.xor_zero, Nat.zero_ne_one, if_true, if_false, inf_sel _ _ hri hai]
    simp (disch := assumption) only [and_ones32, and_self, implies_true]

set_option maxRecDepth 100000 in
/-- `secp256k1_ge_storage_cmov` (4×64 storage words): every word of `r` becomes the word of `a` if `flag = 1` and stays if `flag = 0`; `a` is not written -/
theorem ge_storage_cmov_4x64_key (env : Env) (hf : env.get "flag" 0 ≤ 1) (h0r : Cells env "r.x.n" 4 64) (h0a : Cells env "a.x.n" 4 64) (h1r : Cells env "r.y.n" 4 64) (h1a : Cells env "a.y.n" 4 64) :
    (runW env Gen.ct.ge_storage_cmov.body).get "r.x.n" 0 = (if env.get "flag" 0 = 1 then env.get "a.x.n" 0 else env.get "r.x.n" 0) ∧
    (runW env Gen.ct.ge_storage_cmov.body).get "r.x.n" 1 = (if env.get "flag" 0 = 1 then env.get "a.x.n" 1 else env.get "r.x.n" 1) ∧
    (runW env Gen.ct.ge_storage_cmov.body).get "r.x.n" 2 = (if env.get "flag" 0 = 1 then env.get "a.x.n" 2 else env.get "r.x.n" 2) ∧
    (runW env Gen.ct.ge_storage_cmov.body).get "r.x.n" 3 = (if env.get "flag" 0 = 1 then env.get "a.x.n" 3 else env.get "r.x.n" 3) ∧
    (runW env Gen.ct.ge_storage_cmov.body).get "r.y.n" 0 = (if env.get "flag" 0 = 1 then env.get "a.y.n" 0 else env.get "r.y.n" 0) ∧
    (runW env Gen.ct.ge_storage_cmov.body).get "r.y.n" 1 = (if env.get "flag" 0 = 1 then env.get "a.y.n" 1 else env.get "r.y.n" 1) ∧
    (runW env Gen.ct.ge_storage_cmov.body).get "r.y.n" 2 = (if env.get "flag" 0 = 1 then env.get "a.y.n" 2 else env.get "r.y.n" 2) ∧
    (runW env Gen.ct.ge_storage_cmov.body).get "r.y.n" 3 = (if env.get "flag" 0 = 1 then env.get "a.y.n" 3 else env.get "r.y.n" 3) ∧
    (∀ i, (runW env Gen.ct.ge_storage_cmov.body).get "a.x.n" i = env.get "a.x.n" i) ∧
    (∀ i, (runW env Gen.ct.ge_storage_cmov.body).get "a.y.n" i = env.get "a.y.n" i) := by
  have b0r0 := h0r 0 (by decide); have b0a0 := h0a 0 (by decide)
  have b0r1 := h0r 1 (by decide); have b0a1 := h0a 1 (by decide)
  have b0r2 := h0r 2 (by decide); have b0a2 := h0a 2 (by decide)
  have b0r3 := h0r 3 (by decide); have b0a3 := h0a 3 (by decide)
  have b1r0 := h1r 0 (by decide); have b1a0 := h1a 0 (by decide)
  have b1r1 := h1r 1 (by decide); have b1a1 := h1a 1 (by decide)
  have b1r2 := h1r 2 (by decide); have b1a2 := h1a 2 (by decide)
  have b1r3 := h1r 3 (by decide); have b1a3 := h1a 3 (by decide)
  simp only [Gen.ct.ge_storage_cmov]
  minic_evalW
  simp only [Nat.reducePow] at b0r0 b0a0 b0r1 b0a1 b0r2 b0a2 b0r3 b0a3 b1r0 b1a0 b1r1 b1a1 b1r2 b1a2 b1r3 b1a3
  rcases (show env.get "flag" 0 = 0 ∨ env.get "flag" 0 = 1 by omega) with h | h
  · simp only [h, Nat.reducePow, Nat.reduceXor, Nat.reduceMod, Nat.reduceAdd, Nat.reduceSub, Nat.and_zero, Nat.or_zero,
      Nat.zero_or, Nat.xor_zero, Nat.zero_ne_one, if_true, if_false]
    simp (disch := assumption) only [and_ones64, and_self, implies_true]
  · simp only [h, Nat.reducePow, Nat.reduceXor, Nat.reduceMod, Nat.reduceAdd, Nat.reduceSub, Nat.and_zero, Nat.or_zero,
      Nat.zero_or, Nat.xor_zero, Nat.zero_ne_one, if_true, if_false]
    simp (disch := assumption) only [and_ones64, and_self, implies_true]

set_option maxRecDepth 100000 in
/-- `secp256k1_ge_storage_cmov` (8×32 storage words): every word of `r` becomes the word of `a` if `flag = 1` and stays if `flag = 0`; `a` is not written -/
theorem ge_storage_cmov_8x32_key (env : Env) (hf : env.get "flag" 0 ≤ 1) (h0r : Cells env "r.x.n" 8 32) (h0a : Cells env "a.x.n" 8 32) (h1r : Cells env "r.y.n" 8 32) (h1a : Cells env "a.y.n" 8 32) :
    (runW env Gen.ct32.ge_storage_cmov.body).get "r.x.n" 0 = (if env.get "flag" 0 = 1 then env.get "a.x.n" 0 else env.get "r.x.n" 0) ∧
    (runW env Gen.ct32.ge_storage_cmov.body).get "r.x.n" 1 = (if env.get "flag" 0 = 1 then env.get "a.x.n" 1 else env.get "r.x.n" 1) ∧
    (runW env Gen.ct32.ge_storage_cmov.body).get "r.x.n" 2 = (if env.get "flag" 0 = 1 then env.get "a.x.n" 2 else env.get "r.x.n" 2) ∧
    (runW env Gen.ct32.ge_storage_cmov.body).get "r.x.n" 3 = (if env.get "flag" 0 = 1 then env.get "a.x.n" 3 else env.get "r.x.n" 3) ∧
    (runW env Gen.ct32.ge_storage_cmov.body).get "r.x.n" 4 = (if env.get "flag" 0 = 1 then env.get "a.x.n" 4 else env.get "r.x.n" 4) ∧
    (runW env Gen.ct32.ge_storage_cmov.body).get "r.x.n" 5 = (if env.get "flag" 0 = 1 then env.get "a.x.n" 5 else env.get "r.x.n" 5) ∧
    (runW env Gen.ct32.ge_storage_cmov.body).get "r.x.n" 6 = (if env.get "flag" 0 = 1 then env.get "a.x.n" 6 else env.get "r.x.n" 6) ∧
    (runW env Gen.ct32.ge_storage_cmov.body).get "r.x.n" 7 = (if env.get "flag" 0 = 1 then env.get "a.x.n" 7 else env.get "r.x.n" 7) ∧
    (runW env Gen.ct32.ge_storage_cmov.body).get "r.y.n" 0 = (if env.get "flag" 0 = 1 then env.get "a.y.n" 0 else env.get "r.y.n" 0) ∧
    (runW env Gen.ct32.ge_storage_cmov.body).get "r.y.n" 1 = (if env.get "flag" 0 = 1 then env.get "a.y.n" 1 else env.get "r.y.n" 1) ∧
    (runW env Gen.ct32.ge_storage_cmov.body).get "r.y.n" 2 = (if env.get "flag" 0 = 1 then env.get "a.y.n" 2 else env.get "r.y.n" 2) ∧
    (runW env Gen.ct32.ge_storage_cmov.body).get "r.y.n" 3 = (if env.get "flag" 0 = 1 then env.get "a.y.n" 3 else env.get "r.y.n" 3) ∧
    (runW env Gen.ct32.ge_storage_cmov.body).get "r.y.n" 4 = (if env.get "flag" 0 = 1 then env.get "a.y.n" 4 else env.get "r.y.n" 4) ∧
    (runW env Gen.ct32.ge_storage_cmov.body).get "r.y.n" 5 = (if env.get "flag" 0 = 1 then env.get "a.y.n" 5 else env.get "r.y.n" 5) ∧
    (runW env Gen.ct32.ge_storage_cmov.body).get "r.y.n" 6 = (if env.get "flag" 0 = 1 then env.get "a.y.n" 6 else env.get "r.y.n" 6) ∧
    (runW env Gen.ct32.ge_storage_cmov.body).get "r.y.n" 7 = (if env.get "flag" 0 = 1 then env.get "a.y.n" 7 else env.get "r.y.n" 7) ∧
    (∀ i, (runW env Gen.ct32.ge_storage_cmov.body).get "a.x.n" i = env.get "a.x.n" i) ∧
    (∀ i, (runW env Gen.ct32.ge_storage_cmov.body).get "a.y.n" i = env.get "a.y.n" i) := by
  have b0r0 := h0r 0 (by decide); have b0a0 := h0a 0 (by decide)
  have b0r1 := h0r 1 (by decide); have b0a1 := h0a 1 (by decide)
  have b0r2 := h0r 2 (by decide); have b0a2 := h0a 2 (by decide)
  have b0r3 := h0r 3 (by decide); have b0a3 := h0a 3 (by decide)
  have b0r4 := h0r 4 (by decide); have b0a4 := h0a 4 (by decide)
  have b0r5 := h0r 5 (by decide); have b0a5 := h0a 5 (by decide)
  have b0r6 := h0r 6 (by decide); have b0a6 := h0a 6 (by decide)
  have b0r7 := h0r 7 (by decide); have b0a7 := h0a 7 (by decide)
  have b1r0 := h1r 0 (by decide); have b1a0 := h1a 0 (by decide)
  have b1r1 := h1r 1 (by decide); have b1a1 := h1a 1 (by decide)
  have b1r2 := h1r 2 (by decide); have b1a2 := h1a 2 (by decide)
  have b1r3 := h1r 3 (by decide); have b1a3 := h1a 3 (by decide)
  have b1r4 := h1r 4 (by decide); have b1a4 := h1a 4 (by decide)
  have b1r5 := h1r 5 (by decide); have b1a5 := h1a 5 (by decide)
  have b1r6 := h1r 6 (by decide); have b1a6 := h1a 6 (by decide)
  have b1r7 := h1r 7 (by decide); have b1a7 := h1a 7 (by decide)
  simp only [Gen.ct32.ge_storage_cmov]
  minic_evalW
  simp only [Nat.reducePow] at b0r0 b0a0 b0r1 b0a1 b0r2 b0a2 b0r3 b0a3 b0r4 b0a4 b0r5 b0a5 b0r6 b0a6 b0r7 b0a7 b1r0 b1a0 b1r1 b1a1 b1r2 b1a2 b1r3 b1a3 b1r4 b1a4 b1r5 b1a5 b1r6 b1a6 b1r7 b1a7
  rcases (show env.get "flag" 0 = 0 ∨ env.get "flag" 0 = 1 by omega) with h | h
  · simp only [h, Nat.reducePow, Nat.reduceXor, Nat.reduceMod, Nat.reduceAdd, Nat.reduceSub, Nat.and_zero, Nat.or_zero,
      Nat.zero_or, Nat.xor_zero, Nat.zero_ne_one, if_true, if_false]
    simp (disch := assumption) only [and_ones32, and_self, implies_true]
  · simp only [h, Nat.reducePow, Nat.reduceXor, Nat.reduceMod, Nat.reduceAdd, Nat.reduceSub, Nat.and_zero, Nat.or_zero,
      Nat.zero_or, Nat.xor_zero, Nat.zero_ne_one, if_true, if_false]
    simp (disch := assumption) only [and_ones32, and_self, implies_true]


set_option maxRecDepth 100000 in
/-- `secp256k1_int_cmov`: `*r` becomes `*a` if `flag = 1` and stays if `flag = 0`; `*a` is not written -/
theorem int_cmov_ct_key (env : Env) (hf : env.get "flag" 0 ≤ 1) (hr : env.get "r" 0 < 2 ^ 32) (ha : env.get "a" 0 < 2 ^ 32) :
    (runW env Gen.ct.int_cmov.body).get "r" 0 = (if env.get "flag" 0 = 1 then env.get "a" 0 else env.get "r" 0) ∧
    (runW env Gen.ct.int_cmov.body).get "a" 0 = env.get "a" 0 := by
  simp only [Gen.ct.int_cmov]
  minic_evalW
  simp only [Nat.reducePow] at hr ha
  rcases (show env.get "flag" 0 = 0 ∨ env.get "flag" 0 = 1 by omega) with h | h
  · simp only [h, Nat.reducePow, Nat.reduceMod, Nat.reduceAdd, Nat.reduceSub, Nat.and_zero, Nat.or_zero,
      Nat.zero_ne_one, if_false, and_ones32 hr, and_self]
  · simp only [h, Nat.reducePow, Nat.reduceMod, Nat.reduceAdd, Nat.reduceSub, Nat.and_zero, Nat.zero_or,
      if_true, and_ones32 ha, and_self]

/-- the two configurations translate `secp256k1_int_cmov` to the same program -/
theorem int_cmov_ct32_body : Gen.ct32.int_cmov.body = Gen.ct.int_cmov.body := rfl


/-! ## 2. the value returned by a straight-line program -/

section ret
open MiniC.Bounds

/-- value returned by a program of assignments / stores that ends with a `ret` (leak-free copy of `execL … .ret`) -/
def retW (env : Env) : List Stmt → Option Nat
  | [] => none
  | .assign x e :: rest => retW (env.set x 0 (evalV env e)) rest
  | .store a i e :: rest => retW (env.set a (evalV env i) (evalV env e)) rest
  | .ret e :: _ => some (evalV env e)
  | _ :: _ => none

/-- assignments / stores, then possibly a `ret` -/
def isStraightRet : List Stmt → Bool
  | [] => true
  | .assign _ _ :: rest => isStraightRet rest
  | .store _ _ _ :: rest => isStraightRet rest
  | .ret _ :: _ => true
  | _ => false

theorem execL_ret_eq_retW : ∀ (prog : List Stmt) (env : Env), isStraightRet prog = true →
    (execL env prog).ret = retW env prog := by
  intro prog
  induction prog with
  | nil => intro env _; simp [execL, retW]
  | cons s rest ih =>
    intro env h
    cases s with
    | assign x e => rw [execL_cons_assign]; simp only [retW, evalE_fst]; exact ih _ (by simpa [isStraightRet] using h)
    | store a i e => rw [execL_cons_store]; simp only [retW, evalE_fst]; exact ih _ (by simpa [isStraightRet] using h)
    | ite c t e => simp [isStraightRet] at h
    | loop x n body => simp [isStraightRet] at h
    | declassify x => simp [isStraightRet] at h
    | ret e => rw [execL_cons_ret]; simp only [retW, evalE_fst]


macro "minic_evalRet" : tactic => `(tactic| (
  simp only [retW, evalV, binWrap]
  simp only [Env.get_set_same, Env.get_set_other, ne_eq, Prod.mk.injEq, String.reduceEq, false_and, and_false,
    and_true, true_and, not_false_eq_true, not_true_eq_false, Nat.reduceEqDiff]))

end ret

/-! ## 3. scalar predicates and `scalar_cond_negate` -/

section scalar
open ScalarKernel ScalarKernel32


/-- four limbs are all zero iff their 4×64 value is zero -/
theorem val4_eq_zero (a0 a1 a2 a3 : Nat) : val4 a0 a1 a2 a3 = 0 ↔ a0 = 0 ∧ a1 = 0 ∧ a2 = 0 ∧ a3 = 0 := by
  unfold val4; omega

theorem val8x32_eq_zero (a0 a1 a2 a3 a4 a5 a6 a7 : Nat) :
    val8x32 a0 a1 a2 a3 a4 a5 a6 a7 = 0 ↔ a0 = 0 ∧ a1 = 0 ∧ a2 = 0 ∧ a3 = 0 ∧ a4 = 0 ∧ a5 = 0 ∧ a6 = 0 ∧ a7 = 0 := by
  unfold val8x32; omega

/-- the program returns `v` -/
def RetPost (v : Nat) (out : Env × Option Nat) : Prop := out.2 = some v

theorem scalar_is_zero_4x64_run (env : Env) (a0 a1 a2 a3 : Nat)
    (h0 : env.get "a.d" 0 = a0) (h1 : env.get "a.d" 1 = a1) (h2 : env.get "a.d" 2 = a2) (h3 : env.get "a.d" 3 = a3) :
    RetPost (if val4 a0 a1 a2 a3 = 0 then 1 else 0) (runR env Gen.ct.scalar_is_zero.body) := by
  simp only [Gen.ct.scalar_is_zero]
  steps 1 [h0, h1, h2, h3]
  simp only [RetPost, binWrap_eq, binWrap_or, Nat.or_eq_zero_iff, val4_eq_zero, and_assoc]

theorem scalar_is_zero_8x32_run (env : Env) (a0 a1 a2 a3 a4 a5 a6 a7 : Nat)
    (h0 : env.get "a.d" 0 = a0) (h1 : env.get "a.d" 1 = a1) (h2 : env.get "a.d" 2 = a2) (h3 : env.get "a.d" 3 = a3)
    (h4 : env.get "a.d" 4 = a4) (h5 : env.get "a.d" 5 = a5) (h6 : env.get "a.d" 6 = a6) (h7 : env.get "a.d" 7 = a7) :
    RetPost (if val8x32 a0 a1 a2 a3 a4 a5 a6 a7 = 0 then 1 else 0) (runR env Gen.ct32.scalar_is_zero.body) := by
  simp only [Gen.ct32.scalar_is_zero]
  steps 1 [h0, h1, h2, h3, h4, h5, h6, h7]
  simp only [RetPost, binWrap_eq, binWrap_or, Nat.or_eq_zero_iff, val8x32_eq_zero, and_assoc]

set_option maxRecDepth 100000 in
theorem scalar_check_overflow_4x64_run (env : Env) (a0 a1 a2 a3 : Nat)
    (h0 : env.get "a.d" 0 = a0) (h1 : env.get "a.d" 1 = a1) (h2 : env.get "a.d" 2 = a2) (h3 : env.get "a.d" 3 = a3)
    (A0 : a0 < 2 ^ 64) (A1 : a1 < 2 ^ 64) (A2 : a2 < 2 ^ 64) (A3 : a3 < 2 ^ 64) :
    RetPost (if N ≤ val4 a0 a1 a2 a3 then 1 else 0) (runR env Gen.ct.scalar_check_overflow.body) := by
  simp only [Gen.ct.scalar_check_overflow]
  steps 9 [h0, h1, h2, h3]
  simp only [RetPost]
  rw [check_overflow_spec a0 a1 a2 a3 A0 A1 A2 A3]

set_option maxRecDepth 100000 in
theorem scalar_check_overflow_8x32_run (env : Env) (a0 a1 a2 a3 a4 a5 a6 a7 : Nat)
    (h0 : env.get "a.d" 0 = a0) (h1 : env.get "a.d" 1 = a1) (h2 : env.get "a.d" 2 = a2) (h3 : env.get "a.d" 3 = a3)
    (h4 : env.get "a.d" 4 = a4) (h5 : env.get "a.d" 5 = a5) (h6 : env.get "a.d" 6 = a6) (h7 : env.get "a.d" 7 = a7)
    (A0 : a0 < 2 ^ 32) (A1 : a1 < 2 ^ 32) (A2 : a2 < 2 ^ 32) (A3 : a3 < 2 ^ 32) (A4 : a4 < 2 ^ 32) (A5 : a5 < 2 ^ 32)
    (A6 : a6 < 2 ^ 32) (A7 : a7 < 2 ^ 32) :
    RetPost (if N ≤ val8x32 a0 a1 a2 a3 a4 a5 a6 a7 then 1 else 0) (runR env Gen.ct32.scalar_check_overflow.body) := by
  simp only [Gen.ct32.scalar_check_overflow]
  steps 2 [h0, h1, h2, h3, h4, h5, h6, h7]
  vstep n1 [h0, h1, h2, h3, h4, h5, h6, h7]
  vstep n2 [h0, h1, h2, h3, h4, h5, h6, h7]
  vstep n3 [h0, h1, h2, h3, h4, h5, h6, h7]
  vstep n4 [h0, h1, h2, h3, h4, h5, h6, h7]
  vstep y1 [h0, h1, h2, h3, h4, h5, h6, h7]
  vstep n5 [h0, h1, h2, h3, h4, h5, h6, h7]
  vstep y2 [h0, h1, h2, h3, h4, h5, h6, h7]
  vstep n6 [h0, h1, h2, h3, h4, h5, h6, h7]
  vstep y3 [h0, h1, h2, h3, h4, h5, h6, h7]
  vstep n7 [h0, h1, h2, h3, h4, h5, h6, h7]
  vstep y4 [h0, h1, h2, h3, h4, h5, h6, h7]
  vstep y5 [h0, h1, h2, h3, h4, h5, h6, h7]
  steps 1 [h0, h1, h2, h3, h4, h5, h6, h7]
  simp only [RetPost]
  rw [check_overflow_spec32 a0 a1 a2 a3 a4 a5 a6 a7 n1 n2 n3 n4 y1 n5 y2 n6 y3 n7 y4 y5 A0 A1 A2 A3 A4 A5 A6 A7
    n1_def n2_def n3_def n4_def y1_def n5_def y2_def n6_def y3_def n7_def y4_def y5_def]


set_option maxRecDepth 100000 in
set_option maxHeartbeats 1000000 in
theorem scalar_is_high_4x64_run (env : Env) (a0 a1 a2 a3 : Nat)
    (h0 : env.get "a.d" 0 = a0) (h1 : env.get "a.d" 1 = a1) (h2 : env.get "a.d" 2 = a2) (h3 : env.get "a.d" 3 = a3)
    (A0 : a0 < 2 ^ 64) (A1 : a1 < 2 ^ 64) (A2 : a2 < 2 ^ 64) (A3 : a3 < 2 ^ 64) :
    RetPost (if (N - 1) / 2 < val4 a0 a1 a2 a3 then 1 else 0) (runR env Gen.ct.scalar_is_high.body) := by
  simp only [Gen.ct.scalar_is_high]
  steps 9 [h0, h1, h2, h3]
  simp only [RetPost, binWrap_or, binWrap_and, binWrap_lt]
  congr 1
  by_cases hN : (N - 1) / 2 < val4 a0 a1 a2 a3 <;> simp only [hN, if_true, if_false] <;> simp only [N, val4] at hN <;>
  by_cases c3 : a3 < 9223372036854775807 <;> by_cases d3 : 9223372036854775807 < a3 <;>
  by_cases c2 : a2 < 18446744073709551615 <;> by_cases c1 : a1 < 6725966010171805725 <;>
  by_cases d1 : 6725966010171805725 < a1 <;> by_cases d0 : 16134479119472337056 < a0 <;>
  simp only [c3, d3, c2, c1, d1, d0, if_true, if_false, Nat.reducePow, Nat.reduceSub, Nat.reduceMod,
    Nat.reduceAnd, Nat.reduceOr] <;> omega

/-- first limb of a `yes`/`no` comparison chain: `no = (d < Nk)`, `yes = (d > Nk) & ~no` -/
theorem hi_init (d Nk n1 y1 : Nat)
    (n1_def : n1 = binWrap BinOp.or 32 0 (binWrap BinOp.lt 32 d Nk))
    (y1_def : y1 = binWrap BinOp.or 32 0 (binWrap BinOp.and 32 (binWrap BinOp.lt 32 Nk d) (2 ^ 32 - 1 - n1 % 2 ^ 32))) :
    (n1 = if d < Nk then 1 else 0) ∧ (y1 = if Nk < d then 1 else 0) := by
  subst n1_def y1_def
  simp only [binWrap_or, binWrap_and, binWrap_lt]
  by_cases c1 : d < Nk <;> by_cases c2 : Nk < d <;> simp only [c1, c2, if_true, if_false] <;> first | decide | omega

/-- a limb of the bound that is all-ones cannot decide `>`: the `yes` flag carries over -/
theorem yes_keep (yes d D NN : Nat) (hyes : yes = if NN < D then 1 else 0) (hd : d < 2 ^ 32) :
    yes = if NN * 2 ^ 32 + 4294967295 < D * 2 ^ 32 + d then 1 else 0 := by
  subst hyes
  by_cases c1 : NN < D <;> by_cases c2 : NN * 2 ^ 32 + 4294967295 < D * 2 ^ 32 + d <;>
  simp only [c1, c2, if_true, if_false] <;> omega

/-- the last step `yes |= (d > N0) & ~no` of `secp256k1_scalar_is_high` -/
theorem hi_last_step (no yes d Nk D NN y' : Nat) (hno : no = if D < NN then 1 else 0)
    (hyes : yes = if NN < D then 1 else 0) (hd : d < 2 ^ 32) (hN : Nk < 2 ^ 32)
    (h : y' = binWrap BinOp.or 32 yes (binWrap BinOp.and 32 (binWrap BinOp.lt 32 Nk d) (2 ^ 32 - 1 - no % 2 ^ 32))) :
    y' = if NN * 2 ^ 32 + Nk < D * 2 ^ 32 + d then 1 else 0 := by
  subst hno hyes h
  simp only [binWrap_or, binWrap_and, binWrap_lt]
  by_cases c1 : D < NN <;> by_cases c2 : NN < D <;> by_cases c3 : Nk < d <;>
  by_cases c4 : NN * 2 ^ 32 + Nk < D * 2 ^ 32 + d <;>
  simp only [c1, c2, c3, c4, if_true, if_false] <;> first | decide | omega

/-- **`secp256k1_scalar_is_high`** (8×32): the branch-free comparison against the limbs of `(N-1)/2` -/
theorem is_high_spec32 (r0 r1 r2 r3 r4 r5 r6 r7 n1 y1 n2 n3 n4 n5 y2 n6 y3 n7 y4 y5 : Nat)
    (h0 : r0 < 2 ^ 32) (h1 : r1 < 2 ^ 32) (h2 : r2 < 2 ^ 32) (h3 : r3 < 2 ^ 32) (h4 : r4 < 2 ^ 32) (h5 : r5 < 2 ^ 32) (h6 : r6 < 2 ^ 32) (h7 : r7 < 2 ^ 32)
    (n1_def : n1 = binWrap BinOp.or 32 0 (binWrap BinOp.lt 32 r7 2147483647))
    (y1_def : y1 = binWrap BinOp.or 32 0 (binWrap BinOp.and 32 (binWrap BinOp.lt 32 2147483647 r7) (2 ^ 32 - 1 - n1 % 2 ^ 32)))
    (n2_def : n2 = binWrap BinOp.or 32 n1 (binWrap BinOp.and 32 (binWrap BinOp.lt 32 r6 4294967295) (2 ^ 32 - 1 - y1 % 2 ^ 32)))
    (n3_def : n3 = binWrap BinOp.or 32 n2 (binWrap BinOp.and 32 (binWrap BinOp.lt 32 r5 4294967295) (2 ^ 32 - 1 - y1 % 2 ^ 32)))
    (n4_def : n4 = binWrap BinOp.or 32 n3 (binWrap BinOp.and 32 (binWrap BinOp.lt 32 r4 4294967295) (2 ^ 32 - 1 - y1 % 2 ^ 32)))
    (n5_def : n5 = binWrap BinOp.or 32 n4 (binWrap BinOp.and 32 (binWrap BinOp.lt 32 r3 1566010995) (2 ^ 32 - 1 - y1 % 2 ^ 32)))
    (y2_def : y2 = binWrap BinOp.or 32 y1 (binWrap BinOp.and 32 (binWrap BinOp.lt 32 1566010995 r3) (2 ^ 32 - 1 - n5 % 2 ^ 32)))
    (n6_def : n6 = binWrap BinOp.or 32 n5 (binWrap BinOp.and 32 (binWrap BinOp.lt 32 r2 1470386205) (2 ^ 32 - 1 - y2 % 2 ^ 32)))
    (y3_def : y3 = binWrap BinOp.or 32 y2 (binWrap BinOp.and 32 (binWrap BinOp.lt 32 1470386205 r2) (2 ^ 32 - 1 - n6 % 2 ^ 32)))
    (n7_def : n7 = binWrap BinOp.or 32 n6 (binWrap BinOp.and 32 (binWrap BinOp.lt 32 r1 3756601158) (2 ^ 32 - 1 - y3 % 2 ^ 32)))
    (y4_def : y4 = binWrap BinOp.or 32 y3 (binWrap BinOp.and 32 (binWrap BinOp.lt 32 3756601158 r1) (2 ^ 32 - 1 - n7 % 2 ^ 32)))
    (y5_def : y5 = binWrap BinOp.or 32 y4 (binWrap BinOp.and 32 (binWrap BinOp.lt 32 1746608288 r0) (2 ^ 32 - 1 - n7 % 2 ^ 32))) :
    y5 = if (N - 1) / 2 < val8x32 r0 r1 r2 r3 r4 r5 r6 r7 then 1 else 0 := by
  obtain ⟨hn1, hy1⟩ := hi_init r7 2147483647 n1 y1 n1_def y1_def
  have hn1' : n1 = if 0 * 2 ^ 32 + r7 < 0 * 2 ^ 32 + 2147483647 then 1 else 0 := by simpa using hn1
  have hy1' : y1 = if 0 * 2 ^ 32 + 2147483647 < 0 * 2 ^ 32 + r7 then 1 else 0 := by simpa using hy1
  have hn2 := ov_no_step n1 y1 r6 4294967295 _ _ n2 hn1' hy1' h6 (by decide) n2_def
  have hy1b := yes_keep y1 r6 _ _ hy1' h6
  have hn3 := ov_no_step n2 y1 r5 4294967295 _ _ n3 hn2 hy1b h5 (by decide) n3_def
  have hy1c := yes_keep y1 r5 _ _ hy1b h5
  have hn4 := ov_no_step n3 y1 r4 4294967295 _ _ n4 hn3 hy1c h4 (by decide) n4_def
  have hy1d := yes_keep y1 r4 _ _ hy1c h4
  have hn5 := ov_no_step n4 y1 r3 1566010995 _ _ n5 hn4 hy1d h3 (by decide) n5_def
  have hy2 := ov_yes_step n5 y1 r3 1566010995 _ _ y2 hn5 hy1d h3 (by decide) y2_def
  have hn6 := ov_no_step n5 y2 r2 1470386205 _ _ n6 hn5 hy2 h2 (by decide) n6_def
  have hy3 := ov_yes_step n6 y2 r2 1470386205 _ _ y3 hn6 hy2 h2 (by decide) y3_def
  have hn7 := ov_no_step n6 y3 r1 3756601158 _ _ n7 hn6 hy3 h1 (by decide) n7_def
  have hy4 := ov_yes_step n7 y3 r1 3756601158 _ _ y4 hn7 hy3 h1 (by decide) y4_def
  have hy5 := hi_last_step n7 y4 r0 1746608288 _ _ y5 hn7 hy4 h0 (by decide) y5_def
  rw [hy5]
  clear * - h0 h1 h2 h3 h4 h5 h6 h7
  unfold val8x32 N
  split <;> split <;> omega

set_option maxRecDepth 100000 in
theorem scalar_is_high_8x32_run (env : Env) (a0 a1 a2 a3 a4 a5 a6 a7 : Nat)
    (h0 : env.get "a.d" 0 = a0) (h1 : env.get "a.d" 1 = a1) (h2 : env.get "a.d" 2 = a2) (h3 : env.get "a.d" 3 = a3)
    (h4 : env.get "a.d" 4 = a4) (h5 : env.get "a.d" 5 = a5) (h6 : env.get "a.d" 6 = a6) (h7 : env.get "a.d" 7 = a7)
    (A0 : a0 < 2 ^ 32) (A1 : a1 < 2 ^ 32) (A2 : a2 < 2 ^ 32) (A3 : a3 < 2 ^ 32) (A4 : a4 < 2 ^ 32) (A5 : a5 < 2 ^ 32)
    (A6 : a6 < 2 ^ 32) (A7 : a7 < 2 ^ 32) :
    RetPost (if (N - 1) / 2 < val8x32 a0 a1 a2 a3 a4 a5 a6 a7 then 1 else 0) (runR env Gen.ct32.scalar_is_high.body) := by
  simp only [Gen.ct32.scalar_is_high]
  steps 2 [h0, h1, h2, h3, h4, h5, h6, h7]
  vstep n1 [h0, h1, h2, h3, h4, h5, h6, h7]
  vstep y1 [h0, h1, h2, h3, h4, h5, h6, h7]
  vstep n2 [h0, h1, h2, h3, h4, h5, h6, h7]
  vstep n3 [h0, h1, h2, h3, h4, h5, h6, h7]
  vstep n4 [h0, h1, h2, h3, h4, h5, h6, h7]
  vstep n5 [h0, h1, h2, h3, h4, h5, h6, h7]
  vstep y2 [h0, h1, h2, h3, h4, h5, h6, h7]
  vstep n6 [h0, h1, h2, h3, h4, h5, h6, h7]
  vstep y3 [h0, h1, h2, h3, h4, h5, h6, h7]
  vstep n7 [h0, h1, h2, h3, h4, h5, h6, h7]
  vstep y4 [h0, h1, h2, h3, h4, h5, h6, h7]
  vstep y5 [h0, h1, h2, h3, h4, h5, h6, h7]
  steps 1 [h0, h1, h2, h3, h4, h5, h6, h7]
  simp only [RetPost]
  rw [is_high_spec32 a0 a1 a2 a3 a4 a5 a6 a7 n1 y1 n2 n3 n4 n5 y2 n6 y3 n7 y4 y5 A0 A1 A2 A3 A4 A5 A6 A7
    n1_def y1_def n2_def n3_def n4_def n5_def y2_def n6_def y3_def n7_def y4_def y5_def]


/-- `x ^ 0xFFFF…F = ~x` at `n` bits -/
theorem xor_ones (x n : Nat) (h : x < 2 ^ n) : x ^^^ (2 ^ n - 1) = 2 ^ n - 1 - x := by
  apply Nat.eq_of_testBit_eq
  intro i
  have e : 2 ^ n - 1 - x = 2 ^ n - (x + 1) := by omega
  rw [Nat.testBit_xor, Nat.testBit_two_pow_sub_one, e, Nat.testBit_two_pow_sub_succ h]
  by_cases hi : i < n
  · simp [hi]
  · have : x.testBit i = false := Nat.testBit_lt_two_pow (Nat.lt_of_lt_of_le h (Nat.pow_le_pow_right (by decide) (by omega)))
    simp [hi, this]

theorem xor_ones64 (x : Nat) (h : x < 2 ^ 64) : binWrap BinOp.xor 64 x (2 ^ 64 - 1) = 2 ^ 64 - 1 - x % 2 ^ 64 := by
  rw [binWrap_xor, xor_ones x 64 h, Nat.mod_eq_of_lt h]

theorem xor_ones32 (x : Nat) (h : x < 2 ^ 32) : binWrap BinOp.xor 32 x (2 ^ 32 - 1) = 2 ^ 32 - 1 - x % 2 ^ 32 := by
  rw [binWrap_xor, xor_ones x 32 h, Nat.mod_eq_of_lt h]

/-- the mask `-(uint64_t)flag`… as clang spells it: `(int)(-(unsigned)flag)` sign-extended to 64 bits -/
theorem cn_mask64 (f mask : Nat) (hf : f ≤ 1)
    (mask_def : mask = binWrap BinOp.sub 64 (binWrap BinOp.xor 64 ((2 ^ 32 - f % 2 ^ 32) % 2 ^ 32) 2147483648) 2147483648) :
    (f = 0 ∧ mask = 0) ∨ (f = 1 ∧ mask = 2 ^ 64 - 1) := by
  have : f = 0 ∨ f = 1 := by omega
  rcases this with rfl | rfl
  · left; subst mask_def; exact ⟨rfl, by decide⟩
  · right; subst mask_def; exact ⟨rfl, by decide⟩

/-- the mask `nonzero = (secp256k1_scalar_is_zero(r) != 0) - 1` of `secp256k1_scalar_cond_negate` (4×64) -/
theorem cn_nonzero64 (a0 a1 a2 a3 z nz : Nat)
    (z_def : z = binWrap BinOp.eq 64 (binWrap BinOp.or 64 (binWrap BinOp.or 64 (binWrap BinOp.or 64 a0 a1) a2) a3) 0)
    (nz_def : nz = binWrap BinOp.sub 64 (binWrap BinOp.xor 64 (binWrap BinOp.sub 32 (binWrap BinOp.ne 32 z 0) 1) 2147483648)
      2147483648) :
    (a0 = 0 ∧ a1 = 0 ∧ a2 = 0 ∧ a3 = 0 ∧ nz = 0) ∨ (¬(a0 = 0 ∧ a1 = 0 ∧ a2 = 0 ∧ a3 = 0) ∧ nz = 2 ^ 64 - 1) := by
  simp only [binWrap_eq, binWrap_or] at z_def
  by_cases hz : a0 = 0 ∧ a1 = 0 ∧ a2 = 0 ∧ a3 = 0
  · left
    obtain ⟨rfl, rfl, rfl, rfl⟩ := hz
    subst z_def nz_def
    exact ⟨rfl, rfl, rfl, rfl, by decide⟩
  · right
    refine ⟨hz, ?_⟩
    have : ¬ (((a0 ||| a1) ||| a2) ||| a3 = 0) := by
      simp only [Nat.or_eq_zero_iff]; tauto
    rw [if_neg this] at z_def
    subst z_def nz_def
    decide

theorem and_n0_ones : binWrap BinOp.and 64 13822214165235122498 (2 ^ 64 - 1) = 13822214165235122498 := by decide
theorem and_n1_ones : binWrap BinOp.and 64 13451932020343611451 (2 ^ 64 - 1) = 13451932020343611451 := by decide
theorem and_n2_ones : binWrap BinOp.and 64 18446744073709551614 (2 ^ 64 - 1) = 18446744073709551614 := by decide
theorem and_n3_ones : binWrap BinOp.and 64 18446744073709551615 (2 ^ 64 - 1) = 18446744073709551615 := by decide

/-- `secp256k1_scalar_cond_negate` (4×64): with `mask = 0` the limbs pass through, with `mask = ~0` the chain is the
    one of `secp256k1_scalar_negate` (`~r + (N + 1)`, masked by `nonzero`) -/
theorem cond_negate_arith (a0 a1 a2 a3 f mask nz r0 t1 r1 t2 r2 t3 r3 : Nat)
    (A0 : a0 < 2 ^ 64) (A1 : a1 < 2 ^ 64) (A2 : a2 < 2 ^ 64) (A3 : a3 < 2 ^ 64) (hA : val4 a0 a1 a2 a3 < N)
    (hm : (f = 0 ∧ mask = 0) ∨ (f = 1 ∧ mask = 2 ^ 64 - 1))
    (hnz : (a0 = 0 ∧ a1 = 0 ∧ a2 = 0 ∧ a3 = 0 ∧ nz = 0) ∨ (¬(a0 = 0 ∧ a1 = 0 ∧ a2 = 0 ∧ a3 = 0) ∧ nz = 2 ^ 64 - 1))
    (r0_def : r0 = binWrap BinOp.and 64
      (binWrap BinOp.add 128 (binWrap BinOp.xor 64 a0 mask) (binWrap BinOp.and 64 13822214165235122498 mask) % 2 ^ 64) nz)
    (t1_def : t1 = binWrap BinOp.shr 128
      (binWrap BinOp.add 128 (binWrap BinOp.xor 64 a0 mask) (binWrap BinOp.and 64 13822214165235122498 mask)) 64)
    (r1_def : r1 = binWrap BinOp.and 64
      (binWrap BinOp.add 128 (binWrap BinOp.add 128 t1 (binWrap BinOp.xor 64 a1 mask))
        (binWrap BinOp.and 64 13451932020343611451 mask) % 2 ^ 64) nz)
    (t2_def : t2 = binWrap BinOp.shr 128
      (binWrap BinOp.add 128 (binWrap BinOp.add 128 t1 (binWrap BinOp.xor 64 a1 mask))
        (binWrap BinOp.and 64 13451932020343611451 mask)) 64)
    (r2_def : r2 = binWrap BinOp.and 64
      (binWrap BinOp.add 128 (binWrap BinOp.add 128 t2 (binWrap BinOp.xor 64 a2 mask))
        (binWrap BinOp.and 64 18446744073709551614 mask) % 2 ^ 64) nz)
    (t3_def : t3 = binWrap BinOp.shr 128
      (binWrap BinOp.add 128 (binWrap BinOp.add 128 t2 (binWrap BinOp.xor 64 a2 mask))
        (binWrap BinOp.and 64 18446744073709551614 mask)) 64)
    (r3_def : r3 = binWrap BinOp.and 64
      (binWrap BinOp.add 128 (binWrap BinOp.add 128 t3 (binWrap BinOp.xor 64 a3 mask))
        (binWrap BinOp.and 64 18446744073709551615 mask) % 2 ^ 64) nz) :
    val4 r0 r1 r2 r3 = (if f = 1 then (N - val4 a0 a1 a2 a3) % N else val4 a0 a1 a2 a3) ∧
      r0 < 2 ^ 64 ∧ r1 < 2 ^ 64 ∧ r2 < 2 ^ 64 ∧ r3 < 2 ^ 64 := by
  rcases hm with ⟨rfl, rfl⟩ | ⟨rfl, rfl⟩
  · -- mask = 0: nothing is added, no carries
    simp only [binWrap_xor, binWrap_and, binWrap_add, binWrap_shr, Nat.xor_zero, Nat.and_zero, Nat.add_zero]
      at r0_def t1_def r1_def t2_def r2_def t3_def r3_def
    simp only [Nat.zero_ne_one, if_false]
    have ht1 : t1 = 0 := by omega
    subst ht1
    simp only [Nat.zero_add] at r1_def t2_def
    have ht2 : t2 = 0 := by omega
    subst ht2
    simp only [Nat.zero_add] at r2_def t3_def
    have ht3 : t3 = 0 := by omega
    subst ht3
    simp only [Nat.zero_add] at r3_def
    rcases hnz with ⟨rfl, rfl, rfl, rfl, rfl⟩ | ⟨_, rfl⟩
    · simp only [Nat.and_zero] at r0_def r1_def r2_def r3_def
      subst r0_def r1_def r2_def r3_def
      exact ⟨rfl, by decide, by decide, by decide, by decide⟩
    · simp only [Nat.and_two_pow_sub_one_eq_mod] at r0_def r1_def r2_def r3_def
      have e0 : r0 = a0 := by omega
      have e1 : r1 = a1 := by omega
      have e2 : r2 = a2 := by omega
      have e3 : r3 = a3 := by omega
      subst e0 e1 e2 e3
      exact ⟨rfl, A0, A1, A2, A3⟩
  · -- mask = ~0: the chain of `secp256k1_scalar_negate`
    simp only [xor_ones64 _ A0, xor_ones64 _ A1, xor_ones64 _ A2, xor_ones64 _ A3, and_n0_ones, and_n1_ones,
      and_n2_ones, and_n3_ones] at r0_def t1_def r1_def t2_def r2_def t3_def r3_def
    simp only [if_true]
    exact negate_arith a0 a1 a2 a3 nz r0 t1 r1 t2 r2 t3 r3 A0 A1 A2 A3 hA hnz r0_def t1_def r1_def t2_def r2_def
      t3_def r3_def

/-- post-condition of `secp256k1_scalar_cond_negate(r, flag)` (4×64) in terms of the input limbs -/
def CondNegPost (f a0 a1 a2 a3 : Nat) (out : Env × Option Nat) : Prop :=
  val4 (out.1.get "r.d" 0) (out.1.get "r.d" 1) (out.1.get "r.d" 2) (out.1.get "r.d" 3) =
    (if f = 1 then (N - val4 a0 a1 a2 a3) % N else val4 a0 a1 a2 a3) ∧
  out.2 = some (if f = 1 then 4294967295 else 1) ∧
  out.1.get "r.d" 0 < 2 ^ 64 ∧ out.1.get "r.d" 1 < 2 ^ 64 ∧ out.1.get "r.d" 2 < 2 ^ 64 ∧ out.1.get "r.d" 3 < 2 ^ 64

set_option maxRecDepth 100000 in
set_option maxHeartbeats 4000000 in
theorem scalar_cond_negate_4x64_run (env : Env) (a0 a1 a2 a3 f : Nat) (hf : env.get "flag" 0 = f)
    (h0 : env.get "r.d" 0 = a0) (h1 : env.get "r.d" 1 = a1) (h2 : env.get "r.d" 2 = a2) (h3 : env.get "r.d" 3 = a3)
    (F : f ≤ 1) (A0 : a0 < 2 ^ 64) (A1 : a1 < 2 ^ 64) (A2 : a2 < 2 ^ 64) (A3 : a3 < 2 ^ 64)
    (hA : val4 a0 a1 a2 a3 < N) :
    CondNegPost f a0 a1 a2 a3 (runR env Gen.ct.scalar_cond_negate.body) := by
  simp only [Gen.ct.scalar_cond_negate]
  steps 1 [hf, h0, h1, h2, h3]
  vstep mask [hf, h0, h1, h2, h3]
  vstep z [hf, h0, h1, h2, h3]
  vstep nz [hf, h0, h1, h2, h3]
  steps 5 [hf, h0, h1, h2, h3]
  vstep r0 [hf, h0, h1, h2, h3]
  vstep t1 [hf, h0, h1, h2, h3]
  steps 5 [hf, h0, h1, h2, h3]
  vstep r1 [hf, h0, h1, h2, h3]
  vstep t2 [hf, h0, h1, h2, h3]
  steps 5 [hf, h0, h1, h2, h3]
  vstep r2 [hf, h0, h1, h2, h3]
  vstep t3 [hf, h0, h1, h2, h3]
  steps 5 [hf, h0, h1, h2, h3]
  vstep r3 [hf, h0, h1, h2, h3]
  steps 1 [hf, h0, h1, h2, h3]
  reads [CondNegPost]
  have hm := cn_mask64 f mask F mask_def
  obtain ⟨k1, k2, k3, k4, k5⟩ := cond_negate_arith a0 a1 a2 a3 f mask nz r0 t1 r1 t2 r2 t3 r3 A0 A1 A2 A3 hA hm
    (cn_nonzero64 a0 a1 a2 a3 z nz z_def nz_def) r0_def t1_def r1_def t2_def r2_def t3_def r3_def
  refine ⟨k1, ?_, k2, k3, k4, k5⟩
  rcases hm with ⟨rfl, rfl⟩ | ⟨rfl, rfl⟩ <;> decide

/-- the mask `(uint32_t)0 - flag` of `secp256k1_scalar_cond_negate` (8×32) -/
theorem cn_mask32 (f mask : Nat) (hf : f ≤ 1) (mask_def : mask = (2 ^ 32 - f % 2 ^ 32) % 2 ^ 32) :
    (f = 0 ∧ mask = 0) ∨ (f = 1 ∧ mask = 2 ^ 32 - 1) := by
  have : f = 0 ∨ f = 1 := by omega
  rcases this with rfl | rfl
  · left; subst mask_def; exact ⟨rfl, by decide⟩
  · right; subst mask_def; exact ⟨rfl, by decide⟩

theorem and_k0_ones : binWrap BinOp.and 32 3493216578 (2 ^ 32 - 1) = 3493216578 := by decide
theorem and_k1_ones : binWrap BinOp.and 32 3218235020 (2 ^ 32 - 1) = 3218235020 := by decide
theorem and_k2_ones : binWrap BinOp.and 32 2940772411 (2 ^ 32 - 1) = 2940772411 := by decide
theorem and_k3_ones : binWrap BinOp.and 32 3132021990 (2 ^ 32 - 1) = 3132021990 := by decide
theorem and_k4_ones : binWrap BinOp.and 32 4294967294 (2 ^ 32 - 1) = 4294967294 := by decide
theorem and_k5_ones : binWrap BinOp.and 32 4294967295 (2 ^ 32 - 1) = 4294967295 := by decide
theorem and_k6_ones : binWrap BinOp.and 32 4294967295 (2 ^ 32 - 1) = 4294967295 := by decide
theorem and_k7_ones : binWrap BinOp.and 32 4294967295 (2 ^ 32 - 1) = 4294967295 := by decide

/-- `(~a + N_0) + 1 = ~a + (N_0 + 1)`: `secp256k1_scalar_negate` and `_cond_negate` spell the first limb differently -/
theorem add_k0 (x : Nat) (h : x < 2 ^ 32) :
    binWrap BinOp.add 64 (binWrap BinOp.add 64 x 3493216577) 1 = binWrap BinOp.add 64 x 3493216578 := by
  simp only [binWrap_add]; omega

/-- `secp256k1_scalar_cond_negate` (8×32): with `mask = 0` the limbs pass through, with `mask = ~0` the chain is the
    one of `secp256k1_scalar_negate` -/
theorem cond_negate_arith32 (a0 a1 a2 a3 a4 a5 a6 a7 f mask nz r0 t1 r1 t2 r2 t3 r3 t4 r4 t5 r5 t6 r6 t7 r7 : Nat)
    (A0 : a0 < 2 ^ 32) (A1 : a1 < 2 ^ 32) (A2 : a2 < 2 ^ 32) (A3 : a3 < 2 ^ 32) (A4 : a4 < 2 ^ 32) (A5 : a5 < 2 ^ 32) (A6 : a6 < 2 ^ 32) (A7 : a7 < 2 ^ 32) (hA : val8x32 a0 a1 a2 a3 a4 a5 a6 a7 < N)
    (hm : (f = 0 ∧ mask = 0) ∨ (f = 1 ∧ mask = 2 ^ 32 - 1))
    (hnz : (a0 = 0 ∧ a1 = 0 ∧ a2 = 0 ∧ a3 = 0 ∧ a4 = 0 ∧ a5 = 0 ∧ a6 = 0 ∧ a7 = 0 ∧ nz = 0) ∨ (¬(a0 = 0 ∧ a1 = 0 ∧ a2 = 0 ∧ a3 = 0 ∧ a4 = 0 ∧ a5 = 0 ∧ a6 = 0 ∧ a7 = 0) ∧ nz = 4294967295))
    (r0_def : r0 = binWrap BinOp.and 64 (binWrap BinOp.add 64 (binWrap BinOp.xor 32 a0 mask) (binWrap BinOp.and 32 3493216578 mask)) nz % 2 ^ 32)
    (t1_def : t1 = binWrap BinOp.shr 64 (binWrap BinOp.add 64 (binWrap BinOp.xor 32 a0 mask) (binWrap BinOp.and 32 3493216578 mask)) 32)
    (r1_def : r1 = binWrap BinOp.and 64 (binWrap BinOp.add 64 t1 (binWrap BinOp.add 64 (binWrap BinOp.xor 32 a1 mask) (binWrap BinOp.and 32 3218235020 mask))) nz % 2 ^ 32)
    (t2_def : t2 = binWrap BinOp.shr 64 (binWrap BinOp.add 64 t1 (binWrap BinOp.add 64 (binWrap BinOp.xor 32 a1 mask) (binWrap BinOp.and 32 3218235020 mask))) 32)
    (r2_def : r2 = binWrap BinOp.and 64 (binWrap BinOp.add 64 t2 (binWrap BinOp.add 64 (binWrap BinOp.xor 32 a2 mask) (binWrap BinOp.and 32 2940772411 mask))) nz % 2 ^ 32)
    (t3_def : t3 = binWrap BinOp.shr 64 (binWrap BinOp.add 64 t2 (binWrap BinOp.add 64 (binWrap BinOp.xor 32 a2 mask) (binWrap BinOp.and 32 2940772411 mask))) 32)
    (r3_def : r3 = binWrap BinOp.and 64 (binWrap BinOp.add 64 t3 (binWrap BinOp.add 64 (binWrap BinOp.xor 32 a3 mask) (binWrap BinOp.and 32 3132021990 mask))) nz % 2 ^ 32)
    (t4_def : t4 = binWrap BinOp.shr 64 (binWrap BinOp.add 64 t3 (binWrap BinOp.add 64 (binWrap BinOp.xor 32 a3 mask) (binWrap BinOp.and 32 3132021990 mask))) 32)
    (r4_def : r4 = binWrap BinOp.and 64 (binWrap BinOp.add 64 t4 (binWrap BinOp.add 64 (binWrap BinOp.xor 32 a4 mask) (binWrap BinOp.and 32 4294967294 mask))) nz % 2 ^ 32)
    (t5_def : t5 = binWrap BinOp.shr 64 (binWrap BinOp.add 64 t4 (binWrap BinOp.add 64 (binWrap BinOp.xor 32 a4 mask) (binWrap BinOp.and 32 4294967294 mask))) 32)
    (r5_def : r5 = binWrap BinOp.and 64 (binWrap BinOp.add 64 t5 (binWrap BinOp.add 64 (binWrap BinOp.xor 32 a5 mask) (binWrap BinOp.and 32 4294967295 mask))) nz % 2 ^ 32)
    (t6_def : t6 = binWrap BinOp.shr 64 (binWrap BinOp.add 64 t5 (binWrap BinOp.add 64 (binWrap BinOp.xor 32 a5 mask) (binWrap BinOp.and 32 4294967295 mask))) 32)
    (r6_def : r6 = binWrap BinOp.and 64 (binWrap BinOp.add 64 t6 (binWrap BinOp.add 64 (binWrap BinOp.xor 32 a6 mask) (binWrap BinOp.and 32 4294967295 mask))) nz % 2 ^ 32)
    (t7_def : t7 = binWrap BinOp.shr 64 (binWrap BinOp.add 64 t6 (binWrap BinOp.add 64 (binWrap BinOp.xor 32 a6 mask) (binWrap BinOp.and 32 4294967295 mask))) 32)
    (r7_def : r7 = binWrap BinOp.and 64 (binWrap BinOp.add 64 t7 (binWrap BinOp.add 64 (binWrap BinOp.xor 32 a7 mask) (binWrap BinOp.and 32 4294967295 mask))) nz % 2 ^ 32) :
    val8x32 r0 r1 r2 r3 r4 r5 r6 r7 = (if f = 1 then (N - val8x32 a0 a1 a2 a3 a4 a5 a6 a7) % N else val8x32 a0 a1 a2 a3 a4 a5 a6 a7) ∧
      r0 < 2 ^ 32 ∧ r1 < 2 ^ 32 ∧ r2 < 2 ^ 32 ∧ r3 < 2 ^ 32 ∧ r4 < 2 ^ 32 ∧ r5 < 2 ^ 32 ∧ r6 < 2 ^ 32 ∧ r7 < 2 ^ 32 := by
  rcases hm with ⟨rfl, rfl⟩ | ⟨rfl, rfl⟩
  · simp only [binWrap_xor, binWrap_and, binWrap_add, binWrap_shr, Nat.xor_zero, Nat.and_zero, Nat.add_zero]
      at r0_def t1_def r1_def t2_def r2_def t3_def r3_def t4_def r4_def t5_def r5_def t6_def r6_def t7_def r7_def
    simp only [Nat.zero_ne_one, if_false]
    have ht1 : t1 = 0 := by omega
    subst ht1
    simp only [Nat.zero_add] at r1_def t2_def
    have ht2 : t2 = 0 := by omega
    subst ht2
    simp only [Nat.zero_add] at r2_def t3_def
    have ht3 : t3 = 0 := by omega
    subst ht3
    simp only [Nat.zero_add] at r3_def t4_def
    have ht4 : t4 = 0 := by omega
    subst ht4
    simp only [Nat.zero_add] at r4_def t5_def
    have ht5 : t5 = 0 := by omega
    subst ht5
    simp only [Nat.zero_add] at r5_def t6_def
    have ht6 : t6 = 0 := by omega
    subst ht6
    simp only [Nat.zero_add] at r6_def t7_def
    have ht7 : t7 = 0 := by omega
    subst ht7
    simp only [Nat.zero_add] at r7_def
    rcases hnz with ⟨rfl, rfl, rfl, rfl, rfl, rfl, rfl, rfl, rfl⟩ | ⟨_, rfl⟩
    · simp only [Nat.and_zero, Nat.zero_mod] at r0_def r1_def r2_def r3_def r4_def r5_def r6_def r7_def
      subst r0_def r1_def r2_def r3_def r4_def r5_def r6_def r7_def
      exact ⟨rfl, by decide, by decide, by decide, by decide, by decide, by decide, by decide, by decide⟩
    · simp only [and_mask32] at r0_def r1_def r2_def r3_def r4_def r5_def r6_def r7_def
      have e0 : r0 = a0 := by omega
      have e1 : r1 = a1 := by omega
      have e2 : r2 = a2 := by omega
      have e3 : r3 = a3 := by omega
      have e4 : r4 = a4 := by omega
      have e5 : r5 = a5 := by omega
      have e6 : r6 = a6 := by omega
      have e7 : r7 = a7 := by omega
      subst e0 e1 e2 e3 e4 e5 e6 e7
      exact ⟨rfl, A0, A1, A2, A3, A4, A5, A6, A7⟩
  · simp only [xor_ones32 _ A0, xor_ones32 _ A1, xor_ones32 _ A2, xor_ones32 _ A3, xor_ones32 _ A4, xor_ones32 _ A5, xor_ones32 _ A6, xor_ones32 _ A7, and_k0_ones, and_k1_ones, and_k2_ones, and_k3_ones, and_k4_ones, and_k5_ones, and_k6_ones, and_k7_ones]
      at r0_def t1_def r1_def t2_def r2_def t3_def r3_def t4_def r4_def t5_def r5_def t6_def r6_def t7_def r7_def
    rw [← add_k0 (2 ^ 32 - 1 - a0 % 2 ^ 32) (by omega)] at r0_def t1_def
    simp only [if_true]
    exact negate_arith32 a0 a1 a2 a3 a4 a5 a6 a7 nz r0 t1 r1 t2 r2 t3 r3 t4 r4 t5 r5 t6 r6 t7 r7 A0 A1 A2 A3 A4 A5 A6 A7 hA hnz r0_def t1_def r1_def t2_def r2_def t3_def r3_def t4_def r4_def t5_def r5_def t6_def r6_def t7_def r7_def

/-- post-condition of `secp256k1_scalar_cond_negate(r, flag)` (8×32) in terms of the input limbs -/
def CondNegPost32 (f a0 a1 a2 a3 a4 a5 a6 a7 : Nat) (out : Env × Option Nat) : Prop :=
  val8x32 (out.1.get "r.d" 0) (out.1.get "r.d" 1) (out.1.get "r.d" 2) (out.1.get "r.d" 3) (out.1.get "r.d" 4)
      (out.1.get "r.d" 5) (out.1.get "r.d" 6) (out.1.get "r.d" 7) =
    (if f = 1 then (N - val8x32 a0 a1 a2 a3 a4 a5 a6 a7) % N else val8x32 a0 a1 a2 a3 a4 a5 a6 a7) ∧
  out.2 = some (if f = 1 then 4294967295 else 1) ∧
  out.1.get "r.d" 0 < 2 ^ 32 ∧ out.1.get "r.d" 1 < 2 ^ 32 ∧ out.1.get "r.d" 2 < 2 ^ 32 ∧ out.1.get "r.d" 3 < 2 ^ 32 ∧
  out.1.get "r.d" 4 < 2 ^ 32 ∧ out.1.get "r.d" 5 < 2 ^ 32 ∧ out.1.get "r.d" 6 < 2 ^ 32 ∧ out.1.get "r.d" 7 < 2 ^ 32

set_option maxRecDepth 100000 in
set_option maxHeartbeats 4000000 in
theorem scalar_cond_negate_8x32_run (env : Env) (a0 a1 a2 a3 a4 a5 a6 a7 f : Nat) (hf : env.get "flag" 0 = f)
    (h0 : env.get "r.d" 0 = a0) (h1 : env.get "r.d" 1 = a1) (h2 : env.get "r.d" 2 = a2) (h3 : env.get "r.d" 3 = a3)
    (h4 : env.get "r.d" 4 = a4) (h5 : env.get "r.d" 5 = a5) (h6 : env.get "r.d" 6 = a6) (h7 : env.get "r.d" 7 = a7)
    (F : f ≤ 1) (A0 : a0 < 2 ^ 32) (A1 : a1 < 2 ^ 32) (A2 : a2 < 2 ^ 32) (A3 : a3 < 2 ^ 32) (A4 : a4 < 2 ^ 32)
    (A5 : a5 < 2 ^ 32) (A6 : a6 < 2 ^ 32) (A7 : a7 < 2 ^ 32) (hA : val8x32 a0 a1 a2 a3 a4 a5 a6 a7 < N) :
    CondNegPost32 f a0 a1 a2 a3 a4 a5 a6 a7 (runR env Gen.ct32.scalar_cond_negate.body) := by
  simp only [Gen.ct32.scalar_cond_negate]
  steps 1 [hf, h0, h1, h2, h3, h4, h5, h6, h7]
  vstep mask [hf, h0, h1, h2, h3, h4, h5, h6, h7]
  vstep z [hf, h0, h1, h2, h3, h4, h5, h6, h7]
  vstep nz [hf, h0, h1, h2, h3, h4, h5, h6, h7]
  steps 1 [hf, h0, h1, h2, h3, h4, h5, h6, h7]
  vstep r0 [hf, h0, h1, h2, h3, h4, h5, h6, h7]
  vstep t1 [hf, h0, h1, h2, h3, h4, h5, h6, h7]
  steps 1 [hf, h0, h1, h2, h3, h4, h5, h6, h7]
  vstep r1 [hf, h0, h1, h2, h3, h4, h5, h6, h7]
  vstep t2 [hf, h0, h1, h2, h3, h4, h5, h6, h7]
  steps 1 [hf, h0, h1, h2, h3, h4, h5, h6, h7]
  vstep r2 [hf, h0, h1, h2, h3, h4, h5, h6, h7]
  vstep t3 [hf, h0, h1, h2, h3, h4, h5, h6, h7]
  steps 1 [hf, h0, h1, h2, h3, h4, h5, h6, h7]
  vstep r3 [hf, h0, h1, h2, h3, h4, h5, h6, h7]
  vstep t4 [hf, h0, h1, h2, h3, h4, h5, h6, h7]
  steps 1 [hf, h0, h1, h2, h3, h4, h5, h6, h7]
  vstep r4 [hf, h0, h1, h2, h3, h4, h5, h6, h7]
  vstep t5 [hf, h0, h1, h2, h3, h4, h5, h6, h7]
  steps 1 [hf, h0, h1, h2, h3, h4, h5, h6, h7]
  vstep r5 [hf, h0, h1, h2, h3, h4, h5, h6, h7]
  vstep t6 [hf, h0, h1, h2, h3, h4, h5, h6, h7]
  steps 1 [hf, h0, h1, h2, h3, h4, h5, h6, h7]
  vstep r6 [hf, h0, h1, h2, h3, h4, h5, h6, h7]
  vstep t7 [hf, h0, h1, h2, h3, h4, h5, h6, h7]
  steps 1 [hf, h0, h1, h2, h3, h4, h5, h6, h7]
  vstep r7 [hf, h0, h1, h2, h3, h4, h5, h6, h7]
  steps 1 [hf, h0, h1, h2, h3, h4, h5, h6, h7]
  reads [CondNegPost32]
  have hm := cn_mask32 f mask F mask_def
  obtain ⟨k0, k1, k2, k3, k4, k5, k6, k7, k8⟩ := cond_negate_arith32 a0 a1 a2 a3 a4 a5 a6 a7 f mask nz
    r0 t1 r1 t2 r2 t3 r3 t4 r4 t5 r5 t6 r6 t7 r7 A0 A1 A2 A3 A4 A5 A6 A7 hA hm
    (nonzero_mask32 a0 a1 a2 a3 a4 a5 a6 a7 z nz z_def nz_def)
    r0_def t1_def r1_def t2_def r2_def t3_def r3_def t4_def r4_def t5_def r5_def t6_def r6_def t7_def r7_def
  refine ⟨k0, ?_, k1, k2, k3, k4, k5, k6, k7, k8⟩
  rcases hm with ⟨rfl, rfl⟩ | ⟨rfl, rfl⟩ <;> decide
end scalar

/-! ## 4. `fe_normalizes_to_zero` -/

section ntz
open ScalarKernel

/-- `|` of two C truth values -/
theorem ite_or_ite (p q : Prop) [Decidable p] [Decidable q] :
    (if p then 1 else 0) ||| (if q then 1 else 0) = if p ∨ q then 1 else 0 := by
  by_cases hp : p <;> by_cases hq : q <;> simp [hp, hq]

theorem xor_eq_iff (a b c : Nat) : a ^^^ b = c ↔ a = c ^^^ b := by
  constructor
  · intro h; rw [← h, Nat.xor_assoc, Nat.xor_self, Nat.xor_zero]
  · intro h; rw [h, Nat.xor_assoc, Nat.xor_self, Nat.xor_zero]

theorem and5_eq_mask {a b c d e M : Nat} (ha : a ≤ M) (hb : b ≤ M) (hc : c ≤ M) (hd : d ≤ M) (he : e ≤ M) :
    a &&& b &&& c &&& d &&& e = M ↔ a = M ∧ b = M ∧ c = M ∧ d = M ∧ e = M := by
  rw [and_eq_mask (and_le_mask (and_le_mask (and_le_mask ha))) he, and4_eq_mask ha hb hc hd]
  simp only [and_assoc]

theorem xor_le_M52 {x k : Nat} (hx : x < 4503599627370496) (hk : k < 4503599627370496) : x ^^^ k ≤ 4503599627370495 := by
  have := Nat.xor_lt_two_pow (n := 52) hx hk
  omega

set_option maxRecDepth 100000 in
/-- `secp256k1_fe_impl_normalizes_to_zero` (5×52) returns 1 exactly when the value is a multiple of `p` -/
theorem fe_normalizes_to_zero_5x52_key (env : Env) (h : Mag5 env "r.n" 32) (v : Nat) (hv : v = val5At env "r.n") :
    retW env Gen.ct.fe_normalizes_to_zero.body = some (if v % P = 0 then 1 else 0) := by
  simp only [Mag5, val5At, val5] at h hv
  simp only [Gen.ct.fe_normalizes_to_zero]
  minic_evalRet
  generalize env.get "r.n" 0 = r0 at *
  generalize env.get "r.n" 1 = r1 at *
  generalize env.get "r.n" 2 = r2 at *
  generalize env.get "r.n" 3 = r3 at *
  generalize env.get "r.n" 4 = r4 at *
  simp only [Nat.reducePow, and_M52, and_M48] at h hv ⊢
  generalize hx : r4 / 281474976710656 = x at *
  have hx63 : x ≤ 63 := by omega
  generalize ht0a : (r0 + x * 4294968273 % 18446744073709551616) % 18446744073709551616 = t0a at *
  have e0 : t0a = r0 + x * 4294968273 := by omega
  clear ht0a
  generalize ht1a : (r1 + t0a / 4503599627370496) % 18446744073709551616 = t1a at *
  have e1 : t1a = r1 + t0a / 4503599627370496 := by omega
  clear ht1a
  generalize ht2a : (r2 + t1a / 4503599627370496) % 18446744073709551616 = t2a at *
  have e2 : t2a = r2 + t1a / 4503599627370496 := by omega
  clear ht2a
  generalize ht3a : (r3 + t2a / 4503599627370496) % 18446744073709551616 = t3a at *
  have e3 : t3a = r3 + t2a / 4503599627370496 := by omega
  clear ht3a
  generalize ht4b : (r4 % 281474976710656 + t3a / 4503599627370496) % 18446744073709551616 = t4b at *
  have e4 : t4b = r4 % 281474976710656 + t3a / 4503599627370496 := by omega
  clear ht4b
  have hT : t0a % 4503599627370496 + t1a % 4503599627370496 * 4503599627370496 +
      t2a % 4503599627370496 * 20282409603651670423947251286016 +
      t3a % 4503599627370496 * 91343852333181432387730302044767688728495783936 +
      t4b * 411376139330301510538742295639337626245683966408394965837152256 +
      x * 115792089237316195423570985008687907853269984665640564039457584007908834671663 = v := by omega
  have hb4 : t4b ≤ 281474976710655 + 64 := by omega
  generalize hs0 : t0a % 4503599627370496 = s0 at *
  generalize hs1 : t1a % 4503599627370496 = s1 at *
  generalize hs2 : t2a % 4503599627370496 = s2 at *
  generalize hs3 : t3a % 4503599627370496 = s3 at *
  have hs0' : s0 < 4503599627370496 := by omega
  have hs1' : s1 < 4503599627370496 := by omega
  have hs2' : s2 < 4503599627370496 := by omega
  have hs3' : s3 < 4503599627370496 := by omega
  clear hs0 hs1 hs2 hs3 e0 e1 e2 e3 e4 hx hx63 h hv t0a t1a t2a t3a
  have hx0 := xor_le_M52 hs0' (show 4294968272 < 4503599627370496 by decide)
  have hx4 := xor_le_M52 (show t4b < 4503599627370496 by omega) (show 4222124650659840 < 4503599627370496 by decide)
  simp only [ite_or_ite, and5_eq_mask hx0 (show s1 ≤ 4503599627370495 by omega) (show s2 ≤ 4503599627370495 by omega)
    (show s3 ≤ 4503599627370495 by omega) hx4, Nat.or_eq_zero_iff, xor_eq_iff, Nat.reduceXor]
  have key : ((((s0 = 0 ∧ s1 = 0) ∧ s2 = 0) ∧ s3 = 0) ∧ t4b = 0 ∨
      s0 = 4503595332402223 ∧ s1 = 4503599627370495 ∧ s2 = 4503599627370495 ∧ s3 = 4503599627370495 ∧
        t4b = 281474976710655) ↔
      v % P = 0 := by
    clear hx0 hx4
    simp only [P]
    generalize hTd : s0 + s1 * 4503599627370496 + s2 * 20282409603651670423947251286016 +
      s3 * 91343852333181432387730302044767688728495783936 +
      t4b * 411376139330301510538742295639337626245683966408394965837152256 = T at hT
    have hTlt : T < 2 * 115792089237316195423570985008687907853269984665640564039457584007908834671663 := by omega
    have hmod : v % 115792089237316195423570985008687907853269984665640564039457584007908834671663 =
        T % 115792089237316195423570985008687907853269984665640564039457584007908834671663 := by
      rw [← hT, Nat.add_mul_mod_self_right]
    rw [hmod]
    constructor
    · rintro (h | h)
      · have : T = 0 := by omega
        subst this; rfl
      · have : T = 115792089237316195423570985008687907853269984665640564039457584007908834671663 := by omega
        subst this; rfl
    · intro h
      have h2 : T = 0 ∨ T = 115792089237316195423570985008687907853269984665640564039457584007908834671663 := by
        clear hTd hT hmod; omega
      rcases h2 with rfl | rfl
      · left; omega
      · right; omega
  simp only [key]


/-- one `z1 &= t` step: the accumulator stays below the mask and is all-ones iff both operands are -/
theorem and_step {y s M : Nat} (hy : y ≤ M) (hs : s ≤ M) : y &&& s ≤ M ∧ (y &&& s = M ↔ y = M ∧ s = M) :=
  ⟨and_le_mask hy, and_eq_mask hy hs⟩

theorem xor_le_M26 {x k : Nat} (hx : x < 67108864) (hk : k < 67108864) : x ^^^ k ≤ 67108863 := by
  have := Nat.xor_lt_two_pow (n := 26) hx hk
  omega


/-- one `z1 &= (t ^ k)` step with a conversion to `uint32_t` -/
theorem and_xor_step {y s k M : Nat} (hy : y ≤ M) (hs : s ^^^ k ≤ M) (hM : M < 4294967296) :
    (y &&& (s ^^^ k)) % 4294967296 ≤ M ∧ ((y &&& (s ^^^ k)) % 4294967296 = M ↔ y = M ∧ s = M ^^^ k) := by
  have hb : y &&& (s ^^^ k) ≤ M := and_le_mask hy
  rw [Nat.mod_eq_of_lt (by omega), and_eq_mask hy hs, xor_eq_iff]
  exact ⟨hb, Iff.rfl⟩


set_option maxRecDepth 100000 in
set_option maxHeartbeats 4000000 in
theorem fe_normalizes_to_zero_10x26_run (env : Env) (r0 r1 r2 r3 r4 r5 r6 r7 r8 r9 : Nat)
    (h0 : env.get "r.n" 0 = r0) (h1 : env.get "r.n" 1 = r1) (h2 : env.get "r.n" 2 = r2) (h3 : env.get "r.n" 3 = r3)
    (h4 : env.get "r.n" 4 = r4) (h5 : env.get "r.n" 5 = r5) (h6 : env.get "r.n" 6 = r6) (h7 : env.get "r.n" 7 = r7)
    (h8 : env.get "r.n" 8 = r8) (h9 : env.get "r.n" 9 = r9)
    (hm : r0 ≤ 4294967232 ∧ r1 ≤ 4294967232 ∧ r2 ≤ 4294967232 ∧ r3 ≤ 4294967232 ∧ r4 ≤ 4294967232 ∧ r5 ≤ 4294967232 ∧
      r6 ≤ 4294967232 ∧ r7 ≤ 4294967232 ∧ r8 ≤ 4294967232 ∧ r9 ≤ 268435392)
    (hov0 : r0 + r9 / 4194304 * 977 < 4294967296)
    (hov1 : r1 + r9 / 4194304 * 64 + (r0 + r9 / 4194304 * 977) / 67108864 < 4294967296) :
    RetPost (if val10 r0 r1 r2 r3 r4 r5 r6 r7 r8 r9 % P = 0 then 1 else 0)
      (runR env Gen.ct32.fe_normalizes_to_zero.body) := by
  simp only [Gen.ct32.fe_normalizes_to_zero]

  steps 10 [h0, h1, h2, h3, h4, h5, h6, h7, h8, h9]
  vstep x [h0, h1, h2, h3, h4, h5, h6, h7, h8, h9]
  vstep m9 [h0, h1, h2, h3, h4, h5, h6, h7, h8, h9]
  vstep t0a [h0, h1, h2, h3, h4, h5, h6, h7, h8, h9]
  vstep t1a [h0, h1, h2, h3, h4, h5, h6, h7, h8, h9]
  vstep t1b [h0, h1, h2, h3, h4, h5, h6, h7, h8, h9]
  vstep s0 [h0, h1, h2, h3, h4, h5, h6, h7, h8, h9]
  steps 1 [h0, h1, h2, h3, h4, h5, h6, h7, h8, h9]
  vstep y0 [h0, h1, h2, h3, h4, h5, h6, h7, h8, h9]
  vstep t2a [h0, h1, h2, h3, h4, h5, h6, h7, h8, h9]
  vstep s1 [h0, h1, h2, h3, h4, h5, h6, h7, h8, h9]
  vstep w1 [h0, h1, h2, h3, h4, h5, h6, h7, h8, h9]
  vstep y1 [h0, h1, h2, h3, h4, h5, h6, h7, h8, h9]
  vstep t3a [h0, h1, h2, h3, h4, h5, h6, h7, h8, h9]
  vstep s2 [h0, h1, h2, h3, h4, h5, h6, h7, h8, h9]
  vstep w2 [h0, h1, h2, h3, h4, h5, h6, h7, h8, h9]
  vstep y2 [h0, h1, h2, h3, h4, h5, h6, h7, h8, h9]
  vstep t4a [h0, h1, h2, h3, h4, h5, h6, h7, h8, h9]
  vstep s3 [h0, h1, h2, h3, h4, h5, h6, h7, h8, h9]
  vstep w3 [h0, h1, h2, h3, h4, h5, h6, h7, h8, h9]
  vstep y3 [h0, h1, h2, h3, h4, h5, h6, h7, h8, h9]
  vstep t5a [h0, h1, h2, h3, h4, h5, h6, h7, h8, h9]
  vstep s4 [h0, h1, h2, h3, h4, h5, h6, h7, h8, h9]
  vstep w4 [h0, h1, h2, h3, h4, h5, h6, h7, h8, h9]
  vstep y4 [h0, h1, h2, h3, h4, h5, h6, h7, h8, h9]
  vstep t6a [h0, h1, h2, h3, h4, h5, h6, h7, h8, h9]
  vstep s5 [h0, h1, h2, h3, h4, h5, h6, h7, h8, h9]
  vstep w5 [h0, h1, h2, h3, h4, h5, h6, h7, h8, h9]
  vstep y5 [h0, h1, h2, h3, h4, h5, h6, h7, h8, h9]
  vstep t7a [h0, h1, h2, h3, h4, h5, h6, h7, h8, h9]
  vstep s6 [h0, h1, h2, h3, h4, h5, h6, h7, h8, h9]
  vstep w6 [h0, h1, h2, h3, h4, h5, h6, h7, h8, h9]
  vstep y6 [h0, h1, h2, h3, h4, h5, h6, h7, h8, h9]
  vstep t8a [h0, h1, h2, h3, h4, h5, h6, h7, h8, h9]
  vstep s7 [h0, h1, h2, h3, h4, h5, h6, h7, h8, h9]
  vstep w7 [h0, h1, h2, h3, h4, h5, h6, h7, h8, h9]
  vstep y7 [h0, h1, h2, h3, h4, h5, h6, h7, h8, h9]
  vstep t9a [h0, h1, h2, h3, h4, h5, h6, h7, h8, h9]
  vstep s8 [h0, h1, h2, h3, h4, h5, h6, h7, h8, h9]
  vstep w8 [h0, h1, h2, h3, h4, h5, h6, h7, h8, h9]
  vstep y8 [h0, h1, h2, h3, h4, h5, h6, h7, h8, h9]
  vstep w9 [h0, h1, h2, h3, h4, h5, h6, h7, h8, h9]
  vstep y9 [h0, h1, h2, h3, h4, h5, h6, h7, h8, h9]
  steps 1 [h0, h1, h2, h3, h4, h5, h6, h7, h8, h9]

  simp only [RetPost]
  simp only [binWrap_add, binWrap_mul, binWrap_shr, binWrap_shl, binWrap_and, binWrap_or, binWrap_xor, and_M26, and_M22, Nat.reducePow] at x_def m9_def t0a_def t1a_def t1b_def s0_def y0_def t2a_def s1_def w1_def y1_def t3a_def s2_def w2_def y2_def t4a_def s3_def w3_def y3_def t5a_def s4_def w4_def y4_def t6a_def s5_def w5_def y5_def t7a_def s6_def w6_def y6_def t8a_def s7_def w7_def y7_def t9a_def s8_def w8_def y8_def w9_def y9_def
  clear h0 h1 h2 h3 h4 h5 h6 h7 h8 h9
  obtain ⟨m0, m1, m2, m3, m4, m5, m6, m7, m8, m9b⟩ := hm
  rw [← x_def] at hov0 hov1
  have hx63 : x ≤ 63 := by omega
  have e0 : t0a = r0 + x * 977 := by omega
  have e1 : t1b = r1 + x * 64 + t0a / 67108864 := by omega
  have e2 : t2a = r2 + t1b / 67108864 := by omega
  have e3 : t3a = r3 + t2a / 67108864 := by omega
  have e4 : t4a = r4 + t3a / 67108864 := by omega
  have e5 : t5a = r5 + t4a / 67108864 := by omega
  have e6 : t6a = r6 + t5a / 67108864 := by omega
  have e7 : t7a = r7 + t6a / 67108864 := by omega
  have e8 : t8a = r8 + t7a / 67108864 := by omega
  have e9 : t9a = r9 % 4194304 + t8a / 67108864 := by omega
  have f0 : s0 = t0a % 67108864 := by omega
  have f1 : s1 = t1b % 67108864 := by omega
  have f2 : s2 = t2a % 67108864 := by omega
  have f3 : s3 = t3a % 67108864 := by omega
  have f4 : s4 = t4a % 67108864 := by omega
  have f5 : s5 = t5a % 67108864 := by omega
  have f6 : s6 = t6a % 67108864 := by omega
  have f7 : s7 = t7a % 67108864 := by omega
  have f8 : s8 = t8a % 67108864 := by omega
  clear t0a_def t1a_def t1b_def t2a_def t3a_def t4a_def t5a_def t6a_def t7a_def t8a_def t9a_def m9_def s0_def s1_def s2_def s3_def s4_def s5_def s6_def s7_def s8_def
  have hT : s0 + s1 * 67108864 + s2 * 4503599627370496 + s3 * 302231454903657293676544 + s4 * 20282409603651670423947251286016 + s5 * 1361129467683753853853498429727072845824 + s6 * 91343852333181432387730302044767688728495783936 + s7 * 6129982163463555433433388108601236734474956488734408704 + s8 * 411376139330301510538742295639337626245683966408394965837152256 + t9a * 27606985387162255149739023449108101809804435888681546220650096895197184 +
      x * 115792089237316195423570985008687907853269984665640564039457584007908834671663 =
      r0 + r1 * 67108864 + r2 * 4503599627370496 + r3 * 302231454903657293676544 + r4 * 20282409603651670423947251286016 + r5 * 1361129467683753853853498429727072845824 + r6 * 91343852333181432387730302044767688728495783936 + r7 * 6129982163463555433433388108601236734474956488734408704 + r8 * 411376139330301510538742295639337626245683966408394965837152256 + r9 * 27606985387162255149739023449108101809804435888681546220650096895197184 := by omega
  have hb9 : t9a ≤ 4194303 + 63 := by omega
  have hs0 : s0 < 67108864 := by omega
  have hs1 : s1 < 67108864 := by omega
  have hs2 : s2 < 67108864 := by omega
  have hs3 : s3 < 67108864 := by omega
  have hs4 : s4 < 67108864 := by omega
  have hs5 : s5 < 67108864 := by omega
  have hs6 : s6 < 67108864 := by omega
  have hs7 : s7 < 67108864 := by omega
  have hs8 : s8 < 67108864 := by omega
  clear e0 e1 e2 e3 e4 e5 e6 e7 e8 e9 f0 f1 f2 f3 f4 f5 f6 f7 f8 hov0 hov1 x_def m0 m1 m2 m3 m4 m5 m6 m7 m8 m9b hx63
  -- the `z1` chain: all-ones iff the limbs are those of `p`
  have hy0 : y0 ≤ 67108863 ∧ (y0 = 67108863 ↔ s0 = 67108863 ^^^ 976) := by
    have hb := xor_le_M26 hs0 (show 976 < 67108864 by decide)
    rw [y0_def, Nat.mod_eq_of_lt (by omega), xor_eq_iff]; exact ⟨hb, Iff.rfl⟩
  have hy1 : y1 ≤ 67108863 ∧ (y1 = 67108863 ↔ y0 = 67108863 ∧ s1 = 67108863 ^^^ 64) := by
    rw [y1_def]; exact and_xor_step hy0.1 (xor_le_M26 hs1 (by decide)) (by decide)
  have hy2 : y2 ≤ 67108863 ∧ (y2 = 67108863 ↔ y1 = 67108863 ∧ s2 = 67108863) := by
    rw [y2_def]; exact and_step hy1.1 (by omega)
  have hy3 : y3 ≤ 67108863 ∧ (y3 = 67108863 ↔ y2 = 67108863 ∧ s3 = 67108863) := by
    rw [y3_def]; exact and_step hy2.1 (by omega)
  have hy4 : y4 ≤ 67108863 ∧ (y4 = 67108863 ↔ y3 = 67108863 ∧ s4 = 67108863) := by
    rw [y4_def]; exact and_step hy3.1 (by omega)
  have hy5 : y5 ≤ 67108863 ∧ (y5 = 67108863 ↔ y4 = 67108863 ∧ s5 = 67108863) := by
    rw [y5_def]; exact and_step hy4.1 (by omega)
  have hy6 : y6 ≤ 67108863 ∧ (y6 = 67108863 ↔ y5 = 67108863 ∧ s6 = 67108863) := by
    rw [y6_def]; exact and_step hy5.1 (by omega)
  have hy7 : y7 ≤ 67108863 ∧ (y7 = 67108863 ↔ y6 = 67108863 ∧ s7 = 67108863) := by
    rw [y7_def]; exact and_step hy6.1 (by omega)
  have hy8 : y8 ≤ 67108863 ∧ (y8 = 67108863 ↔ y7 = 67108863 ∧ s8 = 67108863) := by
    rw [y8_def]; exact and_step hy7.1 (by omega)
  have hy9 : y9 ≤ 67108863 ∧ (y9 = 67108863 ↔ y8 = 67108863 ∧ t9a = 67108863 ^^^ 62914560) := by
    rw [y9_def]; exact and_xor_step hy8.1 (xor_le_M26 (by omega) (by decide)) (by decide)
  have hY : y9 = 67108863 ↔ (s0 = 67107887 ∧ s1 = 67108799 ∧ s2 = 67108863 ∧ s3 = 67108863 ∧ s4 = 67108863 ∧ s5 = 67108863 ∧ s6 = 67108863 ∧ s7 = 67108863 ∧ s8 = 67108863 ∧ t9a = 4194303) := by
    rw [hy9.2, hy8.2, hy7.2, hy6.2, hy5.2, hy4.2, hy3.2, hy2.2, hy1.2, hy0.2]
    simp only [Nat.reduceXor, and_assoc]
  have hW : w9 = 0 ↔ (s0 = 0 ∧ s1 = 0 ∧ s2 = 0 ∧ s3 = 0 ∧ s4 = 0 ∧ s5 = 0 ∧ s6 = 0 ∧ s7 = 0 ∧ s8 = 0 ∧ t9a = 0) := by
    rw [w9_def, w8_def, w7_def, w6_def, w5_def, w4_def, w3_def, w2_def, w1_def]
    simp only [Nat.or_eq_zero_iff, and_assoc]
  clear hy0 hy1 hy2 hy3 hy4 hy5 hy6 hy7 hy8 hy9 y0_def y1_def y2_def y3_def y4_def y5_def y6_def y7_def y8_def y9_def w1_def w2_def w3_def w4_def w5_def w6_def w7_def w8_def w9_def
  simp only [binWrap_or, binWrap_eq, ite_or_ite, hY, hW]
  have key : ((s0 = 0 ∧ s1 = 0 ∧ s2 = 0 ∧ s3 = 0 ∧ s4 = 0 ∧ s5 = 0 ∧ s6 = 0 ∧ s7 = 0 ∧ s8 = 0 ∧ t9a = 0) ∨
      (s0 = 67107887 ∧ s1 = 67108799 ∧ s2 = 67108863 ∧ s3 = 67108863 ∧ s4 = 67108863 ∧ s5 = 67108863 ∧ s6 = 67108863 ∧ s7 = 67108863 ∧ s8 = 67108863 ∧ t9a = 4194303)) ↔
      val10 r0 r1 r2 r3 r4 r5 r6 r7 r8 r9 % P = 0 := by
    clear hY hW
    simp only [val10, P, Nat.reducePow]
    rw [← hT]
    generalize hTd : s0 + s1 * 67108864 + s2 * 4503599627370496 + s3 * 302231454903657293676544 + s4 * 20282409603651670423947251286016 + s5 * 1361129467683753853853498429727072845824 + s6 * 91343852333181432387730302044767688728495783936 + s7 * 6129982163463555433433388108601236734474956488734408704 + s8 * 411376139330301510538742295639337626245683966408394965837152256 + t9a * 27606985387162255149739023449108101809804435888681546220650096895197184 = T
    have hTlt : T < 2 * 115792089237316195423570985008687907853269984665640564039457584007908834671663 := by omega
    rw [Nat.add_mul_mod_self_right]
    constructor
    · rintro (h | h)
      · have : T = 0 := by omega
        subst this; rfl
      · have : T = 115792089237316195423570985008687907853269984665640564039457584007908834671663 := by omega
        subst this; rfl
    · intro h
      have h2 : T = 0 ∨ T = 115792089237316195423570985008687907853269984665640564039457584007908834671663 := by
        clear hTd hT; omega
      rcases h2 with rfl | rfl
      · left; omega
      · right; omega
  simp only [key]
end ntz

/-! ## 5. `fe_get_b32` -/

section getb32


theorem and_255 (x : Nat) : x &&& 255 = x % 256 := Nat.and_two_pow_sub_one_eq_mod x 8
theorem and_63 (x : Nat) : x &&& 63 = x % 64 := Nat.and_two_pow_sub_one_eq_mod x 6
theorem and_15 (x : Nat) : x &&& 15 = x % 16 := Nat.and_two_pow_sub_one_eq_mod x 4
theorem and_3 (x : Nat) : x &&& 3 = x % 4 := Nat.and_two_pow_sub_one_eq_mod x 2

/-- `(x & 15) | ((y & 15) << 4)` as a byte (5×52: the nibble that straddles two limbs) -/
theorem mix52 (x y : Nat) : (x &&& 15 ||| (y &&& 15) * 16 % 18446744073709551616) % 256 = x % 16 + y % 16 * 16 := by
  rw [and_15, and_15, Nat.mod_eq_of_lt (show y % 16 * 16 < 18446744073709551616 by omega), Nat.or_comm,
    shl4_or _ _ (by omega)]
  omega

/-- `((y & m) << k) | (x & (2^k-1))` as a byte (10×26: the bits that straddle two limbs) -/
theorem mix26a (x y : Nat) : ((y &&& 63) * 4 % 4294967296 ||| x &&& 3) % 256 = x % 4 + y % 64 * 4 := by
  rw [and_63, and_3, Nat.mod_eq_of_lt (show y % 64 * 4 < 4294967296 by omega), show y % 64 * 4 = y % 64 * 2 ^ 2 from rfl, shl_or _ _ 2 (by omega)]
  omega

theorem mix26b (x y : Nat) : ((y &&& 3) * 64 % 4294967296 ||| x &&& 63) % 256 = x % 64 + y % 4 * 64 := by
  rw [and_63, and_3, Nat.mod_eq_of_lt (show y % 4 * 64 < 4294967296 by omega), show y % 4 * 64 = y % 4 * 2 ^ 6 from rfl, shl_or _ _ 6 (by omega)]
  omega

theorem mix26c (x y : Nat) : ((y &&& 15) * 16 % 4294967296 ||| x &&& 15) % 256 = x % 16 + y % 16 * 16 := by
  rw [and_15, and_15, Nat.mod_eq_of_lt (show y % 16 * 16 < 4294967296 by omega), shl4_or _ _ (by omega)]
  omega

theorem mod256_mod256 (x : Nat) : x % 256 % 256 = x % 256 := Nat.mod_mod _ _

set_option maxRecDepth 100000 in
/-- `secp256k1_fe_impl_get_b32` (5×52): the 32 output cells as bit fields of the limbs -/
theorem fe_get_b32_5x52_key (env : Env) :
    (runW env Gen.ct.fe_get_b32.body).get "r" 0 = env.get "a.n" 4 / 1099511627776 % 256 ∧
    (runW env Gen.ct.fe_get_b32.body).get "r" 1 = env.get "a.n" 4 / 4294967296 % 256 ∧
    (runW env Gen.ct.fe_get_b32.body).get "r" 2 = env.get "a.n" 4 / 16777216 % 256 ∧
    (runW env Gen.ct.fe_get_b32.body).get "r" 3 = env.get "a.n" 4 / 65536 % 256 ∧
    (runW env Gen.ct.fe_get_b32.body).get "r" 4 = env.get "a.n" 4 / 256 % 256 ∧
    (runW env Gen.ct.fe_get_b32.body).get "r" 5 = env.get "a.n" 4 % 256 ∧
    (runW env Gen.ct.fe_get_b32.body).get "r" 6 = env.get "a.n" 3 / 17592186044416 % 256 ∧
    (runW env Gen.ct.fe_get_b32.body).get "r" 7 = env.get "a.n" 3 / 68719476736 % 256 ∧
    (runW env Gen.ct.fe_get_b32.body).get "r" 8 = env.get "a.n" 3 / 268435456 % 256 ∧
    (runW env Gen.ct.fe_get_b32.body).get "r" 9 = env.get "a.n" 3 / 1048576 % 256 ∧
    (runW env Gen.ct.fe_get_b32.body).get "r" 10 = env.get "a.n" 3 / 4096 % 256 ∧
    (runW env Gen.ct.fe_get_b32.body).get "r" 11 = env.get "a.n" 3 / 16 % 256 ∧
    (runW env Gen.ct.fe_get_b32.body).get "r" 12 = env.get "a.n" 2 / 281474976710656 % 16 + env.get "a.n" 3 % 16 * 16 ∧
    (runW env Gen.ct.fe_get_b32.body).get "r" 13 = env.get "a.n" 2 / 1099511627776 % 256 ∧
    (runW env Gen.ct.fe_get_b32.body).get "r" 14 = env.get "a.n" 2 / 4294967296 % 256 ∧
    (runW env Gen.ct.fe_get_b32.body).get "r" 15 = env.get "a.n" 2 / 16777216 % 256 ∧
    (runW env Gen.ct.fe_get_b32.body).get "r" 16 = env.get "a.n" 2 / 65536 % 256 ∧
    (runW env Gen.ct.fe_get_b32.body).get "r" 17 = env.get "a.n" 2 / 256 % 256 ∧
    (runW env Gen.ct.fe_get_b32.body).get "r" 18 = env.get "a.n" 2 % 256 ∧
    (runW env Gen.ct.fe_get_b32.body).get "r" 19 = env.get "a.n" 1 / 17592186044416 % 256 ∧
    (runW env Gen.ct.fe_get_b32.body).get "r" 20 = env.get "a.n" 1 / 68719476736 % 256 ∧
    (runW env Gen.ct.fe_get_b32.body).get "r" 21 = env.get "a.n" 1 / 268435456 % 256 ∧
    (runW env Gen.ct.fe_get_b32.body).get "r" 22 = env.get "a.n" 1 / 1048576 % 256 ∧
    (runW env Gen.ct.fe_get_b32.body).get "r" 23 = env.get "a.n" 1 / 4096 % 256 ∧
    (runW env Gen.ct.fe_get_b32.body).get "r" 24 = env.get "a.n" 1 / 16 % 256 ∧
    (runW env Gen.ct.fe_get_b32.body).get "r" 25 = env.get "a.n" 0 / 281474976710656 % 16 + env.get "a.n" 1 % 16 * 16 ∧
    (runW env Gen.ct.fe_get_b32.body).get "r" 26 = env.get "a.n" 0 / 1099511627776 % 256 ∧
    (runW env Gen.ct.fe_get_b32.body).get "r" 27 = env.get "a.n" 0 / 4294967296 % 256 ∧
    (runW env Gen.ct.fe_get_b32.body).get "r" 28 = env.get "a.n" 0 / 16777216 % 256 ∧
    (runW env Gen.ct.fe_get_b32.body).get "r" 29 = env.get "a.n" 0 / 65536 % 256 ∧
    (runW env Gen.ct.fe_get_b32.body).get "r" 30 = env.get "a.n" 0 / 256 % 256 ∧
    (runW env Gen.ct.fe_get_b32.body).get "r" 31 = env.get "a.n" 0 % 256 := by
  simp only [Gen.ct.fe_get_b32]
  minic_evalW
  simp only [Nat.reducePow, mix52, and_255, mod256_mod256, and_self]

set_option maxRecDepth 100000 in
/-- `secp256k1_fe_impl_get_b32` (10×26): the 32 output cells as bit fields of the limbs -/
theorem fe_get_b32_10x26_key (env : Env) :
    (runW env Gen.ct32.fe_get_b32.body).get "r" 0 = env.get "a.n" 9 / 16384 % 256 ∧
    (runW env Gen.ct32.fe_get_b32.body).get "r" 1 = env.get "a.n" 9 / 64 % 256 ∧
    (runW env Gen.ct32.fe_get_b32.body).get "r" 2 = env.get "a.n" 8 / 16777216 % 4 + env.get "a.n" 9 % 64 * 4 ∧
    (runW env Gen.ct32.fe_get_b32.body).get "r" 3 = env.get "a.n" 8 / 65536 % 256 ∧
    (runW env Gen.ct32.fe_get_b32.body).get "r" 4 = env.get "a.n" 8 / 256 % 256 ∧
    (runW env Gen.ct32.fe_get_b32.body).get "r" 5 = env.get "a.n" 8 % 256 ∧
    (runW env Gen.ct32.fe_get_b32.body).get "r" 6 = env.get "a.n" 7 / 262144 % 256 ∧
    (runW env Gen.ct32.fe_get_b32.body).get "r" 7 = env.get "a.n" 7 / 1024 % 256 ∧
    (runW env Gen.ct32.fe_get_b32.body).get "r" 8 = env.get "a.n" 7 / 4 % 256 ∧
    (runW env Gen.ct32.fe_get_b32.body).get "r" 9 = env.get "a.n" 6 / 1048576 % 64 + env.get "a.n" 7 % 4 * 64 ∧
    (runW env Gen.ct32.fe_get_b32.body).get "r" 10 = env.get "a.n" 6 / 4096 % 256 ∧
    (runW env Gen.ct32.fe_get_b32.body).get "r" 11 = env.get "a.n" 6 / 16 % 256 ∧
    (runW env Gen.ct32.fe_get_b32.body).get "r" 12 = env.get "a.n" 5 / 4194304 % 16 + env.get "a.n" 6 % 16 * 16 ∧
    (runW env Gen.ct32.fe_get_b32.body).get "r" 13 = env.get "a.n" 5 / 16384 % 256 ∧
    (runW env Gen.ct32.fe_get_b32.body).get "r" 14 = env.get "a.n" 5 / 64 % 256 ∧
    (runW env Gen.ct32.fe_get_b32.body).get "r" 15 = env.get "a.n" 4 / 16777216 % 4 + env.get "a.n" 5 % 64 * 4 ∧
    (runW env Gen.ct32.fe_get_b32.body).get "r" 16 = env.get "a.n" 4 / 65536 % 256 ∧
    (runW env Gen.ct32.fe_get_b32.body).get "r" 17 = env.get "a.n" 4 / 256 % 256 ∧
    (runW env Gen.ct32.fe_get_b32.body).get "r" 18 = env.get "a.n" 4 % 256 ∧
    (runW env Gen.ct32.fe_get_b32.body).get "r" 19 = env.get "a.n" 3 / 262144 % 256 ∧
    (runW env Gen.ct32.fe_get_b32.body).get "r" 20 = env.get "a.n" 3 / 1024 % 256 ∧
    (runW env Gen.ct32.fe_get_b32.body).get "r" 21 = env.get "a.n" 3 / 4 % 256 ∧
    (runW env Gen.ct32.fe_get_b32.body).get "r" 22 = env.get "a.n" 2 / 1048576 % 64 + env.get "a.n" 3 % 4 * 64 ∧
    (runW env Gen.ct32.fe_get_b32.body).get "r" 23 = env.get "a.n" 2 / 4096 % 256 ∧
    (runW env Gen.ct32.fe_get_b32.body).get "r" 24 = env.get "a.n" 2 / 16 % 256 ∧
    (runW env Gen.ct32.fe_get_b32.body).get "r" 25 = env.get "a.n" 1 / 4194304 % 16 + env.get "a.n" 2 % 16 * 16 ∧
    (runW env Gen.ct32.fe_get_b32.body).get "r" 26 = env.get "a.n" 1 / 16384 % 256 ∧
    (runW env Gen.ct32.fe_get_b32.body).get "r" 27 = env.get "a.n" 1 / 64 % 256 ∧
    (runW env Gen.ct32.fe_get_b32.body).get "r" 28 = env.get "a.n" 0 / 16777216 % 4 + env.get "a.n" 1 % 64 * 4 ∧
    (runW env Gen.ct32.fe_get_b32.body).get "r" 29 = env.get "a.n" 0 / 65536 % 256 ∧
    (runW env Gen.ct32.fe_get_b32.body).get "r" 30 = env.get "a.n" 0 / 256 % 256 ∧
    (runW env Gen.ct32.fe_get_b32.body).get "r" 31 = env.get "a.n" 0 % 256 := by
  simp only [Gen.ct32.fe_get_b32]
  minic_evalW
  simp only [Nat.reducePow, mix26a, mix26b, mix26c, and_255, mod256_mod256, and_self]

end getb32

end CtSpec
end SecpZkp
