import SecpZkp.Gen.F_generator
import SecpZkp.Proofs.Generator
import SecpZkp.Proofs.EllswiftIR
/-
  Helpers for `Props/C08_ir.lean`: the generated IR of `shallue_van_de_woestijne` (`Gen/F_generator.lean`, regenerated
  from src/modules/generator/main_impl.h) computes exactly the hand-written model `Generator.svdw`.

  * the values of the C variables `wd`, `x3d`, `jinv`, `x1`, `x2`, `x3` as functions of (the value of) `t`, in the shape
    the C code computes them (`wdv`, …, `x3v`, `rhsv`),
  * `svSel0` / `svSel`: the constant-time selection (`cmov` by `(!alphaquad) & betaquad`, `(!alphaquad) & !betaquad`) and the final
    sign choice, as a function of the three candidates,
  * `svdw_model0` / `svdw_model`: `Generator.svdw t` is `svSel0` of these values and of the parity of `t` (pure
    unfolding), and `Generator.svdw (t % P)` is `svSel` of the values for the unreduced `t`,
  * rules for the integer flag expressions of the `cmov`s, the flag of `secp256k1_fe_sqrt` as `Fe.isSquare`,
  * the tactic `sv_run` (symbolic execution, as `fe_run` of `Proofs/EllswiftIR.lean`, with the constants of this module).
-/
namespace SecpZkp
namespace FeIR
open MiniC

/-! ### The flag of `secp256k1_fe_sqrt` and the `cmov` conditions -/

/-- the flag returned by `secp256k1_fe_sqrt` is the model's `Fe.isSquare` -/
theorem sqrtFlag_eq (a : ℕ) : sqrtFlag a = if Fe.isSquare a = true then 1 else 0 := by
  unfold sqrtFlag Fe.isSquare
  by_cases h : Fe.sqr (Fe.sqrtCand a) = a % P <;> simp [h]

/-- `f & g` on two 0/1 flags -/
theorem binIdeal_and_flags (c d : Prop) [Decidable c] [Decidable d] :
    binIdeal .and (if c then 1 else 0) (if d then 1 else 0) = if c ∧ d then 1 else 0 := by
  by_cases hc : c <;> by_cases hd : d <;> simp [hc, hd, binIdeal]

/-! ### The constants of the generated code -/

theorem negc_lit : (111189151296659785738170805967605665488771904429376448443557023963485213164509 : ℕ) =
    Generator.negc := by decide
theorem dconst_lit : (60197513588986302554485582024885075108884032450952339817679072026166228089408 : ℕ) =
    Generator.dconst := by decide
theorem negc_lt_P : Generator.negc < P := by decide
theorem dconst_lt_P : Generator.dconst < P := by decide
theorem lit_negc : lit Generator.negc = Generator.negc := lit_eq _
theorem lit_dconst : lit Generator.dconst = Generator.dconst := lit_eq _

/-! ### The values computed by the first part of the function -/

/-- `wd = t² + 8` -/
def wdv (T : ℕ) : ℕ := Fe.add (Fe.sqr T) 8
/-- `x3d = -(3 · t²)` (the C code computes `t² · 3`) -/
def x3dv (T : ℕ) : ℕ := Fe.neg (Fe.mul 3 (Fe.sqr T))
/-- `jinv = 1 / (wd · x3d)` (`secp256k1_fe_inv`: 0 on 0) -/
def jinvv (T : ℕ) : ℕ := Fe.inv (Fe.mul (wdv T) (x3dv T))
/-- `x1 = negc · t² · x3d · jinv + d` -/
def x1v (T : ℕ) : ℕ := Fe.add (Fe.mul (Fe.mul (Fe.mul Generator.negc (Fe.sqr T)) (x3dv T)) (jinvv T)) Generator.dconst
/-- `x2 = -(x1 + 1)` -/
def x2v (T : ℕ) : ℕ := Fe.neg (Fe.add (x1v T) 1)
/-- `x3 = wd² · wd · jinv + 1` -/
def x3v (T : ℕ) : ℕ := Fe.add (Fe.mul (Fe.mul (Fe.sqr (wdv T)) (wdv T)) (jinvv T)) 1
/-- `x² · x + 7`, as the function computes the right-hand side of the curve equation -/
def rhsv (x : ℕ) : ℕ := Fe.add (Fe.mul (Fe.sqr x) x) 7

theorem x1v_lt (T : ℕ) : x1v T < P := Fe.add_lt_P _ _
theorem x2v_lt (T : ℕ) : x2v T < P := Fe.neg_lt_P _
theorem x3v_lt (T : ℕ) : x3v T < P := Fe.add_lt_P _ _

/-- The second part of the function on the candidates `X1 X2 X3` with right-hand sides `A B C`: the first candidate whose
    right-hand side is a square (the third if neither of the first two is), with the candidate root of
    `secp256k1_fe_sqrt`, negated iff `odd`. -/
def svSel0 (X1 X2 X3 A B C : ℕ) (odd : Bool) : Pt :=
  let xy : ℕ × ℕ := if Fe.isSquare A then (X1, Fe.sqrtCand A) else if Fe.isSquare B then (X2, Fe.sqrtCand B)
    else (X3, Fe.sqrtCand C)
  .aff xy.1 (if odd then Fe.neg xy.2 else xy.2)

/-- `svSel0` with the sign choice of the C code: the parity of `t` (normalized) -/
def svSel (X1 X2 X3 A B C T : ℕ) : Pt := svSel0 X1 X2 X3 A B C (Fe.isOdd (T % P))

section model
-- `whnf` / failed unifications must never unfold the field operations (see `Props/C18_ir.lean`, `Proofs/Generator.lean`)
attribute [local irreducible] Fe.add Fe.mul Fe.sqr Fe.neg Fe.inv Fe.isSquare Fe.half Fe.sqrtCand FeIR.canon powMod

/-- the hand-written model is `svSel0` of the values above (by unfolding: no arithmetic is involved) -/
theorem svdw_model0 (t : ℕ) : Generator.svdw t =
    svSel0 (x1v t) (x2v t) (x3v t) (rhsv (x1v t)) (rhsv (x2v t)) (rhsv (x3v t)) (Fe.isOdd t) := by
  have h : Generator.svdw t = (defValue% Generator.svdw) t := congrFun GeneratorLemmas.svdw_def t
  beta_reduce at h
  extract_lets t2 wd x3d jinv x1 x2 x3 f a b c aq bq at h
  rw [h]
  unfold svSel0
  by_cases haq : aq = true
  · have haq' : Fe.isSquare (rhsv (x1v t)) = true := haq
    rw [if_pos haq, if_pos haq']
    rfl
  · have haq' : ¬ Fe.isSquare (rhsv (x1v t)) = true := haq
    by_cases hbq : bq = true
    · have hbq' : Fe.isSquare (rhsv (x2v t)) = true := hbq
      rw [if_neg haq, if_neg haq', if_pos hbq, if_pos hbq']
      rfl
    · have hbq' : ¬ Fe.isSquare (rhsv (x2v t)) = true := hbq
      rw [if_neg haq, if_neg haq', if_neg hbq, if_neg hbq']
      rfl

theorem wdv_mod (T : ℕ) : wdv (T % P) = wdv T := by unfold wdv; rw [Fe.sqr_mod]
theorem x3dv_mod (T : ℕ) : x3dv (T % P) = x3dv T := by unfold x3dv; rw [Fe.sqr_mod]
theorem jinvv_mod (T : ℕ) : jinvv (T % P) = jinvv T := by unfold jinvv; rw [wdv_mod, x3dv_mod]
theorem x1v_mod (T : ℕ) : x1v (T % P) = x1v T := by unfold x1v; rw [Fe.sqr_mod, x3dv_mod, jinvv_mod]
theorem x2v_mod (T : ℕ) : x2v (T % P) = x2v T := by unfold x2v; rw [x1v_mod]
theorem x3v_mod (T : ℕ) : x3v (T % P) = x3v T := by unfold x3v; rw [wdv_mod, jinvv_mod]

/-- the model on a reduced input, in terms of the unreduced value -/
theorem svdw_model (T : ℕ) : Generator.svdw (T % P) =
    svSel (x1v T) (x2v T) (x3v T) (rhsv (x1v T)) (rhsv (x2v T)) (rhsv (x3v T)) T := by
  rw [svdw_model0, x1v_mod, x2v_mod, x3v_mod]
  rfl

end model

/-- symbolic execution (as `fe_run`), with the constants `negc`, `d` of this function and the flag rules -/
macro "sv_run" "[" ts:Lean.Parser.Tactic.simpLemma,* "]" : tactic =>
  `(tactic| simp (maxSteps := 10000000) (disch := omega) only [execL_step, execL_nil, execL_returned, cont_some',
      unscope_some', guard'_pos, guard'_true',
      execS_set, execS_setInt, execS_clear, execS_const', lit_negc, lit_dconst, execS_mul, execS_sqr, execS_add,
      execS_neg, execS_mulInt,
      execS_addInt, execS_half, execS_norm, execS_cmov, execS_isZero, execS_isOdd, execS_equal, execS_int,
      execS_ite, execS_scope, execS_ret, execS_inv, execS_isSquare,
      ↓feGetChain, ↓intsGetChain, MiniC.evalEI, if_false, if_true,
      ite_one_zero_eq_zero, ite_one_zero_eq_one, ite_one_zero_ne_zero, ite_one_zero_le_one,
      ne_eq, not_true_eq_false, not_false_eq_true, one_ne_zero, zero_ne_one, eq_self, true_and, and_true,
      OfNat.ofNat_ne_zero, Nat.succ_ne_zero, reduceCtorEq, not_not,
      cont_ite, cont_cont, List.cons_append, List.nil_append, unscope_ite, post_some, post_ite,
      canon_add, canon_mul, canon_sqr, canon_neg, canon_inv, canon_inv_canon, isSquare_canon, canon_sqrtCand,
      negc_lit, dconst_lit, negc_lt_P, dconst_lt_P, binIdeal_and_flags, sqrtFlag_eq, $ts,*])

end FeIR
end SecpZkp
