import SecpZkp.Model.Musig
/-
  Helper lemmas for property C13 ("a MuSig secret nonce can sign at most once").

  A. the secnonce object: when `secnonceLoad` fails / succeeds
  B. `partialSign`: the wipe, the failure paths, what a success implies
  C. `nonceGenInternal` / `nonceGen` / `nonceGenCounter`
  D. the two-slot history machine: frame lemmas for `HistState.get/set`, what a `sign` / `gen` / `copy`
     step does to the slot it names and to the other slot

  Everything is core Lean; no Mathlib.
-/
namespace SecpZkp
namespace Musig

/-! ## A. The secnonce object -/

theorem secnonceLoad_zero : secnonceLoad Secnonce.zero = none := by decide

theorem Secnonce.zero_isZero : Secnonce.zero.isZero = true := by decide

/-- A wrong magic makes the load fail. -/
theorem secnonceLoad_bad_magic {sn : Secnonce} (h : sn.magic ≠ secnonceMagic) : secnonceLoad sn = none := by
  simp [secnonceLoad, h]

/-- Both scalars zero makes the load fail (the second `ARG_CHECK` of `secnonce_load`). -/
theorem secnonceLoad_zero_scalars {sn : Secnonce} (h1 : sn.k1 = 0) (h2 : sn.k2 = 0) : secnonceLoad sn = none := by
  simp [secnonceLoad, h1, h2]

/-- An object whose magic bytes are all zero (in particular the all-zero object) does not load. -/
theorem secnonceLoad_magic_isZero {sn : Secnonce} (h : Bytes.isZero sn.magic = true) : secnonceLoad sn = none := by
  apply secnonceLoad_bad_magic
  intro hm
  rw [hm] at h
  revert h
  decide

/-- "all 132 bytes are zero" makes the load fail. -/
theorem secnonceLoad_isZero {sn : Secnonce} (h : sn.isZero = true) : secnonceLoad sn = none := by
  apply secnonceLoad_magic_isZero
  simp only [Secnonce.isZero, Bool.and_eq_true] at h
  exact h.1.1.1

/-- What a successful load says about the object. -/
theorem secnonceLoad_some {sn : Secnonce} {k1 k2 : Nat} {pk : Pt} (h : secnonceLoad sn = some (k1, k2, pk)) :
    sn.magic = secnonceMagic ∧ ¬ (sn.k1 = 0 ∧ sn.k2 = 0) ∧ k1 = sn.k1 % N ∧ k2 = sn.k2 % N ∧ pk = sn.pk := by
  unfold secnonceLoad at h
  split at h
  · exact absurd h (by simp)
  · split at h
    · exact absurd h (by simp)
    · rename_i hm hz
      simp only [Option.some.injEq, Prod.mk.injEq] at h
      refine ⟨by simpa using hm, hz, h.1.symm, h.2.1.symm, h.2.2.symm⟩

/-- The load succeeds exactly on objects with the right magic and a non-zero scalar. -/
theorem secnonceLoad_isSome_iff (sn : Secnonce) :
    (secnonceLoad sn).isSome = true ↔ sn.magic = secnonceMagic ∧ ¬ (sn.k1 = 0 ∧ sn.k2 = 0) := by
  unfold secnonceLoad
  split
  · rename_i h; simp [h]
  · rename_i h
    split
    · rename_i h2; simp [h2]
    · rename_i h2
      simp only [ne_eq, Decidable.not_not] at h
      simp [h, h2]

/-- An object written by `secnonceSave` carries the magic (so it is never the all-zero object). -/
theorem secnonceSave_ne_zero (k1 k2 : Nat) (pk : Pt) : secnonceSave k1 k2 pk ≠ Secnonce.zero := by
  intro h
  have : secnonceMagic = Bytes.zeros 4 := congrArg Secnonce.magic h
  exact absurd this (by decide)

theorem flipFirst_zero_magic : flipFirst Secnonce.zero.magic ≠ secnonceMagic := by decide

/-! ## B. `partialSign` -/

/-- `ARG_CHECK(secnonce != NULL)` is the first statement: nothing is read or written. -/
theorem partialSign_null (w : Bool) (kp : Option Keys.Keypair) (c : Option KeyaggCache) (s : Option Session) :
    partialSign w none kp c s = ⟨0, ⟨none, none⟩, 1⟩ := rfl

/-- The wipe: with a non-NULL secnonce pointer, the object after the call is the all-zero object on
    every path. -/
theorem partialSign_wipes (w : Bool) (sn : Secnonce) (kp : Option Keys.Keypair) (c : Option KeyaggCache)
    (s : Option Session) :
    (partialSign w (some sn) kp c s).out.secnonce = some Secnonce.zero := by
  unfold partialSign
  repeat' split
  all_goals first | rfl | simp_all

/-- A secnonce that does not load: return 0, one callback, no signature, object wiped. -/
theorem partialSign_dead (w : Bool) {sn : Secnonce} (kp : Option Keys.Keypair) (c : Option KeyaggCache)
    (s : Option Session) (h : secnonceLoad sn = none) :
    partialSign w (some sn) kp c s = ⟨0, ⟨none, some Secnonce.zero⟩, 1⟩ := by
  unfold partialSign
  simp [h]

/-- The return value is 0 or 1. -/
theorem partialSign_ret01 (w : Bool) (sn : Option Secnonce) (kp : Option Keys.Keypair) (c : Option KeyaggCache)
    (s : Option Session) :
    (partialSign w sn kp c s).ret = 0 ∨ (partialSign w sn kp c s).ret = 1 := by
  unfold partialSign
  repeat' split
  all_goals simp

/-- A signature object is written exactly when the call returns 1. -/
theorem partialSign_sig_iff (w : Bool) (sn : Option Secnonce) (kp : Option Keys.Keypair) (c : Option KeyaggCache)
    (s : Option Session) :
    (partialSign w sn kp c s).out.sig.isSome = true ↔ (partialSign w sn kp c s).ret = 1 := by
  unfold partialSign
  repeat' split
  all_goals simp

/-- No signature on failure. -/
theorem partialSign_fail_no_sig (w : Bool) (sn : Option Secnonce) (kp : Option Keys.Keypair) (c : Option KeyaggCache)
    (s : Option Session) (h : (partialSign w sn kp c s).ret ≠ 1) :
    (partialSign w sn kp c s).out.sig = none := by
  have := partialSign_sig_iff w sn kp c s
  cases hs : (partialSign w sn kp c s).out.sig with
  | none => rfl
  | some v => rw [hs] at this; exact absurd (this.1 rfl) h

/-- What `secp256k1_keypair_load` (with the secret key requested) returns when it succeeds. -/
theorem keypairLoad_ok {kp : Keys.Keypair} {sk ill : Nat} {q : Pt}
    (h : Keys.keypairLoad kp true = (true, sk, q, ill)) :
    q = kp.pk ∧ kp.pk ≠ Pt.inf ∧ Sc.setB32Seckey kp.sk = (sk, true) ∧ ill = 0 := by
  cases hs : Sc.setB32Seckey kp.sk with
  | mk d ok =>
    cases hpk : kp.pk with
    | inf => simp [Keys.keypairLoad, hpk] at h
    | aff x y =>
      cases ok with
      | false => simp [Keys.keypairLoad, hpk, hs] at h
      | true =>
        simp only [Keys.keypairLoad, hpk, hs, if_true, Prod.mk.injEq, true_and] at h
        refine ⟨h.2.1.symm, by simp, ?_, h.2.2.symm⟩
        rw [h.1]

/-- **What a successful partial signature implies.**  All of: the secnonce loads; the output pointer
    is present; keypair, cache and session are present; the keypair loads and its public key is the
    one stored in the secnonce (equality of points, i.e. both coordinates); cache and session load. -/
theorem partialSign_success {w : Bool} {sn : Secnonce} {kp : Option Keys.Keypair} {c : Option KeyaggCache}
    {s : Option Session} (h : (partialSign w (some sn) kp c s).ret = 1) :
    ∃ k1 k2 kp' c' s' sk ci si,
      secnonceLoad sn = some (k1, k2, sn.pk) ∧ w = true ∧ kp = some kp' ∧ c = some c' ∧ s = some s' ∧
      Keys.keypairLoad kp' true = (true, sk, sn.pk, 0) ∧ kp'.pk = sn.pk ∧
      cacheLoad c' = some ci ∧ sessionLoad s' = some si := by
  unfold partialSign at h
  repeat' split at h
  all_goals try (simp at h; done)
  all_goals
    rename_i hsn _ k1 k2 pk hload hw _ kp' _ c' _ s' _ ok sk kpPk ill hkp hok hpk _ ci hci _ _ si hsi _
    cases hsn
    have hp := (secnonceLoad_some hload).2.2.2.2
    have hok' : ok = true := by simpa using hok
    have hpk' : pk = kpPk := by simpa using hpk
    subst hp; subst hok'; subst hpk'
    have hk := keypairLoad_ok hkp
    obtain ⟨hk1, _, _, hk4⟩ := hk
    subst hk4
    exact ⟨k1, k2, kp', c', s', sk, ci, si, hload, by simpa using hw, rfl, rfl, rfl, hkp, hk1.symm, hci, hsi⟩

/-- A failing `secp256k1_keypair_load` raises exactly one callback. -/
theorem keypairLoad_fail {kp : Keys.Keypair} {sk ill : Nat} {q : Pt}
    (h : Keys.keypairLoad kp true = (false, sk, q, ill)) : ill = 1 := by
  cases hs : Sc.setB32Seckey kp.sk with
  | mk d ok =>
    cases hpk : kp.pk with
    | inf =>
      simp only [Keys.keypairLoad, hpk, Prod.mk.injEq] at h
      exact h.2.2.2.symm
    | aff x y =>
      cases ok with
      | false =>
        simp only [Keys.keypairLoad, hpk, hs, if_true, Bool.false_eq_true, if_false, Prod.mk.injEq] at h
        exact h.2.2.2.symm
      | true => simp [Keys.keypairLoad, hpk, hs] at h

/-- Callback accounting: every call either returns 1 with no callback or returns 0 with exactly one
    callback. -/
theorem partialSign_ret_illegal (w : Bool) (sn : Option Secnonce) (kp : Option Keys.Keypair) (c : Option KeyaggCache)
    (s : Option Session) :
    ((partialSign w sn kp c s).ret = 1 ∧ (partialSign w sn kp c s).illegal = 0) ∨
    ((partialSign w sn kp c s).ret = 0 ∧ (partialSign w sn kp c s).illegal = 1) := by
  unfold partialSign
  repeat' split
  all_goals try (simp; done)
  -- the keypair_load failure: its callback count is 1
  rename_i ok sk kpPk ill hkp hok
  have hok' : ok = false := by simpa using hok
  subst hok'
  exact Or.inr ⟨rfl, keypairLoad_fail hkp⟩

/-! ## C. Nonce generation -/

theorem nonceGenInternal_ret01 (wp : Bool) (inp : Bytes) (sk : Option Bytes) (pk : Option Pt) (msg : Option Bytes)
    (c : Option KeyaggCache) (ex : Option Bytes) :
    (nonceGenInternal wp inp sk pk msg c ex).ret = 0 ∨ (nonceGenInternal wp inp sk pk msg c ex).ret = 1 := by
  unfold nonceGenInternal
  repeat' split
  all_goals simp

/-- On failure the internal function either did not write the secnonce or wrote zeros. -/
theorem nonceGenInternal_fail {wp : Bool} {inp : Bytes} {sk : Option Bytes} {pk : Option Pt} {msg : Option Bytes}
    {c : Option KeyaggCache} {ex : Option Bytes}
    (h : (nonceGenInternal wp inp sk pk msg c ex).ret ≠ 1) :
    (nonceGenInternal wp inp sk pk msg c ex).out.secnonce.getD Secnonce.zero = Secnonce.zero := by
  unfold nonceGenInternal at h ⊢
  repeat' split
  all_goals try rfl
  all_goals simp_all

/-- On success: the pubnonce pointer and the public key are present, the public key object is valid,
    and the secnonce written is `secnonceSave k1 k2 pk` for that very public key. -/
theorem nonceGenInternal_ok {wp : Bool} {inp : Bytes} {sk : Option Bytes} {pk : Option Pt} {msg : Option Bytes}
    {c : Option KeyaggCache} {ex : Option Bytes}
    (h : (nonceGenInternal wp inp sk pk msg c ex).ret = 1) :
    ∃ k1 k2 p, wp = true ∧ pk = some p ∧ p ≠ Pt.inf ∧
      (nonceGenInternal wp inp sk pk msg c ex).out.secnonce = some (secnonceSave k1 k2 p) ∧
      (nonceGenInternal wp inp sk pk msg c ex).out.pubnonce = some (pubnonceSave (Pt.mulG k1) (Pt.mulG k2)) := by
  unfold nonceGenInternal at h ⊢
  repeat' split at h
  all_goals try (simp at h; done)
  all_goals (try simp_all)
  all_goals exact ⟨_, _, rfl, rfl⟩

/-! ## D. The history machine -/

/-- two slot numbers name the same of the two slots (`0` = slot 0, anything else = slot 1) -/
def SameSlot (i j : Nat) : Prop := (i = 0 ↔ j = 0)

instance (i j : Nat) : Decidable (SameSlot i j) := by unfold SameSlot; infer_instance

theorem SameSlot.refl (i : Nat) : SameSlot i i := Iff.rfl
theorem SameSlot.symm {i j : Nat} (h : SameSlot i j) : SameSlot j i := Iff.symm h

theorem get_set_same (st : HistState) {i j : Nat} (v : Secnonce) (h : SameSlot i j) :
    (st.set i v).get j = v := by
  unfold SameSlot at h
  unfold HistState.set HistState.get
  by_cases hi : i = 0
  · have := h.1 hi; simp [hi, this]
  · have hj : ¬ j = 0 := fun hj => hi (h.2 hj)
    simp [hi, hj]

theorem get_set_other (st : HistState) {i j : Nat} (v : Secnonce) (h : ¬ SameSlot i j) :
    (st.set i v).get j = st.get j := by
  unfold SameSlot at h
  unfold HistState.set HistState.get
  by_cases hi : i = 0
  · have hj : ¬ j = 0 := fun hj => h ⟨fun _ => hj, fun _ => hi⟩
    simp [hi, hj]
  · have hj : j = 0 := Decidable.byContradiction fun hj => h ⟨fun a => absurd a hi, fun a => absurd a hj⟩
    simp [hi, hj]

theorem get_congr (st : HistState) {i j : Nat} (h : SameSlot i j) : st.get i = st.get j := by
  unfold SameSlot at h
  unfold HistState.get
  by_cases hi : i = 0
  · simp [hi, h.1 hi]
  · have hj : ¬ j = 0 := fun hj => hi (h.2 hj)
    simp [hi, hj]

@[simp] theorem get_set_self (st : HistState) (i : Nat) (v : Secnonce) : (st.set i v).get i = v :=
  get_set_same st v (SameSlot.refl i)

theorem init_get (k : Nat) : HistState.init.get k = Secnonce.zero := by
  unfold HistState.get HistState.init; split <;> rfl

/-- the state a `sign` step hands to the library: after the caller-side manipulation -/
def preSign (st : HistState) (slot : Nat) : SignMode → HistState
  | .zeroed => st.set slot Secnonce.zero
  | .badMagic => st.set slot { st.get slot with magic := flipFirst (st.get slot).magic }
  | _ => st

/-- the library call of a `sign` step whose mode passes a non-NULL secnonce pointer -/
def signCall (su : HistSetup) (sn : Secnonce) : SignMode → Ret SignOut
  | .ok | .zeroed | .badMagic => partialSign true (some sn) (some su.kp) (some su.cache) (some su.session)
  | .session2 => partialSign true (some sn) (some su.kp) (some su.cache) (some su.session2)
  | .wrongKp => partialSign true (some sn) (some su.kp2) (some su.cache) (some su.session)
  | .negKp => partialSign true (some sn) (some (negKeypair su.kp)) (some su.cache) (some su.session)
  | .zeroKp => partialSign true (some sn) (some Keys.Keypair.zero) (some su.cache) (some su.session)
  | .nullOut => partialSign false (some sn) (some su.kp) (some su.cache) (some su.session)
  | .nullKp => partialSign true (some sn) none (some su.cache) (some su.session)
  | .nullCache => partialSign true (some sn) (some su.kp) none (some su.session)
  | .nullSession => partialSign true (some sn) (some su.kp) (some su.cache) none
  | .badCache => partialSign true (some sn) (some su.kp) (some (badCacheOf su.cache)) (some su.session)
  | .badSession => partialSign true (some sn) (some su.kp) (some su.cache) (some (badSessionOf su.session))
  | .nullNonce => partialSign true none (some su.kp) (some su.cache) (some su.session)

/-- `runStep` on a `sign` step, restated with `preSign` / `signCall`. -/
theorem runStep_sign (su : HistSetup) (j : Nat) (st : HistState) (slot : Nat) (m : SignMode) :
    runStep su j st (.sign slot m) =
      let st0 := preSign st slot m
      let r := signCall su (st0.get slot) m
      ((match r.out.secnonce with
        | some sn' => st0.set slot sn'
        | none => st0),
       ⟨r.ret, r.illegal, none, if r.ret = 1 then r.out.sig.map (·.s) else none⟩) := by
  cases m <;> rfl

theorem signCall_secnonce (su : HistSetup) (sn : Secnonce) {m : SignMode} (hm : m ≠ .nullNonce) :
    (signCall su sn m).out.secnonce = some Secnonce.zero := by
  cases m <;> first | exact absurd rfl hm | exact partialSign_wipes _ _ _ _ _

theorem signCall_nullNonce (su : HistSetup) (sn : Secnonce) :
    signCall su sn .nullNonce = ⟨0, ⟨none, none⟩, 1⟩ := rfl

theorem signCall_dead (su : HistSetup) {sn : Secnonce} (m : SignMode) (h : secnonceLoad sn = none) :
    (signCall su sn m).ret = 0 ∧ (signCall su sn m).out.sig = none := by
  cases m <;> first | exact ⟨rfl, rfl⟩ | (simp only [signCall]; rw [partialSign_dead _ _ _ _ h]; exact ⟨rfl, rfl⟩)

/-- after the caller-side manipulation a zero slot is still not loadable -/
theorem preSign_zero_dead {st : HistState} {slot : Nat} (m : SignMode) (h : st.get slot = Secnonce.zero) :
    secnonceLoad ((preSign st slot m).get slot) = none := by
  cases m
  case zeroed => simp only [preSign, get_set_self]; exact secnonceLoad_zero
  case badMagic =>
    simp only [preSign, get_set_self, h]
    exact secnonceLoad_bad_magic flipFirst_zero_magic
  all_goals (simp only [preSign, h]; exact secnonceLoad_zero)

theorem preSign_other (st : HistState) {slot k : Nat} (m : SignMode) (h : ¬ SameSlot slot k) :
    (preSign st slot m).get k = st.get k := by
  cases m <;> first | rfl | exact get_set_other _ _ h

/-- **A signing step that hands the slot to the library leaves it all-zero.** -/
theorem sign_step_zeroes (su : HistSetup) (j : Nat) (st : HistState) (slot : Nat) {m : SignMode}
    (hm : m ≠ .nullNonce) :
    (runStep su j st (.sign slot m)).1.get slot = Secnonce.zero := by
  rw [runStep_sign]
  simp only [signCall_secnonce su _ hm, get_set_self]

/-- The NULL-pointer mode does nothing to the state. -/
theorem sign_step_null (su : HistSetup) (j : Nat) (st : HistState) (slot : Nat) :
    runStep su j st (.sign slot .nullNonce) = (st, ⟨0, 1, none, none⟩) := rfl

/-- A signing step does not touch the other slot. -/
theorem sign_step_other (su : HistSetup) (j : Nat) (st : HistState) {slot k : Nat} (m : SignMode)
    (h : ¬ SameSlot slot k) :
    (runStep su j st (.sign slot m)).1.get k = st.get k := by
  rw [runStep_sign]
  by_cases hm : m = .nullNonce
  · subst hm; rfl
  · simp only [signCall_secnonce su _ hm, get_set_other _ _ h, preSign_other st m h]

/-- **A zero slot never signs** (whatever the mode), and it stays zero. -/
theorem sign_step_zero_slot (su : HistSetup) (j : Nat) {st : HistState} {slot : Nat} (m : SignMode)
    (h : st.get slot = Secnonce.zero) :
    (runStep su j st (.sign slot m)).2.ret = 0 ∧ (runStep su j st (.sign slot m)).2.sig = none ∧
    (runStep su j st (.sign slot m)).1.get slot = Secnonce.zero := by
  have hd := signCall_dead su m (preSign_zero_dead m h)
  refine ⟨?_, ?_, ?_⟩
  · rw [runStep_sign]; exact hd.1
  · rw [runStep_sign]; simp only [hd.1]; rfl
  · by_cases hm : m = .nullNonce
    · subst hm; exact h
    · exact sign_step_zeroes su j st slot hm

/-- The return value of a signing step is 0 or 1. -/
theorem sign_step_ret01 (su : HistSetup) (j : Nat) (st : HistState) (slot : Nat) (m : SignMode) :
    (runStep su j st (.sign slot m)).2.ret = 0 ∨ (runStep su j st (.sign slot m)).2.ret = 1 := by
  rw [runStep_sign]
  cases m <;> exact partialSign_ret01 _ _ _ _ _

/-- A successful signing step was not the NULL-pointer mode, hence it zeroed its slot. -/
theorem sign_step_success_zeroes (su : HistSetup) (j : Nat) (st : HistState) (slot : Nat) (m : SignMode)
    (h : (runStep su j st (.sign slot m)).2.ret = 1) :
    (runStep su j st (.sign slot m)).1.get slot = Secnonce.zero := by
  by_cases hm : m = .nullNonce
  · subst hm; rw [sign_step_null] at h; exact absurd h (by simp)
  · exact sign_step_zeroes su j st slot hm

/-- the library call of a `gen` step -/
def genCall (su : HistSetup) (j : Nat) : GenMode → Ret GenOut
  | .ok => nonceGen true true (some (stepRand su.seed j)) (some su.kp.sk) (some su.kp.pk) (some su.msg) (some su.cache) none
  | .badRand => nonceGen true true (some (Bytes.zeros 32)) (some su.kp.sk) (some su.kp.pk) (some su.msg) (some su.cache) none
  | .badSk => nonceGen true true (some (stepRand su.seed j)) (some (Bytes.zeros 32)) (some su.kp.pk) (some su.msg) (some su.cache) none
  | .badCache => nonceGen true true (some (stepRand su.seed j)) (some su.kp.sk) (some su.kp.pk) (some su.msg) (some (badCacheOf su.cache)) none
  | .nullPub => nonceGen true false (some (stepRand su.seed j)) (some su.kp.sk) (some su.kp.pk) (some su.msg) (some su.cache) none
  | .ctr => nonceGenCounter true true ((su.ctrBase + j) % 2 ^ 64) (some su.kp) (some su.msg) (some su.cache) none
  | .ctrBadKp => nonceGenCounter true true ((su.ctrBase + j) % 2 ^ 64) (some Keys.Keypair.zero) (some su.msg) (some su.cache) none
  | .ctrZeroSec => nonceGenCounter true true ((su.ctrBase + j) % 2 ^ 64) (some { su.kp with sk := Bytes.zeros 32 }) (some su.msg) (some su.cache) none
  | .ctrOvfSec => nonceGenCounter true true ((su.ctrBase + j) % 2 ^ 64) (some { su.kp with sk := List.replicate 32 0xff }) (some su.msg) (some su.cache) none

theorem runStep_gen (su : HistSetup) (j : Nat) (st : HistState) (slot : Nat) (m : GenMode) :
    runStep su j st (.gen slot m) =
      let r := genCall su j m
      ((match r.out.secnonce with
        | some sn => st.set slot sn
        | none => st),
       ⟨r.ret, r.illegal, r.out.secrand.map Bytes.isZero, none⟩) := by
  cases m <;> rfl

/-- A generation step does not touch the other slot. -/
theorem gen_step_other (su : HistSetup) (j : Nat) (st : HistState) {slot k : Nat} (m : GenMode)
    (h : ¬ SameSlot slot k) :
    (runStep su j st (.gen slot m)).1.get k = st.get k := by
  rw [runStep_gen]
  simp only
  split
  · exact get_set_other _ _ h
  · rfl

/-- A copy step does not touch slots other than its destination. -/
theorem copy_step_other (su : HistSetup) (j : Nat) (st : HistState) (src : Nat) {dst k : Nat}
    (h : ¬ SameSlot dst k) :
    (runStep su j st (.copy src dst)).1.get k = st.get k :=
  get_set_other _ _ h

theorem copy_step_dst (su : HistSetup) (j : Nat) (st : HistState) (src dst : Nat) :
    (runStep su j st (.copy src dst)).1.get dst = st.get src :=
  get_set_self _ _ _

/-- unfolding `runHistory` by one step -/
theorem runHistory_cons (su : HistSetup) (j : Nat) (st : HistState) (s : Step) (rest : List Step) :
    runHistory su j st (s :: rest) =
      ((runHistory su (j + 1) (runStep su j st s).1 rest).1,
       ((runStep su j st s).2, (runStep su j st s).1.slot0.isZero, (runStep su j st s).1.slot1.isZero) ::
         (runHistory su (j + 1) (runStep su j st s).1 rest).2) := rfl

theorem runHistory_nil (su : HistSetup) (j : Nat) (st : HistState) : runHistory su j st [] = (st, []) := rfl

/-- the final state of a history is the fold of `runStep` -/
theorem runHistory_append_fst (su : HistSetup) (j : Nat) (st : HistState) (a b : List Step) :
    (runHistory su j st (a ++ b)).1 = (runHistory su (j + a.length) (runHistory su j st a).1 b).1 := by
  induction a generalizing j st with
  | nil => simp [runHistory_nil]
  | cons s a ih =>
    simp only [List.cons_append, runHistory_cons, List.length_cons]
    rw [ih]
    congr 2
    omega

theorem runHistory_length (su : HistSetup) (j : Nat) (st : HistState) (steps : List Step) :
    (runHistory su j st steps).2.length = steps.length := by
  induction steps generalizing j st with
  | nil => rfl
  | cons s rest ih => simp [runHistory_cons, ih]

end Musig
end SecpZkp
