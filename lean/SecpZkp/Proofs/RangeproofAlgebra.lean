import SecpZkp.Proofs.RangeproofSign
/-
  The commitment identity behind range-proof verification: the last digit commitment is `commit − min•H − Σ others`.
-/
namespace SecpZkp
namespace Rangeproof
open SecpZkp.Algebra

/-- `Σ_t digitValue idxs[t] scale (i+t)` over the first `n` digits -/
def dvsum (scale : Nat) : List Nat → Nat → Nat → Nat
  | d :: ds, i, n + 1 => digitValue d scale i + dvsum scale ds (i + 1) n
  | _, _, _ => 0

section
variable [HasGroupLaw]

theorem foldl_add_val (l : List VPt) (a : VPt) : (l.map Subtype.val).foldl Pt.add a.1 = (a + l.sum).1 := by
  induction l generalizing a with
  | nil => simp
  | cons x xs ih =>
    simp only [List.map_cons, List.foldl_cons, List.sum_cons]
    have : Pt.add a.1 x.1 = (a + x).1 := rfl
    rw [this, ih, add_assoc]

/-- the digit commitments as valid points, and their sum -/
theorem digitPts_vsum (scale : Nat) (genp : Pt) (hgen : genp.valid = true) :
    ∀ (secs idxs : List Nat) (i : Nat), secs.length ≤ idxs.length → (∀ x ∈ secs, x < N) →
      ∃ L : List VPt, digitPts scale genp secs idxs i = L.map Subtype.val ∧ L.length = secs.length ∧
        L.sum = gmulV (zsum secs) + (dvsum scale idxs i secs.length) • (⟨genp, hgen⟩ : VPt) := by
  intro secs
  induction secs with
  | nil =>
    intro idxs i _ _
    refine ⟨[], ?_, rfl, ?_⟩
    · cases idxs <;> rfl
    · cases idxs <;> simp [dvsum]
  | cons s secs ih =>
    intro idxs i hlen hs
    cases idxs with
    | nil => simp at hlen
    | cons d idxs =>
      obtain ⟨L, h1, h2, h3⟩ := ih idxs (i + 1) (by simpa using hlen) (fun x hx => hs x (by simp [hx]))
      have hsN : s < N := hs s (by simp)
      refine ⟨(gmulV ((s : Nat) : ZMod N) + (digitValue d scale i) • (⟨genp, hgen⟩ : VPt)) :: L, ?_, by simp [h2], ?_⟩
      · rw [digitPts, h1, List.map_cons]
        congr 1
        rw [pedersenEcmult, mulG_eq_gmul (lt_mulBound_of_lt_N hsN)]
        show Pt.add (gmulV _).1 (Pt.mul _ (⟨genp, hgen⟩ : VPt).1) = _
        rw [mul_val (digitValue_lt _ _ _)]
        rfl
      · simp only [List.sum_cons, h3, List.length_cons, dvsum, zsum_cons, map_add, add_nsmul]
        abel

theorem sum_dropLast_add_getLast (L : List VPt) (hL : L ≠ []) : L.dropLast.sum + L.getLast hL = L.sum := by
  conv_rhs => rw [← List.dropLast_append_getLast hL]
  simp

/-- **The commitment identity.**  If the digit commitments `L` sum to `b•G + tot•H` and `tot + min = value`, then
    `commit − (min•H + Σ_{i<last} L_i) = L_last` for `commit = b•G + value•H`. -/
theorem last_digit_eq (H : VPt) (L : List VPt) (hL : L ≠ []) (b : ZMod N) (value minv tot : Nat)
    (hsum : L.sum = gmulV b + tot • H) (hval : tot + minv = value) :
    Pt.add (Pt.neg ((L.dropLast.map Subtype.val).foldl Pt.add (minv • H).1)) (gmulV b + value • H).1 =
      (L.getLast hL).1 := by
  rw [foldl_add_val]
  show (-(minv • H + L.dropLast.sum) + (gmulV b + value • H)).1 = _
  congr 1
  have h1 := sum_dropLast_add_getLast L hL
  rw [hsum] at h1
  have h2 : L.dropLast.sum = gmulV b + tot • H - L.getLast hL := by rw [← h1]; abel
  rw [h2, ← hval, add_nsmul]
  abel

end

/-! ### the digit values add up to `v·scale` -/

theorem dvsum_nowrap (scale : Nat) : ∀ (idxs : List Nat) (i n : Nat), n ≤ idxs.length →
    (∀ t, t < n → digitValue (idxs.getD t 0) scale (i + t) = idxs.getD t 0 * scale * 4 ^ (i + t)) →
    dvsum scale idxs i n = scale * 4 ^ i * digitsValue (idxs.take n) := by
  intro idxs
  induction idxs with
  | nil => intro i n hn _; simp at hn; subst hn; simp [dvsum, digitsValue]
  | cons d ds ih =>
    intro i n hn h
    cases n with
    | zero => simp [dvsum, digitsValue]
    | succ n =>
      have h0 := h 0 (by omega)
      simp only [List.getD_cons_zero, Nat.add_zero] at h0
      rw [dvsum, List.take_succ_cons, digitsValue, h0, ih (i + 1) n (by simpa using hn) (fun t ht => by
        have := h (t + 1) (by omega)
        simp only [List.getD_cons_succ] at this
        rw [show i + 1 + t = i + (t + 1) by omega]; exact this)]
      rw [Nat.pow_succ]; ring

end Rangeproof
end SecpZkp
