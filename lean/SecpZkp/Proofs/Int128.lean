/-
  Helpers for `Props/C05_int128.lean`: the emulated 128-bit integer of `src/int128_struct_impl.h`
  (`secp256k1_umul128`, `secp256k1_u128_*`) as translated into the MiniC IR (`Gen/K_int128struct.lean`).

  These functions wrap around on purpose (`r->lo += lo; r->hi += hi + (r->lo < lo)`), contain a `return`, and
  `secp256k1_u128_rshift` branches, so neither the interval analysis nor `FieldLinear.runW` applies.  Contents:

  * `evalV`-based, leak-free, structurally recursive copy `runS` / `runL` of `execS` / `execL` for LOOP-FREE programs
    (assignments, stores, `if`, early `return`), with the agreement theorem `execL_eq_runL`
  * `outC`, `retC`  : final memory / return value of a translated function under the real semantics `execL`
  * `minic_evalR`   : symbolic execution tactic for `runL` on a literal program and an arbitrary memory
  * arithmetic lemmas: 32×32 school-book split, shifts of a two-limb value, `check_bits`.

  No axioms beyond propext / Classical.choice / Quot.sound.
-/
import SecpZkp.Proofs.FieldLinear
import SecpZkp.Gen.K_int128struct

namespace SecpZkp
namespace Int128
open MiniC FieldLinear

/-! ### a leak-free copy of `execL` for loop-free programs -/

mutual
/-- `execS` without leakage, on `evalV`; a `loop` is not supported (treated as a no-op, excluded by `loopFree`) -/
def runS (env : Env) : Stmt → Env × Option Nat
  | .assign x e => (env.set x 0 (evalV env e), none)
  | .store a i e => (env.set a (evalV env i) (evalV env e), none)
  | .ite c t e => if evalV env c ≠ 0 then runL env t else runL env e
  | .loop _ _ _ => (env, none)
  | .declassify _ => (env, none)
  | .ret e => (env, some (evalV env e))

/-- `execL` without leakage: stops at the first `ret` -/
def runL (env : Env) : List Stmt → Env × Option Nat
  | [] => (env, none)
  | s :: rest =>
    match runS env s with
    | (env', some v) => (env', some v)
    | (env', none) => runL env' rest
end

mutual
def loopFreeS : Stmt → Bool
  | .ite _ t e => loopFree t && loopFree e
  | .loop _ _ _ => false
  | _ => true

/-- the program contains no `loop` -/
def loopFree : List Stmt → Bool
  | [] => true
  | s :: rest => loopFreeS s && loopFree rest
end

mutual
theorem execS_eq_runS : ∀ (s : Stmt) (env : Env), loopFreeS s = true →
    (execS env s).env = (runS env s).1 ∧ (execS env s).ret = (runS env s).2
  | .assign x e, env, _ => by simp only [execS, runS, evalE_fst, and_self]
  | .store a i e, env, _ => by simp only [execS, runS, evalE_fst, and_self]
  | .ite c t e, env, h => by
    simp only [loopFreeS, Bool.and_eq_true] at h
    simp only [execS, runS, evalE_fst]
    by_cases hc : evalV env c = 0
    · simp only [hc, ne_eq, not_true_eq_false, ↓reduceIte]; exact execL_eq_runL e env h.2
    · simp only [hc, ne_eq, not_false_eq_true, ↓reduceIte]; exact execL_eq_runL t env h.1
  | .loop x n body, env, h => by simp [loopFreeS] at h
  | .declassify x, env, _ => by simp only [execS, runS, and_self]
  | .ret e, env, _ => by simp only [execS, runS, evalE_fst, and_self]

/-- on loop-free programs `runL` IS the (memory, return value) component of `execL` -/
theorem execL_eq_runL : ∀ (p : List Stmt) (env : Env), loopFree p = true →
    (execL env p).env = (runL env p).1 ∧ (execL env p).ret = (runL env p).2
  | [], env, _ => by simp only [execL, runL, and_self]
  | s :: rest, env, h => by
    simp only [loopFree, Bool.and_eq_true] at h
    obtain ⟨h1, h2⟩ := execS_eq_runS s env h.1
    rw [Taint.execL_cons, Taint.seq, runL]
    cases hr : (runS env s) with
    | mk env' r =>
      rw [hr] at h1 h2
      cases r with
      | some v => simp only [h2, h1, and_self]
      | none =>
        simp only [h2, h1]
        exact execL_eq_runL rest env' h.2
end

/-- final memory after running the translated C function `f` on `env` with the real (wrap-around) semantics -/
def outC (f : Fn) (env : Env) : Env := (execL env f.body).env

/-- value returned by the translated C function `f` on `env` with the real (wrap-around) semantics -/
def retC (f : Fn) (env : Env) : Option Nat := (execL env f.body).ret

theorem outC_eq (f : Fn) (env : Env) (h : loopFree f.body = true) : outC f env = (runL env f.body).1 :=
  (execL_eq_runL _ _ h).1

theorem retC_eq (f : Fn) (env : Env) (h : loopFree f.body = true) : retC f env = (runL env f.body).2 :=
  (execL_eq_runL _ _ h).2

/-- Symbolic execution of `runL` (i.e. `execL`) on a literal loop-free program and an arbitrary initial memory. -/
macro "minic_evalR" : tactic => `(tactic| (
  simp only [runL, runS, evalV, binWrap]
  simp only [Env.get_set_same, Env.get_set_other, ne_eq, Prod.mk.injEq, String.reduceEq, false_and, and_false,
    and_true, true_and, not_false_eq_true, not_true_eq_false, Nat.reduceEqDiff]))

/-! ### arithmetic -/

/-- school-book split of a 64×64 product into four 32×32 products -/
theorem mul_split (a b : Nat) :
    a * b = (a % 4294967296) * (b % 4294967296) +
      4294967296 * ((a % 4294967296) * (b / 4294967296) + (a / 4294967296) * (b % 4294967296)) +
      18446744073709551616 * ((a / 4294967296) * (b / 4294967296)) := by
  conv_lhs => rw [← Nat.mod_add_div a 4294967296, ← Nat.mod_add_div b 4294967296]
  ring

theorem mul_lt32 {x y : Nat} (hx : x < 4294967296) (hy : y < 4294967296) : x * y ≤ 4294967295 * 4294967295 :=
  Nat.mul_le_mul (by omega) (by omega)

/-- The arithmetic content of `secp256k1_umul128`, on the four partial products:
    with `ll, lh, hl, hh ≤ (2^32-1)^2`, the C expressions for the low and the high word (every `+` and `<<`
    truncated to 64 bits) satisfy `lo + 2^64 hi = ll + 2^32 (lh + hl) + 2^64 hh`, and `hi` does not wrap. -/
theorem umul_words (ll lh hl hh : Nat) (h1 : ll ≤ 4294967295 * 4294967295) (h2 : lh ≤ 4294967295 * 4294967295)
    (h3 : hl ≤ 4294967295 * 4294967295) (h4 : hh ≤ 4294967295 * 4294967295) :
    let mid34 := ((ll / 4294967296 + lh % 4294967296) % 18446744073709551616 + hl % 4294967296) % 18446744073709551616
    let hi := (((hh + lh / 4294967296) % 18446744073709551616 + hl / 4294967296) % 18446744073709551616 +
      mid34 / 4294967296) % 18446744073709551616
    let lo := (mid34 * 4294967296 % 18446744073709551616 + ll % 4294967296) % 18446744073709551616
    lo + 18446744073709551616 * hi = ll + 4294967296 * (lh + hl) + 18446744073709551616 * hh ∧
      lo < 18446744073709551616 ∧ hi < 18446744073709551616 := by
  intro mid34 hi lo
  omega

/-- `2^n = 2^64 · 2^(n-64)` -/
theorem pow_split_hi {n : Nat} (h : 64 ≤ n) : 2 ^ n = 18446744073709551616 * 2 ^ (n - 64) := by
  have : n = 64 + (n - 64) := by omega
  conv_lhs => rw [this, Nat.pow_add]

/-- `2^64 = 2^(64-n) · 2^n` -/
theorem pow_split_lo {n : Nat} (h : n ≤ 64) : 18446744073709551616 = 2 ^ (64 - n) * 2 ^ n := by
  rw [← Nat.pow_add]
  have : 64 - n + n = 64 := by omega
  rw [this]

/-- logical right shift of the two-limb value by `n ≥ 64` -/
theorem shr_hi (lo hi n : Nat) (hlo : lo < 18446744073709551616) (hn : 64 ≤ n) :
    (lo + 18446744073709551616 * hi) / 2 ^ n = hi / 2 ^ (n - 64) := by
  rw [pow_split_hi hn, ← Nat.div_div_eq_div_mul]
  congr 1
  omega

/-- logical right shift of the two-limb value by `0 < n < 64`, the way the C code computes the low word:
    `((hi << (64-n)) mod 2^64) | (lo >> n)` -/
theorem shr_lo (lo hi n : Nat) (hlo : lo < 18446744073709551616) (hn : n < 64) :
    (hi * 2 ^ (64 - n) % 18446744073709551616 ||| lo / 2 ^ n) + 18446744073709551616 * (hi / 2 ^ n) =
      (lo + 18446744073709551616 * hi) / 2 ^ n := by
  have hs := pow_split_lo (n := n) (by omega)
  have hpos : 0 < 2 ^ n := Nat.two_pow_pos n
  -- the shifted-out high word keeps only `hi mod 2^n`
  have e1 : hi * 2 ^ (64 - n) % 18446744073709551616 = 2 ^ (64 - n) * (hi % 2 ^ n) := by
    rw [Nat.mul_comm hi]
    conv_lhs => rw [hs]
    exact Nat.mul_mod_mul_left _ _ _
  -- `lo >> n` fits below it
  have e2 : lo / 2 ^ n < 2 ^ (64 - n) := by
    rw [Nat.div_lt_iff_lt_mul hpos, ← hs]; exact hlo
  rw [e1, ← Nat.two_pow_add_eq_or_of_lt e2]
  -- the right-hand side
  have e3 : (lo + 18446744073709551616 * hi) / 2 ^ n = lo / 2 ^ n + 2 ^ (64 - n) * hi := by
    have : 18446744073709551616 * hi = 2 ^ n * (2 ^ (64 - n) * hi) := by
      conv_lhs => rw [hs]
      ring
    rw [this, Nat.add_mul_div_left _ _ hpos]
  rw [e3]
  have e4 : 18446744073709551616 * (hi / 2 ^ n) = 2 ^ (64 - n) * (2 ^ n * (hi / 2 ^ n)) := by
    conv_lhs => rw [hs]
    ring
  have e5 : hi % 2 ^ n + 2 ^ n * (hi / 2 ^ n) = hi := Nat.mod_add_div hi (2 ^ n)
  calc 2 ^ (64 - n) * (hi % 2 ^ n) + lo / 2 ^ n + 18446744073709551616 * (hi / 2 ^ n)
      = lo / 2 ^ n + 2 ^ (64 - n) * (hi % 2 ^ n + 2 ^ n * (hi / 2 ^ n)) := by rw [e4]; ring
    _ = lo / 2 ^ n + 2 ^ (64 - n) * hi := by rw [e5]

/-- the two-limb value is below `2^n`, `n ≥ 64`, iff the high word shifted by `n-64` vanishes -/
theorem lt_pow_hi (lo hi n : Nat) (hlo : lo < 18446744073709551616) (hn : 64 ≤ n) :
    lo + 18446744073709551616 * hi < 2 ^ n ↔ hi / 2 ^ (n - 64) = 0 := by
  rw [pow_split_hi hn, Nat.div_eq_zero_iff_lt (Nat.two_pow_pos _)]
  generalize 2 ^ (n - 64) = m
  omega

/-- the two-limb value is below `2^n`, `n < 64`, iff the high word is 0 and the low word shifted by `n` vanishes -/
theorem lt_pow_lo (lo hi n : Nat) (hn : n < 64) :
    lo + 18446744073709551616 * hi < 2 ^ n ↔ hi = 0 ∧ lo / 2 ^ n = 0 := by
  have hs := pow_split_lo (n := n) (by omega)
  have hk : 0 < 2 ^ (64 - n) := Nat.two_pow_pos _
  rw [Nat.div_eq_zero_iff_lt (Nat.two_pow_pos _)]
  have hle : 2 ^ n ≤ 18446744073709551616 := by
    rw [hs]; exact Nat.le_mul_of_pos_left _ hk
  generalize 2 ^ n = m at *
  omega

/-! ### the same, with `2 ^ 64` unevaluated (the form in which the symbolic execution leaves the goals) -/

theorem shr_hi' (lo hi n : Nat) (hlo : lo < 2 ^ 64) (hn : 64 ≤ n) :
    (lo + 2 ^ 64 * hi) / 2 ^ n = hi / 2 ^ (n - 64) := shr_hi lo hi n hlo hn

theorem shr_lo' (lo hi n : Nat) (hlo : lo < 2 ^ 64) (hn : n < 64) :
    (hi * 2 ^ (64 - n) % 2 ^ 64 ||| lo / 2 ^ n) + 2 ^ 64 * (hi / 2 ^ n) = (lo + 2 ^ 64 * hi) / 2 ^ n :=
  shr_lo lo hi n hlo hn

theorem lt_pow_hi' (lo hi n : Nat) (hlo : lo < 2 ^ 64) (hn : 64 ≤ n) :
    lo + 2 ^ 64 * hi < 2 ^ n ↔ hi / 2 ^ (n - 64) = 0 := lt_pow_hi lo hi n hlo hn

theorem lt_pow_lo' (lo hi n : Nat) (hn : n < 64) :
    lo + 2 ^ 64 * hi < 2 ^ n ↔ hi = 0 ∧ lo / 2 ^ n = 0 := lt_pow_lo lo hi n hn

/-- the C expression `n - 64` at `unsigned int` for `64 ≤ n < 2^32` -/
theorem sub64_u32 (n : Nat) (h : 64 ≤ n) (hn : n < 2 ^ 32) : (n + (2 ^ 32 - 64 % 2 ^ 32)) % 2 ^ 32 = n - 64 := by
  omega

/-- the C expression `64 - n` at `unsigned int` for `n ≤ 64` -/
theorem sub_from64_u32 (n : Nat) (h : n ≤ 64) : (64 + (2 ^ 32 - n % 2 ^ 32)) % 2 ^ 32 = 64 - n := by
  omega

end Int128
end SecpZkp
