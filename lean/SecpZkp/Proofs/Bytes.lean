import SecpZkp.Model.Bytes
/-
  Lemmas about the big-endian codecs `Bytes.toNat` / `Bytes.ofNat` and a few facts about single bytes.
  Core Lean only.
-/
namespace SecpZkp

/-! ### Single bytes -/

/-- A property of all bytes can be checked on the 256 values `UInt8.ofNat n`, `n < 256`. -/
theorem UInt8.forall_of_lt256 {p : UInt8 → Prop} (h : ∀ n, n < 256 → p (UInt8.ofNat n)) (b : UInt8) :
    p b := by
  have := h b.toNat (by have := b.toNat_lt; omega)
  rwa [UInt8.ofNat_toNat] at this

theorem byte_toNat_lt (b : UInt8) : b.toNat < 256 := by have := b.toNat_lt; omega

theorem byte_ofNat_toNat (n : Nat) : (UInt8.ofNat n).toNat = n % 256 := by
  rw [UInt8.toNat_ofNat']

theorem byte_ofNat_toNat_of_lt {n : Nat} (h : n < 256) : (UInt8.ofNat n).toNat = n := by
  rw [byte_ofNat_toNat]; omega

theorem byte_eq_zero_iff (b : UInt8) : b = 0 ↔ b.toNat = 0 := by
  rw [← UInt8.toNat_inj]; rfl

theorem byte_and80_eq_zero_iff (b : UInt8) : b &&& 0x80 = 0 ↔ b.toNat < 128 := by
  revert b; apply UInt8.forall_of_lt256; decide +kernel

theorem byte_and80_eq_80_iff (b : UInt8) : b &&& 0x80 = 0x80 ↔ 128 ≤ b.toNat := by
  revert b; apply UInt8.forall_of_lt256; decide +kernel

theorem byte_and7F_toNat (b : UInt8) : (b &&& 0x7F).toNat = b.toNat % 128 := by
  revert b; apply UInt8.forall_of_lt256; decide +kernel

theorem byte_lt80_iff (b : UInt8) : b < 0x80 ↔ b.toNat < 128 := by
  rw [UInt8.lt_iff_toNat_lt]; rfl

namespace Bytes

/-! ### `toNat` -/

@[simp] theorem toNat_nil : toNat [] = 0 := rfl

theorem foldl_toNat (bs : Bytes) (a : Nat) :
    bs.foldl (fun acc b => acc * 256 + b.toNat) a = a * 256 ^ bs.length + toNat bs := by
  induction bs generalizing a with
  | nil => simp [toNat]
  | cons b t ih =>
    simp only [List.foldl_cons, List.length_cons, toNat]
    rw [ih, ih (0 * 256 + b.toNat), Nat.pow_succ, Nat.add_mul, Nat.zero_mul, Nat.zero_add,
      Nat.mul_assoc, Nat.mul_comm 256, Nat.add_assoc]

theorem toNat_cons (b : UInt8) (t : Bytes) : toNat (b :: t) = b.toNat * 256 ^ t.length + toNat t := by
  have := foldl_toNat t (0 * 256 + b.toNat)
  simp only [Nat.zero_mul, Nat.zero_add] at this
  simpa [toNat] using this

theorem toNat_append (a b : Bytes) : toNat (a ++ b) = toNat a * 256 ^ b.length + toNat b := by
  unfold toNat
  rw [List.foldl_append]
  exact foldl_toNat b _

theorem toNat_concat (a : Bytes) (b : UInt8) : toNat (a ++ [b]) = toNat a * 256 + b.toNat := by
  rw [toNat_append]; simp [toNat_cons]

@[simp] theorem toNat_singleton (b : UInt8) : toNat [b] = b.toNat := by simp [toNat_cons]

/-- The big-endian value of an `n`-byte string is below `256^n`. -/
theorem toNat_lt (bs : Bytes) : toNat bs < 256 ^ bs.length := by
  induction bs with
  | nil => simp
  | cons b t ih =>
    rw [toNat_cons, List.length_cons, Nat.pow_succ]
    have hb := byte_toNat_lt b
    have : b.toNat * 256 ^ t.length ≤ 255 * 256 ^ t.length := Nat.mul_le_mul_right _ (by omega)
    omega

theorem toNat_replicate_zero (k : Nat) : toNat (List.replicate k (0 : UInt8)) = 0 := by
  induction k with
  | zero => rfl
  | succ k ih => rw [List.replicate_succ, toNat_cons, ih]; simp

theorem toNat_zero_cons (t : Bytes) : toNat ((0 : UInt8) :: t) = toNat t := by
  rw [toNat_cons]; simp

/-- A string whose first byte is non-zero has value at least `256^(n-1)`. -/
theorem le_toNat_cons {b : UInt8} (hb : b ≠ 0) (t : Bytes) : 256 ^ t.length ≤ toNat (b :: t) := by
  rw [toNat_cons]
  have : b.toNat ≠ 0 := fun h => hb ((byte_eq_zero_iff b).2 h)
  have : 1 * 256 ^ t.length ≤ b.toNat * 256 ^ t.length := Nat.mul_le_mul_right _ (by omega)
  omega

/-! ### `ofNat` -/

@[simp] theorem ofNat_length (len x : Nat) : (ofNat len x).length = len := by
  induction len with
  | zero => rfl
  | succ n ih => simp [ofNat, ih]

/-- Decoding an encoding gives the value reduced modulo `256^len`. -/
theorem toNat_ofNat (len x : Nat) : toNat (ofNat len x) = x % 256 ^ len := by
  induction len with
  | zero => simp [ofNat, Nat.mod_one]
  | succ n ih =>
    rw [ofNat, toNat_cons, ih, ofNat_length, byte_ofNat_toNat, Nat.pow_succ]
    have hpos : 0 < 256 ^ n := Nat.pow_pos (by decide)
    rw [Nat.mod_mul (a := 256 ^ n) (b := 256) (x := x), Nat.mod_mod]
    rw [Nat.mul_comm, Nat.add_comm]

theorem toNat_ofNat_of_lt {len x : Nat} (h : x < 256 ^ len) : toNat (ofNat len x) = x := by
  rw [toNat_ofNat, Nat.mod_eq_of_lt h]

theorem ofNat_mod (len x : Nat) : ofNat len (x % 256 ^ len) = ofNat len x := by
  induction len generalizing x with
  | zero => rfl
  | succ n ih =>
    have hpos : 0 < 256 ^ n := Nat.pow_pos (by decide)
    simp only [ofNat]
    congr 1
    · congr 1
      rw [Nat.pow_succ, Nat.mod_mul (a := 256 ^ n) (b := 256) (x := x)]
      rw [Nat.mul_comm, Nat.add_mul_div_right _ _ hpos,
        Nat.div_eq_of_lt (Nat.mod_lt _ hpos), Nat.zero_add, Nat.mod_mod]
    · rw [← ih (x % 256 ^ (n + 1)), ← ih x, Nat.pow_succ, Nat.mod_mul_right_mod]

/-- Encoding the value of a `len`-byte string in `len` bytes gives the string back. -/
theorem ofNat_toNat {len : Nat} (bs : Bytes) (h : bs.length = len) : ofNat len (toNat bs) = bs := by
  induction bs generalizing len with
  | nil => subst h; rfl
  | cons b t ih =>
    subst h
    have hpos : 0 < 256 ^ t.length := Nat.pow_pos (by decide)
    have ht := toNat_lt t
    have hb := byte_toNat_lt b
    simp only [List.length_cons, ofNat]
    congr 1
    · rw [toNat_cons, Nat.add_comm, Nat.add_mul_div_right _ _ hpos, Nat.div_eq_of_lt ht, Nat.zero_add,
        Nat.mod_eq_of_lt hb, UInt8.ofNat_toNat]
    · rw [← ofNat_mod, toNat_cons, Nat.mul_add_mod_self_right, Nat.mod_eq_of_lt ht]
      exact ih rfl

theorem ofNat_zero (len : Nat) : ofNat len 0 = List.replicate len 0 := by
  induction len with
  | zero => rfl
  | succ n ih => simp [ofNat, ih, List.replicate_succ]

/-- `ofNat` is injective on values below `256^len`. -/
theorem ofNat_inj {len x y : Nat} (hx : x < 256 ^ len) (hy : y < 256 ^ len)
    (h : ofNat len x = ofNat len y) : x = y := by
  have := congrArg toNat h
  rwa [toNat_ofNat_of_lt hx, toNat_ofNat_of_lt hy] at this

@[simp] theorem be32_length (x : Nat) : (be32 x).length = 32 := ofNat_length 32 x

theorem toNat_be32 {x : Nat} (h : x < 2 ^ 256) : toNat (be32 x) = x :=
  toNat_ofNat_of_lt (len := 32) (by simpa using h)

theorem be32_toNat (bs : Bytes) (h : bs.length = 32) : be32 (toNat bs) = bs := ofNat_toNat bs h

end Bytes
end SecpZkp
