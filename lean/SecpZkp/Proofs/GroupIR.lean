import SecpZkp.Gen.F_group
import SecpZkp.Proofs.GroupExtra
import SecpZkp.Proofs.Jacobian
import SecpZkp.Proofs.Prime
/-
  Helpers for `Props/C05_group.lean`:
  * symbolic execution of `FeIR` programs (`FeEnv.get/set` on literal names, one rewrite rule per statement),
  * `IsAff p a b`: "the model point `p` is the finite point with coordinates `a b : ZMod P`", with the affine group
    law of `Model/Curve.lean` (`Pt.add`, `Pt.dbl`, `Pt.neg`) restated over `ZMod P`,
  * the representation relations `RepJ` / `RepA` between an `FeIR.State` and a model point.
-/
namespace SecpZkp
namespace FeIR
open MiniC

/-! ### Environments -/

theorem FeEnv.get_set (e : FeEnv) (x y : String) (v : FeVal) :
    (e.set x v).get y = if x = y then v else e.get y := by
  unfold FeEnv.get FeEnv.set
  by_cases h : x = y
  · subst h; simp
  · simp only [h, if_false]
    rw [List.find?_cons_of_neg (by simpa using h)]
    rw [List.find?_filter]
    congr 2
    funext a
    by_cases h2 : a.1 = y
    · subst h2; simp; exact fun h3 => h h3.symm
    · simp [h2]

theorem ints_get_set (e : Env) (x y : String) (v : Nat) :
    (e.set x 0 v).get y 0 = if x = y then v else e.get y 0 := by
  unfold Env.get Env.set
  by_cases h : x = y
  · subst h; simp
  · simp only [h, if_false]
    rw [List.find?_cons_of_neg (by simpa using h)]
    rw [List.find?_filter]
    congr 2
    funext a
    by_cases h2 : a.1 = (y, 0)
    · simp [h2]; exact fun h3 => h h3.symm
    · simp [h2]

/-! ### One rewrite rule per statement -/

theorem obind_some {α β : Type} (a : α) (f : α → Option β) : Option.bind (some a) f = f a := rfl
theorem obind_none {α β : Type} (f : α → Option β) : Option.bind none f = none := rfl

theorem execL_nil (st : State) : execL st [] = some st := by rw [execL]

theorem execL_returned (fe : FeEnv) (ints : Env) (l : List Stmt) :
    execL ⟨fe, ints, true⟩ l = some ⟨fe, ints, true⟩ := by
  cases l with
  | nil => rw [execL]
  | cons s rest => rw [execL]; simp

theorem execL_cons (fe : FeEnv) (ints : Env) (s : Stmt) (rest : List Stmt) :
    execL ⟨fe, ints, false⟩ (s :: rest) =
      Option.bind (execS ⟨fe, ints, false⟩ s) (fun st' => execL st' rest) := by
  rw [execL]
  simp only [Bool.false_eq_true, if_false]
  cases execS ⟨fe, ints, false⟩ s <;> rfl

theorem execL_append (st : State) (l1 l2 : List Stmt) :
    execL st (l1 ++ l2) = Option.bind (execL st l1) (fun st' => execL st' l2) := by
  induction l1 generalizing st with
  | nil => rw [List.nil_append, execL_nil]; rfl
  | cons s rest ih =>
    obtain ⟨fe, ints, r⟩ := st
    cases r with
    | true => rw [execL_returned, execL_returned, obind_some, execL_returned]
    | false =>
      rw [List.cons_append, execL_cons, execL_cons]
      cases execS ⟨fe, ints, false⟩ s with
      | none => rfl
      | some st1 => rw [obind_some, obind_some, ih]

/-- `if c then some x else none`: the form of every magnitude precondition -/
def guard' (c : Prop) [Decidable c] (x : State) : Option State := if c then some x else none

theorem guard'_pos {c : Prop} [Decidable c] (h : c) (x : State) : guard' c x = some x := if_pos h
theorem guard'_true (x : State) : guard' True x = some x := rfl

/-- continuation of a statement list after one statement -/
def cont (o : Option State) (rest : List Stmt) : Option State := Option.bind o (fun st' => execL st' rest)

theorem cont_some (x : State) (rest : List Stmt) : cont (some x) rest = execL x rest := rfl
theorem cont_none (rest : List Stmt) : cont none rest = none := rfl

theorem execL_step (fe : FeEnv) (ints : Env) (s : Stmt) (rest : List Stmt) :
    execL ⟨fe, ints, false⟩ (s :: rest) = cont (execS ⟨fe, ints, false⟩ s) rest := execL_cons fe ints s rest

/-- leaving an inlined callee: the `returned` flag of the caller is restored -/
def unscope (r : Bool) (o : Option State) : Option State := Option.map (fun st' => ⟨st'.fe, st'.ints, r⟩) o

theorem unscope_some (r r' : Bool) (fe : FeEnv) (ints : Env) :
    unscope r (some ⟨fe, ints, r'⟩) = some ⟨fe, ints, r⟩ := rfl

section stmts
variable (fe : FeEnv) (ints : Env) (r : Bool)

theorem execS_set (d s : String) :
    execS ⟨fe, ints, r⟩ (.set d s) = some ⟨fe.set d (fe.get s), ints, r⟩ := by rw [execS]
theorem execS_setInt (d : String) (n : ℕ) :
    execS ⟨fe, ints, r⟩ (.setInt d n) = guard' (n ≤ 0x7FFF) ⟨fe.set d ⟨n, if n = 0 then 0 else 1⟩, ints, r⟩ := by
  rw [execS]; rfl
theorem execS_clear (d : String) :
    execS ⟨fe, ints, r⟩ (.clear d) = some ⟨fe.set d ⟨0, 0⟩, ints, r⟩ := by rw [execS]
theorem execS_const (d : String) (n : ℕ) :
    execS ⟨fe, ints, r⟩ (.const d n) = guard' (n < P) ⟨fe.set d ⟨n, 1⟩, ints, r⟩ := by rw [execS]; rfl
theorem execS_mul (d a b : String) :
    execS ⟨fe, ints, r⟩ (.mul d a b) = guard' ((fe.get a).mag ≤ 8 ∧ (fe.get b).mag ≤ 8)
      ⟨fe.set d ⟨Fe.mul (fe.get a).val (fe.get b).val, 1⟩, ints, r⟩ := by rw [execS]; rfl
theorem execS_sqr (d a : String) :
    execS ⟨fe, ints, r⟩ (.sqr d a) = guard' ((fe.get a).mag ≤ 8) ⟨fe.set d ⟨Fe.sqr (fe.get a).val, 1⟩, ints, r⟩ := by
  rw [execS]; rfl
theorem execS_add (d a : String) :
    execS ⟨fe, ints, r⟩ (.add d a) = guard' ((fe.get d).mag + (fe.get a).mag ≤ 32)
      ⟨fe.set d ⟨Fe.add (fe.get d).val (fe.get a).val, (fe.get d).mag + (fe.get a).mag⟩, ints, r⟩ := by
  rw [execS]; rfl
theorem execS_neg (d a : String) (m : ℕ) :
    execS ⟨fe, ints, r⟩ (.neg d a m) = guard' ((fe.get a).mag ≤ m ∧ m ≤ 31)
      ⟨fe.set d ⟨Fe.neg (fe.get a).val, m + 1⟩, ints, r⟩ := by rw [execS]; rfl
theorem execS_mulInt (d : String) (k : ℕ) :
    execS ⟨fe, ints, r⟩ (.mulInt d k) = guard' (k ≤ 32 ∧ (fe.get d).mag * k ≤ 32)
      ⟨fe.set d ⟨Fe.mul (fe.get d).val k, (fe.get d).mag * k⟩, ints, r⟩ := by rw [execS]; rfl
theorem execS_addInt (d : String) (k : ℕ) :
    execS ⟨fe, ints, r⟩ (.addInt d k) = guard' (k ≤ 0x7FFF ∧ (fe.get d).mag + 1 ≤ 32)
      ⟨fe.set d ⟨Fe.add (fe.get d).val k, (fe.get d).mag + 1⟩, ints, r⟩ := by rw [execS]; rfl
theorem execS_half (d : String) :
    execS ⟨fe, ints, r⟩ (.half d) = guard' ((fe.get d).mag ≤ 31)
      ⟨fe.set d ⟨Fe.half (canon (fe.get d).val), (fe.get d).mag / 2 + 1⟩, ints, r⟩ := by rw [execS]; rfl
theorem execS_norm (d : String) :
    execS ⟨fe, ints, r⟩ (.norm d) = guard' ((fe.get d).mag ≤ 32) ⟨fe.set d ⟨canon (fe.get d).val, 1⟩, ints, r⟩ := by
  rw [execS]; rfl
theorem execS_cmov (d s : String) (flag : Expr) :
    execS ⟨fe, ints, r⟩ (.cmov d s flag) = guard' (evalEI ints flag ≤ 1)
      ⟨fe.set d ⟨if evalEI ints flag = 1 then (fe.get s).val else (fe.get d).val,
        max (fe.get d).mag (fe.get s).mag⟩, ints, r⟩ := by rw [execS]; rfl
theorem execS_isZero (x f : String) :
    execS ⟨fe, ints, r⟩ (.isZero x f) = guard' ((fe.get f).mag ≤ 32)
      ⟨fe, ints.set x 0 (if canon (fe.get f).val = 0 then 1 else 0), r⟩ := by rw [execS]; rfl
theorem execS_isOdd (x f : String) :
    execS ⟨fe, ints, r⟩ (.isOdd x f) = guard' ((fe.get f).mag ≤ 1)
      ⟨fe, ints.set x 0 (canon (fe.get f).val % 2), r⟩ := by rw [execS]; rfl
theorem execS_equal (x f g : String) :
    execS ⟨fe, ints, r⟩ (.equal x f g) = guard' ((fe.get f).mag ≤ 1 ∧ (fe.get g).mag ≤ 31)
      ⟨fe, ints.set x 0 (if canon (fe.get f).val = canon (fe.get g).val then 1 else 0), r⟩ := by rw [execS]; rfl
theorem execS_int (x : String) (e : Expr) :
    execS ⟨fe, ints, r⟩ (.int x e) = some ⟨fe, ints.set x 0 (evalEI ints e), r⟩ := by rw [execS]
theorem execS_ite (c : Expr) (t e : List Stmt) :
    execS ⟨fe, ints, r⟩ (.ite c t e) =
      if evalEI ints c ≠ 0 then execL ⟨fe, ints, r⟩ t else execL ⟨fe, ints, r⟩ e := by rw [execS]
theorem execS_scope (body : List Stmt) :
    execS ⟨fe, ints, r⟩ (.scope body) = unscope r (execL ⟨fe, ints, r⟩ body) := by
  rw [execS]
  cases execL ⟨fe, ints, r⟩ body <;> rfl
theorem execS_ret : execS ⟨fe, ints, r⟩ .ret = some ⟨fe, ints, true⟩ := by rw [execS]

end stmts

theorem ite_one_zero_eq_zero (c : Prop) [Decidable c] : ((if c then 1 else 0 : Nat) = 0) = ¬ c := by
  by_cases h : c <;> simp [h]
theorem ite_one_zero_eq_one (c : Prop) [Decidable c] : ((if c then 1 else 0 : Nat) = 1) = c := by
  by_cases h : c <;> simp [h]
theorem ite_one_zero_ne_zero (c : Prop) [Decidable c] : ((if c then 1 else 0 : Nat) ≠ 0) = c := by
  by_cases h : c <;> simp [h]
theorem ite_one_zero_le_one (c : Prop) [Decidable c] : ((if c then 1 else 0 : Nat) ≤ 1) = True := by
  by_cases h : c <;> simp [h]
theorem ite_not_swap {α : Type} (c : Prop) [Decidable c] (a b : α) :
    (if ¬ c then a else b) = if c then b else a := by
  by_cases h : c <;> simp [h]

theorem FeEnv.set_set (e : FeEnv) (x : String) (v w : FeVal) : (e.set x v).set x w = e.set x w := by
  unfold FeEnv.set
  simp [List.filter_filter]

/-! ### Casting to `ZMod P` -/

theorem cast_canon (v : ℕ) : ((canon v : ℕ) : ZMod P) = (v : ZMod P) := by
  unfold canon; exact ZMod.natCast_mod v P

theorem canon_eq_zero_iff (v : ℕ) : canon v = 0 ↔ (v : ZMod P) = 0 := by
  unfold canon; exact (Fe.cast_eq_zero_iff v).symm

theorem cast_half_canon (v : ℕ) : ((Fe.half (canon v) : ℕ) : ZMod P) = (v : ZMod P) * (2 : ZMod P)⁻¹ := by
  rw [Fe.cast_half, cast_canon]

theorem canon_eq_canon_iff (v w : ℕ) : canon v = canon w ↔ (v : ZMod P) = (w : ZMod P) := by
  unfold canon
  rw [ZMod.natCast_eq_natCast_iff']

/-! ### Finite points with coordinates in `ZMod P` -/

/-- `p` is the finite point whose (canonical) coordinates are `a`, `b` in the field -/
def IsAff (p : Pt) (a b : ZMod P) : Prop :=
  ∃ x y : ℕ, p = .aff x y ∧ x < P ∧ y < P ∧ (x : ZMod P) = a ∧ (y : ZMod P) = b

theorem IsAff.unique {p q : Pt} {a b : ZMod P} (h1 : IsAff p a b) (h2 : IsAff q a b) : p = q := by
  obtain ⟨x, y, rfl, hx, hy, rfl, rfl⟩ := h1
  obtain ⟨x', y', rfl, hx', hy', h1, h2⟩ := h2
  rw [Fe.eq_of_cast_eq hx' hx h1, Fe.eq_of_cast_eq hy' hy h2]

theorem IsAff.ne_inf {p : Pt} {a b : ZMod P} (h : IsAff p a b) : p ≠ .inf := by
  obtain ⟨x, y, rfl, _⟩ := h
  exact fun h => Pt.noConfusion h

theorem isAff_aff (x y : ℕ) : IsAff (.aff (x % P) (y % P)) (x : ZMod P) (y : ZMod P) :=
  ⟨_, _, rfl, Nat.mod_lt _ P_pos, Nat.mod_lt _ P_pos, ZMod.natCast_mod x P, ZMod.natCast_mod y P⟩

theorem IsAff.congr {p : Pt} {a b a' b' : ZMod P} (h : IsAff p a b) (ha : a = a') (hb : b = b') :
    IsAff p a' b' := by subst ha hb; exact h

theorem isAff_toPt {X Y Z : ℕ} (hz : Z % P ≠ 0) :
    ∃ a b : ZMod P, IsAff (Pt.Jac.toPt ⟨X, Y, Z⟩) a b ∧ (X : ZMod P) = a * ((Z : ZMod P) * Z) ∧
      (Y : ZMod P) = b * ((Z : ZMod P) * Z * Z) := by
  have hzc : (Z : ZMod P) ≠ 0 := cast_ne_zero_of_mod hz
  refine ⟨(X : ZMod P) * ((Z : ZMod P)⁻¹ * (Z : ZMod P)⁻¹),
    (Y : ZMod P) * ((Z : ZMod P)⁻¹ * (Z : ZMod P)⁻¹ * (Z : ZMod P)⁻¹), ?_, ?_, ?_⟩
  · rw [Pt.Jac.toPt_mk_ne hz]
    exact ⟨_, _, rfl, Fe.mul_lt_P _ _, Fe.mul_lt_P _ _,
      by simp only [Fe.cast_mul, Fe.cast_sqr, Fe.cast_inv],
      by simp only [Fe.cast_mul, Fe.cast_sqr, Fe.cast_inv]⟩
  · field_simp
  · field_simp

theorem IsAff.eq_toPt {q : Pt} {a b : ZMod P} {X Y Z : ℕ} (hq : IsAff q a b) (hz : (Z : ZMod P) ≠ 0)
    (hx : (X : ZMod P) = a * ((Z : ZMod P) * Z)) (hy : (Y : ZMod P) = b * ((Z : ZMod P) * Z * Z)) :
    q = Pt.Jac.toPt ⟨X, Y, Z⟩ := by
  obtain ⟨a', b', h, hX, hY⟩ := isAff_toPt (X := X) (Y := Y) (mod_ne_zero_of_cast hz)
  have ha : a' = a := mul_right_cancel₀ (mul_ne_zero hz hz) (hX.symm.trans hx)
  have hb : b' = b := mul_right_cancel₀ (mul_ne_zero (mul_ne_zero hz hz) hz) (hY.symm.trans hy)
  subst ha hb
  exact hq.unique h

theorem IsAff.valid_iff {p : Pt} {a b : ZMod P} (h : IsAff p a b) :
    p.valid = true ↔ b * b = a * a * a + 7 := by
  obtain ⟨x, y, rfl, hx, hy, rfl, rfl⟩ := h
  rw [valid_aff_iff, W_nonsingular_iff, W_equation_iff]
  exact ⟨fun h => h.2.2, fun h => ⟨hx, hy, h⟩⟩

theorem y_ne_zero_of_curve {a b : ZMod P} (hv : b * b = a * a * a + 7) : b ≠ 0 := by
  rintro rfl
  exact neg_seven_not_cube a (by linear_combination -hv)

theorem IsAff.neg {p : Pt} {a b : ZMod P} (h : IsAff p a b) : IsAff (Pt.neg p) a (-b) := by
  obtain ⟨x, y, rfl, hx, hy, rfl, rfl⟩ := h
  exact ⟨x, Fe.neg y, rfl, hx, Fe.neg_lt_P y, rfl, Fe.cast_neg y⟩

theorem IsAff.dbl {p : Pt} {a b : ZMod P} (h : IsAff p a b) (hv : b * b = a * a * a + 7) :
    IsAff (Pt.dbl p) (3 * (a * a) * (2 * b)⁻¹ * (3 * (a * a) * (2 * b)⁻¹) - 2 * a)
      (3 * (a * a) * (2 * b)⁻¹ * (a - (3 * (a * a) * (2 * b)⁻¹ * (3 * (a * a) * (2 * b)⁻¹) - 2 * a)) - b) := by
  have hb : b ≠ 0 := y_ne_zero_of_curve hv
  obtain ⟨x, y, rfl, hx, hy, rfl, rfl⟩ := h
  have hy0 : y % P ≠ 0 := mod_ne_zero_of_cast hb
  rw [Pt.dbl, if_neg hy0]
  dsimp only
  exact ⟨_, _, rfl, Fe.sub_lt_P _ _, Fe.sub_lt_P _ _,
    by simp only [Fe.cast_sub, Fe.cast_mul, Fe.cast_sqr, Fe.cast_inv, Nat.cast_ofNat],
    by simp only [Fe.cast_sub, Fe.cast_mul, Fe.cast_sqr, Fe.cast_inv, Nat.cast_ofNat]⟩

theorem IsAff.add_ne {p q : Pt} {a b c d : ZMod P} (hp : IsAff p a b) (hq : IsAff q c d) (hne : a ≠ c) :
    IsAff (Pt.add p q) ((d - b) * (c - a)⁻¹ * ((d - b) * (c - a)⁻¹) - a - c)
      ((d - b) * (c - a)⁻¹ * (a - ((d - b) * (c - a)⁻¹ * ((d - b) * (c - a)⁻¹) - a - c)) - b) := by
  obtain ⟨x1, y1, rfl, hx1, hy1, rfl, rfl⟩ := hp
  obtain ⟨x2, y2, rfl, hx2, hy2, rfl, rfl⟩ := hq
  have hx : x1 ≠ x2 := fun h => hne (by rw [h])
  rw [Pt.add, if_neg hx]
  dsimp only
  exact ⟨_, _, rfl, Fe.sub_lt_P _ _, Fe.sub_lt_P _ _,
    by simp only [Fe.cast_sub, Fe.cast_mul, Fe.cast_sqr, Fe.cast_inv],
    by simp only [Fe.cast_sub, Fe.cast_mul, Fe.cast_sqr, Fe.cast_inv]⟩

theorem IsAff.add_same {p q : Pt} {a b : ZMod P} (hp : IsAff p a b) (hq : IsAff q a b)
    (hv : b * b = a * a * a + 7) : Pt.add p q = Pt.dbl p := by
  have := hq.unique hp
  subst this
  exact (dbl_eq_add_self ((hq.valid_iff).2 hv)).symm

theorem IsAff.add_neg {p q : Pt} {a b : ZMod P} (hp : IsAff p a b) (hq : IsAff q a (-b)) :
    Pt.add p q = .inf := by
  obtain ⟨x1, y1, rfl, hx1, hy1, rfl, rfl⟩ := hp
  obtain ⟨x2, y2, rfl, hx2, hy2, h1, h2⟩ := hq
  have hx : x1 = x2 := (Fe.eq_of_cast_eq hx2 hx1 h1).symm
  have hy : (y1 + y2) % P = 0 := by
    rw [← Fe.cast_eq_zero_iff, Nat.cast_add, h2]; ring
  rw [Pt.add, if_pos hx, if_pos hy]

/-- on the curve, equal abscissas force `d = b` or `d = -b` -/
theorem curve_same_x {a b d : ZMod P} (h1 : b * b = a * a * a + 7) (h2 : d * d = a * a * a + 7) :
    d = b ∨ d = -b := by
  have : (d - b) * (d + b) = 0 := by linear_combination h2 - h1
  rcases mul_eq_zero.1 this with h | h
  · left; linear_combination h
  · right; linear_combination h

/-! ### Representation relations -/

/-- Jacobian representation, on the components -/
def RepJ' (x y z : FeVal) (inf : ℕ) (p : Pt) (mx my mz : ℕ) : Prop :=
  x.mag ≤ mx ∧ y.mag ≤ my ∧ z.mag ≤ mz ∧
  ((inf = 1 ∧ p = .inf) ∨ (inf = 0 ∧ z.val % P ≠ 0 ∧ p = Pt.Jac.toPt ⟨x.val, y.val, z.val⟩))

/-- The Jacobian variable `pre` (`pre.x`, `pre.y`, `pre.z`, `pre.infinity`) of the state represents the model point
    `p`, with magnitudes at most `mx`, `my`, `mz`: the flag is 0 or 1; if it is 1 then `p = ∞`; otherwise `z ≠ 0 mod P`
    and `p` is the affine point `(x / z², y / z³)`. -/
def RepJ (st : State) (pre : String) (p : Pt) (mx my mz : ℕ) : Prop :=
  RepJ' (st.fe.get (pre ++ ".x")) (st.fe.get (pre ++ ".y")) (st.fe.get (pre ++ ".z"))
    (st.ints.get (pre ++ ".infinity") 0) p mx my mz

/-- affine representation, on the components -/
def RepA' (x y : FeVal) (inf : ℕ) (p : Pt) (mx my : ℕ) : Prop :=
  x.mag ≤ mx ∧ y.mag ≤ my ∧
  ((inf = 1 ∧ p = .inf) ∨ (inf = 0 ∧ p = .aff (x.val % P) (y.val % P)))

/-- The affine variable `pre` (`pre.x`, `pre.y`, `pre.infinity`) represents `p` with magnitudes at most `mx`, `my`. -/
def RepA (st : State) (pre : String) (p : Pt) (mx my : ℕ) : Prop :=
  RepA' (st.fe.get (pre ++ ".x")) (st.fe.get (pre ++ ".y")) (st.ints.get (pre ++ ".infinity") 0) p mx my

theorem RepJ'.fin {x y z : FeVal} {inf : ℕ} {p : Pt} {mx my mz : ℕ} {a b : ZMod P}
    (hmx : x.mag ≤ mx) (hmy : y.mag ≤ my) (hmz : z.mag ≤ mz) (hinf : inf = 0)
    (hp : IsAff p a b) (hz : (z.val : ZMod P) ≠ 0)
    (hx : (x.val : ZMod P) = a * ((z.val : ZMod P) * z.val))
    (hy : (y.val : ZMod P) = b * ((z.val : ZMod P) * z.val * z.val)) : RepJ' x y z inf p mx my mz :=
  ⟨hmx, hmy, hmz, Or.inr ⟨hinf, mod_ne_zero_of_cast hz, hp.eq_toPt hz hx hy⟩⟩

theorem RepJ'.inf {x y z : FeVal} {inf : ℕ} {p : Pt} {mx my mz : ℕ}
    (hmx : x.mag ≤ mx) (hmy : y.mag ≤ my) (hmz : z.mag ≤ mz) (hinf : inf = 1) (hp : p = .inf) :
    RepJ' x y z inf p mx my mz :=
  ⟨hmx, hmy, hmz, Or.inl ⟨hinf, hp⟩⟩

/-- elimination form: field-level data of a finite Jacobian representation -/
theorem RepJ'.elim {x y z : FeVal} {inf : ℕ} {p : Pt} {mx my mz : ℕ} (h : RepJ' x y z inf p mx my mz) :
    x.mag ≤ mx ∧ y.mag ≤ my ∧ z.mag ≤ mz ∧
    ((inf = 1 ∧ p = .inf) ∨ (inf = 0 ∧ (z.val : ZMod P) ≠ 0 ∧ ∃ a b : ZMod P, IsAff p a b ∧
      (x.val : ZMod P) = a * ((z.val : ZMod P) * z.val) ∧
      (y.val : ZMod P) = b * ((z.val : ZMod P) * z.val * z.val))) := by
  obtain ⟨h1, h2, h3, h4⟩ := h
  refine ⟨h1, h2, h3, ?_⟩
  rcases h4 with h | ⟨hi, hz, hp⟩
  · exact Or.inl h
  · obtain ⟨a, b, hab, hX, hY⟩ := isAff_toPt (X := x.val) (Y := y.val) hz
    exact Or.inr ⟨hi, cast_ne_zero_of_mod hz, a, b, hp ▸ hab, hX, hY⟩

theorem RepA'.elim {x y : FeVal} {inf : ℕ} {p : Pt} {mx my : ℕ} (h : RepA' x y inf p mx my) :
    x.mag ≤ mx ∧ y.mag ≤ my ∧
    ((inf = 1 ∧ p = .inf) ∨ (inf = 0 ∧ IsAff p (x.val : ZMod P) (y.val : ZMod P))) := by
  obtain ⟨h1, h2, h3⟩ := h
  refine ⟨h1, h2, ?_⟩
  rcases h3 with h | ⟨hi, hp⟩
  · exact Or.inl h
  · exact Or.inr ⟨hi, hp ▸ isAff_aff _ _⟩

theorem RepA'.fin {x y : FeVal} {inf : ℕ} {p : Pt} {mx my : ℕ}
    (hmx : x.mag ≤ mx) (hmy : y.mag ≤ my) (hinf : inf = 0)
    (hp : IsAff p (x.val : ZMod P) (y.val : ZMod P)) : RepA' x y inf p mx my :=
  ⟨hmx, hmy, Or.inr ⟨hinf, hp.unique (isAff_aff _ _)⟩⟩

theorem RepA'.inf {x y : FeVal} {inf : ℕ} {p : Pt} {mx my : ℕ}
    (hmx : x.mag ≤ mx) (hmy : y.mag ≤ my) (hinf : inf = 1) (hp : p = .inf) : RepA' x y inf p mx my :=
  ⟨hmx, hmy, Or.inl ⟨hinf, hp⟩⟩

/-- the flag computed by `fe_normalizes_to_zero(z)`: finite case -/
theorem RepJ'.isZero_fin {x y z : FeVal} {p : Pt} {mx my mz : ℕ} {a b : ZMod P}
    (hmx : x.mag ≤ mx) (hmy : y.mag ≤ my) (hmz : z.mag ≤ mz)
    (hp : IsAff p a b) (hz : (z.val : ZMod P) ≠ 0)
    (hx : (x.val : ZMod P) = a * ((z.val : ZMod P) * z.val))
    (hy : (y.val : ZMod P) = b * ((z.val : ZMod P) * z.val * z.val)) :
    RepJ' x y z (if canon z.val = 0 then 1 else 0) p mx my mz :=
  RepJ'.fin hmx hmy hmz (by rw [if_neg]; rwa [canon_eq_zero_iff]) hp hz hx hy

/-- the flag computed by `fe_normalizes_to_zero(z)`: infinite case -/
theorem RepJ'.isZero_inf {x y z : FeVal} {p : Pt} {mx my mz : ℕ}
    (hmx : x.mag ≤ mx) (hmy : y.mag ≤ my) (hmz : z.mag ≤ mz)
    (hz : (z.val : ZMod P) = 0) (hp : p = .inf) :
    RepJ' x y z (if canon z.val = 0 then 1 else 0) p mx my mz :=
  RepJ'.inf hmx hmy hmz (by rw [if_pos]; rwa [canon_eq_zero_iff]) hp

theorem half_eq_of_two_mul {t : ℕ} {w : ZMod P} (h : (t : ZMod P) = 2 * w) :
    ((Fe.half (canon t) : ℕ) : ZMod P) = w := by
  have h2 : (2 : ZMod P) ≠ 0 := zmodP_two_ne_zero
  rw [cast_half_canon, h]
  field_simp

/-! ### The unified addition formula of `secp256k1_gej_add_ge`, over a commutative ring

  `a b` / `c d`: affine coordinates of the two points, `z`: the Jacobian `z` of the first, `l`: the slope,
  `Rr / Mm`: numerator and denominator of `l·z` (`Ralt`, `Malt` in the C code), `Nn = M³·Malt`. -/

theorem jac_add_x {K : Type} [CommRing K] (a c z l Rr Mm : K) (hR : Rr = l * z * Mm) :
    Rr * Rr + -(a * (z * z) + c * (z * z)) * (Mm * Mm) = (l * l - a - c) * ((z * Mm) * (z * Mm)) := by
  subst hR; ring

theorem jac_add_y {K : Type} [CommRing K] (a b c d z l Rr Mm Nn : K) (hR : Rr = l * z * Mm)
    (hN : Nn = (b + d) * (z * z * z) * (Mm * Mm * Mm)) (hl : l * (c - a) = d - b) :
    -((2 * (Rr * Rr + -(a * (z * z) + c * (z * z)) * (Mm * Mm)) + -(a * (z * z) + c * (z * z)) * (Mm * Mm)) * Rr
        + Nn) =
      2 * ((l * (a - (l * l - a - c)) - b) * ((z * Mm) * (z * Mm) * (z * Mm))) := by
  subst hR hN; linear_combination (z ^ 3 * Mm ^ 3) * hl

instance (x y z : FeVal) (inf : ℕ) (p : Pt) (mx my mz : ℕ) : Decidable (RepJ' x y z inf p mx my mz) := by
  unfold RepJ'; infer_instance
instance (st : State) (pre : String) (p : Pt) (mx my mz : ℕ) : Decidable (RepJ st pre p mx my mz) := by
  unfold RepJ; infer_instance
instance (x y : FeVal) (inf : ℕ) (p : Pt) (mx my : ℕ) : Decidable (RepA' x y inf p mx my) := by
  unfold RepA'; infer_instance
instance (st : State) (pre : String) (p : Pt) (mx my : ℕ) : Decidable (RepA st pre p mx my) := by
  unfold RepA; infer_instance

theorem IsAff.xOf_eq_iff {p : Pt} {a b : ZMod P} (h : IsAff p a b) (v : ℕ) :
    Pt.xOf p = v % P ↔ a = (v : ZMod P) := by
  obtain ⟨x, y, rfl, hx, hy, rfl, rfl⟩ := h
  show x = v % P ↔ _
  rw [← Fe.cast_eq_iff hx (Nat.mod_lt _ P_pos), ZMod.natCast_mod]

/-! ### The variable-time addition formula (`gej_add_var`, `gej_add_ge_var`, `gej_add_zinv_var`), over a commutative ring

  `w`: the common denominator (`z1·z2`, or `z1`), `h = u2 - u1`, `i = s1 - s2`, result `z = w·h`. -/

theorem jac_addvar_x {K : Type} [CommRing K] (a b c d w l h i : K) (hh : h = (c - a) * (w * w))
    (hi : i = (b - d) * (w * w * w)) (hl : l * (c - a) = d - b) :
    i * i + -(h * h) * h + 2 * (a * (w * w) * -(h * h)) = (l * l - a - c) * ((w * h) * (w * h)) := by
  subst hh hi
  linear_combination (-(w ^ 6) * (d - b + l * (c - a))) * hl

theorem jac_addvar_y {K : Type} [CommRing K] (a b c d w l h i : K) (hh : h = (c - a) * (w * w))
    (hi : i = (b - d) * (w * w * w)) (hl : l * (c - a) = d - b) :
    (a * (w * w) * -(h * h) + (i * i + -(h * h) * h + 2 * (a * (w * w) * -(h * h)))) * i
        + -(h * h) * h * (b * (w * w * w)) =
      (l * (a - (l * l - a - c)) - b) * ((w * h) * (w * h) * (w * h)) := by
  subst hh hi
  linear_combination (-(w ^ 9) * (2 * a ^ 3 - 3 * a ^ 2 * c - a ^ 2 * l ^ 2 - a * b * l + 2 * a * c * l ^ 2
    + a * d * l - b ^ 2 + b * c * l + 2 * b * d + c ^ 3 - c ^ 2 * l ^ 2 - c * d * l - d ^ 2)) * hl

/-! ### Tactics -/

/-- symbolic execution of an `FeIR` program on a state `⟨fe, ints, false⟩`; magnitude preconditions are discharged by
    `omega` from the hypotheses in the context -/
macro "fe_exec" "[" ts:Lean.Parser.Tactic.simpLemma,* "]" : tactic =>
  `(tactic| simp (maxSteps := 10000000) (disch := omega) only [execL_step, execL_nil, execL_returned, cont_some, unscope_some,
      guard'_pos, guard'_true,
      execS_set, execS_setInt, execS_clear, execS_const, execS_mul, execS_sqr, execS_add, execS_neg, execS_mulInt,
      execS_addInt, execS_half, execS_norm, execS_cmov, execS_isZero, execS_isOdd, execS_equal, execS_int,
      execS_ite, execS_scope, execS_ret,
      FeEnv.get_set, ints_get_set, MiniC.evalEI, String.reduceEq, if_false, if_true,
      ite_one_zero_eq_zero, ite_one_zero_eq_one, ite_one_zero_ne_zero, ite_one_zero_le_one,
      ne_eq, not_true_eq_false, not_false_eq_true, one_ne_zero, zero_ne_one, eq_self, true_and, and_true,
      OfNat.ofNat_ne_zero, Nat.succ_ne_zero, reduceCtorEq, $ts,*])

/-- read variables of a symbolically executed state -/
macro "fe_get" "[" ts:Lean.Parser.Tactic.simpLemma,* "]" : tactic =>
  `(tactic| simp only [RepJ, RepA, String.reduceAppend, FeEnv.get_set, ints_get_set, String.reduceEq, if_false,
      if_true, $ts,*])

end FeIR
end SecpZkp
