import SecpZkp.Proofs.EllswiftField
import SecpZkp.Proofs.Bytes
import SecpZkp.Proofs.Sha256
/-
  ElligatorSwift: refinement of the model functions of `Model/Ellswift.lean` to the field-level
  description of `Proofs/EllswiftField.lean`, and the consequences for the model:
  every `(u, t)` decodes to an x-coordinate on the curve; the inverse map round-trips.
-/
namespace SecpZkp
namespace Ellswift

/-! ### On-curve tests -/

theorem geXOnCurveVar_iff (x : ℕ) : geXOnCurveVar x = true ↔ IsSquare (gx (x : F)) := by
  unfold geXOnCurveVar gx
  rw [Fe.isSquare_iff]
  simp only [Fe.cast_add, Fe.cast_mul, Fe.cast_sqr, Nat.cast_ofNat]
  have e : (x : F) * x * x + 7 = (x : F) ^ 3 + 7 := by ring
  rw [e]

theorem frac_onCurve_iff {n d : F} (hd : d ≠ 0) :
    IsSquare (d * n * (n * n) + d * d * (d * d) * 7) ↔ IsSquare (gx (n / d)) := by
  have e : d * n * (n * n) + d * d * (d * d) * 7 = gx (n / d) * ((d * d) * (d * d)) := by
    unfold gx; field_simp
  rw [e]
  exact ⟨isSquare_of_mul_sq (mul_ne_zero hd hd), isSquare_mul_sq⟩

theorem geXFracOnCurveVar_iff (n d : ℕ) (hd : (d : F) ≠ 0) :
    geXFracOnCurveVar n d = true ↔ IsSquare (gx ((n : F) / d)) := by
  unfold geXFracOnCurveVar
  rw [Fe.isSquare_iff, ← frac_onCurve_iff hd]
  simp only [Fe.cast_add, Fe.cast_mul, Fe.cast_sqr, Nat.cast_ofNat]

/-! ### The forward map -/

/-- The part of `xswiftecFracVar` after the remapping of the exceptional inputs. -/
def fracCore (u1 s g p : ℕ) : ℕ × ℕ :=
  let l := Fe.sqr u1
  let d := Fe.mul s l
  let d := Fe.mul d 3
  let l := Fe.sqr p
  let l := Fe.neg l
  let n := Fe.mul d u1
  let n := Fe.add n l
  if geXFracOnCurveVar n d then
    (n, d)
  else
    let l := Fe.mul c1 s
    let n := Fe.mul c2 g
    let n := Fe.add n l
    let n := Fe.mul n u1
    if geXFracOnCurveVar n p then
      (n, p)
    else
      let l := Fe.mul p u1
      let n := Fe.add n l
      (Fe.neg n, p)

theorem fracCore_cast {u1 s g p : ℕ} {U S : F} (hU : (u1 : F) = U) (hS : (s : F) = S)
    (hg : (g : F) = gx U) (hp : (p : F) = gx U + S) (hU0 : U ≠ 0) (hS0 : S ≠ 0)
    (hp0 : gx U + S ≠ 0) :
    ((fracCore u1 s g p).2 : F) ≠ 0 ∧
    ((fracCore u1 s g p).1 : F) / ((fracCore u1 s g p).2 : F) = FU U S := by
  have hd : ((Fe.mul (Fe.mul s (Fe.sqr u1)) 3 : ℕ) : F) = D3 U S := by
    simp only [Fe.cast_mul, Fe.cast_sqr, Nat.cast_ofNat, hU, hS, D3]
  have hn3 : ((Fe.add (Fe.mul (Fe.mul (Fe.mul s (Fe.sqr u1)) 3) u1) (Fe.neg (Fe.sqr p)) : ℕ) : F)
      = N3 U S := by
    simp only [Fe.cast_add, Fe.cast_neg, Fe.cast_mul, Fe.cast_sqr, Nat.cast_ofNat, hU, hS, hp, D3, N3]
  have hn2 : ((Fe.mul (Fe.add (Fe.mul c2 g) (Fe.mul c1 s)) u1 : ℕ) : F) = N2 U S := by
    simp only [Fe.cast_add, Fe.cast_mul, cast_c1, cast_c2, hU, hS, hg, N2]
  have hn1 : ((Fe.neg (Fe.add (Fe.mul (Fe.add (Fe.mul c2 g) (Fe.mul c1 s)) u1) (Fe.mul p u1)) : ℕ) : F)
      = N1 U S := by
    simp only [Fe.cast_add, Fe.cast_neg, Fe.cast_mul, cast_c1, cast_c2, hU, hS, hg, hp, N2, N1]
  have hd0 := D3_ne_zero hU0 hS0
  unfold fracCore FU
  simp only []
  by_cases h3 : IsSquare (gx (X3 U S))
  · have : geXFracOnCurveVar _ _ = true :=
      (geXFracOnCurveVar_iff _ _ (by rw [hd]; exact hd0)).2 (by rw [hn3, hd]; exact h3)
    rw [if_pos this, if_pos h3]
    exact ⟨by rw [hd]; exact hd0, by rw [hn3, hd]; rfl⟩
  · have : ¬ geXFracOnCurveVar _ _ = true := fun h =>
      h3 (by have := (geXFracOnCurveVar_iff _ _ (by rw [hd]; exact hd0)).1 h; rwa [hn3, hd] at this)
    rw [if_neg this, if_neg h3]
    by_cases h2 : IsSquare (gx (X2 U S))
    · have : geXFracOnCurveVar _ p = true :=
        (geXFracOnCurveVar_iff _ _ (by rw [hp]; exact hp0)).2 (by rw [hn2, hp]; exact h2)
      rw [if_pos this, if_pos h2]
      exact ⟨by rw [hp]; exact hp0, by rw [hn2, hp]; rfl⟩
    · have : ¬ geXFracOnCurveVar _ p = true := fun h =>
        h2 (by have := (geXFracOnCurveVar_iff _ _ (by rw [hp]; exact hp0)).1 h; rwa [hn2, hp] at this)
      rw [if_neg this, if_neg h2]
      exact ⟨by rw [hp]; exact hp0, by rw [hn1, hp]; rfl⟩

/-- `xswiftecFracVar` is the remapping of the exceptional inputs followed by `fracCore`. -/
theorem xswiftecFracVar_eq (u t : ℕ) : xswiftecFracVar u t =
    (let u1 := if u % P = 0 then 1 else u % P
     let s := if t % P = 0 then 1 else Fe.sqr (t % P)
     let g := Fe.add (Fe.mul (Fe.sqr u1) u1) 7
     if Fe.add g s = 0 then fracCore u1 (Fe.mul s 4) g (Fe.add g (Fe.mul s 4))
     else fracCore u1 s g (Fe.add g s)) := by
  unfold xswiftecFracVar fracCore
  simp only []
  split_ifs <;> rfl

/-- `u` after the remapping `0 ↦ 1` -/
def remU (u : ℕ) : F := if (u : F) = 0 then 1 else u
/-- `s = t²` after the remapping `t = 0 ↦ 1` -/
def remS0 (t : ℕ) : F := if (t : F) = 0 then 1 else (t : F) * t
/-- `s` after the remapping `g + s = 0 ↦ 4 s` (i.e. `t ↦ 2t`) -/
def remS (u t : ℕ) : F := if gx (remU u) + remS0 t = 0 then remS0 t * 4 else remS0 t

theorem remU_ne_zero (u : ℕ) : remU u ≠ 0 := by
  unfold remU; split_ifs with h
  · exact one_ne_zero
  · exact h

theorem remS0_ne_zero (t : ℕ) : remS0 t ≠ 0 := by
  unfold remS0; split_ifs with h
  · exact one_ne_zero
  · exact mul_ne_zero h h

theorem remS0_isSquare (t : ℕ) : IsSquare (remS0 t) := by
  unfold remS0; split_ifs with h
  · exact ⟨1, by ring⟩
  · exact ⟨t, rfl⟩

theorem four_ne_zero' : (4 : F) ≠ 0 := by
  have : (4 : F) = 2 * 2 := by norm_num
  rw [this]; exact mul_ne_zero two_ne_zero two_ne_zero

theorem remS_ne_zero (u t : ℕ) : remS u t ≠ 0 := by
  unfold remS; split_ifs with h
  · exact mul_ne_zero (remS0_ne_zero t) four_ne_zero'
  · exact remS0_ne_zero t

theorem remS_isSquare (u t : ℕ) : IsSquare (remS u t) := by
  unfold remS; split_ifs with h
  · obtain ⟨c, hc⟩ := remS0_isSquare t
    exact ⟨c * 2, by rw [hc]; ring⟩
  · exact remS0_isSquare t

theorem remS_add_ne_zero (u t : ℕ) : gx (remU u) + remS u t ≠ 0 := by
  unfold remS; split_ifs with h
  · intro h'
    have : remS0 t * 3 = 0 := by linear_combination h' - h
    rcases mul_eq_zero.1 this with h0 | h0
    · exact remS0_ne_zero t h0
    · exact three_ne_zero h0
  · exact h

theorem cast_remU (u : ℕ) : (((if u % P = 0 then 1 else u % P : ℕ)) : F) = remU u := by
  unfold remU
  by_cases h : u % P = 0
  · rw [if_pos h, if_pos ((Fe.cast_eq_zero_iff u).2 h), Nat.cast_one]
  · rw [if_neg h, if_neg (fun h' => h ((Fe.cast_eq_zero_iff u).1 h')), ZMod.natCast_mod]

theorem cast_remS0 (t : ℕ) : (((if t % P = 0 then 1 else Fe.sqr (t % P) : ℕ)) : F) = remS0 t := by
  unfold remS0
  by_cases h : t % P = 0
  · rw [if_pos h, if_pos ((Fe.cast_eq_zero_iff t).2 h), Nat.cast_one]
  · rw [if_neg h, if_neg (fun h' => h ((Fe.cast_eq_zero_iff t).1 h')), Fe.cast_sqr, ZMod.natCast_mod]

/-- **Refinement of the forward map**: the fraction returned by `xswiftecFracVar` has a non-zero
    denominator and represents `F_u` of the remapped inputs. -/
theorem xswiftecFracVar_cast (u t : ℕ) :
    ((xswiftecFracVar u t).2 : F) ≠ 0 ∧
    ((xswiftecFracVar u t).1 : F) / ((xswiftecFracVar u t).2 : F) = FU (remU u) (remS u t) := by
  rw [xswiftecFracVar_eq]
  simp only []
  have hU := cast_remU u
  have hS := cast_remS0 t
  generalize (if u % P = 0 then 1 else u % P) = u1 at hU ⊢
  generalize (if t % P = 0 then 1 else Fe.sqr (t % P)) = s at hS ⊢
  have hg : ((Fe.add (Fe.mul (Fe.sqr u1) u1) 7 : ℕ) : F) = gx (remU u) := by
    simp only [Fe.cast_add, Fe.cast_mul, Fe.cast_sqr, Nat.cast_ofNat, hU, gx]; ring
  generalize Fe.add (Fe.mul (Fe.sqr u1) u1) 7 = g at hg ⊢
  have hp : ((Fe.add g s : ℕ) : F) = gx (remU u) + remS0 t := by rw [Fe.cast_add, hg, hS]
  by_cases h0 : Fe.add g s = 0
  · have h0' : gx (remU u) + remS0 t = 0 := by rw [← hp, h0, Nat.cast_zero]
    have hS4 : ((Fe.mul s 4 : ℕ) : F) = remS u t := by
      unfold remS; rw [if_pos h0', Fe.cast_mul, hS]; norm_num
    rw [if_pos h0]
    exact fracCore_cast hU hS4 hg (by rw [Fe.cast_add, hg, hS4]) (remU_ne_zero u) (remS_ne_zero u t)
      (remS_add_ne_zero u t)
  · have h0' : gx (remU u) + remS0 t ≠ 0 := by
      rw [← hp]; intro h; apply h0
      have := (Fe.cast_eq_zero_iff _).1 h
      rwa [Nat.mod_eq_of_lt (Fe.add_lt_P _ _)] at this
    have hS' : ((s : ℕ) : F) = remS u t := by unfold remS; rw [if_neg h0', hS]
    rw [if_neg h0]
    exact fracCore_cast hU hS' hg (by rw [hp]; unfold remS; rw [if_neg h0']) (remU_ne_zero u)
      (remS_ne_zero u t) (remS_add_ne_zero u t)

theorem xswiftecVar_cast (u t : ℕ) : ((xswiftecVar u t : ℕ) : F) = FU (remU u) (remS u t) := by
  unfold xswiftecVar
  simp only []
  rw [Fe.cast_mul, Fe.cast_inv, ← div_eq_mul_inv]
  exact (xswiftecFracVar_cast u t).2

theorem xswiftecVar_lt (u t : ℕ) : xswiftecVar u t < P := by
  unfold xswiftecVar; simp only []; exact Fe.mul_lt_P _ _

/-- **Every `(u, t)` decodes to the x-coordinate of a curve point.** -/
theorem xswiftecVar_onCurve (u t : ℕ) : geXOnCurveVar (xswiftecVar u t) = true := by
  rw [geXOnCurveVar_iff, xswiftecVar_cast]
  exact FU_onCurve (remU_ne_zero u) (remS_ne_zero u t) (remS_isSquare u t) (remS_add_ne_zero u t)

/-! ### The inverse map -/

/-- first part of `xswiftecInvVar` for `c ∈ {0,1,4,5}` (inputs already reduced) -/
def invA (x u : ℕ) : Option (ℕ × ℕ) :=
  let m := Fe.add x u
  let m := Fe.neg m
  if geXOnCurveVar m then none else
  let s := Fe.sqr m
  let s := Fe.neg s
  let m := Fe.mul u x
  let s := Fe.add s m
  let g := Fe.sqr u
  let g := Fe.mul g u
  let g := Fe.add g 7
  let m := Fe.mul s g
  if !Fe.isSquare m then none else
  let s := Fe.inv s
  let s := Fe.mul s g
  some (s, x)

/-- first part of `xswiftecInvVar` for `c ∈ {2,3,6,7}` (inputs already reduced) -/
def invB (x u c : ℕ) : Option (ℕ × ℕ) :=
  let m := Fe.neg u
  let s := Fe.add m x
  if !Fe.isSquare s then none else
  let g := Fe.sqr u
  let q := Fe.mul s g
  let q := Fe.mul q 3
  let g := Fe.mul g u
  let g := Fe.mul g 4
  let g := Fe.add g 28
  let q := Fe.add q g
  let q := Fe.mul q s
  let q := Fe.neg q
  if !Fe.isSquare q then none else
  let r := Fe.sqrtCand q
  if c &&& 1 = 1 ∧ r = 0 then none else
  if s = 0 then none else
  let v := Fe.inv s
  let v := Fe.mul v r
  let v := Fe.add v m
  let v := Fe.half v
  some (s, v)

/-- second part of `xswiftecInvVar` -/
def invTail (u c s v : ℕ) : ℕ :=
  let w := Fe.sqrtCand s
  let m := if c &&& 5 = 0 ∨ c &&& 5 = 5 then Fe.neg w else w
  let u := Fe.mul u (if c &&& 1 = 1 then c4 else c3)
  let u := Fe.add u v
  Fe.mul m u

theorem xswiftecInvVar_eq (x u c : ℕ) : xswiftecInvVar x u c =
    (match (if c &&& 2 = 0 then invA (x % P) (u % P) else invB (x % P) (u % P) c) with
     | none => none
     | some (s, v) => some (invTail (u % P) c s v)) := by
  rfl

theorem invA_spec {x u s v : ℕ} (hX : IsSquare (gx (x : F))) (h : invA x u = some (s, v)) :
    v = x ∧ (s : F) ≠ 0 ∧ IsSquare (s : F) ∧
    (s : F) * ((u : F) ^ 2 + u * x + (x : F) ^ 2) = -gx (u : F) ∧
    ¬ IsSquare (gx (-(u : F) - x)) := by
  unfold invA at h
  simp only [] at h
  split_ifs at h with h1 h2
  simp only [Option.some.injEq, Prod.mk.injEq] at h
  obtain ⟨hs, hv⟩ := h
  have hn : ¬ IsSquare (gx (-(u : F) - x)) := by
    intro hsq; apply h1
    rw [geXOnCurveVar_iff, Fe.cast_neg, Fe.cast_add]
    have e : -((x : F) + u) = -(u : F) - x := by ring
    rw [e]; exact hsq
  simp only [Bool.not_eq_true', ← Bool.not_eq_true] at h2
  have h2' := not_not.1 h2
  rw [Fe.isSquare_iff] at h2'
  simp only [Fe.cast_add, Fe.cast_neg, Fe.cast_mul, Fe.cast_sqr, Nat.cast_ofNat] at h2'
  have hQ : (u : F) ^ 2 + u * x + (x : F) ^ 2 ≠ 0 := by
    intro h0
    apply hn
    have := gx_neg_of_quad_zero h0
    rw [this]; exact hX
  have eS0 : (-(-((x : F) + u) * -((x : F) + u)) + (u : F) * x) =
      -((u : F) ^ 2 + u * x + (x : F) ^ 2) := by ring
  have eG : (u : F) * u * u + 7 = gx (u : F) := by unfold gx; ring
  rw [eS0, eG] at h2'
  have hsF : (s : F) = -gx (u : F) / ((u : F) ^ 2 + u * x + (x : F) ^ 2) := by
    rw [← hs]
    simp only [Fe.cast_add, Fe.cast_neg, Fe.cast_mul, Fe.cast_sqr, Fe.cast_inv, Nat.cast_ofNat]
    rw [eS0, eG]
    field_simp
  have hG := gx_ne_zero (u : F)
  generalize (u : F) ^ 2 + u * x + (x : F) ^ 2 = Q at hQ h2' hsF ⊢
  generalize gx (u : F) = G at hG h2' hsF ⊢
  refine ⟨hv.symm, ?_, ?_, ?_, hn⟩
  · rw [hsF]; exact div_ne_zero (neg_ne_zero.2 hG) hQ
  · obtain ⟨c, hc⟩ := h2'
    refine ⟨c / Q, ?_⟩
    rw [hsF]; field_simp; linear_combination hc
  · rw [hsF]; field_simp

theorem invB_spec {x u c s v : ℕ} (h : invB x u c = some (s, v)) :
    (s : F) = (x : F) - u ∧ (s : F) ≠ 0 ∧ IsSquare (s : F) ∧
    (s : F) * ((u : F) ^ 2 + u * v + (v : F) ^ 2) = -gx (u : F) := by
  unfold invB at h
  simp only [] at h
  split_ifs at h with h1 h2 h3 h4
  simp only [Option.some.injEq, Prod.mk.injEq] at h
  obtain ⟨hs, hv⟩ := h
  simp only [Bool.not_eq_true', ← Bool.not_eq_true] at h1 h2
  have h1' := not_not.1 h1
  have h2' := not_not.1 h2
  rw [hs] at h1' h2' h4 hv
  rw [Fe.isSquare_iff] at h1' h2'
  have hsF : (s : F) = (x : F) - u := by
    rw [← hs, Fe.cast_add, Fe.cast_neg]; ring
  have hs0 : (s : F) ≠ 0 := by
    intro h0; apply h4
    have := (Fe.cast_eq_zero_iff s).1 h0
    rwa [Nat.mod_eq_of_lt (by rw [← hs]; exact Fe.add_lt_P _ _)] at this
  have hr := Fe.sqrtCand_sq_of_isSquare h2'
  refine ⟨hsF, hs0, h1', ?_⟩
  refine conic_B hs0 (r := ((Fe.sqrtCand (Fe.neg (Fe.mul (Fe.add (Fe.mul (Fe.mul s (Fe.sqr u)) 3)
    (Fe.add (Fe.mul (Fe.mul (Fe.sqr u) u) 4) 28)) s)) : ℕ) : F)) ?_ ?_
  · rw [← hv, Fe.cast_half, Fe.cast_add, Fe.cast_mul, Fe.cast_inv, Fe.cast_neg]
    have := two_ne_zero
    field_simp
    ring
  · rw [hr]
    simp only [Fe.cast_add, Fe.cast_neg, Fe.cast_mul, Fe.cast_sqr, Nat.cast_ofNat]

theorem invTail_sq {u c s v : ℕ} (hs : IsSquare (s : F)) :
    ((invTail u c s v : ℕ) : F) * (invTail u c s v : ℕ) =
        (s : F) * ((ω * u - v) * (ω * u - v)) ∨
    ((invTail u c s v : ℕ) : F) * (invTail u c s v : ℕ) =
        (s : F) * ((ω * u - (-(u : F) - v)) * (ω * u - (-(u : F) - v))) := by
  have hw := Fe.sqrtCand_sq_of_isSquare hs
  unfold invTail
  simp only []
  have hm : ∀ m : ℕ, (m = Fe.neg (Fe.sqrtCand s) ∨ m = Fe.sqrtCand s) → (m : F) * m = s := by
    rintro m (h | h)
    · rw [h, Fe.cast_neg]; linear_combination hw
    · rw [h]; exact hw
  have hm' := hm (if c &&& 5 = 0 ∨ c &&& 5 = 5 then Fe.neg (Fe.sqrtCand s) else Fe.sqrtCand s)
    (by split_ifs; exacts [Or.inl rfl, Or.inr rfl])
  generalize (if c &&& 5 = 0 ∨ c &&& 5 = 5 then Fe.neg (Fe.sqrtCand s) else Fe.sqrtCand s) = m at hm'
  by_cases h1 : c &&& 1 = 1
  · right
    rw [if_pos h1, Fe.cast_mul, Fe.cast_add, Fe.cast_mul, cast_c4]
    linear_combination ((u * (ω + 1) + v) * ((u : F) * (ω + 1) + v)) * hm'
  · left
    rw [if_neg h1, Fe.cast_mul, Fe.cast_add, Fe.cast_mul, cast_c3]
    linear_combination ((u * (-ω) + v) * ((u : F) * (-ω) + v)) * hm'

theorem invTail_lt (u c s v : ℕ) : invTail u c s v < P := by
  unfold invTail; simp only []; exact Fe.mul_lt_P _ _

/-- On generic inputs (no remapping) the forward map is `F_u(t)` with `s = t²`. -/
theorem xswiftecVar_cast_generic {u t : ℕ} (hT : (t : F) * t ≠ 0)
    (hp : gx (u : F) + (t : F) * t ≠ 0) (hU : (u : F) ≠ 0) :
    ((xswiftecVar u t : ℕ) : F) = FU (u : F) ((t : F) * t) := by
  rw [xswiftecVar_cast]
  have eU : remU u = u := by unfold remU; rw [if_neg hU]
  have eS0 : remS0 t = (t : F) * t := by
    unfold remS0; rw [if_neg (fun h => hT (by rw [h, zero_mul]))]
  have eS : remS u t = (t : F) * t := by
    unfold remS; rw [eU, eS0, if_neg hp]
  rw [eU, eS]

/-- **Round trip of the inverse map** (every branch `c`): for `x` on the curve and `u ≠ 0`, a value
    `t` returned by `xswiftecInvVar x u c` is non-zero, reduced, and decodes back to `x`. -/
theorem xswiftecInvVar_roundtrip {x u c t : ℕ} (hx : x < P) (hxc : geXOnCurveVar x = true)
    (hu : u % P ≠ 0) (h : xswiftecInvVar x u c = some t) :
    xswiftecVar u t = x ∧ t % P ≠ 0 ∧ t < P := by
  rw [xswiftecInvVar_eq, Nat.mod_eq_of_lt hx] at h
  have hX : IsSquare (gx (x : F)) := (geXOnCurveVar_iff x).1 hxc
  have hU : ((u % P : ℕ) : F) ≠ 0 := by
    rw [Ne, Fe.cast_eq_zero_iff, Nat.mod_mod]; exact hu
  have eU : ((u % P : ℕ) : F) = (u : F) := ZMod.natCast_mod u P
  have key : ((t : ℕ) : F) * t ≠ 0 ∧ gx (u : F) + (t : F) * t ≠ 0 ∧ FU (u : F) ((t : F) * t) = x ∧
      t < P := by
    by_cases hc : c &&& 2 = 0
    · rw [if_pos hc] at h
      cases hA : invA x (u % P) with
      | none => rw [hA] at h; exact absurd h (by simp)
      | some sv =>
        obtain ⟨s, v⟩ := sv
        rw [hA] at h
        simp only [Option.some.injEq] at h
        obtain ⟨hv, hs0, hss, hrel, hn⟩ := invA_spec hX hA
        have hT := invTail_sq (u := u % P) (c := c) (v := v) hss
        rw [h, hv, eU] at hT
        rw [eU] at hrel hn
        rw [eU] at hU
        obtain ⟨r1, r2, r3⟩ := roundtrip_A hU hX hn hs0 hss hrel hT
        exact ⟨r1, r2, r3, by rw [← h]; exact invTail_lt _ _ _ _⟩
    · rw [if_neg hc] at h
      cases hB : invB x (u % P) c with
      | none => rw [hB] at h; exact absurd h (by simp)
      | some sv =>
        obtain ⟨s, v⟩ := sv
        rw [hB] at h
        simp only [Option.some.injEq] at h
        obtain ⟨hsF, hs0, hss, hrel⟩ := invB_spec hB
        have hT := invTail_sq (u := u % P) (c := c) (v := v) hss
        rw [h, eU, hsF, eU] at hT
        rw [eU, hsF, eU] at hrel
        rw [hsF, eU] at hs0
        rw [eU] at hU
        obtain ⟨r1, r2, r3⟩ := roundtrip_B hU hX hs0 hrel hT
        exact ⟨r1, r2, r3, by rw [← h]; exact invTail_lt _ _ _ _⟩
  obtain ⟨k1, k2, k3, k4⟩ := key
  rw [eU] at hU
  refine ⟨?_, ?_, k4⟩
  · apply Fe.eq_of_cast_eq (xswiftecVar_lt u t) hx
    rw [xswiftecVar_cast_generic k1 k2 hU, k3]
  · intro h0
    apply k1
    rw [(Fe.cast_eq_zero_iff t).2 h0, zero_mul]


/-! ### Lifting the x-coordinate to a point -/

theorem ite_parity (y z : ℕ) (b odd : Bool) :
    (if b = odd then y else z) = (if (b != odd) = true then z else y) := by
  cases b <;> cases odd <;> rfl

/-- For a reduced `x` on the curve, `geSetXoVar` is `Pt.liftX` (which then always succeeds). -/
theorem geSetXoVar_eq_liftX {x : ℕ} (hx : x < P) (h : geXOnCurveVar x = true) (odd : Bool) :
    Pt.liftX x odd = some (geSetXoVar x odd).1 := by
  have hsq : Fe.isSquare (Fe.add (Fe.mul (Fe.sqr x) x) 7) = true := h
  rw [Fe.isSquare_iff] at hsq
  have hs : Fe.sqrt (Fe.add (Fe.mul (Fe.sqr x) x) 7)
      = some (Fe.sqrtCand (Fe.add (Fe.mul (Fe.sqr x) x) 7)) :=
    (Fe.sqrt_eq_some_iff _ _).2 ⟨rfl, hsq⟩
  unfold Pt.liftX
  rw [hs]
  unfold geSetXoVar
  simp only []
  rw [Nat.mod_eq_of_lt hx]
  exact congrArg (fun w => some (Pt.aff x w)) (ite_parity _ _ _ _)

theorem geSetXoVar_spec {x : ℕ} (hx : x < P) (h : geXOnCurveVar x = true) (odd : Bool) :
    (geSetXoVar x odd).1.valid = true ∧ (geSetXoVar x odd).1 ≠ .inf ∧
    (geSetXoVar x odd).1.xOf = x ∧ Fe.isOdd (geSetXoVar x odd).1.yOf = odd := by
  have := liftX_some (geSetXoVar_eq_liftX hx h odd)
  rwa [Nat.mod_eq_of_lt hx] at this

/-- `geSetXoVar` recovers a valid point from its abscissa and the parity of its ordinate. -/
theorem geSetXoVar_of_valid {x y : ℕ} (hv : (Pt.aff x y).valid = true) :
    (geSetXoVar x (Fe.isOdd y)).1 = .aff x y := by
  obtain ⟨hx, _, hn⟩ := (valid_aff_iff x y).1 hv
  have hc : geXOnCurveVar x = true := by
    rw [geXOnCurveVar_iff]
    have he := (W_equation_iff _ _).1 hn.1
    exact ⟨(y : F), by unfold gx; rw [he]; ring⟩
  have h1 := geSetXoVar_eq_liftX hx hc (Fe.isOdd y)
  rw [liftX_of_valid hv] at h1
  exact (Option.some.inj h1).symm

/-- `swiftecVar u t` is a valid finite point with abscissa `xswiftecVar u t` and the parity of `t`. -/
theorem swiftecVar_spec (u t : ℕ) :
    (swiftecVar u t).valid = true ∧ swiftecVar u t ≠ .inf ∧
    (swiftecVar u t).xOf = xswiftecVar u t ∧
    Fe.isOdd (swiftecVar u t).yOf = Fe.isOdd (t % P) :=
  geSetXoVar_spec (xswiftecVar_lt u t) (xswiftecVar_onCurve u t) _

/-! ### `decode` -/

/-- the two field elements read by `decode` -/
def decU (ell64 : Bytes) : ℕ := Bytes.toNat (ell64.take 32) % P
def decT (ell64 : Bytes) : ℕ := Bytes.toNat ((ell64.drop 32).take 32) % P

theorem decode_eq (ell64 : Bytes) : decode ell64 = ⟨1, swiftecVar (decU ell64) (decT ell64), 0⟩ := rfl

theorem P_lt_256 : P < 2 ^ 256 := by decide +kernel

theorem decU_append {u32 : Bytes} (hl : u32.length = 32) (b : Bytes) :
    decU (u32 ++ b) = Bytes.toNat u32 % P := by
  unfold decU
  rw [List.take_left' hl]

theorem decT_append {u32 : Bytes} (hl : u32.length = 32) {t : ℕ} (ht : t < P) :
    decT (u32 ++ Bytes.be32 t) = t := by
  unfold decT
  rw [List.drop_left' hl, List.take_of_length_le (by rw [Bytes.be32_length]),
    Bytes.toNat_be32 (lt_trans ht P_lt_256), Nat.mod_eq_of_lt ht]

/-! ### The forward map only depends on `t²` -/

theorem xswiftecVar_congr {u t t' : ℕ} (h : (t' : F) = t ∨ (t' : F) = -(t : F)) :
    xswiftecVar u t' = xswiftecVar u t := by
  apply Fe.eq_of_cast_eq (xswiftecVar_lt _ _) (xswiftecVar_lt _ _)
  rw [xswiftecVar_cast, xswiftecVar_cast]
  have e0 : remS0 t' = remS0 t := by
    unfold remS0
    rcases h with h | h
    · rw [h]
    · rw [h]; simp only [neg_eq_zero, neg_mul_neg]
  unfold remS
  rw [e0]

/-! ### The encoding search loop -/

theorem length_prng (h : Sha256.State) (cnt : ℕ) : (prng h cnt).length = 32 :=
  Sha256.length_finalize _

/-- Whatever the search loop returns was produced by the inverse map for the `u` it returns. -/
theorem xelligatorswiftLoop_some {fuel x : ℕ} {hasher : Sha256.State} {bh : Bytes} {bl cnt : ℕ}
    {u32 : Bytes} {t : ℕ} (h : xelligatorswiftLoop fuel x hasher bh bl cnt = some (u32, t)) :
    u32.length = 32 ∧ ∃ c, xswiftecInvVar x (Bytes.toNat u32 % P) c = some t := by
  induction fuel generalizing bh bl cnt with
  | zero => exact absurd h (by simp [xelligatorswiftLoop])
  | succ n ih =>
    unfold xelligatorswiftLoop at h
    simp only [] at h
    split at h
    · next t' ht' =>
      simp only [Option.some.injEq, Prod.mk.injEq] at h
      obtain ⟨h1, h2⟩ := h
      subst h1 h2
      exact ⟨length_prng _ _, _, ht'⟩
    · exact ih h

theorem xelligatorswiftVar_some {fuel x : ℕ} {hasher : Sha256.State} {u32 : Bytes} {t : ℕ}
    (h : xelligatorswiftVar fuel x hasher = some (u32, t)) :
    u32.length = 32 ∧ ∃ c, xswiftecInvVar x (Bytes.toNat u32 % P) c = some t :=
  xelligatorswiftLoop_some h

/-! ### Parity fix-up and the full round trip -/

theorem isOdd_neg_of_pos {t : ℕ} (h0 : 0 < t) (ht : t < P) : Fe.isOdd (Fe.neg t) = !Fe.isOdd t := by
  rw [Fe.neg_eq_of_pos h0 ht]
  have hP := P_odd
  unfold Fe.isOdd
  rcases Nat.mod_two_eq_zero_or_one t with e | e
  · have : (P - t) % 2 = 1 := by omega
    simp [e, this]
  · have : (P - t) % 2 = 0 := by omega
    simp [e, this]

theorem onCurve_of_valid {x y : ℕ} (hv : (Pt.aff x y).valid = true) :
    x < P ∧ geXOnCurveVar x = true := by
  obtain ⟨hx, _, hn⟩ := (valid_aff_iff x y).1 hv
  refine ⟨hx, ?_⟩
  rw [geXOnCurveVar_iff]
  have he := (W_equation_iff _ _).1 hn.1
  exact ⟨(y : F), by unfold gx; rw [he]; ring⟩

/-- The parity fix-up of `elligatorswiftVar`. -/
def fixParity (t py : ℕ) : ℕ := if Fe.isOdd t != Fe.isOdd py then Fe.neg t else t

theorem fixParity_spec {t : ℕ} (h0 : 0 < t) (ht : t < P) (py : ℕ) :
    fixParity t py < P ∧ Fe.isOdd (fixParity t py) = Fe.isOdd py ∧
    (((fixParity t py : ℕ) : F) = t ∨ ((fixParity t py : ℕ) : F) = -(t : F)) := by
  unfold fixParity
  by_cases h : (Fe.isOdd t != Fe.isOdd py) = true
  · rw [if_pos h]
    refine ⟨Fe.neg_lt_P t, ?_, Or.inr (Fe.cast_neg t)⟩
    rw [isOdd_neg_of_pos h0 ht]
    revert h; cases Fe.isOdd t <;> cases Fe.isOdd py <;> simp
  · rw [if_neg h]
    refine ⟨ht, ?_, Or.inl rfl⟩
    revert h; cases Fe.isOdd t <;> cases Fe.isOdd py <;> simp

theorem elligatorswiftVar_some {fuel px py : ℕ} {hasher : Sha256.State} {u32 : Bytes} {t' : ℕ}
    (h : elligatorswiftVar fuel px py hasher = some (u32, t')) :
    u32.length = 32 ∧ ∃ c t, xswiftecInvVar px (Bytes.toNat u32 % P) c = some t ∧
      t' = fixParity (t % P) py := by
  unfold elligatorswiftVar at h
  cases hx : xelligatorswiftVar fuel px hasher with
  | none => rw [hx] at h; exact absurd h (by simp)
  | some r =>
    obtain ⟨u, t⟩ := r
    rw [hx] at h
    simp only [Option.some.injEq, Prod.mk.injEq] at h
    obtain ⟨h1, h2⟩ := h
    subst h1
    obtain ⟨hl, c, hc⟩ := xelligatorswiftVar_some hx
    exact ⟨hl, c, t, hc, h2.symm⟩

/-- **Encode/decode round trip for full points**: an encoding `(u32, t)` produced by
    `elligatorswiftVar` for a valid point `(px, py)` decodes back to `(px, py)`, provided the sampled
    `u` is non-zero mod `P` (the C code only `VERIFY_CHECK`s this). -/
theorem decode_elligatorswift {fuel px py : ℕ} {hasher : Sha256.State} {u32 : Bytes} {t' : ℕ}
    (hv : (Pt.aff px py).valid = true)
    (h : elligatorswiftVar fuel px py hasher = some (u32, t'))
    (hu : Bytes.toNat u32 % P ≠ 0) :
    decode (u32 ++ Bytes.be32 t') = ⟨1, .aff px py, 0⟩ := by
  obtain ⟨hl, c, t, hc, ht'⟩ := elligatorswiftVar_some h
  obtain ⟨hx, hxc⟩ := onCurve_of_valid hv
  obtain ⟨r1, r2, r3⟩ := xswiftecInvVar_roundtrip hx hxc (by rw [Nat.mod_mod]; exact hu) hc
  rw [Nat.mod_eq_of_lt r3] at r2 ht'
  obtain ⟨f1, f2, f3⟩ := fixParity_spec (Nat.pos_of_ne_zero r2) r3 py
  rw [← ht'] at f1 f2 f3
  rw [decode_eq, decU_append hl, decT_append hl f1]
  unfold swiftecVar
  simp only []
  rw [xswiftecVar_congr f3, r1, Nat.mod_eq_of_lt f1, f2, geSetXoVar_of_valid hv]

end Ellswift
end SecpZkp
