/-
  Soundness of the two static checkers of `Model/MiniC.lean`.

  1. memory lemmas `get_set_same` / `get_set_other` for `Env`, `Bounds.BEnv`, `Taint.LEnv`
     (+ `get_cons`/`get_nil`, and `respects_cons`, `lowEq_cons_*` to build the hypotheses of the
     soundness theorems for literal environments)
  2. `Bounds.boundE_sound`  : bound succeeded  →  ideal value ≤ bound  ∧  wrap-around value = ideal value
  3. `Bounds.checkL_sound`  : straight-line programs: wrap-around run = ideal run, final bounds hold
  4. `Taint.labE_sound`     : accepted expression → same leakage; same value if labelled public
  5. `Taint.checkL_sound`   : accepted declassify-free program → the leakage trace and the
     returned/not-returned status do not depend on secrets (all statements, incl. branches, early
     returns and loops)
  6. examples
  Core Lean only; no axioms beyond propext / Classical.choice / Quot.sound.
-/
import SecpZkp.Model.MiniC

namespace SecpZkp
namespace MiniC

/-! ### association lists -/
section Assoc
variable {α : Type} {β : Type} [BEq α] [LawfulBEq α]

theorem find_filter_other (l : List (α × β)) (k k' : α) (h : k' ≠ k) :
    ((l.filter (fun p => !(p.1 == k))).find? (fun p => p.1 == k')) = l.find? (fun p => p.1 == k') := by
  induction l with
  | nil => rfl
  | cons a l ih =>
    by_cases h1 : a.1 = k
    · have h3 : (k == k') = false := by simpa using fun e => h e.symm
      simp [h1, ih, h3]
    · simp [h1, List.find?_cons, ih]

theorem find_set_other (l : List (α × β)) (k k' : α) (v : β) (h : k' ≠ k) :
    (((k, v) :: l.filter (fun p => !(p.1 == k))).find? (fun p => p.1 == k')) =
      l.find? (fun p => p.1 == k') := by
  have h3 : (k == k') = false := by simpa using fun e => h e.symm
  rw [List.find?_cons]; simp only [h3]; exact find_filter_other l k k' h

end Assoc

/-! ### 1. memory lemmas -/

theorem Env.get_set_same (env : Env) (x : String) (i v : Nat) : (env.set x i v).get x i = v := by
  simp [Env.get, Env.set]

theorem Env.get_set_other (env : Env) (x : String) (i v : Nat) (y : String) (j : Nat)
    (h : (y, j) ≠ (x, i)) : (env.set x i v).get y j = env.get y j := by
  unfold Env.get Env.set; rw [find_set_other _ _ _ _ h]

theorem Env.get_nil (x : String) (i : Nat) : Env.get [] x i = 0 := rfl

theorem Env.get_cons (p : (String × Nat) × Nat) (env : Env) (x : String) (i : Nat) :
    Env.get (p :: env) x i = if p.1 = (x, i) then p.2 else Env.get env x i := by
  unfold Env.get
  rw [List.find?_cons]
  by_cases h : p.1 = (x, i)
  · simp [h]
  · have : (p.1 == (x, i)) = false := by simpa using h
    simp [this, h]

namespace Bounds

theorem BEnv.get_set_same (b : BEnv) (x : String) (i v : Nat) : (b.set x i v).get? x i = some v := by
  simp [BEnv.get?, BEnv.set]

theorem BEnv.get_set_other (b : BEnv) (x : String) (i v : Nat) (y : String) (j : Nat)
    (h : (y, j) ≠ (x, i)) : (b.set x i v).get? y j = b.get? y j := by
  unfold BEnv.get? BEnv.set; rw [find_set_other _ _ _ _ h]

theorem BEnv.get?_nil (x : String) (i : Nat) : BEnv.get? [] x i = none := rfl

theorem BEnv.get?_cons (p : (String × Nat) × Nat) (b : BEnv) (x : String) (i : Nat) :
    BEnv.get? (p :: b) x i = if p.1 = (x, i) then some p.2 else BEnv.get? b x i := by
  unfold BEnv.get?
  rw [List.find?_cons]
  by_cases h : p.1 = (x, i)
  · simp [h]
  · have : (p.1 == (x, i)) = false := by simpa using h
    simp [this, h]

/-- building `Respects` for a literal bound environment, entry by entry -/
theorem respects_nil (env : Env) : Respects env [] := by
  intro x i v h; simp [BEnv.get?_nil] at h

theorem respects_cons {env : Env} {b : BEnv} {x : String} {i v : Nat} (h : env.get x i ≤ v)
    (hr : Respects env b) : Respects env (((x, i), v) :: b) := by
  intro y j u hu
  rw [BEnv.get?_cons] at hu
  split at hu
  · rename_i hk; cases hk; cases hu; exact h
  · exact hr _ _ _ hu

end Bounds

namespace Taint

theorem LEnv.get_set_same (g : LEnv) (c : Cell) (l : Lab) : (g.set c l).get c = l := by
  simp [LEnv.get, LEnv.set]

theorem LEnv.get_set_other (g : LEnv) (c : Cell) (l : Lab) (c' : Cell) (h : c' ≠ c) :
    (g.set c l).get c' = g.get c' := by
  unfold LEnv.get LEnv.set; rw [find_set_other _ _ _ _ h]

end Taint

/-! ### 2. interval analysis: expressions -/
namespace Bounds

theorem le_ones {a m : Nat} (h : a ≤ m) : a < 2 ^ (Nat.log2 m + 1) :=
  Nat.lt_of_le_of_lt h Nat.lt_log2_self

/-- the result of `boundE` on a binary node, as a function of the bounds of the operands -/
def boundBin (op : BinOp) (w : Nat) (y : Expr) (bx by_ : Nat) : Option Nat :=
  match op with
  | .add => if bx + by_ < 2 ^ w then some (bx + by_) else none
  | .mul => if bx * by_ < 2 ^ w then some (bx * by_) else none
  | .and => some (min bx by_)
  | .or => some (ones (max bx by_))
  | .xor => some (ones (max bx by_))
  | .shr => match y with
      | .lit k => some (bx / 2 ^ k)
      | _ => none
  | .shl => match y with
      | .lit k => if bx * 2 ^ k < 2 ^ w then some (bx * 2 ^ k) else none
      | _ => none
  | .sub => none
  | .lt | .le | .eq | .ne => some 1

theorem boundBin_sound (op : BinOp) (w : Nat) (y : Expr) (bx by_ v a c : Nat)
    (hx : a ≤ bx) (hy : c ≤ by_) (hyl : ∀ k, y = .lit k → c = k)
    (h : boundBin op w y bx by_ = some v) :
    binIdeal op a c ≤ v ∧ binWrap op w a c = binIdeal op a c := by
  cases op <;> simp only [binIdeal, binWrap, boundBin] at h ⊢
  case add =>
    split at h
    · cases h; exact ⟨by omega, Nat.mod_eq_of_lt (by omega)⟩
    · cases h
  case sub => cases h
  case mul =>
    split at h
    · cases h
      have := Nat.mul_le_mul hx hy
      exact ⟨this, Nat.mod_eq_of_lt (by omega)⟩
    · cases h
  case and =>
    cases h
    exact ⟨Nat.le_min.2 ⟨Nat.le_trans Nat.and_le_left hx, Nat.le_trans Nat.and_le_right hy⟩, trivial⟩
  case or =>
    cases h
    have := Nat.or_lt_two_pow (le_ones (Nat.le_trans hx (Nat.le_max_left bx by_)))
      (le_ones (Nat.le_trans hy (Nat.le_max_right bx by_)))
    exact ⟨by unfold ones; omega, trivial⟩
  case xor =>
    cases h
    have := Nat.xor_lt_two_pow (le_ones (Nat.le_trans hx (Nat.le_max_left bx by_)))
      (le_ones (Nat.le_trans hy (Nat.le_max_right bx by_)))
    exact ⟨by unfold ones; omega, trivial⟩
  case shl =>
    split at h
    · rename_i k
      have hc := hyl k rfl
      subst hc
      split at h
      · cases h
        have := Nat.mul_le_mul_right (2 ^ c) hx
        exact ⟨this, Nat.mod_eq_of_lt (by omega)⟩
      · cases h
    · cases h
  case shr =>
    split at h
    · rename_i k
      have hc := hyl k rfl
      subst hc
      cases h
      exact ⟨Nat.div_le_div_right hx, trivial⟩
    · cases h
  all_goals
    cases h
    refine ⟨?_, trivial⟩
    split <;> omega

/-- **Soundness of the interval analysis on expressions.**  If every cell that `b` mentions is below
    its bound and `boundE` succeeds with `v`, then the value of `e` in the wrap-around semantics (C) is
    equal to its value over unbounded naturals, and is at most `v`. -/
theorem boundE_sound {env : Env} {b : BEnv} (hr : Respects env b) :
    ∀ (e : Expr) (v : Nat), boundE b e = some v →
      evalEI env e ≤ v ∧ (evalE env e).1 = evalEI env e := by
  intro e
  induction e with
  | lit n => intro v h; simp [boundE] at h; simp [evalEI, evalE, h]
  | var x => intro v h; simp [boundE] at h; exact ⟨hr _ _ _ h, by simp [evalEI, evalE]⟩
  | idx a i ih =>
    intro v h
    cases i <;> simp [boundE] at h
    exact ⟨hr _ _ _ h, by simp [evalEI, evalE]⟩
  | bin op w x y ihx ihy =>
    intro v h
    simp only [boundE] at h
    split at h
    · rename_i bx by_ hbx hby
      have h' : boundBin op w y bx by_ = some v := h
      obtain ⟨hx1, hx2⟩ := ihx bx hbx
      obtain ⟨hy1, hy2⟩ := ihy by_ hby
      have hyl : ∀ k, y = .lit k → evalEI env y = k := by intro k hk; subst hk; rfl
      have := boundBin_sound op w y bx by_ v _ _ hx1 hy1 hyl h'
      simp only [evalE, evalEI, hx2, hy2]
      exact this
    · cases h
  | cast w e ih =>
    intro v h
    simp only [boundE, Option.map_eq_some_iff] at h
    obtain ⟨v', hv', rfl⟩ := h
    obtain ⟨h1, h2⟩ := ih v' hv'
    have hp : 0 < 2 ^ w := Nat.two_pow_pos w
    have hm := Nat.mod_lt (evalEI env e) hp
    have hl := Nat.mod_le (evalEI env e) (2 ^ w)
    simp only [evalE, evalEI, h2]
    exact ⟨Nat.le_min.2 ⟨by omega, by omega⟩, trivial⟩
  | not w e ih => intro v h; simp [boundE] at h
  | neg w e ih => intro v h; simp [boundE] at h
  | lnot e ih =>
    intro v h
    simp only [boundE, Option.map_eq_some_iff] at h
    obtain ⟨v', hv', rfl⟩ := h
    obtain ⟨h1, h2⟩ := ih v' hv'
    simp only [evalE, evalEI, h2]
    exact ⟨by split <;> omega, trivial⟩
  | cond c a b' _ _ _ => intro v h; simp [boundE] at h

/-! ### 3. interval analysis: straight-line programs -/

theorem respects_set {env : Env} {b : BEnv} (hr : Respects env b) (x : String) (i v bv : Nat)
    (hv : v ≤ bv) : Respects (env.set x i v) (b.set x i bv) := by
  intro y j u hu
  by_cases hk : (y, j) = (x, i)
  · cases hk
    rw [BEnv.get_set_same] at hu; cases hu
    rw [Env.get_set_same]; exact hv
  · rw [BEnv.get_set_other _ _ _ _ _ _ hk] at hu
    rw [Env.get_set_other _ _ _ _ _ _ hk]; exact hr _ _ _ hu

theorem execL_cons_assign (env : Env) (x : String) (e : Expr) (rest : List Stmt) :
    execL env (.assign x e :: rest) =
      ⟨(execL (env.set x 0 (evalE env e).1) rest).env, (execL (env.set x 0 (evalE env e).1) rest).ret,
        (evalE env e).2 ++ (execL (env.set x 0 (evalE env e).1) rest).leak⟩ := by
  simp [execL, execS]

theorem execL_cons_store (env : Env) (a : String) (i e : Expr) (rest : List Stmt) :
    execL env (.store a i e :: rest) =
      let env' := env.set a (evalE env i).1 (evalE env e).1
      ⟨(execL env' rest).env, (execL env' rest).ret,
        ((evalE env i).2 ++ [Leak.index a (evalE env i).1] ++ (evalE env e).2) ++ (execL env' rest).leak⟩ := by
  simp [execL, execS]

theorem execL_cons_ret (env : Env) (e : Expr) (rest : List Stmt) :
    execL env (.ret e :: rest) = ⟨env, some (evalE env e).1, (evalE env e).2⟩ := by
  simp [execL, execS]

/-- **Soundness of the interval analysis on straight-line programs.**  If the initial memory respects
    the bounds `b` and `checkL b prog = some b'`, then running `prog` with C's wrap-around arithmetic
    gives the same final memory and the same return value as running it over unbounded naturals,
    and the final memory respects `b'`. -/
theorem checkL_sound : ∀ (prog : List Stmt) {env : Env} {b b' : BEnv}, Respects env b →
    checkL b prog = some b' →
      (execL env prog).env = (execLI env prog).1 ∧ (execL env prog).ret = (execLI env prog).2 ∧
        Respects (execL env prog).env b' := by
  intro prog
  induction prog with
  | nil => intro env b b' hr h; simp [checkL] at h; subst h; simp [execL, execLI]; exact hr
  | cons s rest ih =>
    intro env b b' hr h
    cases s with
    | assign x e =>
      simp only [checkL] at h
      split at h
      · rename_i v hv
        obtain ⟨h1, h2⟩ := boundE_sound hr e v hv
        have hr' := respects_set hr x 0 _ v (h2 ▸ h1)
        have := ih hr' h
        rw [execL_cons_assign]
        simp only [execLI, execSI]
        rw [← h2]; exact this
      · cases h
    | store a i e =>
      cases i <;> simp only [checkL] at h <;> try cases h
      rename_i k
      split at h
      · rename_i v hv
        obtain ⟨h1, h2⟩ := boundE_sound hr e v hv
        have hr' := respects_set hr a k _ v (h2 ▸ h1)
        have := ih hr' h
        rw [execL_cons_store]
        simp only [execLI, execSI, evalEI, evalE]
        rw [← h2]; exact this
      · cases h
    | ret e =>
      simp only [checkL] at h
      split at h
      · rename_i v hv
        cases h
        obtain ⟨h1, h2⟩ := boundE_sound hr e v hv
        rw [execL_cons_ret]
        simp only [execLI, execSI, h2]
        exact ⟨trivial, trivial, hr⟩
      · cases h
    | ite c t e => simp [checkL] at h
    | loop x n body => simp [checkL] at h
    | declassify x => simp [checkL] at h

end Bounds
/-! ### 4. taint analysis: expressions -/
namespace Taint

theorem join_pub {a b : Lab} : a.join b = .pub ↔ a = .pub ∧ b = .pub := by
  cases a <;> cases b <;> simp [Lab.join]

theorem join_sec_right (a : Lab) : a.join .sec = .sec := by cases a <;> rfl
theorem join_pub_right (a : Lab) : a.join .pub = a := by cases a <;> rfl

/-- **Soundness of the expression labelling.**  If two memories agree on everything public and `labE`
    accepts `e`, then evaluating `e` produces the same leakage in both, and the same value when the
    label is `pub`. -/
theorem labE_sound {g : LEnv} {e1 e2 : Env} (hl : LowEq g e1 e2) :
    ∀ (e : Expr) (l : Lab), labE g e = some l →
      (evalE e1 e).2 = (evalE e2 e).2 ∧ (l = .pub → (evalE e1 e).1 = (evalE e2 e).1) := by
  intro e
  induction e with
  | lit n => intro l h; simp [evalE]
  | var x =>
    intro l h
    simp only [labE, Option.some.injEq] at h
    subst h
    simp only [evalE, true_and]
    exact hl.1 x
  | idx a i ih =>
    intro l h
    simp only [labE] at h
    split at h
    · rename_i hi
      simp only [Option.some.injEq] at h
      subst h
      obtain ⟨h1, h2⟩ := ih _ hi
      have h2 := h2 rfl
      simp only [evalE, h1, h2, true_and]
      intro hp
      exact hl.2 a _ hp
    · cases h
  | bin op w a b iha ihb =>
    intro l h
    simp only [labE] at h
    split at h
    · rename_i la lb ha hb
      simp only [Option.some.injEq] at h
      subst h
      obtain ⟨a1, a2⟩ := iha _ ha
      obtain ⟨b1, b2⟩ := ihb _ hb
      simp only [evalE, a1, b1, true_and]
      intro hp
      rw [join_pub] at hp
      rw [a2 hp.1, b2 hp.2]
    · cases h
  | cast w e ih =>
    intro l h
    obtain ⟨h1, h2⟩ := ih l h
    simp only [evalE, h1, true_and]
    intro hp; rw [h2 hp]
  | not w e ih =>
    intro l h
    obtain ⟨h1, h2⟩ := ih l h
    simp only [evalE, h1, true_and]
    intro hp; rw [h2 hp]
  | neg w e ih =>
    intro l h
    obtain ⟨h1, h2⟩ := ih l h
    simp only [evalE, h1, true_and]
    intro hp; rw [h2 hp]
  | lnot e ih =>
    intro l h
    obtain ⟨h1, h2⟩ := ih l h
    simp only [evalE, h1, true_and]
    intro hp; rw [h2 hp]
  | cond c a b ihc iha ihb =>
    intro l h
    simp only [labE] at h
    split at h
    · rename_i la lb hc ha hb
      simp only [Option.some.injEq] at h
      subst h
      obtain ⟨c1, c2⟩ := ihc _ hc
      have c2 := c2 rfl
      obtain ⟨a1, a2⟩ := iha _ ha
      obtain ⟨b1, b2⟩ := ihb _ hb
      simp only [evalE, c1, c2]
      by_cases hcv : (evalE e2 c).1 = 0
      · simp only [hcv, ne_eq, not_true_eq_false, ↓reduceIte, b1, true_and]
        intro hp; rw [join_pub] at hp; exact b2 hp.2
      · simp only [hcv, ne_eq, not_false_eq_true, ↓reduceIte, a1, true_and]
        intro hp; rw [join_pub] at hp; exact a2 hp.1
    · cases h

/-! ### 5. taint analysis: statements -/

theorem LEnv.get_weak (g : LEnv) (c : Cell) (l : Lab) (c' : Cell) :
    (g.weak c l).get c' = if c' = c then (g.get c).join l else g.get c' := by
  cases l with
  | pub =>
    have : g.weak c .pub = g := by unfold LEnv.weak; split <;> simp_all
    rw [this, join_pub_right]; split
    · rename_i h; rw [h]
    · rfl
  | sec =>
    cases hg : g.get c with
    | sec =>
      have : g.weak c .sec = g := by unfold LEnv.weak; split <;> simp_all
      rw [this]; split
      · rename_i h; rw [h, hg]; rfl
      · rfl
    | pub =>
      have : g.weak c .sec = g.set c .sec := by unfold LEnv.weak; split <;> simp_all
      rw [this]; split
      · rename_i h; rw [h, LEnv.get_set_same]; rfl
      · rename_i h; rw [LEnv.get_set_other _ _ _ _ h]

theorem LEnv.get_nil (c : Cell) : LEnv.get [] c = .sec := rfl

theorem LEnv.get_cons (p : Cell × Lab) (g : LEnv) (c : Cell) :
    LEnv.get (p :: g) c = if p.1 = c then p.2 else LEnv.get g c := by
  unfold LEnv.get
  rw [List.find?_cons]
  by_cases h : p.1 = c
  · simp [h]
  · have : (p.1 == c) = false := by simpa using h
    simp [this, h]

theorem get_joinEnv (g1 g2 : LEnv) (c : Cell) :
    (joinEnv g1 g2).get c = (g1.get c).join (g2.get c) := by
  induction g1 with
  | nil => simp [joinEnv, LEnv.get_nil, Lab.join]
  | cons p g1 ih =>
    have : joinEnv (p :: g1) g2 = (p.1, p.2.join (g2.get p.1)) :: joinEnv g1 g2 := rfl
    rw [this, LEnv.get_cons, LEnv.get_cons]
    by_cases h : p.1 = c
    · simp [h]
    · simp only [h, ↓reduceIte]; exact ih

theorem subsumes_spec {a b : LEnv} (h : subsumes a b = true) (c : Cell) (hc : b.get c = .pub) :
    a.get c = .pub := by
  have hc' := hc
  unfold LEnv.get at hc
  split at hc
  · rename_i p hp
    have hm := List.mem_of_find?_eq_some hp
    have hk := List.find?_some hp
    simp only [beq_iff_eq] at hk
    unfold subsumes at h
    rw [List.all_eq_true] at h
    have := h p hm
    rw [hk, hc'] at this
    simpa using this
  · cases hc

theorem loopInv_spec (f : LEnv → Option LEnv) : ∀ (fuel : Nat) (gi gi' : LEnv),
    loopInv f fuel gi = some gi' →
      (∃ g', f gi' = some g' ∧ subsumes g' gi' = true) ∧ (∀ c, gi'.get c = .pub → gi.get c = .pub) := by
  intro fuel
  induction fuel with
  | zero => intro gi gi' h; simp [loopInv] at h
  | succ fuel ih =>
    intro gi gi' h
    simp only [loopInv] at h
    split at h
    · rename_i g' hf
      split at h
      · rename_i hs
        cases h
        exact ⟨⟨g', hf, hs⟩, fun _ hc => hc⟩
      · obtain ⟨h1, h2⟩ := ih _ _ h
        refine ⟨h1, fun c hc => ?_⟩
        have := h2 c hc
        rw [get_joinEnv, join_pub] at this
        exact this.1
    · cases h

theorem lowEq_mono {g g' : LEnv} {e1 e2 : Env} (hm : ∀ c, g'.get c = .pub → g.get c = .pub)
    (h : LowEq g e1 e2) : LowEq g' e1 e2 :=
  ⟨fun x hx => h.1 x (hm _ hx), fun a i ha => h.2 a i (hm _ ha)⟩

/-- building `LowEq` for a literal labelling, entry by entry -/
theorem lowEq_nil (e1 e2 : Env) : LowEq [] e1 e2 :=
  ⟨fun x hx => by simp [LEnv.get_nil] at hx, fun a i ha => by simp [LEnv.get_nil] at ha⟩

theorem lowEq_cons_sec {g : LEnv} {e1 e2 : Env} (c : Cell) (h : LowEq g e1 e2) :
    LowEq ((c, .sec) :: g) e1 e2 := by
  refine lowEq_mono (fun c' hc' => ?_) h
  rw [LEnv.get_cons] at hc'
  split at hc'
  · cases hc'
  · exact hc'

theorem lowEq_cons_sc_pub {g : LEnv} {e1 e2 : Env} (x : String) (hx : e1.get x 0 = e2.get x 0)
    (h : LowEq g e1 e2) : LowEq ((.sc x, .pub) :: g) e1 e2 := by
  constructor
  · intro y hy
    rw [LEnv.get_cons] at hy
    split at hy
    · rename_i hk; cases hk; exact hx
    · exact h.1 y hy
  · intro a i ha
    rw [LEnv.get_cons] at ha
    simp only [reduceCtorEq, ↓reduceIte] at ha
    exact h.2 a i ha

theorem lowEq_cons_arr_pub {g : LEnv} {e1 e2 : Env} (a : String) (ha : ∀ i, e1.get a i = e2.get a i)
    (h : LowEq g e1 e2) : LowEq ((.arr a, .pub) :: g) e1 e2 := by
  constructor
  · intro y hy
    rw [LEnv.get_cons] at hy
    simp only [reduceCtorEq, ↓reduceIte] at hy
    exact h.1 y hy
  · intro b i hb
    rw [LEnv.get_cons] at hb
    split at hb
    · rename_i hk; cases hk; exact ha i
    · exact h.2 b i hb

theorem lowEq_assign {g : LEnv} {e1 e2 : Env} (h : LowEq g e1 e2) (x : String) (l : Lab) (v1 v2 : Nat)
    (hv : l = .pub → v1 = v2) :
    LowEq ((g.set (.sc x) l).weak (.arr x) l) (e1.set x 0 v1) (e2.set x 0 v2) := by
  constructor
  · intro y hy
    rw [LEnv.get_weak] at hy
    simp only [reduceCtorEq, ↓reduceIte] at hy
    by_cases hyx : y = x
    · subst hyx
      rw [LEnv.get_set_same] at hy
      rw [Env.get_set_same, Env.get_set_same]; exact hv hy
    · have hne : Cell.sc y ≠ Cell.sc x := by simpa using hyx
      rw [LEnv.get_set_other _ _ _ _ hne] at hy
      have hk : (y, 0) ≠ (x, 0) := by simpa using hyx
      rw [Env.get_set_other _ _ _ _ _ _ hk, Env.get_set_other _ _ _ _ _ _ hk]; exact h.1 y hy
  · intro a i ha
    rw [LEnv.get_weak] at ha
    by_cases hax : a = x
    · subst hax
      simp only [↓reduceIte, join_pub] at ha
      have hne : Cell.arr a ≠ Cell.sc a := by simp
      rw [LEnv.get_set_other _ _ _ _ hne] at ha
      by_cases hi : i = 0
      · subst hi; rw [Env.get_set_same, Env.get_set_same]; exact hv ha.2
      · have hk : (a, i) ≠ (a, 0) := by simpa using hi
        rw [Env.get_set_other _ _ _ _ _ _ hk, Env.get_set_other _ _ _ _ _ _ hk]; exact h.2 a i ha.1
    · have hne1 : Cell.arr a ≠ Cell.arr x := by simpa using hax
      have hne : Cell.arr a ≠ Cell.sc x := by simp
      simp only [hne1, ↓reduceIte] at ha
      rw [LEnv.get_set_other _ _ _ _ hne] at ha
      have hk : (a, i) ≠ (x, 0) := by simp [hax]
      rw [Env.get_set_other _ _ _ _ _ _ hk, Env.get_set_other _ _ _ _ _ _ hk]; exact h.2 a i ha

theorem lowEq_store {g : LEnv} {e1 e2 : Env} (h : LowEq g e1 e2) (a : String) (i : Nat) (l : Lab)
    (v1 v2 : Nat) (hv : l = .pub → v1 = v2) :
    LowEq ((g.weak (.arr a) l).weak (.sc a) l) (e1.set a i v1) (e2.set a i v2) := by
  constructor
  · intro y hy
    simp only [LEnv.get_weak, reduceCtorEq, ↓reduceIte, Cell.sc.injEq] at hy
    by_cases hya : y = a
    · subst hya
      simp only [↓reduceIte, join_pub] at hy
      by_cases hi : i = 0
      · subst hi; rw [Env.get_set_same, Env.get_set_same]; exact hv hy.2
      · have hk : (y, 0) ≠ (y, i) := by simpa using fun e => hi e.symm
        rw [Env.get_set_other _ _ _ _ _ _ hk, Env.get_set_other _ _ _ _ _ _ hk]; exact h.1 y hy.1
    · simp only [hya, ↓reduceIte] at hy
      have hk : (y, 0) ≠ (a, i) := by simp [hya]
      rw [Env.get_set_other _ _ _ _ _ _ hk, Env.get_set_other _ _ _ _ _ _ hk]; exact h.1 y hy
  · intro b j hb
    simp only [LEnv.get_weak, reduceCtorEq, ↓reduceIte, Cell.arr.injEq] at hb
    by_cases hba : b = a
    · subst hba
      simp only [↓reduceIte, join_pub] at hb
      by_cases hj : j = i
      · subst hj; rw [Env.get_set_same, Env.get_set_same]; exact hv hb.2
      · have hk : (b, j) ≠ (b, i) := by simpa using hj
        rw [Env.get_set_other _ _ _ _ _ _ hk, Env.get_set_other _ _ _ _ _ _ hk]; exact h.2 b j hb.1
    · simp only [hba, ↓reduceIte] at hb
      have hk : (b, j) ≠ (a, i) := by simp [hba]
      rw [Env.get_set_other _ _ _ _ _ _ hk, Env.get_set_other _ _ _ _ _ _ hk]; exact h.2 b j hb

theorem lowEq_counter {g : LEnv} {e1 e2 : Env} (h : LowEq g e1 e2) (x : String) (k : Nat) :
    LowEq (g.set (.sc x) .pub) (e1.set x 0 k) (e2.set x 0 k) := by
  constructor
  · intro y hy
    by_cases hyx : y = x
    · subst hyx; rw [Env.get_set_same, Env.get_set_same]
    · have hne : Cell.sc y ≠ Cell.sc x := by simpa using hyx
      rw [LEnv.get_set_other _ _ _ _ hne] at hy
      have hk : (y, 0) ≠ (x, 0) := by simpa using hyx
      rw [Env.get_set_other _ _ _ _ _ _ hk, Env.get_set_other _ _ _ _ _ _ hk]; exact h.1 y hy
  · intro a i ha
    have hne : Cell.arr a ≠ Cell.sc x := by simp
    rw [LEnv.get_set_other _ _ _ _ hne] at ha
    by_cases hk : (a, i) = (x, 0)
    · cases hk; rw [Env.get_set_same, Env.get_set_same]
    · rw [Env.get_set_other _ _ _ _ _ _ hk, Env.get_set_other _ _ _ _ _ _ hk]; exact h.2 a i ha

/-- sequential composition of outcomes, as in `execL` and `execLoop`: stop at a `ret` -/
def seq (o : Outcome) (k : Env → Outcome) : Outcome :=
  match o.ret with
  | some _ => o
  | none => ⟨(k o.env).env, (k o.env).ret, o.leak ++ (k o.env).leak⟩

theorem execL_cons (env : Env) (s : Stmt) (rest : List Stmt) :
    execL env (s :: rest) = seq (execS env s) (fun e => execL e rest) := by
  rw [execL]; rfl

theorem execLoop_succ (env : Env) (x : String) (k n fuel : Nat) (body : List Stmt) :
    execLoop env x k n (fuel + 1) body =
      if k < n then seq (execL (env.set x 0 k) body) (fun e => execLoop e x (k + 1) n fuel body)
      else ⟨env, none, []⟩ := by
  rw [execLoop]; rfl

/-- what an attacker who sees the leakage trace (and whether the function has returned) cannot
    distinguish: same trace, same termination status, and — if execution continues — memories that
    agree on everything labelled public by `g'` -/
def SameObs (g' : LEnv) (o1 o2 : Outcome) : Prop :=
  o1.leak = o2.leak ∧ o1.ret.isSome = o2.ret.isSome ∧ (o1.ret = none → LowEq g' o1.env o2.env)

theorem sameObs_seq {g1 g2 : LEnv} {o1 o2 : Outcome} {k : Env → Outcome} (h : SameObs g1 o1 o2)
    (hk : LowEq g1 o1.env o2.env → SameObs g2 (k o1.env) (k o2.env)) :
    SameObs g2 (seq o1 k) (seq o2 k) := by
  obtain ⟨hleak, hret, henv⟩ := h
  unfold seq
  cases h1 : o1.ret with
  | some v1 =>
    cases h2 : o2.ret with
    | some v2 => exact ⟨hleak, by simp [h1, h2], fun hn => by simp [h1] at hn⟩
    | none => simp [h1, h2] at hret
  | none =>
    cases h2 : o2.ret with
    | some v2 => simp [h1, h2] at hret
    | none =>
      obtain ⟨kl, kr, ke⟩ := hk (henv h1)
      exact ⟨by simp [hleak, kl], kr, ke⟩

theorem sameObs_mono {g g' : LEnv} {o1 o2 : Outcome} (hm : ∀ c, g'.get c = .pub → g.get c = .pub)
    (h : SameObs g o1 o2) : SameObs g' o1 o2 :=
  ⟨h.1, h.2.1, fun hn => lowEq_mono hm (h.2.2 hn)⟩

/-- loops: `gi` is an invariant labelling (the body maps `gi[x := pub]` to `g'`, which subsumes `gi`) -/
theorem loop_ni (body : List Stmt) (x : String) (n : Nat) (gi g' : LEnv)
    (hb : ∀ g g' e1 e2, LowEq g e1 e2 → checkL g body = some g' →
      SameObs g' (execL e1 body) (execL e2 body))
    (hc : checkL (gi.set (.sc x) .pub) body = some g') (hs : subsumes g' gi = true) :
    ∀ (fuel k : Nat) (e1 e2 : Env), LowEq gi e1 e2 →
      SameObs gi (execLoop e1 x k n fuel body) (execLoop e2 x k n fuel body) := by
  intro fuel
  induction fuel with
  | zero => intro k e1 e2 hl; simp only [execLoop]; exact ⟨rfl, rfl, fun _ => hl⟩
  | succ fuel ih =>
    intro k e1 e2 hl
    rw [execLoop_succ, execLoop_succ]
    by_cases hk : k < n
    · simp only [hk, ↓reduceIte]
      have h1 := hb _ _ _ _ (lowEq_counter hl x k) hc
      exact sameObs_seq h1 (fun hl' => ih (k + 1) _ _ (lowEq_mono (subsumes_spec hs) hl'))
    · simp only [hk, ↓reduceIte]; exact ⟨rfl, rfl, fun _ => hl⟩

mutual
theorem checkS_ni : ∀ (s : Stmt) (g g' : LEnv) (e1 e2 : Env), noDeclassifyS s = true →
    LowEq g e1 e2 → checkS g s = some g' → SameObs g' (execS e1 s) (execS e2 s)
  | .assign x e, g, g', e1, e2, _, hl, h => by
    simp only [checkS, Option.map_eq_some_iff] at h
    obtain ⟨l, hle, rfl⟩ := h
    obtain ⟨h1, h2⟩ := labE_sound hl e l hle
    simp only [execS]
    exact ⟨h1, rfl, fun _ => lowEq_assign hl x l _ _ h2⟩
  | .store a i e, g, g', e1, e2, _, hl, h => by
    simp only [checkS] at h
    split at h
    · rename_i l hi he
      cases h
      obtain ⟨i1, i2⟩ := labE_sound hl i _ hi
      have i2 := i2 rfl
      obtain ⟨h1, h2⟩ := labE_sound hl e l he
      simp only [execS]
      refine ⟨by simp only [i1, i2, h1], rfl, fun _ => ?_⟩
      simp only [i2]
      exact lowEq_store hl a _ l _ _ h2
    · cases h
  | .ite c t el, g, g', e1, e2, hnd, hl, h => by
    simp only [checkS] at h
    split at h
    · rename_i hc
      split at h
      · rename_i g1 g2 ht he
        cases h
        simp only [noDeclassifyS, Bool.and_eq_true] at hnd
        obtain ⟨c1, c2⟩ := labE_sound hl c _ hc
        have c2 := c2 rfl
        simp only [execS, c1, c2]
        by_cases hcv : (evalE e2 c).1 = 0
        · simp only [hcv, ne_eq, not_true_eq_false, ↓reduceIte]
          have := checkL_ni el g g2 e1 e2 hnd.2 hl he
          refine ⟨by simp only [this.1], this.2.1, fun hn => ?_⟩
          exact lowEq_mono (fun c hc => by rw [get_joinEnv, join_pub] at hc; exact hc.2) (this.2.2 hn)
        · simp only [hcv, ne_eq, not_false_eq_true, ↓reduceIte]
          have := checkL_ni t g g1 e1 e2 hnd.1 hl ht
          refine ⟨by simp only [this.1], this.2.1, fun hn => ?_⟩
          exact lowEq_mono (fun c hc => by rw [get_joinEnv, join_pub] at hc; exact hc.1) (this.2.2 hn)
      · cases h
    · cases h
  | .loop x n body, g, g', e1, e2, hnd, hl, h => by
    simp only [checkS] at h
    simp only [noDeclassifyS] at hnd
    obtain ⟨⟨g'', hc, hs⟩, hm⟩ := loopInv_spec _ _ _ _ h
    simp only [execS]
    exact loop_ni body x n g' g'' (fun g g' e1 e2 hl h => checkL_ni body g g' e1 e2 hnd hl h) hc hs
      n 0 e1 e2 (lowEq_mono hm hl)
  | .declassify x, g, g', e1, e2, hnd, _, _ => by simp [noDeclassifyS] at hnd
  | .ret e, g, g', e1, e2, _, hl, h => by
    simp only [checkS, Option.map_eq_some_iff] at h
    obtain ⟨l, hle, rfl⟩ := h
    obtain ⟨h1, _⟩ := labE_sound hl e l hle
    simp only [execS]
    exact ⟨h1, rfl, fun hn => by simp at hn⟩

theorem checkL_ni : ∀ (p : List Stmt) (g g' : LEnv) (e1 e2 : Env), noDeclassify p = true →
    LowEq g e1 e2 → checkL g p = some g' → SameObs g' (execL e1 p) (execL e2 p)
  | [], g, g', e1, e2, _, hl, h => by
    simp only [checkL, Option.some.injEq] at h
    subst h
    simp only [execL]
    exact ⟨rfl, rfl, fun _ => hl⟩
  | s :: rest, g, g', e1, e2, hnd, hl, h => by
    simp only [checkL] at h
    simp only [noDeclassify, Bool.and_eq_true] at hnd
    split at h
    · rename_i g1 hs
      rw [execL_cons, execL_cons]
      exact sameObs_seq (checkS_ni s g g1 e1 e2 hnd.1 hl hs)
        (fun hl' => checkL_ni rest g1 g' _ _ hnd.2 hl' h)
    · cases h
end

/-- **Non-interference of the leakage trace.**  Let `prog` be free of `declassify`, and accepted by the
    taint checker from the labelling `g` with final labelling `g'`.  Run `prog` (wrap-around semantics)
    from two memories that agree on everything `g` labels public — the secrets are arbitrary and may
    differ.  Then both runs produce the same leakage trace (same branch outcomes, same array indices,
    in the same order), either both return or neither does, and if they run to the end without `ret`
    the final memories agree on everything `g'` labels public.

    (The third conjunct is conditional: after an early `ret` the memories are those at the `ret`,
    which are related by the labelling at that point, not by the final `g'`; see the `example` below.) -/
theorem checkL_sound {g g' : LEnv} {e1 e2 : Env} {prog : List Stmt} (hnd : noDeclassify prog = true)
    (hl : LowEq g e1 e2) (h : checkL g prog = some g') :
    let o1 := execL e1 prog
    let o2 := execL e2 prog
    o1.leak = o2.leak ∧ o1.ret.isSome = o2.ret.isSome ∧ (o1.ret = none → LowEq g' o1.env o2.env) :=
  checkL_ni prog g g' e1 e2 hnd hl h

end Taint

/-! ### 6. sanity examples -/
section Examples
open Bounds Taint

/-- a 32×32→64 multiplication, a mask and a shift: nothing wraps -/
example :
    Bounds.checkL [(("a", 0), 2 ^ 32 - 1), (("b", 0), 2 ^ 32 - 1)]
      [.assign "t" (.bin .mul 64 (.var "a") (.var "b")),
       .assign "lo" (.bin .and 64 (.var "t") (.lit 0xFFFFFFFF)),
       .store "r" (.lit 1) (.bin .shr 64 (.var "t") (.lit 32))]
    = some [(("r", 1), 4294967294), (("lo", 0), 4294967295), (("t", 0), 18446744065119617025),
            (("a", 0), 4294967295), (("b", 0), 4294967295)] := by decide

/-- `u0 = (u0 << 4) | tx` from `secp256k1_fe_mul_inner` with `u0 < 2^52`, `tx < 2^4`: bound `2^56 - 1` -/
example :
    Bounds.checkL [(("u0", 0), 2 ^ 52 - 1), (("tx", 0), 15)]
      [.assign "u0" (.bin .or 64 (.bin .shl 64 (.var "u0") (.lit 4)) (.var "tx"))]
    = some [(("u0", 0), 2 ^ 56 - 1), (("tx", 0), 15)] := by decide

/-- the same multiplication followed by a 32-bit addition of two values that may be `2^32 - 1`:
    rejected, the addition may wrap -/
example :
    Bounds.checkL [(("a", 0), 2 ^ 32 - 1), (("b", 0), 2 ^ 32 - 1)]
      [.assign "t" (.bin .mul 64 (.var "a") (.var "b")),
       .assign "lo" (.bin .and 64 (.var "t") (.lit 0xFFFFFFFF)),
       .assign "s" (.bin .add 32 (.var "lo") (.var "a"))]
    = none := by decide

/-- …and it is a real wrap: the two semantics differ on `a = b = 2^32 - 1` -/
example : (evalE [(("lo", 0), 1), (("a", 0), 2 ^ 32 - 1)] (.bin .add 32 (.var "lo") (.var "a"))).1 = 0 ∧
    evalEI [(("lo", 0), 1), (("a", 0), 2 ^ 32 - 1)] (.bin .add 32 (.var "lo") (.var "a")) = 2 ^ 32 := by
  decide

/-- the hypotheses of `Bounds.checkL_sound` are satisfiable (non-vacuity) -/
example : Respects [(("a", 0), 7), (("b", 0), 4000000000)] [(("a", 0), 2 ^ 32 - 1), (("b", 0), 2 ^ 32 - 1)] := by
  exact respects_cons (by decide) (respects_cons (by decide) (respects_nil _))

/-- constant-time select `r = (a & mask) | (b & ~mask)` with everything secret: accepted -/
example :
    Taint.checkL [(.sc "mask", .sec), (.sc "a", .sec), (.sc "b", .sec)]
      [.assign "r" (.bin .or 64 (.bin .and 64 (.var "a") (.var "mask"))
                                (.bin .and 64 (.var "b") (.not 64 (.var "mask"))))]
    = some [(.sc "r", .sec), (.sc "mask", .sec), (.sc "a", .sec), (.sc "b", .sec)] := by decide

/-- a table scan with public indices and a secret mask inside a loop, then a branch on a public table
    entry with an early return: accepted; `acc` becomes secret (loop invariant found in the 2nd round) -/
example :
    Taint.checkL [(.arr "T", .pub), (.sc "mask", .sec), (.sc "acc", .pub)]
      [.loop "i" 4 [.assign "acc" (.bin .xor 64 (.var "acc")
                                    (.bin .and 64 (.idx "T" (.var "i")) (.var "mask")))],
       .ite (.idx "T" (.lit 0)) [.ret (.var "acc")] []]
    = some [(.arr "T", .pub), (.sc "mask", .sec), (.sc "acc", .sec)] := by decide

/-- `if (secret) x = 1; else x = 2;` : rejected -/
example :
    Taint.checkL [(.sc "s", .sec)] [.ite (.var "s") [.assign "x" (.lit 1)] [.assign "x" (.lit 2)]] = none := by
  decide

/-- `secret ? 1 : 2` : rejected -/
example : Taint.checkL [(.sc "s", .sec)] [.assign "x" (.cond (.var "s") (.lit 1) (.lit 2))] = none := by
  decide

/-- `t = T[secret]` with a public table: rejected -/
example : Taint.checkL [(.arr "T", .pub), (.sc "s", .sec)] [.assign "t" (.idx "T" (.var "s"))] = none := by
  decide

/-- `T[secret] = 0` : rejected -/
example : Taint.checkL [(.arr "T", .pub), (.sc "s", .sec)] [.store "T" (.var "s") (.lit 0)] = none := by
  decide

/-- a branch on the loop-carried secret is rejected although it is public in the first iteration -/
example :
    Taint.checkL [(.sc "s", .sec), (.sc "acc", .pub)]
      [.loop "i" 4 [.ite (.var "acc") [] [], .assign "acc" (.var "s")]] = none := by decide

/-- scalar/array confusion (the unsoundness of the first version of the checker): assigning a public
    value to the *scalar* `a` must not make the *array* cells `a[1]` public.  Rejected. -/
example :
    Taint.checkL [(.arr "T", .pub)]
      [.assign "a" (.lit 0), .assign "t" (.idx "T" (.idx "a" (.lit 1)))] = none := by decide

/-- non-vacuity of `Taint.checkL_sound`: a declassify-free accepted program and two memories with
    different secrets (`mask`, `a`) that agree on the public table `T` -/
example :
    noDeclassify [.loop "i" 2 [.assign "acc" (.bin .xor 64 (.var "acc")
                                    (.bin .and 64 (.idx "T" (.var "i")) (.var "mask")))]] = true ∧
    LowEq [(.arr "T", .pub), (.sc "mask", .sec)]
      [(("T", 0), 5), (("T", 1), 6), (("mask", 0), 0)]
      [(("T", 0), 5), (("T", 1), 6), (("mask", 0), 2 ^ 64 - 1), (("a", 0), 3)] := by
  refine ⟨by decide, lowEq_cons_arr_pub _ (fun i => ?_) (lowEq_cons_sec _ (lowEq_nil _ _))⟩
  simp only [Env.get_cons, Env.get_nil, Prod.mk.injEq, String.reduceEq, false_and,
    true_and, ↓reduceIte]

/-- why the last conjunct of `Taint.checkL_sound` is conditional on `ret = none`: after the early `ret`
    the memories are those at the `ret`, where `x` is still secret, although the final labelling says
    `x` is public. -/
example :
    let prog : List Stmt := [.ret (.lit 0), .assign "x" (.lit 0)]
    let e1 : Env := [(("x", 0), 1)]
    let e2 : Env := [(("x", 0), 2)]
    noDeclassify prog = true ∧ LowEq [] e1 e2 ∧ Taint.checkL [] prog = some [(.sc "x", .pub)] ∧
      ¬ LowEq [(.sc "x", .pub)] (execL e1 prog).env (execL e2 prog).env := by
  refine ⟨by decide, lowEq_nil _ _, by decide, ?_⟩
  intro h
  have := h.1 "x" (by decide)
  simp [execL, execS, evalE] at this
  revert this
  decide

end Examples

end MiniC
end SecpZkp
