import SecpZkp.Proofs.BorromeanApps
import SecpZkp.Proofs.GroupExtra
import SecpZkp.Model.Surjection
/-
  Helper lemmas for the completeness of surjection proofs (`Props/C11_complete.lean`).
-/
namespace SecpZkp
namespace Surjection
open SecpZkp.Algebra

/-! ### forged scalars -/

theorem genRand_spec (bk : Nat) : ∀ (ns i : Nat) (secInput : Bytes) (l : List Nat),
    genRand bk ns i secInput = some l → l.length = ns ∧ ∀ x ∈ l, x < N := by
  intro ns
  induction ns with
  | zero => intro i secInput l h; simp [genRand] at h; subst h; simp
  | succ ns ih =>
    intro i secInput l h
    rw [genRand] at h
    simp only [] at h
    split at h
    · simp at h
    split at h
    · simp at h
    next rest hr =>
    simp only [Option.some.injEq] at h
    subst h
    obtain ⟨h1, h2⟩ := ih _ _ _ hr
    refine ⟨by simp [h1], ?_⟩
    intro x hx
    rcases List.mem_cons.mp hx with hx | hx
    · subst hx; exact Borromean.setB32_fst_lt _
    · exact h2 x hx

/-! ### reading the scalars back -/

theorem loadScalars_append (rest : Bytes) :
    ∀ (s : List Nat) (i : Nat) (pre : Bytes), pre.length = 32 + 32 * i → (∀ x ∈ s, x < N) →
      loadScalars (pre ++ ((s.map Bytes.be32).flatten ++ rest)) s.length i = some s := by
  intro s
  induction s with
  | nil => intro i pre _ _; simp [loadScalars]
  | cons x xs ih =>
    intro i pre hpre hs
    have hx := hs x (by simp)
    simp only [List.length_cons, List.map_cons, List.flatten_cons]
    rw [loadScalars]
    have hb : ((pre ++ (Bytes.be32 x ++ (xs.map Bytes.be32).flatten ++ rest)).drop (32 + 32 * i)).take 32 = Bytes.be32 x := by
      rw [← hpre, List.drop_left, List.append_assoc, List.take_left' (Bytes.be32_length x)]
    rw [hb, Borromean.setB32_be32 hx]
    simp only [Bool.false_eq_true, if_false]
    have := ih (i + 1) (pre ++ Bytes.be32 x) (by simp [hpre]; omega) (fun y hy => hs y (by simp [hy]))
    rw [List.append_assoc] at this
    rw [List.append_assoc, this]

/-! ### ring keys -/

/-- the ring keys do not depend on `inputIndex` (nor on the initial `ring` value) -/
theorem go_fst (used : Bytes) (output : Pt) (idx idx' : Nat) :
    ∀ (ts : List Pt) (i j ring ring' : Nat),
      (computePublicKeys.go used output idx ts i j ring).1 = (computePublicKeys.go used output idx' ts i j ring').1 := by
  intro ts
  induction ts with
  | nil => intro i j ring ring'; simp [computePublicKeys.go]
  | cons t ts ih =>
    intro i j ring ring'
    rw [computePublicKeys.go, computePublicKeys.go]
    split
    · simp only []
      exact congrArg _ (ih _ _ _ _)
    · exact ih _ _ _ _

theorem computePublicKeys_fst (inputs : List Pt) (used : Bytes) (output : Pt) (idx idx' : Nat) :
    (computePublicKeys inputs used output idx).1 = (computePublicKeys inputs used output idx').1 :=
  go_fst used output idx idx' inputs 0 0 0 0

/-- every ring key is `output − t` for an input `t` -/
theorem go_mem (used : Bytes) (output : Pt) (idx : Nat) :
    ∀ (ts : List Pt) (i j ring : Nat) (p : Pt), p ∈ (computePublicKeys.go used output idx ts i j ring).1 →
      ∃ t ∈ ts, p = Pt.add (Pt.neg t) output := by
  intro ts
  induction ts with
  | nil => intro i j ring p h; simp [computePublicKeys.go] at h
  | cons t ts ih =>
    intro i j ring p h
    rw [computePublicKeys.go] at h
    split at h
    · simp only [List.mem_cons] at h
      rcases h with h | h
      · exact ⟨t, by simp, h⟩
      · obtain ⟨t', ht', hp⟩ := ih _ _ _ _ h
        exact ⟨t', by simp [ht'], hp⟩
    · obtain ⟨t', ht', hp⟩ := ih _ _ _ _ h
      exact ⟨t', by simp [ht'], hp⟩

/-- position of the signer's key inside the ring -/
theorem go_index (used : Bytes) (output : Pt) (idx : Nat) (hbit : testBit used idx = true) :
    ∀ (ts : List Pt) (i j ring : Nat),
      (idx < i → (computePublicKeys.go used output idx ts i j ring).2 = ring) ∧
      (∀ t, i ≤ idx → ts[idx - i]? = some t →
        j ≤ (computePublicKeys.go used output idx ts i j ring).2 ∧
        (computePublicKeys.go used output idx ts i j ring).1[(computePublicKeys.go used output idx ts i j ring).2 - j]? =
          some (Pt.add (Pt.neg t) output)) := by
  intro ts
  induction ts with
  | nil =>
    intro i j ring
    refine ⟨fun _ => by simp [computePublicKeys.go], fun t _ h => by simp at h⟩
  | cons t ts ih =>
    intro i j ring
    rw [computePublicKeys.go]
    split
    next hb =>
      simp only []
      constructor
      · intro hlt
        rw [if_neg (by omega)]
        exact (ih (i + 1) (j + 1) ring).1 (by omega)
      · intro t' hle ht'
        by_cases heq : idx = i
        · subst heq
          rw [if_pos rfl]
          have h0 := (ih (idx + 1) (j + 1) j).1 (by omega)
          rw [h0]
          simp only [Nat.sub_self, List.getElem?_cons_zero, Option.some.injEq] at ht' ⊢
          exact ⟨Nat.le_refl _, by rw [ht']⟩
        · rw [if_neg heq]
          have hidx : idx - i = (idx - (i + 1)) + 1 := by omega
          rw [hidx, List.getElem?_cons_succ] at ht'
          obtain ⟨h1, h2⟩ := (ih (i + 1) (j + 1) ring).2 t' (by omega) ht'
          refine ⟨by omega, ?_⟩
          have : (computePublicKeys.go used output idx ts (i + 1) (j + 1) ring).2 - j =
              ((computePublicKeys.go used output idx ts (i + 1) (j + 1) ring).2 - (j + 1)) + 1 := by omega
          rw [this, List.getElem?_cons_succ]
          exact h2
    next hb =>
      constructor
      · intro hlt
        exact (ih (i + 1) j ring).1 (by omega)
      · intro t' hle ht'
        have heq : idx ≠ i := by
          intro h; subst h; exact hb hbit
        have hidx : idx - i = (idx - (i + 1)) + 1 := by omega
        rw [hidx, List.getElem?_cons_succ] at ht'
        exact (ih (i + 1) j ring).2 t' (by omega) ht'

theorem computePublicKeys_index (inputs : List Pt) (used : Bytes) (output : Pt) (idx : Nat) (t : Pt)
    (hbit : testBit used idx = true) (ht : inputs[idx]? = some t) :
    (computePublicKeys inputs used output idx).1[(computePublicKeys inputs used output idx).2]? =
      some (Pt.add (Pt.neg t) output) := by
  have := ((go_index used output idx hbit inputs 0 0 0).2 t (Nat.zero_le _) (by simpa using ht)).2
  simpa [computePublicKeys] using this

section
variable [HasGroupLaw]

theorem neg_neg_pt {t : Pt} (ht : t.valid = true) : Pt.neg (Pt.neg t) = t :=
  congrArg Subtype.val (neg_neg (⟨t, ht⟩ : VPt))

/-- `output − t = ∞` only if `t = output` (valid points). -/
theorem sub_ne_inf {t output : Pt} (ht : t.valid = true) (ho : output.valid = true) (hne : t ≠ output) :
    Pt.add (Pt.neg t) output ≠ .inf := by
  intro h
  rw [add_eq_inf_iff (gl.valid_neg _ ht) ho, neg_neg_pt ht] at h
  exact hne h.symm

end

end Surjection
end SecpZkp
