import SecpZkp.Model.Ecdsa
import SecpZkp.Proofs.Der
/-
  Helper lemmas about the public-key and compact-signature codecs (`Model/Codec.lean`,
  `Model/Ecdsa.lean`): normal forms of the parsers as plain `if` cascades, and small facts about
  `powMod`/`Pt.liftX`.  The property statements themselves are in `Props/C03.lean`.  Core Lean only.
-/
namespace SecpZkp
namespace CodecLemmas
open Bytes DerSpec

theorem parseCompact_eq (b : Bytes) :
    Ecdsa.parseCompact b =
      if toNat (b.take 32) < N ∧ toNat (b.drop 32) < N
      then (1, (toNat (b.take 32), toNat (b.drop 32))) else (0, (0, 0)) := by
  simp only [Ecdsa.parseCompact, Sc.setB32]
  by_cases h1 : toNat (b.take 32) < N <;> by_cases h2 : toNat (b.drop 32) < N
  · simp [h1, h2, Nat.not_le.2 h1, Nat.not_le.2 h2, Nat.mod_eq_of_lt]
  · simp [h1, h2, Nat.not_lt.1 h2]
  · simp [h1, h2, Nat.not_lt.1 h1]
  · simp [h1, h2, Nat.not_lt.1 h1]

theorem feLimit_eq (b : Bytes) : Codec.feLimit b = if toNat b < P then some (toNat b) else none := rfl

/-- hybrid-prefix parity rule -/
def parityOk (tag : UInt8) (y : Nat) : Prop :=
  (tag = 0x06 → y % 2 = 0) ∧ (tag = 0x07 → y % 2 = 1)

instance (tag : UInt8) (y : Nat) : Decidable (parityOk tag y) := by unfold parityOk; infer_instance

theorem pubkeyParse_cons (tag : UInt8) (rest : Bytes) :
    Codec.pubkeyParse (tag :: rest) =
      if rest.length = 32 ∧ (tag = 0x02 ∨ tag = 0x03) then
        (if toNat rest < P then Pt.liftX (toNat rest) (decide (tag = 0x03)) else none)
      else if rest.length = 64 ∧ (tag = 0x04 ∨ tag = 0x06 ∨ tag = 0x07) then
        (if toNat (rest.take 32) < P ∧ toNat (rest.drop 32) < P ∧
            parityOk tag (toNat (rest.drop 32)) ∧
            Pt.onCurveXY (toNat (rest.take 32)) (toNat (rest.drop 32)) = true
         then some (Pt.aff (toNat (rest.take 32)) (toNat (rest.drop 32))) else none)
      else none := by
  simp only [Codec.pubkeyParse, List.length_cons, feLimit_eq]
  have e64 : rest.length + 1 = 65 ↔ rest.length = 64 := by omega
  have e33 : rest.length + 1 = 33 ↔ rest.length = 32 := by omega
  simp only [e64, e33]
  by_cases h33 : rest.length = 32 ∧ (tag = 0x02 ∨ tag = 0x03)
  · rw [if_pos h33, if_pos h33]
    by_cases hx : toNat rest < P <;> simp [hx]
  · rw [if_neg h33, if_neg h33]
    by_cases h65 : rest.length = 64 ∧ (tag = 0x04 ∨ tag = 0x06 ∨ tag = 0x07)
    · rw [if_pos h65, if_pos h65]
      by_cases hx : toNat (rest.take 32) < P <;> by_cases hy : toNat (rest.drop 32) < P
      · simp only [hx, hy, if_true, true_and]
        generalize toNat (rest.take 32) = x
        generalize toNat (rest.drop 32) = y
        have hpar : ((tag = 6 ∨ tag = 7) ∧ Fe.isOdd y ≠ decide (tag = 7)) ↔ ¬ parityOk tag y := by
          unfold parityOk Fe.isOdd
          by_cases h6 : tag = 6
          · subst h6; simp
          · by_cases h7 : tag = 7
            · subst h7; simp
            · simp [h6, h7]
        by_cases hp : parityOk tag y
        · have : ¬ ((tag = 6 ∨ tag = 7) ∧ Fe.isOdd y ≠ decide (tag = 7)) := fun h => hpar.1 h hp
          rw [if_neg this]; simp only [hp, true_and]
        · rw [if_pos (hpar.2 hp)]; simp only [hp, false_and, if_false]
      · simp [hx, hy]
      · simp [hx, hy]
      · simp [hx, hy]
    · rw [if_neg h65, if_neg h65]


theorem P_lt_2_256 : P < 2 ^ 256 := by decide +kernel

theorem onCurveXY_lt {x y : Nat} (h : Pt.onCurveXY x y = true) : x < P ∧ y < P := by
  simp [Pt.onCurveXY] at h; exact ⟨h.1.1, h.1.2⟩

theorem powModAux_lt (fuel a e m acc : Nat) (hm : 0 < m) (hacc : acc < m) :
    powModAux fuel a e m acc < m := by
  induction fuel generalizing a e acc with
  | zero => exact hacc
  | succ f ih =>
    unfold powModAux
    split
    · exact hacc
    · apply ih
      split
      · exact Nat.mod_lt _ hm
      · exact hacc

theorem sqrtCand_lt (a : Nat) : Fe.sqrtCand a < P := by
  have hP : 0 < P := by decide
  unfold Fe.sqrtCand powMod
  exact powModAux_lt _ _ _ _ _ hP (Nat.mod_lt _ hP)

theorem P_odd : P % 2 = 1 := by decide +kernel

/-- what `Pt.liftX` returns -/
theorem liftX_some {x : Nat} {odd : Bool} {p : Pt} (h : Pt.liftX x odd = some p) :
    ∃ y, y < P ∧ p = Pt.aff (x % P) (if Fe.isOdd y = odd then y else Fe.neg y) := by
  unfold Pt.liftX at h
  split at h
  · cases h
  · rename_i y hy
    obtain rfl := Option.some.inj h
    refine ⟨y, ?_, rfl⟩
    unfold Fe.sqrt at hy
    simp only at hy
    split at hy
    · obtain rfl := Option.some.inj hy; exact sqrtCand_lt _
    · exact absurd hy (by simp)

end CodecLemmas
end SecpZkp
