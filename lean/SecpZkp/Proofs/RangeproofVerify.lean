import SecpZkp.Proofs.RangeproofSign
import SecpZkp.Proofs.Generator
import SecpZkp.Proofs.Sha256
import SecpZkp.Proofs.RangeproofBits
/-
  Verifier-side facts for the completeness of range proofs: the sign bits and x-coordinates written by the digit loop
  of `sign_impl` are read back by `readDigits` as the same points, with the same hash state.
-/
namespace SecpZkp
namespace Rangeproof
open SecpZkp.GeneratorLemmas

/-! ### SHA-256 streaming -/

theorem write_write {s0 : Sha256.H8} {n0 : Nat} {h : Sha256.State} {pre : Bytes}
    (a : Sha256.AbsorbedFrom s0 n0 h pre) (x y : Bytes) :
    Sha256.write (Sha256.write h x) y = Sha256.write h (x ++ y) := by
  have h1 := Sha256.absorbedFrom_write (Sha256.absorbedFrom_write a x) y
  have h2 := Sha256.absorbedFrom_write a (x ++ y)
  rw [List.append_assoc] at h1
  cases hw1 : Sha256.write (Sha256.write h x) y with
  | mk s1 b1 n1 =>
    cases hw2 : Sha256.write h (x ++ y) with
    | mk s2 b2 n2 =>
      rw [hw1] at h1; rw [hw2] at h2
      have := h1.buf; have := h1.s; have := h1.bytes
      have := h2.buf; have := h2.s; have := h2.bytes
      simp_all

/-! ### what the digit loop of `sign_impl` writes -/

/-- sign flag of a point: 1 iff the ordinate is not a square -/
def qflag (p : Pt) : UInt8 := if Fe.isSquare p.yOf then 0 else 1

theorem serializePoint_eq (p : Pt) : serializePoint p = qflag p :: Bytes.be32 p.xOf := rfl

theorem serializePoint_aff (x y : Nat) : serializePoint (Pt.aff x y) = qflag (Pt.aff x y) :: Bytes.be32 x := rfl

theorem qflag_le (p : Pt) : qflag p ≤ 1 := by
  unfold qflag; split <;> decide

theorem digitPts_dropLast_cons (scale : Nat) (genp : Pt) (s : Nat) (secs : List Nat) (d : Nat) (idxs : List Nat) (i : Nat)
    (h1 : secs ≠ []) (h2 : secs.length ≤ idxs.length) :
    (digitPts scale genp (s :: secs) (d :: idxs) i).dropLast =
      pedersenEcmult s (digitValue d scale i) genp :: (digitPts scale genp secs idxs (i + 1)).dropLast := by
  rw [digitPts]
  have : digitPts scale genp secs idxs (i + 1) ≠ [] := by
    intro h
    have := digitPts_length scale genp secs idxs (i + 1) h2
    rw [h] at this
    exact h1 (List.eq_nil_of_length_eq_zero this.symm)
  exact List.dropLast_cons_of_ne_nil this

/-- Output of the digit loop: every digit commitment is finite; all but the last are hashed (as `flag ‖ x`), their
    abscissae are appended to `xs`, and their flags are OR-ed into the sign bytes. -/
theorem digitLoop_out (rings scale : Nat) (genp : Pt) :
    ∀ (secs idxs : List Nat) (i : Nat) (h : Sha256.State) (signs xs : Bytes) (pubs P : List Pt)
      (h' : Sha256.State) (signs' xs' : Bytes),
      digitLoop rings scale genp secs idxs i h signs xs pubs = some (P, h', signs', xs') →
      i + secs.length = rings → (∀ t, t + 1 < rings → t / 8 < signs.length) →
      (∀ p ∈ digitPts scale genp secs idxs i, p ≠ .inf) ∧
      h' = (digitPts scale genp secs idxs i).dropLast.foldl (fun h p => Sha256.write h (serializePoint p)) h ∧
      xs' = xs ++ ((digitPts scale genp secs idxs i).dropLast.map (fun p => Bytes.be32 p.xOf)).flatten ∧
      signs'.length = signs.length ∧
      ∀ t, signBit signs' t =
        if i ≤ t ∧ t + 1 < rings then
          (signBit signs t || qflag ((digitPts scale genp secs idxs i).getD (t - i) .inf) == 1)
        else signBit signs t := by
  intro secs
  induction secs with
  | nil =>
    intro idxs i h signs xs pubs P h' signs' xs' hd hi _
    simp only [digitLoop, Option.some.injEq, Prod.mk.injEq] at hd
    obtain ⟨_, rfl, rfl, rfl⟩ := hd
    have hD : digitPts scale genp [] idxs i = [] := by cases idxs <;> rfl
    simp only [List.length_nil, Nat.add_zero] at hi
    rw [hD]
    refine ⟨by simp, rfl, by simp, rfl, ?_⟩
    intro t
    rw [if_neg (by omega)]
  | cons s secs ih =>
    intro idxs i h signs xs pubs P h' signs' xs' hd hi hsl
    cases idxs with
    | nil => simp [digitLoop] at hd
    | cons d idxs =>
      have hlen := (digitLoop_spec _ _ _ _ _ _ _ _ _ _ _ _ _ _ hd).1
      simp only [List.length_cons] at hi hlen
      rw [digitLoop] at hd
      split at hd
      · simp at hd
      next p hpne =>
      have hp : pedersenEcmult s (digitValue d scale i) genp ≠ .inf := fun h => hpne h
      split at hd
      next hlt =>
        have hne : secs ≠ [] := by intro h; subst h; simp at hi; omega
        obtain ⟨a1, a2, a3, a4, a5⟩ := ih idxs (i + 1) _ _ _ _ P h' signs' xs' hd (by omega)
          (by intro t ht; rw [length_setSignBit]; exact hsl t ht)
        rw [digitPts_dropLast_cons _ _ _ _ _ _ _ hne (by omega)]
        refine ⟨?_, ?_, ?_, ?_, ?_⟩
        · intro q hq
          rw [digitPts] at hq
          rcases List.mem_cons.mp hq with h | h
          · rw [h]; exact hp
          · exact a1 q h
        · rw [a2]; rfl
        · rw [a3, serializePoint_eq]; simp
        · rw [a4, length_setSignBit]
        · intro t
          rw [a5 t, serializePoint_eq, List.headD_cons,
            signBit_setSignBit _ _ _ (qflag_le _) (hsl i hlt)]
          rw [digitPts]
          by_cases hti : t = i
          · subst hti
            simp [hlt]
          · by_cases h1 : i + 1 ≤ t ∧ t + 1 < rings
            · have h2 : i ≤ t ∧ t + 1 < rings := ⟨by omega, h1.2⟩
              rw [if_pos h1, if_pos h2, if_neg hti]
              have : t - i = (t - (i + 1)) + 1 := by omega
              rw [this, List.getD_cons_succ]
            · have h2 : ¬ (i ≤ t ∧ t + 1 < rings) := by omega
              rw [if_neg h1, if_neg h2, if_neg hti]
      next hge =>
        have hnil : secs = [] := by
          cases secs with
          | nil => rfl
          | cons _ _ => simp at hi; omega
        subst hnil
        simp only [digitLoop, Option.some.injEq, Prod.mk.injEq] at hd
        obtain ⟨_, rfl, rfl, rfl⟩ := hd
        have hD : digitPts scale genp [s] (d :: idxs) i = [pedersenEcmult s (digitValue d scale i) genp] := by
          rw [digitPts]; congr 1
        rw [hD]
        refine ⟨by simpa using hp, rfl, by simp, rfl, ?_⟩
        intro t
        rw [if_neg (by omega)]


/-! ### `readDigits` reads back what the digit loop wrote -/

theorem feLimit_be32 {x : Nat} (hx : x < P) : Codec.feLimit (Bytes.be32 x) = some x := by
  have h2 : x < 2 ^ 256 := lt_trans hx P_lt
  show (if Bytes.toNat (Bytes.be32 x) < P then some (Bytes.toNat (Bytes.be32 x)) else none) = some x
  rw [Bytes.toNat_be32 h2, if_pos hx]

theorem readDigits_roundtrip {s0 : Sha256.H8} {n0 : Nat} :
    ∀ (pts : List Pt) (i0 : Nat) (sb rest : Bytes) (h : Sha256.State) (pre : Bytes) (acc : Pt) (pubs : List Pt),
      Sha256.AbsorbedFrom s0 n0 h pre →
      (∀ p ∈ pts, p.valid = true ∧ p ≠ .inf) →
      (∀ k, k < pts.length → signBit sb (i0 + k) = (qflag (pts.getD k .inf) == 1)) →
      readDigits pts.length i0 sb ((pts.map (fun p => Bytes.be32 p.xOf)).flatten ++ rest) h acc pubs =
        some (pubs ++ pts, pts.foldl Pt.add acc, pts.foldl (fun h p => Sha256.write h (serializePoint p)) h) := by
  intro pts
  induction pts with
  | nil =>
    intro i0 sb rest h pre acc pubs _ _ _
    simp only [List.length_nil, readDigits_zero, List.append_nil, List.foldl_nil]
  | cons p ps ih =>
    intro i0 sb rest h pre acc pubs hab hv hbits
    obtain ⟨hpv, hpne⟩ := hv p (by simp)
    cases p with
    | inf => exact absurd rfl hpne
    | aff x y =>
      have hxP : x < P := (Algebra.valid_aff_lt hpv).1
      obtain ⟨r, hlift, hsel⟩ := quad_select hpv
      have hbit0 := hbits 0 (by simp)
      simp only [Nat.add_zero, List.getD_cons_zero] at hbit0
      simp only [List.length_cons, List.map_cons, List.flatten_cons, List.append_assoc]
      have hx0 : (Pt.aff x y).xOf = x := rfl
      rw [hx0, readDigits_succ]
      have htake : (Bytes.be32 x ++ ((ps.map (fun p => Bytes.be32 p.xOf)).flatten ++ rest)).take 32 = Bytes.be32 x :=
        List.take_left' (Bytes.be32_length x)
      have hdrop : (Bytes.be32 x ++ ((ps.map (fun p => Bytes.be32 p.xOf)).flatten ++ rest)).drop 32 =
          (ps.map (fun p => Bytes.be32 p.xOf)).flatten ++ rest := by
        rw [← Bytes.be32_length x, List.drop_left]
      rw [htake, hdrop, feLimit_be32 hxP]
      dsimp only
      rw [hlift]
      dsimp only
      have hsb : (sb.getD (i0 / 8) 0 &&& ((1 : UInt8) <<< UInt8.ofNat (i0 % 8)) ≠ 0) ↔ qflag (Pt.aff x y) = 1 := by
        have : signBit sb i0 = (qflag (Pt.aff x y) == 1) := hbit0
        unfold signBit at this
        rw [Bool.eq_iff_iff] at this
        simpa using this
      have hsign : (if sb.getD (i0 / 8) 0 &&& ((1 : UInt8) <<< UInt8.ofNat (i0 % 8)) ≠ 0 then (1 : UInt8) else 0) =
          qflag (Pt.aff x y) := by
        by_cases hq : qflag (Pt.aff x y) = 1
        · rw [if_pos (hsb.mpr hq), hq]
        · rw [if_neg (fun h => hq (hsb.mp h))]
          unfold qflag at hq ⊢
          split at hq
          · next hs => rw [if_pos hs]
          · exact absurd rfl hq
      rw [hsign]
      have hc : (if qflag (Pt.aff x y) = 1 then Pt.neg (Pt.aff x r) else Pt.aff x r) = Pt.aff x y := by
        by_cases hs : Fe.isSquare y = true
        · have hq : qflag (Pt.aff x y) = 0 := by
            show (if Fe.isSquare y = true then (0 : UInt8) else 1) = 0
            rw [if_pos hs]
          rw [hq, if_neg (by decide)]
          rw [if_pos hs] at hsel; exact hsel
        · have hq : qflag (Pt.aff x y) = 1 := by
            show (if Fe.isSquare y = true then (0 : UInt8) else 1) = 1
            rw [if_neg hs]
          rw [hq, if_pos rfl]
          rw [if_neg hs] at hsel; exact hsel
      rw [hc, write_write hab, List.singleton_append, ← serializePoint_aff]
      rw [ih (i0 + 1) sb rest _ _ _ _ (Sha256.absorbedFrom_write hab _) (fun q hq => hv q (List.mem_cons_of_mem _ hq))
        (fun k hk => by
          have := hbits (k + 1) (Nat.succ_lt_succ hk)
          simp only [List.getD_cons_succ] at this
          rw [← this, Nat.add_assoc, Nat.add_comm 1 k])]
      simp only [List.foldl_cons, List.append_assoc, List.singleton_append]

end Rangeproof
end SecpZkp
