import SecpZkp.Proofs.RangeproofVerify
import SecpZkp.Proofs.RangeproofAlgebra
import SecpZkp.Proofs.BorromeanApps
/-
  Last helper lemmas for `rangeproof_complete`: shape of the Borromean signer's scalars, reading them back, and the
  forward direction of `verifyImpl` ("if every check passes, the result is `accept`").
-/
namespace SecpZkp

namespace Borromean
open SecpZkp.Algebra

/-- phase 2 only ever writes reduced scalars -/
theorem phase2_lt (pubs : List Pt) (m e0 : Bytes) :
    ∀ (rings : List (Nat × Nat × Nat × Nat)) (i count : Nat) (sCur sOut : List Nat),
      sign.phase2 pubs m e0 rings i count sCur = some sOut → (∀ x ∈ sCur, x < N) → ∀ x ∈ sOut, x < N := by
  intro rings
  induction rings with
  | nil => intro i count sCur sOut h hs; simp [sign.phase2] at h; subst h; exact hs
  | cons r rest ih =>
    intro i count sCur sOut h hs
    obtain ⟨rs, si, ki, seci⟩ := r
    rw [phase2_cons] at h
    split at h
    · simp at h
    · split at h
      · simp at h
      · split at h
        · simp at h
        · apply ih _ _ _ _ h
          intro x hx
          rcases List.mem_or_eq_of_mem_set hx with h' | h'
          · exact hs x h'
          · subst h'; exact Sc.add_lt _ _

/-- the signer returns as many scalars as it was given, all reduced if the forged ones were; `e0` is a SHA-256 output -/
theorem sign_out {s : List Nat} {pubs : List Pt} {k sec rsizes secidx : List Nat} {m e0 : Bytes} {sOut : List Nat}
    (h : sign s pubs k sec rsizes secidx m = some (e0, sOut)) :
    e0.length = 32 ∧ sOut.length = s.length ∧ ((∀ x ∈ s, x < N) → ∀ x ∈ sOut, x < N) := by
  refine ⟨sign_e0_length h, ?_⟩
  rw [sign] at h
  simp only [] at h
  split at h
  · simp at h
  split at h
  · simp at h
  next sO h2 =>
  simp only [Option.some.injEq, Prod.mk.injEq] at h
  rw [← h.2]
  exact ⟨(phase2_take _ _ _ _ _ _ _ _ h2).2, fun hs => phase2_lt _ _ _ _ _ _ _ _ h2 hs⟩

end Borromean

namespace Rangeproof
open SecpZkp.C09

theorem readScalars_flat (rest : Bytes) : ∀ (s : List Nat), (∀ x ∈ s, x < N) →
    readScalars s.length (s.flatMap Bytes.be32 ++ rest) = some s := by
  intro s
  induction s with
  | nil => intro _; rfl
  | cons x xs ih =>
    intro hs
    have hx := hs x (by simp)
    simp only [List.length_cons, List.flatMap_cons, List.append_assoc]
    rw [readScalars, List.take_left' (Bytes.be32_length x), Borromean.setB32_be32 hx]
    have : (Bytes.be32 x ++ (xs.flatMap Bytes.be32 ++ rest)).drop 32 = xs.flatMap Bytes.be32 ++ rest := by
      rw [← Bytes.be32_length x, List.drop_left]
    simp only [Bool.false_eq_true, if_false, this]
    rw [ih (fun y hy => hs y (by simp [hy]))]
    rfl

theorem pubExpand_exp (firsts : List Pt) (e1 e2 : Int) (rsizes : List Nat) (genp : Pt)
    (h : (if e1 < 0 then 0 else e1.toNat) = (if e2 < 0 then 0 else e2.toNat)) :
    pubExpand firsts e1 rsizes genp = pubExpand firsts e2 rsizes genp := by
  unfold pubExpand
  simp only []
  rw [h]

/-- **`verifyImpl`, forward direction** (plain verification, no rewind): if the header is accepted and every later
    check passes, the result is "accept" with the header's range. -/
theorem verifyImpl_accept_of (min0 max0 : Nat) (commit : Pt) (proof : Bytes) (extra : Option Bytes) (genp : Pt)
    (hd : Header) (hhd : getHeader ⟨false, 0, 0, 0, 0, min0, max0⟩ proof = hd) (hret : hd.ret = true)
    (rings : Nat) (rsizes : List Nat) (npub : Nat) (hl : layout hd.mantissa.toNat = (rings, rsizes, npub))
    (h1 : ¬ (proof.length - hd.offset < 32 * (npub + rings - 1) + 32 + ((rings + 6) >>> 3)))
    (h2 : ¬ ((rings - 1) &&& 7 ≠ 0 ∧
      (proof.getD (hd.offset + ((rings + 6) >>> 3) - 1) 0).toNat >>> ((rings - 1) &&& 7) ≠ 0))
    (firsts0 : List Pt) (acc : Pt) (sha1 : Sha256.State) (s : List Nat)
    (hrd : readDigits (rings - 1) 0 ((proof.drop hd.offset).take ((rings + 6) >>> 3))
      (proof.drop (hd.offset + ((rings + 6) >>> 3))) (shaPrefix commit genp (proof.take hd.offset))
      (if hd.minValue ≠ 0 then Pt.mul hd.minValue genp else Pt.inf) [] = some (firsts0, acc, sha1))
    (h4 : (Pt.add (Pt.neg acc) commit).isInf = false)
    (hrs : readScalars npub (proof.drop (hd.offset + ((rings + 6) >>> 3) + 32 * (rings - 1) + 32)) = some s)
    (h5 : hd.offset + ((rings + 6) >>> 3) + 32 * (rings - 1) + 32 + 32 * npub = proof.length)
    (hv : (Borromean.verify ((proof.drop (hd.offset + ((rings + 6) >>> 3) + 32 * (rings - 1))).take 32) s
      (pubExpand (firsts0 ++ [Pt.add (Pt.neg acc) commit]) hd.exp rsizes genp) rsizes
      (Sha256.finalize (absorbExtra sha1 extra))).1 = true) :
    verifyImpl none none min0 max0 commit proof extra genp = ⟨true, hd.minValue, hd.maxValue, none, none, none⟩ := by
  obtain ⟨ev, hev⟩ : ∃ ev, Borromean.verify ((proof.drop (hd.offset + ((rings + 6) >>> 3) + 32 * (rings - 1))).take 32) s
      (pubExpand (firsts0 ++ [Pt.add (Pt.neg acc) commit]) hd.exp rsizes genp) rsizes
      (Sha256.finalize (absorbExtra sha1 extra)) = (true, ev) := ⟨_, Prod.ext hv rfl⟩
  cases extra <;>
  · simp only [absorbExtra] at hev
    unfold verifyImpl
    simp only []
    rw [hhd]
    simp only [hret, Bool.not_true, Bool.false_eq_true, if_false, hl]
    rw [if_neg h1, if_neg h2, hrd]
    simp only []
    rw [h4]
    simp only [Bool.false_eq_true, if_false]
    rw [hrs]
    simp only []
    rw [if_neg (by omega), hev]
    rfl

end Rangeproof
end SecpZkp
