/-
  Helpers for `Props/C05_mulshift.lean`: the second half of `secp256k1_scalar_mul_shift_var`
  (`Gen.scalar4x64.scalar_mul_shift_var`, generated from `src/scalar_4x64_impl.h`): the limb selection
  `r->d[j] = l[j + shiftlimbs] >> shiftlow | l[j + 1 + shiftlimbs] << shifthigh` with its guards, the rounding bit
  `(l[(shift-1) >> 6] >> ((shift-1) & 0x3f)) & 1`, and the final `secp256k1_scalar_cadd_bit(r, 0, bit)`.

  Contents
  * `ev_cond`, `binWrap_ne`                 : the `?:` expression and `!=` of the IR (for the `steps`/`vstep` tactics)
  * `win2`                                  : the 64-bit window at bit offset `low < 64` of `x + y·2^64 + z·2^128`
  * `round_div`                             : `(L + 2^(s-1)) / 2^s = L / 2^s + (L / 2^(s-1)) mod 2`
  * `L8`, `L8_lt`, `win_f`, `bit_f`         : windows and bits of the number held by eight 64-bit limbs `f 0 … f 7`
  * `shr_or_shl`                            : `(x >> low) | (y << (64 - low))` at width 64
  * `limb_spec`, `limb3_spec`, `flag_spec`  : the C expressions for `r->d[0..3]` and the rounding bit, for EVERY
                                              `256 ≤ shift ≤ 512`, are the windows / the bit of `L8 f`
  * `mulshift_arith`                        : all of the above + `cadd_arith`: the final limbs represent
                                              `(L8 f + 2^(shift-1)) / 2^shift`

  No axioms beyond propext / Classical.choice / Quot.sound.
-/
import SecpZkp.Proofs.ScalarKernel
import Mathlib.Tactic.Ring
import Mathlib.Tactic.Linarith
import Mathlib.Tactic.IntervalCases

namespace SecpZkp
namespace MulShift
open MiniC ScalarKernel

/-! ### the `?:` expression and `!=` -/

/-- value of `c ? a : b` under the wrap-around semantics (only the chosen arm is evaluated) -/
theorem ev_cond (env : Env) (c a b : Expr) :
    ev env (.cond c a b) = if ev env c ≠ 0 then ev env a else ev env b := by
  by_cases h : (evalE env c).1 = 0 <;> simp [ev, evalE, h]

theorem binWrap_ne (w a b : Nat) : binWrap .ne w a b = if a ≠ b then 1 else 0 := rfl

/-! ### pure arithmetic -/

theorem two_pow_split {low : Nat} (h : low ≤ 64) : 2 ^ low * 2 ^ (64 - low) = 2 ^ 64 := by
  rw [← Nat.pow_add]; congr 1; omega

/-- the 64-bit window at bit offset `low < 64` of `x + y·2^64 + z·2^128` -/
theorem win2 (x y z low : Nat) (hx : x < 2 ^ 64) (hlow : low < 64) :
    (x + y * 2 ^ 64 + z * 2 ^ 128) / 2 ^ low % 2 ^ 64 = x / 2 ^ low + (y % 2 ^ low) * 2 ^ (64 - low) := by
  have hpq := two_pow_split (Nat.le_of_lt hlow)
  have hp : 0 < 2 ^ low := Nat.pow_pos (by decide)
  generalize 2 ^ low = p at *
  generalize 2 ^ (64 - low) = q at *
  have e128 : 2 ^ 128 = (p * q) * (p * q) := by rw [hpq]; decide
  have e1 : x + y * 2 ^ 64 + z * 2 ^ 128 = x + p * (q * y + q * (p * q) * z) := by
    rw [e128, ← hpq]; ring
  rw [e1, Nat.add_mul_div_left _ _ hp]
  have e2 : x / p + (q * y + q * (p * q) * z) = (x / p + (y % p) * q) + 2 ^ 64 * (y / p + q * z) := by
    rw [← hpq]
    conv => lhs; rw [← Nat.div_add_mod y p]
    ring
  rw [e2, Nat.add_mul_mod_self_left]
  apply Nat.mod_eq_of_lt
  have h1 : x / p < q := by
    apply Nat.div_lt_of_lt_mul; rw [hpq]; exact hx
  have h2 : y % p < p := Nat.mod_lt _ hp
  have h3 : (y % p + 1) * q ≤ p * q := Nat.mul_le_mul_right q h2
  rw [← hpq]
  nlinarith

/-- rounding to nearest (ties up) = truncation + the bit just below the cut -/
theorem round_div (L s : Nat) (hs : 1 ≤ s) :
    (L + 2 ^ (s - 1)) / 2 ^ s = L / 2 ^ s + L / 2 ^ (s - 1) % 2 := by
  have e : 2 ^ s = 2 ^ (s - 1) * 2 := by rw [← Nat.pow_succ]; congr 1; omega
  have hp : 0 < 2 ^ (s - 1) := Nat.pow_pos (by decide)
  rw [e]
  generalize 2 ^ (s - 1) = h at *
  rw [← Nat.div_div_eq_div_mul, ← Nat.div_div_eq_div_mul, Nat.add_div_right _ hp]
  omega

/-- four consecutive 64-bit windows of a number below `2^256` are its limbs -/
theorem val4_windows (X : Nat) (hX : X < 2 ^ 256) :
    val4 (X % 2 ^ 64) (X / 2 ^ 64 % 2 ^ 64) (X / 2 ^ 128 % 2 ^ 64) (X / 2 ^ 192 % 2 ^ 64) = X := by
  unfold val4; omega

/-! ### eight limbs -/

/-- the number held by the limbs `f 0 … f 7` -/
def L8 (f : Nat → Nat) : Nat := val8 (f 0) (f 1) (f 2) (f 3) (f 4) (f 5) (f 6) (f 7)

set_option exponentiation.threshold 600 in
theorem L8_lt (f : Nat → Nat) (hf : ∀ i, i < 8 → f i < 2 ^ 64) : L8 f < 2 ^ 512 := by
  have h0 := hf 0 (by decide); have h1 := hf 1 (by decide); have h2 := hf 2 (by decide)
  have h3 := hf 3 (by decide); have h4 := hf 4 (by decide); have h5 := hf 5 (by decide)
  have h6 := hf 6 (by decide); have h7 := hf 7 (by decide)
  unfold L8 val8; omega

/-- `L8 f` shifted right by `m` whole limbs: `f m + (next limb)·2^64 + (rest)·2^128`, the missing limbs being `0` -/
theorem L8_div (f : Nat → Nat) (hf : ∀ i, i < 8 → f i < 2 ^ 64) (m : Nat) (hm : m < 8) :
    ∃ z, L8 f / 2 ^ (64 * m) = f m + (if m < 7 then f (m + 1) else 0) * 2 ^ 64 + z * 2 ^ 128 := by
  have h0 := hf 0 (by decide); have h1 := hf 1 (by decide); have h2 := hf 2 (by decide)
  have h3 := hf 3 (by decide); have h4 := hf 4 (by decide); have h5 := hf 5 (by decide)
  have h6 := hf 6 (by decide); have h7 := hf 7 (by decide)
  unfold L8 val8
  interval_cases m
  · exact ⟨f 2 + f 3 * 2 ^ 64 + f 4 * 2 ^ 128 + f 5 * 2 ^ 192 + f 6 * 2 ^ 256 + f 7 * 2 ^ 320, by
      simp only [if_true, Nat.reduceLT, Nat.reduceMul, Nat.reduceAdd, Nat.pow_zero, Nat.div_one]; omega⟩
  · exact ⟨f 3 + f 4 * 2 ^ 64 + f 5 * 2 ^ 128 + f 6 * 2 ^ 192 + f 7 * 2 ^ 256, by
      simp only [if_true, Nat.reduceLT, Nat.reduceMul, Nat.reduceAdd]; omega⟩
  · exact ⟨f 4 + f 5 * 2 ^ 64 + f 6 * 2 ^ 128 + f 7 * 2 ^ 192, by
      simp only [if_true, Nat.reduceLT, Nat.reduceMul, Nat.reduceAdd]; omega⟩
  · exact ⟨f 5 + f 6 * 2 ^ 64 + f 7 * 2 ^ 128, by
      simp only [if_true, Nat.reduceLT, Nat.reduceMul, Nat.reduceAdd]; omega⟩
  · exact ⟨f 6 + f 7 * 2 ^ 64, by
      simp only [if_true, Nat.reduceLT, Nat.reduceMul, Nat.reduceAdd]; omega⟩
  · exact ⟨f 7, by
      simp only [if_true, Nat.reduceLT, Nat.reduceMul, Nat.reduceAdd]; omega⟩
  · exact ⟨0, by
      simp only [if_true, Nat.reduceLT, Nat.reduceMul, Nat.reduceAdd]; omega⟩
  · exact ⟨0, by
      simp only [if_false, Nat.reduceLT, Nat.reduceMul, Nat.reduceAdd]; omega⟩

set_option exponentiation.threshold 600 in
/-- the 64-bit window of `L8 f` at bit offset `64·m + low`: parts of limb `m` and limb `m+1` (limbs from index 8
    on count as `0`) -/
theorem win_f (f : Nat → Nat) (hf : ∀ i, i < 8 → f i < 2 ^ 64) (m low : Nat) (hlow : low < 64) :
    L8 f / 2 ^ (64 * m + low) % 2 ^ 64 =
      if m < 8 then f m / 2 ^ low + ((if m < 7 then f (m + 1) else 0) % 2 ^ low) * 2 ^ (64 - low) else 0 := by
  by_cases hm : m < 8
  · rw [if_pos hm, Nat.pow_add, ← Nat.div_div_eq_div_mul]
    obtain ⟨z, hz⟩ := L8_div f hf m hm
    rw [hz]
    exact win2 _ _ _ _ (hf m hm) hlow
  · rw [if_neg hm]
    have h1 : L8 f < 2 ^ (64 * m + low) :=
      Nat.lt_of_lt_of_le (L8_lt f hf) (Nat.pow_le_pow_right (by decide) (by omega))
    rw [Nat.div_eq_of_lt h1, Nat.zero_mod]

/-- bit `64·m + t` of `L8 f` is bit `t` of limb `m` -/
theorem bit_f (f : Nat → Nat) (hf : ∀ i, i < 8 → f i < 2 ^ 64) (m t : Nat) (hm : m < 8) (ht : t < 64) :
    L8 f / 2 ^ (64 * m + t) % 2 = f m / 2 ^ t % 2 := by
  have h := win_f f hf m t ht
  rw [if_pos hm] at h
  have e : 2 ^ (64 - t) = 2 * 2 ^ (63 - t) := by rw [← Nat.pow_succ']; congr 1; omega
  rw [← Nat.mod_mod_of_dvd (L8 f / 2 ^ (64 * m + t)) (show 2 ∣ 2 ^ 64 by decide), h, e]
  rw [show ∀ a b c : Nat, a + b * (2 * c) = a + 2 * (b * c) by intros; ring, Nat.add_mul_mod_self_left]

/-! ### the C expressions -/

/-- `(x >> low) | (y << (64 - low))` at width 64, `low < 64`: the low `low` bits of `y` land on top of the
    remaining `64 - low` bits of `x` -/
theorem shr_or_shl (x y low : Nat) (hx : x < 2 ^ 64) (hlow : low < 64) :
    (x / 2 ^ low) ||| (y * 2 ^ (64 - low) % 2 ^ 64) = x / 2 ^ low + (y % 2 ^ low) * 2 ^ (64 - low) := by
  have hpq := two_pow_split (Nat.le_of_lt hlow)
  have h1 : x / 2 ^ low < 2 ^ (64 - low) := by
    apply Nat.div_lt_of_lt_mul; rw [hpq]; exact hx
  have e : y * 2 ^ (64 - low) % 2 ^ 64 = (y % 2 ^ low) * 2 ^ (64 - low) := by
    rw [← hpq, Nat.mul_mod_mul_right]
  rw [e, Nat.or_comm, FieldKernel.shl_or _ _ _ h1, Nat.add_comm]

theorem sub32_small (a b : Nat) (hb : b ≤ a) (ha : a < 2 ^ 32) : binWrap BinOp.sub 32 a b = a - b := by
  simp only [binWrap_sub]; omega

theorem add32_small (a b : Nat) (h : a + b < 2 ^ 32) : binWrap BinOp.add 32 a b = a + b := by
  simp only [binWrap_add]; omega

theorem shr6 (s : Nat) : binWrap BinOp.shr 32 s 6 = s / 64 := rfl

theorem and63 (s : Nat) : binWrap BinOp.and 32 s 63 = s % 64 := Nat.and_two_pow_sub_one_eq_mod s 6

theorem lt_ne_zero (a b : Nat) : (¬binWrap BinOp.lt 32 a b = 0) ↔ a < b := by
  simp only [binWrap_lt]; split <;> simp [*]

theorem ne_lt_ne_zero (a b : Nat) : (¬binWrap BinOp.ne 32 (binWrap BinOp.lt 32 a b) 0 = 0) ↔ a < b := by
  simp only [binWrap_lt, binWrap_ne]; split <;> simp [*]

theorem ne0_ne_zero (a : Nat) : (¬binWrap BinOp.ne 32 a 0 = 0) ↔ a ≠ 0 := by
  simp only [binWrap_ne]; split <;> simp [*]

/-- `r->d[j]` for `j = 0, 1, 2` (thresholds `T1 = 512 - 64j`, `T2 = 448 - 64j`), exactly as the C code computes it
    (guards included), is the 64-bit window of the product at bit offset `shift + 64j` — for every
    `256 ≤ shift ≤ 512`. -/
theorem limb_spec (f : Nat → Nat) (hf : ∀ i, i < 8 → f i < 2 ^ 64) (s j j1 T1 T2 : Nat)
    (hs : 256 ≤ s) (hs' : s ≤ 512) (hj : j ≤ 2) (hj1 : j1 = j + 1) (hT1 : T1 = 512 - 64 * j) (hT2 : T2 = 448 - 64 * j) :
    (if ¬binWrap BinOp.lt 32 s T1 = 0 then
      binWrap BinOp.or 64
        (binWrap BinOp.shr 64 (f (binWrap BinOp.add 32 j (binWrap BinOp.shr 32 s 6))) (binWrap BinOp.and 32 s 63))
        (if ¬(if ¬binWrap BinOp.ne 32 (binWrap BinOp.lt 32 s T2) 0 = 0 then
                binWrap BinOp.ne 32 (binWrap BinOp.and 32 s 63) 0 else 0) = 0 then
          binWrap BinOp.shl 64 (f (binWrap BinOp.add 32 j1 (binWrap BinOp.shr 32 s 6)))
            (binWrap BinOp.sub 32 64 (binWrap BinOp.and 32 s 63))
        else 0)
    else 0) = L8 f / 2 ^ (s + 64 * j) % 2 ^ 64 := by
  have hlow : s % 64 < 64 := Nat.mod_lt _ (by decide)
  have eS : s + 64 * j = 64 * (j + s / 64) + s % 64 := by omega
  rw [eS, win_f f hf _ _ hlow]
  simp only [shr6, and63, lt_ne_zero, ne_lt_ne_zero]
  rw [add32_small j (s / 64) (by omega), add32_small j1 (s / 64) (by omega),
    sub32_small 64 (s % 64) (by omega) (by decide)]
  simp only [binWrap_or, binWrap_shr, binWrap_shl]
  by_cases c1 : s < T1
  · have hm : j + s / 64 < 8 := by omega
    rw [if_pos c1, if_pos hm]
    by_cases c2 : s < T2
    · have hm' : j + s / 64 < 7 := by omega
      rw [if_pos c2, if_pos hm', hj1]
      by_cases c3 : s % 64 = 0
      · have : binWrap BinOp.ne 32 (s % 64) 0 = 0 := by simp [binWrap_ne, c3]
        rw [this, if_neg (by simp), c3]
        simp [Nat.mod_one]
      · have : binWrap BinOp.ne 32 (s % 64) 0 = 1 := by simp [binWrap_ne, c3]
        rw [this, if_pos (by simp)]
        have e : j + 1 + s / 64 = j + s / 64 + 1 := by omega
        rw [e]
        exact shr_or_shl _ _ _ (hf _ hm) hlow
    · have hm' : ¬ j + s / 64 < 7 := by omega
      rw [if_neg c2, if_neg hm', if_neg (by simp)]
      simp
  · have hm : ¬ j + s / 64 < 8 := by omega
    rw [if_neg c1, if_neg hm]

/-- `r->d[3]`, as the C code computes it, is the window at bit offset `shift + 192` -/
theorem limb3_spec (f : Nat → Nat) (hf : ∀ i, i < 8 → f i < 2 ^ 64) (s : Nat) (hs : 256 ≤ s) (hs' : s ≤ 512) :
    (if ¬binWrap BinOp.lt 32 s 320 = 0 then
      binWrap BinOp.shr 64 (f (binWrap BinOp.add 32 3 (binWrap BinOp.shr 32 s 6))) (binWrap BinOp.and 32 s 63)
    else 0) = L8 f / 2 ^ (s + 64 * 3) % 2 ^ 64 := by
  have hlow : s % 64 < 64 := Nat.mod_lt _ (by decide)
  have eS : s + 64 * 3 = 64 * (3 + s / 64) + s % 64 := by omega
  rw [eS, win_f f hf _ _ hlow]
  simp only [shr6, and63, lt_ne_zero]
  rw [add32_small 3 (s / 64) (by omega)]
  simp only [binWrap_shr]
  by_cases c1 : s < 320
  · have hm : 3 + s / 64 < 8 := by omega
    have hm' : ¬ 3 + s / 64 < 7 := by omega
    rw [if_pos c1, if_pos hm, if_neg hm']
    simp
  · have hm : ¬ 3 + s / 64 < 8 := by omega
    rw [if_neg c1, if_neg hm]

/-- the rounding bit `(l[(shift-1) >> 6] >> ((shift-1) & 0x3f)) & 1`, converted to `int`, is bit `shift - 1` of the
    product -/
theorem flag_spec (f : Nat → Nat) (hf : ∀ i, i < 8 → f i < 2 ^ 64) (s : Nat) (hs : 256 ≤ s) (hs' : s ≤ 512) :
    binWrap BinOp.and 64
        (binWrap BinOp.shr 64 (f (binWrap BinOp.shr 32 (binWrap BinOp.sub 32 s 1) 6))
          (binWrap BinOp.and 32 (binWrap BinOp.sub 32 s 1) 63)) 1 % 2 ^ 32 = L8 f / 2 ^ (s - 1) % 2 := by
  rw [sub32_small s 1 (by omega) (by omega)]
  simp only [shr6, and63]
  simp only [binWrap_and, binWrap_shr, Nat.and_one_is_mod]
  have eS : s - 1 = 64 * ((s - 1) / 64) + (s - 1) % 64 := by omega
  conv => rhs; rw [eS]
  rw [bit_f f hf _ _ (by omega) (Nat.mod_lt _ (by decide))]
  omega

/-! ### everything together -/

set_option exponentiation.threshold 600 in
set_option maxHeartbeats 1000000 in
/-- The second half of `secp256k1_scalar_mul_shift_var`, as arithmetic: with `r0 … r3`, `flag`, the adjusted bit
    index `b` and the limbs `q0 … q3` after `secp256k1_scalar_cadd_bit(r, 0, flag)` defined by the literal
    wrap-around expressions of the IR, the result represents the product `L8 f` divided by `2^shift`, rounded to
    nearest (ties up) — for every `256 ≤ shift ≤ 512`, provided the product is at most `(2^256-1)^2`. -/
theorem mulshift_arith (f : Nat → Nat) (s : Nat) (hs : 256 ≤ s) (hs' : s ≤ 512)
    (hL : L8 f ≤ (2 ^ 256 - 1) * (2 ^ 256 - 1))
    (r0 r1 r2 r3 flag b q0 t1 q1 t2 q2 t3 q3 : Nat)
    (r0_def : r0 = L8 f / 2 ^ (s + 64 * 0) % 2 ^ 64) (r1_def : r1 = L8 f / 2 ^ (s + 64 * 1) % 2 ^ 64)
    (r2_def : r2 = L8 f / 2 ^ (s + 64 * 2) % 2 ^ 64) (r3_def : r3 = L8 f / 2 ^ (s + 64 * 3) % 2 ^ 64)
    (flag_def : flag = L8 f / 2 ^ (s - 1) % 2)
    (b_def : b = binWrap BinOp.add 32 0 (binWrap BinOp.and 32 (binWrap BinOp.sub 32 flag 1) 256))
    (q0_def : q0 = binWrap BinOp.add 128 r0 (if b / 64 = 0 then 2 ^ (b % 64) else 0) % 2 ^ 64)
    (t1_def : t1 = binWrap BinOp.shr 128 (binWrap BinOp.add 128 r0 (if b / 64 = 0 then 2 ^ (b % 64) else 0)) 64)
    (q1_def : q1 = binWrap BinOp.add 128 (binWrap BinOp.add 128 t1 r1) (if b / 64 = 1 then 2 ^ (b % 64) else 0) % 2 ^ 64)
    (t2_def : t2 = binWrap BinOp.shr 128
      (binWrap BinOp.add 128 (binWrap BinOp.add 128 t1 r1) (if b / 64 = 1 then 2 ^ (b % 64) else 0)) 64)
    (q2_def : q2 = binWrap BinOp.add 128 (binWrap BinOp.add 128 t2 r2) (if b / 64 = 2 then 2 ^ (b % 64) else 0) % 2 ^ 64)
    (t3_def : t3 = binWrap BinOp.shr 128
      (binWrap BinOp.add 128 (binWrap BinOp.add 128 t2 r2) (if b / 64 = 2 then 2 ^ (b % 64) else 0)) 64)
    (q3_def : q3 = binWrap BinOp.add 128 (binWrap BinOp.add 128 t3 r3) (if b / 64 = 3 then 2 ^ (b % 64) else 0) % 2 ^ 64) :
    val4 q0 q1 q2 q3 = (L8 f + 2 ^ (s - 1)) / 2 ^ s ∧ q0 < 2 ^ 64 ∧ q1 < 2 ^ 64 ∧ q2 < 2 ^ 64 ∧ q3 < 2 ^ 64 := by
  -- the truncated quotient
  have hX256 : L8 f / 2 ^ s ≤ 2 ^ 256 - 2 := by
    have h1 : L8 f / 2 ^ s ≤ L8 f / 2 ^ 256 :=
      Nat.div_le_div_left (Nat.pow_le_pow_right (by decide) hs) (Nat.pow_pos (by decide))
    have h2 : L8 f / 2 ^ 256 ≤ (2 ^ 256 - 1) * (2 ^ 256 - 1) / 2 ^ 256 := Nat.div_le_div_right hL
    have h3 : (2 ^ 256 - 1) * (2 ^ 256 - 1) / 2 ^ 256 = 2 ^ 256 - 2 := by decide
    omega
  have hX : L8 f / 2 ^ s < 2 ^ 256 := by omega
  have hval : val4 r0 r1 r2 r3 = L8 f / 2 ^ s := by
    rw [r0_def, r1_def, r2_def, r3_def]
    simp only [Nat.pow_add, ← Nat.div_div_eq_div_mul, Nat.mul_zero, Nat.pow_zero, Nat.div_one, Nat.reduceMul]
    exact val4_windows _ hX
  have R0 : r0 < 2 ^ 64 := by rw [r0_def]; exact Nat.mod_lt _ (by decide)
  have R1 : r1 < 2 ^ 64 := by rw [r1_def]; exact Nat.mod_lt _ (by decide)
  have R2 : r2 < 2 ^ 64 := by rw [r2_def]; exact Nat.mod_lt _ (by decide)
  have R3 : r3 < 2 ^ 64 := by rw [r3_def]; exact Nat.mod_lt _ (by decide)
  have hflag : flag ≤ 1 := by rw [flag_def]; omega
  have hno : val4 r0 r1 r2 r3 + flag * 2 ^ 0 < 2 ^ 256 := by rw [hval]; omega
  obtain ⟨hq, Q0, Q1, Q2, Q3⟩ := cadd_arith r0 r1 r2 r3 0 flag b q0 t1 q1 t2 q2 t3 q3 R0 R1 R2 R3 (by decide) hflag hno
    (cadd_bit' 0 flag b (by decide) hflag b_def) q0_def t1_def q1_def t2_def q2_def t3_def q3_def
  refine ⟨?_, Q0, Q1, Q2, Q3⟩
  rw [hq, hval, flag_def, round_div _ _ (by omega)]
  omega

end MulShift
end SecpZkp
