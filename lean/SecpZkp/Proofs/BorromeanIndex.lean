import SecpZkp.Proofs.Borromean
/-
  `borromean_complete` with its consistency hypothesis spelled out index by index
  (`pubs[offset i + secidx[i]] = sec[i]•G`, …) instead of through the recursive predicate `Borromean.Consistent`.
-/
namespace SecpZkp
namespace Borromean

/-- flat index of the first entry of ring `i` -/
def offset (rsizes : List Nat) (i : Nat) : Nat := (rsizes.take i).sum

theorem consistent_of_index (pubs : List Pt) (s : List Nat) :
    ∀ (rsizes secidx k sec : List Nat) (count : Nat),
      secidx.length = rsizes.length → k.length = rsizes.length → sec.length = rsizes.length →
      count + rsizes.sum ≤ pubs.length → count + rsizes.sum ≤ s.length →
      (∀ i, i < rsizes.length →
        secidx.getD i 0 < rsizes.getD i 0 ∧ sec.getD i 0 < N ∧ k.getD i 0 < N ∧
        pubs[count + offset rsizes i + secidx.getD i 0]? = some (Pt.mulG (sec.getD i 0)) ∧
        ∀ j, j < rsizes.getD i 0 → j ≠ secidx.getD i 0 → s[count + offset rsizes i + j]? ≠ some 0) →
      Consistent pubs s count rsizes secidx k sec := by
  intro rsizes
  induction rsizes with
  | nil =>
    intro secidx k sec count h1 h2 h3 _ _ _
    simp only [List.length_nil, List.length_eq_zero_iff] at h1 h2 h3
    subst h1 h2 h3
    unfold Consistent; trivial
  | cons rs rest ih =>
    intro secidx k sec count h1 h2 h3 hp hs h
    match secidx, k, sec, h1, h2, h3 with
    | si :: secidx, ki :: k, xi :: sec, h1, h2, h3 =>
      simp only [List.length_cons, Nat.add_right_cancel_iff] at h1 h2 h3
      simp only [List.sum_cons] at hp hs
      have h0 := h 0 (by simp)
      simp only [List.getD_cons_zero, offset, List.take_zero, List.sum_nil, Nat.add_zero] at h0
      obtain ⟨a1, a2, a3, a4, a5⟩ := h0
      unfold Consistent
      refine ⟨a1, by omega, by omega, a2, a3, a4, a5, ?_⟩
      apply ih secidx k sec (count + rs) h1 h2 h3 (by omega) (by omega)
      intro i hi
      have hi' := h (i + 1) (by simp; omega)
      simp only [List.getD_cons_succ, offset, List.take_succ_cons, List.sum_cons] at hi'
      simp only [offset]
      have e : ∀ x, count + rs + (List.take i rest).sum + x = count + (rs + (List.take i rest).sum) + x := by
        intro x; omega
      simp only [e]
      exact hi'

/-- **Completeness of the Borromean ring signature, index form.**  `rsizes[i]` is the size of ring `i`, ring `i`
    occupies the flat positions `offset rsizes i ..< offset rsizes i + rsizes[i]` of `pubs` and `s`.  Hypotheses: the
    per-ring lists have one entry per ring, `pubs` and `s` have at least `Σ rsizes` entries, no public key is infinite,
    and for every ring `i`: `secidx[i] < rsizes[i]`, `sec[i] < N`, `k[i] < N`, the key at the secret position is
    `sec[i]•G`, and the forged scalars at all other positions of the ring are non-zero.  Then a signature returned by the
    signer is accepted by the verifier.  (List entries are read with `getD … 0`; all indices used are in range.) -/
theorem borromean_complete_index (m : Bytes) (rsizes secidx k sec s : List Nat) (pubs : List Pt) (e0 : Bytes)
    (sOut : List Nat)
    (hl1 : secidx.length = rsizes.length) (hl2 : k.length = rsizes.length) (hl3 : sec.length = rsizes.length)
    (hlp : rsizes.sum ≤ pubs.length) (hls : rsizes.sum ≤ s.length)
    (hP : ∀ p ∈ pubs, p ≠ .inf)
    (hring : ∀ i, i < rsizes.length →
      secidx.getD i 0 < rsizes.getD i 0 ∧ sec.getD i 0 < N ∧ k.getD i 0 < N ∧
      pubs[offset rsizes i + secidx.getD i 0]? = some (Pt.mulG (sec.getD i 0)) ∧
      ∀ j, j < rsizes.getD i 0 → j ≠ secidx.getD i 0 → s[offset rsizes i + j]? ≠ some 0)
    (hsign : sign s pubs k sec rsizes secidx m = some (e0, sOut)) :
    (verify e0 sOut pubs rsizes m).1 = true := by
  apply borromean_complete m rsizes secidx k sec s pubs e0 sOut hP _ hsign
  apply consistent_of_index pubs s rsizes secidx k sec 0 hl1 hl2 hl3 (by omega) (by omega)
  intro i hi
  simpa using hring i hi

end Borromean
end SecpZkp
