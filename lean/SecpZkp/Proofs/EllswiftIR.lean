import SecpZkp.Gen.F_ellswift
import SecpZkp.Proofs.GroupIR
import SecpZkp.Proofs.Ellswift
import SecpZkp.Proofs.SqrtIR
import Lean.Meta.StringLitProof
/-
  Helpers for `Props/C18_ir.lean`: the generated IR of the ElligatorSwift field-level functions
  (`Gen/F_ellswift.lean`) computes exactly what the hand-written model `Model/Ellswift.lean` says.

  * rewrite rules for the two newest statement kinds (`inv`, `isSquare`),
  * rules that push the continuation of a statement list through an `if` (so that a whole function with data-dependent
    branches and early returns is executed symbolically in one `simp` call, giving a decision tree of final states),
  * `Post o Q`: "the run `o` succeeded and the final state satisfies `Q`", with its rules for `some` / `if`,
  * normalisation of values: `canon` of a reduced value, arguments reduced mod `P`,
  * the model functions restated on UNREDUCED inputs (`…_raw`), in the shape the symbolic execution produces,
  * fast variable lookup (`feGetChain`, `intsGetChain`: simprocs walking a chain of `set`s in one step),
  * non-definitional versions of `cont_some` & co. and `expectFn` (the `EXPECT(…, 0)` sign extension): terms of the form
    `x - 2147483648` / `x % P` with a non-literal `x` must never be unfolded by `whnf` (unary recursion on the literal),
  * `SqrtSpec` / `SqrtSpec.elim`: stepping over an inlined `secp256k1_fe_sqrt` using `sqrt_fn` of `Proofs/SqrtIR.lean`,
  * tactics `fe_run [...]` (symbolic execution into a decision tree) and `fe_split1 hm` (one split of the tree, resolving
    the same condition in the model-side hypothesis `hm`).
-/
namespace SecpZkp
namespace FeIR
open MiniC

/-! ### The statements `inv` and `isSquare` -/

section stmts
variable (fe : FeEnv) (ints : Env) (r : Bool)

theorem execS_inv (d a : String) :
    execS ⟨fe, ints, r⟩ (.inv d a) = guard' ((fe.get a).mag ≤ 8)
      ⟨fe.set d ⟨Fe.inv (canon (fe.get a).val), 1⟩, ints, r⟩ := by rw [execS]; rfl

theorem execS_isSquare (x f : String) :
    execS ⟨fe, ints, r⟩ (.isSquare x f) = guard' ((fe.get f).mag ≤ 32)
      ⟨fe, ints.set x 0 (if Fe.isSquare (canon (fe.get f).val) = true then 1 else 0), r⟩ := by rw [execS]; rfl

end stmts

/-! ### Fast variable lookup

  `FeEnv.get_set` + `String.reduceEq` + `if_false` cost three `simp` steps per entry of the environment chain; for the
  functions with branches the chains are long and the lookups dominate.  The two simprocs below walk the chain
  `((fe.set x₁ v₁).set x₂ v₂ …).get y` on literal names in one step and return the proof
  (`get_set_ne … ▸ … ▸ get_set_same`; the inequalities of names by `Lean.Meta.mkStringLitNeProof`, as `String.reduceEq`). -/

theorem FeEnv.get_set_same (e : FeEnv) (x : String) (v : FeVal) : (e.set x v).get x = v := by
  rw [FeEnv.get_set, if_pos rfl]
theorem FeEnv.get_set_ne (e : FeEnv) (x y : String) (v : FeVal) (h : x ≠ y) : (e.set x v).get y = e.get y := by
  rw [FeEnv.get_set, if_neg h]
theorem ints_get_set_same (e : Env) (x : String) (v : ℕ) : (e.set x 0 v).get x 0 = v := by
  rw [ints_get_set, if_pos rfl]
theorem ints_get_set_ne (e : Env) (x y : String) (v : ℕ) (h : x ≠ y) : (e.set x 0 v).get y 0 = e.get y 0 := by
  rw [ints_get_set, if_neg h]

open Lean Meta in
/-- `((… .set x v …).get y)`: the value and a proof of the equation, or `none` if nothing can be resolved -/
partial def feGetWalk (env y : Lean.Expr) (ys : String) : MetaM (Option (Lean.Expr × Lean.Expr)) := do
  match_expr env with
  | FeEnv.set e x v =>
    let .lit (.strVal xs) := x | return none
    if xs == ys then
      return some (v, mkApp3 (mkConst ``FeEnv.get_set_same) e x v)
    else
      let hne ← mkStringLitNeProof xs ys
      let step := mkApp5 (mkConst ``FeEnv.get_set_ne) e x y v hne
      match ← feGetWalk e y ys with
      | some (res, pf) => return some (res, ← mkEqTrans step pf)
      | none => return some (mkApp2 (mkConst ``FeEnv.get) e y, step)
  | _ => return none

open Lean Meta in
partial def intsGetWalk (env y : Lean.Expr) (ys : String) : MetaM (Option (Lean.Expr × Lean.Expr)) := do
  match_expr env with
  | MiniC.Env.set e x i v =>
    let .lit (.strVal xs) := x | return none
    unless i.nat? == some 0 do return none
    if xs == ys then
      return some (v, mkApp3 (mkConst ``ints_get_set_same) e x v)
    else
      let hne ← mkStringLitNeProof xs ys
      let step := mkApp5 (mkConst ``ints_get_set_ne) e x y v hne
      match ← intsGetWalk e y ys with
      | some (res, pf) => return some (res, ← mkEqTrans step pf)
      | none => return some (mkApp3 (mkConst ``MiniC.Env.get) e y (mkNatLit 0), step)
  | _ => return none

simproc feGetChain (FeEnv.get _ _) := fun e => do
  let_expr FeEnv.get env y ← e | return .continue
  let .lit (.strVal ys) := y | return .continue
  match ← feGetWalk env y ys with
  | some (res, pf) => return .visit { expr := res, proof? := some pf }
  | none => return .continue

simproc intsGetChain (MiniC.Env.get _ _ _) := fun e => do
  let_expr MiniC.Env.get env y i ← e | return .continue
  let .lit (.strVal ys) := y | return .continue
  unless i.nat? == some 0 do return .continue
  match ← intsGetWalk env y ys with
  | some (res, pf) => return .visit { expr := res, proof? := some pf }
  | none => return .continue

/-! ### Non-definitional versions of three rules

  `cont_some`, `unscope_some`, `guard'_true` of `GroupIR.lean` are proved by `rfl`, so `simp` uses them WITHOUT recording
  a proof and the kernel re-checks e.g. `cont (some st) rest ≡ execL st rest` by unfolding.  When `rest` starts with an
  `ite` on `EXPECT(flag, 0)` (clang: `(flag ^ 2^31) - 2^31`) the kernel unfolds `execL` instead of `cont` and ends up in
  `Nat.sub _ 2147483648` on a non-literal: "deep recursion".  The versions below carry an explicit proof term. -/

theorem cont_some' (x : State) (rest : List Stmt) : cont (some x) rest = execL x rest := by
  cases x; rfl
theorem unscope_some' (r r' : Bool) (fe : FeEnv) (ints : Env) :
    unscope r (some ⟨fe, ints, r'⟩) = some ⟨fe, ints, r⟩ := by
  cases r <;> rfl
theorem guard'_true' (x : State) : guard' True x = some x := by
  cases x; rfl

/-! ### Branching: the continuation is pushed into both branches -/

theorem cont_ite (c : Prop) [Decidable c] (a b : Option State) (rest : List Stmt) :
    cont (if c then a else b) rest = if c then cont a rest else cont b rest := by
  by_cases h : c <;> simp [h]

/-- nested continuations (a stuck run inside a branch of an `ite`) are flattened -/
theorem cont_cont (o : Option State) (l1 l2 : List Stmt) : cont (cont o l1) l2 = cont o (l1 ++ l2) := by
  cases o with
  | none => rfl
  | some st => rw [cont_some', cont_some', execL_append]; rfl

theorem unscope_ite (r : Bool) (c : Prop) [Decidable c] (a b : Option State) :
    unscope r (if c then a else b) = if c then unscope r a else unscope r b := by
  by_cases h : c <;> simp [h]

/-- `EXPECT(flag, 0)` of the C sources: clang shows `__builtin_expect((long)(flag), 0)` as a sign extension
    `(flag ^ 2^31) - 2^31`; on a 0/1 flag it is the identity.  The subtraction is kept behind a definition: a term
    `x - 2147483648` with a non-literal `x` must never reach `whnf` (unary recursion on the literal). -/
def expectFn (x : ℕ) : ℕ := binIdeal .sub (binIdeal .xor x 2147483648) 2147483648

theorem evalEI_expect (ints : Env) (e : MiniC.Expr) :
    evalEI ints (.bin .sub 64 (.bin .xor 64 e (.lit 2147483648)) (.lit 2147483648)) = expectFn (evalEI ints e) := by
  cases e <;> rfl
theorem expectFn_one : expectFn 1 = 1 := by decide +kernel
theorem expectFn_zero : expectFn 0 = 0 := by decide +kernel
theorem expectFn_ite (c : Prop) [Decidable c] : expectFn (if c then 1 else 0) = if c then 1 else 0 := by
  by_cases h : c
  · simp only [if_pos h, expectFn_one]
  · simp only [if_neg h, expectFn_zero]

/-- "the run succeeded and the final state satisfies `Q`" -/
def Post (o : Option State) (Q : State → Prop) : Prop := ∃ st', o = some st' ∧ Q st'

theorem post_some (st : State) (Q : State → Prop) : Post (some st) Q = Q st := by
  unfold Post; simp

theorem post_ite (c : Prop) [Decidable c] (a b : Option State) (Q : State → Prop) :
    Post (if c then a else b) Q = if c then Post a Q else Post b Q := by
  by_cases h : c <;> simp [h]

theorem Post.elim {o : Option State} {Q : State → Prop} (h : Post o Q) : ∃ st', o = some st' ∧ Q st' := h

/-- a decision tree of propositions is proved leaf by leaf -/
theorem ite_intro {c : Prop} [Decidable c] {A B : Prop} (h1 : c → A) (h2 : ¬ c → B) : if c then A else B := by
  by_cases h : c
  · rw [if_pos h]; exact h1 h
  · rw [if_neg h]; exact h2 h

/-- one split of the decision tree in the goal; the same condition is resolved in the hypothesis `hm` (the model side).
    No `assumption`/`split_ifs` here: they compare DIFFERENT conditions up to unfolding, which on closed terms
    (`Fe.isSquare` of a literal expression) does not terminate within the recursion limit. -/
macro "fe_split1" hm:ident : tactic => `(tactic|
  (refine ite_intro (fun h => ?_) (fun h => ?_) <;>
   first
   | (simp only [if_pos h] at $hm:ident)
   | (simp only [if_neg h] at $hm:ident)
   | skip))

/-! ### Normalisation of values -/

theorem canon_def (v : ℕ) : canon v = v % P := rfl

theorem canon_of_lt {v : ℕ} (h : v < P) : canon v = v := Nat.mod_eq_of_lt h

theorem canon_add (a b : ℕ) : canon (Fe.add a b) = Fe.add a b := canon_of_lt (Fe.add_lt_P _ _)
theorem canon_mul (a b : ℕ) : canon (Fe.mul a b) = Fe.mul a b := canon_of_lt (Fe.mul_lt_P _ _)
theorem canon_sqr (a : ℕ) : canon (Fe.sqr a) = Fe.sqr a := canon_of_lt (Fe.sqr_lt_P _)
theorem canon_neg (a : ℕ) : canon (Fe.neg a) = Fe.neg a := canon_of_lt (Fe.neg_lt_P _)
theorem canon_inv (a : ℕ) : canon (Fe.inv a) = Fe.inv a := canon_of_lt (Fe.inv_lt_P _)
theorem canon_canon (a : ℕ) : canon (canon a) = canon a := canon_of_lt (Nat.mod_lt _ P_pos)
theorem canon_sqrtCand (a : ℕ) : canon (Fe.sqrtCand a) = Fe.sqrtCand a := canon_of_lt (Fe.sqrtCand_lt_P _)

end FeIR

namespace Fe

theorem sqr_mod (a : ℕ) : Fe.sqr (a % P) = Fe.sqr a := by
  unfold Fe.sqr; exact (Nat.mul_mod a a P).symm
theorem mul_mod_left (a b : ℕ) : Fe.mul (a % P) b = Fe.mul a b := by
  unfold Fe.mul; rw [Nat.mul_mod, Nat.mod_mod, ← Nat.mul_mod]
theorem mul_mod_right (a b : ℕ) : Fe.mul a (b % P) = Fe.mul a b := by
  unfold Fe.mul; rw [Nat.mul_mod, Nat.mod_mod, ← Nat.mul_mod]
theorem add_mod_left (a b : ℕ) : Fe.add (a % P) b = Fe.add a b := by
  unfold Fe.add; rw [Nat.add_mod, Nat.mod_mod, ← Nat.add_mod]
theorem add_mod_right (a b : ℕ) : Fe.add a (b % P) = Fe.add a b := by
  unfold Fe.add; rw [Nat.add_mod, Nat.mod_mod, ← Nat.add_mod]
theorem neg_mod (a : ℕ) : Fe.neg (a % P) = Fe.neg a := by
  unfold Fe.neg; rw [Nat.mod_mod]
theorem inv_mod (a : ℕ) : Fe.inv (a % P) = Fe.inv a := by
  unfold Fe.inv powMod; rw [Nat.mod_mod]
theorem sqrtCand_mod (a : ℕ) : Fe.sqrtCand (a % P) = Fe.sqrtCand a := by
  unfold Fe.sqrtCand powMod; rw [Nat.mod_mod]
theorem isSquare_mod (a : ℕ) : Fe.isSquare (a % P) = Fe.isSquare a := by
  unfold Fe.isSquare; rw [sqrtCand_mod, Nat.mod_mod]

end Fe

namespace FeIR
open MiniC

theorem canon_inv_canon (a : ℕ) : Fe.inv (canon a) = Fe.inv a := Fe.inv_mod a
theorem isSquare_canon (a : ℕ) : Fe.isSquare (canon a) = Fe.isSquare a := Fe.isSquare_mod a

/-! ### The constants of the generated code -/

theorem c1_lit : (60197513588986302554485582024885075108884032450952339817679072026166228089408 : ℕ) = Ellswift.c1 := by
  decide
theorem c2_lit : (55594575648329892869085402983802832744385952214688224221778511981742606582254 : ℕ) = Ellswift.c2 := by
  decide
theorem c3_lit : (55594575648329892869085402983802832744385952214688224221778511981742606582255 : ℕ) = Ellswift.c3 := by
  decide
theorem c4_lit : (60197513588986302554485582024885075108884032450952339817679072026166228089409 : ℕ) = Ellswift.c4 := by
  decide
theorem c1_lt_P : Ellswift.c1 < P := by decide
theorem c2_lt_P : Ellswift.c2 < P := by decide
theorem c3_lt_P : Ellswift.c3 < P := by decide
theorem c4_lt_P : Ellswift.c4 < P := by decide

/-! ### Protecting constants from evaluation

  When `u = 0` and `t = 0` every value in `xswiftec_frac_var` is a closed term (`Fe.sqr 1`, …, `Fe.isSquare (…)`).
  Unification of two DIFFERENT closed terms (e.g. two conditions of the decision tree) falls back to evaluation, which for
  `powMod`-based functions exceeds the recursion limit of the elaborator.  The value of a `.const` statement is therefore
  wrapped in the irreducible identity `lit`. -/

def lit (n : ℕ) : ℕ := n
theorem lit_eq (n : ℕ) : lit n = n := rfl
attribute [irreducible] lit

theorem execS_const' (fe : FeEnv) (ints : MiniC.Env) (r : Bool) (d : String) (n : ℕ) :
    execS ⟨fe, ints, r⟩ (.const d n) = guard' (n < P) ⟨fe.set d ⟨lit n, 1⟩, ints, r⟩ := by
  simp only [execS_const, lit_eq]

theorem lit_c1 : lit Ellswift.c1 = Ellswift.c1 := lit_eq _
theorem lit_c2 : lit Ellswift.c2 = Ellswift.c2 := lit_eq _
theorem lit_c3 : lit Ellswift.c3 = Ellswift.c3 := lit_eq _
theorem lit_c4 : lit Ellswift.c4 = Ellswift.c4 := lit_eq _

/-! ### The model on unreduced inputs -/

theorem fracCore_mod (u1 s g p : ℕ) : Ellswift.fracCore (u1 % P) s g p = Ellswift.fracCore u1 s g p := by
  unfold Ellswift.fracCore; simp only [Fe.sqr_mod, Fe.mul_mod_right]

/-- `xswiftecFracVar` on unreduced inputs, in the shape of the C code: the inputs are only compared with zero after
    normalisation (`canon`), and otherwise used as they are -/
theorem xswiftecFracVar_raw (u t : ℕ) : Ellswift.xswiftecFracVar u t =
    (let u1 := if canon u = 0 then lit 1 else u
     let s := if canon t = 0 then lit 1 else Fe.sqr t
     let g := Fe.add (Fe.mul (Fe.sqr u1) u1) 7
     if Fe.add g s = 0 then Ellswift.fracCore u1 (Fe.mul s 4) g (Fe.add g (Fe.mul s 4))
     else Ellswift.fracCore u1 s g (Fe.add g s)) := by
  rw [Ellswift.xswiftecFracVar_eq]
  by_cases hu : u % P = 0 <;>
    simp only [lit_eq, canon_def, hu, if_true, if_false, Fe.sqr_mod, Fe.mul_mod_right, fracCore_mod] <;> rfl

/-- `xswiftecInvVar`: the inputs are normalised first (`fe_normalize_var` in the C code) -/
theorem xswiftecInvVar_raw (x u c : ℕ) : Ellswift.xswiftecInvVar x u c =
    (match (if c &&& 2 = 0 then Ellswift.invA (canon x) (canon u) else Ellswift.invB (canon x) (canon u) c) with
     | none => none | some (s, v) => some (Ellswift.invTail (canon u) c s v)) :=
  Ellswift.xswiftecInvVar_eq x u c

/-! ### Integer expressions of the generated code -/

theorem binIdeal_and (a b : ℕ) : binIdeal .and a b = a &&& b := rfl
theorem binIdeal_ne (a b : ℕ) : binIdeal .ne a b = if a ≠ b then 1 else 0 := rfl
theorem binIdeal_eq (a b : ℕ) : binIdeal .eq a b = if a = b then 1 else 0 := rfl
/-- `a && b` on flags -/
theorem ite_ite_zero (a b : Prop) [Decidable a] [Decidable b] :
    (if a then (if b then 1 else 0) else 0 : ℕ) = if a ∧ b then 1 else 0 := by
  by_cases ha : a <;> by_cases hb : b <;> simp [ha, hb]
/-- `a || b` on flags -/
theorem ite_one_ite (a b : Prop) [Decidable a] [Decidable b] :
    (if a then 1 else (if b then 1 else 0) : ℕ) = if a ∨ b then 1 else 0 := by
  by_cases ha : a <;> by_cases hb : b <;> simp [ha, hb]
/-- `c & 1` as a C truth value -/
theorem and_one_ne_zero (c : ℕ) : (¬ c &&& 1 = 0) = (c &&& 1 = 1) := by
  rw [Nat.and_one_is_mod]; apply propext; omega

/-! ### Stepping over an inlined `secp256k1_fe_sqrt`

  The addition chain (530 statements) is not executed symbolically: `Proofs/SqrtIR.lean` has a verified exponent
  checker and `sqrt_fn`, generic in the variable names.  `SqrtSpec` is the contract `sqrt_fn` establishes. -/

/-- the contract of an inlined `secp256k1_fe_sqrt(R, A)` (statement list `S` = body of the `.scope`): from every state
    with `A` of magnitude ≤ 8 the run succeeds and ends with `returned = true` (the callee's `return`), `R` holds
    `⟨sqrtCand a, 1⟩`, `SR` the flag, and the variables `keepFe` / `keepInt` are unchanged -/
def SqrtSpec (S : List Stmt) (R A SR : String) (keepFe keepInt : List String) : Prop :=
  ∀ (fe : FeEnv) (ints : MiniC.Env), (fe.get A).mag ≤ 8 →
    ∃ fe' ints', execL ⟨fe, ints, false⟩ S = some ⟨fe', ints', true⟩ ∧
      fe'.get R = ⟨Fe.sqrtCand (fe.get A).val, 1⟩ ∧
      ints'.get SR 0 = sqrtFlag (fe.get A).val ∧
      (∀ n ∈ keepFe, fe'.get n = fe.get n) ∧ (∀ x ∈ keepInt, ints'.get x 0 = ints.get x 0)

/-- `sqrt_fn`: a chain accepted by the checker, followed by the tail of `fe_sqrt`, satisfies the contract -/
theorem sqrtSpec_of_ok (chain : List Stmt) (R T NA A Z FR SR : String) (keepFe keepInt : List String)
    (hok : sqrtOK chain R T NA A Z FR SR keepFe keepInt = true) :
    SqrtSpec (chain ++ sqrtTail R T NA A Z FR SR) R A SR keepFe keepInt :=
  fun fe ints hA => sqrt_fn chain R T NA A Z FR SR keepFe keepInt hok fe ints hA

/-- a run that is stuck at an inlined `fe_sqrt` (anywhere inside the term: `hE` names it) continues from a state about
    which only the contract is known -/
theorem SqrtSpec.elim {S : List Stmt} {R A SR : String} {keepFe keepInt : List String}
    (h : SqrtSpec S R A SR keepFe keepInt) {fe : FeEnv} {ints : MiniC.Env} {o : Option State} {G : Prop}
    (hE : execL ⟨fe, ints, false⟩ S = o) (hA : (fe.get A).mag ≤ 8)
    (hk : ∀ fe' ints', o = some ⟨fe', ints', true⟩ → fe'.get R = ⟨Fe.sqrtCand (fe.get A).val, 1⟩ →
      ints'.get SR 0 = sqrtFlag (fe.get A).val →
      (∀ n ∈ keepFe, fe'.get n = fe.get n) → (∀ x ∈ keepInt, ints'.get x 0 = ints.get x 0) → G) : G := by
  obtain ⟨fe', ints', he, hr, hf, hkf, hki⟩ := h fe ints hA
  exact hk fe' ints' (hE ▸ he) hr hf hkf hki

/-- sequential composition with an intermediate assertion -/
theorem post_append {st : State} {l1 l2 : List Stmt} {Q : State → Prop} (Q1 : State → Prop)
    (h1 : Post (execL st l1) Q1) (h2 : ∀ st1, Q1 st1 → Post (execL st1 l2) Q) : Post (execL st (l1 ++ l2)) Q := by
  obtain ⟨st1, e1, q1⟩ := h1
  obtain ⟨st2, e2, q2⟩ := h2 st1 q1
  exact ⟨st2, by rw [execL_append, e1]; exact e2, q2⟩

theorem Fe.mul_comm' (a b : ℕ) : Fe.mul a b = Fe.mul b a := by unfold Fe.mul; rw [Nat.mul_comm]

/-- the C comparison `fe_is_odd(y) != odd` (on 0/1 integers) against the model's `Fe.isOdd y != odd` (on `Bool`) -/
theorem isOdd_bne_iff (a b : ℕ) : (Fe.isOdd a != Fe.isOdd b) = true ↔ ¬ a % 2 = b % 2 := by
  unfold Fe.isOdd
  rcases Nat.mod_two_eq_zero_or_one a with ha | ha <;> rcases Nat.mod_two_eq_zero_or_one b with hb | hb <;>
    simp [ha, hb]

/-- symbolic execution of a whole function, branches included: the result is a decision tree of final states.
    Same rule set as `fe_exec`, with the fast lookups, the rules for `inv` / `isSquare`, the push of continuations into
    branches, and value normalisation. -/
macro "fe_run" "[" ts:Lean.Parser.Tactic.simpLemma,* "]" : tactic =>
  `(tactic| simp (maxSteps := 10000000) (disch := omega) only [execL_step, execL_nil, execL_returned, cont_some',
      unscope_some', guard'_pos, guard'_true',
      execS_set, execS_setInt, execS_clear, execS_const', lit_c1, lit_c2, lit_c3, lit_c4, execS_mul, execS_sqr, execS_add, execS_neg, execS_mulInt,
      execS_addInt, execS_half, execS_norm, execS_cmov, execS_isZero, execS_isOdd, execS_equal, execS_int,
      execS_ite, execS_scope, execS_ret, execS_inv, execS_isSquare,
      ↓feGetChain, ↓intsGetChain, MiniC.evalEI, if_false, if_true,
      ite_one_zero_eq_zero, ite_one_zero_eq_one, ite_one_zero_ne_zero, ite_one_zero_le_one,
      ne_eq, not_true_eq_false, not_false_eq_true, one_ne_zero, zero_ne_one, eq_self, true_and, and_true,
      OfNat.ofNat_ne_zero, Nat.succ_ne_zero, reduceCtorEq, not_not,
      cont_ite, cont_cont, List.cons_append, List.nil_append, unscope_ite, ↓evalEI_expect, expectFn_ite, post_some, post_ite,
      canon_add, canon_mul, canon_sqr, canon_neg, canon_inv, canon_inv_canon, isSquare_canon, canon_sqrtCand,
      c1_lit, c2_lit, c3_lit, c4_lit, c1_lt_P, c2_lt_P, c3_lt_P, c4_lt_P, one_lt_P, $ts,*])

end FeIR
end SecpZkp
