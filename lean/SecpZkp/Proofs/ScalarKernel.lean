/-
  Helpers for `Props/C05_scalar.lean`: the 4×64-limb scalar kernels (`Gen/K_scalar4x64.lean`, generated from
  `src/scalar_4x64_impl.h`, portable C path) under the WRAP-AROUND semantics `execL`.

  The scalar code uses the add-with-carry idiom on purpose (`c0 += tl; th += (c0 < tl); c1 += th; c2 += (c1 < th)`),
  so the interval checker of `Proofs/MiniC.lean` (which certifies the ABSENCE of wrap-around) rejects it; here the
  wrap-around semantics is executed symbolically and the idiom is proved correct.

  Contents
  * `ev`, `runR`, `runF`            : value of an expression / final memory and return value of a program; rewrite rules
                                      for straight-line programs; `runR_append`, `runR_take_drop` (cutting a program)
  * tactics `steps n [hs]`          : execute the next `n` statements symbolically (values inlined)
            `vstep x [hs]`          : execute one statement and NAME its value (`x`, `x_def : x = …`)
            `reads [hs]`            : resolve reads of the final memory
            `acc3`/`acc2`/`accx`    : one accumulator step (below)
  * `binWrap_*`, `carry_eq`, `sext_lt`, `sext_01`, `nc0_eq`, `nc1_eq` : the operators of the IR as arithmetic
  * `muladd_spec`, `muladd_fast_spec`, `sumadd_spec`, `sumadd_fast_spec`, `extract_bound` : the C macros on the
                                      192-bit accumulator `c0 + c1·2^64 + c2·2^128`, with bound tracking
  * `val4`, `val8`, `val4_mul`      : limb vectors
  * `check_overflow_spec`           : `secp256k1_scalar_check_overflow` is the test `r ≥ N`
  * `red_stage3_arith`, `final_reduce_arith`, `red_combine`, `add_chain_arith`, `nonzero_mask`, `negate_arith`,
    `half_or`, `half_mask`, `half_arith`, `half_spec`, `cadd_inc`, `cadd_bit'`, `cadd_arith` : the pure arithmetic
                                      (Nat, `omega`) behind the individual functions

  No axioms beyond propext / Classical.choice / Quot.sound.
-/
import SecpZkp.Proofs.MiniC
import SecpZkp.Proofs.FieldKernel
import SecpZkp.Model.Field

namespace SecpZkp
namespace ScalarKernel
open MiniC MiniC.Bounds

/-! ### value of an expression, final memory and return value of a program -/

/-- the value of `e` in `env` under the wrap-around semantics -/
def ev (env : Env) (e : Expr) : Nat := (evalE env e).1

theorem ev_lit (env : Env) (n : Nat) : ev env (.lit n) = n := rfl
theorem ev_var (env : Env) (x : String) : ev env (.var x) = env.get x 0 := rfl
theorem ev_idx (env : Env) (a : String) (i : Expr) : ev env (.idx a i) = env.get a (ev env i) := by
  simp [ev, evalE]
theorem ev_bin (env : Env) (op : BinOp) (w : Nat) (a b : Expr) :
    ev env (.bin op w a b) = binWrap op w (ev env a) (ev env b) := by
  simp [ev, evalE]
theorem ev_cast (env : Env) (w : Nat) (e : Expr) : ev env (.cast w e) = ev env e % 2 ^ w := by
  simp [ev, evalE]
theorem ev_not (env : Env) (w : Nat) (e : Expr) : ev env (.not w e) = (2 ^ w - 1) - ev env e % 2 ^ w := by
  simp [ev, evalE]
theorem ev_neg (env : Env) (w : Nat) (e : Expr) : ev env (.neg w e) = (2 ^ w - ev env e % 2 ^ w) % 2 ^ w := by
  simp [ev, evalE]

/-- final memory and return value of `prog` started in `env` (wrap-around semantics) -/
def runR (env : Env) (prog : List Stmt) : Env × Option Nat := ((execL env prog).env, (execL env prog).ret)

theorem runR_nil (env : Env) : runR env [] = (env, none) := by simp [runR, execL]

theorem runR_assign (env : Env) (x : String) (e : Expr) (rest : List Stmt) :
    runR env (.assign x e :: rest) = runR (env.set x 0 (ev env e)) rest := by
  simp only [runR, execL_cons_assign, ev]

theorem runR_store (env : Env) (a : String) (i e : Expr) (rest : List Stmt) :
    runR env (.store a i e :: rest) = runR (env.set a (ev env i) (ev env e)) rest := by
  simp only [runR, execL_cons_store, ev]

theorem runR_ret (env : Env) (e : Expr) (rest : List Stmt) :
    runR env (.ret e :: rest) = (env, some (ev env e)) := by
  simp only [runR, execL_cons_ret, ev]

theorem runR_cons (env : Env) (s : Stmt) (rest : List Stmt) :
    runR env (s :: rest) =
      match (execS env s).ret with
      | some v => ((execS env s).env, some v)
      | none => runR (execS env s).env rest := by
  simp only [runR]
  rw [execL]
  split <;> rename_i h <;> simp [h]

/-- running `A ++ B` when `A` does not return: run `A`, then `B` in the memory it leaves -/
theorem runR_append : ∀ (A B : List Stmt) (env : Env), (runR env A).2 = none →
    runR env (A ++ B) = runR (runR env A).1 B
  | [], B, env, _ => by simp [runR_nil]
  | s :: A, B, env, h => by
    rw [List.cons_append, runR_cons]
    rw [runR_cons] at h ⊢
    split
    · rename_i v hv; rw [hv] at h; simp at h
    · rename_i hv
      rw [hv] at h
      exact runR_append A B _ h

theorem runR_take_drop (n : Nat) (prog : List Stmt) (env : Env) (h : (runR env (prog.take n)).2 = none) :
    runR env prog = runR (runR env (prog.take n)).1 (prog.drop n) := by
  conv => lhs; rw [← List.take_append_drop n prog]
  exact runR_append _ _ _ h

/-- `runR` with a step budget for symbolic execution in chunks: `runF n` is `runR`; the rewrite rules below
    consume one unit per statement and stop at `0` -/
def runF (_ : Nat) (env : Env) (prog : List Stmt) : Env × Option Nat := runR env prog

theorem runR_eq_runF (n : Nat) (env : Env) (prog : List Stmt) : runR env prog = runF n env prog := rfl
theorem runF_zero (env : Env) (prog : List Stmt) : runF 0 env prog = runR env prog := rfl
theorem runF_assign (n : Nat) (env : Env) (x : String) (e : Expr) (rest : List Stmt) :
    runF (n + 1) env (.assign x e :: rest) = runF n (env.set x 0 (ev env e)) rest := runR_assign ..
theorem runF_store (n : Nat) (env : Env) (a : String) (i e : Expr) (rest : List Stmt) :
    runF (n + 1) env (.store a i e :: rest) = runF n (env.set a (ev env i) (ev env e)) rest := runR_store ..
theorem runF_ret (n : Nat) (env : Env) (e : Expr) (rest : List Stmt) :
    runF (n + 1) env (.ret e :: rest) = (env, some (ev env e)) := runR_ret ..
theorem runF_nil (n : Nat) (env : Env) : runF n env [] = (env, none) := runR_nil env

/-- execute the next `n` statements symbolically; the extra rewrite rules are typically the hypotheses naming
    the input cells (`env.get "a.d" 0 = a0`, …) -/
macro "steps " n:num " [" hs:Lean.Parser.Tactic.simpLemma,* "]" : tactic => `(tactic| (
  rw [runR_eq_runF $n]
  simp only [runF_assign, runF_store, runF_ret, runF_nil, runF_zero, ev_lit, ev_var, ev_idx, ev_bin, ev_cast,
    ev_not, ev_neg, Env.get_set_same, Env.get_set_other, ne_eq, Prod.mk.injEq, String.reduceEq, false_and,
    and_false, and_true, true_and, not_false_eq_true, not_true_eq_false, Nat.reduceEqDiff, $hs,*]))

theorem runR_assign_gen {P : Env × Option Nat → Prop} {env : Env} {x : String} {e : Expr} {rest : List Stmt}
    (h : ∀ v, v = ev env e → P (runR (env.set x 0 v) rest)) : P (runR env (.assign x e :: rest)) := by
  rw [runR_assign]; exact h _ rfl

theorem runR_store_gen {P : Env × Option Nat → Prop} {env : Env} {a : String} {i e : Expr} {rest : List Stmt}
    (h : ∀ v, v = ev env e → P (runR (env.set a (ev env i) v) rest)) : P (runR env (.store a i e :: rest)) := by
  rw [runR_store]; exact h _ rfl

/-- execute ONE assignment / store and give its value a name: the goal continues with the variable `x` in the
    memory, and `x_def : x = <value>` (reads resolved) is added to the context -/
macro "vstep " x:ident " [" hs:Lean.Parser.Tactic.simpLemma,* "]" : tactic => do
  let hx := Lean.mkIdentFrom x (x.getId.appendAfter "_def")
  `(tactic| (
    first | refine runR_assign_gen ?_ | refine runR_store_gen ?_
    intro $x $hx
    simp only [ev_lit, ev_var, ev_idx, ev_bin, ev_cast,
      ev_not, ev_neg, Env.get_set_same, Env.get_set_other, ne_eq, Prod.mk.injEq, String.reduceEq, false_and,
      and_false, and_true, true_and, not_false_eq_true, not_true_eq_false, Nat.reduceEqDiff, $hs,*] at $hx:ident ⊢))

/-! ### the wrap-around operators as arithmetic -/

theorem binWrap_add (w a b : Nat) : binWrap .add w a b = (a + b) % 2 ^ w := rfl
theorem binWrap_mul (w a b : Nat) : binWrap .mul w a b = (a * b) % 2 ^ w := rfl
theorem binWrap_shr (w a b : Nat) : binWrap .shr w a b = a / 2 ^ b := rfl
theorem binWrap_lt (w a b : Nat) : binWrap .lt w a b = if a < b then 1 else 0 := rfl
theorem binWrap_le (w a b : Nat) : binWrap .le w a b = if a ≤ b then 1 else 0 := rfl
theorem binWrap_eq (w a b : Nat) : binWrap .eq w a b = if a = b then 1 else 0 := rfl
theorem binWrap_and (w a b : Nat) : binWrap .and w a b = a &&& b := rfl
theorem binWrap_or (w a b : Nat) : binWrap .or w a b = a ||| b := rfl
theorem binWrap_xor (w a b : Nat) : binWrap .xor w a b = a ^^^ b := rfl
theorem binWrap_sub (w a b : Nat) : binWrap .sub w a b = (a + (2 ^ w - b % 2 ^ w)) % 2 ^ w := rfl
theorem binWrap_shl (w a b : Nat) : binWrap .shl w a b = (a * 2 ^ b) % 2 ^ w := rfl

/-- the add-with-carry idiom: after `s = x + y` (mod `2^64`), the test `s < y` is the carry -/
theorem carry_eq (x y : Nat) (hx : x < 2 ^ 64) (hy : y < 2 ^ 64) :
    (if (x + y) % 2 ^ 64 < y then 1 else 0) = (x + y) / 2 ^ 64 := by
  split <;> omega

/-- the conversion `int → uint64_t` of a comparison result, as clang spells the sign extension:
    `(x ^ 0x80000000) - 0x80000000` at width 64 -/
theorem sext_lt (x y : Nat) :
    binWrap .sub 64 (binWrap .xor 64 (binWrap .lt 64 x y) 2147483648) 2147483648 = binWrap .lt 64 x y := by
  simp only [binWrap]; split <;> rfl

/-- the same conversion for any value that is `0` or `1` -/
theorem sext_01 (x : Nat) (h : x ≤ 1) :
    binWrap .sub 64 (binWrap .xor 64 x 2147483648) 2147483648 = x := by
  have : x = 0 ∨ x = 1 := by omega
  rcases this with rfl | rfl <;> rfl

/-- `SECP256K1_N_C_0 = ~SECP256K1_N_0 + 1`, as the C code spells it -/
theorem nc0_eq : binWrap .add 64 (2 ^ 64 - 1 - 13822214165235122497 % 2 ^ 64) 1 = 4624529908474429119 := by
  decide

/-- `SECP256K1_N_C_1 = ~SECP256K1_N_1` -/
theorem nc1_eq : 2 ^ 64 - 1 - 13451932020343611451 % 2 ^ 64 = 4994812053365940164 := by decide

/-! ### the accumulator macros `muladd`, `muladd_fast`, `sumadd`, `sumadd_fast`, `extract`

The three variables `(c0, c1, c2)` are read as the accumulator `c0 + c1·2^64 + c2·2^128`.  Each lemma takes
the literal expansion of the C macro (in `binWrap` form, as produced by `steps`) and says: the new limbs are
again in range and the accumulator has grown by exactly the added term, PROVIDED the bound `B` known for the
accumulator leaves room (`hno`, a closed numeral inequality).  The new bound is returned. -/

local macro "TL(" a:term "," b:term ")" : term => `(binWrap BinOp.mul 128 $a $b % 2 ^ 64)
local macro "TH(" a:term "," b:term ")" : term =>
  `(binWrap BinOp.shr 128 (binWrap BinOp.mul 128 $a $b) 64 % 2 ^ 64)

theorem muladd_arith (M : Nat) (c0 c1 c2 p B Pb : Nat) (h0 : c0 < 2 ^ 64) (h1 : c1 < 2 ^ 64)
    (hp : p ≤ Pb) (hPb : Pb ≤ (2 ^ 64 - 1) * (2 ^ 64 - 1)) (hB : c0 + c1 * 2 ^ 64 + c2 * 2 ^ 128 ≤ B)
    (hno : B + Pb < 2 ^ 128 * M) :
    let c0' := (c0 + p % 2 ^ 128 % 2 ^ 64) % 2 ^ 64
    let th' := (p % 2 ^ 128 / 2 ^ 64 % 2 ^ 64 + if c0' < p % 2 ^ 128 % 2 ^ 64 then 1 else 0) % 2 ^ 64
    let c1' := (c1 + th') % 2 ^ 64
    let k := if c1' < th' then 1 else 0
    c2 + k < M ∧ c0' + c1' * 2 ^ 64 + (c2 + k) * 2 ^ 128 = c0 + c1 * 2 ^ 64 + c2 * 2 ^ 128 + p := by
  intro c0' th' c1' k
  have e0 : (if c0' < p % 2 ^ 128 % 2 ^ 64 then 1 else 0) = (c0 + p % 2 ^ 128 % 2 ^ 64) / 2 ^ 64 :=
    carry_eq c0 _ h0 (Nat.mod_lt _ (by decide))
  have e1 : k = (c1 + th') / 2 ^ 64 := carry_eq c1 th' h1 (Nat.mod_lt _ (by decide))
  simp only [c1', th', c0', e0] at e1 ⊢
  rw [e1]
  omega

/-- `muladd(a, b)` with a `w`-bit top limb `c2` (`w = 32` in `scalar_mul_512`, `64` in `scalar_reduce_512`) -/
theorem muladd_spec (w : Nat) (c0 c1 c2 a b amax bmax B : Nat) (h0 : c0 < 2 ^ 64) (h1 : c1 < 2 ^ 64)
    (ha : a ≤ amax) (hb : b ≤ bmax) (ham : amax ≤ 2 ^ 64 - 1) (hbm : bmax ≤ 2 ^ 64 - 1)
    (hB : c0 + c1 * 2 ^ 64 + c2 * 2 ^ 128 ≤ B) (hno : B + amax * bmax < 2 ^ 128 * 2 ^ w) :
    ∃ c0' c1' c2',
      binWrap .add 64 c0 TL(a, b) = c0' ∧
      binWrap .add 64 c1 (binWrap .add 64 TH(a, b) (binWrap .lt 64 c0' TL(a, b))) = c1' ∧
      binWrap .add w c2 (binWrap .lt 64 c1' (binWrap .add 64 TH(a, b) (binWrap .lt 64 c0' TL(a, b)))) = c2' ∧
      c0' < 2 ^ 64 ∧ c1' < 2 ^ 64 ∧ c2' < 2 ^ w ∧
      c0' + c1' * 2 ^ 64 + c2' * 2 ^ 128 = c0 + c1 * 2 ^ 64 + c2 * 2 ^ 128 + a * b ∧
      c0' + c1' * 2 ^ 64 + c2' * 2 ^ 128 ≤ B + amax * bmax := by
  have hp : a * b ≤ amax * bmax := Nat.mul_le_mul ha hb
  have := muladd_arith (2 ^ w) c0 c1 c2 (a * b) B (amax * bmax) h0 h1 hp (Nat.mul_le_mul ham hbm) hB hno
  dsimp only at this
  obtain ⟨hk, hE⟩ := this
  refine ⟨_, _, _, rfl, rfl, rfl, ?_⟩
  simp only [binWrap_add, binWrap_mul, binWrap_shr, binWrap_lt]
  rw [Nat.mod_eq_of_lt hk]
  exact ⟨Nat.mod_lt _ (by decide), Nat.mod_lt _ (by decide), hk, hE, by omega⟩

theorem muladd_fast_arith (c0 c1 p B Pb : Nat) (h0 : c0 < 2 ^ 64) (h1 : c1 < 2 ^ 64)
    (hp : p ≤ Pb) (hPb : Pb ≤ (2 ^ 64 - 1) * (2 ^ 64 - 1)) (hB : c0 + c1 * 2 ^ 64 + 0 * 2 ^ 128 ≤ B)
    (hno : B + Pb < 2 ^ 128) :
    let c0' := (c0 + p % 2 ^ 128 % 2 ^ 64) % 2 ^ 64
    let th' := (p % 2 ^ 128 / 2 ^ 64 % 2 ^ 64 + if c0' < p % 2 ^ 128 % 2 ^ 64 then 1 else 0) % 2 ^ 64
    let c1' := (c1 + th') % 2 ^ 64
    c0' + c1' * 2 ^ 64 + 0 * 2 ^ 128 = c0 + c1 * 2 ^ 64 + 0 * 2 ^ 128 + p := by
  intro c0' th' c1'
  have e0 : (if c0' < p % 2 ^ 128 % 2 ^ 64 then 1 else 0) = (c0 + p % 2 ^ 128 % 2 ^ 64) / 2 ^ 64 :=
    carry_eq c0 _ h0 (Nat.mod_lt _ (by decide))
  simp only [c1', th', c0', e0]
  omega

/-- `muladd_fast(a, b)`: `c2` (which is `0` at every use) is not touched; needs room in 128 bits -/
theorem muladd_fast_spec (c0 c1 a b amax bmax B : Nat) (h0 : c0 < 2 ^ 64) (h1 : c1 < 2 ^ 64)
    (ha : a ≤ amax) (hb : b ≤ bmax) (ham : amax ≤ 2 ^ 64 - 1) (hbm : bmax ≤ 2 ^ 64 - 1)
    (hB : c0 + c1 * 2 ^ 64 + 0 * 2 ^ 128 ≤ B) (hno : B + amax * bmax < 2 ^ 128) :
    ∃ c0' c1',
      binWrap .add 64 c0 TL(a, b) = c0' ∧
      binWrap .add 64 c1 (binWrap .add 64 TH(a, b) (binWrap .lt 64 c0' TL(a, b))) = c1' ∧
      c0' < 2 ^ 64 ∧ c1' < 2 ^ 64 ∧
      c0' + c1' * 2 ^ 64 + 0 * 2 ^ 128 = c0 + c1 * 2 ^ 64 + 0 * 2 ^ 128 + a * b ∧
      c0' + c1' * 2 ^ 64 + 0 * 2 ^ 128 ≤ B + amax * bmax := by
  have hp : a * b ≤ amax * bmax := Nat.mul_le_mul ha hb
  have hE := muladd_fast_arith c0 c1 (a * b) B (amax * bmax) h0 h1 hp (Nat.mul_le_mul ham hbm) hB hno
  dsimp only at hE
  refine ⟨_, _, rfl, rfl, ?_⟩
  simp only [binWrap_add, binWrap_mul, binWrap_shr, binWrap_lt]
  exact ⟨Nat.mod_lt _ (by decide), Nat.mod_lt _ (by decide), hE, by omega⟩

theorem sumadd_arith (c0 c1 c2 a B : Nat) (h0 : c0 < 2 ^ 64) (h1 : c1 < 2 ^ 64) (ha : a < 2 ^ 64)
    (hB : c0 + c1 * 2 ^ 64 + c2 * 2 ^ 128 ≤ B) (hno : B + (2 ^ 64 - 1) < 2 ^ 128 * 2 ^ 64) :
    let c0' := (c0 + a) % 2 ^ 64
    let over := if c0' < a then 1 else 0
    let c1' := (c1 + over) % 2 ^ 64
    let k := if c1' < over then 1 else 0
    c2 + k < 2 ^ 64 ∧ c0' + c1' * 2 ^ 64 + (c2 + k) * 2 ^ 128 = c0 + c1 * 2 ^ 64 + c2 * 2 ^ 128 + a := by
  intro c0' over c1' k
  have e0 : over = (c0 + a) / 2 ^ 64 := carry_eq c0 a h0 ha
  have e1 : k = (c1 + over) / 2 ^ 64 := carry_eq c1 over h1 (by rw [e0]; omega)
  simp only [c1', c0', e0] at e1 ⊢
  rw [e1]
  omega

/-- `sumadd(a)` (64-bit `c2`) -/
theorem sumadd_spec (c0 c1 c2 a B : Nat) (h0 : c0 < 2 ^ 64) (h1 : c1 < 2 ^ 64) (ha : a < 2 ^ 64)
    (hB : c0 + c1 * 2 ^ 64 + c2 * 2 ^ 128 ≤ B) (hno : B + (2 ^ 64 - 1) < 2 ^ 128 * 2 ^ 64) :
    ∃ c0' c1' c2',
      binWrap .add 64 c0 a = c0' ∧
      binWrap .add 64 c1 (binWrap .lt 64 c0' a) = c1' ∧
      binWrap .add 64 c2 (binWrap .lt 64 c1' (binWrap .lt 64 c0' a)) = c2' ∧
      c0' < 2 ^ 64 ∧ c1' < 2 ^ 64 ∧ c2' < 2 ^ 64 ∧
      c0' + c1' * 2 ^ 64 + c2' * 2 ^ 128 = c0 + c1 * 2 ^ 64 + c2 * 2 ^ 128 + a ∧
      c0' + c1' * 2 ^ 64 + c2' * 2 ^ 128 ≤ B + (2 ^ 64 - 1) := by
  have := sumadd_arith c0 c1 c2 a B h0 h1 ha hB hno
  dsimp only at this
  obtain ⟨hk, hE⟩ := this
  refine ⟨_, _, _, rfl, rfl, rfl, ?_⟩
  simp only [binWrap_add, binWrap_lt]
  rw [Nat.mod_eq_of_lt hk]
  exact ⟨Nat.mod_lt _ (by decide), Nat.mod_lt _ (by decide), hk, hE, by omega⟩

/-- `sumadd_fast(a)`: `c2 = 0` is not touched; needs room in 128 bits -/
theorem sumadd_fast_spec (c0 c1 a B : Nat) (h0 : c0 < 2 ^ 64) (h1 : c1 < 2 ^ 64) (ha : a < 2 ^ 64)
    (hB : c0 + c1 * 2 ^ 64 + 0 * 2 ^ 128 ≤ B) (hno : B + (2 ^ 64 - 1) < 2 ^ 128) :
    ∃ c0' c1',
      binWrap .add 64 c0 a = c0' ∧
      binWrap .add 64 c1 (binWrap .lt 64 c0' a) = c1' ∧
      c0' < 2 ^ 64 ∧ c1' < 2 ^ 64 ∧
      c0' + c1' * 2 ^ 64 + 0 * 2 ^ 128 = c0 + c1 * 2 ^ 64 + 0 * 2 ^ 128 + a ∧
      c0' + c1' * 2 ^ 64 + 0 * 2 ^ 128 ≤ B + (2 ^ 64 - 1) := by
  refine ⟨_, _, rfl, rfl, ?_⟩
  simp only [binWrap_add, binWrap_lt]
  rw [carry_eq c0 a h0 ha]
  refine ⟨Nat.mod_lt _ (by decide), Nat.mod_lt _ (by decide), ?_, ?_⟩ <;> omega

/-- `extract`: the accumulator is shifted right by one limb -/
theorem extract_bound {c0 c1 c2 B : Nat} (hB : c0 + c1 * 2 ^ 64 + c2 * 2 ^ 128 ≤ B) :
    c1 + c2 * 2 ^ 64 + 0 * 2 ^ 128 ≤ B / 2 ^ 64 := by omega

/-- a 128-bit accumulation that cannot wrap -/
theorem mod128_of_lt {x : Nat} (h : x < 2 ^ 128) : x % 2 ^ 128 = x := Nat.mod_eq_of_lt h

theorem lt64_of_lt32 {x : Nat} (h : x < 2 ^ 32) : x < 2 ^ 64 := by omega
theorem le_of_lt64 {x : Nat} (h : x < 2 ^ 64) : x ≤ 2 ^ 64 - 1 := by omega
theorem init_bound {x : Nat} (h : x < 2 ^ 64) : x + 0 * 2 ^ 64 + 0 * 2 ^ 128 ≤ 18446744073709551615 := by omega
theorem top_le {c B : Nat} (h : c + 0 * 2 ^ 64 + 0 * 2 ^ 128 ≤ B) : c ≤ B := by omega

/-! ### limb vectors -/

/-- the integer represented by four 64-bit limbs -/
def val4 (x0 x1 x2 x3 : Nat) : Nat := x0 + x1 * 2 ^ 64 + x2 * 2 ^ 128 + x3 * 2 ^ 192

/-- the integer represented by eight 64-bit limbs -/
def val8 (x0 x1 x2 x3 x4 x5 x6 x7 : Nat) : Nat :=
  x0 + x1 * 2 ^ 64 + x2 * 2 ^ 128 + x3 * 2 ^ 192 + x4 * 2 ^ 256 + x5 * 2 ^ 320 + x6 * 2 ^ 384 + x7 * 2 ^ 448

theorem val4_lt {x0 x1 x2 x3 : Nat} (h0 : x0 < 2 ^ 64) (h1 : x1 < 2 ^ 64) (h2 : x2 < 2 ^ 64) (h3 : x3 < 2 ^ 64) :
    val4 x0 x1 x2 x3 < 2 ^ 256 := by
  unfold val4; omega

set_option exponentiation.threshold 600 in
/-- school-book product of two 4-limb vectors -/
theorem val4_mul (a0 a1 a2 a3 b0 b1 b2 b3 : Nat) :
    val4 a0 a1 a2 a3 * val4 b0 b1 b2 b3 =
      a0 * b0 + (a0 * b1 + a1 * b0) * 2 ^ 64 + (a0 * b2 + a1 * b1 + a2 * b0) * 2 ^ 128 +
      (a0 * b3 + a1 * b2 + a2 * b1 + a3 * b0) * 2 ^ 192 + (a1 * b3 + a2 * b2 + a3 * b1) * 2 ^ 256 +
      (a2 * b3 + a3 * b2) * 2 ^ 320 + (a3 * b3) * 2 ^ 384 := by
  unfold val4; ring

/-! ### `secp256k1_scalar_check_overflow` -/

set_option maxRecDepth 10000 in
/-- The branch-free comparison of `(r3, r2, r1, r0)` against the limbs of the group order, exactly as the C
    code computes it (`yes`/`no` accumulation with `|`, `&`, `~` on 0/1 values), is the test `r ≥ N`. -/
theorem check_overflow_spec (r0 r1 r2 r3 : Nat) (h0 : r0 < 2 ^ 64) (h1 : r1 < 2 ^ 64) (h2 : r2 < 2 ^ 64)
    (h3 : r3 < 2 ^ 64) :
    binWrap BinOp.or 32
      (binWrap BinOp.or 32
        (binWrap BinOp.or 32 0
          (binWrap BinOp.and 32 (binWrap BinOp.lt 64 18446744073709551614 r2)
            (2 ^ 32 - 1 -
              binWrap BinOp.or 32 (binWrap BinOp.or 32 0 (binWrap BinOp.lt 64 r3 18446744073709551615))
                  (binWrap BinOp.lt 64 r2 18446744073709551614) %
                2 ^ 32)))
        (binWrap BinOp.and 32 (binWrap BinOp.lt 64 13451932020343611451 r1)
          (2 ^ 32 - 1 -
            binWrap BinOp.or 32
                (binWrap BinOp.or 32 (binWrap BinOp.or 32 0 (binWrap BinOp.lt 64 r3 18446744073709551615))
                  (binWrap BinOp.lt 64 r2 18446744073709551614))
                (binWrap BinOp.lt 64 r1 13451932020343611451) %
              2 ^ 32)))
      (binWrap BinOp.and 32 (binWrap BinOp.le 64 13822214165235122497 r0)
        (2 ^ 32 - 1 -
          binWrap BinOp.or 32
              (binWrap BinOp.or 32 (binWrap BinOp.or 32 0 (binWrap BinOp.lt 64 r3 18446744073709551615))
                (binWrap BinOp.lt 64 r2 18446744073709551614))
              (binWrap BinOp.lt 64 r1 13451932020343611451) %
            2 ^ 32)) = if N ≤ val4 r0 r1 r2 r3 then 1 else 0 := by
  by_cases hN : N ≤ val4 r0 r1 r2 r3 <;> simp only [hN, if_true, if_false] <;>
  simp only [binWrap_or, binWrap_and, binWrap_lt, binWrap_le] <;> simp only [N, val4] at hN <;>
  by_cases c3 : r3 < 18446744073709551615 <;> by_cases c2 : r2 < 18446744073709551614 <;>
  by_cases d2 : 18446744073709551614 < r2 <;> by_cases c1 : r1 < 13451932020343611451 <;>
  by_cases d1 : 13451932020343611451 < r1 <;> by_cases d0 : 13822214165235122497 ≤ r0 <;>
  simp only [c3, c2, d2, c1, d1, d0, if_true, if_false, Nat.reducePow, Nat.reduceSub, Nat.reduceMod,
    Nat.reduceAnd, Nat.reduceOr] <;> omega

/-- from `x = r + N·q` and `r < N` read off `r = x mod N` -/
theorem eq_mod_of_eq_add_mul {x r q m : Nat} (h : x = r + m * q) (hr : r < m) : r = x % m := by
  subst h; rw [Nat.add_mul_mod_self_left, Nat.mod_eq_of_lt hr]

/-! ### arithmetic of `secp256k1_scalar_reduce_512` and `secp256k1_scalar_reduce` -/

/-- stage 3 of `scalar_reduce_512` (`r = p[0..3] + p4·N_C` with 128-bit accumulation) -/
theorem red_stage3_arith (p0 p1 p2 p3 p4 r0 t1 r1 t2 r2 t3 r3 cc : Nat)
    (hp0 : p0 < 2 ^ 64) (hp1 : p1 < 2 ^ 64) (hp2 : p2 < 2 ^ 64) (hp3 : p3 < 2 ^ 64) (hp4 : p4 ≤ 3)
    (r0_def : r0 = (p0 + 4624529908474429119 * p4 % 2 ^ 128) % 2 ^ 128 % 2 ^ 64)
    (t1_def : t1 = (p0 + 4624529908474429119 * p4 % 2 ^ 128) % 2 ^ 128 / 2 ^ 64)
    (r1_def : r1 = ((t1 + p1) % 2 ^ 128 + 4994812053365940164 * p4 % 2 ^ 128) % 2 ^ 128 % 2 ^ 64)
    (t2_def : t2 = ((t1 + p1) % 2 ^ 128 + 4994812053365940164 * p4 % 2 ^ 128) % 2 ^ 128 / 2 ^ 64)
    (r2_def : r2 = ((t2 + p2) % 2 ^ 128 + p4) % 2 ^ 128 % 2 ^ 64)
    (t3_def : t3 = ((t2 + p2) % 2 ^ 128 + p4) % 2 ^ 128 / 2 ^ 64)
    (r3_def : r3 = (t3 + p3) % 2 ^ 128 % 2 ^ 64)
    (cc_def : cc = (t3 + p3) % 2 ^ 128 / 2 ^ 64 % 2 ^ 64) :
    r0 < 2 ^ 64 ∧ r1 < 2 ^ 64 ∧ r2 < 2 ^ 64 ∧ r3 < 2 ^ 64 ∧ cc ≤ 1 ∧
      r0 + r1 * 2 ^ 64 + r2 * 2 ^ 128 + r3 * 2 ^ 192 + cc * 2 ^ 256 =
        p0 + p1 * 2 ^ 64 + p2 * 2 ^ 128 + p3 * 2 ^ 192 +
          p4 * (4624529908474429119 + 4994812053365940164 * 2 ^ 64 + 2 ^ 128) := by
  simp (disch := omega) only [mod128_of_lt] at r0_def t1_def
  have ht1 : t1 < 2 ^ 64 := by omega
  simp (disch := omega) only [mod128_of_lt] at r1_def t2_def
  have ht2 : t2 < 2 ^ 64 := by omega
  simp (disch := omega) only [mod128_of_lt] at r2_def t3_def
  have ht3 : t3 < 2 ^ 64 := by omega
  simp (disch := omega) only [mod128_of_lt] at r3_def cc_def
  rw [Nat.mod_eq_of_lt (show (t3 + p3) / 2 ^ 64 < 2 ^ 64 by omega)] at cc_def
  omega

/-- `secp256k1_scalar_reduce(r, overflow)` with `overflow = c + check_overflow(r)`: one conditional subtraction
    of `N` brings `r + c·2^256 < 2N` into `[0, N)`. -/
theorem final_reduce_arith (r0 r1 r2 r3 cc yes ov q0 u1 q1 u2 q2 u3 q3 : Nat)
    (hr0 : r0 < 2 ^ 64) (hr1 : r1 < 2 ^ 64) (hr2 : r2 < 2 ^ 64) (hr3 : r3 < 2 ^ 64) (hcc : cc ≤ 1)
    (hlt : r0 + r1 * 2 ^ 64 + r2 * 2 ^ 128 + r3 * 2 ^ 192 + cc * 2 ^ 256 < 2 * N)
    (yes_def : yes = if N ≤ val4 r0 r1 r2 r3 then 1 else 0)
    (ov_def : ov = binWrap BinOp.add 64 cc (binWrap BinOp.sub 64 (binWrap BinOp.xor 64 yes 2147483648) 2147483648) % 2 ^ 32)
    (q0_def : q0 = (r0 + ov * 4624529908474429119 % 2 ^ 64) % 2 ^ 128 % 2 ^ 64)
    (u1_def : u1 = (r0 + ov * 4624529908474429119 % 2 ^ 64) % 2 ^ 128 / 2 ^ 64)
    (q1_def : q1 = ((u1 + r1) % 2 ^ 128 + ov * 4994812053365940164 % 2 ^ 64) % 2 ^ 128 % 2 ^ 64)
    (u2_def : u2 = ((u1 + r1) % 2 ^ 128 + ov * 4994812053365940164 % 2 ^ 64) % 2 ^ 128 / 2 ^ 64)
    (q2_def : q2 = ((u2 + r2) % 2 ^ 128 + ov * 1 % 2 ^ 32) % 2 ^ 128 % 2 ^ 64)
    (u3_def : u3 = ((u2 + r2) % 2 ^ 128 + ov * 1 % 2 ^ 32) % 2 ^ 128 / 2 ^ 64)
    (q3_def : q3 = (u3 + r3) % 2 ^ 128 % 2 ^ 64) :
    (N ≤ r0 + r1 * 2 ^ 64 + r2 * 2 ^ 128 + r3 * 2 ^ 192 + cc * 2 ^ 256 → ov = 1) ∧
    (r0 + r1 * 2 ^ 64 + r2 * 2 ^ 128 + r3 * 2 ^ 192 + cc * 2 ^ 256 < N → ov = 0) ∧
    r0 + r1 * 2 ^ 64 + r2 * 2 ^ 128 + r3 * 2 ^ 192 + cc * 2 ^ 256 =
      (q0 + q1 * 2 ^ 64 + q2 * 2 ^ 128 + q3 * 2 ^ 192) + N * ov ∧
      q0 + q1 * 2 ^ 64 + q2 * 2 ^ 128 + q3 * 2 ^ 192 < N ∧
      q0 < 2 ^ 64 ∧ q1 < 2 ^ 64 ∧ q2 < 2 ^ 64 ∧ q3 < 2 ^ 64 := by
  have hyes : yes ≤ 1 := by rw [yes_def]; split <;> omega
  rw [sext_01 yes hyes] at ov_def
  simp only [binWrap_add] at ov_def
  have hov : ov = cc + yes := by omega
  clear ov_def
  have hov' : ov ≤ 1 := by
    by_cases hN : N ≤ val4 r0 r1 r2 r3
    all_goals (first | rw [if_pos hN] at yes_def | rw [if_neg hN] at yes_def)
    all_goals simp only [N, val4] at hN hlt
    all_goals omega
  have e0 : ov * 4624529908474429119 % 2 ^ 64 = ov * 4624529908474429119 := Nat.mod_eq_of_lt (by omega)
  have e1 : ov * 4994812053365940164 % 2 ^ 64 = ov * 4994812053365940164 := Nat.mod_eq_of_lt (by omega)
  have e2 : ov * 1 % 2 ^ 32 = ov := by omega
  simp only [e0, e1, e2] at q0_def u1_def q1_def u2_def q2_def u3_def
  clear e0 e1 e2
  simp (disch := omega) only [mod128_of_lt] at q0_def u1_def
  have hu1 : u1 ≤ 1 := by omega
  simp (disch := omega) only [mod128_of_lt] at q1_def u2_def
  have hu2 : u2 ≤ 1 := by omega
  simp (disch := omega) only [mod128_of_lt] at q2_def u3_def
  have hu3 : u3 ≤ 1 := by omega
  simp (disch := omega) only [mod128_of_lt] at q3_def
  -- the carry chain as one identity, with the carry `u4` out of the top limb
  have hQ : q0 + q1 * 2 ^ 64 + q2 * 2 ^ 128 + q3 * 2 ^ 192 + (u3 + r3) / 2 ^ 64 * 2 ^ 256 =
      r0 + r1 * 2 ^ 64 + r2 * 2 ^ 128 + r3 * 2 ^ 192 +
        ov * (4624529908474429119 + 4994812053365940164 * 2 ^ 64 + 2 ^ 128) := by omega
  have hq0 : q0 < 2 ^ 64 := by omega
  have hq1 : q1 < 2 ^ 64 := by omega
  have hq2 : q2 < 2 ^ 64 := by omega
  have hq3 : q3 < 2 ^ 64 := by omega
  have hu4 : (u3 + r3) / 2 ^ 64 ≤ 1 := by omega
  generalize (u3 + r3) / 2 ^ 64 = u4 at hQ hu4
  clear q0_def u1_def q1_def u2_def q2_def u3_def q3_def hu1 hu2 hu3
  by_cases hN : N ≤ val4 r0 r1 r2 r3
  all_goals (first | rw [if_pos hN] at yes_def | rw [if_neg hN] at yes_def)
  all_goals simp only [N, val4] at hN hlt ⊢
  all_goals omega

/-- the three folding stages of `scalar_reduce_512` and the final conditional subtraction, combined:
    every stage replaces `2^256` by `N_C = 2^256 - N`, i.e. subtracts a multiple of `N` -/
theorem red_combine (l0 l1 l2 l3 l4 l5 l6 l7 m0 m1 m2 m3 m4 m5 m6 p0 p1 p2 p3 p4 r0 r1 r2 r3 cc q0 q1 q2 q3 ov : Nat)
    (hS1 : m0 + m1 * 2 ^ 64 + m2 * 2 ^ 128 + m3 * 2 ^ 192 + m4 * 2 ^ 256 + m5 * 2 ^ 320 + m6 * 2 ^ 384 =
      (l0 + l1 * 2 ^ 64 + l2 * 2 ^ 128 + l3 * 2 ^ 192) + (l4 + l5 * 2 ^ 64 + l6 * 2 ^ 128 + l7 * 2 ^ 192) *
        (4624529908474429119 + 4994812053365940164 * 2 ^ 64 + 2 ^ 128))
    (hS2 : p0 + p1 * 2 ^ 64 + p2 * 2 ^ 128 + p3 * 2 ^ 192 + p4 * 2 ^ 256 =
      (m0 + m1 * 2 ^ 64 + m2 * 2 ^ 128 + m3 * 2 ^ 192) + (m4 + m5 * 2 ^ 64 + m6 * 2 ^ 128) *
        (4624529908474429119 + 4994812053365940164 * 2 ^ 64 + 2 ^ 128))
    (hV : r0 + r1 * 2 ^ 64 + r2 * 2 ^ 128 + r3 * 2 ^ 192 + cc * 2 ^ 256 =
      p0 + p1 * 2 ^ 64 + p2 * 2 ^ 128 + p3 * 2 ^ 192 + p4 * (4624529908474429119 + 4994812053365940164 * 2 ^ 64 + 2 ^ 128))
    (hF : r0 + r1 * 2 ^ 64 + r2 * 2 ^ 128 + r3 * 2 ^ 192 + cc * 2 ^ 256 =
      (q0 + q1 * 2 ^ 64 + q2 * 2 ^ 128 + q3 * 2 ^ 192) + N * ov) :
    val8 l0 l1 l2 l3 l4 l5 l6 l7 = val4 q0 q1 q2 q3 +
      N * (val4 l4 l5 l6 l7 + (m4 + m5 * 2 ^ 64 + m6 * 2 ^ 128) + p4 + ov) := by
  simp only [N, val4, val8] at hF ⊢
  omega

/-- the limb-wise addition with a 128-bit accumulator (`secp256k1_scalar_add`, first half) -/
theorem add_chain_arith (a0 a1 a2 a3 b0 b1 b2 b3 r0 t1 r1 t2 r2 t3 r3 t4 cc : Nat)
    (A0 : a0 < 2 ^ 64) (A1 : a1 < 2 ^ 64) (A2 : a2 < 2 ^ 64) (A3 : a3 < 2 ^ 64)
    (B0 : b0 < 2 ^ 64) (B1 : b1 < 2 ^ 64) (B2 : b2 < 2 ^ 64) (B3 : b3 < 2 ^ 64)
    (r0_def : r0 = (a0 + b0) % 2 ^ 128 % 2 ^ 64)
    (t1_def : t1 = (a0 + b0) % 2 ^ 128 / 2 ^ 64)
    (r1_def : r1 = ((t1 + a1) % 2 ^ 128 + b1) % 2 ^ 128 % 2 ^ 64)
    (t2_def : t2 = ((t1 + a1) % 2 ^ 128 + b1) % 2 ^ 128 / 2 ^ 64)
    (r2_def : r2 = ((t2 + a2) % 2 ^ 128 + b2) % 2 ^ 128 % 2 ^ 64)
    (t3_def : t3 = ((t2 + a2) % 2 ^ 128 + b2) % 2 ^ 128 / 2 ^ 64)
    (r3_def : r3 = ((t3 + a3) % 2 ^ 128 + b3) % 2 ^ 128 % 2 ^ 64)
    (t4_def : t4 = ((t3 + a3) % 2 ^ 128 + b3) % 2 ^ 128 / 2 ^ 64)
    (cc_def : cc = t4 % 2 ^ 64) :
    r0 < 2 ^ 64 ∧ r1 < 2 ^ 64 ∧ r2 < 2 ^ 64 ∧ r3 < 2 ^ 64 ∧ cc ≤ 1 ∧
      r0 + r1 * 2 ^ 64 + r2 * 2 ^ 128 + r3 * 2 ^ 192 + cc * 2 ^ 256 =
        val4 a0 a1 a2 a3 + val4 b0 b1 b2 b3 := by
  simp only [val4]
  simp (disch := omega) only [mod128_of_lt] at r0_def t1_def
  have ht1 : t1 ≤ 1 := by omega
  simp (disch := omega) only [mod128_of_lt] at r1_def t2_def
  have ht2 : t2 ≤ 1 := by omega
  simp (disch := omega) only [mod128_of_lt] at r2_def t3_def
  have ht3 : t3 ≤ 1 := by omega
  simp (disch := omega) only [mod128_of_lt] at r3_def t4_def
  omega

/-! ### `secp256k1_scalar_negate` -/

/-- the mask `nonzero = 0xFFFFFFFFFFFFFFFF * (a != 0)` of `secp256k1_scalar_negate` -/
theorem nonzero_mask (a0 a1 a2 a3 z nz : Nat)
    (z_def : z = binWrap BinOp.eq 64 (binWrap BinOp.or 64 (binWrap BinOp.or 64 (binWrap BinOp.or 64 a0 a1) a2) a3) 0)
    (nz_def : nz = binWrap BinOp.mul 64 18446744073709551615
      (binWrap BinOp.sub 64 (binWrap BinOp.xor 64 (binWrap BinOp.eq 32 z 0) 2147483648) 2147483648)) :
    (a0 = 0 ∧ a1 = 0 ∧ a2 = 0 ∧ a3 = 0 ∧ nz = 0) ∨ (¬(a0 = 0 ∧ a1 = 0 ∧ a2 = 0 ∧ a3 = 0) ∧ nz = 2 ^ 64 - 1) := by
  simp only [binWrap_eq, binWrap_or] at z_def
  by_cases hz : a0 = 0 ∧ a1 = 0 ∧ a2 = 0 ∧ a3 = 0
  · left
    obtain ⟨rfl, rfl, rfl, rfl⟩ := hz
    subst z_def nz_def
    exact ⟨rfl, rfl, rfl, rfl, by decide⟩
  · right
    refine ⟨hz, ?_⟩
    have : ¬ (((a0 ||| a1) ||| a2) ||| a3 = 0) := by
      simp only [Nat.or_eq_zero_iff]; tauto
    rw [if_neg this] at z_def
    subst z_def nz_def
    decide

/-- `secp256k1_scalar_negate`: `r = ~a + N + 1` limb-wise with a 128-bit accumulator, masked by `nonzero` -/
theorem negate_arith (a0 a1 a2 a3 nz r0 t1 r1 t2 r2 t3 r3 : Nat)
    (A0 : a0 < 2 ^ 64) (A1 : a1 < 2 ^ 64) (A2 : a2 < 2 ^ 64) (A3 : a3 < 2 ^ 64) (hA : val4 a0 a1 a2 a3 < N)
    (hnz : (a0 = 0 ∧ a1 = 0 ∧ a2 = 0 ∧ a3 = 0 ∧ nz = 0) ∨ (¬(a0 = 0 ∧ a1 = 0 ∧ a2 = 0 ∧ a3 = 0) ∧ nz = 2 ^ 64 - 1))
    (r0_def : r0 = binWrap BinOp.and 64 (binWrap BinOp.add 128 (2 ^ 64 - 1 - a0 % 2 ^ 64) 13822214165235122498 % 2 ^ 64) nz)
    (t1_def : t1 = binWrap BinOp.shr 128 (binWrap BinOp.add 128 (2 ^ 64 - 1 - a0 % 2 ^ 64) 13822214165235122498) 64)
    (r1_def : r1 = binWrap BinOp.and 64
      (binWrap BinOp.add 128 (binWrap BinOp.add 128 t1 (2 ^ 64 - 1 - a1 % 2 ^ 64)) 13451932020343611451 % 2 ^ 64) nz)
    (t2_def : t2 = binWrap BinOp.shr 128
      (binWrap BinOp.add 128 (binWrap BinOp.add 128 t1 (2 ^ 64 - 1 - a1 % 2 ^ 64)) 13451932020343611451) 64)
    (r2_def : r2 = binWrap BinOp.and 64
      (binWrap BinOp.add 128 (binWrap BinOp.add 128 t2 (2 ^ 64 - 1 - a2 % 2 ^ 64)) 18446744073709551614 % 2 ^ 64) nz)
    (t3_def : t3 = binWrap BinOp.shr 128
      (binWrap BinOp.add 128 (binWrap BinOp.add 128 t2 (2 ^ 64 - 1 - a2 % 2 ^ 64)) 18446744073709551614) 64)
    (r3_def : r3 = binWrap BinOp.and 64
      (binWrap BinOp.add 128 (binWrap BinOp.add 128 t3 (2 ^ 64 - 1 - a3 % 2 ^ 64)) 18446744073709551615 % 2 ^ 64) nz) :
    val4 r0 r1 r2 r3 = (N - val4 a0 a1 a2 a3) % N ∧ r0 < 2 ^ 64 ∧ r1 < 2 ^ 64 ∧ r2 < 2 ^ 64 ∧ r3 < 2 ^ 64 := by
  simp only [binWrap_and, binWrap_add, binWrap_shr] at r0_def t1_def r1_def t2_def r2_def t3_def r3_def
  rcases hnz with ⟨rfl, rfl, rfl, rfl, rfl⟩ | ⟨hne, rfl⟩
  · simp only [Nat.and_zero] at r0_def r1_def r2_def r3_def
    subst r0_def r1_def r2_def r3_def
    refine ⟨?_, by decide, by decide, by decide, by decide⟩
    simp only [val4, N]; decide
  · simp only [Nat.and_two_pow_sub_one_eq_mod, Nat.mod_mod] at r0_def r1_def r2_def r3_def
    simp (disch := omega) only [mod128_of_lt] at r0_def t1_def
    have ht1 : t1 ≤ 1 := by omega
    simp (disch := omega) only [mod128_of_lt] at r1_def t2_def
    have ht2 : t2 ≤ 1 := by omega
    simp (disch := omega) only [mod128_of_lt] at r2_def t3_def
    have ht3 : t3 ≤ 1 := by omega
    simp (disch := omega) only [mod128_of_lt] at r3_def
    have hpos : 0 < val4 a0 a1 a2 a3 := by
      simp only [val4]; omega
    rw [Nat.mod_eq_of_lt (by omega)]
    simp only [val4, N] at hA hpos ⊢
    omega

/-! ### `secp256k1_scalar_half` -/

/-- `(x >> 1) | (y << 63)` at width 64: the low bit of `y` moves into the top bit of the shifted `x` -/
theorem half_or (x y : Nat) (hx : x < 2 ^ 64) :
    binWrap BinOp.or 64 (binWrap BinOp.shr 64 x 1) (binWrap BinOp.shl 64 y 63) = x / 2 + y % 2 * 2 ^ 63 := by
  simp only [binWrap_or, binWrap_shr, binWrap_shl]
  have e : y * 2 ^ 63 % 2 ^ 64 = y % 2 * 2 ^ 63 := by omega
  rw [e, Nat.or_comm, FieldKernel.shl_or _ _ 63 (by omega)]
  omega

/-- the mask `-(a0 & 1)` of `secp256k1_scalar_half` selects a 64-bit constant `K` iff `a0` is odd -/
theorem half_mask (a0 mask K : Nat) (hK : K < 2 ^ 64)
    (mask_def : mask = (2 ^ 64 - binWrap BinOp.and 64 a0 1 % 2 ^ 64) % 2 ^ 64) :
    binWrap BinOp.and 64 K mask = a0 % 2 * K := by
  simp only [binWrap_and, Nat.and_one_is_mod] at mask_def ⊢
  have h : a0 % 2 = 0 ∨ a0 % 2 = 1 := by omega
  rcases h with h | h
  · rw [h] at mask_def ⊢
    have : mask = 0 := by omega
    rw [this]; simp
  · rw [h] at mask_def ⊢
    have : mask = 2 ^ 64 - 1 := by omega
    rw [this, Nat.and_two_pow_sub_one_eq_mod, Nat.mod_eq_of_lt hK]; simp

/-- `secp256k1_scalar_half`: `r = (a >> 1) + (a odd ? (N+1)/2 : 0)`, limb-wise with a 128-bit accumulator -/
theorem half_arith (a0 a1 a2 a3 mask r0 t1 r1 t2 r2 t3 r3 : Nat)
    (A0 : a0 < 2 ^ 64) (A1 : a1 < 2 ^ 64) (A2 : a2 < 2 ^ 64) (A3 : a3 < 2 ^ 64) (hA : val4 a0 a1 a2 a3 < N)
    (mask_def : mask = (2 ^ 64 - binWrap BinOp.and 64 a0 1 % 2 ^ 64) % 2 ^ 64)
    (r0_def : r0 = binWrap BinOp.add 128 (binWrap BinOp.or 64 (binWrap BinOp.shr 64 a0 1) (binWrap BinOp.shl 64 a1 63))
        (binWrap BinOp.and 64 16134479119472337057 mask) % 2 ^ 64)
    (t1_def : t1 = binWrap BinOp.shr 128
      (binWrap BinOp.add 128 (binWrap BinOp.or 64 (binWrap BinOp.shr 64 a0 1) (binWrap BinOp.shl 64 a1 63))
        (binWrap BinOp.and 64 16134479119472337057 mask)) 64)
    (r1_def : r1 = binWrap BinOp.add 128
        (binWrap BinOp.add 128 t1 (binWrap BinOp.or 64 (binWrap BinOp.shr 64 a1 1) (binWrap BinOp.shl 64 a2 63)))
        (binWrap BinOp.and 64 6725966010171805725 mask) % 2 ^ 64)
    (t2_def : t2 = binWrap BinOp.shr 128
      (binWrap BinOp.add 128
        (binWrap BinOp.add 128 t1 (binWrap BinOp.or 64 (binWrap BinOp.shr 64 a1 1) (binWrap BinOp.shl 64 a2 63)))
        (binWrap BinOp.and 64 6725966010171805725 mask)) 64)
    (r2_def : r2 = binWrap BinOp.add 128
        (binWrap BinOp.add 128 t2 (binWrap BinOp.or 64 (binWrap BinOp.shr 64 a2 1) (binWrap BinOp.shl 64 a3 63)))
        (binWrap BinOp.and 64 18446744073709551615 mask) % 2 ^ 64)
    (t3_def : t3 = binWrap BinOp.shr 128
      (binWrap BinOp.add 128
        (binWrap BinOp.add 128 t2 (binWrap BinOp.or 64 (binWrap BinOp.shr 64 a2 1) (binWrap BinOp.shl 64 a3 63)))
        (binWrap BinOp.and 64 18446744073709551615 mask)) 64)
    (r3_def : r3 = binWrap BinOp.add 64 (binWrap BinOp.add 64 (t3 % 2 ^ 64) (binWrap BinOp.shr 64 a3 1))
      (binWrap BinOp.and 64 9223372036854775807 mask)) :
    val4 r0 r1 r2 r3 = val4 a0 a1 a2 a3 / 2 + val4 a0 a1 a2 a3 % 2 * ((N + 1) / 2) ∧
      r0 < 2 ^ 64 ∧ r1 < 2 ^ 64 ∧ r2 < 2 ^ 64 ∧ r3 < 2 ^ 64 := by
  simp only [half_or _ _ A0, half_or _ _ A1, half_or _ _ A2,
    half_mask a0 mask 16134479119472337057 (by decide) mask_def, half_mask a0 mask 6725966010171805725 (by decide) mask_def,
    half_mask a0 mask 18446744073709551615 (by decide) mask_def, half_mask a0 mask 9223372036854775807 (by decide) mask_def] at r0_def t1_def r1_def t2_def r2_def t3_def r3_def
  clear mask_def
  simp only [binWrap_add, binWrap_shr] at r0_def t1_def r1_def t2_def r2_def t3_def r3_def
  have hpar : val4 a0 a1 a2 a3 % 2 = a0 % 2 := by simp only [val4]; omega
  have hN : (N + 1) / 2 = 16134479119472337057 + 6725966010171805725 * 2 ^ 64 + 18446744073709551615 * 2 ^ 128 +
      9223372036854775807 * 2 ^ 192 := by decide
  rw [hpar, hN]
  simp only [val4, N] at hA ⊢
  simp (disch := omega) only [mod128_of_lt] at r0_def t1_def
  have ht1 : t1 ≤ 1 := by omega
  simp (disch := omega) only [mod128_of_lt] at r1_def t2_def
  have ht2 : t2 ≤ 1 := by omega
  simp (disch := omega) only [mod128_of_lt] at r2_def t3_def
  have ht3 : t3 ≤ 1 := by omega
  have h : a0 % 2 = 0 ∨ a0 % 2 = 1 := by omega
  rcases h with h | h <;> rw [h] at r0_def t1_def r1_def t2_def r2_def t3_def r3_def ⊢ <;> omega

/-- halving modulo the odd number `N`: `a/2 + (a mod 2)·(N+1)/2` is THE `r < N` with `2r ≡ a (mod N)` -/
theorem half_spec (a r : Nat) (ha : a < N) (hr : r = a / 2 + a % 2 * ((N + 1) / 2)) :
    2 * r % N = a ∧ r < N := by
  have hN : (N + 1) / 2 = 57896044618658097711785492504343953926418782139537452191302581570759080747169 := by decide
  rw [hN] at hr
  simp only [N] at ha ⊢
  omega

/-! ### `secp256k1_scalar_cadd_bit` -/

/-- the summand `((bit >> 6) == k) << (bit & 0x3F)` of `secp256k1_scalar_cadd_bit` for limb `k` -/
theorem cadd_inc (b k : Nat) :
    binWrap BinOp.shl 64
      (binWrap BinOp.sub 64 (binWrap BinOp.xor 64 (binWrap BinOp.eq 32 (binWrap BinOp.shr 32 b 6) k) 2147483648)
        2147483648)
      (binWrap BinOp.and 32 b 63) = if b / 64 = k then 2 ^ (b % 64) else 0 := by
  have h1 : binWrap BinOp.eq 32 (binWrap BinOp.shr 32 b 6) k ≤ 1 := by
    simp only [binWrap_eq]; split <;> omega
  rw [sext_01 _ h1]
  simp only [binWrap_eq, binWrap_shr, binWrap_and, binWrap_shl]
  have e63 : b &&& 63 = b % 64 := Nat.and_two_pow_sub_one_eq_mod b 6
  have e64 : b / 2 ^ 6 = b / 64 := rfl
  rw [e63, e64]
  have hs : 2 ^ (b % 64) < 2 ^ 64 := Nat.pow_lt_pow_right (by decide) (Nat.mod_lt _ (by decide))
  by_cases hk : b / 64 = k
  · rw [if_pos hk, if_pos hk, Nat.one_mul, Nat.mod_eq_of_lt hs]
  · rw [if_neg hk, if_neg hk, Nat.zero_mul]; rfl

/-- the adjusted bit index: unchanged if `flag = 1`, moved out of range (`+ 256`) if `flag = 0` -/
theorem cadd_bit' (bit flag b : Nat) (hbit : bit < 256) (hflag : flag ≤ 1)
    (b_def : b = binWrap BinOp.add 32 bit (binWrap BinOp.and 32 (binWrap BinOp.sub 32 flag 1) 256)) :
    (flag = 1 ∧ b = bit) ∨ (flag = 0 ∧ b = bit + 256) := by
  have h : flag = 0 ∨ flag = 1 := by omega
  rcases h with rfl | rfl
  · right
    have e : binWrap BinOp.and 32 (binWrap BinOp.sub 32 0 1) 256 = 256 := by decide
    rw [e, binWrap_add] at b_def
    exact ⟨rfl, by omega⟩
  · left
    have e : binWrap BinOp.and 32 (binWrap BinOp.sub 32 1 1) 256 = 0 := by decide
    rw [e, binWrap_add] at b_def
    exact ⟨rfl, by omega⟩

set_option maxHeartbeats 1000000 in
/-- `secp256k1_scalar_cadd_bit`: `r += flag·2^bit`, limb-wise with a 128-bit accumulator (no overflow out of
    256 bits by hypothesis) -/
theorem cadd_arith (x0 x1 x2 x3 bit flag b r0 t1 r1 t2 r2 t3 r3 : Nat)
    (X0 : x0 < 2 ^ 64) (X1 : x1 < 2 ^ 64) (X2 : x2 < 2 ^ 64) (X3 : x3 < 2 ^ 64)
    (hbit : bit < 256) (hflag : flag ≤ 1) (hno : val4 x0 x1 x2 x3 + flag * 2 ^ bit < 2 ^ 256)
    (hb : (flag = 1 ∧ b = bit) ∨ (flag = 0 ∧ b = bit + 256))
    (r0_def : r0 = binWrap BinOp.add 128 x0 (if b / 64 = 0 then 2 ^ (b % 64) else 0) % 2 ^ 64)
    (t1_def : t1 = binWrap BinOp.shr 128 (binWrap BinOp.add 128 x0 (if b / 64 = 0 then 2 ^ (b % 64) else 0)) 64)
    (r1_def : r1 = binWrap BinOp.add 128 (binWrap BinOp.add 128 t1 x1) (if b / 64 = 1 then 2 ^ (b % 64) else 0) % 2 ^ 64)
    (t2_def : t2 = binWrap BinOp.shr 128
      (binWrap BinOp.add 128 (binWrap BinOp.add 128 t1 x1) (if b / 64 = 1 then 2 ^ (b % 64) else 0)) 64)
    (r2_def : r2 = binWrap BinOp.add 128 (binWrap BinOp.add 128 t2 x2) (if b / 64 = 2 then 2 ^ (b % 64) else 0) % 2 ^ 64)
    (t3_def : t3 = binWrap BinOp.shr 128
      (binWrap BinOp.add 128 (binWrap BinOp.add 128 t2 x2) (if b / 64 = 2 then 2 ^ (b % 64) else 0)) 64)
    (r3_def : r3 = binWrap BinOp.add 128 (binWrap BinOp.add 128 t3 x3) (if b / 64 = 3 then 2 ^ (b % 64) else 0) % 2 ^ 64) :
    val4 r0 r1 r2 r3 = val4 x0 x1 x2 x3 + flag * 2 ^ bit ∧ r0 < 2 ^ 64 ∧ r1 < 2 ^ 64 ∧ r2 < 2 ^ 64 ∧ r3 < 2 ^ 64 := by
  simp only [binWrap_add, binWrap_shr] at r0_def t1_def r1_def t2_def r2_def t3_def r3_def
  rcases hb with ⟨rfl, rfl⟩ | ⟨rfl, rfl⟩
  · -- flag = 1
    have hk : b / 64 = 0 ∨ b / 64 = 1 ∨ b / 64 = 2 ∨ b / 64 = 3 := by omega
    have hs : 2 ^ (b % 64) < 2 ^ 64 := Nat.pow_lt_pow_right (by decide) (Nat.mod_lt _ (by decide))
    obtain ⟨s, hs_def⟩ : ∃ s, 2 ^ (b % 64) = s := ⟨_, rfl⟩
    simp only [hs_def] at hs r0_def t1_def r1_def t2_def r2_def t3_def r3_def
    have hpow : ∀ k, b / 64 = k → 2 ^ b = 2 ^ (64 * k) * s := by
      intro k hk; rw [← hs_def, ← hk, ← Nat.pow_add, Nat.div_add_mod]
    rcases hk with hk | hk | hk | hk <;> have hp := hpow _ hk <;> clear hpow hs_def <;>
      rw [hk] at r0_def t1_def r1_def t2_def r2_def t3_def r3_def <;>
      simp only [Nat.reduceEqDiff, if_true, if_false, Nat.reduceMul] at hp r0_def t1_def r1_def t2_def r2_def t3_def r3_def <;>
      rw [hp] at hno ⊢ <;> simp only [val4, Nat.one_mul] at hno ⊢ <;> omega
  · -- flag = 0
    have e : (bit + 256) / 64 = bit / 64 + 4 := by omega
    rw [e] at r0_def t1_def r1_def t2_def r2_def t3_def r3_def
    have n0 : ¬ (bit / 64 + 4 = 0) := by omega
    have n1 : ¬ (bit / 64 + 4 = 1) := by omega
    have n2 : ¬ (bit / 64 + 4 = 2) := by omega
    have n3 : ¬ (bit / 64 + 4 = 3) := by omega
    simp only [n0, n1, n2, n3, if_false] at r0_def t1_def r1_def t2_def r2_def t3_def r3_def
    simp only [val4, Nat.zero_mul] at hno ⊢
    omega

/-- one accumulator step with three new limbs: name the new limbs `n0 n1 n2`, rewrite the goal, keep the
    accumulator equation `nA` and the normalised bound `nB` -/
macro "acc3 " n:ident " := " t:term : tactic => do
  let mk (s : String) := Lean.mkIdentFrom n (n.getId.appendAfter s)
  `(tactic| (
    obtain ⟨$(mk "0"), $(mk "1"), $(mk "2"), e0, e1, e2, $(mk "lt0"), $(mk "lt1"), $(mk "lt2"), $(mk "A"),
      $(mk "B")⟩ := $t
    simp only [e0, e1, e2]
    clear e0 e1 e2
    conv at $(mk "B"):ident => rhs; simp only [Nat.reducePow, Nat.reduceSub, Nat.reduceMul, Nat.reduceAdd]))

/-- one accumulator step with two new limbs (`_fast` macros) -/
macro "acc2 " n:ident " := " t:term : tactic => do
  let mk (s : String) := Lean.mkIdentFrom n (n.getId.appendAfter s)
  `(tactic| (
    obtain ⟨$(mk "0"), $(mk "1"), e0, e1, $(mk "lt0"), $(mk "lt1"), $(mk "A"), $(mk "B")⟩ := $t
    simp only [e0, e1]
    clear e0 e1
    conv at $(mk "B"):ident => rhs; simp only [Nat.reducePow, Nat.reduceSub, Nat.reduceMul, Nat.reduceAdd]))

/-- resolve the reads of the final memory through the chain of writes -/
macro "reads " "[" hs:Lean.Parser.Tactic.simpLemma,* "]" : tactic => `(tactic| (
  simp only [runR_nil, Env.get_set_same, Env.get_set_other, ne_eq, Prod.mk.injEq, String.reduceEq, false_and,
    and_false, and_true, true_and, not_false_eq_true, not_true_eq_false, Nat.reduceEqDiff, $hs,*]))

/-- bound after `extract` -/
macro "accx " n:ident " := " t:term : tactic =>
  `(tactic| (
    have $n := extract_bound $t
    conv at $n:ident => rhs; simp only [Nat.reducePow, Nat.reduceDiv]))

end ScalarKernel
end SecpZkp
