import SecpZkp.Proofs.AlgIRLemmas
/-
  Symbolic execution of `AlgIR` programs, part 2: rewrite rules for the statement kinds added for the Schnorr and key
  functions (`scConst`, `scOfBytesSeckey`, `scCmov`, `ptAdd`, `ptNeg`, `ptLoad`, `feEqual`, `challenge`, `scope`) and the
  extended simp set `alg_run2 [extra lemmas]` (everything of `alg_run` plus these rules).
-/
namespace SecpZkp
namespace AlgIR
open MiniC

/-- leaving an inlined callee: the `returned` flag of the caller is restored -/
def unscope (r : Bool) (st : State) : State := { st with returned := r }

theorem unscope_mk (r r' : Bool) (sc fe : List (String × Nat)) (pt : List (String × Pt)) (bs : List (String × Bytes))
    (ints : Env) : unscope r ⟨sc, fe, pt, bs, ints, r'⟩ = ⟨sc, fe, pt, bs, ints, r⟩ := rfl
theorem unscope_ite (r : Bool) (c : Prop) [Decidable c] (a b : State) :
    unscope r (if c then a else b) = if c then unscope r a else unscope r b := by
  by_cases h : c <;> simp [h]
theorem unscope_optCase {α : Type} (r : Bool) (o : Option α) (f : α → State) (g : State) :
    unscope r (optCase o f g) = optCase o (fun q => unscope r (f q)) (unscope r g) := by cases o <;> rfl

theorem byGet_ite (c : Prop) [Decidable c] (a b : State) (x : String) :
    (if c then a else b).byGet x = if c then a.byGet x else b.byGet x := by
  by_cases h : c <;> simp [h]

section stmts
variable (sc fe : List (String × Nat)) (pt : List (String × Pt)) (bs : List (String × Bytes)) (ints : Env) (r : Bool)

theorem execS_scConst (d : String) (n : Nat) :
    execS ⟨sc, fe, pt, bs, ints, r⟩ (.scConst d n) = ⟨update sc d (n % N), fe, pt, bs, ints, r⟩ := rfl
theorem execS_scOfBytesSeckey (x d b : String) :
    execS ⟨sc, fe, pt, bs, ints, r⟩ (.scOfBytesSeckey x d b) =
      ⟨update sc d (Bytes.toNat (lookup (Bytes.zeros 32) bs b) % N), fe, pt, bs,
        ints.set x 0 (i32 (decide (Bytes.toNat (lookup (Bytes.zeros 32) bs b) < N ∧
          Bytes.toNat (lookup (Bytes.zeros 32) bs b) ≠ 0))), r⟩ := rfl
theorem execS_scCmov (d s : String) (flag : Expr) :
    execS ⟨sc, fe, pt, bs, ints, r⟩ (.scCmov d s flag) =
      if evalEI ints flag ≠ 0 then ⟨update sc d (lookup 0 sc s), fe, pt, bs, ints, r⟩
      else ⟨sc, fe, pt, bs, ints, r⟩ := rfl
theorem execS_ptAdd (d a b : String) :
    execS ⟨sc, fe, pt, bs, ints, r⟩ (.ptAdd d a b) =
      ⟨sc, fe, update pt d (Pt.add (lookup Pt.inf pt a) (lookup Pt.inf pt b)), bs, ints, r⟩ := rfl
theorem execS_ptNeg (d a : String) :
    execS ⟨sc, fe, pt, bs, ints, r⟩ (.ptNeg d a) = ⟨sc, fe, update pt d (Pt.neg (lookup Pt.inf pt a)), bs, ints, r⟩ := rfl
/-- `pubkey_load`: the all-zero object (`Pt.inf`) fails and counts one illegal-argument callback -/
theorem execS_ptLoad (x d src : String) :
    execS ⟨sc, fe, pt, bs, ints, r⟩ (.ptLoad x d src) =
      if lookup Pt.inf pt src = Pt.inf then
        ⟨sc, fe, pt, bs, (ints.set x 0 0).set "illegal" 0 (ints.get "illegal" 0 + 1), r⟩
      else ⟨sc, fe, update pt d (lookup Pt.inf pt src), bs, ints.set x 0 1, r⟩ := by
  rw [execS.eq_def]
  simp only [ptGet_mk]
  generalize lookup Pt.inf pt src = q
  cases q with
  | inf => simp only [if_true]
  | aff a b => simp only [reduceCtorEq, if_false]
theorem execS_feEqual (x a b : String) :
    execS ⟨sc, fe, pt, bs, ints, r⟩ (.feEqual x a b) =
      ⟨sc, fe, pt, bs, ints.set x 0 (i32 (decide (feGetL fe pt a % P = feGetL fe pt b % P))), r⟩ := rfl
theorem execS_challenge (e r32 msg pk32 : String) :
    execS ⟨sc, fe, pt, bs, ints, r⟩ (.challenge e r32 msg pk32) =
      ⟨update sc e (Schnorr.challenge (lookup (Bytes.zeros 32) bs r32) (lookup [] bs msg)
        (lookup (Bytes.zeros 32) bs pk32)), fe, pt, bs, ints, r⟩ := rfl
theorem execS_scope (body : List Stmt) :
    execS ⟨sc, fe, pt, bs, ints, r⟩ (.scope body) = unscope r (execL ⟨sc, fe, pt, bs, ints, r⟩ body) := rfl

end stmts

/-- the rewrite rules of the symbolic execution, all statement kinds -/
macro "alg_run2" "[" ls:Lean.Parser.Tactic.simpLemma,* "]" : tactic => `(tactic|
  alg_run [execS_scConst, execS_scOfBytesSeckey, execS_scCmov, execS_ptAdd, execS_ptNeg, execS_ptLoad, execS_feEqual,
    execS_challenge, execS_scope, unscope_mk, unscope_ite, unscope_optCase, $ls,*])

end AlgIR
end SecpZkp
