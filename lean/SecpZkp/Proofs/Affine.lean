import Mathlib.AlgebraicGeometry.EllipticCurve.Affine.Point
import SecpZkp.Proofs.Field
import SecpZkp.Model.Curve
/-
  The affine chord-and-tangent law `Pt.add` / `Pt.neg` / `Pt.dbl` of `Model/Curve.lean` refines the
  group law of Mathlib's `WeierstrassCurve.Affine.Point` for `y² = x³ + 7` over `ZMod P`.
  Commutativity / associativity are pulled back through the injective map `toPoint`.
-/
namespace SecpZkp

/-- The curve `y² = x³ + 7` over `ZMod P`. -/
def W : WeierstrassCurve.Affine (ZMod P) := ⟨0, 0, 0, 0, 7⟩

@[simp] theorem W_a₁ : W.a₁ = 0 := rfl
@[simp] theorem W_a₂ : W.a₂ = 0 := rfl
@[simp] theorem W_a₃ : W.a₃ = 0 := rfl
@[simp] theorem W_a₄ : W.a₄ = 0 := rfl
@[simp] theorem W_a₆ : W.a₆ = 7 := rfl

theorem W_equation_iff (x y : ZMod P) : W.Equation x y ↔ y * y = x * x * x + 7 := by
  rw [WeierstrassCurve.Affine.equation_iff]
  simp only [W_a₁, W_a₂, W_a₃, W_a₄, W_a₆, zero_mul, add_zero]
  constructor <;> intro h <;> linear_combination h

theorem W_negY (x y : ZMod P) : W.negY x y = -y := by
  simp [WeierstrassCurve.Affine.negY]

section PrimeP
variable [Fact (Nat.Prime P)]

theorem cast_ofNat_ne_zero {n : ℕ} (h0 : n % P ≠ 0) : ((n : ℕ) : ZMod P) ≠ 0 := by
  rw [Ne, Fe.cast_eq_zero_iff]; exact h0

theorem zmodP_two_ne_zero : (2 : ZMod P) ≠ 0 := by
  have := cast_ofNat_ne_zero (n := 2) (by decide); simpa using this
theorem zmodP_three_ne_zero : (3 : ZMod P) ≠ 0 := by
  have := cast_ofNat_ne_zero (n := 3) (by decide); simpa using this
theorem zmodP_seven_ne_zero : (7 : ZMod P) ≠ 0 := by
  have := cast_ofNat_ne_zero (n := 7) (by decide); simpa using this

/-- Every point of the curve equation is nonsingular (the curve is smooth). -/
theorem W_nonsingular_iff (x y : ZMod P) : W.Nonsingular x y ↔ W.Equation x y := by
  rw [WeierstrassCurve.Affine.nonsingular_iff]
  refine ⟨fun h => h.1, fun h => ⟨h, ?_⟩⟩
  simp only [W_a₁, W_a₂, W_a₃, W_a₄, zero_mul, mul_zero, add_zero, sub_zero]
  by_contra hc
  push Not at hc
  obtain ⟨hx, hy⟩ := hc
  have hy0 : y = 0 := by
    have : 2 * y = 0 := by linear_combination hy
    exact (mul_eq_zero.1 this).resolve_left zmodP_two_ne_zero
  have hx0 : x = 0 := by
    have h3 : 3 * x ^ 2 = 0 := hx.symm
    have := (mul_eq_zero.1 h3).resolve_left zmodP_three_ne_zero
    exact pow_eq_zero_iff (two_ne_zero) |>.1 this
  rw [W_equation_iff, hx0, hy0] at h
  exact zmodP_seven_ne_zero (by linear_combination -h)

/-! ### Coordinate formulas -/

theorem addX_formula {x1 x2 : ZMod P} (y1 y2 : ZMod P) (hx : x1 ≠ x2) :
    W.addX x1 x2 (W.slope x1 x2 y1 y2) =
      (y2 - y1) * (x2 - x1)⁻¹ * ((y2 - y1) * (x2 - x1)⁻¹) - x1 - x2 := by
  have h1 : x1 - x2 ≠ 0 := sub_ne_zero.2 hx
  have h2 : x2 - x1 ≠ 0 := sub_ne_zero.2 (Ne.symm hx)
  rw [WeierstrassCurve.Affine.slope_of_X_ne hx]
  simp only [WeierstrassCurve.Affine.addX, W_a₁, W_a₂, zero_mul, add_zero, sub_zero]
  field_simp
  ring

theorem addY_formula {x1 x2 : ZMod P} (y1 y2 : ZMod P) (hx : x1 ≠ x2) :
    W.addY x1 x2 y1 (W.slope x1 x2 y1 y2) =
      (y2 - y1) * (x2 - x1)⁻¹ *
        (x1 - ((y2 - y1) * (x2 - x1)⁻¹ * ((y2 - y1) * (x2 - x1)⁻¹) - x1 - x2)) - y1 := by
  have h1 : x1 - x2 ≠ 0 := sub_ne_zero.2 hx
  have h2 : x2 - x1 ≠ 0 := sub_ne_zero.2 (Ne.symm hx)
  rw [WeierstrassCurve.Affine.slope_of_X_ne hx]
  simp only [WeierstrassCurve.Affine.addY, WeierstrassCurve.Affine.negAddY,
    WeierstrassCurve.Affine.negY, WeierstrassCurve.Affine.addX, W_a₁, W_a₂, W_a₃, zero_mul,
    add_zero, sub_zero]
  field_simp
  ring

theorem dblX_formula (x y : ZMod P) (hy : y ≠ 0) :
    W.addX x x (W.slope x x y y) =
      3 * (x * x) * (2 * y)⁻¹ * (3 * (x * x) * (2 * y)⁻¹) - 2 * x := by
  have h2 : (2 : ZMod P) ≠ 0 := zmodP_two_ne_zero
  have hne : y ≠ W.negY x y := by
    rw [W_negY]; intro h
    have : 2 * y = 0 := by linear_combination h
    exact hy ((mul_eq_zero.1 this).resolve_left h2)
  rw [WeierstrassCurve.Affine.slope_of_Y_ne rfl hne]
  simp only [WeierstrassCurve.Affine.addX, WeierstrassCurve.Affine.negY, W_a₁, W_a₂, W_a₃, W_a₄,
    zero_mul, mul_zero, add_zero, sub_zero]
  rw [div_eq_mul_inv]
  ring

theorem dblY_formula (x y : ZMod P) (hy : y ≠ 0) :
    W.addY x x y (W.slope x x y y) =
      3 * (x * x) * (2 * y)⁻¹ *
        (x - (3 * (x * x) * (2 * y)⁻¹ * (3 * (x * x) * (2 * y)⁻¹) - 2 * x)) - y := by
  have h2 : (2 : ZMod P) ≠ 0 := zmodP_two_ne_zero
  have hne : y ≠ W.negY x y := by
    rw [W_negY]; intro h
    have : 2 * y = 0 := by linear_combination h
    exact hy ((mul_eq_zero.1 this).resolve_left h2)
  rw [WeierstrassCurve.Affine.slope_of_Y_ne rfl hne]
  simp only [WeierstrassCurve.Affine.addY, WeierstrassCurve.Affine.negAddY,
    WeierstrassCurve.Affine.addX, WeierstrassCurve.Affine.negY, W_a₁, W_a₂, W_a₃, W_a₄,
    zero_mul, mul_zero, add_zero, sub_zero]
  rw [div_eq_mul_inv]
  ring

/-! ### Validity in terms of the curve equation -/

theorem onCurveXY_iff (x y : ℕ) :
    Pt.onCurveXY x y = true ↔ x < P ∧ y < P ∧ W.Equation (x : ZMod P) (y : ZMod P) := by
  unfold Pt.onCurveXY
  simp only [Bool.and_eq_true, decide_eq_true_eq, beq_iff_eq, and_assoc]
  refine and_congr_right fun _ => and_congr_right fun _ => ?_
  rw [W_equation_iff, ← Fe.cast_eq_iff (Fe.sqr_lt_P y) (Fe.add_lt_P _ _)]
  simp only [Fe.cast_sqr, Fe.cast_add, Fe.cast_mul, Nat.cast_ofNat]

theorem valid_aff_iff (x y : ℕ) :
    (Pt.aff x y).valid = true ↔ x < P ∧ y < P ∧ W.Nonsingular (x : ZMod P) (y : ZMod P) := by
  rw [W_nonsingular_iff]; exact onCurveXY_iff x y

/-- canonical coordinates whose casts satisfy the curve equation form a valid point -/
theorem valid_of_cast {x y : ℕ} {X Y : ZMod P} (hx : x < P) (hy : y < P) (hX : (x : ZMod P) = X)
    (hY : (y : ZMod P) = Y) (h : W.Nonsingular X Y) : (Pt.aff x y).valid = true := by
  subst hX hY; exact (valid_aff_iff x y).2 ⟨hx, hy, h⟩

/-! ### The map to Mathlib's point group -/

open Classical in
/-- The Mathlib point of a model point (`0` for coordinates that are not on the curve). -/
noncomputable def toPoint : Pt → W.Point
  | .inf => 0
  | .aff x y =>
      if h : W.Nonsingular (x : ZMod P) (y : ZMod P) then .some _ _ h else 0

@[simp] theorem toPoint_inf : toPoint .inf = 0 := rfl

theorem toPoint_aff_eq {x y : ℕ} {X Y : ZMod P} (hX : (x : ZMod P) = X) (hY : (y : ZMod P) = Y)
    (h : W.Nonsingular X Y) : toPoint (.aff x y) = .some X Y h := by
  subst hX hY; exact dif_pos h

theorem toPoint_aff {x y : ℕ} (h : W.Nonsingular (x : ZMod P) (y : ZMod P)) :
    toPoint (.aff x y) = .some _ _ h := dif_pos h

/-- `toPoint` is injective on valid points (valid points are in canonical form). -/
theorem toPoint_injective {p q : Pt} (hp : p.valid = true) (hq : q.valid = true)
    (h : toPoint p = toPoint q) : p = q := by
  cases p with
  | inf =>
    cases q with
    | inf => rfl
    | aff x y =>
      obtain ⟨_, _, hn⟩ := (valid_aff_iff x y).1 hq
      rw [toPoint_aff hn] at h
      exact absurd h.symm (WeierstrassCurve.Affine.Point.some_ne_zero hn)
  | aff x y =>
    obtain ⟨hx, hy, hn⟩ := (valid_aff_iff x y).1 hp
    cases q with
    | inf =>
      rw [toPoint_aff hn] at h
      exact absurd h (WeierstrassCurve.Affine.Point.some_ne_zero hn)
    | aff x' y' =>
      obtain ⟨hx', hy', hn'⟩ := (valid_aff_iff x' y').1 hq
      rw [toPoint_aff hn, toPoint_aff hn'] at h
      injection h with h1 h2
      rw [Fe.eq_of_cast_eq hx hx' h1, Fe.eq_of_cast_eq hy hy' h2]

theorem toPoint_eq_zero_iff {p : Pt} (hp : p.valid = true) : toPoint p = 0 ↔ p = .inf :=
  ⟨fun h => toPoint_injective hp rfl (by rw [h, toPoint_inf]), fun h => by rw [h, toPoint_inf]⟩

/-! ### Negation -/

theorem neg_refines (p : Pt) (hp : p.valid = true) :
    (Pt.neg p).valid = true ∧ toPoint (Pt.neg p) = -toPoint p := by
  cases p with
  | inf => exact ⟨rfl, by simp [Pt.neg]⟩
  | aff x y =>
    obtain ⟨hx, hy, hn⟩ := (valid_aff_iff x y).1 hp
    have hn' : W.Nonsingular (x : ZMod P) (W.negY (x : ZMod P) (y : ZMod P)) :=
      (WeierstrassCurve.Affine.nonsingular_neg ..).2 hn
    have hY : ((Fe.neg y : ℕ) : ZMod P) = W.negY (x : ZMod P) (y : ZMod P) := by
      rw [W_negY, Fe.cast_neg]
    refine ⟨valid_of_cast hx (Fe.neg_lt_P y) rfl hY hn', ?_⟩
    rw [Pt.neg, toPoint_aff_eq rfl hY hn', toPoint_aff hn,
      WeierstrassCurve.Affine.Point.neg_some]

/-! ### Doubling -/

theorem dbl_refines (p : Pt) (hp : p.valid = true) :
    (Pt.dbl p).valid = true ∧ toPoint (Pt.dbl p) = toPoint p + toPoint p := by
  cases p with
  | inf => exact ⟨rfl, by simp [Pt.dbl]⟩
  | aff x y =>
    obtain ⟨hx, hy, hn⟩ := (valid_aff_iff x y).1 hp
    simp only [Pt.dbl]
    split
    · next h0 =>
      have hy0 : (y : ZMod P) = 0 := (Fe.cast_eq_zero_iff y).2 h0
      refine ⟨rfl, ?_⟩
      rw [toPoint_aff hn, toPoint_inf,
        WeierstrassCurve.Affine.Point.add_self_of_Y_eq (by rw [W_negY, hy0, neg_zero])]
    · next h0 =>
      have hy0 : (y : ZMod P) ≠ 0 := fun h => h0 ((Fe.cast_eq_zero_iff y).1 h)
      have hne : (y : ZMod P) ≠ W.negY (x : ZMod P) (y : ZMod P) := by
        rw [W_negY]; intro h
        have : 2 * (y : ZMod P) = 0 := by linear_combination h
        exact hy0 ((mul_eq_zero.1 this).resolve_left zmodP_two_ne_zero)
      have hsum := WeierstrassCurve.Affine.Point.add_self_of_Y_ne (h₁ := hn) hne
      have hns := WeierstrassCurve.Affine.nonsingular_add hn hn (fun hxy => hne hxy.right)
      have hX : ((Fe.sub (Fe.sqr (Fe.mul (Fe.mul 3 (Fe.sqr x)) (Fe.inv (Fe.mul 2 y))))
          (Fe.mul 2 x) : ℕ) : ZMod P) =
          W.addX (x : ZMod P) x (W.slope (x : ZMod P) x y y) := by
        rw [dblX_formula _ _ hy0]
        simp only [Fe.cast_sub, Fe.cast_sqr, Fe.cast_mul, Fe.cast_inv, Nat.cast_ofNat]
      have hY : ((Fe.sub (Fe.mul (Fe.mul (Fe.mul 3 (Fe.sqr x)) (Fe.inv (Fe.mul 2 y)))
          (Fe.sub x (Fe.sub (Fe.sqr (Fe.mul (Fe.mul 3 (Fe.sqr x)) (Fe.inv (Fe.mul 2 y))))
          (Fe.mul 2 x)))) y : ℕ) : ZMod P) =
          W.addY (x : ZMod P) x y (W.slope (x : ZMod P) x y y) := by
        rw [dblY_formula _ _ hy0]
        simp only [Fe.cast_sub, Fe.cast_sqr, Fe.cast_mul, Fe.cast_inv, Nat.cast_ofNat]
      refine ⟨valid_of_cast (Fe.sub_lt_P _ _) (Fe.sub_lt_P _ _) hX hY hns, ?_⟩
      rw [toPoint_aff_eq hX hY hns, toPoint_aff hn, hsum]

/-! ### Addition -/

theorem add_refines (p q : Pt) (hp : p.valid = true) (hq : q.valid = true) :
    (Pt.add p q).valid = true ∧ toPoint (Pt.add p q) = toPoint p + toPoint q := by
  cases p with
  | inf => exact ⟨by simpa [Pt.add] using hq, by simp [Pt.add]⟩
  | aff x1 y1 =>
  cases q with
  | inf => exact ⟨by simpa [Pt.add] using hp, by simp [Pt.add]⟩
  | aff x2 y2 =>
    obtain ⟨hx1, hy1, hn1⟩ := (valid_aff_iff x1 y1).1 hp
    obtain ⟨hx2, hy2, hn2⟩ := (valid_aff_iff x2 y2).1 hq
    simp only [Pt.add]
    split
    · next hxe =>
      have hxc : (x1 : ZMod P) = x2 := by rw [hxe]
      split
      · next hys =>
        have hyc : (y1 : ZMod P) = W.negY (x2 : ZMod P) (y2 : ZMod P) := by
          rw [W_negY]
          have : ((y1 + y2 : ℕ) : ZMod P) = 0 := (Fe.cast_eq_zero_iff _).2 hys
          rw [Nat.cast_add] at this
          linear_combination this
        refine ⟨rfl, ?_⟩
        rw [toPoint_aff hn1, toPoint_aff hn2, toPoint_inf,
          WeierstrassCurve.Affine.Point.add_of_Y_eq hxc hyc]
      · next hys =>
        have hyc : (y1 : ZMod P) ≠ W.negY (x2 : ZMod P) (y2 : ZMod P) := by
          rw [W_negY]; intro h
          apply hys
          rw [← Fe.cast_eq_zero_iff, Nat.cast_add]
          linear_combination h
        have hye : y1 = y2 := Fe.eq_of_cast_eq hy1 hy2
          (WeierstrassCurve.Affine.Y_eq_of_Y_ne hn1.1 hn2.1 hxc hyc)
        have := dbl_refines (.aff x1 y1) hp
        refine ⟨this.1, ?_⟩
        rw [this.2, ← hxe, ← hye]
    · next hxe =>
      have hxc : (x1 : ZMod P) ≠ x2 := fun h => hxe (Fe.eq_of_cast_eq hx1 hx2 h)
      have hsum := WeierstrassCurve.Affine.Point.add_of_X_ne (h₁ := hn1) (h₂ := hn2) hxc
      have hns := WeierstrassCurve.Affine.nonsingular_add hn1 hn2 (fun hxy => hxc hxy.left)
      have hX : ((Fe.sub (Fe.sub (Fe.sqr (Fe.mul (Fe.sub y2 y1) (Fe.inv (Fe.sub x2 x1)))) x1) x2
          : ℕ) : ZMod P) =
          W.addX (x1 : ZMod P) x2 (W.slope (x1 : ZMod P) x2 y1 y2) := by
        rw [addX_formula _ _ hxc]
        simp only [Fe.cast_sub, Fe.cast_sqr, Fe.cast_mul, Fe.cast_inv]
      have hY : ((Fe.sub (Fe.mul (Fe.mul (Fe.sub y2 y1) (Fe.inv (Fe.sub x2 x1)))
          (Fe.sub x1 (Fe.sub (Fe.sub (Fe.sqr (Fe.mul (Fe.sub y2 y1) (Fe.inv (Fe.sub x2 x1))))
            x1) x2))) y1 : ℕ) : ZMod P) =
          W.addY (x1 : ZMod P) x2 y1 (W.slope (x1 : ZMod P) x2 y1 y2) := by
        rw [addY_formula _ _ hxc]
        simp only [Fe.cast_sub, Fe.cast_sqr, Fe.cast_mul, Fe.cast_inv]
      refine ⟨valid_of_cast (Fe.sub_lt_P _ _) (Fe.sub_lt_P _ _) hX hY hns, ?_⟩
      rw [toPoint_aff_eq hX hY hns, toPoint_aff hn1, toPoint_aff hn2, hsum]

theorem valid_add {p q : Pt} (hp : p.valid = true) (hq : q.valid = true) :
    (Pt.add p q).valid = true := (add_refines p q hp hq).1
theorem toPoint_add {p q : Pt} (hp : p.valid = true) (hq : q.valid = true) :
    toPoint (Pt.add p q) = toPoint p + toPoint q := (add_refines p q hp hq).2
theorem valid_neg {p : Pt} (hp : p.valid = true) : (Pt.neg p).valid = true := (neg_refines p hp).1
theorem toPoint_neg {p : Pt} (hp : p.valid = true) : toPoint (Pt.neg p) = -toPoint p :=
  (neg_refines p hp).2
theorem valid_dbl {p : Pt} (hp : p.valid = true) : (Pt.dbl p).valid = true := (dbl_refines p hp).1
theorem toPoint_dbl {p : Pt} (hp : p.valid = true) : toPoint (Pt.dbl p) = toPoint p + toPoint p :=
  (dbl_refines p hp).2

/-! ### Group laws pulled back through `toPoint` -/

theorem pt_add_comm {p q : Pt} (hp : p.valid = true) (hq : q.valid = true) :
    Pt.add p q = Pt.add q p :=
  toPoint_injective (valid_add hp hq) (valid_add hq hp)
    (by rw [toPoint_add hp hq, toPoint_add hq hp, add_comm])

theorem pt_add_assoc {p q r : Pt} (hp : p.valid = true) (hq : q.valid = true) (hr : r.valid = true) :
    Pt.add (Pt.add p q) r = Pt.add p (Pt.add q r) :=
  toPoint_injective (valid_add (valid_add hp hq) hr) (valid_add hp (valid_add hq hr))
    (by rw [toPoint_add (valid_add hp hq) hr, toPoint_add hp hq, toPoint_add hp (valid_add hq hr),
      toPoint_add hq hr, add_assoc])

theorem pt_add_neg {p : Pt} (hp : p.valid = true) : Pt.add p (Pt.neg p) = Pt.inf :=
  toPoint_injective (valid_add hp (valid_neg hp)) rfl
    (by rw [toPoint_add hp (valid_neg hp), toPoint_neg hp, add_neg_cancel, toPoint_inf])

theorem dbl_eq_add_self {p : Pt} (hp : p.valid = true) : Pt.dbl p = Pt.add p p :=
  toPoint_injective (valid_dbl hp) (valid_add hp hp) (by rw [toPoint_dbl hp, toPoint_add hp hp])

/-! ### Affine double-and-add is scalar multiplication -/

theorem mulSpecAux_refines {p : Pt} (hp : p.valid = true) : ∀ (fuel k : ℕ), k < 2 ^ fuel →
    (Pt.mulSpecAux fuel k p).valid = true ∧ toPoint (Pt.mulSpecAux fuel k p) = k • toPoint p := by
  intro fuel
  induction fuel with
  | zero =>
    intro k hk
    have : k = 0 := by simpa using hk
    subst this
    exact ⟨rfl, by simp [Pt.mulSpecAux]⟩
  | succ n ih =>
    intro k hk
    rw [Pt.mulSpecAux]
    split
    · next h0 => subst h0; exact ⟨rfl, by simp⟩
    · next h0 =>
      have hk2 : k / 2 < 2 ^ n := by rw [pow_succ] at hk; omega
      obtain ⟨hv, ht⟩ := ih (k / 2) hk2
      have hd := dbl_refines _ hv
      rw [ht] at hd
      split
      · next h1 =>
        refine ⟨valid_add hd.1 hp, ?_⟩
        rw [toPoint_add hd.1 hp, hd.2, ← add_smul, ← succ_nsmul]
        congr 1; omega
      · next h1 =>
        refine ⟨hd.1, ?_⟩
        rw [hd.2, ← add_smul]
        congr 1; omega

/-- validity of the double-and-add result needs no bound on the scalar -/
theorem valid_mulSpecAux {p : Pt} (hp : p.valid = true) : ∀ (fuel k : ℕ),
    (Pt.mulSpecAux fuel k p).valid = true := by
  intro fuel
  induction fuel with
  | zero => intro k; rfl
  | succ n ih =>
    intro k
    rw [Pt.mulSpecAux]
    split
    · rfl
    · have hd := valid_dbl (ih (k / 2))
      split
      · exact valid_add hd hp
      · exact hd

theorem valid_mulSpec {p : Pt} (hp : p.valid = true) {k : ℕ} (hk : k < 2 ^ 264) :
    (Pt.mulSpec k p).valid = true := (mulSpecAux_refines hp 264 k hk).1

theorem toPoint_mulSpec {p : Pt} (hp : p.valid = true) {k : ℕ} (hk : k < 2 ^ 264) :
    toPoint (Pt.mulSpec k p) = k • toPoint p := (mulSpecAux_refines hp 264 k hk).2

end PrimeP
end SecpZkp
