import SecpZkp.Proofs.Borromean
import SecpZkp.Proofs.Bytes
import SecpZkp.Proofs.Sha256
import SecpZkp.Model.Whitelist
/-
  Helper lemmas for the constructions built on the Borromean ring signature (whitelist, surjection, range proofs):
  shape of the signer's output, scalar (de)serialisation round trips, and "an infinite ring key is always rejected".
-/
namespace SecpZkp
namespace Borromean
open SecpZkp.Algebra

/-! ### Shape of the signer's output -/

theorem sign_e0_length {s : List Nat} {pubs : List Pt} {k sec rsizes secidx : List Nat} {m e0 : Bytes} {sOut : List Nat}
    (h : sign s pubs k sec rsizes secidx m = some (e0, sOut)) : e0.length = 32 := by
  rw [sign] at h
  simp only [] at h
  split at h
  · simp at h
  split at h
  · simp at h
  simp only [Option.some.injEq, Prod.mk.injEq] at h
  rw [← h.1]; exact Sha256.length_sha256 _

/-- With a single ring, the output scalars are the input ones with the secret position overwritten by a non-zero
    reduced scalar. -/
theorem sign_single {s : List Nat} {pubs : List Pt} {k x n t : Nat} {m e0 : Bytes} {sOut : List Nat}
    (h : sign s pubs [k] [x] [n] [t] m = some (e0, sOut)) :
    ∃ sv, sv ≠ 0 ∧ sv < N ∧ sOut = s.set t sv := by
  rw [sign] at h
  simp only [] at h
  split at h
  · simp at h
  split at h
  · simp at h
  next sO h2 =>
  simp only [Option.some.injEq, Prod.mk.injEq] at h
  simp only [List.zip_cons_cons, List.zip_nil_right] at h2
  rw [phase2_cons] at h2
  split at h2
  · simp at h2
  split at h2
  · simp at h2
  split at h2
  · simp at h2
  next ens _ hsv =>
  simp only [sign.phase2, Option.some.injEq, Nat.zero_add] at h2
  exact ⟨_, hsv, Sc.add_lt _ _, by rw [← h.2, ← h2]⟩

/-! ### An infinite ring key is always rejected -/

theorem ringLast_none_of_inf (m : Bytes) (i : Nat) :
    ∀ (P : List Pt) (S : List Nat) (j : Nat) (tmp : Bytes), Pt.inf ∈ P → ringLast m i j P S tmp = none := by
  intro P
  induction P with
  | nil => intro S j tmp h; simp at h
  | cons p ps ih =>
    intro S j tmp h
    cases S with
    | nil => simp [ringLast]
    | cons s ss =>
      rw [ringLast]
      by_cases hp : p = .inf
      · subst hp; simp [Pt.isInf]
      · have hps : Pt.inf ∈ ps := by
          rcases List.mem_cons.mp h with h | h
          · exact absurd h.symm hp
          · exact h
        have hne : ps ≠ [] := List.ne_nil_of_mem hps
        simp only [if_neg hne]
        split
        · rfl
        split
        · rfl
        exact ih _ _ _ hps

/-- A single ring containing the point at infinity never verifies. -/
theorem verify_single_inf (e0 : Bytes) (s : List Nat) (pubs : List Pt) (n : Nat) (m : Bytes)
    (hn : pubs.length ≤ n) (h : Pt.inf ∈ pubs) : (verify e0 s pubs [n] m).1 = false := by
  rw [verify_fst, goLast]
  have hn0 : n ≠ 0 := by
    intro h0; subst h0
    have : pubs = [] := List.eq_nil_of_length_eq_zero (by omega)
    subst this; simp at h
  rw [if_neg hn0, List.take_of_length_le hn, ringLast_none_of_inf m 0 _ _ _ _ h]

/-! ### Scalars written as 32-byte big-endian strings are read back -/

theorem setB32_be32 {x : Nat} (h : x < N) : Sc.setB32 (Bytes.be32 x) = (x, false) := by
  have h2 : x < 2 ^ 256 := lt_trans h N_lt_pow
  simp only [Sc.setB32, Bytes.toNat_be32 h2, Nat.mod_eq_of_lt h]
  simp; exact h

end Borromean

namespace Whitelist
open SecpZkp.Algebra

theorem deriveS_spec (msg key : Bytes) (count : Nat) :
    ∀ (todo i : Nat) (s : List Nat), deriveS msg key count todo i = some s →
      s.length = todo ∧ ∀ x ∈ s, x ≠ 0 ∧ x < N := by
  intro todo
  induction todo with
  | zero => intro i s h; simp [deriveS] at h; subst h; simp
  | succ todo ih =>
    intro i s h
    rw [deriveS] at h
    split at h
    · simp at h
    next b _ =>
    simp only [] at h
    split at h
    · simp at h
    next hc =>
    split at h
    · simp at h
    next rest hr =>
    simp only [Option.some.injEq] at h
    subst h
    obtain ⟨h1, h2⟩ := ih _ _ hr
    refine ⟨by simp [h1], ?_⟩
    intro x hx
    rcases List.mem_cons.mp hx with hx | hx
    · subst hx
      exact ⟨fun h0 => hc (Or.inr h0), Borromean.setB32_fst_lt _⟩
    · exact h2 x hx

theorem nonceLoop_spec (msg key : Bytes) (n : Nat) :
    ∀ (fuel count non : Nat) (s : List Nat), nonceLoop fuel msg key n count = some (non, s) →
      non ≠ 0 ∧ non < N ∧ s.length = n ∧ ∀ x ∈ s, x ≠ 0 ∧ x < N := by
  intro fuel
  induction fuel with
  | zero => intro count non s h; simp [nonceLoop] at h
  | succ fuel ih =>
    intro count non s h
    rw [nonceLoop] at h
    split at h
    · simp at h
    next nonce32 _ =>
    simp only [] at h
    split at h
    · exact ih _ _ _ h
    next hc =>
    split at h
    · next s' hs' =>
      simp only [Option.some.injEq, Prod.mk.injEq] at h
      obtain ⟨h1, h2⟩ := h
      subst h1 h2
      obtain ⟨h3, h4⟩ := deriveS_spec _ _ _ _ _ _ hs'
      exact ⟨fun h0 => hc (Or.inr h0), Borromean.setB32_fst_lt _, h3, h4⟩
    · exact ih _ _ _ h

/-- reading back the scalars of a freshly written signature -/
theorem readScalars_append (n : Nat) :
    ∀ (s : List Nat) (i : Nat) (pre : Bytes), pre.length = 32 * (i + 1) → (∀ x ∈ s, x ≠ 0 ∧ x < N) →
      readScalars ⟨n, pre ++ (s.map Bytes.be32).flatten⟩ s.length i = some s := by
  intro s
  induction s with
  | nil => intro i pre _ _; simp [readScalars]
  | cons x xs ih =>
    intro i pre hpre hs
    have hx := hs x (by simp)
    have hsb : Sig.sBytes ⟨n, pre ++ ((x :: xs).map Bytes.be32).flatten⟩ i = Bytes.be32 x := by
      simp only [Sig.sBytes, List.map_cons, List.flatten_cons]
      rw [← hpre, List.drop_left, List.take_left' (Bytes.be32_length x)]
    simp only [List.length_cons]
    rw [readScalars, hsb, Borromean.setB32_be32 hx.2]
    simp only [Bool.false_eq_true, false_or, if_neg hx.1]
    have := ih (i + 1) (pre ++ Bytes.be32 x) (by simp [hpre]; omega) (fun y hy => hs y (by simp [hy]))
    simp only [List.map_cons, List.flatten_cons, ← List.append_assoc]
    rw [this]

theorem readScalars_sigData (n : Nat) (e0 : Bytes) (s : List Nat) (he0 : e0.length = 32)
    (hs : ∀ x ∈ s, x ≠ 0 ∧ x < N) : readScalars ⟨n, sigData e0 s⟩ s.length 0 = some s :=
  readScalars_append n s 0 e0 (by simp [he0]) hs

theorem computeKeys_snd (online offline : List Pt) (sub : Pt) :
    (computeKeysAndMessage online offline sub).2 = (List.zip offline online).map (fun p => ringKey p.2 p.1 sub) := rfl

theorem hashPubkey_lt {p : Pt} {t : Nat} (h : hashPubkey p = some t) : t < N := by
  cases p with
  | inf => simp [hashPubkey] at h
  | aff x y =>
    simp only [hashPubkey] at h
    split at h
    · simp at h
    · simp only [Option.some.injEq] at h
      rw [← h]; exact Borromean.setB32_fst_lt _

section
variable [HasGroupLaw]

omit [HasGroupLaw] in
/-- What `computeTweakedPrivkey = some sec` means: `sec = online + H(summed•G)·summed`, and (since the fix of finding F2)
    `sec ≠ 0`. -/
theorem computeTweakedPrivkey_some {onlineSeckey summedSeckey : Bytes} {sec : Nat}
    (hsec : computeTweakedPrivkey onlineSeckey summedSeckey = some sec) :
    ∃ tweak, hashPubkey (Pt.mulG (Sc.setB32 summedSeckey).1) = some tweak ∧
      sec = Sc.add (Sc.mul (Sc.setB32 summedSeckey).1 tweak) (Sc.setB32 onlineSeckey).1 ∧ sec ≠ 0 := by
  rw [computeTweakedPrivkey] at hsec
  simp only [] at hsec
  split at hsec
  · simp at hsec
  split at hsec
  · simp at hsec
  next tweak ht =>
  split at hsec
  · simp at hsec
  split at hsec
  · simp at hsec
  next hne =>
  simp only [Option.some.injEq] at hsec
  exact ⟨tweak, ht, hsec.symm, hsec ▸ hne⟩

omit [HasGroupLaw] in
/-- If the tweaked secret `online + H(summed•G)·summed` is `0 mod n`, `computeTweakedPrivkey` fails (finding F2, fixed). -/
theorem computeTweakedPrivkey_none_of_zero {onlineSeckey summedSeckey : Bytes} {tweak : Nat}
    (ht : hashPubkey (Pt.mulG (Sc.setB32 summedSeckey).1) = some tweak)
    (h0 : Sc.add (Sc.mul (Sc.setB32 summedSeckey).1 tweak) (Sc.setB32 onlineSeckey).1 = 0) :
    computeTweakedPrivkey onlineSeckey summedSeckey = none := by
  cases h : computeTweakedPrivkey onlineSeckey summedSeckey with
  | none => rfl
  | some sec =>
    obtain ⟨tweak', ht', hs, hne⟩ := computeTweakedPrivkey_some h
    rw [ht] at ht'
    simp only [Option.some.injEq] at ht'
    subst ht'
    exact absurd (hs.trans h0) hne

/-- The ring key of a member who knows `online_sec` and `summed_sec` is `(online_sec + H(summed_sec•G)·summed_sec)•G`. -/
theorem ringKey_eq_mulG_tweaked {so sk tweak : Nat} {on off sub : Pt} (hso : so < N) (hsk : sk < N)
    (ht : hashPubkey (Pt.mulG sk) = some tweak)
    (hon : on = Pt.mulG so) (hoff : Pt.add off sub = Pt.mulG sk) :
    ringKey on off sub = Pt.mulG (Sc.add (Sc.mul sk tweak) so) := by
  have htw : tweak < N := hashPubkey_lt ht
  rw [ringKey, hoff, tweakPubkey, ht, hon]
  simp only []
  rw [mulG_eq_gmul (lt_mulBound_of_lt_N hsk), mul_gmul (lt_mulBound_of_lt_N htw),
    mulG_eq_gmul (lt_mulBound_of_lt_N hso), mulG_eq_gmul (lt_mulBound_of_lt_N (Sc.add_lt _ _)), add_gmul]
  apply gmul_congr
  simp only [cast_add, cast_mul]
  ring

/-- The signer's ring key is `sec•G` for the tweaked secret `sec`, and `0 < sec < n`. -/
theorem ringKey_eq_mulG {onlineSeckey summedSeckey : Bytes} {sec : Nat} {on off sub : Pt}
    (hsec : computeTweakedPrivkey onlineSeckey summedSeckey = some sec)
    (hon : on = Pt.mulG (Sc.setB32 onlineSeckey).1)
    (hoff : Pt.add off sub = Pt.mulG (Sc.setB32 summedSeckey).1) :
    ringKey on off sub = Pt.mulG sec ∧ sec < N ∧ sec ≠ 0 := by
  obtain ⟨tweak, ht, hs, hne⟩ := computeTweakedPrivkey_some hsec
  subst hs
  exact ⟨ringKey_eq_mulG_tweaked (Borromean.setB32_fst_lt _) (Borromean.setB32_fst_lt _) ht hon hoff,
    Sc.add_lt _ _, hne⟩

end

end Whitelist
end SecpZkp
