/-
  Helpers for `Props/C05_field10x26.lean`: exactness of the 10×26-limb field kernels
  (`secp256k1_fe_mul_inner`, `secp256k1_fe_sqr_inner` of src/field_10x26_impl.h, the 32-bit configuration
  of the library) as translated into the MiniC IR (`Gen/K_field10x26.lean`, regenerated from the C sources).

  Everything generic (`checkOut`, `checkOut_sound`, `respects_of_all`, `straightEnv`, `checkRun_sound`)
  is reused from `Proofs/FieldKernel.lean`.

  Contents
  * `val10`           : value of a 10×26 limb vector; `val10_mul`, `val10_sq` : school-book expansion
  * `mulB`, `sqrB`    : the input contract VERIFY-checked by the C code (`a[0..8], b[0..8] < 2^30`,
                        `a[9], b[9] < 2^26`)
  * `outB`            : the output contract VERIFY-checked by the C code (`r[0], r[1], r[3..8] < 2^26`,
                        `r[2] < 2^27`, `r[9] < 2^22`) plus `d < 2^27` for the final scalar `d`, of which
                        `r[2]` is the `uint32_t` conversion
  * bit-operation lemmas for the masks `M = 0x3FFFFFF`, `M >> 4` and the `uint32_t` conversions
  * the tactic macros `minic_eval26` (= `minic_eval` with a location) and `limb_arith26` (normal form for `omega`).

  No axioms beyond propext / Classical.choice / Quot.sound.
-/
import SecpZkp.Proofs.FieldKernel

namespace SecpZkp
namespace FieldKernel10x26
open MiniC MiniC.Bounds FieldKernel

/-! ### limb vectors -/

/-- the integer represented by ten 26-bit limbs (limbs may exceed 26 bits: "magnitude") -/
def val10 (x0 x1 x2 x3 x4 x5 x6 x7 x8 x9 : Nat) : Nat :=
  x0 + x1 * 2 ^ 26 + x2 * 2 ^ 52 + x3 * 2 ^ 78 + x4 * 2 ^ 104 + x5 * 2 ^ 130 + x6 * 2 ^ 156 + x7 * 2 ^ 182 +
    x8 * 2 ^ 208 + x9 * 2 ^ 234

/-- school-book product of two limb vectors, in Horner form (all exponents 26) -/
theorem val10_mul (a0 a1 a2 a3 a4 a5 a6 a7 a8 a9 b0 b1 b2 b3 b4 b5 b6 b7 b8 b9 : Nat) :
    val10 a0 a1 a2 a3 a4 a5 a6 a7 a8 a9 * val10 b0 b1 b2 b3 b4 b5 b6 b7 b8 b9 =
      a0 * b0 +
      2 ^ 26 * ((a0 * b1 + a1 * b0) +
      2 ^ 26 * ((a0 * b2 + a1 * b1 + a2 * b0) +
      2 ^ 26 * ((a0 * b3 + a1 * b2 + a2 * b1 + a3 * b0) +
      2 ^ 26 * ((a0 * b4 + a1 * b3 + a2 * b2 + a3 * b1 + a4 * b0) +
      2 ^ 26 * ((a0 * b5 + a1 * b4 + a2 * b3 + a3 * b2 + a4 * b1 + a5 * b0) +
      2 ^ 26 * ((a0 * b6 + a1 * b5 + a2 * b4 + a3 * b3 + a4 * b2 + a5 * b1 + a6 * b0) +
      2 ^ 26 * ((a0 * b7 + a1 * b6 + a2 * b5 + a3 * b4 + a4 * b3 + a5 * b2 + a6 * b1 + a7 * b0) +
      2 ^ 26 * ((a0 * b8 + a1 * b7 + a2 * b6 + a3 * b5 + a4 * b4 + a5 * b3 + a6 * b2 + a7 * b1 + a8 * b0) +
      2 ^ 26 * ((a0 * b9 + a1 * b8 + a2 * b7 + a3 * b6 + a4 * b5 + a5 * b4 + a6 * b3 + a7 * b2 + a8 * b1 + a9 * b0) +
      2 ^ 26 * ((a1 * b9 + a2 * b8 + a3 * b7 + a4 * b6 + a5 * b5 + a6 * b4 + a7 * b3 + a8 * b2 + a9 * b1) +
      2 ^ 26 * ((a2 * b9 + a3 * b8 + a4 * b7 + a5 * b6 + a6 * b5 + a7 * b4 + a8 * b3 + a9 * b2) +
      2 ^ 26 * ((a3 * b9 + a4 * b8 + a5 * b7 + a6 * b6 + a7 * b5 + a8 * b4 + a9 * b3) +
      2 ^ 26 * ((a4 * b9 + a5 * b8 + a6 * b7 + a7 * b6 + a8 * b5 + a9 * b4) +
      2 ^ 26 * ((a5 * b9 + a6 * b8 + a7 * b7 + a8 * b6 + a9 * b5) +
      2 ^ 26 * ((a6 * b9 + a7 * b8 + a8 * b7 + a9 * b6) +
      2 ^ 26 * ((a7 * b9 + a8 * b8 + a9 * b7) +
      2 ^ 26 * ((a8 * b9 + a9 * b8) +
      2 ^ 26 * (a9 * b9)))))))))))))))))) := by
  unfold val10; ring

/-- school-book square of a limb vector, in Horner form -/
theorem val10_sq (a0 a1 a2 a3 a4 a5 a6 a7 a8 a9 : Nat) :
    val10 a0 a1 a2 a3 a4 a5 a6 a7 a8 a9 ^ 2 =
      a0 * a0 +
      2 ^ 26 * (2 * (a0 * a1) +
      2 ^ 26 * ((2 * (a0 * a2) + a1 * a1) +
      2 ^ 26 * ((2 * (a0 * a3) + 2 * (a1 * a2)) +
      2 ^ 26 * ((2 * (a0 * a4) + 2 * (a1 * a3) + a2 * a2) +
      2 ^ 26 * ((2 * (a0 * a5) + 2 * (a1 * a4) + 2 * (a2 * a3)) +
      2 ^ 26 * ((2 * (a0 * a6) + 2 * (a1 * a5) + 2 * (a2 * a4) + a3 * a3) +
      2 ^ 26 * ((2 * (a0 * a7) + 2 * (a1 * a6) + 2 * (a2 * a5) + 2 * (a3 * a4)) +
      2 ^ 26 * ((2 * (a0 * a8) + 2 * (a1 * a7) + 2 * (a2 * a6) + 2 * (a3 * a5) + a4 * a4) +
      2 ^ 26 * ((2 * (a0 * a9) + 2 * (a1 * a8) + 2 * (a2 * a7) + 2 * (a3 * a6) + 2 * (a4 * a5)) +
      2 ^ 26 * ((2 * (a1 * a9) + 2 * (a2 * a8) + 2 * (a3 * a7) + 2 * (a4 * a6) + a5 * a5) +
      2 ^ 26 * ((2 * (a2 * a9) + 2 * (a3 * a8) + 2 * (a4 * a7) + 2 * (a5 * a6)) +
      2 ^ 26 * ((2 * (a3 * a9) + 2 * (a4 * a8) + 2 * (a5 * a7) + a6 * a6) +
      2 ^ 26 * ((2 * (a4 * a9) + 2 * (a5 * a8) + 2 * (a6 * a7)) +
      2 ^ 26 * ((2 * (a5 * a9) + 2 * (a6 * a8) + a7 * a7) +
      2 ^ 26 * ((2 * (a6 * a9) + 2 * (a7 * a8)) +
      2 ^ 26 * ((2 * (a7 * a9) + a8 * a8) +
      2 ^ 26 * (2 * (a8 * a9) +
      2 ^ 26 * (a9 * a9)))))))))))))))))) := by
  unfold val10; ring

/-! ### input and output contracts (the `VERIFY_BITS` lines of the C functions) -/

/-- `secp256k1_fe_mul_inner`: `a[0..8], b[0..8] < 2^30`, `a[9], b[9] < 2^26` -/
def mulB : BEnv :=
  [(("a", 0), 2 ^ 30 - 1), (("a", 1), 2 ^ 30 - 1), (("a", 2), 2 ^ 30 - 1), (("a", 3), 2 ^ 30 - 1), (("a", 4), 2 ^ 30 - 1),
   (("a", 5), 2 ^ 30 - 1), (("a", 6), 2 ^ 30 - 1), (("a", 7), 2 ^ 30 - 1), (("a", 8), 2 ^ 30 - 1), (("a", 9), 2 ^ 26 - 1),
   (("b", 0), 2 ^ 30 - 1), (("b", 1), 2 ^ 30 - 1), (("b", 2), 2 ^ 30 - 1), (("b", 3), 2 ^ 30 - 1), (("b", 4), 2 ^ 30 - 1),
   (("b", 5), 2 ^ 30 - 1), (("b", 6), 2 ^ 30 - 1), (("b", 7), 2 ^ 30 - 1), (("b", 8), 2 ^ 30 - 1), (("b", 9), 2 ^ 26 - 1)]

/-- `secp256k1_fe_sqr_inner`: `a[0..8] < 2^30`, `a[9] < 2^26` -/
def sqrB : BEnv :=
  [(("a", 0), 2 ^ 30 - 1), (("a", 1), 2 ^ 30 - 1), (("a", 2), 2 ^ 30 - 1), (("a", 3), 2 ^ 30 - 1), (("a", 4), 2 ^ 30 - 1),
   (("a", 5), 2 ^ 30 - 1), (("a", 6), 2 ^ 30 - 1), (("a", 7), 2 ^ 30 - 1), (("a", 8), 2 ^ 30 - 1), (("a", 9), 2 ^ 26 - 1)]

/-- the output contract of the C functions: `r[0], r[1], r[3..8] < 2^26`, `r[2] < 2^27`, `r[9] < 2^22`;
    in addition the final value of the 64-bit scalar `d` (of which `r[2]` is the `uint32_t` conversion) is
    below `2^27`, so that conversion does not truncate -/
def outB : List ((String × Nat) × Nat) :=
  [(("r", 0), 2 ^ 26 - 1), (("r", 1), 2 ^ 26 - 1), (("r", 2), 2 ^ 27 - 1), (("r", 3), 2 ^ 26 - 1), (("r", 4), 2 ^ 26 - 1),
   (("r", 5), 2 ^ 26 - 1), (("r", 6), 2 ^ 26 - 1), (("r", 7), 2 ^ 26 - 1), (("r", 8), 2 ^ 26 - 1), (("r", 9), 2 ^ 22 - 1),
   (("d", 0), 2 ^ 27 - 1)]

/-! ### bit operations of the C code as arithmetic -/

/-- `x & M` with `M = 0x3FFFFFF` -/
theorem and_M26 (x : Nat) : x &&& 67108863 = x % 67108864 :=
  Nat.and_two_pow_sub_one_eq_mod x 26

/-- `x & (M >> 4)` -/
theorem and_M22 (x : Nat) : x &&& 4194303 = x % 4194304 :=
  Nat.and_two_pow_sub_one_eq_mod x 22

/-- a masked value converted to `uint32_t`: the conversion is void.  (Only THIS `%`-of-`%` is simplified;
    the remaining `x % k` all come with their `x / k`.) -/
theorem mod_mod32 (x m : Nat) (h : m ≤ 4294967296) (hm : 0 < m) : x % m % 4294967296 = x % m :=
  Nat.mod_eq_of_lt (Nat.lt_of_lt_of_le (Nat.mod_lt x hm) h)

/-- a conversion to `uint32_t` of a value that is below `2^32` anyway -/
theorem mod32_of_le (x : Nat) (h : x ≤ 4294967295) : x % 4294967296 = x :=
  Nat.mod_eq_of_lt (Nat.lt_succ_of_le h)

/-! ### tactics -/

/-- `minic_eval` of `Proofs/FieldKernel.lean` with a location: symbolic execution of the ideal interpreter
    `execLI` on a LITERAL straight-line program and an arbitrary initial memory, in the goal and/or in
    hypotheses (the same normal form is produced at every location, so a hypothesis about a cell of the final
    memory matches the occurrences of that cell's value in the goal syntactically). -/
macro "minic_eval26" loc:(Lean.Parser.Tactic.location)? : tactic => `(tactic| (
  simp only [execLI, execSI, evalEI, binIdeal] $[$loc]?
  set_option linter.unusedSimpArgs false in
  simp only [Env.get_set_same, Env.get_set_other, ne_eq, Prod.mk.injEq, String.reduceEq, false_and, and_false,
    and_true, true_and, not_false_eq_true, not_true_eq_false, Nat.reduceEqDiff] $[$loc]?))

/-- Normal form of the 10×26 limb arithmetic: literals evaluated (`M >> 4`, `R1 << 4`, `R0 >> 4`, `R1 >> 4`),
    masks as `%`, `uint32_t` conversions of masked values dropped (`x % 2^26 % 2^32 = x % 2^26`). -/
macro "limb_arith26" loc:(Lean.Parser.Tactic.location)? : tactic => `(tactic| (
  simp only [Nat.reducePow, Nat.reduceMul, Nat.reduceDiv, Nat.reduceSub, and_M26, and_M22] $[$loc]?
  simp (disch := decide) only [mod_mod32] $[$loc]?))

end FieldKernel10x26
end SecpZkp
