/-
  Helpers for `Props/C05_field.lean`: exactness of the 5×52-limb field kernels
  (`secp256k1_fe_mul_inner`, `secp256k1_fe_sqr_inner`, native `unsigned __int128` configuration) as
  translated into the MiniC IR (`Gen/K_field5x52.lean`, regenerated from the C sources on every run).

  Contents
  * `val5`            : value of a 5×52 limb vector; `val5_mul`, `val5_sq` : school-book expansion
  * `mulB`, `sqrB`    : the documented input magnitude bounds (`a[0..3], b[0..3] ≤ 2^56-1`, top limb `≤ 2^52-1`,
                        i.e. magnitude ≤ 8 as VERIFY-checked by `secp256k1_fe_mul`/`secp256k1_fe_sqr`)
  * `checkOut`        : Boolean "interval analysis succeeds AND the listed output cells get the listed bounds";
                        `checkOut_sound` packages `Bounds.checkL_sound` for it
  * `respects_of_all` : `Respects` for literal environments by evaluation
  * `straightEnv`, `checkRun` : a kernel-reducible copy of `execL` for straight-line programs (closed examples)
  * bit-operation lemmas that turn the masks / shifts / ors of the C code into `%`, `/`, `+`
  * the tactic macros `minic_eval` (symbolic execution of the ideal interpreter `execLI` on a literal
    straight-line program, for an ARBITRARY memory `env`) and `limb_arith` (normal form for `omega`).

  No axioms beyond propext / Classical.choice / Quot.sound.
-/
import SecpZkp.Proofs.MiniC
import SecpZkp.Model.Field
import Mathlib.Tactic.Ring

namespace SecpZkp
namespace FieldKernel
open MiniC MiniC.Bounds

/-! ### limb vectors -/

/-- the integer represented by five 52-bit limbs (limbs may exceed 52 bits: "magnitude") -/
def val5 (x0 x1 x2 x3 x4 : Nat) : Nat := x0 + x1 * 2 ^ 52 + x2 * 2 ^ 104 + x3 * 2 ^ 156 + x4 * 2 ^ 208

/-- school-book product of two limb vectors, in Horner form (all exponents 52) -/
theorem val5_mul (a0 a1 a2 a3 a4 b0 b1 b2 b3 b4 : Nat) :
    val5 a0 a1 a2 a3 a4 * val5 b0 b1 b2 b3 b4 =
      a0 * b0 + 2 ^ 52 * ((a0 * b1 + a1 * b0) + 2 ^ 52 * ((a0 * b2 + a1 * b1 + a2 * b0) +
      2 ^ 52 * ((a0 * b3 + a1 * b2 + a2 * b1 + a3 * b0) + 2 ^ 52 * ((a0 * b4 + a1 * b3 + a2 * b2 + a3 * b1 + a4 * b0) +
      2 ^ 52 * ((a1 * b4 + a2 * b3 + a3 * b2 + a4 * b1) + 2 ^ 52 * ((a2 * b4 + a3 * b3 + a4 * b2) +
      2 ^ 52 * ((a3 * b4 + a4 * b3) + 2 ^ 52 * (a4 * b4)))))))) := by
  unfold val5; ring

/-- school-book square of a limb vector, in Horner form -/
theorem val5_sq (a0 a1 a2 a3 a4 : Nat) :
    val5 a0 a1 a2 a3 a4 ^ 2 =
      a0 * a0 + 2 ^ 52 * (2 * (a0 * a1) + 2 ^ 52 * ((2 * (a0 * a2) + a1 * a1) +
      2 ^ 52 * ((2 * (a0 * a3) + 2 * (a1 * a2)) + 2 ^ 52 * ((2 * (a0 * a4) + 2 * (a1 * a3) + a2 * a2) +
      2 ^ 52 * ((2 * (a1 * a4) + 2 * (a2 * a3)) + 2 ^ 52 * ((2 * (a2 * a4) + a3 * a3) +
      2 ^ 52 * (2 * (a3 * a4) + 2 ^ 52 * (a4 * a4)))))))) := by
  unfold val5; ring

/-! ### input contracts -/

/-- `secp256k1_fe_mul_inner`: both operands have magnitude ≤ 8 (limbs 0..3 below `2^56`, limb 4 below `2^52`) -/
def mulB : BEnv :=
  [(("a", 0), 2 ^ 56 - 1), (("a", 1), 2 ^ 56 - 1), (("a", 2), 2 ^ 56 - 1), (("a", 3), 2 ^ 56 - 1), (("a", 4), 2 ^ 52 - 1),
   (("b", 0), 2 ^ 56 - 1), (("b", 1), 2 ^ 56 - 1), (("b", 2), 2 ^ 56 - 1), (("b", 3), 2 ^ 56 - 1), (("b", 4), 2 ^ 52 - 1)]

/-- `secp256k1_fe_sqr_inner`: the operand has magnitude ≤ 8 -/
def sqrB : BEnv :=
  [(("a", 0), 2 ^ 56 - 1), (("a", 1), 2 ^ 56 - 1), (("a", 2), 2 ^ 56 - 1), (("a", 3), 2 ^ 56 - 1), (("a", 4), 2 ^ 52 - 1)]

/-- the magnitude-1 output contract: `r[0..3] < 2^52`, `r[4] < 2^49` -/
def outB : List ((String × Nat) × Nat) :=
  [(("r", 0), 2 ^ 52 - 1), (("r", 1), 2 ^ 52 - 1), (("r", 2), 2 ^ 52 - 1), (("r", 3), 2 ^ 52 - 1), (("r", 4), 2 ^ 49 - 1)]

/-! ### the interval analysis as a Boolean with output bounds -/

/-- the bound environment `b` knows cell `(x, i)` and bounds it by at most `m` -/
def cellLe (b : BEnv) (x : String) (i m : Nat) : Bool :=
  match b.get? x i with
  | some v => decide (v ≤ m)
  | none => false

/-- the interval analysis accepts `prog` under the input bounds `b` (so no `add`/`mul`/`shl` node wraps)
    and derives for every listed output cell a bound at most the listed one -/
def checkOut (b : BEnv) (prog : List Stmt) (outs : List ((String × Nat) × Nat)) : Bool :=
  match checkL b prog with
  | some b' => outs.all (fun o => cellLe b' o.1.1 o.1.2 o.2)
  | none => false

theorem cellLe_sound {env : Env} {b : BEnv} (hr : Respects env b) {x : String} {i m : Nat}
    (h : cellLe b x i m = true) : env.get x i ≤ m := by
  unfold cellLe at h
  split at h
  · rename_i v hv
    exact Nat.le_trans (hr x i v hv) (of_decide_eq_true h)
  · cases h

theorem checkOut_isSome {b : BEnv} {prog : List Stmt} {outs : List ((String × Nat) × Nat)}
    (h : checkOut b prog outs = true) : (checkL b prog).isSome = true := by
  unfold checkOut at h
  split at h
  · rename_i b' hb'; simp [hb']
  · cases h

/-- `Bounds.checkL_sound`, packaged: wrap-around run = ideal run, and the listed output bounds hold -/
theorem checkOut_sound {env : Env} {b : BEnv} {prog : List Stmt} {outs : List ((String × Nat) × Nat)}
    (hr : Respects env b) (h : checkOut b prog outs = true) :
    (execL env prog).env = (execLI env prog).1 ∧
      ∀ o ∈ outs, (execL env prog).env.get o.1.1 o.1.2 ≤ o.2 := by
  unfold checkOut at h
  split at h
  · rename_i b' hb'
    obtain ⟨h1, _, h3⟩ := checkL_sound prog hr hb'
    refine ⟨h1, fun o ho => ?_⟩
    exact cellLe_sound h3 (List.all_eq_true.mp h o ho)
  · cases h

/-- `Respects` for a literal bound environment, by evaluation -/
theorem respects_of_all {env : Env} : ∀ {b : BEnv},
    (b.all fun p => decide (env.get p.1.1 p.1.2 ≤ p.2)) = true → Respects env b
  | [], _ => respects_nil env
  | ((x, i), v) :: b, h => by
    simp only [List.all_cons, Bool.and_eq_true, decide_eq_true_eq] at h
    exact respects_cons h.1 (respects_of_all h.2)

/-! ### a kernel-reducible interpreter for straight-line programs

`execL` is defined by mutual recursion through `ite`/`loop` and does not reduce inside the kernel; for closed
evaluation of a straight-line program on a literal memory (non-vacuity examples) we use this copy, which
recurses structurally on the statement list, and its agreement with `execL`. -/

/-- wrap-around execution of a straight-line program (`assign` / `store` only); `none` on anything else -/
def straightEnv (env : Env) : List Stmt → Option Env
  | [] => some env
  | .assign x e :: rest => straightEnv (env.set x 0 (evalE env e).1) rest
  | .store a i e :: rest => straightEnv (env.set a (evalE env i).1 (evalE env e).1) rest
  | _ => none

theorem straightEnv_eq : ∀ (prog : List Stmt) {env out : Env}, straightEnv env prog = some out →
    (execL env prog).env = out := by
  intro prog
  induction prog with
  | nil => intro env out h; simp [straightEnv] at h; subst h; simp [execL]
  | cons s rest ih =>
    intro env out h
    cases s with
    | assign x e => rw [execL_cons_assign]; exact ih (by simpa [straightEnv] using h)
    | store a i e => rw [execL_cons_store]; exact ih (by simpa [straightEnv] using h)
    | ite c t e => simp [straightEnv] at h
    | loop x n body => simp [straightEnv] at h
    | declassify x => simp [straightEnv] at h
    | ret e => simp [straightEnv] at h

/-- the final memory of a straight-line program (`[]` if the program is not straight-line) -/
def runStraight (env : Env) (prog : List Stmt) : Env := (straightEnv env prog).getD []

theorem execL_eq_runStraight {env : Env} {prog : List Stmt} (h : (straightEnv env prog).isSome = true) :
    (execL env prog).env = runStraight env prog := by
  obtain ⟨out, hout⟩ := Option.isSome_iff_exists.mp h
  rw [straightEnv_eq prog hout, runStraight, hout]; rfl

/-- run a straight-line program on `env` and test the final memory with `post` (one closed evaluation) -/
def checkRun (env : Env) (prog : List Stmt) (post : Env → Bool) : Bool :=
  match straightEnv env prog with
  | some out => post out
  | none => false

theorem checkRun_sound {env : Env} {prog : List Stmt} {post : Env → Bool} (h : checkRun env prog post = true) :
    post (execL env prog).env = true := by
  unfold checkRun at h
  split at h
  · rename_i out hout; rw [straightEnv_eq prog hout]; exact h
  · cases h

/-! ### bit operations of the C code as arithmetic -/

/-- `x & M` with `M = 0xFFFFFFFFFFFFF` -/
theorem and_M52 (x : Nat) : x &&& 4503599627370495 = x % 4503599627370496 :=
  Nat.and_two_pow_sub_one_eq_mod x 52

/-- `x & (M >> 4)` -/
theorem and_M48 (x : Nat) : x &&& 281474976710655 = x % 281474976710656 :=
  Nat.and_two_pow_sub_one_eq_mod x 48

/-- `(u << k) | t = (u << k) + t` when `t` fits in the `k` low bits -/
theorem shl_or (u t k : Nat) (h : t < 2 ^ k) : u * 2 ^ k ||| t = u * 2 ^ k + t := by
  rw [← Nat.shiftLeft_eq, ← Nat.shiftLeft_add_eq_or_of_lt h]

/-- `(u << 4) | tx` with `tx < 16` -/
theorem shl4_or (u t : Nat) (h : t < 16) : u * 16 ||| t = u * 16 + t := shl_or u t 4 h

/-- a conversion to `uint64_t` followed by a mask (`m` a power of two up to `2^64`): the conversion is void.
    (Only THIS `%`-of-`%` is simplified: the remaining `x % k` all come with their `x / k`, which is the
    form in which `omega` sees the carry chain as an identity between linear forms.) -/
theorem mod64_mod (x m : Nat) (h : m ∣ 18446744073709551616) : x % 18446744073709551616 % m = x % m :=
  Nat.mod_mod_of_dvd x h

/-- a conversion to `uint64_t` of a value that is below `2^64` anyway -/
theorem mod64_of_lt (x : Nat) (h : x < 18446744073709551616) : x % 18446744073709551616 = x :=
  Nat.mod_eq_of_lt h

/-- `2 * x` written the way the C code writes it, as a normal form for products -/
theorem mul_two_mul (a b : Nat) : a * 2 * b = 2 * (a * b) := by
  rw [Nat.mul_right_comm, Nat.mul_comm]

theorem mul_mul_two (a b : Nat) : a * (b * 2) = 2 * (a * b) := by
  rw [← Nat.mul_assoc, Nat.mul_comm]

/-! ### tactics -/

/-- Symbolic execution of the ideal interpreter on a LITERAL straight-line program and an arbitrary
    initial memory: unfolds `execLI`, resolves every read through the chain of writes (variable names
    are compared by the `String.reduceEq` simproc), and leaves an arithmetic expression over the cells
    of the initial memory that the program reads.  Independent of the names of temporaries. -/
macro "minic_eval" : tactic => `(tactic| (
  simp only [execLI, execSI, evalEI, binIdeal]
  simp only [Env.get_set_same, Env.get_set_other, ne_eq, Prod.mk.injEq, String.reduceEq, false_and, and_false,
    and_true, true_and, not_false_eq_true, not_true_eq_false, Nat.reduceEqDiff]))

/-- Normal form of the limb arithmetic: literals evaluated, masks as `%`, `uint64` conversions of
    masked values dropped (`x % 2^64 % 2^52 = x % 2^52`, lemma `mod64_mod`), `(u << 4) | tx` as a sum. -/
macro "limb_arith" : tactic => `(tactic| (
  simp only [Nat.reducePow, Nat.reduceMul, Nat.reduceDiv, and_M52, and_M48]
  simp (disch := decide) only [mod64_mod]
  simp (disch := omega) only [shl4_or]))

end FieldKernel
end SecpZkp
