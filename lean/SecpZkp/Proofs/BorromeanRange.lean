import SecpZkp.Proofs.BorromeanIndex
import SecpZkp.Proofs.Prime
import SecpZkp.Proofs.Rangeproof
/-
  Range proofs hand the Borromean signer consistent keys: `pubExpand` applied to the digit commitments
  `sec_i•G + (d_i·scale·4^i)•H` puts `sec_i•G` at position `d_i` of ring `i`.
-/
namespace SecpZkp
namespace Rangeproof
open SecpZkp.Algebra

section
variable [HasGroupLaw]

/-- `Pt.mul` on a valid point as `nsmul` in `VPt`. -/
theorem mul_val {k : Nat} (hk : k < mulBound) (Q : VPt) : Pt.mul k Q.1 = (k • Q).1 := mul_eq_nsmul hk Q

theorem dbl_val (Q : VPt) : Pt.dbl Q.1 = (2 • Q).1 := by
  rw [dbl_eq_add_self Q.2, two_nsmul]; rfl

theorem times10_val (Q : VPt) : times10 Q.1 = (10 • Q).1 := by
  have h2 : Pt.dbl Q.1 = (2 • Q).1 := dbl_val Q
  have h4 : Pt.dbl (2 • Q).1 = (2 • (2 • Q)).1 := dbl_val _
  have h8 : Pt.dbl (2 • (2 • Q)).1 = (2 • (2 • (2 • Q))).1 := dbl_val _
  simp only [times10, h2, h4, h8]
  show (2 • (2 • (2 • Q)) + 2 • Q).1 = _
  congr 1
  simp only [smul_smul]
  rw [← add_nsmul]
  norm_num

theorem times10Pow_val (e : Nat) (Q : VPt) : times10Pow e Q.1 = ((10 ^ e) • Q).1 := by
  induction e generalizing Q with
  | zero => show Q.1 = _; rw [pow_zero, one_smul]
  | succ e ih =>
    rw [times10Pow, times10_val, ih, smul_smul, pow_succ]

theorem expandRing_get (n : Nat) : ∀ (prev base : VPt) (j : Nat), j < n →
    (expandRing n prev.1 base.1)[j]? = some (prev + (j + 1) • base).1 := by
  induction n with
  | zero => intro _ _ j h; omega
  | succ n ih =>
    intro prev base j hj
    rw [expandRing]
    have hadd : Pt.add prev.1 base.1 = (prev + base).1 := rfl
    cases j with
    | zero => rw [List.getElem?_cons_zero, hadd, Nat.zero_add, one_smul]
    | succ j =>
      rw [List.getElem?_cons_succ, hadd, ih (prev + base) base j (by omega)]
      congr 2
      rw [add_assoc, ← succ_nsmul']

/-- Entry `j` of ring `i` of the expanded key array is `f_i + j•(4^i•base)`. -/
theorem pubExpandGo_get : ∀ (fs : List VPt) (rss : List Nat) (base : VPt) (i j : Nat) (f : VPt),
    (∀ r ∈ rss, 1 ≤ r) → fs[i]? = some f → j < rss.getD i 0 →
    (pubExpandGo (fs.map Subtype.val) rss base.1)[(rss.take i).sum + j]? = some (f + j • ((4 ^ i) • base)).1 := by
  intro fs
  induction fs with
  | nil => intro rss base i j f _ h; simp at h
  | cons f0 fs ih =>
    intro rss base i j f hrs hf hj
    cases rss with
    | nil => simp at hj
    | cons rs rss =>
      have hrs0 : 1 ≤ rs := hrs rs (by simp)
      rw [List.map_cons, pubExpandGo]
      have hlen : (f0.1 :: expandRing (rs - 1) f0.1 base.1).length = rs := by
        simp [expandRing_length]; omega
      cases i with
      | zero =>
        simp only [List.getElem?_cons_zero, Option.some.injEq] at hf
        subst hf
        simp only [List.getD_cons_zero] at hj
        simp only [List.take_zero, List.sum_nil, Nat.zero_add, pow_zero, one_smul]
        rw [List.getElem?_append_left (by omega)]
        cases j with
        | zero => simp
        | succ j =>
          rw [List.getElem?_cons_succ, expandRing_get _ _ _ _ (by omega)]
      | succ i =>
        simp only [List.getElem?_cons_succ] at hf
        simp only [List.getD_cons_succ] at hj
        simp only [List.take_succ_cons, List.sum_cons]
        rw [List.getElem?_append_right (by omega), hlen]
        have hidx : rs + (List.take i rss).sum + j - rs = (List.take i rss).sum + j := by omega
        rw [hidx]
        have hne : fs ≠ [] := by intro h; subst h; simp at hf
        have hemp : (fs.map Subtype.val).isEmpty = false := by
          cases fs with
          | nil => exact absurd rfl hne
          | cons _ _ => rfl
        rw [hemp]
        simp only [Bool.false_eq_true, if_false]
        have hb : Pt.dbl (Pt.dbl base.1) = ((4 : Nat) • base).1 := by
          rw [dbl_val, dbl_val, smul_smul]
          norm_num
        have hpow : (4 ^ i) • ((4 : Nat) • base) = (4 ^ (i + 1)) • base := by rw [smul_smul, pow_succ]
        rw [hb, ih rss (4 • base) i j f (fun r hr => hrs r (by simp [hr])) hf hj, hpow]


/-- the digit commitments `sec_i•G + digitValue(d_i, scale, i)•H` -/
def digitPts (scale : Nat) (genp : Pt) : List Nat → List Nat → Nat → List Pt
  | s :: secs, d :: idxs, i => pedersenEcmult s (digitValue d scale i) genp :: digitPts scale genp secs idxs (i + 1)
  | _, _, _ => []

omit [HasGroupLaw] in
theorem digitLoop_spec (rings scale : Nat) (genp : Pt) :
    ∀ (secs idxs : List Nat) (i : Nat) (h : Sha256.State) (signs xs : Bytes) (pubs P : List Pt)
      (h' : Sha256.State) (signs' xs' : Bytes),
      digitLoop rings scale genp secs idxs i h signs xs pubs = some (P, h', signs', xs') →
      secs.length ≤ idxs.length ∧ P = pubs ++ digitPts scale genp secs idxs i := by
  intro secs
  induction secs with
  | nil =>
    intro idxs i h signs xs pubs P h' signs' xs' hd
    simp only [digitLoop, Option.some.injEq, Prod.mk.injEq] at hd
    refine ⟨by simp, ?_⟩
    rw [← hd.1]
    cases idxs <;> simp [digitPts]
  | cons s secs ih =>
    intro idxs i h signs xs pubs P h' signs' xs' hd
    cases idxs with
    | nil => simp [digitLoop] at hd
    | cons d idxs =>
      rw [digitLoop] at hd
      split at hd
      · simp at hd
      · split at hd
        · obtain ⟨h1, h2⟩ := ih _ _ _ _ _ _ _ _ _ _ hd
          exact ⟨by simpa using h1, by rw [h2, digitPts]; simp⟩
        · obtain ⟨h1, h2⟩ := ih _ _ _ _ _ _ _ _ _ _ hd
          exact ⟨by simpa using h1, by rw [h2, digitPts]; simp⟩

omit [HasGroupLaw] in
theorem digitPts_length (scale : Nat) (genp : Pt) : ∀ (secs idxs : List Nat) (i : Nat),
    secs.length ≤ idxs.length → (digitPts scale genp secs idxs i).length = secs.length := by
  intro secs
  induction secs with
  | nil => intro idxs i _; cases idxs <;> rfl
  | cons s secs ih =>
    intro idxs i h
    cases idxs with
    | nil => simp at h
    | cons d idxs => simp [digitPts, ih idxs (i + 1) (by simpa using h)]

omit [HasGroupLaw] in
theorem digitPts_get (scale : Nat) (genp : Pt) : ∀ (secs idxs : List Nat) (i0 i : Nat),
    i < secs.length → i < idxs.length →
    (digitPts scale genp secs idxs i0)[i]? =
      some (pedersenEcmult (secs.getD i 0) (digitValue (idxs.getD i 0) scale (i0 + i)) genp) := by
  intro secs
  induction secs with
  | nil => intro idxs i0 i h; simp at h
  | cons s secs ih =>
    intro idxs i0 i h1 h2
    cases idxs with
    | nil => simp at h2
    | cons d idxs =>
      cases i with
      | zero => simp [digitPts]
      | succ i =>
        rw [digitPts, List.getElem?_cons_succ, ih idxs (i0 + 1) i (by simpa using h1) (by simpa using h2)]
        simp only [List.getD_cons_succ]
        congr 3; omega

omit [HasGroupLaw] in
theorem digitValue_lt (d sc i : Nat) : digitValue d sc i < mulBound := by
  have h1 : digitValue d sc i < 2 ^ 64 := Nat.mod_lt _ (by decide)
  have h2 : (2 : Nat) ^ 64 < mulBound := by decide +kernel
  exact lt_trans h1 h2

/-- **Key consistency.**  With `H` a valid generator, `scale = 10^e`, and digit values that do not wrap
    (`digitValue d_i scale i = d_i·scale·4^i`), the key array that `pubExpand` derives from the digit commitments
    `sec_i•G + (d_i·scale·4^i)•H` has `sec_i•G` at position `d_i` of ring `i`. -/
theorem pubExpand_secret_key (genp : Pt) (hgen : genp.valid = true) (exp : Int) (scale : Nat)
    (hscale : scale = 10 ^ (if exp < 0 then 0 else exp.toNat))
    (rsizes secidx sec : List Nat) (hrs : ∀ r ∈ rsizes, 1 ≤ r)
    (hl1 : secidx.length = rsizes.length) (hl2 : sec.length = rsizes.length)
    (hsec : ∀ j, j < rsizes.length → sec.getD j 0 < N)
    (hdv : ∀ j, j < rsizes.length → digitValue (secidx.getD j 0) scale j = secidx.getD j 0 * scale * 4 ^ j)
    (i : Nat) (hi : i < rsizes.length) (hidx : secidx.getD i 0 < rsizes.getD i 0) :
    (pubExpand (digitPts scale genp sec secidx 0) exp rsizes genp)[Borromean.offset rsizes i + secidx.getD i 0]? =
      some (Pt.mulG (sec.getD i 0)) := by
  -- all digit commitments as valid points
  let H : VPt := ⟨genp, hgen⟩
  let fV : Nat → VPt := fun j => gmulV ((sec.getD j 0 : Nat) : ZMod N) + (digitValue (secidx.getD j 0) scale j) • H
  have hfV : ∀ j, j < rsizes.length →
      pedersenEcmult (sec.getD j 0) (digitValue (secidx.getD j 0) scale j) genp = (fV j).1 := by
    intro j hj
    rw [pedersenEcmult, mulG_eq_gmul (lt_mulBound_of_lt_N (hsec j hj))]
    show Pt.add (gmulV _).1 (Pt.mul _ H.1) = _
    rw [mul_val (digitValue_lt _ _ _)]
    rfl
  have hmap : digitPts scale genp sec secidx 0 = ((List.range rsizes.length).map fV).map Subtype.val := by
    apply List.ext_getElem?
    intro j
    by_cases hj : j < rsizes.length
    · rw [digitPts_get _ _ _ _ _ _ (by omega) (by omega)]
      simp only [List.map_map, List.getElem?_map, List.getElem?_range hj, Option.map_some, Function.comp,
        Nat.zero_add]
      rw [hfV j hj]
    · rw [List.getElem?_eq_none (by rw [digitPts_length _ _ _ _ _ (by omega)]; omega),
        List.getElem?_eq_none (by simp; omega)]
  have hbase : times10Pow (if exp < 0 then 0 else exp.toNat) (Pt.neg genp) = (scale • (-H)).1 := by
    rw [hscale]
    exact times10Pow_val _ (-H)
  rw [pubExpand]
  rw [hbase, hmap]
  have hget := pubExpandGo_get ((List.range rsizes.length).map fV) rsizes (scale • (-H)) i (secidx.getD i 0) (fV i) hrs
    (by simp [List.getElem?_range hi]) hidx
  rw [Borromean.offset, hget, mulG_eq_gmul (lt_mulBound_of_lt_N (hsec i hi))]
  congr 1
  show (fV i + secidx.getD i 0 • ((4 ^ i) • (scale • (-H)))).1 = (gmulV ((sec.getD i 0 : Nat) : ZMod N)).1
  congr 1
  simp only [fV, hdv i hi, smul_neg, smul_smul]
  have e : secidx.getD i 0 * (4 ^ i * scale) = secidx.getD i 0 * scale * 4 ^ i := by ring
  rw [e, add_neg_cancel_right]

end

end Rangeproof
end SecpZkp
