/-
  Helpers for `Props/C05_scalar8x32.lean`: the 8×32-limb scalar kernels (`Gen/K_scalar8x32.lean`, generated from
  `src/scalar_8x32_impl.h`) under the WRAP-AROUND semantics `execL`.

  The 32-bit code is the same algorithm as the 64-bit one with twice as many limbs, so the straight-line programs
  are 2.5 to 3 times longer (`scalar_mul_512`: 516 statements, `scalar_reduce_512`: 615, `scalar_mul`: 1131).
  Executing them with `simp` through an ever-growing chain of memory writes (as `Proofs/ScalarKernel.lean` does
  for the 64-bit code) costs quadratic time in the kernel, so here the accumulator macros are verified ONCE, as
  Hoare-style rules in continuation-passing form, for arbitrary variable names (the translator renames the locals
  of inlined callees):

    `muladd_rule`, `muladd_fast_rule`, `sumadd_rule`, `sumadd_fast_rule`, `extract_rule`, `extract_store_rule`,
    `extract_fast_rule`, `extract_fast_store_rule`, `init_rule`, `assign_rule`, `store_rule`.

  A rule consumes the literal statements of one macro expansion at the head of the program, and hands the rest of
  the program to the continuation together with a FRESH memory `env'` about which exactly the following is known:
  the new values of the accumulator cells `(c0, c1, c2)` (in range, accumulator grown by exactly the added term,
  new numeric bound), and a frame condition (`Frame S env env'`: all cells whose name is not one of the scratch
  names `S` are unchanged).  The proofs in `Props/C05_scalar8x32.lean` are chains of such rule applications; every
  step has constant cost.

  Also here: the 32-bit versions of the pure arithmetic lemmas (`check_overflow_spec32`, `final_reduce_arith32`,
  `add_chain_arith32`, `negate_arith32`, `half_arith32`, `cadd_arith32`, ...).

  No axioms beyond propext / Classical.choice / Quot.sound.
-/
import SecpZkp.Proofs.ScalarKernel

namespace SecpZkp
namespace ScalarKernel32
open MiniC MiniC.Bounds ScalarKernel

/-! ### frames -/

/-- `env'` agrees with `env` on all cells whose NAME is not in `S` -/
def Frame (S : List String) (env env' : Env) : Prop := ∀ x i, x ∉ S → env'.get x i = env.get x i

theorem Frame.refl (S : List String) (env : Env) : Frame S env env := fun _ _ _ => rfl

theorem Frame.trans {S : List String} {e1 e2 e3 : Env} (h12 : Frame S e1 e2) (h23 : Frame S e2 e3) :
    Frame S e1 e3 := fun x i hx => (h23 x i hx).trans (h12 x i hx)

theorem Frame.set {S : List String} {e1 e2 : Env} (h : Frame S e1 e2) {x : String} (hx : x ∈ S) (i v : Nat) :
    Frame S e1 (e2.set x i v) := by
  intro y j hy
  rw [Env.get_set_other _ _ _ _ _ _ (by intro h'; injection h' with h1 _; exact hy (h1 ▸ hx))]
  exact h y j hy

/-- `env'` agrees with `env` on all cells whose name is not in `S`, except the cell `(a, k)` -/
def FrameC (S : List String) (a : String) (k : Nat) (env env' : Env) : Prop :=
  ∀ x i, x ∉ S → (x, i) ≠ (a, k) → env'.get x i = env.get x i

theorem Frame.toC {S : List String} {e1 e2 : Env} (h : Frame S e1 e2) (a : String) (k : Nat) :
    FrameC S a k e1 e2 := fun x i hx _ => h x i hx

theorem FrameC.set {S : List String} {a : String} {k : Nat} {e1 e2 : Env} (h : FrameC S a k e1 e2) {x : String}
    (hx : x ∈ S) (i v : Nat) : FrameC S a k e1 (e2.set x i v) := by
  intro y j hy hne
  rw [Env.get_set_other _ _ _ _ _ _ (by intro h'; injection h' with h1 _; exact hy (h1 ▸ hx))]
  exact h y j hy hne

theorem FrameC.set_self (S : List String) (a : String) (k v : Nat) (env : Env) :
    FrameC S a k env (env.set a k v) := by
  intro y j _ hne
  exact Env.get_set_other _ _ _ _ _ _ hne

/-- transport a fact about a cell from the base memory of a column, through the cumulative frame of the column
    (`hFc`) and the frame of the closing `extract` (`hFx`), to the new memory -/
theorem transport {S : List String} {a : String} {k : Nat} {base env env' : Env} {y : String} {j v : Nat}
    (hFx : FrameC S a k env env') (hFc : Frame S base env) (hy : y ∉ S) (hne : (y, j) ≠ (a, k))
    (h : base.get y j = v) : env'.get y j = v :=
  ((hFx y j hy hne).trans (hFc y j hy)).trans h

/-- the same through a name frame only -/
theorem transportF {S : List String} {base env : Env} {y : String} {j v : Nat}
    (hFc : Frame S base env) (hy : y ∉ S) (h : base.get y j = v) : env.get y j = v :=
  (hFc y j hy).trans h

/-! ### reading operands -/

theorem ev_idx_lit (env : Env) (a : String) (i : Nat) : ev env (.idx a (.lit i)) = env.get a i := by
  rw [ev_idx, ev_lit]

/-- the operand `a[i]` read in the current memory, via the cumulative frame from the base memory -/
theorem ev_idx_of {S : List String} {base env : Env} {a : String} {i v : Nat} (hF : Frame S base env)
    (ha : a ∉ S) (h : base.get a i = v) : ev env (.idx a (.lit i)) = v := by
  rw [ev_idx_lit, hF a i ha, h]

theorem ev_var_of {S : List String} {base env : Env} {x : String} {v : Nat} (hF : Frame S base env)
    (hx : x ∉ S) (h : base.get x 0 = v) : ev env (.var x) = v := by
  rw [ev_var, hF x 0 hx, h]

/-- an expression that is a read of the cell `(y, j)`: `y` (a scalar variable, `j = 0`) or `y[j]` -/
def Reads (e : Expr) (y : String) (j : Nat) : Prop := ∀ env, ev env e = env.get y j

theorem Reads_var (y : String) : Reads (.var y) y 0 := fun env => ev_var env y
theorem Reads_idx (y : String) (j : Nat) : Reads (.idx y (.lit j)) y j := fun env => ev_idx_lit env y j

/-- the constants `SECP256K1_N_C_0 .. 3` as the C code spells them (`~N_0 + 1`, `~N_1`, `~N_2`, `~N_3`) -/
theorem ev_nc0 (env : Env) : ev env (.bin .add 32 (.not 32 (.lit 3493216577)) (.lit 1)) = 801750719 := by
  rw [ev_bin, ev_not, ev_lit, ev_lit]; decide
theorem ev_nc1 (env : Env) : ev env (.not 32 (.lit 3218235020)) = 1076732275 := by
  rw [ev_not, ev_lit]; decide
theorem ev_nc2 (env : Env) : ev env (.not 32 (.lit 2940772411)) = 1354194884 := by
  rw [ev_not, ev_lit]; decide
theorem ev_nc3 (env : Env) : ev env (.not 32 (.lit 3132021990)) = 1162945305 := by
  rw [ev_not, ev_lit]; decide

/-! ### the arithmetic of the accumulator macros, 32-bit limbs

`(c0, c1, c2)` is the accumulator `c0 + c1·2^32 + c2·2^64`; the product is formed in `uint64_t`. -/

/-- the add-with-carry idiom at 32 bits: after `s = x + y` (mod `2^32`), the test `s < y` is the carry -/
theorem carry_eq32 (x y : Nat) (hx : x < 2 ^ 32) (hy : y < 2 ^ 32) :
    (if (x + y) % 2 ^ 32 < y then 1 else 0) = (x + y) / 2 ^ 32 := by
  split <;> omega

theorem muladd_arith32 (M : Nat) (c0 c1 c2 p B Pb : Nat) (h0 : c0 < 2 ^ 32) (h1 : c1 < 2 ^ 32)
    (hp : p ≤ Pb) (hPb : Pb ≤ (2 ^ 32 - 1) * (2 ^ 32 - 1)) (hB : c0 + c1 * 2 ^ 32 + c2 * 2 ^ 64 ≤ B)
    (hno : B + Pb < 2 ^ 64 * M) :
    let c0' := (c0 + p % 2 ^ 64 % 2 ^ 32) % 2 ^ 32
    let th' := (p % 2 ^ 64 / 2 ^ 32 % 2 ^ 32 + if c0' < p % 2 ^ 64 % 2 ^ 32 then 1 else 0) % 2 ^ 32
    let c1' := (c1 + th') % 2 ^ 32
    let k := if c1' < th' then 1 else 0
    c2 + k < M ∧ c0' + c1' * 2 ^ 32 + (c2 + k) * 2 ^ 64 = c0 + c1 * 2 ^ 32 + c2 * 2 ^ 64 + p := by
  intro c0' th' c1' k
  have e0 : (if c0' < p % 2 ^ 64 % 2 ^ 32 then 1 else 0) = (c0 + p % 2 ^ 64 % 2 ^ 32) / 2 ^ 32 :=
    carry_eq32 c0 _ h0 (Nat.mod_lt _ (by decide))
  have e1 : k = (c1 + th') / 2 ^ 32 := carry_eq32 c1 th' h1 (Nat.mod_lt _ (by decide))
  simp only [c1', th', c0', e0] at e1 ⊢
  rw [e1]
  omega

theorem muladd_fast_arith32 (c0 c1 p B Pb : Nat) (h0 : c0 < 2 ^ 32) (h1 : c1 < 2 ^ 32)
    (hp : p ≤ Pb) (hPb : Pb ≤ (2 ^ 32 - 1) * (2 ^ 32 - 1)) (hB : c0 + c1 * 2 ^ 32 ≤ B)
    (hno : B + Pb < 2 ^ 64) :
    let c0' := (c0 + p % 2 ^ 64 % 2 ^ 32) % 2 ^ 32
    let th' := (p % 2 ^ 64 / 2 ^ 32 % 2 ^ 32 + if c0' < p % 2 ^ 64 % 2 ^ 32 then 1 else 0) % 2 ^ 32
    let c1' := (c1 + th') % 2 ^ 32
    c0' + c1' * 2 ^ 32 = c0 + c1 * 2 ^ 32 + p := by
  intro c0' th' c1'
  have e0 : (if c0' < p % 2 ^ 64 % 2 ^ 32 then 1 else 0) = (c0 + p % 2 ^ 64 % 2 ^ 32) / 2 ^ 32 :=
    carry_eq32 c0 _ h0 (Nat.mod_lt _ (by decide))
  simp only [c1', th', c0', e0]
  omega

theorem sumadd_arith32 (c0 c1 c2 a B : Nat) (h0 : c0 < 2 ^ 32) (h1 : c1 < 2 ^ 32) (ha : a < 2 ^ 32)
    (hB : c0 + c1 * 2 ^ 32 + c2 * 2 ^ 64 ≤ B) (hno : B + (2 ^ 32 - 1) < 2 ^ 64 * 2 ^ 32) :
    let c0' := (c0 + a) % 2 ^ 32
    let over := if c0' < a then 1 else 0
    let c1' := (c1 + over) % 2 ^ 32
    let k := if c1' < over then 1 else 0
    c2 + k < 2 ^ 32 ∧ c0' + c1' * 2 ^ 32 + (c2 + k) * 2 ^ 64 = c0 + c1 * 2 ^ 32 + c2 * 2 ^ 64 + a := by
  intro c0' over c1' k
  have e0 : over = (c0 + a) / 2 ^ 32 := carry_eq32 c0 a h0 ha
  have e1 : k = (c1 + over) / 2 ^ 32 := carry_eq32 c1 over h1 (by rw [e0]; omega)
  simp only [c1', c0', e0] at e1 ⊢
  rw [e1]
  omega

theorem sumadd_fast_arith32 (c0 c1 a B : Nat) (h0 : c0 < 2 ^ 32) (h1 : c1 < 2 ^ 32) (ha : a < 2 ^ 32)
    (hB : c0 + c1 * 2 ^ 32 ≤ B) (hno : B + (2 ^ 32 - 1) < 2 ^ 64) :
    let c0' := (c0 + a) % 2 ^ 32
    let c1' := (c1 + if c0' < a then 1 else 0) % 2 ^ 32
    c0' + c1' * 2 ^ 32 = c0 + c1 * 2 ^ 32 + a := by
  intro c0' c1'
  simp only [c1', c0', carry_eq32 c0 a h0 ha]
  omega

/-- `extract`: the accumulator is shifted right by one limb -/
theorem extract_bound32 {c0 c1 c2 B : Nat} (hB : c0 + c1 * 2 ^ 32 + c2 * 2 ^ 64 ≤ B) :
    c1 + c2 * 2 ^ 32 + 0 * 2 ^ 64 ≤ B / 2 ^ 32 := by omega

theorem le_of_lt32 {x : Nat} (h : x < 2 ^ 32) : x ≤ 2 ^ 32 - 1 := by omega
theorem lt32_of_le {x B : Nat} (h : x ≤ B) (hB : B < 2 ^ 32) : x < 2 ^ 32 := by omega

/-! ### the macros in the form produced by symbolic execution (`binWrap` terms) -/

local macro "TL(" a:term "," b:term ")" : term => `(binWrap BinOp.mul 64 $a $b % 2 ^ 32)
local macro "TH(" a:term "," b:term ")" : term =>
  `(binWrap BinOp.shr 64 (binWrap BinOp.mul 64 $a $b) 32 % 2 ^ 32)

/-- `muladd(a, b)` (all of `c0, c1, c2, tl, th` are `uint32_t`, the product is `uint64_t`) -/
theorem muladd_spec32 (c0 c1 c2 a b amax bmax B : Nat) (h0 : c0 < 2 ^ 32) (h1 : c1 < 2 ^ 32)
    (ha : a ≤ amax) (hb : b ≤ bmax) (ham : amax ≤ 2 ^ 32 - 1) (hbm : bmax ≤ 2 ^ 32 - 1)
    (hB : c0 + c1 * 2 ^ 32 + c2 * 2 ^ 64 ≤ B) (hno : B + amax * bmax < 2 ^ 64 * 2 ^ 32) :
    ∃ c0' c1' c2',
      binWrap .add 32 c0 TL(a, b) = c0' ∧
      binWrap .add 32 c1 (binWrap .add 32 TH(a, b) (binWrap .lt 32 c0' TL(a, b))) = c1' ∧
      binWrap .add 32 c2 (binWrap .lt 32 c1' (binWrap .add 32 TH(a, b) (binWrap .lt 32 c0' TL(a, b)))) = c2' ∧
      c0' < 2 ^ 32 ∧ c1' < 2 ^ 32 ∧ c2' < 2 ^ 32 ∧
      c0' + c1' * 2 ^ 32 + c2' * 2 ^ 64 = c0 + c1 * 2 ^ 32 + c2 * 2 ^ 64 + a * b ∧
      c0' + c1' * 2 ^ 32 + c2' * 2 ^ 64 ≤ B + amax * bmax := by
  have hp : a * b ≤ amax * bmax := Nat.mul_le_mul ha hb
  have := muladd_arith32 (2 ^ 32) c0 c1 c2 (a * b) B (amax * bmax) h0 h1 hp (Nat.mul_le_mul ham hbm) hB hno
  dsimp only at this
  obtain ⟨hk, hE⟩ := this
  refine ⟨_, _, _, rfl, rfl, rfl, ?_⟩
  simp only [binWrap_add, binWrap_mul, binWrap_shr, binWrap_lt]
  rw [Nat.mod_eq_of_lt hk]
  exact ⟨Nat.mod_lt _ (by decide), Nat.mod_lt _ (by decide), hk, hE, by omega⟩

/-- `muladd_fast(a, b)`: `c2` is not touched; needs room in 64 bits -/
theorem muladd_fast_spec32 (c0 c1 a b amax bmax B : Nat) (h0 : c0 < 2 ^ 32) (h1 : c1 < 2 ^ 32)
    (ha : a ≤ amax) (hb : b ≤ bmax) (ham : amax ≤ 2 ^ 32 - 1) (hbm : bmax ≤ 2 ^ 32 - 1)
    (hB : c0 + c1 * 2 ^ 32 ≤ B) (hno : B + amax * bmax < 2 ^ 64) :
    ∃ c0' c1',
      binWrap .add 32 c0 TL(a, b) = c0' ∧
      binWrap .add 32 c1 (binWrap .add 32 TH(a, b) (binWrap .lt 32 c0' TL(a, b))) = c1' ∧
      c0' < 2 ^ 32 ∧ c1' < 2 ^ 32 ∧
      c0' + c1' * 2 ^ 32 = c0 + c1 * 2 ^ 32 + a * b ∧
      c0' + c1' * 2 ^ 32 ≤ B + amax * bmax := by
  have hp : a * b ≤ amax * bmax := Nat.mul_le_mul ha hb
  have hE := muladd_fast_arith32 c0 c1 (a * b) B (amax * bmax) h0 h1 hp (Nat.mul_le_mul ham hbm) hB hno
  dsimp only at hE
  refine ⟨_, _, rfl, rfl, ?_⟩
  simp only [binWrap_add, binWrap_mul, binWrap_shr, binWrap_lt]
  exact ⟨Nat.mod_lt _ (by decide), Nat.mod_lt _ (by decide), hE, by omega⟩

/-- `sumadd(a)` -/
theorem sumadd_spec32 (c0 c1 c2 a B : Nat) (h0 : c0 < 2 ^ 32) (h1 : c1 < 2 ^ 32) (ha : a < 2 ^ 32)
    (hB : c0 + c1 * 2 ^ 32 + c2 * 2 ^ 64 ≤ B) (hno : B + (2 ^ 32 - 1) < 2 ^ 64 * 2 ^ 32) :
    ∃ c0' c1' c2',
      binWrap .add 32 c0 a = c0' ∧
      binWrap .add 32 c1 (binWrap .lt 32 c0' a) = c1' ∧
      binWrap .add 32 c2 (binWrap .lt 32 c1' (binWrap .lt 32 c0' a)) = c2' ∧
      c0' < 2 ^ 32 ∧ c1' < 2 ^ 32 ∧ c2' < 2 ^ 32 ∧
      c0' + c1' * 2 ^ 32 + c2' * 2 ^ 64 = c0 + c1 * 2 ^ 32 + c2 * 2 ^ 64 + a ∧
      c0' + c1' * 2 ^ 32 + c2' * 2 ^ 64 ≤ B + (2 ^ 32 - 1) := by
  have := sumadd_arith32 c0 c1 c2 a B h0 h1 ha hB hno
  dsimp only at this
  obtain ⟨hk, hE⟩ := this
  refine ⟨_, _, _, rfl, rfl, rfl, ?_⟩
  simp only [binWrap_add, binWrap_lt]
  rw [Nat.mod_eq_of_lt hk]
  exact ⟨Nat.mod_lt _ (by decide), Nat.mod_lt _ (by decide), hk, hE, by omega⟩

/-- `sumadd_fast(a)`: `c2` is not touched; needs room in 64 bits -/
theorem sumadd_fast_spec32 (c0 c1 a B : Nat) (h0 : c0 < 2 ^ 32) (h1 : c1 < 2 ^ 32) (ha : a < 2 ^ 32)
    (hB : c0 + c1 * 2 ^ 32 ≤ B) (hno : B + (2 ^ 32 - 1) < 2 ^ 64) :
    ∃ c0' c1',
      binWrap .add 32 c0 a = c0' ∧
      binWrap .add 32 c1 (binWrap .lt 32 c0' a) = c1' ∧
      c0' < 2 ^ 32 ∧ c1' < 2 ^ 32 ∧
      c0' + c1' * 2 ^ 32 = c0 + c1 * 2 ^ 32 + a ∧
      c0' + c1' * 2 ^ 32 ≤ B + (2 ^ 32 - 1) := by
  have hE := sumadd_fast_arith32 c0 c1 a B h0 h1 ha hB hno
  dsimp only at hE
  refine ⟨_, _, rfl, rfl, ?_⟩
  simp only [binWrap_add, binWrap_lt]
  exact ⟨Nat.mod_lt _ (by decide), Nat.mod_lt _ (by decide), hE, by omega⟩

/-! ### the rules

Each rule is stated for arbitrary variable names (the translator prefixes the locals of inlined callees); the
side conditions on the names (`Nodup`, membership in the scratch list `S`) are closed `decide`-able facts at
every use. -/

/-- symbolic execution inside the rule proofs: like `steps`, with the name inequalities as extra rewrite rules -/
local macro "xsteps " n:num " [" hs:Lean.Parser.Tactic.simpLemma,* "]" : tactic => `(tactic| (
  rw [runR_eq_runF $n]
  simp only [runF_assign, runF_store, runF_ret, runF_nil, runF_zero, ev_lit, ev_var, ev_idx, ev_bin, ev_cast,
    ev_not, ev_neg, Env.get_set_same, Env.get_set_other, ne_eq, Prod.mk.injEq, false_and,
    and_false, and_true, true_and, not_false_eq_true, not_true_eq_false, $hs,*]))

local macro "xreads " "[" hs:Lean.Parser.Tactic.simpLemma,* "]" : tactic => `(tactic| (
  simp only [Env.get_set_same, Env.get_set_other, ne_eq, Prod.mk.injEq, false_and,
    and_false, and_true, true_and, not_false_eq_true, not_true_eq_false, $hs,*]))

/-- all inequalities between six distinct names, in both orientations -/
theorem ne6 {t th tl c0n c1n c2n : String} (hd : [t, th, tl, c0n, c1n, c2n].Nodup) :
    (¬ t = th ∧ ¬ t = tl ∧ ¬ t = c0n ∧ ¬ t = c1n ∧ ¬ t = c2n ∧ ¬ th = tl ∧ ¬ th = c0n ∧ ¬ th = c1n ∧ ¬ th = c2n ∧
     ¬ tl = c0n ∧ ¬ tl = c1n ∧ ¬ tl = c2n ∧ ¬ c0n = c1n ∧ ¬ c0n = c2n ∧ ¬ c1n = c2n) ∧
    (¬ th = t ∧ ¬ tl = t ∧ ¬ c0n = t ∧ ¬ c1n = t ∧ ¬ c2n = t ∧ ¬ tl = th ∧ ¬ c0n = th ∧ ¬ c1n = th ∧ ¬ c2n = th ∧
     ¬ c0n = tl ∧ ¬ c1n = tl ∧ ¬ c2n = tl ∧ ¬ c1n = c0n ∧ ¬ c2n = c0n ∧ ¬ c2n = c1n) := by
  simp only [List.nodup_cons, List.mem_cons, List.not_mem_nil, not_or, or_false, List.nodup_nil, and_true,
    not_false_eq_true] at hd
  obtain ⟨⟨n1, n2, n3, n4, n5⟩, ⟨n6, n7, n8, n9⟩, ⟨n10, n11, n12⟩, ⟨n13, n14⟩, n15⟩ := hd
  exact ⟨⟨n1, n2, n3, n4, n5, n6, n7, n8, n9, n10, n11, n12, n13, n14, n15⟩,
    fun h => n1 h.symm, fun h => n2 h.symm, fun h => n3 h.symm, fun h => n4 h.symm, fun h => n5 h.symm,
    fun h => n6 h.symm, fun h => n7 h.symm, fun h => n8 h.symm, fun h => n9 h.symm, fun h => n10 h.symm,
    fun h => n11 h.symm, fun h => n12 h.symm, fun h => n13 h.symm, fun h => n14 h.symm, fun h => n15 h.symm⟩

/-- **`muladd(a, b)`**: `(c0, c1, c2) += a·b` -/
theorem muladd_rule {P : Env × Option Nat → Prop} {env : Env} {t th tl c0n c1n c2n : String} {ea eb : Expr}
    {rest : List Stmt} (S : List String) (c0 c1 c2 a b amax bmax B : Nat)
    (hd : [t, th, tl, c0n, c1n, c2n].Nodup) (hS : ∀ x ∈ [t, th, tl, c0n, c1n, c2n], x ∈ S)
    (hc0 : env.get c0n 0 = c0) (hc1 : env.get c1n 0 = c1) (hc2 : env.get c2n 0 = c2)
    (hea : ev env ea = a) (heb : ev env eb = b)
    (h0 : c0 < 2 ^ 32) (h1 : c1 < 2 ^ 32) (ha : a ≤ amax) (hb : b ≤ bmax)
    (ham : amax ≤ 2 ^ 32 - 1) (hbm : bmax ≤ 2 ^ 32 - 1)
    (hB : c0 + c1 * 2 ^ 32 + c2 * 2 ^ 64 ≤ B) (hno : B + amax * bmax < 2 ^ 64 * 2 ^ 32)
    (k : ∀ env' c0' c1' c2', Frame S env env' →
      env'.get c0n 0 = c0' → env'.get c1n 0 = c1' → env'.get c2n 0 = c2' →
      c0' < 2 ^ 32 → c1' < 2 ^ 32 → c2' < 2 ^ 32 →
      c0' + c1' * 2 ^ 32 + c2' * 2 ^ 64 = c0 + c1 * 2 ^ 32 + c2 * 2 ^ 64 + a * b →
      c0' + c1' * 2 ^ 32 + c2' * 2 ^ 64 ≤ B + amax * bmax → P (runR env' rest)) :
    P (runR env (.assign t (.bin .mul 64 ea eb) :: .assign th (.cast 32 (.bin .shr 64 (.var t) (.lit 32))) ::
      .assign tl (.cast 32 (.var t)) :: .assign c0n (.bin .add 32 (.var c0n) (.var tl)) ::
      .assign th (.bin .add 32 (.var th) (.bin .lt 32 (.var c0n) (.var tl))) ::
      .assign c1n (.bin .add 32 (.var c1n) (.var th)) ::
      .assign c2n (.bin .add 32 (.var c2n) (.bin .lt 32 (.var c1n) (.var th))) :: rest)) := by
  obtain ⟨⟨n1, n2, n3, n4, n5, n6, n7, n8, n9, n10, n11, n12, n13, n14, n15⟩,
    m1, m2, m3, m4, m5, m6, m7, m8, m9, m10, m11, m12, m13, m14, m15⟩ := ne6 hd
  have st := hS t (by simp); have sth := hS th (by simp); have stl := hS tl (by simp)
  have s0 := hS c0n (by simp); have s1 := hS c1n (by simp); have s2 := hS c2n (by simp)
  xsteps 7 [hc0, hc1, hc2, hea, heb, n1, n2, n3, n4, n5, n6, n7, n8, n9, n10, n11, n12, n13, n14, n15,
    m1, m2, m3, m4, m5, m6, m7, m8, m9, m10, m11, m12, m13, m14, m15]
  obtain ⟨c0', c1', c2', e0, e1, e2, l0, l1, l2, hA, hB'⟩ :=
    muladd_spec32 c0 c1 c2 a b amax bmax B h0 h1 ha hb ham hbm hB hno
  simp only [e0, e1, e2]
  refine k _ c0' c1' c2' ?_ ?_ ?_ ?_ l0 l1 l2 hA hB'
  · exact (((((((Frame.refl S env).set st _ _).set sth _ _).set stl _ _).set s0 _ _).set sth _ _).set s1 _ _).set
      s2 _ _
  · xreads [n13, n14, m7, m13, m14]
  · xreads [n15, m15]
  · xreads []

/-- **`muladd_fast(a, b)`**: `(c0, c1) += a·b`; `c2` is not touched -/
theorem muladd_fast_rule {P : Env × Option Nat → Prop} {env : Env} {t th tl c0n c1n : String} {ea eb : Expr}
    {rest : List Stmt} (S : List String) (c2n : String) (c0 c1 c2 a b amax bmax B : Nat)
    (hd : [t, th, tl, c0n, c1n, c2n].Nodup) (hS : ∀ x ∈ [t, th, tl, c0n, c1n, c2n], x ∈ S)
    (hc0 : env.get c0n 0 = c0) (hc1 : env.get c1n 0 = c1) (hc2 : env.get c2n 0 = c2)
    (hea : ev env ea = a) (heb : ev env eb = b)
    (h0 : c0 < 2 ^ 32) (h1 : c1 < 2 ^ 32) (ha : a ≤ amax) (hb : b ≤ bmax)
    (ham : amax ≤ 2 ^ 32 - 1) (hbm : bmax ≤ 2 ^ 32 - 1)
    (hB : c0 + c1 * 2 ^ 32 ≤ B) (hno : B + amax * bmax < 2 ^ 64)
    (k : ∀ env' c0' c1', Frame S env env' →
      env'.get c0n 0 = c0' → env'.get c1n 0 = c1' → env'.get c2n 0 = c2 →
      c0' < 2 ^ 32 → c1' < 2 ^ 32 →
      c0' + c1' * 2 ^ 32 = c0 + c1 * 2 ^ 32 + a * b →
      c0' + c1' * 2 ^ 32 ≤ B + amax * bmax → P (runR env' rest)) :
    P (runR env (.assign t (.bin .mul 64 ea eb) :: .assign th (.cast 32 (.bin .shr 64 (.var t) (.lit 32))) ::
      .assign tl (.cast 32 (.var t)) :: .assign c0n (.bin .add 32 (.var c0n) (.var tl)) ::
      .assign th (.bin .add 32 (.var th) (.bin .lt 32 (.var c0n) (.var tl))) ::
      .assign c1n (.bin .add 32 (.var c1n) (.var th)) :: rest)) := by
  obtain ⟨⟨n1, n2, n3, n4, n5, n6, n7, n8, n9, n10, n11, n12, n13, n14, n15⟩,
    m1, m2, m3, m4, m5, m6, m7, m8, m9, m10, m11, m12, m13, m14, m15⟩ := ne6 hd
  have st := hS t (by simp); have sth := hS th (by simp); have stl := hS tl (by simp)
  have s0 := hS c0n (by simp); have s1 := hS c1n (by simp)
  xsteps 6 [hc0, hc1, hea, heb, n1, n2, n3, n4, n5, n6, n7, n8, n9, n10, n11, n12, n13, n14, n15,
    m1, m2, m3, m4, m5, m6, m7, m8, m9, m10, m11, m12, m13, m14, m15]
  obtain ⟨c0', c1', e0, e1, l0, l1, hA, hB'⟩ :=
    muladd_fast_spec32 c0 c1 a b amax bmax B h0 h1 ha hb ham hbm hB hno
  simp only [e0, e1]
  refine k _ c0' c1' ?_ ?_ ?_ ?_ l0 l1 hA hB'
  · exact ((((((Frame.refl S env).set st _ _).set sth _ _).set stl _ _).set s0 _ _).set sth _ _).set s1 _ _
  · xreads [n13, m7, m13]
  · xreads []
  · xreads [m5, m9, m12, m14, m15, hc2]

/-- all inequalities between four distinct names, in both orientations -/
theorem ne4 {ov c0n c1n c2n : String} (hd : [ov, c0n, c1n, c2n].Nodup) :
    (¬ ov = c0n ∧ ¬ ov = c1n ∧ ¬ ov = c2n ∧ ¬ c0n = c1n ∧ ¬ c0n = c2n ∧ ¬ c1n = c2n) ∧
    (¬ c0n = ov ∧ ¬ c1n = ov ∧ ¬ c2n = ov ∧ ¬ c1n = c0n ∧ ¬ c2n = c0n ∧ ¬ c2n = c1n) := by
  simp only [List.nodup_cons, List.mem_cons, List.not_mem_nil, not_or, or_false, List.nodup_nil, and_true,
    not_false_eq_true] at hd
  obtain ⟨⟨n1, n2, n3⟩, ⟨n4, n5⟩, n6⟩ := hd
  exact ⟨⟨n1, n2, n3, n4, n5, n6⟩, fun h => n1 h.symm, fun h => n2 h.symm, fun h => n3 h.symm,
    fun h => n4 h.symm, fun h => n5 h.symm, fun h => n6 h.symm⟩

/-- **`sumadd(a)`**: `(c0, c1, c2) += a`, where `a` is a read of the cell `(y, j)` -/
theorem sumadd_rule {P : Env × Option Nat → Prop} {env : Env} {ov c0n c1n c2n : String} {e : Expr}
    {rest : List Stmt} (S : List String) (y : String) (j : Nat) (c0 c1 c2 a B : Nat)
    (hd : [ov, c0n, c1n, c2n].Nodup) (hS : ∀ x ∈ [ov, c0n, c1n, c2n], x ∈ S)
    (hr : Reads e y j) (hy : y ≠ c0n)
    (hc0 : env.get c0n 0 = c0) (hc1 : env.get c1n 0 = c1) (hc2 : env.get c2n 0 = c2)
    (hea : env.get y j = a)
    (h0 : c0 < 2 ^ 32) (h1 : c1 < 2 ^ 32) (ha : a < 2 ^ 32)
    (hB : c0 + c1 * 2 ^ 32 + c2 * 2 ^ 64 ≤ B) (hno : B + (2 ^ 32 - 1) < 2 ^ 64 * 2 ^ 32)
    (k : ∀ env' c0' c1' c2', Frame S env env' →
      env'.get c0n 0 = c0' → env'.get c1n 0 = c1' → env'.get c2n 0 = c2' →
      c0' < 2 ^ 32 → c1' < 2 ^ 32 → c2' < 2 ^ 32 →
      c0' + c1' * 2 ^ 32 + c2' * 2 ^ 64 = c0 + c1 * 2 ^ 32 + c2 * 2 ^ 64 + a →
      c0' + c1' * 2 ^ 32 + c2' * 2 ^ 64 ≤ B + (2 ^ 32 - 1) → P (runR env' rest)) :
    P (runR env (.assign c0n (.bin .add 32 (.var c0n) e) :: .assign ov (.bin .lt 32 (.var c0n) e) ::
      .assign c1n (.bin .add 32 (.var c1n) (.var ov)) ::
      .assign c2n (.bin .add 32 (.var c2n) (.bin .lt 32 (.var c1n) (.var ov))) :: rest)) := by
  obtain ⟨⟨n1, n2, n3, n4, n5, n6⟩, m1, m2, m3, m4, m5, m6⟩ := ne4 hd
  have sov := hS ov (by simp)
  have s0 := hS c0n (by simp); have s1 := hS c1n (by simp); have s2 := hS c2n (by simp)
  have hr' : ∀ env, ev env e = env.get y j := hr
  xsteps 4 [hr', hy, hc0, hc1, hc2, hea, n1, n2, n3, n4, n5, n6, m1, m2, m3, m4, m5, m6]
  obtain ⟨c0', c1', c2', e0, e1, e2, l0, l1, l2, hA, hB'⟩ := sumadd_spec32 c0 c1 c2 a B h0 h1 ha hB hno
  simp only [e0, e1, e2]
  refine k _ c0' c1' c2' ?_ ?_ ?_ ?_ l0 l1 l2 hA hB'
  · exact ((((Frame.refl S env).set s0 _ _).set sov _ _).set s1 _ _).set s2 _ _
  · xreads [n4, n5, m1]
  · xreads [n6]
  · xreads []

/-- **`sumadd_fast(a)`**: `(c0, c1) += a`; `c2` is not touched -/
theorem sumadd_fast_rule {P : Env × Option Nat → Prop} {env : Env} {c0n c1n : String} {e : Expr}
    {rest : List Stmt} (S : List String) (c2n : String) (y : String) (j : Nat) (c0 c1 c2 a B : Nat)
    (hd : [c0n, c1n, c2n].Nodup) (hS : ∀ x ∈ [c0n, c1n], x ∈ S)
    (hr : Reads e y j) (hy : y ≠ c0n)
    (hc0 : env.get c0n 0 = c0) (hc1 : env.get c1n 0 = c1) (hc2 : env.get c2n 0 = c2)
    (hea : env.get y j = a)
    (h0 : c0 < 2 ^ 32) (h1 : c1 < 2 ^ 32) (ha : a < 2 ^ 32)
    (hB : c0 + c1 * 2 ^ 32 ≤ B) (hno : B + (2 ^ 32 - 1) < 2 ^ 64)
    (k : ∀ env' c0' c1', Frame S env env' →
      env'.get c0n 0 = c0' → env'.get c1n 0 = c1' → env'.get c2n 0 = c2 →
      c0' < 2 ^ 32 → c1' < 2 ^ 32 →
      c0' + c1' * 2 ^ 32 = c0 + c1 * 2 ^ 32 + a →
      c0' + c1' * 2 ^ 32 ≤ B + (2 ^ 32 - 1) → P (runR env' rest)) :
    P (runR env (.assign c0n (.bin .add 32 (.var c0n) e) ::
      .assign c1n (.bin .add 32 (.var c1n) (.bin .lt 32 (.var c0n) e)) :: rest)) := by
  simp only [List.nodup_cons, List.mem_cons, List.not_mem_nil, not_or, or_false, List.nodup_nil, and_true,
    not_false_eq_true] at hd
  obtain ⟨⟨n1, n2⟩, n3⟩ := hd
  have m1 : ¬ c1n = c0n := fun h => n1 h.symm
  have m2 : ¬ c2n = c0n := fun h => n2 h.symm
  have m3 : ¬ c2n = c1n := fun h => n3 h.symm
  have s0 := hS c0n (by simp); have s1 := hS c1n (by simp)
  have hr' : ∀ env, ev env e = env.get y j := hr
  xsteps 2 [hr', hy, hc0, hc1, hea, n1, n2, n3, m1, m2, m3]
  obtain ⟨c0', c1', e0, e1, l0, l1, hA, hB'⟩ := sumadd_fast_spec32 c0 c1 a B h0 h1 ha hB hno
  simp only [e0, e1]
  refine k _ c0' c1' ?_ ?_ ?_ ?_ l0 l1 hA hB'
  · exact ((Frame.refl S env).set s0 _ _).set s1 _ _
  · xreads [n1]
  · xreads []
  · xreads [m2, m3, hc2]

/-- **`extract(n)`** into a scalar variable: `n = c0; c0 = c1; c1 = c2; c2 = 0` -/
theorem extract_rule {P : Env × Option Nat → Prop} {env : Env} {out c0n c1n c2n : String}
    {rest : List Stmt} (S : List String) (c0 c1 c2 : Nat)
    (hd : [out, c0n, c1n, c2n].Nodup) (hS : ∀ x ∈ [c0n, c1n, c2n], x ∈ S)
    (hc0 : env.get c0n 0 = c0) (hc1 : env.get c1n 0 = c1) (hc2 : env.get c2n 0 = c2)
    (k : ∀ env', FrameC S out 0 env env' → env'.get out 0 = c0 →
      env'.get c0n 0 = c1 → env'.get c1n 0 = c2 → env'.get c2n 0 = 0 → P (runR env' rest)) :
    P (runR env (.assign out (.var c0n) :: .assign c0n (.var c1n) :: .assign c1n (.var c2n) ::
      .assign c2n (.lit 0) :: rest)) := by
  obtain ⟨⟨n1, n2, n3, n4, n5, n6⟩, m1, m2, m3, m4, m5, m6⟩ := ne4 hd
  have s0 := hS c0n (by simp); have s1 := hS c1n (by simp); have s2 := hS c2n (by simp)
  xsteps 4 [hc0, hc1, hc2, n1, n2, n3, n4, n5, n6, m1, m2, m3, m4, m5, m6]
  refine k _ ?_ ?_ ?_ ?_ ?_
  · exact (((FrameC.set_self S out 0 _ env).set s0 _ _).set s1 _ _).set s2 _ _
  · xreads [n1, n2, n3]
  · xreads [n4, n5]
  · xreads [n6]
  · xreads []

/-- **`extract(a[i])`** into an array cell -/
theorem extract_store_rule {P : Env × Option Nat → Prop} {env : Env} {out c0n c1n c2n : String} {i : Nat}
    {rest : List Stmt} (S : List String) (c0 c1 c2 : Nat)
    (hd : [out, c0n, c1n, c2n].Nodup) (hS : ∀ x ∈ [c0n, c1n, c2n], x ∈ S)
    (hc0 : env.get c0n 0 = c0) (hc1 : env.get c1n 0 = c1) (hc2 : env.get c2n 0 = c2)
    (k : ∀ env', FrameC S out i env env' → env'.get out i = c0 →
      env'.get c0n 0 = c1 → env'.get c1n 0 = c2 → env'.get c2n 0 = 0 → P (runR env' rest)) :
    P (runR env (.store out (.lit i) (.var c0n) :: .assign c0n (.var c1n) :: .assign c1n (.var c2n) ::
      .assign c2n (.lit 0) :: rest)) := by
  obtain ⟨⟨n1, n2, n3, n4, n5, n6⟩, m1, m2, m3, m4, m5, m6⟩ := ne4 hd
  have s0 := hS c0n (by simp); have s1 := hS c1n (by simp); have s2 := hS c2n (by simp)
  xsteps 4 [hc0, hc1, hc2, n1, n2, n3, n4, n5, n6, m1, m2, m3, m4, m5, m6]
  refine k _ ?_ ?_ ?_ ?_ ?_
  · exact (((FrameC.set_self S out i _ env).set s0 _ _).set s1 _ _).set s2 _ _
  · xreads [n1, n2, n3]
  · xreads [n4, n5]
  · xreads [n6]
  · xreads []

/-- **`extract_fast(n)`** into a scalar variable: `n = c0; c0 = c1; c1 = 0` (`c2` is not touched) -/
theorem extract_fast_rule {P : Env × Option Nat → Prop} {env : Env} {out c0n c1n : String}
    {rest : List Stmt} (S : List String) (c2n : String) (c0 c1 c2 : Nat)
    (hd : [out, c0n, c1n, c2n].Nodup) (hS : ∀ x ∈ [c0n, c1n], x ∈ S)
    (hc0 : env.get c0n 0 = c0) (hc1 : env.get c1n 0 = c1) (hc2 : env.get c2n 0 = c2)
    (k : ∀ env', FrameC S out 0 env env' → env'.get out 0 = c0 →
      env'.get c0n 0 = c1 → env'.get c1n 0 = 0 → env'.get c2n 0 = c2 → P (runR env' rest)) :
    P (runR env (.assign out (.var c0n) :: .assign c0n (.var c1n) :: .assign c1n (.lit 0) :: rest)) := by
  obtain ⟨⟨n1, n2, n3, n4, n5, n6⟩, m1, m2, m3, m4, m5, m6⟩ := ne4 hd
  have s0 := hS c0n (by simp); have s1 := hS c1n (by simp)
  xsteps 3 [hc0, hc1, n1, n2, n3, n4, n5, n6, m1, m2, m3, m4, m5, m6]
  refine k _ ?_ ?_ ?_ ?_ ?_
  · exact ((FrameC.set_self S out 0 _ env).set s0 _ _).set s1 _ _
  · xreads [n1, n2]
  · xreads [n4]
  · xreads []
  · xreads [m3, m5, m6, hc2]

/-- **`extract_fast(a[i])`** into an array cell -/
theorem extract_fast_store_rule {P : Env × Option Nat → Prop} {env : Env} {out c0n c1n : String} {i : Nat}
    {rest : List Stmt} (S : List String) (c2n : String) (c0 c1 c2 : Nat)
    (hd : [out, c0n, c1n, c2n].Nodup) (hS : ∀ x ∈ [c0n, c1n], x ∈ S)
    (hc0 : env.get c0n 0 = c0) (hc1 : env.get c1n 0 = c1) (hc2 : env.get c2n 0 = c2)
    (k : ∀ env', FrameC S out i env env' → env'.get out i = c0 →
      env'.get c0n 0 = c1 → env'.get c1n 0 = 0 → env'.get c2n 0 = c2 → P (runR env' rest)) :
    P (runR env (.store out (.lit i) (.var c0n) :: .assign c0n (.var c1n) :: .assign c1n (.lit 0) :: rest)) := by
  obtain ⟨⟨n1, n2, n3, n4, n5, n6⟩, m1, m2, m3, m4, m5, m6⟩ := ne4 hd
  have s0 := hS c0n (by simp); have s1 := hS c1n (by simp)
  xsteps 3 [hc0, hc1, n1, n2, n3, n4, n5, n6, m1, m2, m3, m4, m5, m6]
  refine k _ ?_ ?_ ?_ ?_ ?_
  · exact ((FrameC.set_self S out i _ env).set s0 _ _).set s1 _ _
  · xreads [n1, n2]
  · xreads [n4]
  · xreads []
  · xreads [m3, m5, m6, hc2]

/-- **initialisation of the accumulator**: `c0 = e; c1 = 0; c2 = 0` -/
theorem init_rule {P : Env × Option Nat → Prop} {env : Env} {c0n c1n c2n : String} {e : Expr}
    {rest : List Stmt} (S : List String) (v : Nat)
    (hd : [c0n, c1n, c2n].Nodup) (hS : ∀ x ∈ [c0n, c1n, c2n], x ∈ S) (he : ev env e = v)
    (k : ∀ env', Frame S env env' → env'.get c0n 0 = v → env'.get c1n 0 = 0 → env'.get c2n 0 = 0 →
      P (runR env' rest)) :
    P (runR env (.assign c0n e :: .assign c1n (.lit 0) :: .assign c2n (.lit 0) :: rest)) := by
  simp only [List.nodup_cons, List.mem_cons, List.not_mem_nil, not_or, or_false, List.nodup_nil, and_true,
    not_false_eq_true] at hd
  obtain ⟨⟨n1, n2⟩, n3⟩ := hd
  have s0 := hS c0n (by simp); have s1 := hS c1n (by simp); have s2 := hS c2n (by simp)
  xsteps 3 [he, n1, n2, n3]
  refine k _ ?_ ?_ ?_ ?_
  · exact (((Frame.refl S env).set s0 _ _).set s1 _ _).set s2 _ _
  · xreads [n1, n2]
  · xreads [n3]
  · xreads []

/-- a single assignment to a scalar variable that is not a scratch name (an output of the computation) -/
theorem assign_rule {P : Env × Option Nat → Prop} {env : Env} {x : String} {e : Expr} {rest : List Stmt}
    (S : List String) (v : Nat) (he : ev env e = v)
    (k : ∀ env', FrameC S x 0 env env' → env'.get x 0 = v → P (runR env' rest)) :
    P (runR env (.assign x e :: rest)) := by
  rw [runR_assign, he]
  exact k _ (FrameC.set_self S x 0 v env) (Env.get_set_same ..)

/-- a single store into an array cell -/
theorem store_rule {P : Env × Option Nat → Prop} {env : Env} {a : String} {i : Nat} {e : Expr} {rest : List Stmt}
    (S : List String) (v : Nat) (he : ev env e = v)
    (k : ∀ env', FrameC S a i env env' → env'.get a i = v → P (runR env' rest)) :
    P (runR env (.store a (.lit i) e :: rest)) := by
  rw [runR_store, he, ev_lit]
  exact k _ (FrameC.set_self S a i v env) (Env.get_set_same ..)

/-- a single assignment to a scratch variable -/
theorem assign_scratch_rule {P : Env × Option Nat → Prop} {env : Env} {x : String} {e : Expr} {rest : List Stmt}
    (S : List String) (v : Nat) (hx : x ∈ S) (he : ev env e = v)
    (k : ∀ env', Frame S env env' → env'.get x 0 = v → P (runR env' rest)) :
    P (runR env (.assign x e :: rest)) := by
  rw [runR_assign, he]
  exact k _ ((Frame.refl S env).set hx _ _) (Env.get_set_same ..)

/-- the end of a program piece -/
theorem nil_rule {P : Env × Option Nat → Prop} {env : Env} (k : P (env, none)) : P (runR env []) := by
  rw [runR_nil]; exact k

/-! ### glue for the bound bookkeeping -/

theorem acc_zero2 {c0 c1 B : Nat} (h : c0 + c1 * 2 ^ 32 ≤ B) : c0 + c1 * 2 ^ 32 + 0 * 2 ^ 64 ≤ B := by
  rw [Nat.zero_mul, Nat.add_zero]; exact h
theorem acc_drop2 {c0 c1 B : Nat} (h : c0 + c1 * 2 ^ 32 + 0 * 2 ^ 64 ≤ B) : c0 + c1 * 2 ^ 32 ≤ B := by
  rw [Nat.zero_mul, Nat.add_zero] at h; exact h
theorem extract_bound32' {c0 c1 B : Nat} (hB : c0 + c1 * 2 ^ 32 ≤ B) : c1 + 0 * 2 ^ 32 ≤ B / 2 ^ 32 := by omega
theorem init_bound32 {x : Nat} (h : x < 2 ^ 32) : x + 0 * 2 ^ 32 ≤ 4294967295 := by omega
theorem zero_lt32 : 0 < 2 ^ 32 := by decide

/-! ## Part 2: arithmetic of the 8-limb functions -/

/-! ### carry chains with a 64-bit accumulator (`t = …; r[i] = t & 0xFFFFFFFF; t >>= 32`) -/

theorem and_mask32 (x : Nat) : x &&& 4294967295 = x % 2 ^ 32 := Nat.and_two_pow_sub_one_eq_mod x 32

/-- the low limb `(uint32_t)(t & 0xFFFFFFFF)` -/
theorem limb_lo (S : Nat) : binWrap BinOp.and 64 S 4294967295 % 2 ^ 32 = S % 2 ^ 32 := by
  rw [binWrap_and, and_mask32, Nat.mod_mod]

/-- the carry `t >> 32` -/
theorem limb_hi (S : Nat) : binWrap BinOp.shr 64 S 32 = S / 2 ^ 32 := rfl

/-- a 64-bit addition that does not wrap -/
theorem wadd64 {x y : Nat} (h : x + y < 2 ^ 64) : binWrap BinOp.add 64 x y = x + y := Nat.mod_eq_of_lt h

/-- a 64-bit multiplication that does not wrap -/
theorem wmul64 {x y : Nat} (h : x * y < 2 ^ 64) : binWrap BinOp.mul 64 x y = x * y := Nat.mod_eq_of_lt h

/-- a 32-bit multiplication that does not wrap -/
theorem wmul32 {x y : Nat} (h : x * y < 2 ^ 32) : binWrap BinOp.mul 32 x y = x * y := Nat.mod_eq_of_lt h

/-- limb and carry of a sum: `r + t·2^32 = S` -/
theorem limb_eq {S r t : Nat} (hr : r = S % 2 ^ 32) (ht : t = S / 2 ^ 32) : r + t * 2 ^ 32 = S ∧ r < 2 ^ 32 := by
  subst hr ht; omega

/-- the top limb (no carry is kept): `r + (S / 2^32)·2^32 = S` -/
theorem limb_eq_top {S r : Nat} (hr : r = S % 2 ^ 32) : r + S / 2 ^ 32 * 2 ^ 32 = S ∧ r < 2 ^ 32 := by
  subst hr; omega

/-- the integer represented by eight 32-bit limbs -/
def val8x32 (x0 x1 x2 x3 x4 x5 x6 x7 : Nat) : Nat :=
  x0 + x1 * 2 ^ 32 + x2 * 2 ^ 64 + x3 * 2 ^ 96 + x4 * 2 ^ 128 + x5 * 2 ^ 160 + x6 * 2 ^ 192 + x7 * 2 ^ 224

/-- the integer represented by sixteen 32-bit limbs -/
def val16x32 (x0 x1 x2 x3 x4 x5 x6 x7 x8 x9 x10 x11 x12 x13 x14 x15 : Nat) : Nat :=
  x0 + x1 * 2 ^ 32 + x2 * 2 ^ 64 + x3 * 2 ^ 96 + x4 * 2 ^ 128 + x5 * 2 ^ 160 + x6 * 2 ^ 192 + x7 * 2 ^ 224 +
  x8 * 2 ^ 256 + x9 * 2 ^ 288 + x10 * 2 ^ 320 + x11 * 2 ^ 352 + x12 * 2 ^ 384 + x13 * 2 ^ 416 + x14 * 2 ^ 448 +
  x15 * 2 ^ 480

theorem val8x32_lt {x0 x1 x2 x3 x4 x5 x6 x7 : Nat} (h0 : x0 < 2 ^ 32) (h1 : x1 < 2 ^ 32) (h2 : x2 < 2 ^ 32)
    (h3 : x3 < 2 ^ 32) (h4 : x4 < 2 ^ 32) (h5 : x5 < 2 ^ 32) (h6 : x6 < 2 ^ 32) (h7 : x7 < 2 ^ 32) :
    val8x32 x0 x1 x2 x3 x4 x5 x6 x7 < 2 ^ 256 := by
  unfold val8x32; omega

set_option exponentiation.threshold 600 in
/-- school-book product of two 8-limb vectors -/
theorem val8x32_mul (a0 a1 a2 a3 a4 a5 a6 a7 b0 b1 b2 b3 b4 b5 b6 b7 : Nat) :
    val8x32 a0 a1 a2 a3 a4 a5 a6 a7 * val8x32 b0 b1 b2 b3 b4 b5 b6 b7 =
      (a0 * b0) +
      (a0 * b1 + a1 * b0) * 2 ^ 32 +
      (a0 * b2 + a1 * b1 + a2 * b0) * 2 ^ 64 +
      (a0 * b3 + a1 * b2 + a2 * b1 + a3 * b0) * 2 ^ 96 +
      (a0 * b4 + a1 * b3 + a2 * b2 + a3 * b1 + a4 * b0) * 2 ^ 128 +
      (a0 * b5 + a1 * b4 + a2 * b3 + a3 * b2 + a4 * b1 + a5 * b0) * 2 ^ 160 +
      (a0 * b6 + a1 * b5 + a2 * b4 + a3 * b3 + a4 * b2 + a5 * b1 + a6 * b0) * 2 ^ 192 +
      (a0 * b7 + a1 * b6 + a2 * b5 + a3 * b4 + a4 * b3 + a5 * b2 + a6 * b1 + a7 * b0) * 2 ^ 224 +
      (a1 * b7 + a2 * b6 + a3 * b5 + a4 * b4 + a5 * b3 + a6 * b2 + a7 * b1) * 2 ^ 256 +
      (a2 * b7 + a3 * b6 + a4 * b5 + a5 * b4 + a6 * b3 + a7 * b2) * 2 ^ 288 +
      (a3 * b7 + a4 * b6 + a5 * b5 + a6 * b4 + a7 * b3) * 2 ^ 320 +
      (a4 * b7 + a5 * b6 + a6 * b5 + a7 * b4) * 2 ^ 352 +
      (a5 * b7 + a6 * b6 + a7 * b5) * 2 ^ 384 +
      (a6 * b7 + a7 * b6) * 2 ^ 416 +
      (a7 * b7) * 2 ^ 448 := by
  unfold val8x32; ring

/-! ### column sums: `A₁ = C + p₁`, `Aᵢ₊₁ = Aᵢ + pᵢ₊₁` give `Aₙ = C + (p₁ + … + pₙ)` -/

theorem colsum1 {A1 C p1 : Nat} (h1 : A1 = C + p1) :
    A1 = C + (p1) := by
  subst h1
  rfl

theorem colsumz1 {A1 p1 : Nat} (h1 : A1 = p1) :
    A1 = (p1) := by
  subst h1
  rfl

theorem colsum2 {A1 A2 C p1 p2 : Nat} (h1 : A1 = C + p1) (h2 : A2 = A1 + p2) :
    A2 = C + (p1 + p2) := by
  subst h1 h2
  simp only [Nat.add_assoc]

theorem colsumz2 {A1 A2 p1 p2 : Nat} (h1 : A1 = p1) (h2 : A2 = A1 + p2) :
    A2 = (p1 + p2) := by
  subst h1 h2
  rfl

theorem colsum3 {A1 A2 A3 C p1 p2 p3 : Nat} (h1 : A1 = C + p1) (h2 : A2 = A1 + p2) (h3 : A3 = A2 + p3) :
    A3 = C + (p1 + p2 + p3) := by
  subst h1 h2 h3
  simp only [Nat.add_assoc]

theorem colsumz3 {A1 A2 A3 p1 p2 p3 : Nat} (h1 : A1 = p1) (h2 : A2 = A1 + p2) (h3 : A3 = A2 + p3) :
    A3 = (p1 + p2 + p3) := by
  subst h1 h2 h3
  rfl

theorem colsum4 {A1 A2 A3 A4 C p1 p2 p3 p4 : Nat} (h1 : A1 = C + p1) (h2 : A2 = A1 + p2) (h3 : A3 = A2 + p3) (h4 : A4 = A3 + p4) :
    A4 = C + (p1 + p2 + p3 + p4) := by
  subst h1 h2 h3 h4
  simp only [Nat.add_assoc]

theorem colsumz4 {A1 A2 A3 A4 p1 p2 p3 p4 : Nat} (h1 : A1 = p1) (h2 : A2 = A1 + p2) (h3 : A3 = A2 + p3) (h4 : A4 = A3 + p4) :
    A4 = (p1 + p2 + p3 + p4) := by
  subst h1 h2 h3 h4
  rfl

theorem colsum5 {A1 A2 A3 A4 A5 C p1 p2 p3 p4 p5 : Nat} (h1 : A1 = C + p1) (h2 : A2 = A1 + p2) (h3 : A3 = A2 + p3) (h4 : A4 = A3 + p4) (h5 : A5 = A4 + p5) :
    A5 = C + (p1 + p2 + p3 + p4 + p5) := by
  subst h1 h2 h3 h4 h5
  simp only [Nat.add_assoc]

theorem colsumz5 {A1 A2 A3 A4 A5 p1 p2 p3 p4 p5 : Nat} (h1 : A1 = p1) (h2 : A2 = A1 + p2) (h3 : A3 = A2 + p3) (h4 : A4 = A3 + p4) (h5 : A5 = A4 + p5) :
    A5 = (p1 + p2 + p3 + p4 + p5) := by
  subst h1 h2 h3 h4 h5
  rfl

theorem colsum6 {A1 A2 A3 A4 A5 A6 C p1 p2 p3 p4 p5 p6 : Nat} (h1 : A1 = C + p1) (h2 : A2 = A1 + p2) (h3 : A3 = A2 + p3) (h4 : A4 = A3 + p4) (h5 : A5 = A4 + p5) (h6 : A6 = A5 + p6) :
    A6 = C + (p1 + p2 + p3 + p4 + p5 + p6) := by
  subst h1 h2 h3 h4 h5 h6
  simp only [Nat.add_assoc]

theorem colsumz6 {A1 A2 A3 A4 A5 A6 p1 p2 p3 p4 p5 p6 : Nat} (h1 : A1 = p1) (h2 : A2 = A1 + p2) (h3 : A3 = A2 + p3) (h4 : A4 = A3 + p4) (h5 : A5 = A4 + p5) (h6 : A6 = A5 + p6) :
    A6 = (p1 + p2 + p3 + p4 + p5 + p6) := by
  subst h1 h2 h3 h4 h5 h6
  rfl

theorem colsum7 {A1 A2 A3 A4 A5 A6 A7 C p1 p2 p3 p4 p5 p6 p7 : Nat} (h1 : A1 = C + p1) (h2 : A2 = A1 + p2) (h3 : A3 = A2 + p3) (h4 : A4 = A3 + p4) (h5 : A5 = A4 + p5) (h6 : A6 = A5 + p6) (h7 : A7 = A6 + p7) :
    A7 = C + (p1 + p2 + p3 + p4 + p5 + p6 + p7) := by
  subst h1 h2 h3 h4 h5 h6 h7
  simp only [Nat.add_assoc]

theorem colsumz7 {A1 A2 A3 A4 A5 A6 A7 p1 p2 p3 p4 p5 p6 p7 : Nat} (h1 : A1 = p1) (h2 : A2 = A1 + p2) (h3 : A3 = A2 + p3) (h4 : A4 = A3 + p4) (h5 : A5 = A4 + p5) (h6 : A6 = A5 + p6) (h7 : A7 = A6 + p7) :
    A7 = (p1 + p2 + p3 + p4 + p5 + p6 + p7) := by
  subst h1 h2 h3 h4 h5 h6 h7
  rfl

theorem colsum8 {A1 A2 A3 A4 A5 A6 A7 A8 C p1 p2 p3 p4 p5 p6 p7 p8 : Nat} (h1 : A1 = C + p1) (h2 : A2 = A1 + p2) (h3 : A3 = A2 + p3) (h4 : A4 = A3 + p4) (h5 : A5 = A4 + p5) (h6 : A6 = A5 + p6) (h7 : A7 = A6 + p7) (h8 : A8 = A7 + p8) :
    A8 = C + (p1 + p2 + p3 + p4 + p5 + p6 + p7 + p8) := by
  subst h1 h2 h3 h4 h5 h6 h7 h8
  simp only [Nat.add_assoc]

theorem colsumz8 {A1 A2 A3 A4 A5 A6 A7 A8 p1 p2 p3 p4 p5 p6 p7 p8 : Nat} (h1 : A1 = p1) (h2 : A2 = A1 + p2) (h3 : A3 = A2 + p3) (h4 : A4 = A3 + p4) (h5 : A5 = A4 + p5) (h6 : A6 = A5 + p6) (h7 : A7 = A6 + p7) (h8 : A8 = A7 + p8) :
    A8 = (p1 + p2 + p3 + p4 + p5 + p6 + p7 + p8) := by
  subst h1 h2 h3 h4 h5 h6 h7 h8
  rfl

theorem colsum9 {A1 A2 A3 A4 A5 A6 A7 A8 A9 C p1 p2 p3 p4 p5 p6 p7 p8 p9 : Nat} (h1 : A1 = C + p1) (h2 : A2 = A1 + p2) (h3 : A3 = A2 + p3) (h4 : A4 = A3 + p4) (h5 : A5 = A4 + p5) (h6 : A6 = A5 + p6) (h7 : A7 = A6 + p7) (h8 : A8 = A7 + p8) (h9 : A9 = A8 + p9) :
    A9 = C + (p1 + p2 + p3 + p4 + p5 + p6 + p7 + p8 + p9) := by
  subst h1 h2 h3 h4 h5 h6 h7 h8 h9
  simp only [Nat.add_assoc]

theorem colsumz9 {A1 A2 A3 A4 A5 A6 A7 A8 A9 p1 p2 p3 p4 p5 p6 p7 p8 p9 : Nat} (h1 : A1 = p1) (h2 : A2 = A1 + p2) (h3 : A3 = A2 + p3) (h4 : A4 = A3 + p4) (h5 : A5 = A4 + p5) (h6 : A6 = A5 + p6) (h7 : A7 = A6 + p7) (h8 : A8 = A7 + p8) (h9 : A9 = A8 + p9) :
    A9 = (p1 + p2 + p3 + p4 + p5 + p6 + p7 + p8 + p9) := by
  subst h1 h2 h3 h4 h5 h6 h7 h8 h9
  rfl

theorem colsum10 {A1 A2 A3 A4 A5 A6 A7 A8 A9 A10 C p1 p2 p3 p4 p5 p6 p7 p8 p9 p10 : Nat} (h1 : A1 = C + p1) (h2 : A2 = A1 + p2) (h3 : A3 = A2 + p3) (h4 : A4 = A3 + p4) (h5 : A5 = A4 + p5) (h6 : A6 = A5 + p6) (h7 : A7 = A6 + p7) (h8 : A8 = A7 + p8) (h9 : A9 = A8 + p9) (h10 : A10 = A9 + p10) :
    A10 = C + (p1 + p2 + p3 + p4 + p5 + p6 + p7 + p8 + p9 + p10) := by
  subst h1 h2 h3 h4 h5 h6 h7 h8 h9 h10
  simp only [Nat.add_assoc]

theorem colsumz10 {A1 A2 A3 A4 A5 A6 A7 A8 A9 A10 p1 p2 p3 p4 p5 p6 p7 p8 p9 p10 : Nat} (h1 : A1 = p1) (h2 : A2 = A1 + p2) (h3 : A3 = A2 + p3) (h4 : A4 = A3 + p4) (h5 : A5 = A4 + p5) (h6 : A6 = A5 + p6) (h7 : A7 = A6 + p7) (h8 : A8 = A7 + p8) (h9 : A9 = A8 + p9) (h10 : A10 = A9 + p10) :
    A10 = (p1 + p2 + p3 + p4 + p5 + p6 + p7 + p8 + p9 + p10) := by
  subst h1 h2 h3 h4 h5 h6 h7 h8 h9 h10
  rfl

theorem reshape3 (t0 t1 t2 : Nat) : t0 + (t1 + t2 * 2 ^ 32) * 2 ^ 32 = t0 + t1 * 2 ^ 32 + t2 * 2 ^ 64 := by ring

/-- a 32-bit addition of small numbers does not wrap -/
theorem add32_small {a b A B : Nat} (h1 : a ≤ A) (h2 : b ≤ B) (h : A + B < 2 ^ 32) : binWrap .add 32 a b = a + b := by
  rw [binWrap_add]; apply Nat.mod_eq_of_lt; omega

/-! ### dropping literal zeros of the accumulator (with explicit lemmas: a `simp` at the hypothesis would use
`Nat.add_zero` as a definitional step, which the kernel then re-checks by unfolding `y * 2 ^ 32`) -/
theorem z3_xy0 (x y p : Nat) : x + y * 2 ^ 32 + 0 * 2 ^ 64 + p = x + y * 2 ^ 32 + p := by
  rw [Nat.zero_mul, Nat.add_zero]
theorem z3_x00 (x p : Nat) : x + 0 * 2 ^ 32 + 0 * 2 ^ 64 + p = x + p := by simp
theorem z3_000 (p : Nat) : 0 + 0 * 2 ^ 32 + 0 * 2 ^ 64 + p = p := by simp
theorem z2_x0 (x p : Nat) : x + 0 * 2 ^ 32 + p = x + p := by simp
theorem z2_00 (p : Nat) : 0 + 0 * 2 ^ 32 + p = p := by simp


/-! ### the cumulative equation of a chain of columns -/

theorem top_le2 {c B : Nat} (h : c + 0 * 2 ^ 32 ≤ B) : c ≤ B := by
  rw [Nat.zero_mul] at h; exact h
theorem top_le3 {c B : Nat} (h : c + 0 * 2 ^ 32 + 0 * 2 ^ 64 ≤ B) : c ≤ B := by
  rw [Nat.zero_mul, Nat.zero_mul] at h; exact h

/-- one more column in the cumulative equation: from `X + C·2^k = R` (outputs so far `X`, accumulator `C` at
    weight `2^k`) and the column equation `o + C'·2^32 = C + T` (the accumulator plus the column terms `T` is the
    output limb `o` plus the new accumulator `C'` one limb higher) -/
theorem combine {X C R o C' T k : Nat} (k' : Nat) (h1 : X + C * 2 ^ k = R) (h2 : o + C' * 2 ^ 32 = C + T)
    (hk : k' = k + 32) : X + o * 2 ^ k + C' * 2 ^ k' = R + T * 2 ^ k := by
  subst hk
  rw [← h1, Nat.pow_add]
  calc X + o * 2 ^ k + C' * (2 ^ k * 2 ^ 32) = X + (o + C' * 2 ^ 32) * 2 ^ k := by ring
    _ = X + (C + T) * 2 ^ k := by rw [h2]
    _ = X + C * 2 ^ k + T * 2 ^ k := by ring

theorem combine_add {X C R k : Nat} (T : Nat) (h1 : X + C * 2 ^ k = R) :
    X + (C + T) * 2 ^ k = R + T * 2 ^ k := by
  rw [← h1]; ring

/-- the limb-wise addition with a 64-bit accumulator (`secp256k1_scalar_add`, first half) -/
theorem add_chain_arith32 (a0 a1 a2 a3 a4 a5 a6 a7 b0 b1 b2 b3 b4 b5 b6 b7 r0 t1 r1 t2 r2 t3 r3 t4 r4 t5 r5 t6 r6 t7 r7 cc : Nat)
    (A0 : a0 < 2 ^ 32) (A1 : a1 < 2 ^ 32) (A2 : a2 < 2 ^ 32) (A3 : a3 < 2 ^ 32) (A4 : a4 < 2 ^ 32) (A5 : a5 < 2 ^ 32) (A6 : a6 < 2 ^ 32) (A7 : a7 < 2 ^ 32)
    (B0 : b0 < 2 ^ 32) (B1 : b1 < 2 ^ 32) (B2 : b2 < 2 ^ 32) (B3 : b3 < 2 ^ 32) (B4 : b4 < 2 ^ 32) (B5 : b5 < 2 ^ 32) (B6 : b6 < 2 ^ 32) (B7 : b7 < 2 ^ 32)
    (r0_def : r0 = binWrap BinOp.and 64 (binWrap BinOp.add 64 a0 b0) 4294967295 % 2 ^ 32)
    (t1_def : t1 = binWrap BinOp.shr 64 (binWrap BinOp.add 64 a0 b0) 32)
    (r1_def : r1 = binWrap BinOp.and 64 (binWrap BinOp.add 64 t1 (binWrap BinOp.add 64 a1 b1)) 4294967295 % 2 ^ 32)
    (t2_def : t2 = binWrap BinOp.shr 64 (binWrap BinOp.add 64 t1 (binWrap BinOp.add 64 a1 b1)) 32)
    (r2_def : r2 = binWrap BinOp.and 64 (binWrap BinOp.add 64 t2 (binWrap BinOp.add 64 a2 b2)) 4294967295 % 2 ^ 32)
    (t3_def : t3 = binWrap BinOp.shr 64 (binWrap BinOp.add 64 t2 (binWrap BinOp.add 64 a2 b2)) 32)
    (r3_def : r3 = binWrap BinOp.and 64 (binWrap BinOp.add 64 t3 (binWrap BinOp.add 64 a3 b3)) 4294967295 % 2 ^ 32)
    (t4_def : t4 = binWrap BinOp.shr 64 (binWrap BinOp.add 64 t3 (binWrap BinOp.add 64 a3 b3)) 32)
    (r4_def : r4 = binWrap BinOp.and 64 (binWrap BinOp.add 64 t4 (binWrap BinOp.add 64 a4 b4)) 4294967295 % 2 ^ 32)
    (t5_def : t5 = binWrap BinOp.shr 64 (binWrap BinOp.add 64 t4 (binWrap BinOp.add 64 a4 b4)) 32)
    (r5_def : r5 = binWrap BinOp.and 64 (binWrap BinOp.add 64 t5 (binWrap BinOp.add 64 a5 b5)) 4294967295 % 2 ^ 32)
    (t6_def : t6 = binWrap BinOp.shr 64 (binWrap BinOp.add 64 t5 (binWrap BinOp.add 64 a5 b5)) 32)
    (r6_def : r6 = binWrap BinOp.and 64 (binWrap BinOp.add 64 t6 (binWrap BinOp.add 64 a6 b6)) 4294967295 % 2 ^ 32)
    (t7_def : t7 = binWrap BinOp.shr 64 (binWrap BinOp.add 64 t6 (binWrap BinOp.add 64 a6 b6)) 32)
    (r7_def : r7 = binWrap BinOp.and 64 (binWrap BinOp.add 64 t7 (binWrap BinOp.add 64 a7 b7)) 4294967295 % 2 ^ 32)
    (cc_def : cc = binWrap BinOp.shr 64 (binWrap BinOp.add 64 t7 (binWrap BinOp.add 64 a7 b7)) 32) :
    r0 < 2 ^ 32 ∧ r1 < 2 ^ 32 ∧ r2 < 2 ^ 32 ∧ r3 < 2 ^ 32 ∧ r4 < 2 ^ 32 ∧ r5 < 2 ^ 32 ∧ r6 < 2 ^ 32 ∧ r7 < 2 ^ 32 ∧ cc ≤ 1 ∧
      val8x32 r0 r1 r2 r3 r4 r5 r6 r7 + cc * 2 ^ 256 = val8x32 a0 a1 a2 a3 a4 a5 a6 a7 + val8x32 b0 b1 b2 b3 b4 b5 b6 b7 := by
  rw [limb_lo] at r0_def; rw [limb_hi] at t1_def
  rw [wadd64 (show a0 + b0 < 2 ^ 64 by omega)] at r0_def t1_def
  obtain ⟨e0, hr0⟩ := limb_eq r0_def t1_def
  clear r0_def t1_def
  have ht1 : t1 ≤ 1 := by omega
  rw [limb_lo] at r1_def; rw [limb_hi] at t2_def
  rw [wadd64 (show a1 + b1 < 2 ^ 64 by omega), wadd64 (show t1 + (a1 + b1) < 2 ^ 64 by omega)] at r1_def t2_def
  obtain ⟨e1, hr1⟩ := limb_eq r1_def t2_def
  clear r1_def t2_def
  have ht2 : t2 ≤ 1 := by omega
  rw [limb_lo] at r2_def; rw [limb_hi] at t3_def
  rw [wadd64 (show a2 + b2 < 2 ^ 64 by omega), wadd64 (show t2 + (a2 + b2) < 2 ^ 64 by omega)] at r2_def t3_def
  obtain ⟨e2, hr2⟩ := limb_eq r2_def t3_def
  clear r2_def t3_def
  have ht3 : t3 ≤ 1 := by omega
  rw [limb_lo] at r3_def; rw [limb_hi] at t4_def
  rw [wadd64 (show a3 + b3 < 2 ^ 64 by omega), wadd64 (show t3 + (a3 + b3) < 2 ^ 64 by omega)] at r3_def t4_def
  obtain ⟨e3, hr3⟩ := limb_eq r3_def t4_def
  clear r3_def t4_def
  have ht4 : t4 ≤ 1 := by omega
  rw [limb_lo] at r4_def; rw [limb_hi] at t5_def
  rw [wadd64 (show a4 + b4 < 2 ^ 64 by omega), wadd64 (show t4 + (a4 + b4) < 2 ^ 64 by omega)] at r4_def t5_def
  obtain ⟨e4, hr4⟩ := limb_eq r4_def t5_def
  clear r4_def t5_def
  have ht5 : t5 ≤ 1 := by omega
  rw [limb_lo] at r5_def; rw [limb_hi] at t6_def
  rw [wadd64 (show a5 + b5 < 2 ^ 64 by omega), wadd64 (show t5 + (a5 + b5) < 2 ^ 64 by omega)] at r5_def t6_def
  obtain ⟨e5, hr5⟩ := limb_eq r5_def t6_def
  clear r5_def t6_def
  have ht6 : t6 ≤ 1 := by omega
  rw [limb_lo] at r6_def; rw [limb_hi] at t7_def
  rw [wadd64 (show a6 + b6 < 2 ^ 64 by omega), wadd64 (show t6 + (a6 + b6) < 2 ^ 64 by omega)] at r6_def t7_def
  obtain ⟨e6, hr6⟩ := limb_eq r6_def t7_def
  clear r6_def t7_def
  have ht7 : t7 ≤ 1 := by omega
  rw [limb_lo] at r7_def; rw [limb_hi] at cc_def
  rw [wadd64 (show a7 + b7 < 2 ^ 64 by omega), wadd64 (show t7 + (a7 + b7) < 2 ^ 64 by omega)] at r7_def cc_def
  obtain ⟨e7, hr7⟩ := limb_eq r7_def cc_def
  clear r7_def cc_def
  have hcc : cc ≤ 1 := by omega
  refine ⟨hr0, hr1, hr2, hr3, hr4, hr5, hr6, hr7, hcc, ?_⟩
  unfold val8x32
  omega

/-- `N_C = 2^256 - N` as 32-bit limbs -/
theorem nc_limbs32 : 801750719 + 1076732275 * 2 ^ 32 + 1354194884 * 2 ^ 64 + 1162945305 * 2 ^ 96 + 2 ^ 128 + N = 2 ^ 256 := by decide

/-- stage 3 of `scalar_reduce_512` (`r = p[0..7] + p8·N_C` with a 64-bit accumulator) -/
theorem red_stage3_arith32 (p0 p1 p2 p3 p4 p5 p6 p7 p8 r0 t1 r1 t2 r2 t3 r3 t4 r4 t5 r5 t6 r6 t7 r7 cc : Nat)
    (P0 : p0 < 2 ^ 32) (P1 : p1 < 2 ^ 32) (P2 : p2 < 2 ^ 32) (P3 : p3 < 2 ^ 32) (P4 : p4 < 2 ^ 32) (P5 : p5 < 2 ^ 32) (P6 : p6 < 2 ^ 32) (P7 : p7 < 2 ^ 32) (P8 : p8 ≤ 3)
    (r0_def : r0 = binWrap BinOp.and 64 (binWrap BinOp.add 64 p0 (binWrap BinOp.mul 64 801750719 p8)) 4294967295 % 2 ^ 32)
    (t1_def : t1 = binWrap BinOp.shr 64 (binWrap BinOp.add 64 p0 (binWrap BinOp.mul 64 801750719 p8)) 32)
    (r1_def : r1 = binWrap BinOp.and 64 (binWrap BinOp.add 64 t1 (binWrap BinOp.add 64 p1 (binWrap BinOp.mul 64 1076732275 p8))) 4294967295 % 2 ^ 32)
    (t2_def : t2 = binWrap BinOp.shr 64 (binWrap BinOp.add 64 t1 (binWrap BinOp.add 64 p1 (binWrap BinOp.mul 64 1076732275 p8))) 32)
    (r2_def : r2 = binWrap BinOp.and 64 (binWrap BinOp.add 64 t2 (binWrap BinOp.add 64 p2 (binWrap BinOp.mul 64 1354194884 p8))) 4294967295 % 2 ^ 32)
    (t3_def : t3 = binWrap BinOp.shr 64 (binWrap BinOp.add 64 t2 (binWrap BinOp.add 64 p2 (binWrap BinOp.mul 64 1354194884 p8))) 32)
    (r3_def : r3 = binWrap BinOp.and 64 (binWrap BinOp.add 64 t3 (binWrap BinOp.add 64 p3 (binWrap BinOp.mul 64 1162945305 p8))) 4294967295 % 2 ^ 32)
    (t4_def : t4 = binWrap BinOp.shr 64 (binWrap BinOp.add 64 t3 (binWrap BinOp.add 64 p3 (binWrap BinOp.mul 64 1162945305 p8))) 32)
    (r4_def : r4 = binWrap BinOp.and 64 (binWrap BinOp.add 64 t4 (binWrap BinOp.add 64 p4 p8)) 4294967295 % 2 ^ 32)
    (t5_def : t5 = binWrap BinOp.shr 64 (binWrap BinOp.add 64 t4 (binWrap BinOp.add 64 p4 p8)) 32)
    (r5_def : r5 = binWrap BinOp.and 64 (binWrap BinOp.add 64 t5 p5) 4294967295 % 2 ^ 32)
    (t6_def : t6 = binWrap BinOp.shr 64 (binWrap BinOp.add 64 t5 p5) 32)
    (r6_def : r6 = binWrap BinOp.and 64 (binWrap BinOp.add 64 t6 p6) 4294967295 % 2 ^ 32)
    (t7_def : t7 = binWrap BinOp.shr 64 (binWrap BinOp.add 64 t6 p6) 32)
    (r7_def : r7 = binWrap BinOp.and 64 (binWrap BinOp.add 64 t7 p7) 4294967295 % 2 ^ 32)
    (cc_def : cc = binWrap BinOp.shr 64 (binWrap BinOp.add 64 t7 p7) 32) :
    r0 < 2 ^ 32 ∧ r1 < 2 ^ 32 ∧ r2 < 2 ^ 32 ∧ r3 < 2 ^ 32 ∧ r4 < 2 ^ 32 ∧ r5 < 2 ^ 32 ∧ r6 < 2 ^ 32 ∧ r7 < 2 ^ 32 ∧ cc ≤ 1 ∧
      val8x32 r0 r1 r2 r3 r4 r5 r6 r7 + cc * 2 ^ 256 = val8x32 p0 p1 p2 p3 p4 p5 p6 p7 +
        p8 * (801750719 + 1076732275 * 2 ^ 32 + 1354194884 * 2 ^ 64 + 1162945305 * 2 ^ 96 + 2 ^ 128) := by
  rw [limb_lo] at r0_def; rw [limb_hi] at t1_def
  rw [wmul64 (show 801750719 * p8 < 2 ^ 64 by omega), wadd64 (show p0 + 801750719 * p8 < 2 ^ 64 by omega)] at r0_def t1_def
  obtain ⟨e0, hr0⟩ := limb_eq r0_def t1_def
  clear r0_def t1_def
  have ht1 : t1 ≤ 1 := by omega
  rw [limb_lo] at r1_def; rw [limb_hi] at t2_def
  rw [wmul64 (show 1076732275 * p8 < 2 ^ 64 by omega), wadd64 (show p1 + 1076732275 * p8 < 2 ^ 64 by omega), wadd64 (show t1 + (p1 + 1076732275 * p8) < 2 ^ 64 by omega)] at r1_def t2_def
  obtain ⟨e1, hr1⟩ := limb_eq r1_def t2_def
  clear r1_def t2_def
  have ht2 : t2 ≤ 1 := by omega
  rw [limb_lo] at r2_def; rw [limb_hi] at t3_def
  rw [wmul64 (show 1354194884 * p8 < 2 ^ 64 by omega), wadd64 (show p2 + 1354194884 * p8 < 2 ^ 64 by omega), wadd64 (show t2 + (p2 + 1354194884 * p8) < 2 ^ 64 by omega)] at r2_def t3_def
  obtain ⟨e2, hr2⟩ := limb_eq r2_def t3_def
  clear r2_def t3_def
  have ht3 : t3 ≤ 1 := by omega
  rw [limb_lo] at r3_def; rw [limb_hi] at t4_def
  rw [wmul64 (show 1162945305 * p8 < 2 ^ 64 by omega), wadd64 (show p3 + 1162945305 * p8 < 2 ^ 64 by omega), wadd64 (show t3 + (p3 + 1162945305 * p8) < 2 ^ 64 by omega)] at r3_def t4_def
  obtain ⟨e3, hr3⟩ := limb_eq r3_def t4_def
  clear r3_def t4_def
  have ht4 : t4 ≤ 1 := by omega
  rw [limb_lo] at r4_def; rw [limb_hi] at t5_def
  rw [wadd64 (show p4 + p8 < 2 ^ 64 by omega), wadd64 (show t4 + (p4 + p8) < 2 ^ 64 by omega)] at r4_def t5_def
  obtain ⟨e4, hr4⟩ := limb_eq r4_def t5_def
  clear r4_def t5_def
  have ht5 : t5 ≤ 1 := by omega
  rw [limb_lo] at r5_def; rw [limb_hi] at t6_def
  rw [wadd64 (show t5 + p5 < 2 ^ 64 by omega)] at r5_def t6_def
  obtain ⟨e5, hr5⟩ := limb_eq r5_def t6_def
  clear r5_def t6_def
  have ht6 : t6 ≤ 1 := by omega
  rw [limb_lo] at r6_def; rw [limb_hi] at t7_def
  rw [wadd64 (show t6 + p6 < 2 ^ 64 by omega)] at r6_def t7_def
  obtain ⟨e6, hr6⟩ := limb_eq r6_def t7_def
  clear r6_def t7_def
  have ht7 : t7 ≤ 1 := by omega
  rw [limb_lo] at r7_def; rw [limb_hi] at cc_def
  rw [wadd64 (show t7 + p7 < 2 ^ 64 by omega)] at r7_def cc_def
  obtain ⟨e7, hr7⟩ := limb_eq r7_def cc_def
  clear r7_def cc_def
  have hcc : cc ≤ 1 := by omega
  refine ⟨hr0, hr1, hr2, hr3, hr4, hr5, hr6, hr7, hcc, ?_⟩
  unfold val8x32
  omega

/-! ### `secp256k1_scalar_check_overflow` (8 limbs)

The C code compares limb by limb from the top, accumulating the 0/1 flags `no` (`a < N` decided) and `yes`
(`a > N` decided).  After the limb `k` has been processed, `no = [D < NN]` and `yes = [NN < D]`, where `D` and `NN`
are the numbers formed by the limbs `7..k` of `a` and of `N`. -/

/-- one `no |= (d < Nk) & ~yes` step -/
theorem ov_no_step (no yes d Nk D NN n' : Nat) (hno : no = if D < NN then 1 else 0)
    (hyes : yes = if NN < D then 1 else 0) (hd : d < 2 ^ 32) (hN : Nk < 2 ^ 32)
    (h : n' = binWrap BinOp.or 32 no (binWrap BinOp.and 32 (binWrap BinOp.lt 32 d Nk) (2 ^ 32 - 1 - yes % 2 ^ 32))) :
    n' = if D * 2 ^ 32 + d < NN * 2 ^ 32 + Nk then 1 else 0 := by
  subst hno hyes h
  simp only [binWrap_or, binWrap_and, binWrap_lt]
  by_cases c1 : D < NN <;> by_cases c2 : NN < D <;> by_cases c3 : d < Nk <;>
  by_cases c4 : D * 2 ^ 32 + d < NN * 2 ^ 32 + Nk <;>
  simp only [c1, c2, c3, c4, if_true, if_false] <;> first | decide | omega

/-- one `yes |= (d > Nk) & ~no` step (`no` already updated for this limb) -/
theorem ov_yes_step (no' yes d Nk D NN y' : Nat) (hno : no' = if D * 2 ^ 32 + d < NN * 2 ^ 32 + Nk then 1 else 0)
    (hyes : yes = if NN < D then 1 else 0) (hd : d < 2 ^ 32) (hN : Nk < 2 ^ 32)
    (h : y' = binWrap BinOp.or 32 yes (binWrap BinOp.and 32 (binWrap BinOp.lt 32 Nk d) (2 ^ 32 - 1 - no' % 2 ^ 32))) :
    y' = if NN * 2 ^ 32 + Nk < D * 2 ^ 32 + d then 1 else 0 := by
  subst hno hyes h
  simp only [binWrap_or, binWrap_and, binWrap_lt]
  by_cases c1 : D * 2 ^ 32 + d < NN * 2 ^ 32 + Nk <;> by_cases c2 : NN < D <;> by_cases c3 : Nk < d <;>
  by_cases c4 : NN * 2 ^ 32 + Nk < D * 2 ^ 32 + d <;>
  simp only [c1, c2, c3, c4, if_true, if_false] <;> first | decide | omega

/-- the last step `yes |= (d >= N0) & ~no` -/
theorem ov_last_step (no yes d Nk D NN y' : Nat) (hno : no = if D < NN then 1 else 0)
    (hyes : yes = if NN < D then 1 else 0) (hd : d < 2 ^ 32) (hN : Nk < 2 ^ 32)
    (h : y' = binWrap BinOp.or 32 yes (binWrap BinOp.and 32 (binWrap BinOp.le 32 Nk d) (2 ^ 32 - 1 - no % 2 ^ 32))) :
    y' = if NN * 2 ^ 32 + Nk ≤ D * 2 ^ 32 + d then 1 else 0 := by
  subst hno hyes h
  simp only [binWrap_or, binWrap_and, binWrap_le]
  by_cases c1 : D < NN <;> by_cases c2 : NN < D <;> by_cases c3 : Nk ≤ d <;>
  by_cases c4 : NN * 2 ^ 32 + Nk ≤ D * 2 ^ 32 + d <;>
  simp only [c1, c2, c3, c4, if_true, if_false] <;> first | decide | omega

/-- the first four `no |= (d < Nk)` steps (limbs 7..4) and the first `yes` step -/
theorem ov_init (r4 r5 r6 r7 n1 n2 n3 n4 y1 : Nat) (h4 : r4 < 2 ^ 32) (h5 : r5 < 2 ^ 32) (h6 : r6 < 2 ^ 32)
    (h7 : r7 < 2 ^ 32)
    (n1_def : n1 = binWrap BinOp.or 32 0 (binWrap BinOp.lt 32 r7 4294967295))
    (n2_def : n2 = binWrap BinOp.or 32 n1 (binWrap BinOp.lt 32 r6 4294967295))
    (n3_def : n3 = binWrap BinOp.or 32 n2 (binWrap BinOp.lt 32 r5 4294967295))
    (n4_def : n4 = binWrap BinOp.or 32 n3 (binWrap BinOp.lt 32 r4 4294967294))
    (y1_def : y1 = binWrap BinOp.or 32 0 (binWrap BinOp.and 32 (binWrap BinOp.lt 32 4294967294 r4)
      (2 ^ 32 - 1 - n4 % 2 ^ 32))) :
    (n4 = if ((r7 * 2 ^ 32 + r6) * 2 ^ 32 + r5) * 2 ^ 32 + r4 <
        ((4294967295 * 2 ^ 32 + 4294967295) * 2 ^ 32 + 4294967295) * 2 ^ 32 + 4294967294 then 1 else 0) ∧
    (y1 = if ((4294967295 * 2 ^ 32 + 4294967295) * 2 ^ 32 + 4294967295) * 2 ^ 32 + 4294967294 <
        ((r7 * 2 ^ 32 + r6) * 2 ^ 32 + r5) * 2 ^ 32 + r4 then 1 else 0) := by
  subst n1_def n2_def n3_def n4_def y1_def
  simp only [binWrap_or, binWrap_and, binWrap_lt]
  by_cases c7 : r7 < 4294967295 <;> by_cases c6 : r6 < 4294967295 <;> by_cases c5 : r5 < 4294967295 <;>
  by_cases c4 : r4 < 4294967294 <;> by_cases d4 : 4294967294 < r4 <;>
  by_cases e1 : ((r7 * 2 ^ 32 + r6) * 2 ^ 32 + r5) * 2 ^ 32 + r4 <
        ((4294967295 * 2 ^ 32 + 4294967295) * 2 ^ 32 + 4294967295) * 2 ^ 32 + 4294967294 <;>
  by_cases e2 : ((4294967295 * 2 ^ 32 + 4294967295) * 2 ^ 32 + 4294967295) * 2 ^ 32 + 4294967294 <
        ((r7 * 2 ^ 32 + r6) * 2 ^ 32 + r5) * 2 ^ 32 + r4 <;>
  simp only [c7, c6, c5, c4, d4, e1, e2, if_true, if_false] <;> first | decide | omega

/-- **`secp256k1_scalar_check_overflow`** (8×32): the branch-free comparison against the limbs of the group
    order, exactly as the C code computes it, is the test `r ≥ N`. -/
theorem check_overflow_spec32 (r0 r1 r2 r3 r4 r5 r6 r7 n1 n2 n3 n4 y1 n5 y2 n6 y3 n7 y4 y5 : Nat)
    (h0 : r0 < 2 ^ 32) (h1 : r1 < 2 ^ 32) (h2 : r2 < 2 ^ 32) (h3 : r3 < 2 ^ 32) (h4 : r4 < 2 ^ 32) (h5 : r5 < 2 ^ 32) (h6 : r6 < 2 ^ 32) (h7 : r7 < 2 ^ 32)
    (n1_def : n1 = binWrap BinOp.or 32 0 (binWrap BinOp.lt 32 r7 4294967295))
    (n2_def : n2 = binWrap BinOp.or 32 n1 (binWrap BinOp.lt 32 r6 4294967295))
    (n3_def : n3 = binWrap BinOp.or 32 n2 (binWrap BinOp.lt 32 r5 4294967295))
    (n4_def : n4 = binWrap BinOp.or 32 n3 (binWrap BinOp.lt 32 r4 4294967294))
    (y1_def : y1 = binWrap BinOp.or 32 0 (binWrap BinOp.and 32 (binWrap BinOp.lt 32 4294967294 r4) (2 ^ 32 - 1 - n4 % 2 ^ 32)))
    (n5_def : n5 = binWrap BinOp.or 32 n4 (binWrap BinOp.and 32 (binWrap BinOp.lt 32 r3 3132021990) (2 ^ 32 - 1 - y1 % 2 ^ 32)))
    (y2_def : y2 = binWrap BinOp.or 32 y1 (binWrap BinOp.and 32 (binWrap BinOp.lt 32 3132021990 r3) (2 ^ 32 - 1 - n5 % 2 ^ 32)))
    (n6_def : n6 = binWrap BinOp.or 32 n5 (binWrap BinOp.and 32 (binWrap BinOp.lt 32 r2 2940772411) (2 ^ 32 - 1 - y2 % 2 ^ 32)))
    (y3_def : y3 = binWrap BinOp.or 32 y2 (binWrap BinOp.and 32 (binWrap BinOp.lt 32 2940772411 r2) (2 ^ 32 - 1 - n6 % 2 ^ 32)))
    (n7_def : n7 = binWrap BinOp.or 32 n6 (binWrap BinOp.and 32 (binWrap BinOp.lt 32 r1 3218235020) (2 ^ 32 - 1 - y3 % 2 ^ 32)))
    (y4_def : y4 = binWrap BinOp.or 32 y3 (binWrap BinOp.and 32 (binWrap BinOp.lt 32 3218235020 r1) (2 ^ 32 - 1 - n7 % 2 ^ 32)))
    (y5_def : y5 = binWrap BinOp.or 32 y4 (binWrap BinOp.and 32 (binWrap BinOp.le 32 3493216577 r0) (2 ^ 32 - 1 - n7 % 2 ^ 32))) :
    y5 = if N ≤ val8x32 r0 r1 r2 r3 r4 r5 r6 r7 then 1 else 0 := by
  obtain ⟨hn4, hy1⟩ := ov_init r4 r5 r6 r7 n1 n2 n3 n4 y1 h4 h5 h6 h7 n1_def n2_def n3_def n4_def y1_def
  have hn5 := ov_no_step n4 y1 r3 3132021990 _ _ n5 hn4 hy1 h3 (by decide) n5_def
  have hy2 := ov_yes_step n5 y1 r3 3132021990 _ _ y2 hn5 hy1 h3 (by decide) y2_def
  have hn6 := ov_no_step n5 y2 r2 2940772411 _ _ n6 hn5 hy2 h2 (by decide) n6_def
  have hy3 := ov_yes_step n6 y2 r2 2940772411 _ _ y3 hn6 hy2 h2 (by decide) y3_def
  have hn7 := ov_no_step n6 y3 r1 3218235020 _ _ n7 hn6 hy3 h1 (by decide) n7_def
  have hy4 := ov_yes_step n7 y3 r1 3218235020 _ _ y4 hn7 hy3 h1 (by decide) y4_def
  have hy5 := ov_last_step n7 y4 r0 3493216577 _ _ y5 hn7 hy4 h0 (by decide) y5_def
  rw [hy5]
  clear * - h0 h1 h2 h3 h4 h5 h6 h7
  unfold val8x32 N
  split <;> split <;> omega


/-- `secp256k1_scalar_reduce(r, overflow)` (8×32) with `overflow = c + check_overflow(r)`: one conditional
    subtraction of `N` brings `r + c·2^256 < 2N` into `[0, N)`. -/
theorem final_reduce_arith32 (r0 r1 r2 r3 r4 r5 r6 r7 cc yes ov q0 u1 q1 u2 q2 u3 q3 u4 q4 u5 q5 u6 q6 u7 q7 : Nat)
    (hr0 : r0 < 2 ^ 32) (hr1 : r1 < 2 ^ 32) (hr2 : r2 < 2 ^ 32) (hr3 : r3 < 2 ^ 32) (hr4 : r4 < 2 ^ 32) (hr5 : r5 < 2 ^ 32) (hr6 : r6 < 2 ^ 32) (hr7 : r7 < 2 ^ 32) (hcc : cc ≤ 1)
    (hlt : val8x32 r0 r1 r2 r3 r4 r5 r6 r7 + cc * 2 ^ 256 < 2 * N)
    (yes_def : yes = if N ≤ val8x32 r0 r1 r2 r3 r4 r5 r6 r7 then 1 else 0)
    (ov_def : ov = binWrap BinOp.add 64 cc (binWrap BinOp.sub 64 (binWrap BinOp.xor 64 yes 2147483648) 2147483648) % 2 ^ 32)
    (q0_def : q0 = binWrap BinOp.and 64 (binWrap BinOp.add 64 r0 (binWrap BinOp.mul 32 ov 801750719)) 4294967295 % 2 ^ 32)
    (u1_def : u1 = binWrap BinOp.shr 64 (binWrap BinOp.add 64 r0 (binWrap BinOp.mul 32 ov 801750719)) 32)
    (q1_def : q1 = binWrap BinOp.and 64 (binWrap BinOp.add 64 u1 (binWrap BinOp.add 64 r1 (binWrap BinOp.mul 32 ov 1076732275))) 4294967295 % 2 ^ 32)
    (u2_def : u2 = binWrap BinOp.shr 64 (binWrap BinOp.add 64 u1 (binWrap BinOp.add 64 r1 (binWrap BinOp.mul 32 ov 1076732275))) 32)
    (q2_def : q2 = binWrap BinOp.and 64 (binWrap BinOp.add 64 u2 (binWrap BinOp.add 64 r2 (binWrap BinOp.mul 32 ov 1354194884))) 4294967295 % 2 ^ 32)
    (u3_def : u3 = binWrap BinOp.shr 64 (binWrap BinOp.add 64 u2 (binWrap BinOp.add 64 r2 (binWrap BinOp.mul 32 ov 1354194884))) 32)
    (q3_def : q3 = binWrap BinOp.and 64 (binWrap BinOp.add 64 u3 (binWrap BinOp.add 64 r3 (binWrap BinOp.mul 32 ov 1162945305))) 4294967295 % 2 ^ 32)
    (u4_def : u4 = binWrap BinOp.shr 64 (binWrap BinOp.add 64 u3 (binWrap BinOp.add 64 r3 (binWrap BinOp.mul 32 ov 1162945305))) 32)
    (q4_def : q4 = binWrap BinOp.and 64 (binWrap BinOp.add 64 u4 (binWrap BinOp.add 64 r4 (binWrap BinOp.mul 32 ov 1))) 4294967295 % 2 ^ 32)
    (u5_def : u5 = binWrap BinOp.shr 64 (binWrap BinOp.add 64 u4 (binWrap BinOp.add 64 r4 (binWrap BinOp.mul 32 ov 1))) 32)
    (q5_def : q5 = binWrap BinOp.and 64 (binWrap BinOp.add 64 u5 r5) 4294967295 % 2 ^ 32)
    (u6_def : u6 = binWrap BinOp.shr 64 (binWrap BinOp.add 64 u5 r5) 32)
    (q6_def : q6 = binWrap BinOp.and 64 (binWrap BinOp.add 64 u6 r6) 4294967295 % 2 ^ 32)
    (u7_def : u7 = binWrap BinOp.shr 64 (binWrap BinOp.add 64 u6 r6) 32)
    (q7_def : q7 = binWrap BinOp.and 64 (binWrap BinOp.add 64 u7 r7) 4294967295 % 2 ^ 32) :
    (N ≤ val8x32 r0 r1 r2 r3 r4 r5 r6 r7 + cc * 2 ^ 256 → ov = 1) ∧
    (val8x32 r0 r1 r2 r3 r4 r5 r6 r7 + cc * 2 ^ 256 < N → ov = 0) ∧
    val8x32 r0 r1 r2 r3 r4 r5 r6 r7 + cc * 2 ^ 256 = val8x32 q0 q1 q2 q3 q4 q5 q6 q7 + N * ov ∧
    val8x32 q0 q1 q2 q3 q4 q5 q6 q7 < N ∧ q0 < 2 ^ 32 ∧ q1 < 2 ^ 32 ∧ q2 < 2 ^ 32 ∧ q3 < 2 ^ 32 ∧ q4 < 2 ^ 32 ∧ q5 < 2 ^ 32 ∧ q6 < 2 ^ 32 ∧ q7 < 2 ^ 32 := by
  have hyes : yes ≤ 1 := by rw [yes_def]; split <;> omega
  rw [sext_01 yes hyes] at ov_def
  simp only [binWrap_add] at ov_def
  have hov : ov = cc + yes := by omega
  clear ov_def
  have hov' : ov ≤ 1 := by
    by_cases hN : N ≤ val8x32 r0 r1 r2 r3 r4 r5 r6 r7
    all_goals (first | rw [if_pos hN] at yes_def | rw [if_neg hN] at yes_def)
    all_goals simp only [N, val8x32] at hN hlt
    all_goals omega
  rw [limb_lo] at q0_def; rw [limb_hi] at u1_def
  rw [wmul32 (show ov * 801750719 < 2 ^ 32 by omega), wadd64 (show r0 + ov * 801750719 < 2 ^ 64 by omega)] at q0_def u1_def
  obtain ⟨e0, hq0⟩ := limb_eq q0_def u1_def
  clear q0_def u1_def
  have hu1 : u1 ≤ 1 := by omega
  rw [limb_lo] at q1_def; rw [limb_hi] at u2_def
  rw [wmul32 (show ov * 1076732275 < 2 ^ 32 by omega), wadd64 (show r1 + ov * 1076732275 < 2 ^ 64 by omega), wadd64 (show u1 + (r1 + ov * 1076732275) < 2 ^ 64 by omega)] at q1_def u2_def
  obtain ⟨e1, hq1⟩ := limb_eq q1_def u2_def
  clear q1_def u2_def
  have hu2 : u2 ≤ 1 := by omega
  rw [limb_lo] at q2_def; rw [limb_hi] at u3_def
  rw [wmul32 (show ov * 1354194884 < 2 ^ 32 by omega), wadd64 (show r2 + ov * 1354194884 < 2 ^ 64 by omega), wadd64 (show u2 + (r2 + ov * 1354194884) < 2 ^ 64 by omega)] at q2_def u3_def
  obtain ⟨e2, hq2⟩ := limb_eq q2_def u3_def
  clear q2_def u3_def
  have hu3 : u3 ≤ 1 := by omega
  rw [limb_lo] at q3_def; rw [limb_hi] at u4_def
  rw [wmul32 (show ov * 1162945305 < 2 ^ 32 by omega), wadd64 (show r3 + ov * 1162945305 < 2 ^ 64 by omega), wadd64 (show u3 + (r3 + ov * 1162945305) < 2 ^ 64 by omega)] at q3_def u4_def
  obtain ⟨e3, hq3⟩ := limb_eq q3_def u4_def
  clear q3_def u4_def
  have hu4 : u4 ≤ 1 := by omega
  rw [limb_lo] at q4_def; rw [limb_hi] at u5_def
  rw [wmul32 (show ov * 1 < 2 ^ 32 by omega), wadd64 (show r4 + ov * 1 < 2 ^ 64 by omega), wadd64 (show u4 + (r4 + ov * 1) < 2 ^ 64 by omega)] at q4_def u5_def
  obtain ⟨e4, hq4⟩ := limb_eq q4_def u5_def
  clear q4_def u5_def
  have hu5 : u5 ≤ 1 := by omega
  rw [limb_lo] at q5_def; rw [limb_hi] at u6_def
  rw [wadd64 (show u5 + r5 < 2 ^ 64 by omega)] at q5_def u6_def
  obtain ⟨e5, hq5⟩ := limb_eq q5_def u6_def
  clear q5_def u6_def
  have hu6 : u6 ≤ 1 := by omega
  rw [limb_lo] at q6_def; rw [limb_hi] at u7_def
  rw [wadd64 (show u6 + r6 < 2 ^ 64 by omega)] at q6_def u7_def
  obtain ⟨e6, hq6⟩ := limb_eq q6_def u7_def
  clear q6_def u7_def
  have hu7 : u7 ≤ 1 := by omega
  rw [limb_lo] at q7_def
  rw [wadd64 (show u7 + r7 < 2 ^ 64 by omega)] at q7_def
  obtain ⟨e7, hq7⟩ := limb_eq_top q7_def
  clear q7_def
  have hu8 : (u7 + r7) / 2 ^ 32 ≤ 1 := by omega
  generalize (u7 + r7) / 2 ^ 32 = u8 at e7 hu8
  have hQ : val8x32 q0 q1 q2 q3 q4 q5 q6 q7 + u8 * 2 ^ 256 = val8x32 r0 r1 r2 r3 r4 r5 r6 r7 +
      ov * (801750719 + 1076732275 * 2 ^ 32 + 1354194884 * 2 ^ 64 + 1162945305 * 2 ^ 96 + 2 ^ 128) := by
    unfold val8x32
    clear * - e0 e1 e2 e3 e4 e5 e6 e7
    omega
  have hQlt : val8x32 q0 q1 q2 q3 q4 q5 q6 q7 < 2 ^ 256 := val8x32_lt hq0 hq1 hq2 hq3 hq4 hq5 hq6 hq7
  have hRlt : val8x32 r0 r1 r2 r3 r4 r5 r6 r7 < 2 ^ 256 := val8x32_lt hr0 hr1 hr2 hr3 hr4 hr5 hr6 hr7
  refine ⟨?_, ?_, ?_, ?_, hq0, hq1, hq2, hq3, hq4, hq5, hq6, hq7⟩
  all_goals clear e0 e1 e2 e3 e4 e5 e6 e7 hq0 hq1 hq2 hq3 hq4 hq5 hq6 hq7 hr0 hr1 hr2 hr3 hr4 hr5 hr6 hr7
  all_goals generalize val8x32 q0 q1 q2 q3 q4 q5 q6 q7 = Q at *
  all_goals generalize val8x32 r0 r1 r2 r3 r4 r5 r6 r7 = R at *
  all_goals by_cases hN : N ≤ R
  all_goals (first | rw [if_pos hN] at yes_def | rw [if_neg hN] at yes_def)
  all_goals simp only [N] at hN hlt ⊢
  all_goals omega

/-! ### `secp256k1_scalar_negate` (8 limbs) -/

/-- the mask `nonzero = 0xFFFFFFFF * (a != 0)` -/
theorem nonzero_mask32 (a0 a1 a2 a3 a4 a5 a6 a7 z nz : Nat)
    (z_def : z = binWrap BinOp.eq 32 (binWrap BinOp.or 32 (binWrap BinOp.or 32 (binWrap BinOp.or 32 (binWrap BinOp.or 32 (binWrap BinOp.or 32 (binWrap BinOp.or 32 (binWrap BinOp.or 32 a0 a1) a2) a3) a4) a5) a6) a7) 0)
    (nz_def : nz = binWrap BinOp.mul 64 4294967295
      (binWrap BinOp.sub 64 (binWrap BinOp.xor 64 (binWrap BinOp.eq 32 z 0) 2147483648) 2147483648) % 2 ^ 32) :
    (a0 = 0 ∧ a1 = 0 ∧ a2 = 0 ∧ a3 = 0 ∧ a4 = 0 ∧ a5 = 0 ∧ a6 = 0 ∧ a7 = 0 ∧ nz = 0) ∨ (¬(a0 = 0 ∧ a1 = 0 ∧ a2 = 0 ∧ a3 = 0 ∧ a4 = 0 ∧ a5 = 0 ∧ a6 = 0 ∧ a7 = 0) ∧ nz = 4294967295) := by
  simp only [binWrap_eq, binWrap_or] at z_def
  by_cases hz : a0 = 0 ∧ a1 = 0 ∧ a2 = 0 ∧ a3 = 0 ∧ a4 = 0 ∧ a5 = 0 ∧ a6 = 0 ∧ a7 = 0
  · left
    obtain ⟨rfl, rfl, rfl, rfl, rfl, rfl, rfl, rfl⟩ := hz
    subst z_def nz_def
    exact ⟨rfl, rfl, rfl, rfl, rfl, rfl, rfl, rfl, by decide⟩
  · right
    refine ⟨hz, ?_⟩
    have : ¬ (((((((a0 ||| a1) ||| a2) ||| a3) ||| a4) ||| a5) ||| a6) ||| a7 = 0) := by
      simp only [Nat.or_eq_zero_iff]; tauto
    rw [if_neg this] at z_def
    subst z_def nz_def
    decide

/-- `secp256k1_scalar_negate` (8×32): `r = ~a + N + 1` limb-wise with a 64-bit accumulator, masked by `nonzero` -/
theorem negate_arith32 (a0 a1 a2 a3 a4 a5 a6 a7 nz r0 t1 r1 t2 r2 t3 r3 t4 r4 t5 r5 t6 r6 t7 r7 : Nat)
    (A0 : a0 < 2 ^ 32) (A1 : a1 < 2 ^ 32) (A2 : a2 < 2 ^ 32) (A3 : a3 < 2 ^ 32) (A4 : a4 < 2 ^ 32) (A5 : a5 < 2 ^ 32) (A6 : a6 < 2 ^ 32) (A7 : a7 < 2 ^ 32) (hA : val8x32 a0 a1 a2 a3 a4 a5 a6 a7 < N)
    (hnz : (a0 = 0 ∧ a1 = 0 ∧ a2 = 0 ∧ a3 = 0 ∧ a4 = 0 ∧ a5 = 0 ∧ a6 = 0 ∧ a7 = 0 ∧ nz = 0) ∨ (¬(a0 = 0 ∧ a1 = 0 ∧ a2 = 0 ∧ a3 = 0 ∧ a4 = 0 ∧ a5 = 0 ∧ a6 = 0 ∧ a7 = 0) ∧ nz = 4294967295))
    (r0_def : r0 = binWrap BinOp.and 64 (binWrap BinOp.add 64 (binWrap BinOp.add 64 (2 ^ 32 - 1 - a0 % 2 ^ 32) 3493216577) 1) nz % 2 ^ 32)
    (t1_def : t1 = binWrap BinOp.shr 64 (binWrap BinOp.add 64 (binWrap BinOp.add 64 (2 ^ 32 - 1 - a0 % 2 ^ 32) 3493216577) 1) 32)
    (r1_def : r1 = binWrap BinOp.and 64 (binWrap BinOp.add 64 t1 (binWrap BinOp.add 64 (2 ^ 32 - 1 - a1 % 2 ^ 32) 3218235020)) nz % 2 ^ 32)
    (t2_def : t2 = binWrap BinOp.shr 64 (binWrap BinOp.add 64 t1 (binWrap BinOp.add 64 (2 ^ 32 - 1 - a1 % 2 ^ 32) 3218235020)) 32)
    (r2_def : r2 = binWrap BinOp.and 64 (binWrap BinOp.add 64 t2 (binWrap BinOp.add 64 (2 ^ 32 - 1 - a2 % 2 ^ 32) 2940772411)) nz % 2 ^ 32)
    (t3_def : t3 = binWrap BinOp.shr 64 (binWrap BinOp.add 64 t2 (binWrap BinOp.add 64 (2 ^ 32 - 1 - a2 % 2 ^ 32) 2940772411)) 32)
    (r3_def : r3 = binWrap BinOp.and 64 (binWrap BinOp.add 64 t3 (binWrap BinOp.add 64 (2 ^ 32 - 1 - a3 % 2 ^ 32) 3132021990)) nz % 2 ^ 32)
    (t4_def : t4 = binWrap BinOp.shr 64 (binWrap BinOp.add 64 t3 (binWrap BinOp.add 64 (2 ^ 32 - 1 - a3 % 2 ^ 32) 3132021990)) 32)
    (r4_def : r4 = binWrap BinOp.and 64 (binWrap BinOp.add 64 t4 (binWrap BinOp.add 64 (2 ^ 32 - 1 - a4 % 2 ^ 32) 4294967294)) nz % 2 ^ 32)
    (t5_def : t5 = binWrap BinOp.shr 64 (binWrap BinOp.add 64 t4 (binWrap BinOp.add 64 (2 ^ 32 - 1 - a4 % 2 ^ 32) 4294967294)) 32)
    (r5_def : r5 = binWrap BinOp.and 64 (binWrap BinOp.add 64 t5 (binWrap BinOp.add 64 (2 ^ 32 - 1 - a5 % 2 ^ 32) 4294967295)) nz % 2 ^ 32)
    (t6_def : t6 = binWrap BinOp.shr 64 (binWrap BinOp.add 64 t5 (binWrap BinOp.add 64 (2 ^ 32 - 1 - a5 % 2 ^ 32) 4294967295)) 32)
    (r6_def : r6 = binWrap BinOp.and 64 (binWrap BinOp.add 64 t6 (binWrap BinOp.add 64 (2 ^ 32 - 1 - a6 % 2 ^ 32) 4294967295)) nz % 2 ^ 32)
    (t7_def : t7 = binWrap BinOp.shr 64 (binWrap BinOp.add 64 t6 (binWrap BinOp.add 64 (2 ^ 32 - 1 - a6 % 2 ^ 32) 4294967295)) 32)
    (r7_def : r7 = binWrap BinOp.and 64 (binWrap BinOp.add 64 t7 (binWrap BinOp.add 64 (2 ^ 32 - 1 - a7 % 2 ^ 32) 4294967295)) nz % 2 ^ 32) :
    val8x32 r0 r1 r2 r3 r4 r5 r6 r7 = (N - val8x32 a0 a1 a2 a3 a4 a5 a6 a7) % N ∧ r0 < 2 ^ 32 ∧ r1 < 2 ^ 32 ∧ r2 < 2 ^ 32 ∧ r3 < 2 ^ 32 ∧ r4 < 2 ^ 32 ∧ r5 < 2 ^ 32 ∧ r6 < 2 ^ 32 ∧ r7 < 2 ^ 32 := by
  rcases hnz with ⟨rfl, rfl, rfl, rfl, rfl, rfl, rfl, rfl, rfl⟩ | ⟨hne, rfl⟩
  · simp only [binWrap_and, Nat.and_zero] at r0_def r1_def r2_def r3_def r4_def r5_def r6_def r7_def
    subst r0_def r1_def r2_def r3_def r4_def r5_def r6_def r7_def
    refine ⟨?_, by decide, by decide, by decide, by decide, by decide, by decide, by decide, by decide⟩
    decide
  · rw [limb_lo] at r0_def; rw [limb_hi] at t1_def
    rw [wadd64 (show (2 ^ 32 - 1 - a0 % 2 ^ 32) + 3493216577 < 2 ^ 64 by omega), wadd64 (show (2 ^ 32 - 1 - a0 % 2 ^ 32) + 3493216577 + 1 < 2 ^ 64 by omega)] at r0_def t1_def
    obtain ⟨e0, hr0⟩ := limb_eq r0_def t1_def
    clear r0_def t1_def
    have ht1 : t1 ≤ 1 := by omega
    rw [limb_lo] at r1_def; rw [limb_hi] at t2_def
    rw [wadd64 (show (2 ^ 32 - 1 - a1 % 2 ^ 32) + 3218235020 < 2 ^ 64 by omega), wadd64 (show t1 + ((2 ^ 32 - 1 - a1 % 2 ^ 32) + 3218235020) < 2 ^ 64 by omega)] at r1_def t2_def
    obtain ⟨e1, hr1⟩ := limb_eq r1_def t2_def
    clear r1_def t2_def
    have ht2 : t2 ≤ 1 := by omega
    rw [limb_lo] at r2_def; rw [limb_hi] at t3_def
    rw [wadd64 (show (2 ^ 32 - 1 - a2 % 2 ^ 32) + 2940772411 < 2 ^ 64 by omega), wadd64 (show t2 + ((2 ^ 32 - 1 - a2 % 2 ^ 32) + 2940772411) < 2 ^ 64 by omega)] at r2_def t3_def
    obtain ⟨e2, hr2⟩ := limb_eq r2_def t3_def
    clear r2_def t3_def
    have ht3 : t3 ≤ 1 := by omega
    rw [limb_lo] at r3_def; rw [limb_hi] at t4_def
    rw [wadd64 (show (2 ^ 32 - 1 - a3 % 2 ^ 32) + 3132021990 < 2 ^ 64 by omega), wadd64 (show t3 + ((2 ^ 32 - 1 - a3 % 2 ^ 32) + 3132021990) < 2 ^ 64 by omega)] at r3_def t4_def
    obtain ⟨e3, hr3⟩ := limb_eq r3_def t4_def
    clear r3_def t4_def
    have ht4 : t4 ≤ 1 := by omega
    rw [limb_lo] at r4_def; rw [limb_hi] at t5_def
    rw [wadd64 (show (2 ^ 32 - 1 - a4 % 2 ^ 32) + 4294967294 < 2 ^ 64 by omega), wadd64 (show t4 + ((2 ^ 32 - 1 - a4 % 2 ^ 32) + 4294967294) < 2 ^ 64 by omega)] at r4_def t5_def
    obtain ⟨e4, hr4⟩ := limb_eq r4_def t5_def
    clear r4_def t5_def
    have ht5 : t5 ≤ 1 := by omega
    rw [limb_lo] at r5_def; rw [limb_hi] at t6_def
    rw [wadd64 (show (2 ^ 32 - 1 - a5 % 2 ^ 32) + 4294967295 < 2 ^ 64 by omega), wadd64 (show t5 + ((2 ^ 32 - 1 - a5 % 2 ^ 32) + 4294967295) < 2 ^ 64 by omega)] at r5_def t6_def
    obtain ⟨e5, hr5⟩ := limb_eq r5_def t6_def
    clear r5_def t6_def
    have ht6 : t6 ≤ 1 := by omega
    rw [limb_lo] at r6_def; rw [limb_hi] at t7_def
    rw [wadd64 (show (2 ^ 32 - 1 - a6 % 2 ^ 32) + 4294967295 < 2 ^ 64 by omega), wadd64 (show t6 + ((2 ^ 32 - 1 - a6 % 2 ^ 32) + 4294967295) < 2 ^ 64 by omega)] at r6_def t7_def
    obtain ⟨e6, hr6⟩ := limb_eq r6_def t7_def
    clear r6_def t7_def
    have ht7 : t7 ≤ 1 := by omega
    rw [limb_lo] at r7_def
    rw [wadd64 (show (2 ^ 32 - 1 - a7 % 2 ^ 32) + 4294967295 < 2 ^ 64 by omega), wadd64 (show t7 + ((2 ^ 32 - 1 - a7 % 2 ^ 32) + 4294967295) < 2 ^ 64 by omega)] at r7_def
    obtain ⟨e7, hr7⟩ := limb_eq_top r7_def
    clear r7_def
    have hu8 : (t7 + (2 ^ 32 - 1 - a7 % 2 ^ 32 + 4294967295)) / 2 ^ 32 ≤ 1 := by omega
    generalize (t7 + (2 ^ 32 - 1 - a7 % 2 ^ 32 + 4294967295)) / 2 ^ 32 = u8 at e7 hu8
    have hpos : 0 < val8x32 a0 a1 a2 a3 a4 a5 a6 a7 := by
      unfold val8x32; omega
    rw [Nat.mod_eq_of_lt (by omega)]
    refine ⟨?_, hr0, hr1, hr2, hr3, hr4, hr5, hr6, hr7⟩
    simp only [val8x32, N] at hA hpos ⊢
    omega

/-! ### `secp256k1_scalar_half` (8 limbs) -/

/-- `(x >> 1) | (y << 31)` at width 32: the low bit of `y` moves into the top bit of the shifted `x` -/
theorem half_or32 (x y : Nat) (hx : x < 2 ^ 32) :
    binWrap BinOp.or 32 (binWrap BinOp.shr 32 x 1) (binWrap BinOp.shl 32 y 31) = x / 2 + y % 2 * 2 ^ 31 := by
  simp only [binWrap_or, binWrap_shr, binWrap_shl]
  have e : y * 2 ^ 31 % 2 ^ 32 = y % 2 * 2 ^ 31 := by omega
  rw [e, Nat.or_comm, FieldKernel.shl_or _ _ 31 (by omega)]
  omega

/-- the mask `-(a0 & 1)` selects a 32-bit constant `K` iff `a0` is odd -/
theorem half_mask32 (a0 mask K : Nat) (hK : K < 2 ^ 32)
    (mask_def : mask = (2 ^ 32 - binWrap BinOp.and 32 a0 1 % 2 ^ 32) % 2 ^ 32) :
    binWrap BinOp.and 32 K mask = a0 % 2 * K := by
  simp only [binWrap_and, Nat.and_one_is_mod] at mask_def ⊢
  have h : a0 % 2 = 0 ∨ a0 % 2 = 1 := by omega
  rcases h with h | h
  · rw [h] at mask_def ⊢
    have : mask = 0 := by omega
    rw [this]; simp
  · rw [h] at mask_def ⊢
    have : mask = 2 ^ 32 - 1 := by omega
    rw [this, Nat.and_two_pow_sub_one_eq_mod, Nat.mod_eq_of_lt hK]; simp

/-- shifting an 8-limb number right by one bit, limb-wise -/
theorem half_shift32 (a0 a1 a2 a3 a4 a5 a6 a7 X0 X1 X2 X3 X4 X5 X6 X7 : Nat)
    (hX0 : a0 / 2 + a1 % 2 * 2 ^ 31 = X0)
    (hX1 : a1 / 2 + a2 % 2 * 2 ^ 31 = X1)
    (hX2 : a2 / 2 + a3 % 2 * 2 ^ 31 = X2)
    (hX3 : a3 / 2 + a4 % 2 * 2 ^ 31 = X3)
    (hX4 : a4 / 2 + a5 % 2 * 2 ^ 31 = X4)
    (hX5 : a5 / 2 + a6 % 2 * 2 ^ 31 = X5)
    (hX6 : a6 / 2 + a7 % 2 * 2 ^ 31 = X6)
    (hX7 : a7 / 2 = X7) :
    val8x32 X0 X1 X2 X3 X4 X5 X6 X7 = val8x32 a0 a1 a2 a3 a4 a5 a6 a7 / 2 := by
  subst hX0 hX1 hX2 hX3 hX4 hX5 hX6 hX7
  unfold val8x32
  omega

/-- `secp256k1_scalar_half` (8×32): `r = (a >> 1) + (a odd ? (N+1)/2 : 0)`, limb-wise with a 64-bit accumulator -/
theorem half_arith32 (a0 a1 a2 a3 a4 a5 a6 a7 mask r0 t1 r1 t2 r2 t3 r3 t4 r4 t5 r5 t6 r6 t7 r7 : Nat)
    (A0 : a0 < 2 ^ 32) (A1 : a1 < 2 ^ 32) (A2 : a2 < 2 ^ 32) (A3 : a3 < 2 ^ 32) (A4 : a4 < 2 ^ 32) (A5 : a5 < 2 ^ 32) (A6 : a6 < 2 ^ 32) (A7 : a7 < 2 ^ 32)
    (mask_def : mask = (2 ^ 32 - binWrap BinOp.and 32 a0 1 % 2 ^ 32) % 2 ^ 32)
    (r0_def : r0 = binWrap BinOp.add 64 (binWrap BinOp.or 32 (binWrap BinOp.shr 32 a0 1) (binWrap BinOp.shl 32 a1 31)) (binWrap BinOp.and 32 1746608289 mask) % 2 ^ 32)
    (t1_def : t1 = binWrap BinOp.shr 64 (binWrap BinOp.add 64 (binWrap BinOp.or 32 (binWrap BinOp.shr 32 a0 1) (binWrap BinOp.shl 32 a1 31)) (binWrap BinOp.and 32 1746608289 mask)) 32)
    (r1_def : r1 = binWrap BinOp.add 64 (binWrap BinOp.add 64 t1 (binWrap BinOp.or 32 (binWrap BinOp.shr 32 a1 1) (binWrap BinOp.shl 32 a2 31))) (binWrap BinOp.and 32 3756601158 mask) % 2 ^ 32)
    (t2_def : t2 = binWrap BinOp.shr 64 (binWrap BinOp.add 64 (binWrap BinOp.add 64 t1 (binWrap BinOp.or 32 (binWrap BinOp.shr 32 a1 1) (binWrap BinOp.shl 32 a2 31))) (binWrap BinOp.and 32 3756601158 mask)) 32)
    (r2_def : r2 = binWrap BinOp.add 64 (binWrap BinOp.add 64 t2 (binWrap BinOp.or 32 (binWrap BinOp.shr 32 a2 1) (binWrap BinOp.shl 32 a3 31))) (binWrap BinOp.and 32 1470386205 mask) % 2 ^ 32)
    (t3_def : t3 = binWrap BinOp.shr 64 (binWrap BinOp.add 64 (binWrap BinOp.add 64 t2 (binWrap BinOp.or 32 (binWrap BinOp.shr 32 a2 1) (binWrap BinOp.shl 32 a3 31))) (binWrap BinOp.and 32 1470386205 mask)) 32)
    (r3_def : r3 = binWrap BinOp.add 64 (binWrap BinOp.add 64 t3 (binWrap BinOp.or 32 (binWrap BinOp.shr 32 a3 1) (binWrap BinOp.shl 32 a4 31))) (binWrap BinOp.and 32 1566010995 mask) % 2 ^ 32)
    (t4_def : t4 = binWrap BinOp.shr 64 (binWrap BinOp.add 64 (binWrap BinOp.add 64 t3 (binWrap BinOp.or 32 (binWrap BinOp.shr 32 a3 1) (binWrap BinOp.shl 32 a4 31))) (binWrap BinOp.and 32 1566010995 mask)) 32)
    (r4_def : r4 = binWrap BinOp.add 64 (binWrap BinOp.add 64 t4 (binWrap BinOp.or 32 (binWrap BinOp.shr 32 a4 1) (binWrap BinOp.shl 32 a5 31))) (binWrap BinOp.and 32 4294967295 mask) % 2 ^ 32)
    (t5_def : t5 = binWrap BinOp.shr 64 (binWrap BinOp.add 64 (binWrap BinOp.add 64 t4 (binWrap BinOp.or 32 (binWrap BinOp.shr 32 a4 1) (binWrap BinOp.shl 32 a5 31))) (binWrap BinOp.and 32 4294967295 mask)) 32)
    (r5_def : r5 = binWrap BinOp.add 64 (binWrap BinOp.add 64 t5 (binWrap BinOp.or 32 (binWrap BinOp.shr 32 a5 1) (binWrap BinOp.shl 32 a6 31))) (binWrap BinOp.and 32 4294967295 mask) % 2 ^ 32)
    (t6_def : t6 = binWrap BinOp.shr 64 (binWrap BinOp.add 64 (binWrap BinOp.add 64 t5 (binWrap BinOp.or 32 (binWrap BinOp.shr 32 a5 1) (binWrap BinOp.shl 32 a6 31))) (binWrap BinOp.and 32 4294967295 mask)) 32)
    (r6_def : r6 = binWrap BinOp.add 64 (binWrap BinOp.add 64 t6 (binWrap BinOp.or 32 (binWrap BinOp.shr 32 a6 1) (binWrap BinOp.shl 32 a7 31))) (binWrap BinOp.and 32 4294967295 mask) % 2 ^ 32)
    (t7_def : t7 = binWrap BinOp.shr 64 (binWrap BinOp.add 64 (binWrap BinOp.add 64 t6 (binWrap BinOp.or 32 (binWrap BinOp.shr 32 a6 1) (binWrap BinOp.shl 32 a7 31))) (binWrap BinOp.and 32 4294967295 mask)) 32)
    (r7_def : r7 = binWrap BinOp.add 32 (binWrap BinOp.add 32 (t7 % 2 ^ 32) (binWrap BinOp.shr 32 a7 1)) (binWrap BinOp.and 32 2147483647 mask)) :
    val8x32 r0 r1 r2 r3 r4 r5 r6 r7 = val8x32 a0 a1 a2 a3 a4 a5 a6 a7 / 2 + val8x32 a0 a1 a2 a3 a4 a5 a6 a7 % 2 * ((N + 1) / 2) ∧ r0 < 2 ^ 32 ∧ r1 < 2 ^ 32 ∧ r2 < 2 ^ 32 ∧ r3 < 2 ^ 32 ∧ r4 < 2 ^ 32 ∧ r5 < 2 ^ 32 ∧ r6 < 2 ^ 32 ∧ r7 < 2 ^ 32 := by
  simp only [half_or32 _ _ A0, half_or32 _ _ A1, half_or32 _ _ A2, half_or32 _ _ A3, half_or32 _ _ A4, half_or32 _ _ A5, half_or32 _ _ A6,
    half_mask32 a0 mask 1470386205 (by decide) mask_def, half_mask32 a0 mask 1566010995 (by decide) mask_def, half_mask32 a0 mask 1746608289 (by decide) mask_def, half_mask32 a0 mask 2147483647 (by decide) mask_def, half_mask32 a0 mask 3756601158 (by decide) mask_def, half_mask32 a0 mask 4294967295 (by decide) mask_def] at r0_def r1_def r2_def r3_def r4_def r5_def r6_def r7_def t1_def t2_def t3_def t4_def t5_def t6_def t7_def
  clear mask_def
  rw [binWrap_shr] at r7_def
  have hpar : val8x32 a0 a1 a2 a3 a4 a5 a6 a7 % 2 = a0 % 2 := by unfold val8x32; clear * -; omega
  have hp : a0 % 2 ≤ 1 := by clear * -; omega
  have bX0 : a0 / 2 + a1 % 2 * 2 ^ 31 < 2 ^ 32 := by clear * - A0; omega
  have bX1 : a1 / 2 + a2 % 2 * 2 ^ 31 < 2 ^ 32 := by clear * - A1; omega
  have bX2 : a2 / 2 + a3 % 2 * 2 ^ 31 < 2 ^ 32 := by clear * - A2; omega
  have bX3 : a3 / 2 + a4 % 2 * 2 ^ 31 < 2 ^ 32 := by clear * - A3; omega
  have bX4 : a4 / 2 + a5 % 2 * 2 ^ 31 < 2 ^ 32 := by clear * - A4; omega
  have bX5 : a5 / 2 + a6 % 2 * 2 ^ 31 < 2 ^ 32 := by clear * - A5; omega
  have bX6 : a6 / 2 + a7 % 2 * 2 ^ 31 < 2 ^ 32 := by clear * - A6; omega
  have bX7 : a7 / 2 < 2 ^ 31 := by clear * - A7; omega
  have hXs := half_shift32 a0 a1 a2 a3 a4 a5 a6 a7 _ _ _ _ _ _ _ _ rfl rfl rfl rfl rfl rfl rfl rfl
  rw [← hXs, hpar]
  clear hXs hpar
  generalize a0 % 2 = p at *
  generalize a0 / 2 + a1 % 2 * 2 ^ 31 = X0 at *
  generalize a1 / 2 + a2 % 2 * 2 ^ 31 = X1 at *
  generalize a2 / 2 + a3 % 2 * 2 ^ 31 = X2 at *
  generalize a3 / 2 + a4 % 2 * 2 ^ 31 = X3 at *
  generalize a4 / 2 + a5 % 2 * 2 ^ 31 = X4 at *
  generalize a5 / 2 + a6 % 2 * 2 ^ 31 = X5 at *
  generalize a6 / 2 + a7 % 2 * 2 ^ 31 = X6 at *
  generalize a7 / 2 = X7 at *
  clear A0 A1 A2 A3 A4 A5 A6 A7
  rw [limb_hi] at t1_def
  rw [wadd64 (show X0 + p * 1746608289 < 2 ^ 64 by omega)] at r0_def t1_def
  obtain ⟨e0, hr0⟩ := limb_eq r0_def t1_def
  clear r0_def t1_def
  have ht1 : t1 ≤ 1 := by omega
  rw [limb_hi] at t2_def
  rw [wadd64 (show t1 + X1 < 2 ^ 64 by omega), wadd64 (show t1 + X1 + p * 3756601158 < 2 ^ 64 by omega)] at r1_def t2_def
  obtain ⟨e1, hr1⟩ := limb_eq r1_def t2_def
  clear r1_def t2_def
  have ht2 : t2 ≤ 1 := by omega
  rw [limb_hi] at t3_def
  rw [wadd64 (show t2 + X2 < 2 ^ 64 by omega), wadd64 (show t2 + X2 + p * 1470386205 < 2 ^ 64 by omega)] at r2_def t3_def
  obtain ⟨e2, hr2⟩ := limb_eq r2_def t3_def
  clear r2_def t3_def
  have ht3 : t3 ≤ 1 := by omega
  rw [limb_hi] at t4_def
  rw [wadd64 (show t3 + X3 < 2 ^ 64 by omega), wadd64 (show t3 + X3 + p * 1566010995 < 2 ^ 64 by omega)] at r3_def t4_def
  obtain ⟨e3, hr3⟩ := limb_eq r3_def t4_def
  clear r3_def t4_def
  have ht4 : t4 ≤ 1 := by omega
  rw [limb_hi] at t5_def
  rw [wadd64 (show t4 + X4 < 2 ^ 64 by omega), wadd64 (show t4 + X4 + p * 4294967295 < 2 ^ 64 by omega)] at r4_def t5_def
  obtain ⟨e4, hr4⟩ := limb_eq r4_def t5_def
  clear r4_def t5_def
  have ht5 : t5 ≤ 1 := by omega
  rw [limb_hi] at t6_def
  rw [wadd64 (show t5 + X5 < 2 ^ 64 by omega), wadd64 (show t5 + X5 + p * 4294967295 < 2 ^ 64 by omega)] at r5_def t6_def
  obtain ⟨e5, hr5⟩ := limb_eq r5_def t6_def
  clear r5_def t6_def
  have ht6 : t6 ≤ 1 := by omega
  rw [limb_hi] at t7_def
  rw [wadd64 (show t6 + X6 < 2 ^ 64 by omega), wadd64 (show t6 + X6 + p * 4294967295 < 2 ^ 64 by omega)] at r6_def t7_def
  obtain ⟨e6, hr6⟩ := limb_eq r6_def t7_def
  clear r6_def t7_def
  have ht7 : t7 ≤ 1 := by omega
  simp only [binWrap_add] at r7_def
  have e7 : r7 = t7 + X7 + p * 2147483647 := by omega
  have hr7 : r7 < 2 ^ 32 := by omega
  clear r7_def
  have hN : (N + 1) / 2 = 1746608289 + 3756601158 * 2 ^ 32 + 1470386205 * 2 ^ 64 + 1566010995 * 2 ^ 96 + 4294967295 * 2 ^ 128 + 4294967295 * 2 ^ 160 + 4294967295 * 2 ^ 192 + 2147483647 * 2 ^ 224 := by decide
  refine ⟨?_, hr0, hr1, hr2, hr3, hr4, hr5, hr6, hr7⟩
  rw [hN]
  clear hN
  unfold val8x32
  omega

/-! ### `secp256k1_scalar_cadd_bit` (8 limbs) -/

/-- the summand `((bit >> 5) == k) << (bit & 0x1F)` of `secp256k1_scalar_cadd_bit` for limb `k` -/
theorem cadd_inc32 (b k : Nat) :
    binWrap BinOp.shl 32 (binWrap BinOp.eq 32 (binWrap BinOp.shr 32 b 5) k) (binWrap BinOp.and 32 b 31) =
      if b / 32 = k then 2 ^ (b % 32) else 0 := by
  simp only [binWrap_eq, binWrap_shr, binWrap_and, binWrap_shl]
  have e31 : b &&& 31 = b % 32 := Nat.and_two_pow_sub_one_eq_mod b 5
  have e32 : b / 2 ^ 5 = b / 32 := rfl
  rw [e31, e32]
  have hs : 2 ^ (b % 32) < 2 ^ 32 := Nat.pow_lt_pow_right (by decide) (Nat.mod_lt _ (by decide))
  by_cases hk : b / 32 = k
  · rw [if_pos hk, if_pos hk, Nat.one_mul, Nat.mod_eq_of_lt hs]
  · rw [if_neg hk, if_neg hk, Nat.zero_mul]; rfl

/-- the carry chain of `secp256k1_scalar_cadd_bit` with arbitrary 32-bit summands `i0..i7` -/
theorem cadd_chain32 (x0 x1 x2 x3 x4 x5 x6 x7 i0 i1 i2 i3 i4 i5 i6 i7 r0 t1 r1 t2 r2 t3 r3 t4 r4 t5 r5 t6 r6 t7 r7 : Nat)
    (X0 : x0 < 2 ^ 32) (X1 : x1 < 2 ^ 32) (X2 : x2 < 2 ^ 32) (X3 : x3 < 2 ^ 32) (X4 : x4 < 2 ^ 32) (X5 : x5 < 2 ^ 32) (X6 : x6 < 2 ^ 32) (X7 : x7 < 2 ^ 32)
    (I0 : i0 < 2 ^ 32) (I1 : i1 < 2 ^ 32) (I2 : i2 < 2 ^ 32) (I3 : i3 < 2 ^ 32) (I4 : i4 < 2 ^ 32) (I5 : i5 < 2 ^ 32) (I6 : i6 < 2 ^ 32) (I7 : i7 < 2 ^ 32)
    (r0_def : r0 = binWrap BinOp.and 64 (binWrap BinOp.add 64 x0 i0) 4294967295 % 2 ^ 32)
    (t1_def : t1 = binWrap BinOp.shr 64 (binWrap BinOp.add 64 x0 i0) 32)
    (r1_def : r1 = binWrap BinOp.and 64 (binWrap BinOp.add 64 t1 (binWrap BinOp.add 64 x1 i1)) 4294967295 % 2 ^ 32)
    (t2_def : t2 = binWrap BinOp.shr 64 (binWrap BinOp.add 64 t1 (binWrap BinOp.add 64 x1 i1)) 32)
    (r2_def : r2 = binWrap BinOp.and 64 (binWrap BinOp.add 64 t2 (binWrap BinOp.add 64 x2 i2)) 4294967295 % 2 ^ 32)
    (t3_def : t3 = binWrap BinOp.shr 64 (binWrap BinOp.add 64 t2 (binWrap BinOp.add 64 x2 i2)) 32)
    (r3_def : r3 = binWrap BinOp.and 64 (binWrap BinOp.add 64 t3 (binWrap BinOp.add 64 x3 i3)) 4294967295 % 2 ^ 32)
    (t4_def : t4 = binWrap BinOp.shr 64 (binWrap BinOp.add 64 t3 (binWrap BinOp.add 64 x3 i3)) 32)
    (r4_def : r4 = binWrap BinOp.and 64 (binWrap BinOp.add 64 t4 (binWrap BinOp.add 64 x4 i4)) 4294967295 % 2 ^ 32)
    (t5_def : t5 = binWrap BinOp.shr 64 (binWrap BinOp.add 64 t4 (binWrap BinOp.add 64 x4 i4)) 32)
    (r5_def : r5 = binWrap BinOp.and 64 (binWrap BinOp.add 64 t5 (binWrap BinOp.add 64 x5 i5)) 4294967295 % 2 ^ 32)
    (t6_def : t6 = binWrap BinOp.shr 64 (binWrap BinOp.add 64 t5 (binWrap BinOp.add 64 x5 i5)) 32)
    (r6_def : r6 = binWrap BinOp.and 64 (binWrap BinOp.add 64 t6 (binWrap BinOp.add 64 x6 i6)) 4294967295 % 2 ^ 32)
    (t7_def : t7 = binWrap BinOp.shr 64 (binWrap BinOp.add 64 t6 (binWrap BinOp.add 64 x6 i6)) 32)
    (r7_def : r7 = binWrap BinOp.and 64 (binWrap BinOp.add 64 t7 (binWrap BinOp.add 64 x7 i7)) 4294967295 % 2 ^ 32) :
    ∃ u8, u8 ≤ 1 ∧ val8x32 r0 r1 r2 r3 r4 r5 r6 r7 + u8 * 2 ^ 256 = val8x32 x0 x1 x2 x3 x4 x5 x6 x7 + val8x32 i0 i1 i2 i3 i4 i5 i6 i7 ∧ r0 < 2 ^ 32 ∧ r1 < 2 ^ 32 ∧ r2 < 2 ^ 32 ∧ r3 < 2 ^ 32 ∧ r4 < 2 ^ 32 ∧ r5 < 2 ^ 32 ∧ r6 < 2 ^ 32 ∧ r7 < 2 ^ 32 := by
  rw [limb_lo] at r0_def; rw [limb_hi] at t1_def
  rw [wadd64 (show x0 + i0 < 2 ^ 64 by omega)] at r0_def t1_def
  obtain ⟨e0, hr0⟩ := limb_eq r0_def t1_def
  clear r0_def t1_def
  have ht1 : t1 ≤ 1 := by omega
  rw [limb_lo] at r1_def; rw [limb_hi] at t2_def
  rw [wadd64 (show x1 + i1 < 2 ^ 64 by omega), wadd64 (show t1 + (x1 + i1) < 2 ^ 64 by omega)] at r1_def t2_def
  obtain ⟨e1, hr1⟩ := limb_eq r1_def t2_def
  clear r1_def t2_def
  have ht2 : t2 ≤ 1 := by omega
  rw [limb_lo] at r2_def; rw [limb_hi] at t3_def
  rw [wadd64 (show x2 + i2 < 2 ^ 64 by omega), wadd64 (show t2 + (x2 + i2) < 2 ^ 64 by omega)] at r2_def t3_def
  obtain ⟨e2, hr2⟩ := limb_eq r2_def t3_def
  clear r2_def t3_def
  have ht3 : t3 ≤ 1 := by omega
  rw [limb_lo] at r3_def; rw [limb_hi] at t4_def
  rw [wadd64 (show x3 + i3 < 2 ^ 64 by omega), wadd64 (show t3 + (x3 + i3) < 2 ^ 64 by omega)] at r3_def t4_def
  obtain ⟨e3, hr3⟩ := limb_eq r3_def t4_def
  clear r3_def t4_def
  have ht4 : t4 ≤ 1 := by omega
  rw [limb_lo] at r4_def; rw [limb_hi] at t5_def
  rw [wadd64 (show x4 + i4 < 2 ^ 64 by omega), wadd64 (show t4 + (x4 + i4) < 2 ^ 64 by omega)] at r4_def t5_def
  obtain ⟨e4, hr4⟩ := limb_eq r4_def t5_def
  clear r4_def t5_def
  have ht5 : t5 ≤ 1 := by omega
  rw [limb_lo] at r5_def; rw [limb_hi] at t6_def
  rw [wadd64 (show x5 + i5 < 2 ^ 64 by omega), wadd64 (show t5 + (x5 + i5) < 2 ^ 64 by omega)] at r5_def t6_def
  obtain ⟨e5, hr5⟩ := limb_eq r5_def t6_def
  clear r5_def t6_def
  have ht6 : t6 ≤ 1 := by omega
  rw [limb_lo] at r6_def; rw [limb_hi] at t7_def
  rw [wadd64 (show x6 + i6 < 2 ^ 64 by omega), wadd64 (show t6 + (x6 + i6) < 2 ^ 64 by omega)] at r6_def t7_def
  obtain ⟨e6, hr6⟩ := limb_eq r6_def t7_def
  clear r6_def t7_def
  have ht7 : t7 ≤ 1 := by omega
  rw [limb_lo] at r7_def
  rw [wadd64 (show x7 + i7 < 2 ^ 64 by omega), wadd64 (show t7 + (x7 + i7) < 2 ^ 64 by omega)] at r7_def
  obtain ⟨e7, hr7⟩ := limb_eq_top r7_def
  clear r7_def
  have hu8 : (t7 + (x7 + i7)) / 2 ^ 32 ≤ 1 := by omega
  generalize (t7 + (x7 + i7)) / 2 ^ 32 = u8 at e7 hu8
  refine ⟨u8, hu8, ?_, hr0, hr1, hr2, hr3, hr4, hr5, hr6, hr7⟩
  unfold val8x32
  omega

set_option maxHeartbeats 1000000 in
/-- `secp256k1_scalar_cadd_bit` (8×32): `r += flag·2^bit` (no overflow out of 256 bits by hypothesis) -/
theorem cadd_arith32 (x0 x1 x2 x3 x4 x5 x6 x7 bit flag b r0 t1 r1 t2 r2 t3 r3 t4 r4 t5 r5 t6 r6 t7 r7 : Nat)
    (X0 : x0 < 2 ^ 32) (X1 : x1 < 2 ^ 32) (X2 : x2 < 2 ^ 32) (X3 : x3 < 2 ^ 32) (X4 : x4 < 2 ^ 32) (X5 : x5 < 2 ^ 32) (X6 : x6 < 2 ^ 32) (X7 : x7 < 2 ^ 32)
    (hbit : bit < 256) (hflag : flag ≤ 1) (hno : val8x32 x0 x1 x2 x3 x4 x5 x6 x7 + flag * 2 ^ bit < 2 ^ 256)
    (hb : (flag = 1 ∧ b = bit) ∨ (flag = 0 ∧ b = bit + 256))
    (r0_def : r0 = binWrap BinOp.and 64 (binWrap BinOp.add 64 x0 (if b / 32 = 0 then 2 ^ (b % 32) else 0)) 4294967295 % 2 ^ 32)
    (t1_def : t1 = binWrap BinOp.shr 64 (binWrap BinOp.add 64 x0 (if b / 32 = 0 then 2 ^ (b % 32) else 0)) 32)
    (r1_def : r1 = binWrap BinOp.and 64 (binWrap BinOp.add 64 t1 (binWrap BinOp.add 64 x1 (if b / 32 = 1 then 2 ^ (b % 32) else 0))) 4294967295 % 2 ^ 32)
    (t2_def : t2 = binWrap BinOp.shr 64 (binWrap BinOp.add 64 t1 (binWrap BinOp.add 64 x1 (if b / 32 = 1 then 2 ^ (b % 32) else 0))) 32)
    (r2_def : r2 = binWrap BinOp.and 64 (binWrap BinOp.add 64 t2 (binWrap BinOp.add 64 x2 (if b / 32 = 2 then 2 ^ (b % 32) else 0))) 4294967295 % 2 ^ 32)
    (t3_def : t3 = binWrap BinOp.shr 64 (binWrap BinOp.add 64 t2 (binWrap BinOp.add 64 x2 (if b / 32 = 2 then 2 ^ (b % 32) else 0))) 32)
    (r3_def : r3 = binWrap BinOp.and 64 (binWrap BinOp.add 64 t3 (binWrap BinOp.add 64 x3 (if b / 32 = 3 then 2 ^ (b % 32) else 0))) 4294967295 % 2 ^ 32)
    (t4_def : t4 = binWrap BinOp.shr 64 (binWrap BinOp.add 64 t3 (binWrap BinOp.add 64 x3 (if b / 32 = 3 then 2 ^ (b % 32) else 0))) 32)
    (r4_def : r4 = binWrap BinOp.and 64 (binWrap BinOp.add 64 t4 (binWrap BinOp.add 64 x4 (if b / 32 = 4 then 2 ^ (b % 32) else 0))) 4294967295 % 2 ^ 32)
    (t5_def : t5 = binWrap BinOp.shr 64 (binWrap BinOp.add 64 t4 (binWrap BinOp.add 64 x4 (if b / 32 = 4 then 2 ^ (b % 32) else 0))) 32)
    (r5_def : r5 = binWrap BinOp.and 64 (binWrap BinOp.add 64 t5 (binWrap BinOp.add 64 x5 (if b / 32 = 5 then 2 ^ (b % 32) else 0))) 4294967295 % 2 ^ 32)
    (t6_def : t6 = binWrap BinOp.shr 64 (binWrap BinOp.add 64 t5 (binWrap BinOp.add 64 x5 (if b / 32 = 5 then 2 ^ (b % 32) else 0))) 32)
    (r6_def : r6 = binWrap BinOp.and 64 (binWrap BinOp.add 64 t6 (binWrap BinOp.add 64 x6 (if b / 32 = 6 then 2 ^ (b % 32) else 0))) 4294967295 % 2 ^ 32)
    (t7_def : t7 = binWrap BinOp.shr 64 (binWrap BinOp.add 64 t6 (binWrap BinOp.add 64 x6 (if b / 32 = 6 then 2 ^ (b % 32) else 0))) 32)
    (r7_def : r7 = binWrap BinOp.and 64 (binWrap BinOp.add 64 t7 (binWrap BinOp.add 64 x7 (if b / 32 = 7 then 2 ^ (b % 32) else 0))) 4294967295 % 2 ^ 32) :
    val8x32 r0 r1 r2 r3 r4 r5 r6 r7 = val8x32 x0 x1 x2 x3 x4 x5 x6 x7 + flag * 2 ^ bit ∧ r0 < 2 ^ 32 ∧ r1 < 2 ^ 32 ∧ r2 < 2 ^ 32 ∧ r3 < 2 ^ 32 ∧ r4 < 2 ^ 32 ∧ r5 < 2 ^ 32 ∧ r6 < 2 ^ 32 ∧ r7 < 2 ^ 32 := by
  have hs : 2 ^ (b % 32) < 2 ^ 32 := Nat.pow_lt_pow_right (by decide) (Nat.mod_lt _ (by decide))
  have hI : ∀ k, (if b / 32 = k then 2 ^ (b % 32) else 0) < 2 ^ 32 := by
    intro k; split <;> omega
  obtain ⟨u8, hu8, hE, hr0, hr1, hr2, hr3, hr4, hr5, hr6, hr7⟩ := cadd_chain32 x0 x1 x2 x3 x4 x5 x6 x7 (if b / 32 = 0 then 2 ^ (b % 32) else 0) (if b / 32 = 1 then 2 ^ (b % 32) else 0) (if b / 32 = 2 then 2 ^ (b % 32) else 0) (if b / 32 = 3 then 2 ^ (b % 32) else 0) (if b / 32 = 4 then 2 ^ (b % 32) else 0) (if b / 32 = 5 then 2 ^ (b % 32) else 0) (if b / 32 = 6 then 2 ^ (b % 32) else 0) (if b / 32 = 7 then 2 ^ (b % 32) else 0) r0 t1 r1 t2 r2 t3 r3 t4 r4 t5 r5 t6 r6 t7 r7
    X0 X1 X2 X3 X4 X5 X6 X7 (hI 0) (hI 1) (hI 2) (hI 3) (hI 4) (hI 5) (hI 6) (hI 7)
    r0_def t1_def r1_def t2_def r2_def t3_def r3_def t4_def r4_def t5_def r5_def t6_def r6_def t7_def r7_def
  refine ⟨?_, hr0, hr1, hr2, hr3, hr4, hr5, hr6, hr7⟩
  clear r0_def t1_def r1_def t2_def r2_def t3_def r3_def t4_def r4_def t5_def r5_def t6_def r6_def t7_def r7_def
  have hRlt : val8x32 r0 r1 r2 r3 r4 r5 r6 r7 < 2 ^ 256 := val8x32_lt hr0 hr1 hr2 hr3 hr4 hr5 hr6 hr7
  have hI8 : val8x32 (if b / 32 = 0 then 2 ^ (b % 32) else 0) (if b / 32 = 1 then 2 ^ (b % 32) else 0) (if b / 32 = 2 then 2 ^ (b % 32) else 0) (if b / 32 = 3 then 2 ^ (b % 32) else 0) (if b / 32 = 4 then 2 ^ (b % 32) else 0) (if b / 32 = 5 then 2 ^ (b % 32) else 0) (if b / 32 = 6 then 2 ^ (b % 32) else 0) (if b / 32 = 7 then 2 ^ (b % 32) else 0) = flag * 2 ^ bit := by
    rcases hb with ⟨rfl, rfl⟩ | ⟨rfl, rfl⟩
    · have hk : b / 32 = 0 ∨ b / 32 = 1 ∨ b / 32 = 2 ∨ b / 32 = 3 ∨ b / 32 = 4 ∨ b / 32 = 5 ∨ b / 32 = 6 ∨ b / 32 = 7 := by omega
      have hpow : ∀ k, b / 32 = k → 2 ^ b = 2 ^ (32 * k) * 2 ^ (b % 32) := by
        intro k hk; rw [← hk, ← Nat.pow_add, Nat.div_add_mod]
      rcases hk with hk | hk | hk | hk | hk | hk | hk | hk <;> have hp := hpow _ hk <;>
        simp only [hk, val8x32, Nat.reduceEqDiff, if_true, if_false, Nat.reduceMul, Nat.one_mul, Nat.zero_mul,
          Nat.add_zero, Nat.zero_add] at hp ⊢ <;> rw [hp] <;> omega
    · have e : (bit + 256) / 32 = bit / 32 + 8 := by omega
      rw [e]
      have n0 : ¬ (bit / 32 + 8 = 0) := by omega
      have n1 : ¬ (bit / 32 + 8 = 1) := by omega
      have n2 : ¬ (bit / 32 + 8 = 2) := by omega
      have n3 : ¬ (bit / 32 + 8 = 3) := by omega
      have n4 : ¬ (bit / 32 + 8 = 4) := by omega
      have n5 : ¬ (bit / 32 + 8 = 5) := by omega
      have n6 : ¬ (bit / 32 + 8 = 6) := by omega
      have n7 : ¬ (bit / 32 + 8 = 7) := by omega
      simp only [n0, n1, n2, n3, n4, n5, n6, n7, if_false, val8x32, Nat.zero_mul, Nat.add_zero]
  rw [hI8] at hE
  clear hI8 hI hs hb
  generalize flag * 2 ^ bit = F at *
  generalize val8x32 r0 r1 r2 r3 r4 r5 r6 r7 = R at *
  generalize val8x32 x0 x1 x2 x3 x4 x5 x6 x7 = Xv at *
  omega

end ScalarKernel32
end SecpZkp
