/-
  Helpers for `Props/C05_fieldlin.lean`: the "linear" field kernels (`normalize`, `normalize_weak`, `add`,
  `mul_int`, `half`, `negate`) of both limb layouts, as translated into the MiniC IR.

  Several of these kernels wrap around ON PURPOSE (`-(t0 & 1)`, `2(m+1)p_i - a_i` as an unsigned subtraction,
  the `int → uint64_t` sign extension `(x ^ 2^31) - 2^31` that the translator emits for C's implicit conversions),
  so the interval analysis `Bounds.checkL` rejects them by design.  They are therefore evaluated in the
  WRAP-AROUND semantics directly:

  * `evalV`, `runW`, `isStraight`, `execL_env_eq_runW` : a leak-free, structurally recursive copy of `evalE` /
    `execL` for straight-line programs, which `simp` can unfold on a literal program and an ARBITRARY memory
  * `minic_evalW`   : the corresponding symbolic-execution tactic (counterpart of `minic_eval` for `execL`)
  * `val10`, `Mag5`, `Mag10`, `Red5`, `Red10` : limb vectors and the C magnitude contract
    (`secp256k1_fe_impl_verify`: limbs `≤ 2 m (2^52-1)`, top limb `≤ 2 m (2^48-1)`; resp. 26 / 22 bits)
  * bit-operation lemmas: `sext32` (the sign extension of a non-negative `int`), masks as `%`, `x & 1`,
    conjunction of 0/1 values, `a & b = 2^k-1 ↔ a = 2^k-1 ∧ b = 2^k-1`.

  No axioms beyond propext / Classical.choice / Quot.sound.
-/
import SecpZkp.Proofs.FieldKernel
import SecpZkp.Gen.K_field5x52
import SecpZkp.Gen.K_field10x26
import SecpZkp.Gen.K_ct

namespace SecpZkp
namespace FieldLinear
open MiniC MiniC.Bounds FieldKernel

/-! ### a leak-free copy of the wrap-around semantics for straight-line programs -/

/-- the value component of `evalE` (C semantics: every node truncated at its width) -/
def evalV (env : Env) : Expr → Nat
  | .lit n => n
  | .var x => env.get x 0
  | .idx a i => env.get a (evalV env i)
  | .bin op w a b => binWrap op w (evalV env a) (evalV env b)
  | .cast w e => evalV env e % 2 ^ w
  | .not w e => (2 ^ w - 1) - evalV env e % 2 ^ w
  | .neg w e => (2 ^ w - evalV env e % 2 ^ w) % 2 ^ w
  | .lnot e => if evalV env e = 0 then 1 else 0
  | .cond c a b => if evalV env c ≠ 0 then evalV env a else evalV env b

theorem evalE_fst (env : Env) : ∀ e : Expr, (evalE env e).1 = evalV env e := by
  intro e
  induction e with
  | lit n => rfl
  | var x => rfl
  | idx a i ih => simp only [evalE, evalV, ih]
  | bin op w a b iha ihb => simp only [evalE, evalV, iha, ihb]
  | cast w e ih => simp only [evalE, evalV, ih]
  | not w e ih => simp only [evalE, evalV, ih]
  | neg w e ih => simp only [evalE, evalV, ih]
  | lnot e ih => simp only [evalE, evalV, ih]
  | cond c a b ihc iha ihb =>
    simp only [evalE, evalV, ihc]
    split <;> simp only [iha, ihb]

/-- the program consists of `assign` / `store` statements only -/
def isStraight : List Stmt → Bool
  | [] => true
  | .assign _ _ :: rest => isStraight rest
  | .store _ _ _ :: rest => isStraight rest
  | _ => false

/-- final memory of a straight-line program in the wrap-around semantics -/
def runW (env : Env) : List Stmt → Env
  | [] => env
  | .assign x e :: rest => runW (env.set x 0 (evalV env e)) rest
  | .store a i e :: rest => runW (env.set a (evalV env i) (evalV env e)) rest
  | _ :: rest => runW env rest

/-- on straight-line programs `runW` IS the memory component of `execL` -/
theorem execL_env_eq_runW : ∀ (prog : List Stmt) (env : Env), isStraight prog = true →
    (execL env prog).env = runW env prog := by
  intro prog
  induction prog with
  | nil => intro env _; simp [execL, runW]
  | cons s rest ih =>
    intro env h
    cases s with
    | assign x e => rw [execL_cons_assign]; simp only [runW, evalE_fst]; exact ih _ (by simpa [isStraight] using h)
    | store a i e => rw [execL_cons_store]; simp only [runW, evalE_fst]; exact ih _ (by simpa [isStraight] using h)
    | ite c t e => simp [isStraight] at h
    | loop x n body => simp [isStraight] at h
    | declassify x => simp [isStraight] at h
    | ret e => simp [isStraight] at h

/-- final memory after running the translated C function `f` on the memory `env` with C's wrap-around
    semantics (`execL`: every `+`, `-`, `*`, `<<`, unary `-` truncated at the width of its C type) -/
def runC (f : Fn) (env : Env) : Env := (execL env f.body).env

theorem runC_eq_runW (f : Fn) (env : Env) (h : isStraight f.body = true) : runC f env = runW env f.body :=
  execL_env_eq_runW _ _ h

/-- Symbolic execution of the WRAP-AROUND interpreter (`runW`, i.e. `execL`) on a literal straight-line
    program and an arbitrary initial memory. -/
macro "minic_evalW" : tactic => `(tactic| (
  simp only [runW, evalV, binWrap]
  simp only [Env.get_set_same, Env.get_set_other, ne_eq, Prod.mk.injEq, String.reduceEq, false_and, and_false,
    and_true, true_and, not_false_eq_true, not_true_eq_false, Nat.reduceEqDiff]))

/-! ### limb vectors and magnitudes -/

/-- the integer represented by ten 26-bit limbs -/
def val10 (x0 x1 x2 x3 x4 x5 x6 x7 x8 x9 : Nat) : Nat :=
  x0 + x1 * 2 ^ 26 + x2 * 2 ^ 52 + x3 * 2 ^ 78 + x4 * 2 ^ 104 + x5 * 2 ^ 130 + x6 * 2 ^ 156 + x7 * 2 ^ 182 +
    x8 * 2 ^ 208 + x9 * 2 ^ 234

/-- value of the 5×52 field element stored in the array `a` of the memory `env` -/
def val5At (env : Env) (a : String) : Nat :=
  val5 (env.get a 0) (env.get a 1) (env.get a 2) (env.get a 3) (env.get a 4)

/-- value of the 10×26 field element stored in the array `a` of the memory `env` -/
def val10At (env : Env) (a : String) : Nat :=
  val10 (env.get a 0) (env.get a 1) (env.get a 2) (env.get a 3) (env.get a 4)
    (env.get a 5) (env.get a 6) (env.get a 7) (env.get a 8) (env.get a 9)

/-- `secp256k1_fe_impl_verify` (5×52) for magnitude `m`: limbs 0..3 `≤ 2 m (2^52-1)`, limb 4 `≤ 2 m (2^48-1)` -/
def Mag5 (env : Env) (a : String) (m : Nat) : Prop :=
  env.get a 0 ≤ 2 * m * (2 ^ 52 - 1) ∧ env.get a 1 ≤ 2 * m * (2 ^ 52 - 1) ∧ env.get a 2 ≤ 2 * m * (2 ^ 52 - 1) ∧
  env.get a 3 ≤ 2 * m * (2 ^ 52 - 1) ∧ env.get a 4 ≤ 2 * m * (2 ^ 48 - 1)

instance (env : Env) (a : String) (m : Nat) : Decidable (Mag5 env a m) := inferInstanceAs (Decidable (_ ∧ _))

/-- `secp256k1_fe_impl_verify` (10×26) for magnitude `m`: limbs 0..8 `≤ 2 m (2^26-1)`, limb 9 `≤ 2 m (2^22-1)` -/
def Mag10 (env : Env) (a : String) (m : Nat) : Prop :=
  env.get a 0 ≤ 2 * m * (2 ^ 26 - 1) ∧ env.get a 1 ≤ 2 * m * (2 ^ 26 - 1) ∧ env.get a 2 ≤ 2 * m * (2 ^ 26 - 1) ∧
  env.get a 3 ≤ 2 * m * (2 ^ 26 - 1) ∧ env.get a 4 ≤ 2 * m * (2 ^ 26 - 1) ∧ env.get a 5 ≤ 2 * m * (2 ^ 26 - 1) ∧
  env.get a 6 ≤ 2 * m * (2 ^ 26 - 1) ∧ env.get a 7 ≤ 2 * m * (2 ^ 26 - 1) ∧ env.get a 8 ≤ 2 * m * (2 ^ 26 - 1) ∧
  env.get a 9 ≤ 2 * m * (2 ^ 22 - 1)

instance (env : Env) (a : String) (m : Nat) : Decidable (Mag10 env a m) := inferInstanceAs (Decidable (_ ∧ _))

/-- fully reduced limbs (5×52): limbs 0..3 `< 2^52`, limb 4 `< 2^48` -/
def Red5 (env : Env) (a : String) : Prop :=
  env.get a 0 < 2 ^ 52 ∧ env.get a 1 < 2 ^ 52 ∧ env.get a 2 < 2 ^ 52 ∧ env.get a 3 < 2 ^ 52 ∧ env.get a 4 < 2 ^ 48

instance (env : Env) (a : String) : Decidable (Red5 env a) := inferInstanceAs (Decidable (_ ∧ _))

/-- fully reduced limbs (10×26): limbs 0..8 `< 2^26`, limb 9 `< 2^22` -/
def Red10 (env : Env) (a : String) : Prop :=
  env.get a 0 < 2 ^ 26 ∧ env.get a 1 < 2 ^ 26 ∧ env.get a 2 < 2 ^ 26 ∧ env.get a 3 < 2 ^ 26 ∧ env.get a 4 < 2 ^ 26 ∧
  env.get a 5 < 2 ^ 26 ∧ env.get a 6 < 2 ^ 26 ∧ env.get a 7 < 2 ^ 26 ∧ env.get a 8 < 2 ^ 26 ∧ env.get a 9 < 2 ^ 22

instance (env : Env) (a : String) : Decidable (Red10 env a) := inferInstanceAs (Decidable (_ ∧ _))

/-! ### bit operations as arithmetic -/

/-- `x ^ 0x80000000` for `x < 2^31` sets bit 31 -/
theorem xor_bit31 (x : Nat) (h : x < 2147483648) : x ^^^ 2147483648 = x + 2147483648 := by
  have h' : x < 2 ^ 31 := h
  have h1 : 2 ^ 31 * 1 + x = 2 ^ 31 * 1 ||| x := Nat.two_pow_add_eq_or_of_lt h' 1
  have h2 : x ^^^ 2 ^ 31 = 2 ^ 31 * 1 ||| x := by
    apply Nat.eq_of_testBit_eq
    intro i
    rw [Nat.testBit_xor, Nat.testBit_or, Nat.mul_one, Nat.testBit_two_pow]
    by_cases hi : 31 = i
    · subst hi; simp [Nat.testBit_lt_two_pow h']
    · simp [hi]
  have h3 : x ^^^ 2147483648 = x ^^^ 2 ^ 31 := rfl
  rw [h3, h2, ← h1]; omega

/-- The conversion `int → uint64_t` of a NON-NEGATIVE `int` value, as the translator renders it
    (`(x ^ 0x80000000) - 0x80000000` at width 64), is the identity. -/
theorem sext32 (x : Nat) (h : x < 2147483648) :
    ((x ^^^ 2147483648) + (18446744073709551616 - 2147483648 % 18446744073709551616)) % 18446744073709551616 = x := by
  rw [xor_bit31 x h]; omega

/-- the same for a 0/1 value (a C comparison result converted to `uint64_t`) -/
theorem sext32_ite (c : Prop) [Decidable c] :
    (((if c then 1 else 0) ^^^ 2147483648) + (18446744073709551616 - 2147483648 % 18446744073709551616)) %
      18446744073709551616 = if c then 1 else 0 :=
  sext32 _ (by split <;> omega)

/-- `&` of two C truth values -/
theorem ite_and_ite (p q : Prop) [Decidable p] [Decidable q] :
    (if p then 1 else 0) &&& (if q then 1 else 0) = if p ∧ q then 1 else 0 := by
  by_cases hp : p <;> by_cases hq : q <;> simp [hp, hq]

/-- `a & b` is the all-ones mask `M` iff both are (for `a, b ≤ M`) -/
theorem and_eq_mask {a b M : Nat} (ha : a ≤ M) (hb : b ≤ M) : a &&& b = M ↔ a = M ∧ b = M := by
  constructor
  · intro h
    have h3 : a &&& b ≤ a := Nat.and_le_left
    have h4 : a &&& b ≤ b := Nat.and_le_right
    omega
  · rintro ⟨rfl, rfl⟩; simp

/-- `a & b & c = M` iff all three are `M` (for `a, b, c ≤ M`) -/
theorem and3_eq_mask {a b c M : Nat} (ha : a ≤ M) (hb : b ≤ M) (hc : c ≤ M) :
    a &&& b &&& c = M ↔ a = M ∧ b = M ∧ c = M := by
  have h3 : a &&& b ≤ a := Nat.and_le_left
  rw [and_eq_mask (by omega) hc, and_eq_mask ha hb, and_assoc]

/-- an unsigned 64-bit subtraction that does not borrow -/
theorem sub64 (x b : Nat) (hx : x < 18446744073709551616) (hb : b ≤ x) :
    (x % 18446744073709551616 + (18446744073709551616 - b % 18446744073709551616)) % 18446744073709551616 = x - b := by
  omega

/-- `x & 0x3FFFFFF` -/
theorem and_M26 (x : Nat) : x &&& 67108863 = x % 67108864 := Nat.and_two_pow_sub_one_eq_mod x 26

/-- `x & 0x03FFFFF` -/
theorem and_M22 (x : Nat) : x &&& 4194303 = x % 4194304 := Nat.and_two_pow_sub_one_eq_mod x 22

/-- scaling a magnitude bound -/
theorem mul_bound {r m a B : Nat} (h : r ≤ 2 * m * B) : r * a ≤ 2 * (m * a) * B := by
  calc r * a ≤ 2 * m * B * a := Nat.mul_le_mul_right a h
    _ = 2 * (m * a) * B := by ring

/-! ### magnitude contracts as bound environments for `Bounds.checkL` -/

/-- `Mag5 · a m` as a bound environment -/
def mag5B (a : String) (m : Nat) : BEnv :=
  [((a, 0), 2 * m * (2 ^ 52 - 1)), ((a, 1), 2 * m * (2 ^ 52 - 1)), ((a, 2), 2 * m * (2 ^ 52 - 1)),
   ((a, 3), 2 * m * (2 ^ 52 - 1)), ((a, 4), 2 * m * (2 ^ 48 - 1))]

theorem respects_mag5 {env : Env} {a : String} {m : Nat} (h : Mag5 env a m) : Respects env (mag5B a m) := by
  obtain ⟨h0, h1, h2, h3, h4⟩ := h
  exact respects_cons h0 (respects_cons h1 (respects_cons h2 (respects_cons h3 (respects_cons h4 (respects_nil _)))))

/-! ## 5×52 kernels: the arithmetic content, stated on `runW` -/

/-- `secp256k1_fe_impl_add` (5×52): limb-wise sums, no 64-bit addition wraps -/
theorem fe_add_5x52_key (env : Env) (mr ma : Nat) (hm : mr + ma ≤ 32)
    (hr : Mag5 env "r.n" mr) (ha : Mag5 env "a.n" ma) :
    (runW env Gen.field5x52.fe_add.body).get "r.n" 0 = env.get "r.n" 0 + env.get "a.n" 0 ∧
    (runW env Gen.field5x52.fe_add.body).get "r.n" 1 = env.get "r.n" 1 + env.get "a.n" 1 ∧
    (runW env Gen.field5x52.fe_add.body).get "r.n" 2 = env.get "r.n" 2 + env.get "a.n" 2 ∧
    (runW env Gen.field5x52.fe_add.body).get "r.n" 3 = env.get "r.n" 3 + env.get "a.n" 3 ∧
    (runW env Gen.field5x52.fe_add.body).get "r.n" 4 = env.get "r.n" 4 + env.get "a.n" 4 := by
  simp only [Mag5] at hr ha
  simp only [Gen.field5x52.fe_add]
  minic_evalW
  simp only [Nat.reducePow] at hr ha ⊢
  omega

/-- `secp256k1_fe_impl_mul_int_unchecked` (5×52): limb-wise products, no 64-bit multiplication wraps -/
theorem fe_mul_int_5x52_key (env : Env) (m : Nat) (ha : env.get "a" 0 ≤ 32) (hm : m * env.get "a" 0 ≤ 32)
    (hr : Mag5 env "r.n" m) :
    (runW env Gen.field5x52.fe_mul_int.body).get "r.n" 0 = env.get "r.n" 0 * env.get "a" 0 ∧
    (runW env Gen.field5x52.fe_mul_int.body).get "r.n" 1 = env.get "r.n" 1 * env.get "a" 0 ∧
    (runW env Gen.field5x52.fe_mul_int.body).get "r.n" 2 = env.get "r.n" 2 * env.get "a" 0 ∧
    (runW env Gen.field5x52.fe_mul_int.body).get "r.n" 3 = env.get "r.n" 3 * env.get "a" 0 ∧
    (runW env Gen.field5x52.fe_mul_int.body).get "r.n" 4 = env.get "r.n" 4 * env.get "a" 0 := by
  obtain ⟨h0, h1, h2, h3, h4⟩ := hr
  have b0 := mul_bound (a := env.get "a" 0) h0
  have b1 := mul_bound (a := env.get "a" 0) h1
  have b2 := mul_bound (a := env.get "a" 0) h2
  have b3 := mul_bound (a := env.get "a" 0) h3
  have b4 := mul_bound (a := env.get "a" 0) h4
  simp only [Gen.field5x52.fe_mul_int]
  minic_evalW
  simp only [Nat.reducePow] at b0 b1 b2 b3 b4 ⊢
  simp (disch := omega) only [sext32]
  generalize m * env.get "a" 0 = k at *
  omega

/-- `secp256k1_fe_impl_negate_unchecked` (5×52): `r + a = 2 (m+1) p` as integers, magnitude `m+1` -/
theorem fe_negate_5x52_key (env : Env) (hm : env.get "m" 0 ≤ 31) (ha : Mag5 env "a.n" (env.get "m" 0)) :
    val5At (runW env Gen.ct.fe_negate.body) "r.n" + val5At env "a.n" = 2 * (env.get "m" 0 + 1) * P ∧
    Mag5 (runW env Gen.ct.fe_negate.body) "r.n" (env.get "m" 0 + 1) := by
  simp only [Mag5, val5At, val5] at ha ⊢
  simp only [Gen.ct.fe_negate]
  minic_evalW
  generalize env.get "m" 0 = m at *
  simp only [Nat.reducePow, P] at ha ⊢
  simp (disch := omega) only [sext32]
  rw [Nat.mod_eq_of_lt (show m + 1 < 4294967296 by omega)]
  simp (disch := omega) only [sub64]
  omega

/-- the output contract of `secp256k1_fe_impl_normalize_weak` (5×52) that the interval analysis derives -/
def weakOut5 : List ((String × Nat) × Nat) :=
  [(("r.n", 0), 2 ^ 52 - 1), (("r.n", 1), 2 ^ 52 - 1), (("r.n", 2), 2 ^ 52 - 1), (("r.n", 3), 2 ^ 52 - 1),
   (("r.n", 4), 2 ^ 48 + 63)]

/-- no arithmetic node of `secp256k1_fe_impl_normalize_weak` (5×52) wraps for magnitude ≤ 32, and the outputs
    are bounded by `weakOut5` -/
theorem fe_normalize_weak_5x52_no_wrap :
    checkOut (mag5B "r.n" 32) Gen.field5x52.fe_normalize_weak.body weakOut5 = true := by decide +kernel

set_option maxRecDepth 100000 in
/-- over unbounded naturals, `secp256k1_fe_impl_normalize_weak` (5×52) preserves the value modulo `p` -/
theorem fe_normalize_weak_5x52_ideal (env : Env) :
    val5At (execLI env Gen.field5x52.fe_normalize_weak.body).1 "r.n" % P = val5At env "r.n" % P := by
  simp only [Gen.field5x52.fe_normalize_weak, val5At, val5]
  minic_eval
  generalize env.get "r.n" 0 = r0
  generalize env.get "r.n" 1 = r1
  generalize env.get "r.n" 2 = r2
  generalize env.get "r.n" 3 = r3
  generalize env.get "r.n" 4 = r4
  simp only [Nat.reducePow, and_M52, and_M48, P]
  omega

set_option maxRecDepth 100000 in
/-- `secp256k1_fe_impl_half` (5×52): `2 r' = r + (r_0 mod 2) p` as integers, magnitude `⌊m/2⌋ + 1` -/
theorem fe_half_5x52_key (env : Env) (m : Nat) (hm : m ≤ 31) (h : Mag5 env "r.n" m) :
    2 * val5At (runW env Gen.field5x52.fe_half.body) "r.n" = val5At env "r.n" + env.get "r.n" 0 % 2 * P ∧
    Mag5 (runW env Gen.field5x52.fe_half.body) "r.n" (m / 2 + 1) := by
  simp only [Mag5, val5At, val5] at h ⊢
  simp only [Gen.field5x52.fe_half]
  minic_evalW
  generalize env.get "r.n" 0 = r0 at *
  generalize env.get "r.n" 1 = r1 at *
  generalize env.get "r.n" 2 = r2 at *
  generalize env.get "r.n" 3 = r3 at *
  generalize env.get "r.n" 4 = r4 at *
  simp only [Nat.and_one_is_mod]
  rcases Nat.mod_two_eq_zero_or_one r0 with h0 | h0
  · simp only [h0, Nat.reducePow, Nat.reduceMod, Nat.reduceSub, Nat.reduceDiv, Nat.reduceAnd, P] at h ⊢
    omega
  · simp only [h0, Nat.reducePow, Nat.reduceMod, Nat.reduceSub, Nat.reduceDiv, Nat.reduceAnd, P] at h ⊢
    omega

set_option maxRecDepth 100000 in
/-- `secp256k1_fe_impl_normalize` (5×52): fully reduced limbs, value `< p`, same residue.
    The first pass folds the bits above 2^256 into limb 0 and propagates carries (no 64-bit addition wraps for
    magnitude ≤ 32); the mask `x` of the second pass is 1 exactly when the intermediate value is `≥ p`
    (bit 256 set, or all middle limbs all-ones and limb 0 `≥ p_0`); the second pass adds `x (2^256 - p)` and the
    final mask drops bit 256. -/
theorem fe_normalize_5x52_key (env : Env) (h : Mag5 env "r.n" 32) :
    Red5 (runW env Gen.field5x52.fe_normalize.body) "r.n" ∧
    val5At (runW env Gen.field5x52.fe_normalize.body) "r.n" < P ∧
    val5At (runW env Gen.field5x52.fe_normalize.body) "r.n" % P = val5At env "r.n" % P := by
  simp only [Mag5, Red5, val5At, val5] at h ⊢
  simp only [Gen.field5x52.fe_normalize]
  minic_evalW
  generalize env.get "r.n" 0 = r0 at *
  generalize env.get "r.n" 1 = r1 at *
  generalize env.get "r.n" 2 = r2 at *
  generalize env.get "r.n" 3 = r3 at *
  generalize env.get "r.n" 4 = r4 at *
  simp only [Nat.reducePow, and_M52, and_M48, P] at h ⊢
  -- first pass: name the 64-bit accumulators, show they do not wrap
  generalize hx : r4 / 281474976710656 = x at *
  have hx63 : x ≤ 63 := by omega
  generalize ht0a : (r0 + x * 4294968273 % 18446744073709551616) % 18446744073709551616 = t0a at *
  have e0 : t0a = r0 + x * 4294968273 := by omega
  clear ht0a
  generalize ht1a : (r1 + t0a / 4503599627370496) % 18446744073709551616 = t1a at *
  have e1 : t1a = r1 + t0a / 4503599627370496 := by omega
  clear ht1a
  generalize ht2a : (r2 + t1a / 4503599627370496) % 18446744073709551616 = t2a at *
  have e2 : t2a = r2 + t1a / 4503599627370496 := by omega
  clear ht2a
  generalize ht3a : (r3 + t2a / 4503599627370496) % 18446744073709551616 = t3a at *
  have e3 : t3a = r3 + t2a / 4503599627370496 := by omega
  clear ht3a
  generalize ht4b : (r4 % 281474976710656 + t3a / 4503599627370496) % 18446744073709551616 = t4b at *
  have e4 : t4b = r4 % 281474976710656 + t3a / 4503599627370496 := by omega
  clear ht4b
  -- value after the first pass: `T + x p = r`
  have hT : t0a % 4503599627370496 + t1a % 4503599627370496 * 4503599627370496 +
      t2a % 4503599627370496 * 20282409603651670423947251286016 +
      t3a % 4503599627370496 * 91343852333181432387730302044767688728495783936 +
      t4b * 411376139330301510538742295639337626245683966408394965837152256 +
      x * 115792089237316195423570985008687907853269984665640564039457584007908834671663 =
      r0 + r1 * 4503599627370496 + r2 * 20282409603651670423947251286016 +
      r3 * 91343852333181432387730302044767688728495783936 +
      r4 * 411376139330301510538742295639337626245683966408394965837152256 := by omega
  have hb4 : t4b ≤ 281474976710655 + 64 := by omega
  generalize hs0 : t0a % 4503599627370496 = s0 at *
  generalize hs1 : t1a % 4503599627370496 = s1 at *
  generalize hs2 : t2a % 4503599627370496 = s2 at *
  generalize hs3 : t3a % 4503599627370496 = s3 at *
  have hs0' : s0 < 4503599627370496 := by omega
  have hs1' : s1 < 4503599627370496 := by omega
  have hs2' : s2 < 4503599627370496 := by omega
  have hs3' : s3 < 4503599627370496 := by omega
  clear hs0 hs1 hs2 hs3 e0 e1 e2 e3 e4 hx hx63 h t0a t1a t2a t3a
  -- the mask of the second pass
  simp only [ite_and_ite, sext32_ite]
  simp (disch := omega) only [and3_eq_mask]
  generalize hx2 : (t4b / 281474976710656 ||| if (t4b = 281474976710655 ∧ s1 = 4503599627370495 ∧
      s2 = 4503599627370495 ∧ s3 = 4503599627370495) ∧ 4503595332402223 ≤ s0 then 1 else 0) = x2 at *
  have hx2' : (x2 = 1 ∧ (281474976710656 ≤ t4b ∨ ((t4b = 281474976710655 ∧ s1 = 4503599627370495 ∧
      s2 = 4503599627370495 ∧ s3 = 4503599627370495) ∧ 4503595332402223 ≤ s0))) ∨
      (x2 = 0 ∧ t4b < 281474976710656 ∧ ¬ ((t4b = 281474976710655 ∧ s1 = 4503599627370495 ∧
      s2 = 4503599627370495 ∧ s3 = 4503599627370495) ∧ 4503595332402223 ≤ s0)) := by
    have hq01 : t4b / 281474976710656 = 0 ∨ t4b / 281474976710656 = 1 := by omega
    split at hx2
    · rename_i hC
      rcases hq01 with hq | hq <;> rw [hq] at hx2 <;> simp only [Nat.reduceOr] at hx2 <;> omega
    · rename_i hC
      rw [Nat.or_zero] at hx2
      rcases hq01 with hq | hq
      · right; exact ⟨by omega, by omega, hC⟩
      · left; exact ⟨by omega, by omega⟩
  clear hx2
  have hx2le : x2 ≤ 1 := by omega
  -- second pass
  generalize hu0 : (s0 + x2 * 4294968273 % 18446744073709551616) % 18446744073709551616 = u0 at *
  have f0 : u0 = s0 + x2 * 4294968273 := by omega
  clear hu0
  generalize hu1 : (s1 + u0 / 4503599627370496) % 18446744073709551616 = u1 at *
  have f1 : u1 = s1 + u0 / 4503599627370496 := by omega
  clear hu1
  generalize hu2 : (s2 + u1 / 4503599627370496) % 18446744073709551616 = u2 at *
  have f2 : u2 = s2 + u1 / 4503599627370496 := by omega
  clear hu2
  generalize hu3 : (s3 + u2 / 4503599627370496) % 18446744073709551616 = u3 at *
  have f3 : u3 = s3 + u2 / 4503599627370496 := by omega
  clear hu3
  generalize hu4 : (t4b + u3 / 4503599627370496) % 18446744073709551616 = u4 at *
  have f4 : u4 = t4b + u3 / 4503599627370496 := by omega
  clear hu4
  -- value after the second pass: `out + w 2^256 = T + x2 (2^256 - p)` with `w = u4 >> 48`
  have hU : u0 % 4503599627370496 + u1 % 4503599627370496 * 4503599627370496 +
      u2 % 4503599627370496 * 20282409603651670423947251286016 +
      u3 % 4503599627370496 * 91343852333181432387730302044767688728495783936 +
      u4 % 281474976710656 * 411376139330301510538742295639337626245683966408394965837152256 +
      u4 / 281474976710656 * 115792089237316195423570985008687907853269984665640564039457584007913129639936 =
      s0 + s1 * 4503599627370496 + s2 * 20282409603651670423947251286016 +
      s3 * 91343852333181432387730302044767688728495783936 +
      t4b * 411376139330301510538742295639337626245683966408394965837152256 + x2 * 4294968273 := by omega
  have hu4b : u4 ≤ 281474976710655 + 65 := by omega
  generalize hv0 : u0 % 4503599627370496 = v0 at *
  generalize hv1 : u1 % 4503599627370496 = v1 at *
  generalize hv2 : u2 % 4503599627370496 = v2 at *
  generalize hv3 : u3 % 4503599627370496 = v3 at *
  generalize hv4 : u4 % 281474976710656 = v4 at *
  generalize hw : u4 / 281474976710656 = w at *
  have hv0' : v0 < 4503599627370496 := by omega
  have hv1' : v1 < 4503599627370496 := by omega
  have hv2' : v2 < 4503599627370496 := by omega
  have hv3' : v3 < 4503599627370496 := by omega
  have hv4' : v4 < 281474976710656 := by omega
  have hw' : w ≤ 1 := by omega
  clear hv0 hv1 hv2 hv3 hv4 hw f0 f1 f2 f3 f4 hu4b u0 u1 u2 u3 u4
  refine ⟨⟨hv0', hv1', hv2', hv3', hv4'⟩, ?_⟩
  rcases hx2' with ⟨rfl, hc⟩ | ⟨rfl, hlt, hnc⟩
  · have hw1 : w = 1 := by omega
    subst hw1
    constructor <;> omega
  · have hw0 : w = 0 := by omega
    subst hw0
    constructor <;> omega

/-! ## 10×26 kernels -/

/-- `secp256k1_fe_impl_add` (10×26): limb-wise sums, no 32-bit addition wraps -/
theorem fe_add_10x26_key (env : Env) (mr ma : Nat) (hm : mr + ma ≤ 32)
    (hr : Mag10 env "r.n" mr) (ha : Mag10 env "a.n" ma) :
    (runW env Gen.field10x26.fe_add.body).get "r.n" 0 = env.get "r.n" 0 + env.get "a.n" 0 ∧
    (runW env Gen.field10x26.fe_add.body).get "r.n" 1 = env.get "r.n" 1 + env.get "a.n" 1 ∧
    (runW env Gen.field10x26.fe_add.body).get "r.n" 2 = env.get "r.n" 2 + env.get "a.n" 2 ∧
    (runW env Gen.field10x26.fe_add.body).get "r.n" 3 = env.get "r.n" 3 + env.get "a.n" 3 ∧
    (runW env Gen.field10x26.fe_add.body).get "r.n" 4 = env.get "r.n" 4 + env.get "a.n" 4 ∧
    (runW env Gen.field10x26.fe_add.body).get "r.n" 5 = env.get "r.n" 5 + env.get "a.n" 5 ∧
    (runW env Gen.field10x26.fe_add.body).get "r.n" 6 = env.get "r.n" 6 + env.get "a.n" 6 ∧
    (runW env Gen.field10x26.fe_add.body).get "r.n" 7 = env.get "r.n" 7 + env.get "a.n" 7 ∧
    (runW env Gen.field10x26.fe_add.body).get "r.n" 8 = env.get "r.n" 8 + env.get "a.n" 8 ∧
    (runW env Gen.field10x26.fe_add.body).get "r.n" 9 = env.get "r.n" 9 + env.get "a.n" 9 := by
  simp only [Mag10] at hr ha
  simp only [Gen.field10x26.fe_add]
  minic_evalW
  simp only [Nat.reducePow] at hr ha ⊢
  omega

/-- `secp256k1_fe_impl_mul_int_unchecked` (10×26): limb-wise products, no 32-bit multiplication wraps -/
theorem fe_mul_int_10x26_key (env : Env) (m : Nat) (_ha : env.get "a" 0 ≤ 32) (hm : m * env.get "a" 0 ≤ 32)
    (hr : Mag10 env "r.n" m) :
    (runW env Gen.field10x26.fe_mul_int.body).get "r.n" 0 = env.get "r.n" 0 * env.get "a" 0 ∧
    (runW env Gen.field10x26.fe_mul_int.body).get "r.n" 1 = env.get "r.n" 1 * env.get "a" 0 ∧
    (runW env Gen.field10x26.fe_mul_int.body).get "r.n" 2 = env.get "r.n" 2 * env.get "a" 0 ∧
    (runW env Gen.field10x26.fe_mul_int.body).get "r.n" 3 = env.get "r.n" 3 * env.get "a" 0 ∧
    (runW env Gen.field10x26.fe_mul_int.body).get "r.n" 4 = env.get "r.n" 4 * env.get "a" 0 ∧
    (runW env Gen.field10x26.fe_mul_int.body).get "r.n" 5 = env.get "r.n" 5 * env.get "a" 0 ∧
    (runW env Gen.field10x26.fe_mul_int.body).get "r.n" 6 = env.get "r.n" 6 * env.get "a" 0 ∧
    (runW env Gen.field10x26.fe_mul_int.body).get "r.n" 7 = env.get "r.n" 7 * env.get "a" 0 ∧
    (runW env Gen.field10x26.fe_mul_int.body).get "r.n" 8 = env.get "r.n" 8 * env.get "a" 0 ∧
    (runW env Gen.field10x26.fe_mul_int.body).get "r.n" 9 = env.get "r.n" 9 * env.get "a" 0 := by
  obtain ⟨h0, h1, h2, h3, h4, h5, h6, h7, h8, h9⟩ := hr
  have b0 := mul_bound (a := env.get "a" 0) h0
  have b1 := mul_bound (a := env.get "a" 0) h1
  have b2 := mul_bound (a := env.get "a" 0) h2
  have b3 := mul_bound (a := env.get "a" 0) h3
  have b4 := mul_bound (a := env.get "a" 0) h4
  have b5 := mul_bound (a := env.get "a" 0) h5
  have b6 := mul_bound (a := env.get "a" 0) h6
  have b7 := mul_bound (a := env.get "a" 0) h7
  have b8 := mul_bound (a := env.get "a" 0) h8
  have b9 := mul_bound (a := env.get "a" 0) h9
  simp only [Gen.field10x26.fe_mul_int]
  minic_evalW
  simp only [Nat.reducePow] at b0 b1 b2 b3 b4 b5 b6 b7 b8 b9 ⊢
  generalize m * env.get "a" 0 = k at *
  omega

/-- `secp256k1_fe_impl_negate_unchecked` (10×26): `r + a = 2 (m+1) p` as integers, magnitude `m+1` -/
theorem fe_negate_10x26_key (env : Env) (hm : env.get "m" 0 ≤ 31) (ha : Mag10 env "a.n" (env.get "m" 0)) :
    val10At (runW env Gen.field10x26.fe_negate.body) "r.n" + val10At env "a.n" = 2 * (env.get "m" 0 + 1) * P ∧
    Mag10 (runW env Gen.field10x26.fe_negate.body) "r.n" (env.get "m" 0 + 1) := by
  simp only [Mag10, val10At, val10] at ha ⊢
  simp only [Gen.field10x26.fe_negate]
  minic_evalW
  generalize env.get "m" 0 = m at *
  simp only [Nat.reducePow, P] at ha ⊢
  simp (disch := omega) only [sext32]
  rw [Nat.mod_eq_of_lt (show m + 1 < 4294967296 by omega)]
  simp (disch := omega) only [sub64]
  omega

set_option maxRecDepth 100000 in
/-- `secp256k1_fe_impl_half` (10×26): `2 r' = r + (r_0 mod 2) p` as integers, magnitude `⌊m/2⌋ + 1` -/
theorem fe_half_10x26_key (env : Env) (m : Nat) (hm : m ≤ 31) (h : Mag10 env "r.n" m) :
    2 * val10At (runW env Gen.field10x26.fe_half.body) "r.n" = val10At env "r.n" + env.get "r.n" 0 % 2 * P ∧
    Mag10 (runW env Gen.field10x26.fe_half.body) "r.n" (m / 2 + 1) := by
  simp only [Mag10, val10At, val10] at h ⊢
  simp only [Gen.field10x26.fe_half]
  minic_evalW
  generalize env.get "r.n" 0 = r0 at *
  generalize env.get "r.n" 1 = r1 at *
  generalize env.get "r.n" 2 = r2 at *
  generalize env.get "r.n" 3 = r3 at *
  generalize env.get "r.n" 4 = r4 at *
  generalize env.get "r.n" 5 = r5 at *
  generalize env.get "r.n" 6 = r6 at *
  generalize env.get "r.n" 7 = r7 at *
  generalize env.get "r.n" 8 = r8 at *
  generalize env.get "r.n" 9 = r9 at *
  simp only [Nat.and_one_is_mod]
  rcases Nat.mod_two_eq_zero_or_one r0 with h0 | h0
  · simp only [h0, Nat.reducePow, Nat.reduceMod, Nat.reduceSub, Nat.reduceDiv, Nat.reduceAnd, P] at h ⊢
    omega
  · simp only [h0, Nat.reducePow, Nat.reduceMod, Nat.reduceSub, Nat.reduceDiv, Nat.reduceAnd, P] at h ⊢
    simp (disch := omega) only [Nat.mod_eq_of_lt]
    refine ⟨?_, ?_, ?_, ?_, ?_, ?_, ?_, ?_, ?_, ?_, ?_⟩ <;> omega

theorem mod26_mod32 (x : Nat) : x % 67108864 % 4294967296 = x % 67108864 :=
  Nat.mod_eq_of_lt (Nat.lt_of_lt_of_le (Nat.mod_lt _ (by decide)) (by decide))

theorem mod22_mod32 (x : Nat) : x % 4194304 % 4294967296 = x % 4194304 :=
  Nat.mod_eq_of_lt (Nat.lt_of_lt_of_le (Nat.mod_lt _ (by decide)) (by decide))

theorem and_le_mask {a b M : Nat} (ha : a ≤ M) : a &&& b ≤ M := Nat.le_trans Nat.and_le_left ha

theorem and4_eq_mask {a b c d M : Nat} (ha : a ≤ M) (hb : b ≤ M) (hc : c ≤ M) (hd : d ≤ M) :
    a &&& b &&& c &&& d = M ↔ a = M ∧ b = M ∧ c = M ∧ d = M := by
  rw [and_eq_mask (and_le_mask (and_le_mask ha)) hd, and3_eq_mask ha hb hc]; simp only [and_assoc]

theorem and7_eq_mask {a b c d e f g M : Nat} (ha : a ≤ M) (hb : b ≤ M) (hc : c ≤ M) (hd : d ≤ M)
    (he : e ≤ M) (hf : f ≤ M) (hg : g ≤ M) :
    a &&& b &&& c &&& d &&& e &&& f &&& g = M ↔ a = M ∧ b = M ∧ c = M ∧ d = M ∧ e = M ∧ f = M ∧ g = M := by
  rw [and_eq_mask (and_le_mask (and_le_mask (and_le_mask (and_le_mask (and_le_mask ha))))) hg,
    and_eq_mask (and_le_mask (and_le_mask (and_le_mask (and_le_mask ha)))) hf,
    and_eq_mask (and_le_mask (and_le_mask (and_le_mask ha))) he, and4_eq_mask ha hb hc hd]
  simp only [and_assoc]

/-- The input contract under which the 10×26 `normalize` / `normalize_weak` are proved: magnitude ≤ 32 AND
    `n[0] ≤ 2^32 - 61552`, `n[1] ≤ 2^32 - 4096`.  Every element of magnitude ≤ 31 satisfies it
    (`NormPre10_of_mag31`).  The two extra bounds are exactly what keeps `t0 += x * 0x3D1` and
    `t1 += (x << 6); t1 += (t0 >> 26)` below 2^32 for `x = n[9] >> 22 ≤ 63`; without them the 32-bit additions wrap
    (see `fe_normalize_10x26_mag32_counterexample` in `Props/C05_fieldlin.lean`). -/
def NormPre10 (env : Env) (a : String) : Prop :=
  Mag10 env a 32 ∧ env.get a 0 ≤ 2 ^ 32 - 61552 ∧ env.get a 1 ≤ 2 ^ 32 - 4096

instance (env : Env) (a : String) : Decidable (NormPre10 env a) := inferInstanceAs (Decidable (_ ∧ _))

theorem NormPre10_of_mag31 {env : Env} {a : String} (h : Mag10 env a 31) : NormPre10 env a := by
  simp only [NormPre10, Mag10, Nat.reducePow] at h ⊢
  omega

/-- `NormPre10` as a bound environment -/
def norm10B (a : String) : BEnv :=
  [((a, 0), 2 ^ 32 - 61552), ((a, 1), 2 ^ 32 - 4096), ((a, 2), 2 * 32 * (2 ^ 26 - 1)),
   ((a, 3), 2 * 32 * (2 ^ 26 - 1)), ((a, 4), 2 * 32 * (2 ^ 26 - 1)), ((a, 5), 2 * 32 * (2 ^ 26 - 1)),
   ((a, 6), 2 * 32 * (2 ^ 26 - 1)), ((a, 7), 2 * 32 * (2 ^ 26 - 1)), ((a, 8), 2 * 32 * (2 ^ 26 - 1)),
   ((a, 9), 2 * 32 * (2 ^ 22 - 1))]

theorem respects_norm10 {env : Env} {a : String} (h : NormPre10 env a) : Respects env (norm10B a) := by
  obtain ⟨⟨_, _, h2, h3, h4, h5, h6, h7, h8, h9⟩, h0, h1⟩ := h
  exact respects_cons h0 (respects_cons h1 (respects_cons h2 (respects_cons h3 (respects_cons h4
    (respects_cons h5 (respects_cons h6 (respects_cons h7 (respects_cons h8 (respects_cons h9
    (respects_nil _))))))))))

/-- output contract of `normalize_weak` (10×26) derived by the interval analysis: `r[0..8] < 2^26`, `r[9] ≤ 2^22 + 62` -/
def weakOut10 : List ((String × Nat) × Nat) :=
  [(("r.n", 0), 2 ^ 26 - 1), (("r.n", 1), 2 ^ 26 - 1), (("r.n", 2), 2 ^ 26 - 1), (("r.n", 3), 2 ^ 26 - 1),
   (("r.n", 4), 2 ^ 26 - 1), (("r.n", 5), 2 ^ 26 - 1), (("r.n", 6), 2 ^ 26 - 1), (("r.n", 7), 2 ^ 26 - 1),
   (("r.n", 8), 2 ^ 26 - 1), (("r.n", 9), 2 ^ 22 + 62)]

/-- output contract of `normalize` (10×26): fully reduced limbs -/
def redOut10 : List ((String × Nat) × Nat) :=
  [(("r.n", 0), 2 ^ 26 - 1), (("r.n", 1), 2 ^ 26 - 1), (("r.n", 2), 2 ^ 26 - 1), (("r.n", 3), 2 ^ 26 - 1),
   (("r.n", 4), 2 ^ 26 - 1), (("r.n", 5), 2 ^ 26 - 1), (("r.n", 6), 2 ^ 26 - 1), (("r.n", 7), 2 ^ 26 - 1),
   (("r.n", 8), 2 ^ 26 - 1), (("r.n", 9), 2 ^ 22 - 1)]

/-- under `NormPre10` no `add`/`mul`/`shl` node of `secp256k1_fe_impl_normalize_weak` (10×26) wraps at its width -/
theorem fe_normalize_weak_10x26_no_wrap :
    checkOut (norm10B "r.n") Gen.field10x26.fe_normalize_weak.body weakOut10 = true := by decide +kernel

/-- under `NormPre10` no `add`/`mul`/`shl` node of `secp256k1_fe_impl_normalize` (10×26) wraps at its width, and the
    output limbs are fully reduced -/
theorem fe_normalize_10x26_no_wrap :
    checkOut (norm10B "r.n") Gen.field10x26.fe_normalize.body redOut10 = true := by decide +kernel

set_option maxRecDepth 100000 in
/-- over unbounded naturals (the `uint32_t` conversions stay), `normalize_weak` (10×26) preserves the value mod `p` -/
theorem fe_normalize_weak_10x26_ideal (env : Env) (h : NormPre10 env "r.n") :
    val10At (execLI env Gen.field10x26.fe_normalize_weak.body).1 "r.n" % P = val10At env "r.n" % P := by
  simp only [NormPre10, Mag10] at h
  simp only [Gen.field10x26.fe_normalize_weak, val10At, val10]
  minic_eval
  generalize env.get "r.n" 0 = r0 at *
  generalize env.get "r.n" 1 = r1 at *
  generalize env.get "r.n" 2 = r2 at *
  generalize env.get "r.n" 3 = r3 at *
  generalize env.get "r.n" 4 = r4 at *
  generalize env.get "r.n" 5 = r5 at *
  generalize env.get "r.n" 6 = r6 at *
  generalize env.get "r.n" 7 = r7 at *
  generalize env.get "r.n" 8 = r8 at *
  generalize env.get "r.n" 9 = r9 at *
  simp only [Nat.reducePow, and_M26, and_M22, P] at h ⊢
  simp only [mod26_mod32, mod22_mod32]
  rw [Nat.mod_eq_of_lt (show r0 + r9 / 4194304 * 977 < 4294967296 by omega)]
  omega

set_option maxRecDepth 100000 in
set_option maxHeartbeats 2000000 in
/-- over unbounded naturals (the `uint32_t` conversions stay), `normalize` (10×26) yields a value `< p` with the
    same residue; same structure as `fe_normalize_5x52_key` -/
theorem fe_normalize_10x26_ideal (env : Env) (h : NormPre10 env "r.n") :
    val10At (execLI env Gen.field10x26.fe_normalize.body).1 "r.n" < P ∧
    val10At (execLI env Gen.field10x26.fe_normalize.body).1 "r.n" % P = val10At env "r.n" % P := by
  simp only [NormPre10, Mag10] at h
  simp only [Gen.field10x26.fe_normalize, val10At, val10]
  minic_eval
  generalize env.get "r.n" 0 = r0 at *
  generalize env.get "r.n" 1 = r1 at *
  generalize env.get "r.n" 2 = r2 at *
  generalize env.get "r.n" 3 = r3 at *
  generalize env.get "r.n" 4 = r4 at *
  generalize env.get "r.n" 5 = r5 at *
  generalize env.get "r.n" 6 = r6 at *
  generalize env.get "r.n" 7 = r7 at *
  generalize env.get "r.n" 8 = r8 at *
  generalize env.get "r.n" 9 = r9 at *
  simp only [Nat.reducePow, and_M26, and_M22, P, mod26_mod32, mod22_mod32] at h ⊢
  generalize hx : r9 / 4194304 = x at *
  have hx63 : x ≤ 63 := by omega
  generalize ht0 : (r0 + x * 977) % 4294967296 = t0 at *
  have e0 : t0 = r0 + x * 977 := by omega
  clear ht0
  generalize e1 : r1 + x * 64 + t0 / 67108864 = t1 at *
  generalize e2 : r2 + t1 / 67108864 = t2 at *
  generalize e3 : r3 + t2 / 67108864 = t3 at *
  generalize e4 : r4 + t3 / 67108864 = t4 at *
  generalize e5 : r5 + t4 / 67108864 = t5 at *
  generalize e6 : r6 + t5 / 67108864 = t6 at *
  generalize e7 : r7 + t6 / 67108864 = t7 at *
  generalize e8 : r8 + t7 / 67108864 = t8 at *
  generalize e9 : r9 % 4194304 + t8 / 67108864 = t9 at *
  have hT : t0 % 67108864 + t1 % 67108864 * 67108864 + t2 % 67108864 * 4503599627370496 + t3 % 67108864 * 302231454903657293676544 + t4 % 67108864 * 20282409603651670423947251286016 + t5 % 67108864 * 1361129467683753853853498429727072845824 + t6 % 67108864 * 91343852333181432387730302044767688728495783936 + t7 % 67108864 * 6129982163463555433433388108601236734474956488734408704 + t8 % 67108864 * 411376139330301510538742295639337626245683966408394965837152256 + t9 * 27606985387162255149739023449108101809804435888681546220650096895197184 +
      x * 115792089237316195423570985008687907853269984665640564039457584007908834671663 =
      r0 + r1 * 67108864 + r2 * 4503599627370496 + r3 * 302231454903657293676544 + r4 * 20282409603651670423947251286016 + r5 * 1361129467683753853853498429727072845824 + r6 * 91343852333181432387730302044767688728495783936 + r7 * 6129982163463555433433388108601236734474956488734408704 + r8 * 411376139330301510538742295639337626245683966408394965837152256 + r9 * 27606985387162255149739023449108101809804435888681546220650096895197184 := by omega
  have hb9 : t9 ≤ 4194303 + 64 := by omega
  generalize hs0 : t0 % 67108864 = s0 at *
  generalize hs1 : t1 % 67108864 = s1 at *
  generalize hs2 : t2 % 67108864 = s2 at *
  generalize hs3 : t3 % 67108864 = s3 at *
  generalize hs4 : t4 % 67108864 = s4 at *
  generalize hs5 : t5 % 67108864 = s5 at *
  generalize hs6 : t6 % 67108864 = s6 at *
  generalize hs7 : t7 % 67108864 = s7 at *
  generalize hs8 : t8 % 67108864 = s8 at *
  have hs0' : s0 < 67108864 := by omega
  have hs1' : s1 < 67108864 := by omega
  have hs2' : s2 < 67108864 := by omega
  have hs3' : s3 < 67108864 := by omega
  have hs4' : s4 < 67108864 := by omega
  have hs5' : s5 < 67108864 := by omega
  have hs6' : s6 < 67108864 := by omega
  have hs7' : s7 < 67108864 := by omega
  have hs8' : s8 < 67108864 := by omega
  clear hs0 hs1 hs2 hs3 hs4 hs5 hs6 hs7 hs8 e0 e1 e2 e3 e4 e5 e6 e7 e8 e9 hx hx63 h t0 t1 t2 t3 t4 t5 t6 t7 t8
  simp only [ite_and_ite]
  simp (disch := omega) only [and7_eq_mask]
  generalize hx2 : (t9 / 4194304 ||| if (t9 = 4194303 ∧ s2 = 67108863 ∧ s3 = 67108863 ∧ s4 = 67108863 ∧ s5 = 67108863 ∧ s6 = 67108863 ∧ s7 = 67108863 ∧ s8 = 67108863) ∧ 67108863 < s1 + 64 + (s0 + 977) / 67108864 then 1 else 0) = x2 at *
  have hx2' : (x2 = 1 ∧ (4194304 ≤ t9 ∨ ((t9 = 4194303 ∧ s2 = 67108863 ∧ s3 = 67108863 ∧ s4 = 67108863 ∧ s5 = 67108863 ∧ s6 = 67108863 ∧ s7 = 67108863 ∧ s8 = 67108863) ∧ 67108863 < s1 + 64 + (s0 + 977) / 67108864))) ∨
      (x2 = 0 ∧ t9 < 4194304 ∧ ¬ ((t9 = 4194303 ∧ s2 = 67108863 ∧ s3 = 67108863 ∧ s4 = 67108863 ∧ s5 = 67108863 ∧ s6 = 67108863 ∧ s7 = 67108863 ∧ s8 = 67108863) ∧ 67108863 < s1 + 64 + (s0 + 977) / 67108864)) := by
    have hq01 : t9 / 4194304 = 0 ∨ t9 / 4194304 = 1 := by omega
    split at hx2
    · rename_i hC
      rcases hq01 with hq | hq <;> rw [hq] at hx2 <;> simp only [Nat.reduceOr] at hx2 <;> omega
    · rename_i hC
      rw [Nat.or_zero] at hx2
      rcases hq01 with hq | hq
      · right; exact ⟨by omega, by omega, hC⟩
      · left; exact ⟨by omega, by omega⟩
  clear hx2
  have hx2le : x2 ≤ 1 := by omega
  generalize hu0 : (s0 + x2 * 977) % 4294967296 = u0 at *
  have f0 : u0 = s0 + x2 * 977 := by omega
  clear hu0
  generalize f1 : s1 + x2 * 64 + u0 / 67108864 = u1 at *
  generalize f2 : s2 + u1 / 67108864 = u2 at *
  generalize f3 : s3 + u2 / 67108864 = u3 at *
  generalize f4 : s4 + u3 / 67108864 = u4 at *
  generalize f5 : s5 + u4 / 67108864 = u5 at *
  generalize f6 : s6 + u5 / 67108864 = u6 at *
  generalize f7 : s7 + u6 / 67108864 = u7 at *
  generalize f8 : s8 + u7 / 67108864 = u8 at *
  generalize f9 : t9 + u8 / 67108864 = u9 at *
  have hU : u0 % 67108864 + u1 % 67108864 * 67108864 + u2 % 67108864 * 4503599627370496 + u3 % 67108864 * 302231454903657293676544 + u4 % 67108864 * 20282409603651670423947251286016 + u5 % 67108864 * 1361129467683753853853498429727072845824 + u6 % 67108864 * 91343852333181432387730302044767688728495783936 + u7 % 67108864 * 6129982163463555433433388108601236734474956488734408704 + u8 % 67108864 * 411376139330301510538742295639337626245683966408394965837152256 + u9 % 4194304 * 27606985387162255149739023449108101809804435888681546220650096895197184 +
      u9 / 4194304 * 115792089237316195423570985008687907853269984665640564039457584007913129639936 =
      s0 + s1 * 67108864 + s2 * 4503599627370496 + s3 * 302231454903657293676544 + s4 * 20282409603651670423947251286016 + s5 * 1361129467683753853853498429727072845824 + s6 * 91343852333181432387730302044767688728495783936 + s7 * 6129982163463555433433388108601236734474956488734408704 + s8 * 411376139330301510538742295639337626245683966408394965837152256 + t9 * 27606985387162255149739023449108101809804435888681546220650096895197184 + x2 * 4294968273 := by omega
  have hu9b : u9 ≤ 4194303 + 65 := by omega
  generalize hv0 : u0 % 67108864 = v0 at *
  generalize hv1 : u1 % 67108864 = v1 at *
  generalize hv2 : u2 % 67108864 = v2 at *
  generalize hv3 : u3 % 67108864 = v3 at *
  generalize hv4 : u4 % 67108864 = v4 at *
  generalize hv5 : u5 % 67108864 = v5 at *
  generalize hv6 : u6 % 67108864 = v6 at *
  generalize hv7 : u7 % 67108864 = v7 at *
  generalize hv8 : u8 % 67108864 = v8 at *
  generalize hv9 : u9 % 4194304 = v9 at *
  generalize hw : u9 / 4194304 = w at *
  have hv0' : v0 < 67108864 := by omega
  have hv1' : v1 < 67108864 := by omega
  have hv2' : v2 < 67108864 := by omega
  have hv3' : v3 < 67108864 := by omega
  have hv4' : v4 < 67108864 := by omega
  have hv5' : v5 < 67108864 := by omega
  have hv6' : v6 < 67108864 := by omega
  have hv7' : v7 < 67108864 := by omega
  have hv8' : v8 < 67108864 := by omega
  have hv9' : v9 < 4194304 := by omega
  have hw' : w ≤ 1 := by omega
  clear hv0 hv1 hv2 hv3 hv4 hv5 hv6 hv7 hv8 hv9 hw f0 f1 f2 f3 f4 f5 f6 f7 f8 f9 hu9b u0 u1 u2 u3 u4 u5 u6 u7 u8 u9
  rcases hx2' with ⟨rfl, hc⟩ | ⟨rfl, hlt, hnc⟩
  · have hw1 : w = 1 := by omega
    subst hw1
    constructor <;> omega
  · have hw0 : w = 0 := by omega
    subst hw0
    have hTlt : s0 + s1 * 67108864 + s2 * 4503599627370496 + s3 * 302231454903657293676544 + s4 * 20282409603651670423947251286016 + s5 * 1361129467683753853853498429727072845824 + s6 * 91343852333181432387730302044767688728495783936 + s7 * 6129982163463555433433388108601236734474956488734408704 + s8 * 411376139330301510538742295639337626245683966408394965837152256 + t9 * 27606985387162255149739023449108101809804435888681546220650096895197184 <
        115792089237316195423570985008687907853269984665640564039457584007908834671663 := by
      by_cases h9 : t9 = 4194303
      · by_cases h8 : s8 = 67108863
        · by_cases h7 : s7 = 67108863
          · by_cases h6 : s6 = 67108863
            · by_cases h5 : s5 = 67108863
              · by_cases h4 : s4 = 67108863
                · by_cases h3 : s3 = 67108863
                  · by_cases h2 : s2 = 67108863
                    · have hn : ¬ (67108863 < s1 + 64 + (s0 + 977) / 67108864) :=
                        fun hh => hnc ⟨⟨h9, h2, h3, h4, h5, h6, h7, h8⟩, hh⟩
                      clear hnc; omega
                    · clear hnc; omega
                  · clear hnc; omega
                · clear hnc; omega
              · clear hnc; omega
            · clear hnc; omega
          · clear hnc; omega
        · clear hnc; omega
      · clear hnc; omega
    clear hnc
    constructor <;> omega

end FieldLinear
end SecpZkp
