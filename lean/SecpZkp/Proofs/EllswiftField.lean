import SecpZkp.Proofs.Field
import SecpZkp.Proofs.Prime
import SecpZkp.Proofs.GroupExtra
import SecpZkp.Model.Ellswift
import Mathlib.NumberTheory.LegendreSymbol.QuadraticChar.Basic
/-
  Field algebra behind ElligatorSwift (`doc/ellswift.md`), over `ZMod P`:

  * multiplicativity of the quadratic character (product of two non-squares is a square);
  * the Skałba / SwiftEC identity in `(v, w)` coordinates: if `W (u² + u v + v²) = -(u³ + 7)` then
    `g(v) · g(-u-v) · W = g(u + W) · (u² + u v + v²)²` with `g(x) = x³ + 7`;
  * the three candidates `X3, X2, X1` of the decoding function as rational functions of `(u, s)`
    (`s = t²`), the proof that one of them is always on the curve, and their values on a
    parametrised point of the conic (the forward map applied to the output of the inverse map).
-/
namespace SecpZkp
namespace Ellswift

abbrev F := ZMod P

/-- `g(x) = x³ + 7`, the right-hand side of the curve equation. -/
def gx (x : F) : F := x ^ 3 + 7

/-! ### Quadratic character -/

theorem isSquare_mul_of_not_of_not {a b : F} (ha : ¬ IsSquare a) (hb : ¬ IsSquare b) :
    IsSquare (a * b) := by
  have ha' := quadraticChar_neg_one_iff_not_isSquare.2 ha
  have hb' := quadraticChar_neg_one_iff_not_isSquare.2 hb
  have ha0 : a ≠ 0 := by rintro rfl; exact ha ⟨0, by simp⟩
  have hb0 : b ≠ 0 := by rintro rfl; exact hb ⟨0, by simp⟩
  rw [← quadraticChar_one_iff_isSquare (mul_ne_zero ha0 hb0), map_mul, ha', hb']
  norm_num

theorem not_isSquare_mul_of_isSquare_of_not {a b : F} (ha : IsSquare a) (ha0 : a ≠ 0)
    (hb : ¬ IsSquare b) : ¬ IsSquare (a * b) := by
  rintro ⟨c, hc⟩
  obtain ⟨d, rfl⟩ := ha
  have hd : d ≠ 0 := by rintro rfl; exact ha0 (by simp)
  exact hb ⟨c / d, by field_simp; linear_combination hc⟩

theorem isSquare_of_mul_sq {k x : F} (hk : k ≠ 0) (h : IsSquare (x * (k * k))) : IsSquare x := by
  obtain ⟨c, hc⟩ := h
  exact ⟨c / k, by field_simp; linear_combination hc⟩

theorem isSquare_mul_sq {k x : F} (h : IsSquare x) : IsSquare (x * (k * k)) := by
  obtain ⟨c, rfl⟩ := h
  exact ⟨c * k, by ring⟩

/-- `g` never vanishes on secp256k1 (`-7` is not a cube). -/
theorem gx_ne_zero (x : F) : gx x ≠ 0 := by
  have := neg_seven_not_cube x
  unfold gx
  intro h; apply this; linear_combination h

/-! ### The cube root of unity -/

/-- `ω = c1 = (√-3 - 1)/2`. -/
def ω : F := (c1 : ℕ)

theorem c1_rel : (c1 * c1 + c1 + 1) % P = 0 := by decide +kernel
theorem c2_rel : (c1 + c2 + 1) % P = 0 := by decide +kernel
theorem c3_rel : (c1 + c3) % P = 0 := by decide +kernel

theorem ω_rel : ω * ω + ω + 1 = 0 := by
  have := (Fe.cast_eq_zero_iff (c1 * c1 + c1 + 1)).2 c1_rel
  simpa [ω] using this

theorem cast_c1 : ((c1 : ℕ) : F) = ω := rfl
theorem cast_c2 : ((c2 : ℕ) : F) = -1 - ω := by
  have := (Fe.cast_eq_zero_iff (c1 + c2 + 1)).2 c2_rel
  push_cast at this
  unfold ω
  linear_combination this
theorem cast_c3 : ((c3 : ℕ) : F) = -ω := by
  have := (Fe.cast_eq_zero_iff (c1 + c3)).2 c3_rel
  push_cast at this
  unfold ω
  linear_combination this
theorem cast_c4 : ((c4 : ℕ) : F) = ω + 1 := by
  have : c4 = c1 + 1 := by decide +kernel
  rw [this]; push_cast; rfl

/-- `ρ = 2ω + 1 = √-3`. -/
def ρ : F := 2 * ω + 1

theorem ρ_sq : ρ * ρ = -3 := by
  unfold ρ; linear_combination 4 * ω_rel

theorem three_ne_zero : (3 : F) ≠ 0 := by
  have : ((3 : ℕ) : F) ≠ 0 := by rw [Ne, Fe.cast_eq_zero_iff]; decide
  simpa using this

theorem two_ne_zero : (2 : F) ≠ 0 := by
  have : ((2 : ℕ) : F) ≠ 0 := by rw [Ne, Fe.cast_eq_zero_iff]; decide
  simpa using this

theorem ρ_ne_zero : ρ ≠ 0 := by
  intro h
  have := ρ_sq
  rw [h, mul_zero] at this
  exact three_ne_zero (by linear_combination this)

/-! ### The Skałba / SwiftEC identity -/

/-- With `b` generic: on the conic `W (u² + u v + v²) = -(u³ + b)`,
    `g(v) g(-u-v) W = g(u+W) (u² + u v + v²)²`. -/
theorem skalba_gen (u v W b : F) (h : W * (u ^ 2 + u * v + v ^ 2) = -(u ^ 3 + b)) :
    (v ^ 3 + b) * ((-u - v) ^ 3 + b) * W = ((u + W) ^ 3 + b) * (u ^ 2 + u * v + v ^ 2) ^ 2 := by
  obtain rfl : b = -(W * (u ^ 2 + u * v + v ^ 2)) - u ^ 3 := by linear_combination h
  ring

theorem skalba (u v W : F) (h : W * (u ^ 2 + u * v + v ^ 2) = -gx u) :
    gx v * gx (-u - v) * W = gx (u + W) * (u ^ 2 + u * v + v ^ 2) ^ 2 :=
  skalba_gen u v W 7 h

/-- On the conic, with `W` a non-zero square: if `g(u+W)` and `g(-u-v)` are non-squares then `g(v)`
    is a square ("not all three candidates are off the curve"). -/
theorem skalba_dichotomy {u v W : F} (h : W * (u ^ 2 + u * v + v ^ 2) = -gx u)
    (hW : IsSquare W) (h3 : ¬ IsSquare (gx (u + W))) (h2 : ¬ IsSquare (gx (-u - v))) :
    IsSquare (gx v) := by
  by_contra h1
  have hQ : u ^ 2 + u * v + v ^ 2 ≠ 0 := by
    intro h0; rw [h0, mul_zero] at h
    exact gx_ne_zero u (by linear_combination h)
  have hl : IsSquare (gx v * gx (-u - v) * W) := by
    obtain ⟨c, hc⟩ := isSquare_mul_of_not_of_not h1 h2
    obtain ⟨d, hd⟩ := hW
    exact ⟨c * d, by rw [hc, hd]; ring⟩
  rw [skalba u v W h, pow_two] at hl
  exact h3 (isSquare_of_mul_sq hQ hl)

/-- On the conic, with `W` a non-zero square: if `g(v)` is a square and `g(-u-v)` is not, then
    `g(u+W)` is not a square (used by the inverse map: the `x3` candidate does not take precedence). -/
theorem skalba_x3_not {u v W : F} (h : W * (u ^ 2 + u * v + v ^ 2) = -gx u)
    (hW : IsSquare W) (hW0 : W ≠ 0) (h1 : IsSquare (gx v)) (h2 : ¬ IsSquare (gx (-u - v))) :
    ¬ IsSquare (gx (u + W)) := by
  intro h3
  have hr : IsSquare (gx (u + W) * (u ^ 2 + u * v + v ^ 2) ^ 2) := by
    rw [pow_two]; exact isSquare_mul_sq h3
  rw [← skalba u v W h] at hr
  have h12 : ¬ IsSquare (gx v * gx (-u - v)) :=
    not_isSquare_mul_of_isSquare_of_not h1 (gx_ne_zero v) h2
  apply not_isSquare_mul_of_isSquare_of_not hW hW0 h12
  rw [mul_comm]; exact hr

/-! ### The three candidates of the decoding function -/

/-- denominator of `x3`: `3 s u²` -/
def D3 (U S : F) : F := S * (U * U) * 3
/-- numerator of `x3`: `3 s u³ - (g + s)²` -/
def N3 (U S : F) : F := D3 U S * U + -((gx U + S) * (gx U + S))
/-- numerator of `x2`: `u (c1 s + c2 g)` (denominator `g + s`) -/
def N2 (U S : F) : F := ((-1 - ω) * gx U + ω * S) * U
/-- numerator of `x1 = -(x2 + u)` (denominator `g + s`) -/
def N1 (U S : F) : F := -(N2 U S + (gx U + S) * U)

noncomputable def X3 (U S : F) : F := N3 U S / D3 U S
noncomputable def X2 (U S : F) : F := N2 U S / (gx U + S)
noncomputable def X1 (U S : F) : F := N1 U S / (gx U + S)

open Classical in
/-- The decoding function `F_u(t)` in terms of `u` and `s = t²` (after the remapping of the exceptional
    inputs): the first of `x3, x2, x1` that is on the curve. -/
noncomputable def FU (U S : F) : F :=
  if IsSquare (gx (X3 U S)) then X3 U S
  else if IsSquare (gx (X2 U S)) then X2 U S
  else X1 U S

theorem D3_ne_zero {U S : F} (hU : U ≠ 0) (hS : S ≠ 0) : D3 U S ≠ 0 :=
  mul_ne_zero (mul_ne_zero hS (mul_ne_zero hU hU)) three_ne_zero

theorem X1_eq {U S : F} (hp : gx U + S ≠ 0) : X1 U S = -U - X2 U S := by
  unfold X1 X2 N1
  field_simp
  ring

/-- `(x3 - u) · 3 s u² = -(g+s)²` -/
theorem X3_sub_mul {U S : F} (hU : U ≠ 0) (hS : S ≠ 0) :
    (X3 U S - U) * D3 U S = -((gx U + S) * (gx U + S)) := by
  have hd := D3_ne_zero hU hS
  unfold X3 N3
  field_simp
  ring

/-- `x2` (with `w² = x3 - u`) lies on the conic `w² (u² + u v + v²) = -g(u)`. -/
theorem conic_X2 {U S : F} (hU : U ≠ 0) (hS : S ≠ 0) (hp : gx U + S ≠ 0) :
    (X3 U S - U) * (U ^ 2 + U * X2 U S + X2 U S ^ 2) = -gx U := by
  have hd := D3_ne_zero hU hS
  have hWD := X3_sub_mul hU hS
  generalize X3 U S - U = W at hWD ⊢
  have hvp : X2 U S * (gx U + S) = N2 U S := by unfold X2; field_simp
  generalize X2 U S = v at hvp ⊢
  have hv1 : (v - ω * U) * (gx U + S) = -ρ * U * gx U := by
    unfold ρ; unfold N2 at hvp; linear_combination hvp
  have hv2 : (v - (-1 - ω) * U) * (gx U + S) = ρ * U * S := by
    unfold ρ; unfold N2 at hvp; linear_combination hvp
  have hQp : (U ^ 2 + U * v + v ^ 2) * ((gx U + S) * (gx U + S)) = D3 U S * gx U := by
    unfold D3
    linear_combination ((v - (-1 - ω) * U) * (gx U + S)) * hv1 + (-ρ * U * gx U) * hv2
      + (-(U ^ 2 * gx U * S)) * ρ_sq + (U ^ 2 * (gx U + S) ^ 2) * ω_rel
  have h0 : (W * (U ^ 2 + U * v + v ^ 2) + gx U) * (D3 U S * ((gx U + S) * (gx U + S))) = 0 := by
    linear_combination ((U ^ 2 + U * v + v ^ 2) * ((gx U + S) * (gx U + S))) * hWD
      + (-((gx U + S) * (gx U + S))) * hQp
  rcases mul_eq_zero.1 h0 with h | h
  · linear_combination h
  · exact absurd h (mul_ne_zero hd (mul_ne_zero hp hp))

/-- `x3 - u = -(g+s)²/(3 s u²)` is a non-zero square when `s` is a non-zero square. -/
theorem X3_sub_isSquare {U S : F} (hU : U ≠ 0) (hS : S ≠ 0) (hSs : IsSquare S)
    (hp : gx U + S ≠ 0) : IsSquare (X3 U S - U) ∧ X3 U S - U ≠ 0 := by
  have hd := D3_ne_zero hU hS
  have hWD := X3_sub_mul hU hS
  obtain ⟨τ, hτ⟩ := hSs
  have hτ0 : τ ≠ 0 := by rintro rfl; exact hS (by rw [hτ]; ring)
  constructor
  · refine ⟨(gx U + S) / (ρ * τ * U), ?_⟩
    have hρ := ρ_ne_zero
    have hne : ρ * τ * U ≠ 0 := mul_ne_zero (mul_ne_zero hρ hτ0) hU
    have e : D3 U S = -((ρ * τ * U) * (ρ * τ * U)) := by
      unfold D3; rw [hτ]; linear_combination (τ * τ * U * U) * ρ_sq
    rw [e] at hWD
    field_simp
    linear_combination -hWD
  · intro h0
    rw [h0, zero_mul] at hWD
    exact mul_ne_zero hp hp (by linear_combination hWD)

/-- **Every input decodes to an x-coordinate on the curve**: for `u ≠ 0`, `s` a non-zero square and
    `g(u) + s ≠ 0`, `g(F_u)` is a square. -/
theorem FU_onCurve {U S : F} (hU : U ≠ 0) (hS : S ≠ 0) (hSs : IsSquare S) (hp : gx U + S ≠ 0) :
    IsSquare (gx (FU U S)) := by
  unfold FU
  split_ifs with h3 h2
  · exact h3
  · exact h2
  · -- conic relation is symmetric under v ↦ -u - v
    have hc := conic_X2 hU hS hp
    obtain ⟨hW, _⟩ := X3_sub_isSquare hU hS hSs hp
    have hc1 : (X3 U S - U) * (U ^ 2 + U * X1 U S + X1 U S ^ 2) = -gx U := by
      rw [X1_eq hp]; linear_combination hc
    have e3 : U + (X3 U S - U) = X3 U S := by ring
    have e2 : -U - X1 U S = X2 U S := by rw [X1_eq hp]; ring
    exact skalba_dichotomy hc1 hW (by rw [e3]; exact h3) (by rw [e2]; exact h2)

/-! ### The forward map on a parametrised point of the conic -/

/-- For `(v, w)` on the conic `w² (u² + u v + v²) = -g(u)` (`W = w²`) and `t = ± w (ω u - v)`
    (`s = t² = W (ω u - v)²`), the three candidates are `x3 = u + W`, `x2 = -u - v`, `x1 = v`, and
    none of the exceptional cases of the forward map occurs. -/
theorem candidates_of_param {U W v : F} (hU : U ≠ 0) (hW : W ≠ 0)
    (hrel : W * (U ^ 2 + U * v + v ^ 2) = -gx U) :
    W * ((ω * U - v) * (ω * U - v)) ≠ 0 ∧ gx U + W * ((ω * U - v) * (ω * U - v)) ≠ 0 ∧
    X3 U (W * ((ω * U - v) * (ω * U - v))) = U + W ∧
    X2 U (W * ((ω * U - v) * (ω * U - v))) = -U - v ∧
    X1 U (W * ((ω * U - v) * (ω * U - v))) = v := by
  have hG : gx U = -(W * (ω * U - v) * ((ω * U - v) - ρ * U)) := by
    unfold ρ; linear_combination hrel - (W * U ^ 2) * ω_rel
  have ha : ω * U - v ≠ 0 := by
    intro h0; rw [h0] at hG; exact gx_ne_zero U (by rw [hG]; ring)
  have hS : W * ((ω * U - v) * (ω * U - v)) ≠ 0 := mul_ne_zero hW (mul_ne_zero ha ha)
  have hp : gx U + W * ((ω * U - v) * (ω * U - v)) = W * (ω * U - v) * ρ * U := by
    rw [hG]; ring
  have hp0 : gx U + W * ((ω * U - v) * (ω * U - v)) ≠ 0 := by
    rw [hp]; exact mul_ne_zero (mul_ne_zero (mul_ne_zero hW ha) ρ_ne_zero) hU
  have h2 : X2 U (W * ((ω * U - v) * (ω * U - v))) = -U - v := by
    unfold X2
    rw [div_eq_iff hp0]
    unfold N2
    unfold ρ at hG
    linear_combination (-(ω * U - v)) * hG
  refine ⟨hS, hp0, ?_, h2, ?_⟩
  · unfold X3
    rw [div_eq_iff (D3_ne_zero hU hS)]
    unfold N3
    rw [hp]
    unfold D3
    linear_combination (-(W ^ 2 * (ω * U - v) ^ 2 * U ^ 2)) * ρ_sq
  · rw [X1_eq hp0, h2]; ring

/-- the conic is symmetric under `v ↦ -u - v` -/
theorem conic_symm {U W v : F} (hrel : W * (U ^ 2 + U * v + v ^ 2) = -gx U) :
    W * (U ^ 2 + U * (-U - v) + (-U - v) ^ 2) = -gx U := by
  linear_combination hrel

/-- Round trip through the `x3` candidate. -/
theorem FU_param_x3 {U W v : F} (hU : U ≠ 0) (hW : W ≠ 0)
    (hrel : W * (U ^ 2 + U * v + v ^ 2) = -gx U) (h3 : IsSquare (gx (U + W))) :
    FU U (W * ((ω * U - v) * (ω * U - v))) = U + W := by
  obtain ⟨_, _, e3, _, _⟩ := candidates_of_param hU hW hrel
  unfold FU
  rw [e3, if_pos h3]

/-- Round trip through the `x1` candidate. -/
theorem FU_param_x1 {U W v : F} (hU : U ≠ 0) (hW : W ≠ 0) (hWs : IsSquare W)
    (hrel : W * (U ^ 2 + U * v + v ^ 2) = -gx U) (h1 : IsSquare (gx v))
    (h2 : ¬ IsSquare (gx (-U - v))) :
    FU U (W * ((ω * U - v) * (ω * U - v))) = v := by
  obtain ⟨_, _, e3, e2, e1⟩ := candidates_of_param hU hW hrel
  unfold FU
  rw [e3, e2, e1, if_neg (skalba_x3_not hrel hWs hW h1 h2), if_neg h2]

/-- Round trip through the `x2` candidate. -/
theorem FU_param_x2 {U W v : F} (hU : U ≠ 0) (hW : W ≠ 0) (hWs : IsSquare W)
    (hrel : W * (U ^ 2 + U * v + v ^ 2) = -gx U) (h1 : ¬ IsSquare (gx v))
    (h2 : IsSquare (gx (-U - v))) :
    FU U (W * ((ω * U - v) * (ω * U - v))) = -U - v := by
  obtain ⟨_, _, e3, e2, e1⟩ := candidates_of_param hU hW hrel
  have e : -U - (-U - v) = v := by ring
  have h3 : ¬ IsSquare (gx (U + W)) :=
    skalba_x3_not (conic_symm hrel) hWs hW h2 (by rw [e]; exact h1)
  unfold FU
  rw [e3, e2, if_neg h3, if_pos h2]

/-! ### Round trip of the inverse map, at field level -/

/-- Inverse under the `x1`/`x2` formulas (`c ∈ {0,1,4,5}`): `v = x`, `W = -g(u)/(u²+ux+x²)`,
    `t = ± w (ω u - x)` (even `c`) or `t = ± w (ω u - (-u-x))` (odd `c`). -/
theorem roundtrip_A {U X W T : F} (hU : U ≠ 0) (hX : IsSquare (gx X))
    (hn : ¬ IsSquare (gx (-U - X))) (hW0 : W ≠ 0) (hWs : IsSquare W)
    (hrel : W * (U ^ 2 + U * X + X ^ 2) = -gx U)
    (hT : T * T = W * ((ω * U - X) * (ω * U - X)) ∨
          T * T = W * ((ω * U - (-U - X)) * (ω * U - (-U - X)))) :
    T * T ≠ 0 ∧ gx U + T * T ≠ 0 ∧ FU U (T * T) = X := by
  rcases hT with hT | hT
  · obtain ⟨h1, h2, _⟩ := candidates_of_param hU hW0 hrel
    rw [hT]
    exact ⟨h1, h2, FU_param_x1 hU hW0 hWs hrel hX hn⟩
  · have hrel' := conic_symm hrel
    obtain ⟨h1, h2, _⟩ := candidates_of_param hU hW0 hrel'
    have e : -U - (-U - X) = X := by ring
    rw [hT]
    refine ⟨h1, h2, ?_⟩
    have := FU_param_x2 hU hW0 hWs hrel' hn (by rw [e]; exact hX)
    rw [this, e]

/-- Inverse under the `x3` formula (`c ∈ {2,3,6,7}`): `W = x - u`, `v = (r/W - u)/2`. -/
theorem roundtrip_B {U X v T : F} (hU : U ≠ 0) (hX : IsSquare (gx X)) (hW0 : X - U ≠ 0)
    (hrel : (X - U) * (U ^ 2 + U * v + v ^ 2) = -gx U)
    (hT : T * T = (X - U) * ((ω * U - v) * (ω * U - v)) ∨
          T * T = (X - U) * ((ω * U - (-U - v)) * (ω * U - (-U - v)))) :
    T * T ≠ 0 ∧ gx U + T * T ≠ 0 ∧ FU U (T * T) = X := by
  have e : U + (X - U) = X := by ring
  rcases hT with hT | hT
  · obtain ⟨h1, h2, _⟩ := candidates_of_param hU hW0 hrel
    rw [hT]
    refine ⟨h1, h2, ?_⟩
    rw [FU_param_x3 hU hW0 hrel (by rw [e]; exact hX), e]
  · have hrel' := conic_symm hrel
    obtain ⟨h1, h2, _⟩ := candidates_of_param hU hW0 hrel'
    rw [hT]
    refine ⟨h1, h2, ?_⟩
    rw [FU_param_x3 hU hW0 hrel' (by rw [e]; exact hX), e]

/-- `u² + u x + x² = 0` forces `g(-u-x) = g(x)` (so the first branch never divides by zero). -/
theorem gx_neg_of_quad_zero {U X : F} (h : U ^ 2 + U * X + X ^ 2 = 0) : gx (-U - X) = gx X := by
  unfold gx; linear_combination (-(U + 2 * X)) * h

/-- the conic relation for the `x3` inverse: `(2v + u) s = r`, `r² = -s (4 g + 3 s u²)` -/
theorem conic_B {U s r v : F} (hs : s ≠ 0) (hv : (2 * v + U) * s = r)
    (hr : r * r = -((s * (U * U) * 3 + (U * U * U * 4 + 28)) * s)) :
    s * (U ^ 2 + U * v + v ^ 2) = -gx U := by
  have h4 : (4 : F) ≠ 0 := by
    have : (4 : F) = 2 * 2 := by norm_num
    rw [this]; exact mul_ne_zero two_ne_zero two_ne_zero
  have h0 : (s * (U ^ 2 + U * v + v ^ 2) + gx U) * (4 * s) = 0 := by
    unfold gx
    rw [← hv] at hr
    linear_combination hr
  rcases mul_eq_zero.1 h0 with h | h
  · linear_combination h
  · exact absurd h (mul_ne_zero h4 hs)

end Ellswift
end SecpZkp
