import SecpZkp.Driver.Core
import SecpZkp.Model.Borromean
/-
  Handlers: generator / Pedersen API (C08) and the internal Borromean sign/verify.
  Generator object token = point token (never `Z` for a real object); commitment object = 33 bytes hex.
-/
namespace SecpZkp
namespace Driver
open Bytes

def hGenParse : Handler
  | [inp] => do
    let b ← hexN? 33 inp
    match Generator.parse b with
    | some g => some ("1 " ++ showPt g)
    | none => some "0 Z"
  | _ => none

def hGenSerialize : Handler
  | [g] => do let p ← pt? g; some ("1 " ++ hx (Generator.serialize p))
  | _ => none

def hGenGenerate : Handler
  | [key, blind] => do
    let k ← hexN? 32 key; let b ← optHex? blind
    let (ret, g) := Generator.generateInternal k b
    some (s!"{ret} {showPt g}")
  | _ => none

def hCommitParse : Handler
  | [inp] => do
    let b ← hexN? 33 inp
    match Generator.commitParse b with
    | some c => some ("1 " ++ hx c)
    | none => some "0 -"
  | _ => none

def hCommit : Handler
  | [blind, value, gen] => do
    let b ← hexN? 32 blind; let v ← nat? value; let g ← pt? gen
    match Generator.commit b v g with
    | some c => some ("1 " ++ hx c ++ " " ++ showPt (Generator.commitLoad c))
    | none => some "0 - Z"
  | _ => none

def splitAt? (sep : String) (l : List String) : Option (List String × List String) :=
  match l.span (· ≠ sep) with
  | (a, _ :: b) => some (a, b)
  | _ => none

/-- `blind_sum npositive b1 b2 ...` -/
def hBlindSum : Handler
  | np :: rest => do
    let n ← nat? np
    let bs ← rest.mapM (hexN? 32)
    if n > bs.length then some "0 - i1" else
    match Generator.blindSum bs n with
    | some o => some ("1 " ++ hx o ++ " i0")
    | none => some "0 - i0"
  | _ => none

/-- `verify_tally c1 c2 ... / n1 n2 ...` -/
def hVerifyTally : Handler := fun args => do
  let (pos, neg) ← splitAt? "/" args
  let p ← pos.mapM (hexN? 33); let n ← neg.mapM (hexN? 33)
  some (bit (Generator.verifyTally p n))

/-- `blind_gen_blind_sum n_inputs (value genblind blind)*` -/
def hBlindGenBlindSum : Handler
  | ni :: rest => do
    let n ← nat? ni
    let rec parse3 : List String → Option (List (Nat × Bytes × Bytes))
      | [] => some []
      | v :: g :: b :: t => do
        let vv ← nat? v; let gg ← hexN? 32 g; let bb ← hexN? 32 b
        let r ← parse3 t
        some ((vv, gg, bb) :: r)
      | _ => none
    let l ← parse3 rest
    if l.length ≤ n then some "0 - i1" else
    match Generator.blindGeneratorBlindSum (l.map (·.1)) (l.map (·.2.1)) (l.map (·.2.2)) n with
    | some o => some ("1 " ++ hx o ++ " i0")
    | none => some "0 - i0"
  | _ => none

/-- `borromean_sign m / rsizes / secidx / k / sec / s / pubs` ; lists are space separated -/
def hBorromeanSign : Handler
  | m :: "/" :: rest => do
    let mb ← hex? m
    let (rs, r1) ← splitAt? "/" rest
    let (si, r2) ← splitAt? "/" r1
    let (k, r3) ← splitAt? "/" r2
    let (sec, r4) ← splitAt? "/" r3
    let (s, pubs) ← splitAt? "/" r4
    let rsizes ← rs.mapM nat?; let secidx ← si.mapM nat?
    let kk ← k.mapM num32?; let ss ← sec.mapM num32?; let sv ← s.mapM num32?; let pp ← pubs.mapM pt?
    match Borromean.sign sv pp kk ss rsizes secidx mb with
    | none => some "0"
    | some (e0, sOut) =>
      let (ok, _) := Borromean.verify e0 sOut pp rsizes mb
      some (join (["1", hx e0] ++ sOut.map (fun x => hx (be32 x)) ++ [bit ok]))
  | _ => none

/-- `borromean_verify m e0 / rsizes / s / pubs` -/
def hBorromeanVerify : Handler
  | m :: e0 :: "/" :: rest => do
    let mb ← hex? m; let e ← hexN? 32 e0
    let (rs, r1) ← splitAt? "/" rest
    let (s, pubs) ← splitAt? "/" r1
    let rsizes ← rs.mapM nat?; let sv ← s.mapM num32?; let pp ← pubs.mapM pt?
    let (ok, ev) := Borromean.verify e sv pp rsizes mb
    some (join ([bit ok] ++ (if ok then ev.map (fun x => hx (be32 x)) else [])))
  | _ => none

def generatorHandlers : List (String × Handler) := [
  ("generator_parse", hGenParse), ("generator_serialize", hGenSerialize), ("generator_generate", hGenGenerate),
  ("commit_parse", hCommitParse), ("pedersen_commit", hCommit), ("blind_sum", hBlindSum),
  ("verify_tally", hVerifyTally), ("blind_gen_blind_sum", hBlindGenBlindSum),
  ("borromean_sign", hBorromeanSign), ("borromean_verify", hBorromeanVerify)
]

end Driver
end SecpZkp
