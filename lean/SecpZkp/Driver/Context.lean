import SecpZkp.Driver.Core
import SecpZkp.Model.Context
/-
  Handlers for context histories (C20). The battery lines after `/` are executed only by the C
  harness (with the context under test); the model's statement is that every `call` answers `same`.
-/
namespace SecpZkp
namespace Driver
open Context

def ctxOp? (s : String) : Option Op :=
  if s = "create" then some .create else if s = "prealloc" then some .prealloc
  else if s = "clone" then some .clone else if s = "pclone" then some .pclone
  else if s = "sha:c" then some .setSha else if s = "sha:_" then some .resetSha
  else if s = "call" then some .call else if s = "state" then some .state
  else if s = "destroy" then some .destroy
  else if s.startsWith "rand:" then
    let r := (s.drop 5).toString
    if r = "_" then some (.randomize none) else (hexN? 32 r).map (fun b => .randomize (some b))
  else none

def hCtxHistory : Handler
  | cb :: rest => do
    let combBits ← nat? cb
    let steps := rest.takeWhile (· ≠ "/")
    let ops ← steps.mapM ctxOp?
    let (_, outs) := ops.foldl (fun (acc : GenCtx × List String) op =>
      let c := step combBits acc.1 op
      let o : List String := match op with
        | .create => ["a1"] | .prealloc => ["a0"] | .clone => ["a1"] | .pclone => ["a0"]
        | .randomize _ => ["1"] | .setSha => ["ok"] | .resetSha => ["ok"]
        | .call => ["same"]
        | .state => [hx (Bytes.be32 c.so), showPt c.go, hx (Bytes.be32 c.projBlind)]
        | .destroy => ["ok"]
      (c, acc.2 ++ o)) (fresh, [])
    some (join outs)
  | _ => none

/-- split battery tokens into lines at `|` -/
def batteryLines (toks : List String) : List (List String) :=
  (toks.foldr (fun t (acc : List (List String)) =>
    if t = "|" then [] :: acc else match acc with
      | [] => [[t]]
      | l :: ls => (t :: l) :: ls) [[]]).filter (· ≠ [])

def hCtxStatic : Handler
  | "/" :: rest =>
    let ls := batteryLines rest
    let marks := ls.map (fun l => match l with
      | op :: args => if needsGen op args then "i" else "s"
      | [] => "s")
    -- `secp256k1_context_randomize` on the static context: one illegal callback; `secp256k1_context_clone` of it (twice): one
    -- callback, NULL, no allocation
    some (join (marks ++ ["1", "c1n", "a0", "c1n", "a0"]))
  | _ => none

def hCtxThreads : Handler
  | nt :: _ :: "/" :: _ => some ("same " ++ nt)
  | _ => none

def contextHandlers : List (String × Handler) := [
  ("ctx_history", hCtxHistory), ("ctx_static", hCtxStatic), ("ctx_threads", hCtxThreads)]

end Driver
end SecpZkp
