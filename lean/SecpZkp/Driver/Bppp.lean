import SecpZkp.Driver.Generator
import SecpZkp.Model.Bppp
/-
  Handlers: Bulletproofs++ generator lists and norm argument (C19).  See docs/PROTOCOL.md.
-/
namespace SecpZkp
namespace Driver
open Bytes

/-- transcript token: `<hex>` = sha256_initialize + write(hex); `t<hex>` = tagged commitment
    midstate + write(hex) -/
def transcript? (s : String) : Option Sha256.State :=
  if s.startsWith "t" then do
    let b ← hex? (s.drop 1).toString
    some (Sha256.write Bppp.taggedCommitmentInit b)
  else do
    let b ← hex? s
    some (Sha256.write Sha256.init b)

/-- scratch token: `_` = NULL, else size -/
def scratch? (s : String) : Option (Option Nat) :=
  if s = "_" then some none else (nat? s).map some

def sc32? (s : String) : Option Nat := (num32? s).map (· % N)

def ser65 (p : Pt) : Bytes := Codec.serialize65 p

def shaHex (b : Bytes) : String := toHex (Sha256.sha256 b)

/-- `bppp_gens_create n` ↦ `1 n <first ≤2 points> <sha256 of all 65-byte encodings>` -/
def hBpppGensCreate : Handler
  | [n] => do
    let k ← nat? n
    match Bppp.gensCreate k with
    | none => some "ABORT"
    | some gs => some (join (["1", toString gs.length] ++ (gs.take 2).map showPt ++ [shaHex (gs.flatMap ser65)]))
  | _ => none

/-- `bppp_gens_prefix n k` ↦ 1 iff create(n) is the n-prefix of create(n+k) -/
def hBpppGensPrefix : Handler
  | [n, k] => do
    let a ← nat? n; let b ← nat? k
    match Bppp.gensCreate a, Bppp.gensCreate (a + b) with
    | some x, some y => some (bit (decide (x = y.take a)))
    | _, _ => some "ABORT"
  | _ => none

/-- `bppp_gens_parse <hex|_>` ↦ `0 L0 i<k>` | `1 n sha(reserialized) <reserialized == input> L0 i0` -/
def hBpppGensParse : Handler
  | [d] => do
    let data ← optHex? d
    let r := Bppp.gensParse data
    match r.out with
    | none => some s!"0 L0 i{r.illegal}"
    | some gs =>
      let s := Bppp.gensSerialize (some gs) (some (List.replicate (33 * gs.length) 0xAA)) (33 * gs.length)
      let ser := (s.out.1).getD []
      some s!"1 {gs.length} {shaHex ser} {bit (some ser == data)} L0 i{r.illegal + s.illegal}"
  | _ => none

/-- `bppp_gens_serialize <n|_> <buflen|_>` ↦ `ret len sha(buffer) i<k>` -/
def hBpppGensSerialize : Handler
  | [n, bl] => do
    let gens ← if n = "_" then some none else do
      let k ← nat? n
      some (Bppp.gensCreate k)
    if n ≠ "_" ∧ gens.isNone then some "ABORT" else
    let cnt := (gens.map List.length).getD 0
    let (buf, len) ← if bl = "_" then some (none, 33 * cnt) else do
      let k ← nat? bl
      some (some (List.replicate k (0xAA : UInt8)), k)
    let r := Bppp.gensSerialize gens buf len
    some s!"{r.ret} {r.out.2} {shaHex (r.out.1.getD [])} i{r.illegal}"
  | _ => none

def split4? (l : List String) : Option (List String × List String × List String × List String) := do
  let (a, r1) ← splitAt? "/" l
  let (b, r2) ← splitAt? "/" r1
  let (c, d) ← splitAt? "/" r2
  some (a, b, c, d)

/-- `bppp_commit <scratch|_> <rho32> / n_vec / l_vec / c_vec / <gens count>` ↦ `ret commit` -/
def hBpppCommit : Handler
  | scr :: rho :: "/" :: rest => do
    let _ ← scratch? scr
    let r ← sc32? rho
    let (ns, ls, cs, cnt) ← split4? rest
    let nV ← ns.mapM sc32?; let lV ← ls.mapM sc32?; let cV ← cs.mapM sc32?
    let k ← match cnt with | [c] => nat? c | _ => none
    if lV.length ≠ cV.length ∨ k < nV.length + lV.length then none else
    if !Bppp.isPowerOfTwo nV.length ∨ !Bppp.isPowerOfTwo lV.length then none else
    match Bppp.gensCreate k with
    | none => some "ABORT"
    | some gs =>
      let (ret, c) := Bppp.commit gs nV lV cV (Bppp.scSqr r)
      some s!"{ret} {showPt c}"
  | _ => none

/-- `bppp_prove <scratch|_> <transcript> <rho32> / n_vec / l_vec / c_vec`
    ↦ `ret prooflen proof commit verify-ret` -/
def hBpppProve : Handler
  | scr :: tr :: rho :: "/" :: rest => do
    let _ ← scratch? scr
    let t ← transcript? tr
    let r ← sc32? rho
    let (ns, r1) ← splitAt? "/" rest
    let (ls, cs) ← splitAt? "/" r1
    let nV ← ns.mapM sc32?; let lV ← ls.mapM sc32?; let cV ← cs.mapM sc32?
    if lV.length ≠ cV.length then none else
    if !Bppp.isPowerOfTwo nV.length ∨ !Bppp.isPowerOfTwo lV.length then none else
    match Bppp.gensCreate (nV.length + lV.length) with
    | none => some "ABORT"
    | some gs =>
      let (cret, c) := Bppp.commit gs nV lV cV (Bppp.scSqr r)
      if cret = 0 then some "0 commit-failed" else
      let (ret, proof, _) := Bppp.prove t r gs nV lV cV
      if ret = 0 then some s!"0 0 - {showPt c} 0" else
      let (v, _) := Bppp.verify ⟨4 * 1024 * 1024, 0⟩ proof t r gs nV.length cV c
      some s!"{ret} {proof.length} {hx proof} {showPt c} {v}"
  | _ => none

/-- `bppp_verify <scratch> <transcript> <rho32> <gens_n> <g_len> <commit> / c_vec / <proof>`
    ↦ `ret a<scratch alloc_size afterwards>` -/
def hBpppVerify : Handler
  | scr :: tr :: rho :: gn :: gl :: cm :: "/" :: rest => do
    let s ← scratch? scr
    let t ← transcript? tr
    let r ← sc32? rho
    let gensN ← nat? gn; let gLen ← nat? gl; let c ← pt? cm
    let (cs, pf) ← splitAt? "/" rest
    let cV ← cs.mapM sc32?
    let proof ← match pf with | [p] => hex? p | _ => none
    match s with
    | none => some "CRASH null-scratch"     -- the C function dereferences the scratch pointer
    | some size =>
      match Bppp.gensCreate gensN with
      | none => some "ABORT"
      | some gs =>
        let (ret, s') := Bppp.verify ⟨size, 0⟩ proof t r gs gLen cV c
        some s!"{ret} a{s'.allocSize}"
  | _ => none

/-- `bppp_challenge <transcript> <idx>` ↦ scalar -/
def hBpppChallenge : Handler
  | [tr, idx] => do
    let t ← transcript? tr; let i ← nat? idx
    some (hx (be32 (Bppp.challengeScalar t i)))
  | _ => none

/-- `bppp_points_ser P Q` ↦ 65 bytes -/
def hBpppPointsSer : Handler
  | [p, q] => do
    let a ← pt? p; let b ← pt? q
    some (hx (Bppp.serializePoints a b))
  | _ => none

/-- `bppp_points_parse <65 bytes>` ↦ `r0 P0 r1 P1` -/
def hBpppPointsParse : Handler
  | [b] => do
    let d ← hexN? 65 b
    let f := fun (o : Option Pt) => match o with | none => "0 Z" | some p => "1 " ++ showPt p
    some (f (Bppp.parseOneOfPoints d 0) ++ " " ++ f (Bppp.parseOneOfPoints d 1))
  | _ => none

/-- `bppp_log2 n` ↦ `<log2 | -> <is_power_of_two>` -/
def hBpppLog2 : Handler
  | [n] => do
    let k ← nat? n
    some ((if k = 0 then "-" else toString (Bppp.log2 k)) ++ " " ++ bit (Bppp.isPowerOfTwo k))
  | _ => none

/-- `bppp_ip <mu32|_> a_off b_off step len / a_vec / b_vec` ↦ scalar -/
def hBpppIp : Handler
  | mu :: ao :: bo :: st :: ln :: "/" :: rest => do
    let m ← if mu = "_" then some none else (sc32? mu).map some
    let aOff ← nat? ao; let bOff ← nat? bo; let step ← nat? st; let len ← nat? ln
    let (as, bs) ← splitAt? "/" rest
    let a ← as.mapM sc32?; let b ← bs.mapM sc32?
    if len > 0 ∧ (aOff + step * (len - 1) ≥ a.length ∨ bOff + step * (len - 1) ≥ b.length) then none else
    match m with
    | none => some (hx (be32 (Bppp.scalarInnerProduct a aOff b bOff step len)))
    | some w => some (hx (be32 (Bppp.weightedScalarInnerProduct a aOff b bOff step len w)))
  | _ => none

def bpppHandlers : List (String × Handler) := [
  ("bppp_gens_create", hBpppGensCreate), ("bppp_gens_prefix", hBpppGensPrefix),
  ("bppp_gens_parse", hBpppGensParse), ("bppp_gens_serialize", hBpppGensSerialize),
  ("bppp_commit", hBpppCommit), ("bppp_prove", hBpppProve), ("bppp_verify", hBpppVerify),
  ("bppp_challenge", hBpppChallenge), ("bppp_points_ser", hBpppPointsSer),
  ("bppp_points_parse", hBpppPointsParse), ("bppp_log2", hBpppLog2), ("bppp_ip", hBpppIp)
]

end Driver
end SecpZkp
