import SecpZkp.Driver.Core
/-
  Handlers: hashing, field / scalar / group kernel (C05), ECDSA + recovery (C01), codecs (C03),
  key algebra (C04), Schnorr (C02).
-/
namespace SecpZkp
namespace Driver
open Bytes

/-! ### hashing -/

def hSha256 : Handler := fun args => do
  let chunks ← args.mapM hex?
  some (hx (Sha256.finalize (Sha256.writeAll Sha256.init chunks)))

def hTagged : Handler
  | [tag, msg] => do
    let t ← hex? tag; let m ← hex? msg
    some ("1 " ++ hx (Sha256.tagged t m))
  | _ => none

def hHmac : Handler
  | key :: chunks => do
    let k ← hex? key
    let cs ← chunks.mapM hex?
    some (hx (Sha256.hmac k cs.flatten))
  | _ => none

def hRfc6979 : Handler
  | key :: lens => do
    let k ← hex? key
    let ls ← lens.mapM nat?
    let (outs, _) := ls.foldl (fun (acc : List String × Sha256.Rfc6979) l =>
      let (o, r) := Sha256.rfc6979Generate acc.2 l
      (acc.1 ++ [hx o], r)) ([], Sha256.rfc6979Init k)
    some (join outs)
  | _ => none

/-! ### field programs -/

structure FeSt where
  stack : List Nat
  out : List String

def feStep (st : FeSt) (tok : String) : Option FeSt :=
  let c := tok.front
  let rest := (tok.drop 1).toString
  match c, st.stack with
  | 'L', s => do let b ← hexN? 32 rest; some { st with stack := (toNat b % P) :: s }
  | 'B', s => do
      -- `secp256k1_fe_get_bounds(r, m)`: every limb at the maximum the representation invariant allows for magnitude m;
      -- in both limb layouts this is the integer 2·m·(2^256 − 1)
      let m ← nat? rest
      if m > 32 then none else some { st with stack := (2 * m * (2 ^ 256 - 1) % P) :: s }
  | 'A', b :: a :: s => some { st with stack := Fe.add a b :: s }
  | 'N', a :: s => some { st with stack := Fe.neg a :: s }
  | 'I', a :: s => do let k ← nat? rest; some { st with stack := Fe.mul a k :: s }
  | 'J', a :: s => do let k ← nat? rest; some { st with stack := Fe.add a k :: s }
  | 'M', b :: a :: s => some { st with stack := Fe.mul a b :: s }
  | 'S', a :: s => some { st with stack := Fe.sqr a :: s }
  | 'H', a :: s => some { st with stack := Fe.half a :: s }
  | 'W', s => some { st with stack := s }
  | 'V', s => some { st with stack := s }
  | 'F', s => some { st with stack := s }
  | 'D', a :: s => some { st with stack := a :: a :: s }
  | 'X', b :: a :: s => some { st with stack := a :: b :: s }
  | 'P', _ :: s => some { st with stack := s }
  | 'z', a :: s => some { stack := a :: s, out := st.out ++ [bit (a = 0)] }
  | 'y', a :: s => some { stack := a :: s, out := st.out ++ [bit (a = 0)] }
  | 'o', a :: s => some { stack := a :: s, out := st.out ++ [bit (Fe.isOdd a)] }
  | 'q', a :: s => some { stack := a :: s, out := st.out ++ [bit (Fe.isSquare a)] }
  | 'r', a :: s =>
      -- secp256k1_fe_sqrt: r = a^((p+1)/4) always written; ret says whether it is a root
      some { stack := Fe.sqrtCand a :: s, out := st.out ++ [bit (Fe.isSquare a)] }
  | 'i', a :: s => some { st with stack := Fe.inv a :: s }
  | 'j', a :: s => some { st with stack := Fe.inv a :: s }
  | 'c', b :: a :: s => do let f ← nat? rest; some { st with stack := (if f = 1 then b else a) :: s }
  | 't', b :: a :: s => do let f ← nat? rest; some { st with stack := (if f = 1 then b else a) :: s }
  | 'e', b :: a :: s => some { stack := b :: a :: s, out := st.out ++ [bit (a = b)] }
  | 'E', b :: a :: s => some { stack := b :: a :: s, out := st.out ++ [bit (a = b)] }
  | 'x', b :: a :: s => some { stack := b :: a :: s, out := st.out ++ [if a < b then "2" else if a > b then "1" else "0"] }
  | 's', a :: s => some { st with stack := a :: s }
  | 'g', a :: s => some { stack := a :: s, out := st.out ++ [hx (be32 a)] }
  | 'l', s => do
      let b ← hexN? 32 rest
      let v := toNat b
      if v < P then some { stack := v :: s, out := st.out ++ ["1"] } else some { stack := 0 :: s, out := st.out ++ ["0"] }
  | _, _ => none

def hFeProg : Handler := fun toks => do
  let st ← toks.foldlM feStep ⟨[], []⟩
  let top := match st.stack with | a :: _ => hx (be32 a) | [] => "-"
  some (join (st.out ++ [top]))

/-! ### scalars -/

def hSc : Handler
  | [op, a, b] => do
    let ab ← hexN? 32 a; let bb ← hexN? 32 b
    let (x, ox) := Sc.setB32 ab
    let (y, oy) := Sc.setB32 bb
    let pre := bit ox ++ " " ++ bit oy ++ " "
    let r : Option String := match op with
      | "add" => some (hx (be32 (Sc.add x y)) ++ " " ++ bit (x + y ≥ N))
      | "mul" => some (hx (be32 (Sc.mul x y)))
      | "neg" => some (hx (be32 (Sc.neg x)))
      | "inv" => some (hx (be32 (Sc.inv x)))
      | "invvar" => some (hx (be32 (Sc.inv x)))
      | "half" => some (hx (be32 (Sc.half x)))
      | "ishigh" => some (bit (Sc.isHigh x))
      | "iszero" => some (bit (x = 0))
      | "iseven" => some (bit (x % 2 = 0))
      | "eq" => some (bit (x = y))
      | "condneg" => some (hx (be32 (if Bytes.toNat bb % 2 = 1 then Sc.neg x else x)))
      | "cmov" => some (hx (be32 (if Bytes.toNat bb % 2 = 1 then y else x)))
      | "seckey" => some (bit (Sc.setB32Seckey ab).2)
      | "caddbit" =>
          -- secp256k1_scalar_cadd_bit(r, bit, flag): requires no overflow; harness guards it
          let bitn := y % 256
          let flag := (y / 256) % 2
          let v := x + (if flag = 1 then 2 ^ bitn else 0)
          if v < N then some (hx (be32 v)) else some "skip"
      | "sqr" => some (hx (be32 (Sc.mul x x)))
      | "split128" => some (hx (be32 (x % 2 ^ 128)) ++ " " ++ hx (be32 (x / 2 ^ 128)))
      | "bits" =>
          let off := y % 256
          let cnt := (y / 256) % 32 + 1
          if off + cnt > 256 then some "skip" else some (toString (x / 2 ^ off % 2 ^ cnt))
      | "mulshift" =>
          -- secp256k1_scalar_mul_shift_var(r, a, b, shift) shift ≥ 256: round(a*b / 2^shift)
          let shift := 256 + (Bytes.toNat (bb.take 1)) % 129
          let prod := x * y
          some (hx (be32 ((prod / 2 ^ shift + (prod / 2 ^ (shift - 1)) % 2) % N)) ++ " " ++ toString shift)
      | "lambda" =>
          -- split_lambda: outputs r1, r2 with r1 + λ r2 = k (mod n), both "small"
          some "split"
      | _ => none
    r.map (pre ++ ·)
  | _ => none

/-! ### group -/

/-- `ge_add P Q za zb`: the harness runs six addition variants on rescaled Jacobian
    representatives; all must equal the affine sum. -/
def hGeAdd : Handler
  | [pa, pb, _, _] => do
    let a ← pt? pa; let b ← pt? pb
    let r := showPt (Pt.add a b)
    some (join [r, r, r, r, r, r])
  | _ => none

def hGeDbl : Handler
  | [pa, _] => do let a ← pt? pa; let r := showPt (Pt.dbl a); some (join [r, r, r])
  | _ => none

def hGeNeg : Handler
  | [pa] => do let a ← pt? pa; let r := showPt (Pt.neg a); some (join [r, r])
  | _ => none

/-- `ecmult P na ng`  ↦ na*P + ng*G -/
def hEcmult : Handler
  | [pa, na, ng] => do
    let a ← pt? pa; let x ← num32? na; let y ← num32? ng
    some (showPt (Pt.add (Pt.mul (x % N) a) (Pt.mulG (y % N))))
  | _ => none

def hEcmultGen : Handler
  | [k] => do let x ← num32? k; some (showPt (Pt.mulG (x % N)))
  | _ => none

def hEcmultConst : Handler
  | [pa, k] => do let a ← pt? pa; let x ← num32? k; some (showPt (Pt.mul (x % N) a))
  | _ => none

/-- `ecmult_multi ng (P k)*` ↦ ng*G + Σ k_i P_i -/
def hEcmultMulti : Handler
  | _scratch :: ng :: rest => do
    let g ← if ng = "_" then some 0 else num32? ng
    let rec go : List String → Pt → Option Pt
      | [], acc => some acc
      | p :: k :: t, acc => do
        let a ← pt? p; let x ← num32? k
        go t (Pt.add acc (Pt.mul (x % N) a))
      | _, _ => none
    let r ← go rest (Pt.mulG (g % N))
    some ("1 " ++ showPt r)
  | _ => none

/-- x-coordinate lift, `ge_set_xo_var x odd` -/
def hLiftX : Handler
  | [x, odd] => do
    let v ← num32? x; let o ← nat? odd
    match Pt.liftX v (o = 1) with
    | some p => some ("1 " ++ showPt p)
    | none => some "0 Z"
  | _ => none

/-! ### ECDSA -/

def hEcdsaVerify : Handler
  | [sg, msg, pk] => do
    let s ← sig? sg; let m ← hexN? 32 msg; let q ← pt? pk
    let r := Ecdsa.verify s m q
    some (s!"{r.ret} i{r.illegal}")
  | _ => none

def hEcdsaSign : Handler
  | [msg, sk, nf, nd] => do
    let m ← hexN? 32 msg; let k ← hexN? 32 sk
    let f ← nonceFn? nf; let d ← optHex? nd
    let (ret, s) := Ecdsa.sign m k f d
    -- oracle columns: verifies under the created pubkey; is low-S
    let (_, pub) := Keys.pubkeyCreate k
    let v := if pub.isInf then 0 else (Ecdsa.verify s m pub).ret
    some (s!"{ret} {showSig s} {v}")
  | _ => none

def hEcdsaSignRec : Handler
  | [msg, sk, nf, nd] => do
    let m ← hexN? 32 msg; let k ← hexN? 32 sk
    let f ← nonceFn? nf; let d ← optHex? nd
    let o := Ecdsa.signRecoverable m k f d
    let (rret, q) := if o.ret = 1 then Ecdsa.recover (o.r, o.s) o.recid m else (0, Pt.inf)
    some (s!"{o.ret} {showSig (o.r, o.s)} {o.recid} {rret} {showPt q}")
  | _ => none

def hEcdsaRecover : Handler
  | [sg, recid, msg] => do
    let s ← sig? sg; let rid ← nat? recid; let m ← hexN? 32 msg
    let (ret, q) := Ecdsa.recover s rid m
    some (s!"{ret} {showPt q}")
  | _ => none

def hSigNormalize : Handler
  | [sg] => do
    let s ← sig? sg
    let (ret, o) := Ecdsa.normalize s
    some (s!"{ret} {showSig o}")
  | _ => none

def hParseCompact : Handler
  | [inp] => do
    let b ← hexN? 64 inp
    let (ret, s) := Ecdsa.parseCompact b
    some (s!"{ret} {showSig s}")
  | _ => none

/-- `rec_parse_compact in64 recid` (recid outside 0..3 is an ARG_CHECK) -/
def hRecParseCompact : Handler
  | [inp, recid] => do
    let b ← hexN? 64 inp; let rid ← int? recid
    if rid < 0 ∨ rid > 3 then some "0 untouched i1" else
    let (ret, s) := Ecdsa.parseCompact b
    some (s!"{ret} {showSig s} {if ret = 1 then rid else 0} i0")
  | _ => none

def hParseDer : Handler
  | [inp] => do
    let b ← hex? inp
    let (ret, s) := Ecdsa.parseDer b
    some (s!"{ret} {showSig s}")
  | _ => none

/-- `ser_der sig size` ↦ ret, written bytes, new size -/
def hSerDer : Handler
  | [sg, size] => do
    let s ← sig? sg; let n ← nat? size
    let (ret, out, sz) := Der.sigSerialize s.1 s.2 n
    some (s!"{ret} {hx out} {sz}")
  | _ => none

/-! ### public keys -/

def hPubkeyParse : Handler
  | [inp] => do
    let b ← hex? inp
    let r := Codec.ecPubkeyParse b
    some (s!"{r.ret} {showPt r.out}")
  | _ => none

def hPubkeySerialize : Handler
  | [pk, outlen, comp] => do
    let q ← pt? pk; let n ← nat? outlen; let c ← nat? comp
    let r := Codec.ecPubkeySerialize q n (c = 1)
    some (s!"{r.ret} {hx r.out.1} {r.out.2} i{r.illegal}")
  | _ => none

def hXonlyParse : Handler
  | [inp] => do
    let b ← hexN? 32 inp
    let r := Codec.xonlyParse b
    some (s!"{r.ret} {showPt r.out}")
  | _ => none

def hXonlySerialize : Handler
  | [pk] => do
    let q ← pt? pk
    let r := Keys.xonlySerialize q
    some (s!"{r.ret} {hx r.out} i{r.illegal}")
  | _ => none

def hSeckeyVerify : Handler
  | [sk] => do let k ← hexN? 32 sk; some (toString (Keys.seckeyVerify k))
  | _ => none

def hPubkeyCreate : Handler
  | [sk] => do
    let k ← hexN? 32 sk
    let (ret, q) := Keys.pubkeyCreate k
    some (s!"{ret} {showPt q}")
  | _ => none

def hSeckeyNegate : Handler
  | [sk] => do
    let k ← hexN? 32 sk
    let (ret, o) := Keys.seckeyNegate k
    some (s!"{ret} {hx o}")
  | _ => none

def retPt (r : Ret Pt) : String := s!"{r.ret} {showPt r.out} i{r.illegal}"

def hPubkeyNegate : Handler
  | [pk] => do let q ← pt? pk; some (retPt (Keys.pubkeyNegate q))
  | _ => none

def hSeckeyTweakAdd : Handler
  | [sk, tw] => do
    let k ← hexN? 32 sk; let t ← hexN? 32 tw
    let (ret, o) := Keys.seckeyTweakAdd k t
    some (s!"{ret} {hx o}")
  | _ => none

def hSeckeyTweakMul : Handler
  | [sk, tw] => do
    let k ← hexN? 32 sk; let t ← hexN? 32 tw
    let (ret, o) := Keys.seckeyTweakMul k t
    some (s!"{ret} {hx o}")
  | _ => none

def hPubkeyTweakAdd : Handler
  | [pk, tw] => do let q ← pt? pk; let t ← hexN? 32 tw; some (retPt (Keys.pubkeyTweakAdd q t))
  | _ => none

def hPubkeyTweakMul : Handler
  | [pk, tw] => do let q ← pt? pk; let t ← hexN? 32 tw; some (retPt (Keys.pubkeyTweakMul q t))
  | _ => none

def hPubkeyCombine : Handler := fun args => do
  let ps ← args.mapM pt?
  some (retPt (Keys.pubkeyCombine ps))

def hPubkeyCmp : Handler
  | [a, b] => do
    let p ← pt? a; let q ← pt? b
    let r := Keys.pubkeyCmp p q
    some (s!"{r.ret} i{r.illegal}")
  | _ => none

def hXonlyCmp : Handler
  | [a, b] => do
    let p ← pt? a; let q ← pt? b
    let r := Keys.xonlyCmp p q
    some (s!"{r.ret} i{r.illegal}")
  | _ => none

def hXonlyFromPubkey : Handler
  | [pk] => do
    let q ← pt? pk
    let r := Keys.xonlyFromPubkey q
    some (s!"{r.ret} {showPt r.out.1} {r.out.2} i{r.illegal}")
  | _ => none

def hXonlyTweakAdd : Handler
  | [pk, tw] => do let q ← pt? pk; let t ← hexN? 32 tw; some (retPt (Keys.xonlyTweakAdd q t))
  | _ => none

def hXonlyTweakAddCheck : Handler
  | [tweaked, parity, pk, tw] => do
    let tb ← hexN? 32 tweaked; let par ← nat? parity; let q ← pt? pk; let t ← hexN? 32 tw
    let r := Keys.xonlyTweakAddCheck tb par q t
    some (s!"{r.ret} i{r.illegal}")
  | _ => none

def kp? (sk pk : String) : Option Keys.Keypair := do
  let k ← hexN? 32 sk; let q ← pt? pk
  some ⟨k, q⟩

def showKp (kp : Keys.Keypair) : String := hx kp.sk ++ " " ++ showPt kp.pk

def hKeypairCreate : Handler
  | [sk] => do
    let k ← hexN? 32 sk
    let (ret, kp) := Keys.keypairCreate k
    some (s!"{ret} {showKp kp}")
  | _ => none

def hKeypairXonlyPub : Handler
  | [sk, pk] => do
    let kp ← kp? sk pk
    let r := Keys.keypairXonlyPub kp
    some (s!"{r.ret} {showPt r.out.1} {r.out.2} i{r.illegal}")
  | _ => none

def hKeypairXonlyTweakAdd : Handler
  | [sk, pk, tw] => do
    let kp ← kp? sk pk; let t ← hexN? 32 tw
    let r := Keys.keypairXonlyTweakAdd kp t
    some (s!"{r.ret} {showKp r.out} i{r.illegal}")
  | _ => none

def hPubkeySort : Handler := fun args => do
  let ps ← args.mapM pt?
  some (join ("1" :: (Keys.pubkeySort ps).map showPt))

def chainOp? (s : String) : Option Keys.ChainOp :=
  let rest := (s.drop 1).toString
  match s.front with
  | 'a' => (hexN? 32 rest).map .add
  | 'm' => (hexN? 32 rest).map .mul
  | 'x' => (hexN? 32 rest).map .xadd
  | 'n' => if rest = "" then some .neg else none
  | _ => none

/-- `key_chain sk op*`: apply the ops on the secret side and on the public side.
    Output: `sec <sk'|fail>  pub <pk'|fail>  derived <pubkey_create sk'>` -/
def hKeyChain : Handler
  | sk :: ops => do
    let k ← hexN? 32 sk
    let os ← ops.mapM chainOp?
    let (r0, pk0) := Keys.pubkeyCreate k
    if r0 = 0 then some "badkey" else
    let s := Keys.chainSecAll k os
    let p := Keys.chainPubAll pk0 os
    let derived := match s with
      | some sk' => showPt (Keys.pubkeyCreate sk').2
      | none => "fail"
    some (join ["sec", (s.map hx).getD "fail", "pub", (p.map showPt).getD "fail", "derived", derived])
  | _ => none

/-! ### Schnorr -/

def hSchnorrSign : Handler
  | [msg, sk, pk, nf, nd] => do
    let m ← hex? msg; let kp ← kp? sk pk
    let f ← nonceFnH? nf; let d ← optHex? nd
    let r := Schnorr.signInternal m kp f d
    let v := if r.ret = 1 then (Schnorr.verify r.out m (Keys.evenY kp.pk).1).ret else 0
    some (s!"{r.ret} {hx r.out} i{r.illegal} {v}")
  | _ => none

def hSchnorrVerify : Handler
  | [sg, msg, pk] => do
    let s ← hexN? 64 sg; let m ← hex? msg; let q ← pt? pk
    let r := Schnorr.verify s m q
    some (s!"{r.ret} i{r.illegal}")
  | _ => none

def hNonceBip340 : Handler
  | [msg, key, pk32, algo, data] => do
    let m ← hex? msg; let k ← hexN? 32 key; let p ← hexN? 32 pk32
    let a ← optHex? algo; let d ← optHex? data
    match a with
    | none => some "0 -"
    | some al =>
      match Schnorr.nonceBip340 m k p al d with
      | some n => some ("1 " ++ hx n)
      | none => some "0 -"
  | _ => none

def basicHandlers : List (String × Handler) := [
  ("sha256", hSha256), ("tagged_sha256", hTagged), ("hmac", hHmac), ("rfc6979", hRfc6979),
  ("fe_prog", hFeProg), ("sc", hSc),
  ("ge_add", hGeAdd), ("ge_dbl", hGeDbl), ("ge_neg", hGeNeg),
  ("ecmult", hEcmult), ("ecmult_gen", hEcmultGen), ("ecmult_const", hEcmultConst),
  ("ecmult_multi", hEcmultMulti), ("lift_x", hLiftX),
  ("ecdsa_verify", hEcdsaVerify), ("ecdsa_sign", hEcdsaSign), ("ecdsa_sign_rec", hEcdsaSignRec),
  ("ecdsa_recover", hEcdsaRecover), ("sig_normalize", hSigNormalize),
  ("sig_parse_compact", hParseCompact), ("rec_parse_compact", hRecParseCompact),
  ("sig_parse_der", hParseDer), ("sig_ser_der", hSerDer),
  ("pubkey_parse", hPubkeyParse), ("pubkey_serialize", hPubkeySerialize),
  ("xonly_parse", hXonlyParse), ("xonly_serialize", hXonlySerialize),
  ("seckey_verify", hSeckeyVerify), ("pubkey_create", hPubkeyCreate),
  ("seckey_negate", hSeckeyNegate), ("pubkey_negate", hPubkeyNegate),
  ("seckey_tweak_add", hSeckeyTweakAdd), ("seckey_tweak_mul", hSeckeyTweakMul),
  ("pubkey_tweak_add", hPubkeyTweakAdd), ("pubkey_tweak_mul", hPubkeyTweakMul),
  ("pubkey_combine", hPubkeyCombine), ("pubkey_cmp", hPubkeyCmp), ("xonly_cmp", hXonlyCmp),
  ("xonly_from_pubkey", hXonlyFromPubkey), ("xonly_tweak_add", hXonlyTweakAdd),
  ("xonly_tweak_add_check", hXonlyTweakAddCheck),
  ("keypair_create", hKeypairCreate), ("keypair_xonly_pub", hKeypairXonlyPub),
  ("keypair_xonly_tweak_add", hKeypairXonlyTweakAdd),
  ("pubkey_sort", hPubkeySort), ("key_chain", hKeyChain),
  ("schnorr_sign", hSchnorrSign), ("schnorr_verify", hSchnorrVerify), ("nonce_bip340", hNonceBip340)
]

end Driver
end SecpZkp
