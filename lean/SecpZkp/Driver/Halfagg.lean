import SecpZkp.Driver.Core
import SecpZkp.Driver.Generator
import SecpZkp.Model.Halfagg
/-
  Handlers: Schnorr half-aggregation (C17).  x-only public keys are point tokens (`Z` = all-zero
  object); an empty key/message/signature list is passed to the C API as NULL.
-/
namespace SecpZkp
namespace Driver
open Bytes

/-- `(pk msg32)*` -/
def haPairs? : List String → Option (List (Pt × Bytes))
  | [] => some []
  | p :: m :: t => do
    let pk ← pt? p; let mm ← hexN? 32 m
    let r ← haPairs? t
    some ((pk, mm) :: r)
  | _ => none

/-- `(pk msg32 sig64)*` -/
def haTriples? : List String → Option (List (Pt × Bytes × Bytes))
  | [] => some []
  | p :: m :: s :: t => do
    let pk ← pt? p; let mm ← hexN? 32 m; let sg ← hexN? 64 s
    let r ← haTriples? t
    some ((pk, mm, sg) :: r)
  | _ => none

def aaBuf (n : Nat) (pre : Bytes) : Bytes := (pre ++ List.replicate n 0xAA).take n

def showAgg (r : Ret (Bytes × Nat)) : String := s!"{r.ret} {hx r.out.1} {r.out.2} i{r.illegal}"

/-- `ha_aggregate buflen / (pk msg32 sig64)*` → `ret buffer len i<n>` -/
def hHaAggregate : Handler
  | bl :: "/" :: rest => do
    let n ← nat? bl
    let tr ← haTriples? rest
    some (showAgg (Halfagg.aggregate (aaBuf n []) (tr.map (·.1)) (tr.map (·.2.1)) (tr.map (·.2.2))))
  | _ => none

/-- `ha_inc_aggregate buflen n_before aggsig_in / (pk msg32)* / sig64*` → `ret buffer len i<n>`.
    The buffer holds the first `buflen` bytes of `aggsig_in ‖ AA…`.  Unless the call is bound to stop
    at one of its argument/length checks (sum overflows, no pairs at all = NULL arrays, buffer too
    short), at least `n_before + n_new` pairs are required. -/
def hHaIncAggregate : Handler
  | bl :: nb :: ain :: "/" :: rest => do
    let n ← nat? bl; let nBefore ← nat? nb; let a ← hex? ain
    if nBefore ≥ Halfagg.sizeMax then none else
    let (ps, ss) ← splitAt? "/" rest
    let pairs ← haPairs? ps
    let sigs ← ss.mapM (hexN? 64)
    let tot := nBefore + sigs.length
    let early := tot ≥ Halfagg.sizeMax ∨ (pairs.isEmpty ∧ tot ≠ 0) ∨ n / 32 = 0 ∨ n / 32 - 1 < tot
    if ¬ early ∧ pairs.length < tot then none else
    some (showAgg (Halfagg.incAggregate (aaBuf n a) (pairs.map (·.1)) (pairs.map (·.2)) sigs nBefore))
  | _ => none

/-- `ha_aggverify aggsig / (pk msg32)*` → `ret i<n>`; `aggsig = _` is NULL -/
def hHaAggverify : Handler
  | ag :: "/" :: rest => do
    let a ← optHex? ag
    let pairs ← haPairs? rest
    let r := Halfagg.aggverify (pairs.map (·.1)) (pairs.map (·.2)) a
    some s!"{r.ret} i{r.illegal}"
  | _ => none

def halfaggHandlers : List (String × Handler) := [
  ("ha_aggregate", hHaAggregate), ("ha_inc_aggregate", hHaIncAggregate), ("ha_aggverify", hHaAggverify)
]

end Driver
end SecpZkp
