import SecpZkp.Driver.Core
import SecpZkp.Gen.K_field5x52
import SecpZkp.Gen.K_ct
import SecpZkp.Gen.K_ct32
import SecpZkp.Gen.K_field10x26
import SecpZkp.Gen.K_scalar4x64
import SecpZkp.Gen.K_scalar8x32
import SecpZkp.Gen.F_group
import SecpZkp.Gen.F_ellswift
import SecpZkp.Gen.F_generator
import SecpZkp.Gen.P_ecdsa
import SecpZkp.Gen.P_schnorr
import SecpZkp.Gen.P_keys
import SecpZkp.Gen.P_api
import SecpZkp.Gen.K_int128struct
/-
  `k_run <set>.<def> <in>* / <out>*` : executes a translated C function (MiniC IR regenerated from the
  sources by tools/c2lean_k.py) on concrete inputs.  The harness runs the real C function on the same
  inputs: this validates the TRANSLATION (clang AST -> MiniC) itself.
    in  : `name=hex` (scalar) or `name=hex,hex,...` (array)
    out : `name:n` (first n cells of an array), `name` (scalar), `ret`
-/
namespace SecpZkp
namespace Driver
open MiniC

def kTable : List (String × Fn) :=
  (Gen.field5x52.all.map fun p => ("field5x52." ++ p.1, p.2)) ++ (Gen.ct.all.map fun p => ("ct." ++ p.1, p.2)) ++
  (Gen.field10x26.all.map fun p => ("field10x26." ++ p.1, p.2)) ++ (Gen.ct32.all.map fun p => ("ct32." ++ p.1, p.2)) ++
  (Gen.scalar4x64.all.map fun p => ("scalar4x64." ++ p.1, p.2)) ++ (Gen.scalar8x32.all.map fun p => ("scalar8x32." ++ p.1, p.2)) ++
  (Gen.int128struct.all.map fun p => ("int128struct." ++ p.1, p.2))

def hexNat? (s : String) : Option Nat :=
  s.toList.foldlM (fun acc c => (Bytes.hexVal c).map (fun d => acc * 16 + d)) 0

def showHex (n : Nat) : String :=
  if n = 0 then "0" else
  let rec go : Nat → Nat → List Char → List Char
    | 0, _, acc => acc
    | fuel + 1, n, acc => if n = 0 then acc else go fuel (n / 16) (Bytes.hexDigit (n % 16) :: acc)
  String.ofList (go 64 n [])

def kInput (env : Env) (tok : String) : Option Env :=
  match tok.splitOn "=" with
  | [name, vals] =>
    if vals.contains ',' then do
      let vs ← (vals.splitOn ",").mapM hexNat?
      let (env', _) := vs.foldl (fun (acc : Env × Nat) v => (acc.1.set name acc.2 v, acc.2 + 1)) (env, 0)
      some env'
    else do
      let v ← hexNat? vals
      some (env.set name 0 v)
  | _ => none

def hKRun : Handler
  | fname :: rest => do
    let fn ← (kTable.find? (·.1 == fname)).map (·.2)
    let ins := rest.takeWhile (· ≠ "/")
    let outs := (rest.dropWhile (· ≠ "/")).drop 1
    let env ← ins.foldlM kInput []
    let o := execL env fn.body
    let shown := outs.map fun t =>
      if t = "ret" then (match o.ret with | some v => showHex v | none => "void")
      else match t.splitOn ":" with
        | [a, n] => ",".intercalate ((List.range (n.toNat?.getD 0)).map fun i => showHex (o.env.get a i))
        | _ => showHex (o.env.get t 0)
    some (join shown)
  | _ => none

/-
  `f_run group.<def> <in>* / <out>*` : executes a group-level function translated to FeIR (mode F) on field VALUES.
    in  : `name=<64 hex>` (a field element, given normalized: magnitude 1) or `name=<short hex>` (an integer flag)
    out : names; field variables print as 64 hex digits (canonical value), integers as hex; `MAG` if a documented
          magnitude precondition is violated on the way
-/
def fTable : List (String × FeIR.Fn) :=
  (Gen.group.all.map fun p => ("group." ++ p.1, p.2)) ++ (Gen.ellswift.all.map fun p => ("ellswift." ++ p.1, p.2)) ++
  (Gen.generator.all.map fun p => ("generator." ++ p.1, p.2))

def hFRun : Handler
  | fname :: rest => do
    let fn ← (fTable.find? (·.1 == fname)).map (·.2)
    let ins := rest.takeWhile (· ≠ "/")
    let outs := (rest.dropWhile (· ≠ "/")).drop 1
    let st0 ← ins.foldlM (fun (st : FeIR.State) tok =>
      match tok.splitOn "=" with
      | [name, v] => do
        let n ← hexNat? v
        if v.length = 64 then some { st with fe := st.fe.set name ⟨n, 1⟩ }
        else some { st with ints := st.ints.set name 0 n }
      | _ => none) ({ fe := [], ints := [] } : FeIR.State)
    match FeIR.execL st0 fn.body with
    | none => some "MAG"
    | some st =>
      let feNames := st.fe.map (·.1)
      some (join (outs.map fun t =>
        match t.splitOn "?" with
        | [name, cond] =>     -- `name?cond`: the field variable only if the integer `cond` is non-zero (an output the C function leaves undefined otherwise)
          if st.ints.get cond 0 ≠ 0 then hx (Bytes.be32 (FeIR.canon (st.fe.get name).val)) else "-"
        | _ => if feNames.contains t then hx (Bytes.be32 (FeIR.canon (st.fe.get t).val)) else showHex (st.ints.get t 0)))
  | _ => none

/-
  `p_run Pecdsa.<def> <args>` : executes a protocol core translated to AlgIR (mode P) on algebraic values; arguments are
  positional (scalars: 64 hex digits, points: point tokens, ints: decimal) in the order of the C parameters that are inputs:
    sig_verify  sigr sigs pubkey message            -> ret
    sig_sign    seckey message nonce                -> ret sigr sigs recid
    sig_recover sigr sigs message recid             -> ret pubkey
  `p_run Pschnorr.verify sig64 msg pubkey`           -> ret i<illegal callbacks>
-/
def pTable : List (String × AlgIR.Fn) :=
  (Gen.Pecdsa.all.map fun p => ("Pecdsa." ++ p.1, p.2)) ++ (Gen.Pschnorr.all.map fun p => ("Pschnorr." ++ p.1, p.2)) ++
  (Gen.Pkeys.all.map fun p => ("Pkeys." ++ p.1, p.2)) ++ (Gen.Papi.all.map fun p => ("Papi." ++ p.1, p.2))

def scArg (st : AlgIR.State) (name tok : String) : Option AlgIR.State := do
  let b ← hexN? 32 tok
  some { st with sc := AlgIR.update st.sc name (Bytes.toNat b) }

def hPRun : Handler
  | fname :: args => do
    let fn ← (pTable.find? (·.1 == fname)).map (·.2)
    let st0 : AlgIR.State := {}
    match fname, args with
    | "Pecdsa.sig_verify", [r, s, q, m] =>
      let st ← scArg st0 "sigr" r; let st ← scArg st "sigs" s; let st ← scArg st "message" m
      let qp ← pt? q
      let o := AlgIR.execL { st with pt := AlgIR.update st.pt "pubkey" qp } fn.body
      some (showHex (o.ints.get "ret" 0))
    | "Pecdsa.sig_sign", [sec, m, k] =>
      let st ← scArg st0 "seckey" sec; let st ← scArg st "message" m; let st ← scArg st "nonce" k
      let o := AlgIR.execL st fn.body
      some (join [showHex (o.ints.get "ret" 0), hx (Bytes.be32 (o.scGet "sigr" % N)), hx (Bytes.be32 (o.scGet "sigs" % N)), showHex (o.ints.get "recid" 0)])
    | "Pecdsa.sig_recover", [r, s, m, recid] =>
      let st ← scArg st0 "sigr" r; let st ← scArg st "sigs" s; let st ← scArg st "message" m
      let rc ← nat? recid
      let o := AlgIR.execL { st with ints := st.ints.set "recid" 0 rc } fn.body
      let ret := o.ints.get "ret" 0
      some (join [showHex ret, if ret ≠ 0 then showPt (o.ptGet "pubkey") else "-"])
    | f, [k, t] =>      -- Pkeys.ec_seckey_tweak_add/mul (key32 tweak32 -> ret key32), Pkeys.ec_pubkey_tweak_add/mul (pubkey tweak32 -> ret pubkey i<n>)
      if f == "Pkeys.ec_seckey_tweak_add" || f == "Pkeys.ec_seckey_tweak_mul" then do
        let kb ← hexN? 32 k; let tb ← hexN? 32 t
        let o := AlgIR.execL { bs := [("seckey", kb), ("tweak32", tb)] } fn.body
        some (join [showHex (o.ints.get "ret" 0), hx (o.byGet "seckey")])
      else if f == "Papi.xonly_pubkey_tweak_add" then do
        let q ← pt? k; let tb ← hexN? 32 t
        let o := AlgIR.execL { pt := [("internal_pubkey", q)], bs := [("tweak32", tb)] } fn.body
        some (join [showHex (o.ints.get "ret" 0), showPt (o.ptGet "output_pubkey"), "i" ++ toString (o.ints.get "illegal" 0)])
      else if f == "Pkeys.ec_pubkey_tweak_add" || f == "Pkeys.ec_pubkey_tweak_mul" then do
        let q ← pt? k; let tb ← hexN? 32 t
        let o := AlgIR.execL { pt := [("pubkey", q)], bs := [("tweak32", tb)] } fn.body
        some (join [showHex (o.ints.get "ret" 0), showPt (o.ptGet "pubkey"), "i" ++ toString (o.ints.get "illegal" 0)])
      else none
    | "Papi.ecdsa_verify", [sg, m, pk] =>
      let (r, s) ← sig? sg; let mb ← hexN? 32 m; let q ← pt? pk
      let o := AlgIR.execL { sc := [("sig.r", r), ("sig.s", s)], bs := [("msghash32", mb)], pt := [("pubkey", q)] } fn.body
      some (join [showHex (o.ints.get "ret" 0), "i" ++ toString (o.ints.get "illegal" 0)])
    | "Papi.ecdsa_signature_normalize", [sg] =>
      let (r, s) ← sig? sg
      let o := AlgIR.execL { sc := [("sigin.r", r), ("sigin.s", s)] } fn.body
      some (join [showHex (o.ints.get "ret" 0), showSig (o.scGet "sigout.r" % N, o.scGet "sigout.s" % N)])
    | "Papi.ec_pubkey_create", [k] =>
      let kb ← hexN? 32 k
      let o := AlgIR.execL { bs := [("seckey", kb)] } fn.body
      some (join [showHex (o.ints.get "ret" 0), showPt (o.ptGet "pubkey")])
    | "Papi.ec_seckey_verify", [k] =>
      let kb ← hexN? 32 k
      let o := AlgIR.execL { bs := [("seckey", kb)] } fn.body
      some (showHex (o.ints.get "ret" 0))
    | "Pkeys.ec_seckey_negate", [k] =>
      let kb ← hexN? 32 k
      let o := AlgIR.execL { bs := [("seckey", kb)] } fn.body
      some (join [showHex (o.ints.get "ret" 0), hx (o.byGet "seckey")])
    | "Pkeys.ec_pubkey_negate", [k] =>
      let q ← pt? k
      let o := AlgIR.execL { pt := [("pubkey", q)] } fn.body
      some (join [showHex (o.ints.get "ret" 0), showPt (o.ptGet "pubkey"), "i" ++ toString (o.ints.get "illegal" 0)])
    | "Pschnorr.verify", [sig, msg, pk] =>      -- sig64 (64 bytes), message (any length, `-` empty), x-only key object (point token, Z = all-zero object)
      let sg ← hexN? 64 sig; let mg ← hex? msg; let q ← pt? pk
      let st : AlgIR.State := { bs := [("sig64@0", sg.take 32), ("sig64@32", sg.drop 32), ("msg", mg)], pt := [("pubkey", q)] }
      let o := AlgIR.execL st fn.body
      some (join [showHex (o.ints.get "ret" 0), "i" ++ toString (o.ints.get "illegal" 0)])
    | _, _ => none
  | _ => none

def minicHandlers : List (String × Handler) := [("k_run", hKRun), ("f_run", hFRun), ("p_run", hPRun)]

end Driver
end SecpZkp
