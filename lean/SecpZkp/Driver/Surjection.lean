import SecpZkp.Driver.Generator
import SecpZkp.Model.Surjection
/-
  Handlers: surjection proofs (C11). Proof objects travel in serialized form; generator objects
  (ephemeral tags) are point tokens, fixed asset tags 32-byte hex.
-/
namespace SecpZkp
namespace Driver
open Bytes Surjection

/-- The object that `surj_parse` / `surj_initialize` overwrite: n_inputs = 3, bitmap 05 aa aa .., data aa aa ..
    (the harness fills the C object the same way), so that "left untouched" is visible. -/
def surjPrior : Proof := ⟨3, (5 : UInt8) :: List.replicate 31 0xAA, List.replicate DATA_BYTES 0xAA⟩

/-- sentinel the harness stores in `*input_index` before the call -/
def surjPriorIndex : Nat := 999999

def showProof (p : Proof) : String := hx (serializeFull p)

/-- `surj_parse <bytes>` → `ret n_inputs n_used ser_size reserialized` -/
def hSurjParse : Handler
  | [inp] => do
    let b ← hex? inp
    let (ret, p) := parse b surjPrior
    some (join [toString ret, toString (nTotalInputs p), toString (nUsedInputs p), toString (serializedSize p), showProof p])
  | _ => none

/-- `surj_parse_len <bytes> <claimed_len>` → as `surj_parse` for an input of `claimed_len` bytes whose first bytes are `bytes`, a
    complete canonical encoding (other buffers are refused): the specified parser accepts exactly `claimed_len = bytes.length`;
    every other length fails one of the length tests and leaves the object untouched. -/
def hSurjParseLen : Handler
  | [inp, l] => do
    let b ← hex? inp; let len ← nat? l
    let (ok, _) := parse b
    if ok = 0 then none
    else if len = b.length then hSurjParse [inp]
    else
      let p := surjPrior
      some (join ["0", toString (nTotalInputs p), toString (nUsedInputs p), toString (serializedSize p), showProof p])
  | _ => none

/-- `surj_serialize <proof_ser> <outlen>` → `ret outlen bytes` (or `noparse`) -/
def hSurjSerialize : Handler
  | [inp, ol] => do
    let b ← hex? inp; let outlen ← nat? ol
    let (ok, p) := parse b
    if ok = 0 then some "noparse" else
    let (ret, out, newlen) := serialize p outlen
    some (join [toString ret, toString newlen, hx out])
  | _ => none

/-- `surj_initialize <n_to_use> <max_iter> <seed32> <output_tag32> / <input_tag32>*`
    → `ret input_index proof_serialized i<n>` -/
def hSurjInitialize : Handler
  | nu :: mi :: seed :: outTag :: "/" :: ins => do
    let nToUse ← nat? nu; let maxIter ← nat? mi
    let sd ← hexN? 32 seed; let ot ← hexN? 32 outTag
    let tags ← ins.mapM (hexN? 32)
    match initializeProof surjPrior surjPriorIndex tags nToUse ot maxIter sd with
    | none => some "ERR fuel"
    | some r => some (join [toString r.ret, toString r.out.2, showProof r.out.1, s!"i{r.illegal}"])
  | _ => none

def gens? (l : List String) : Option (List Pt) :=
  l.mapM (fun s => do let p ← pt? s; if p.isInf then none else some p)

/-- `surj_generate <proof_ser> <input_index> <in_blind32> <out_blind32> <out_gen> / <in_gen>*`
    → `ret proof_ser verify_ret i<n>` (or `noparse`) -/
def hSurjGenerate : Handler
  | pr :: idx :: ib :: ob :: og :: "/" :: ins => do
    let b ← hex? pr; let inputIndex ← nat? idx
    let inBlind ← hexN? 32 ib; let outBlind ← hexN? 32 ob
    let outs ← gens? [og]; let inputs ← gens? ins
    let output := outs.headD .inf
    let (ok, p) := parse b
    if ok = 0 then some "noparse" else
    let r := generate p inputs output inputIndex inBlind outBlind
    some (join [toString r.ret, showProof r.out, bit (verify r.out inputs output), s!"i{r.illegal}"])
  | _ => none

/-- `surj_verify <proof_ser> <out_gen> / <in_gen>*` → ret (or `noparse`) -/
def hSurjVerify : Handler
  | pr :: og :: "/" :: ins => do
    let b ← hex? pr
    let outs ← gens? [og]; let inputs ← gens? ins
    let (ok, p) := parse b
    if ok = 0 then some "noparse" else
    some (bit (verify p inputs (outs.headD .inf)))
  | _ => none

/-- Lean-only: `surj_mk_adv <bitmap> <ring_index> <sec32> <nonce32> <out_gen> / <in_gen>* / <s32>*`
    → `1 proof_ser` | `0 -` -/
def hSurjMkAdv : Handler
  | bm :: ri :: sec :: nonce :: og :: "/" :: rest => do
    let used ← hex? bm; let ringIndex ← nat? ri
    let sc ← num32? sec; let k ← num32? nonce
    let outs ← gens? [og]
    let (ins, ss) ← splitAt? "/" rest
    let inputs ← gens? ins; let s ← ss.mapM num32?
    if used.length ≠ bitmapLen inputs.length then none else
    match mkAdv inputs used (outs.headD .inf) ringIndex (sc % N) (k % N) (s.map (· % N)) with
    | none => some "0 -"
    | some p => some ("1 " ++ showProof p)
  | _ => none

def surjectionHandlers : List (String × Handler) := [
  ("surj_parse", hSurjParse), ("surj_parse_len", hSurjParseLen), ("surj_serialize", hSurjSerialize), ("surj_initialize", hSurjInitialize),
  ("surj_generate", hSurjGenerate), ("surj_verify", hSurjVerify), ("surj_mk_adv", hSurjMkAdv)
]

end Driver
end SecpZkp
