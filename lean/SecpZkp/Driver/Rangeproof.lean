import SecpZkp.Driver.Generator
import SecpZkp.Model.Rangeproof
/-
  Handlers: range proofs (C09 creation pipeline, C10 verification / rewind / info), the internal
  `secp256k1_range_proveparams`, and the model-only adversarial prover `rangeproof_mk_adv`.
  Commitment object token = 33 bytes hex accepted by `secp256k1_pedersen_commitment_parse`.
-/
namespace SecpZkp
namespace Driver
open Bytes

/-- pre-fill pattern of `uint64_t` outputs (0xAA bytes) and of `int` outputs -/
def fill64 : Nat := 0xAAAAAAAAAAAAAAAA
def fillInt : Int := -7

def commit33? (s : String) : Option Bytes := do
  let b ← hexN? 33 s
  Generator.commitParse b

def gen? (s : String) : Option Pt := do
  let p ← pt? s
  if p.isInf then none else some p

def u64? (s : String) : Option Nat := do
  let n ← nat? s
  if n < 2 ^ 64 then some n else none

def showNats (l : List Nat) : String := ",".intercalate (l.map toString)

/-- message-buffer token: `_` = message_out NULL and outlen NULL; `x` = message_out NULL, outlen non-NULL
    (ARG_CHECK fires); `<n>` = buffer of n bytes, `*outlen = n`. -/
inductive MsgBuf where
  | null | bad | buf (n : Nat)

def msgBuf? (s : String) : Option MsgBuf :=
  if s = "_" then some .null else if s = "x" then some .bad else (nat? s).map .buf

/-- canonical print of rewind outputs: `ret blind value msg outlen min max i<n>`; buffers pre-filled with 0xAA -/
def showRewind (mb : MsgBuf) (r : Rangeproof.VerifyResult) : String :=
  let blind := r.blind.getD (List.replicate 32 0xAA)
  let value := r.value.getD fill64
  let (msg, outlen) : String × String := match mb with
    | .null => ("_", "_")
    | .bad => ("_", "_")
    | .buf n => match r.msg with
      | some bs => (hx bs, toString bs.length)
      | none => (hx (List.replicate n 0xAA), toString n)
  join [bit r.ret, hx blind, toString value, msg, outlen, toString r.minValue, toString r.maxValue, "i0"]

def showHeader (h : Rangeproof.Header) : String :=
  join [bit h.ret, toString h.exp, toString h.mantissa, toString h.minValue, toString h.maxValue]

/-- `rangeproof_sign min_value commit33 blind32 nonce32 exp min_bits value message extra gen buflen`
    → `ret plen proof` and, on success, ` | verify | info | rewind(4096-byte buffer)` of that proof. -/
def hRpSign : Handler
  | [minv, commit, blind, nonce, exp, minBits, value, message, extra, gen, buflen] => do
    let mv ← u64? minv; let c ← commit33? commit; let b ← hexN? 32 blind; let nc ← hexN? 32 nonce
    let e ← int? exp; let mbits ← int? minBits; let v ← u64? value
    let msg ← optHex? message; let ex ← optHex? extra; let g ← gen? gen; let bl ← nat? buflen
    match Rangeproof.sign bl mv c b nc e mbits v msg ex g with
    | none => some (join ["0", toString bl, "-", "i0"])
    | some proof =>
      let vr := Rangeproof.verify fill64 fill64 c proof ex g
      let ih := Rangeproof.info ⟨false, 0, fillInt, fillInt, 1, fill64, fill64⟩ proof
      let rr := Rangeproof.rewind (some 4096) nc fill64 fill64 c proof ex g
      some (join ["1", toString proof.length, hx proof, "i0", "|", bit vr.ret, toString vr.minValue, toString vr.maxValue,
                  "|", showHeader ih, "|", showRewind (.buf 4096) rr])
  | _ => none

/-- `rangeproof_verify commit33 proof extra gen` → `ret min max` -/
def hRpVerify : Handler
  | [commit, proof, extra, gen] => do
    let c ← commit33? commit; let p ← hex? proof; let ex ← optHex? extra; let g ← gen? gen
    let r := Rangeproof.verify fill64 fill64 c p ex g
    some (join [bit r.ret, toString r.minValue, toString r.maxValue])
  | _ => none

/-- `rangeproof_rewind commit33 proof nonce32 extra gen msgbuf` → `ret blind value msg outlen min max i<n>` -/
def hRpRewind : Handler
  | [commit, proof, nonce, extra, gen, mbuf] => do
    let c ← commit33? commit; let p ← hex? proof; let nc ← hexN? 32 nonce; let ex ← optHex? extra; let g ← gen? gen
    let mb ← msgBuf? mbuf
    match mb with
    | .bad => some (join ["0", hx (List.replicate 32 0xAA), toString fill64, "_", "_", toString fill64, toString fill64, "i1"])
    | .null => some (showRewind mb (Rangeproof.rewind none nc fill64 fill64 c p ex g))
    | .buf n => some (showRewind mb (Rangeproof.rewind (some n) nc fill64 fill64 c p ex g))
  | _ => none

/-- `rangeproof_info proof` → `ret exp mantissa min max` -/
def hRpInfo : Handler
  | [proof] => do
    let p ← hex? proof
    some (showHeader (Rangeproof.info ⟨false, 0, fillInt, fillInt, 1, fill64, fill64⟩ p))
  | _ => none

/-- `rangeproof_max_size max_value min_bits` -/
def hRpMaxSize : Handler
  | [mv, mb] => do
    let v ← u64? mv; let b ← int? mb
    some (toString (Rangeproof.maxSize v b))
  | _ => none

/-- `range_proveparams min_value exp min_bits value`
    → `ret rings rsizes npub secidx min_value mantissa scale exp min_bits v` -/
def hProveParams : Handler
  | [minv, exp, minBits, value] => do
    let mv ← u64? minv; let e ← int? exp; let mb ← int? minBits; let v ← u64? value
    let p := Rangeproof.proveParams fill64 mv e mb v
    some (join [bit p.ret, toString p.rings, showNats p.rsizes, toString p.npub, showNats p.secidx, toString p.minValue,
                toString p.mantissa, toString p.scale, toString p.exp, toString p.minBits, toString p.v])
  | _ => none

/-- MODEL ONLY: `rangeproof_mk_adv hdr_or exp mantissa min_value gen extra / secidx.. / sec.. / k.. / s..`
    → `1 commit33 proof` | `0 - -` -/
def hRpMkAdv : Handler
  | hdrOr :: exp :: mant :: minv :: gen :: extra :: "/" :: rest => do
    let ho ← nat? hdrOr; let e ← nat? exp; let m ← nat? mant; let mv ← u64? minv; let g ← gen? gen; let ex ← optHex? extra
    let (si, r1) ← splitAt? "/" rest
    let (sec, r2) ← splitAt? "/" r1
    let (k, s) ← splitAt? "/" r2
    let secidx ← si.mapM nat?; let secs ← sec.mapM num32?; let ks ← k.mapM num32?; let ss ← s.mapM num32?
    let (rings, _, npub) := Rangeproof.layout m
    if secidx.length ≠ rings ∨ secs.length ≠ rings ∨ ks.length ≠ rings ∨ ss.length ≠ npub then none else
    match Rangeproof.signWith ho e m mv secidx secs ks ss g ex with
    | some (.aff x y, proof) => some (join ["1", hx (Generator.commitSave (.aff x y)), hx proof])
    | _ => some "0 - -"
  | _ => none

/-- MODEL ONLY: `rangeproof_genrand nonce32 commit33 hdr gen mantissa` → `ret / sec.. / raw 32-byte stream blocks..`
    (the prover's deterministic randomness with an all-zero message, as the rewinder reconstructs it) -/
def hRpGenrand : Handler
  | [nonce, commit, hdr, gen, mant] => do
    let nc ← hexN? 32 nonce; let c ← commit33? commit; let h ← hex? hdr; let g ← gen? gen; let m ← nat? mant
    let (_, rsizes, npub) := Rangeproof.layout m
    let gr := Rangeproof.genrand (some (Bytes.zeros 4096)) rsizes nc (Generator.commitLoad c) h g
    let prep := gr.message.getD []
    some (join ([bit gr.ret, "/"] ++ gr.sec.map (fun x => hx (be32 x)) ++ ["/"] ++
                (List.range npub).map (fun i => hx (Rangeproof.getBlock prep i))))
  | _ => none

def rangeproofHandlers : List (String × Handler) := [
  ("rangeproof_sign", hRpSign), ("rangeproof_verify", hRpVerify), ("rangeproof_rewind", hRpRewind),
  ("rangeproof_info", hRpInfo), ("rangeproof_max_size", hRpMaxSize), ("range_proveparams", hProveParams),
  ("rangeproof_mk_adv", hRpMkAdv), ("rangeproof_genrand", hRpGenrand)
]

end Driver
end SecpZkp
