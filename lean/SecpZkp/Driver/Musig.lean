import SecpZkp.Driver.Core
import SecpZkp.Model.Musig
/-
  Handlers: MuSig2 module (C12, C13).  Object tokens (see docs/PROTOCOL.md):
    keyagg cache  `magic:pk:second_pk:pks_hash:parity_acc:tweak`
    session       `magic:parity:fin_nonce:noncecoef:challenge:s_part`
    secnonce      `magic:k1:k2:pk`
    pubnonce / aggnonce  66-byte serialization, `Z` = all-zero object
    partial sig   32-byte serialization, `Z` = all-zero object
  `_` = NULL pointer.
-/
namespace SecpZkp
namespace Driver
open Bytes Musig

def optTok? {α : Type} (p : String → Option α) (s : String) : Option (Option α) :=
  if s = "_" then some none else (p s).map some

def scalarTok? (s : String) : Option Nat := (num32? s).map (· % N)

def cacheTok? (s : String) : Option KeyaggCache :=
  match s.splitOn ":" with
  | [m, pk, sp, h, par, tw] => do
    let mg ← hexN? 4 m; let p ← pt? pk; let q ← pt? sp; let hh ← hexN? 32 h
    let pa ← nat? par; let t ← scalarTok? tw
    if p.isInf ∨ pa > 255 then none else some ⟨mg, p, q, hh, pa, t⟩
  | _ => none

def showCache (c : KeyaggCache) : String :=
  ":".intercalate [toHex c.magic, showPt c.pk, showPt c.secondPk, toHex c.pksHash, toString (c.parityAcc % 2), toHex (be32 c.tweak)]

def sessionTok? (s : String) : Option Session :=
  match s.splitOn ":" with
  | [m, par, fin, b, e, sp] => do
    let mg ← hexN? 4 m; let pa ← nat? par; let f ← hexN? 32 fin
    let bb ← scalarTok? b; let ee ← scalarTok? e; let ss ← scalarTok? sp
    if pa > 255 then none else some ⟨mg, pa, f, bb, ee, ss⟩
  | _ => none

def showSession (s : Session) : String :=
  ":".intercalate [toHex s.magic, toString s.finNonceParity, toHex s.finNonce, toHex (be32 s.noncecoef),
                   toHex (be32 s.challenge), toHex (be32 s.sPart)]

def secnonceTok? (s : String) : Option Secnonce :=
  match s.splitOn ":" with
  | [m, k1, k2, pk] => do
    let mg ← hexN? 4 m; let a ← scalarTok? k1; let b ← scalarTok? k2; let p ← pt? pk
    some ⟨mg, a, b, p⟩
  | _ => none

def showSecnonce (s : Secnonce) : String :=
  ":".intercalate [toHex s.magic, toHex (be32 s.k1), toHex (be32 s.k2), showPt s.pk]

/-- pubnonce object from its serialization (a failed parse leaves the zeroed object) -/
def pubnonceTok? (s : String) : Option Pubnonce :=
  if s = "Z" then some Pubnonce.zero else do
    let b ← hexN? 66 s
    some ((pubnonceParse b).getD Pubnonce.zero)

def aggnonceTok? (s : String) : Option Aggnonce :=
  if s = "Z" then some Aggnonce.zero else do
    let b ← hexN? 66 s
    some ((aggnonceParse b).getD Aggnonce.zero)

def psigTok? (s : String) : Option PartialSig :=
  if s = "Z" then some PartialSig.zero else do
    let b ← hexN? 32 s
    some (partialSigParse b).2

/-- output object: `U` untouched, `Z` all-zero, `?` non-zero with a bad magic -/
def showPubnonceOut : Option Pubnonce → String
  | none => "U"
  | some p =>
    if p = Pubnonce.zero then "Z" else
    match pubnonceLoad p with
    | some (r1, r2) => toHex (Codec.serialize33 r1 ++ Codec.serialize33 r2)
    | none => "?"

def showAggnonceOut : Option Aggnonce → String
  | none => "U"
  | some p =>
    if p = Aggnonce.zero then "Z" else
    match aggnonceLoad p with
    | some (r1, r2) => toHex (geSerializeExt r1 ++ geSerializeExt r2)
    | none => "?"

def showPsigOut : Option PartialSig → String
  | none => "U"
  | some p =>
    if p = PartialSig.zero then "Z" else
    if p.magic = partialSigMagic then toHex (be32 p.s) else "?"

def showOptBytesOut : Option Bytes → String
  | none => "U"
  | some b => hx b

def showOptPtOut : Option Pt → String
  | none => "_"
  | some p => showPt p

def ptOrNull? (s : String) : Option (Option Pt) := optTok? pt? s

def keypair? (sk pk : String) : Option (Option Keys.Keypair) :=
  if sk = "_" ∧ pk = "_" then some none else do
    let s ← hexN? 32 sk; let p ← pt? pk
    some (some ⟨s, p⟩)

def hasFlag (flags : String) (c : Char) : Bool := flags.toList.contains c

/-- `musig_pubkey_agg <flags> <pk|_>*` ; flags: `a` agg_pk NULL, `c` cache NULL, `-` none -/
def hPubkeyAgg : Handler
  | flags :: pks => do
    let ps ← pks.mapM ptOrNull?
    let r := pubkeyAgg (!hasFlag flags 'a') (!hasFlag flags 'c') ps
    let cs := match r.out.cache with
      | some c => showCache c
      | none => "U"
    some (s!"{r.ret} {showOptPtOut r.out.aggPk} {cs} i{r.illegal}")
  | _ => none

def hPubkeyGet : Handler
  | [c] => do
    let cc ← optTok? cacheTok? c
    let r := pubkeyGet cc
    some (s!"{r.ret} {showPt r.out} i{r.illegal}")
  | _ => none

def hTweakAdd (xonly : Bool) : Handler
  | [flags, c, tw] => do
    let cc ← optTok? cacheTok? c; let t ← optTok? (hexN? 32) tw
    let r := tweakAddInternal xonly (!hasFlag flags 'o') cc t
    let cs := match r.out.cache with
      | some c => showCache c
      | none => "_"
    some (s!"{r.ret} {showOptPtOut r.out.outPk} {cs} i{r.illegal}")
  | _ => none

def showGenOut (r : Ret GenOut) : String :=
  let sn := match r.out.secnonce with
    | some s => s!"z{bit s.isZero} {showSecnonce s}"
    | none => "U _"
  let sr := match r.out.secrand with
    | some b => toHex b
    | none => "_"
  s!"{r.ret} {sn} {showPubnonceOut r.out.pubnonce} {sr} i{r.illegal}"

/-- `musig_nonce_gen <flags> <secrand32|_> <seckey32|_> <pubkey|_> <msg32|_> <cache|_> <extra32|_>`;
    flags: `s` secnonce NULL, `p` pubnonce NULL -/
def hNonceGen : Handler
  | [flags, sr, sk, pk, msg, c, ex] => do
    let srr ← optTok? (hexN? 32) sr; let skk ← optTok? (hexN? 32) sk; let p ← ptOrNull? pk
    let m ← optTok? (hexN? 32) msg; let cc ← optTok? cacheTok? c; let e ← optTok? (hexN? 32) ex
    some (showGenOut (nonceGen (!hasFlag flags 's') (!hasFlag flags 'p') srr skk p m cc e))
  | _ => none

/-- `musig_nonce_gen_counter <flags> <counter> <sk|_> <pk|_> <msg32|_> <cache|_> <extra32|_>` -/
def hNonceGenCounter : Handler
  | [flags, cnt, sk, pk, msg, c, ex] => do
    let n ← nat? cnt; let kp ← keypair? sk pk
    let m ← optTok? (hexN? 32) msg; let cc ← optTok? cacheTok? c; let e ← optTok? (hexN? 32) ex
    if n ≥ 2 ^ 64 then none else
    some (showGenOut (nonceGenCounter (!hasFlag flags 's') (!hasFlag flags 'p') n kp m cc e))
  | _ => none

/-- `musig_nonce_agg <flags> <pubnonce66|Z|_>*` ; flag `o` = aggnonce NULL -/
def hNonceAgg : Handler
  | flags :: pns => do
    let ps ← pns.mapM (optTok? pubnonceTok?)
    let r := nonceAgg (!hasFlag flags 'o') ps
    some (s!"{r.ret} {showAggnonceOut r.out} i{r.illegal}")
  | _ => none

/-- `musig_nonce_process <flags> <aggnonce66|Z|_> <msg32|_> <cache|_> <adaptor pk|_>` -/
def hNonceProcess : Handler
  | [flags, an, msg, c, ad] => do
    let a ← optTok? aggnonceTok? an; let m ← optTok? (hexN? 32) msg
    let cc ← optTok? cacheTok? c; let adp ← ptOrNull? ad
    let r := nonceProcess (!hasFlag flags 'o') a m cc adp
    let ss := match r.out with
      | some s => showSession s
      | none => "U"
    some (s!"{r.ret} {ss} i{r.illegal}")
  | _ => none

/-- `musig_partial_sign <flags> <secnonce|_> <sk|_> <pk|_> <cache|_> <session|_>` -/
def hPartialSign : Handler
  | [flags, sn, sk, pk, c, se] => do
    let s ← optTok? secnonceTok? sn; let kp ← keypair? sk pk
    let cc ← optTok? cacheTok? c; let ss ← optTok? sessionTok? se
    let r := partialSign (!hasFlag flags 'o') s kp cc ss
    let after := match r.out.secnonce with
      | some x => s!"z{bit x.isZero}"
      | none => "_"
    some (s!"{r.ret} {showPsigOut r.out.sig} {after} i{r.illegal}")
  | _ => none

/-- `musig_partial_sig_verify <psig32|Z|_> <pubnonce66|Z|_> <pk|_> <cache|_> <session|_>` -/
def hPartialSigVerify : Handler
  | [ps, pn, pk, c, se] => do
    let s ← optTok? psigTok? ps; let n ← optTok? pubnonceTok? pn; let p ← ptOrNull? pk
    let cc ← optTok? cacheTok? c; let ss ← optTok? sessionTok? se
    let r := partialSigVerify s n p cc ss
    some (s!"{r.ret} i{r.illegal}")
  | _ => none

/-- `musig_partial_sig_agg <flags> <session|_> <psig32|Z|_>*` -/
def hPartialSigAgg : Handler
  | flags :: se :: sigs => do
    let ss ← optTok? sessionTok? se
    let l ← sigs.mapM (optTok? psigTok?)
    let r := partialSigAgg (!hasFlag flags 'o') ss l
    some (s!"{r.ret} {showOptBytesOut r.out} i{r.illegal}")
  | _ => none

def hNonceParity : Handler
  | [flags, se] => do
    let ss ← optTok? sessionTok? se
    let r := Musig.nonceParity (!hasFlag flags 'o') ss
    let o := match r.out with
      | some p => toString p
      | none => "U"
    some (s!"{r.ret} {o} i{r.illegal}")
  | _ => none

/-- `musig_adapt <flags> <presig64|_> <sec_adaptor32|_> <parity>` -/
def hAdapt : Handler
  | [flags, pre, ad, par] => do
    let p ← optTok? (hexN? 64) pre; let a ← optTok? (hexN? 32) ad; let n ← int? par
    let r := adapt (!hasFlag flags 'o') p a n
    some (s!"{r.ret} {showOptBytesOut r.out} i{r.illegal}")
  | _ => none

/-- `musig_extract_adaptor <flags> <sig64|_> <presig64|_> <parity>` -/
def hExtractAdaptor : Handler
  | [flags, sg, pre, par] => do
    let s ← optTok? (hexN? 64) sg; let p ← optTok? (hexN? 64) pre; let n ← int? par
    let r := extractAdaptor (!hasFlag flags 'o') s p n
    some (s!"{r.ret} {showOptBytesOut r.out} i{r.illegal}")
  | _ => none

/-- `musig_pubnonce_parse <in66>` → ret, re-serialization (or `U`) -/
def hPubnonceParse : Handler
  | [inp] => do
    let b ← hexN? 66 inp
    match pubnonceParse b with
    | some p => some (s!"1 {showPubnonceOut (some p)}")
    | none => some "0 U"
  | _ => none

def hAggnonceParse : Handler
  | [inp] => do
    let b ← hexN? 66 inp
    match aggnonceParse b with
    | some p => some (s!"1 {showAggnonceOut (some p)}")
    | none => some "0 U"
  | _ => none

def hPartialSigParse : Handler
  | [inp] => do
    let b ← hexN? 32 inp
    let (ret, p) := partialSigParse b
    some (s!"{ret} {showPsigOut (some p)}")
  | _ => none

/-- `musig_pubnonce_serialize <pubnonce66|Z|_>` -/
def hPubnonceSerialize : Handler
  | [pn] => do
    let p ← optTok? pubnonceTok? pn
    let r := pubnonceSerialize p
    some (s!"{r.ret} {toHex r.out} i{r.illegal}")
  | _ => none

def hAggnonceSerialize : Handler
  | [an] => do
    let p ← optTok? aggnonceTok? an
    let r := aggnonceSerialize p
    some (s!"{r.ret} {toHex r.out} i{r.illegal}")
  | _ => none

def hPartialSigSerialize : Handler
  | [ps] => do
    let p ← optTok? psigTok? ps
    let r := partialSigSerialize p
    some (s!"{r.ret} {showOptBytesOut r.out} i{r.illegal}")
  | _ => none

/-! ### histories -/

def slot? (c : String) : Option Nat := if c = "0" then some 0 else if c = "1" then some 1 else none

def genMode? (s : String) : Option GenMode :=
  match s with
  | "gen" => some .ok | "genbad" => some .badRand | "genbadsk" => some .badSk
  | "genbadcache" => some .badCache | "gennullpub" => some .nullPub
  | "genctr" => some .ctr | "genctrbadkp" => some .ctrBadKp
  | "genctrzerosec" => some .ctrZeroSec | "genctrovfsec" => some .ctrOvfSec
  | _ => none

def signMode? (s : String) : Option SignMode :=
  match s with
  | "ok" => some .ok | "s2" => some .session2 | "wrongkp" => some .wrongKp | "negkp" => some .negKp
  | "zerokp" => some .zeroKp | "nullout" => some .nullOut | "nullkp" => some .nullKp
  | "nullcache" => some .nullCache | "nullsession" => some .nullSession | "badcache" => some .badCache
  | "badsession" => some .badSession | "zeroed" => some .zeroed | "badmagic" => some .badMagic
  | "nullnonce" => some .nullNonce
  | _ => none

/-- step tokens: `gen0`, `genbad1`, ..., `sign0:ok`, `sign1:negkp`, ..., `copy01`, `copy10` -/
def step? (s : String) : Option Step :=
  if s.startsWith "sign" then
    match (s.drop 4).toString.splitOn ":" with
    | [sl, m] => do let i ← slot? sl; let mm ← signMode? m; some (.sign i mm)
    | _ => none
  else if s = "copy01" then some (.copy 0 1)
  else if s = "copy10" then some (.copy 1 0)
  else if s.startsWith "gen" then do
    let n := s.length
    let i ← slot? (s.drop (n - 1)).toString
    let m ← genMode? (s.take (n - 1)).toString
    some (.gen i m)
  else none

def showStepOut (o : StepOut × Bool × Bool) : String :=
  let (so, z0, z1) := o
  let base := s!"{so.ret},i{so.illegal},z{bit z0}{bit z1}"
  let w := match so.randWiped with
    | some b => s!",w{bit b}"
    | none => ""
  let sg := match so.sig with
    | some s => "," ++ toHex (be32 s)
    | none => ""
  base ++ w ++ sg

/-- `musig_history <sk> <pk> <sk2> <pk2> <msg32> <cache> <session> <session2> <seed32> <ctrbase> / step*` -/
def hHistory : Handler
  | sk :: pk :: sk2 :: pk2 :: msg :: c :: se :: se2 :: seed :: ctr :: "/" :: steps => do
    let kp ← keypair? sk pk; let kp2 ← keypair? sk2 pk2
    let k ← kp; let k2 ← kp2
    let m ← hexN? 32 msg; let cc ← cacheTok? c; let s1 ← sessionTok? se; let s2 ← sessionTok? se2
    let sd ← hexN? 32 seed; let cb ← nat? ctr
    let st ← steps.mapM step?
    if cb ≥ 2 ^ 64 then none else
    let (fin, outs) := runHistory ⟨k, k2, m, cc, s1, s2, sd, cb⟩ 0 HistState.init st
    some (join (outs.map showStepOut ++ ["/", showSecnonce fin.slot0, showSecnonce fin.slot1]))
  | _ => none

def musigHandlers : List (String × Handler) := [
  ("musig_pubkey_agg", hPubkeyAgg), ("musig_pubkey_get", hPubkeyGet),
  ("musig_ec_tweak_add", hTweakAdd false), ("musig_xonly_tweak_add", hTweakAdd true),
  ("musig_nonce_gen", hNonceGen), ("musig_nonce_gen_counter", hNonceGenCounter),
  ("musig_nonce_agg", hNonceAgg), ("musig_nonce_process", hNonceProcess),
  ("musig_partial_sign", hPartialSign), ("musig_partial_sig_verify", hPartialSigVerify),
  ("musig_partial_sig_agg", hPartialSigAgg), ("musig_nonce_parity", hNonceParity),
  ("musig_adapt", hAdapt), ("musig_extract_adaptor", hExtractAdaptor),
  ("musig_pubnonce_parse", hPubnonceParse), ("musig_aggnonce_parse", hAggnonceParse),
  ("musig_partial_sig_parse", hPartialSigParse), ("musig_pubnonce_serialize", hPubnonceSerialize),
  ("musig_aggnonce_serialize", hAggnonceSerialize), ("musig_partial_sig_serialize", hPartialSigSerialize),
  ("musig_history", hHistory)
]

end Driver
end SecpZkp
