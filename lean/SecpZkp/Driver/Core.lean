import SecpZkp.Model.Schnorr
/-
  Line protocol helpers.  A line is `op tok tok ...`; tokens are
    hex byte strings (`-` = empty, `_` = NULL/absent), decimal numbers, or small tagged forms.
  A handler returns the result line, or `none` for malformed arguments (printed as `ERR bad-args`).
-/
namespace SecpZkp
namespace Driver

abbrev Handler := List String → Option String

def hex? (s : String) : Option Bytes := Bytes.ofHex s

/-- optional bytes: `_` is NULL -/
def optHex? (s : String) : Option (Option Bytes) :=
  if s = "_" then some none else (hex? s).map some

def nat? (s : String) : Option Nat := s.toNat?

def int? (s : String) : Option Int := s.toInt?

/-- hex of exactly `n` bytes -/
def hexN? (n : Nat) (s : String) : Option Bytes := do
  let b ← hex? s
  if b.length = n then some b else none

/-- A 32-byte big-endian number. -/
def num32? (s : String) : Option Nat := (hexN? 32 s).map Bytes.toNat

/-- Point object: `Z` (all-zero object) or 65-byte uncompressed encoding (taken as is, trusted to
    be what an earlier call produced). -/
def pt? (s : String) : Option Pt :=
  if s = "Z" then some .inf else do
    let b ← hexN? 65 s
    some (.aff (Bytes.toNat ((b.drop 1).take 32)) (Bytes.toNat (b.drop 33)))

def showPt (p : Pt) : String :=
  match p with
  | .inf => "Z"
  | q => Bytes.toHex (Codec.serialize65 q)

def showOptPt : Option Pt → String
  | none => "_"
  | some p => showPt p

def hx (b : Bytes) : String := Bytes.toHexP b

def sig? (s : String) : Option (Nat × Nat) := do
  let b ← hexN? 64 s
  some (Bytes.toNat (b.take 32), Bytes.toNat (b.drop 32))

def showSig (sg : Nat × Nat) : String := Bytes.toHex (Bytes.be32 sg.1 ++ Bytes.be32 sg.2)

def join (l : List String) : String := " ".intercalate l

def bit (b : Bool) : String := if b then "1" else "0"

/-- ECDSA nonce-function token: `_` NULL, `d` explicit default, `c<hex32>` nonce = value+counter,
    `f<k>:<hex32>` like `c` but failing once counter ≥ k. -/
def nonceFn? (s : String) : Option (Option Ecdsa.NonceFn) :=
  if s = "_" then some none
  else if s = "d" then some (some Ecdsa.rfc6979Nonce)
  else if s.startsWith "c" then do
    let v ← num32? (s.drop 1).toString
    some (some (fun _ _ _ _ ctr => some (Bytes.be32 ((v + ctr) % 2 ^ 256))))
  else if s.startsWith "f" then
    match (s.drop 1).toString.splitOn ":" with
    | [ks, hs] => do
      let k ← nat? ks
      let v ← num32? hs
      some (some (fun _ _ _ _ ctr => if ctr ≥ k then none else some (Bytes.be32 ((v + ctr) % 2 ^ 256))))
    | _ => none
  else none

/-- hardened nonce-function token: `_` NULL, `d` explicit bip340, `c<hex32>` constant, `f` failing -/
def nonceFnH? (s : String) : Option (Option Schnorr.NonceFnH) :=
  if s = "_" then some none
  else if s = "d" then some (some Schnorr.nonceBip340)
  else if s = "f" then some (some (fun _ _ _ _ _ => none))
  else if s.startsWith "c" then do
    let v ← hexN? 32 (s.drop 1).toString
    some (some (fun _ _ _ _ _ => some v))
  else none

end Driver
end SecpZkp
