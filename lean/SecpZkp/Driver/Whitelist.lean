import SecpZkp.Driver.Core
import SecpZkp.Driver.Generator
import SecpZkp.Model.Whitelist
/-
  Handlers: whitelist ring signatures (C16).  Signature objects travel in serialized form; public keys
  are point tokens (the all-zero object `Z` is refused: bad-args on both sides).
-/
namespace SecpZkp
namespace Driver
open Bytes

/-- point token that is not `Z` -/
def ptNZ? (s : String) : Option Pt := if s = "Z" then none else pt? s

/-- `/ online* / offline*` with equally long lists -/
def wlKeys? (rest : List String) : Option (List Pt × List Pt) := do
  let (on, off) ← splitAt? "/" rest
  let o ← on.mapM ptNZ?; let f ← off.mapM ptNZ?
  if o.length = f.length then some (o, f) else none

def wlSer (sig : Whitelist.Sig) : Bytes := (Whitelist.serialize sig (1 + 32 * 256)).2.1

/-- `wl_sign online_sec32 summed_sec32 index sub / online* / offline*` → `ret sig_ser verify i<n>` -/
def hWlSign : Handler
  | osec :: ssec :: idx :: sub :: "/" :: rest => do
    let os ← hexN? 32 osec; let ss ← hexN? 32 ssec; let i ← nat? idx; let sp ← ptNZ? sub
    let (on, off) ← wlKeys? rest
    let r := Whitelist.sign on off sp os ss i
    match r.out with
    | some sig => some s!"{r.ret} {hx (wlSer sig)} {Whitelist.verify sig on off sp} i{r.illegal}"
    | none => some s!"{r.ret} - - i{r.illegal}"
  | _ => none

/-- `wl_verify sig_ser sub / online* / offline*` → `ret` | `parsefail` -/
def hWlVerify : Handler
  | sg :: sub :: "/" :: rest => do
    let b ← hex? sg; let sp ← ptNZ? sub
    let (on, off) ← wlKeys? rest
    match (Whitelist.parse b).2.2 with
    | none => some "parsefail"
    | some sig => some s!"{Whitelist.verify sig on off sp}"
  | _ => none

/-- `wl_parse bytes` → `ret n_keys reserialized` (`u` = n_keys untouched, `-` = no signature) -/
def hWlParse : Handler
  | [inp] => do
    let b ← hex? inp
    let (ret, nk, sig) := Whitelist.parse b
    let nks := match nk with | some n => toString n | none => "u"
    match sig with
    | some s => some s!"{ret} {nks} {hx (wlSer s)}"
    | none => some s!"{ret} {nks} -"
  | _ => none

/-- `wl_parse_len bytes claimed_len` → as `wl_parse` for an input of `claimed_len` bytes whose first `1 + 32·(count+1)` bytes are
    `bytes` (the harness refuses other buffers): the specified parser accepts exactly `claimed_len = 1 + 32·(count+1)`. -/
def hWlParseLen : Handler
  | [inp, l] => do
    let b ← hex? inp
    let len ← l.toNat?
    match b with
    | [] => none
    | c :: _ =>
      if b.length ≠ 1 + 32 * (c.toNat + 1) then none
      else if len = b.length then hWlParse [inp]
      else if len = 0 then some "0 u -"
      else some s!"0 {c.toNat} -"
  | _ => none

/-- `wl_serialize sig_ser buflen` → `ret len buffer` (buffer pre-filled with 0xAA) | `parsefail` -/
def hWlSerialize : Handler
  | [sg, bl] => do
    let b ← hex? sg; let n ← nat? bl
    match (Whitelist.parse b).2.2 with
    | none => some "parsefail"
    | some sig =>
      let (ret, w, len) := Whitelist.serialize sig n
      some s!"{ret} {len} {hx (w ++ List.replicate (n - w.length) 0xAA)}"
  | _ => none

/-- Lean-only: `wl_mk_adv online_sec32 summed_sec32 index sub nonce32 / s32* / online* / offline*`:
    the signing algorithm with a chosen nonce and chosen forged scalars (any 32-byte values, reduced
    mod n; the entry at `index` is ignored) → `1 sig_ser` | `0 -`. -/
def hWlMkAdv : Handler
  | osec :: ssec :: idx :: sub :: non :: "/" :: rest => do
    let os ← hexN? 32 osec; let ss ← hexN? 32 ssec; let i ← nat? idx; let sp ← ptNZ? sub; let k ← num32? non
    let (sl, keys) ← splitAt? "/" rest
    let s ← sl.mapM num32?
    let (on, off) ← wlKeys? keys
    if s.length ≠ on.length ∨ ¬ i < on.length then none else
    let (msg32, pubs) := Whitelist.computeKeysAndMessage on off sp
    match Whitelist.computeTweakedPrivkey os ss with
    | none => some "0 -"
    | some sec =>
      match Whitelist.signWith msg32 pubs sec (k % N) (s.map (· % N)) i with
      | none => some "0 -"
      | some sig => some s!"1 {hx (wlSer sig)}"
  | _ => none

/-- `wl_mk_advsec sec idx sub nonce / s… / keys` (Lean only): as `wl_mk_adv`, but the secret of ring key `idx` is given directly
    (any scalar, also 0 — the discrete logarithm of a ring key that is the point at infinity, which anybody knows). -/
def hWlMkAdvSec : Handler
  | sec :: idx :: sub :: non :: "/" :: rest => do
    let sc ← num32? sec; let i ← nat? idx; let sp ← ptNZ? sub; let k ← num32? non
    let (sl, keys) ← splitAt? "/" rest
    let s ← sl.mapM num32?
    let (on, off) ← wlKeys? keys
    if s.length ≠ on.length ∨ ¬ i < on.length then none else
    let (msg32, pubs) := Whitelist.computeKeysAndMessage on off sp
    match Whitelist.signWith msg32 pubs (sc % N) (k % N) (s.map (· % N)) i with
    | none => some "0 -"
    | some sig => some s!"1 {hx (wlSer sig)}"
  | _ => none

def whitelistHandlers : List (String × Handler) := [
  ("wl_sign", hWlSign), ("wl_verify", hWlVerify), ("wl_parse", hWlParse), ("wl_parse_len", hWlParseLen), ("wl_serialize", hWlSerialize),
  ("wl_mk_adv", hWlMkAdv), ("wl_mk_advsec", hWlMkAdvSec)
]

end Driver
end SecpZkp
