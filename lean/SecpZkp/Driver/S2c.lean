import SecpZkp.Driver.Core
import SecpZkp.Model.S2c
/-
  Handlers: ECDSA sign-to-contract and the anti-exfil protocol (C15).
  Opening object token = point token (`Z` = all-zero object).
-/
namespace SecpZkp
namespace Driver
open Bytes

/-- signature object token: 64 bytes with r, s < n (as `tok_sig`) -/
def s2cSig? (s : String) : Option (Nat × Nat) := do
  let sg ← sig? s
  if sg.1 < N ∧ sg.2 < N then some sg else none

/-- `s2c_sign msg32 sk32 data32` → ret sig64 opening i<n> [verify_commit ecdsa_verify] -/
def hS2cSign : Handler
  | [msg, sk, data] => do
    let m ← hexN? 32 msg; let k ← hexN? 32 sk; let d ← hexN? 32 data
    let r := S2c.sign m k d
    let op := r.opening.getD .inf
    let base := s!"{r.ret} {showSig r.sig} {showPt op} i0"
    if r.ret = 1 then
      let vc := S2c.verifyCommit r.sig d op
      let (_, pub) := Keys.pubkeyCreate k
      let ev := Ecdsa.verify r.sig m pub
      some (base ++ s!" {vc.ret} {ev.ret}")
    else some base
  | _ => none

def hS2cVerifyCommit : Handler
  | [sg, data, op] => do
    let s ← s2cSig? sg; let d ← hexN? 32 data; let o ← pt? op
    let r := S2c.verifyCommit s d o
    some s!"{r.ret} i{r.illegal}"
  | _ => none

def hS2cOpeningParse : Handler
  | [inp] => do
    let b ← hexN? 33 inp
    let r := S2c.openingParse b
    some s!"{r.ret} {showPt r.out}"
  | _ => none

def hS2cOpeningSerialize : Handler
  | [op] => do
    let o ← pt? op
    let r := S2c.openingSerialize o
    some s!"{r.ret} {hx r.out} i{r.illegal}"
  | _ => none

def hAeHostCommit : Handler
  | [rand] => do
    let r ← hexN? 32 rand
    some ("1 " ++ hx (S2c.hostCommit r))
  | _ => none

def hAeSignerCommit : Handler
  | [msg, sk, c] => do
    let m ← hexN? 32 msg; let k ← hexN? 32 sk; let c ← hexN? 32 c
    match S2c.signerCommit 64 m k c with
    | some p => some ("1 " ++ showPt p)
    | none => some "0 Z"
  | _ => none

def hAeSign : Handler
  | [msg, sk, data] => do
    let m ← hexN? 32 msg; let k ← hexN? 32 sk; let d ← hexN? 32 data
    let (ret, s) := S2c.antiExfilSign m k d
    some s!"{ret} {showSig s}"
  | _ => none

/-- `ae_host_verify sig64 msg32 pubkey host_data32 opening` → ret i<n> verify_commit ecdsa_verify -/
def hAeHostVerify : Handler
  | [sg, msg, pk, data, op] => do
    let s ← s2cSig? sg; let m ← hexN? 32 msg; let q ← pt? pk; let d ← hexN? 32 data; let o ← pt? op
    let r := S2c.hostVerify s m q d o
    let vc := S2c.verifyCommit s d o
    let ev := Ecdsa.verify s m q
    some s!"{r.ret} i{r.illegal} {vc.ret} {ev.ret}"
  | _ => none

/-- `ae_protocol msg32 sk32 rand32`: host_commit → signer_commit → anti_exfil_sign → host_verify,
    then s2c_sign with the same data and comparison of the two openings. -/
def hAeProtocol : Handler
  | [msg, sk, rand] => do
    let m ← hexN? 32 msg; let k ← hexN? 32 sk; let rho ← hexN? 32 rand
    let c := S2c.hostCommit rho
    let (scRet, op) := match S2c.signerCommit 64 m k c with
      | some p => (1, p)
      | none => (0, Pt.inf)
    let (sRet, sg) := S2c.antiExfilSign m k rho
    let (_, pub) := Keys.pubkeyCreate k
    let hv := if pub.isInf then (⟨0, (), 0⟩ : Ret Unit) else S2c.hostVerify sg m pub rho op
    let s2 := S2c.sign m k rho
    let op2 := s2.opening.getD .inf
    let same := op == op2 && !op.isInf
    let sameSig := s2.ret == sRet && s2.sig == sg
    some s!"1 {hx c} {scRet} {showPt op} {sRet} {showSig sg} {hv.ret} i{hv.illegal} {showPt op2} {bit same} {bit sameSig}"
  | _ => none

def s2cHandlers : List (String × Handler) := [
  ("s2c_sign", hS2cSign), ("s2c_verify_commit", hS2cVerifyCommit),
  ("s2c_opening_parse", hS2cOpeningParse), ("s2c_opening_serialize", hS2cOpeningSerialize),
  ("ae_host_commit", hAeHostCommit), ("ae_signer_commit", hAeSignerCommit), ("ae_sign", hAeSign),
  ("ae_host_verify", hAeHostVerify), ("ae_protocol", hAeProtocol)]

end Driver
end SecpZkp
