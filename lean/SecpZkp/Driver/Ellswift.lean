import SecpZkp.Driver.Core
import SecpZkp.Model.Ecdh
import SecpZkp.Model.Ellswift
/-
  Handlers: ECDH and ElligatorSwift (C18).  See docs/PROTOCOL.md, section "ECDH / ElligatorSwift".
-/
namespace SecpZkp
namespace Driver
open Bytes

/-- 64-byte output buffer of the harness, prefilled with 0xAA. -/
def outPrefill : Bytes := List.replicate 64 0xAA

/-- custom ECDH hash of the harness: output = x32 ‖ (y32 xor data32), data NULL = zeros; returns 2 -/
def ecdhCustom (data : Option Bytes) : Ecdh.HashFn := fun x y =>
  (2, some (x ++ Bytes.xor y (data.getD (Bytes.zeros 32))))

/-- ECDH hash token: `_` NULL, `d` explicit default, `x` custom copy, `f` failing (writes nothing) -/
def ecdhHashFn? (s : String) (data : Option Bytes) : Option (Option Ecdh.HashFn) :=
  if s = "_" then some none
  else if s = "d" then some (some Ecdh.hashSha256)
  else if s = "x" then some (some (ecdhCustom data))
  else if s = "f" then some (some (fun _ _ => (0, none)))
  else none

/-- `ecdh <pubkey token> <seckey32> <hashfn token> <data32|_>` → `ret output64 i<n>` -/
def hEcdh : Handler
  | [pk, sk, hf, data] => do
    let p ← pt? pk; let s ← hexN? 32 sk; let d ← optHex? data
    match d with
    | some b => if b.length ≠ 32 then none else pure ()
    | none => pure ()
    let f ← ecdhHashFn? hf d
    let r := Ecdh.ecdh outPrefill p s f
    some s!"{r.ret} {hx r.out} i{r.illegal}"
  | _ => none

/-- `ellswift_decode <ell64>` → `ret pubkey` -/
def hEllDecode : Handler
  | [e] => do
    let b ← hexN? 64 e
    let r := Ellswift.decode b
    some s!"{r.ret} {showPt r.out}"
  | _ => none

def showDecode (ell64 : Bytes) : String :=
  let r := Ellswift.decode ell64
  s!"{r.ret} {showPt r.out}"

/-- `ellswift_encode <pubkey token> <rnd32>` → `ret ell64 i<n> dret dpubkey r<0|1>` (decode of the
    result; r1 iff the decoded key equals the input key) -/
def hEllEncode : Handler
  | [pk, rnd] => do
    let p ← pt? pk; let r32 ← hexN? 32 rnd
    match Ellswift.encode Ellswift.defaultFuel p r32 with
    | none => some "ERR fuel"
    | some r =>
      let d := Ellswift.decode r.out
      some s!"{r.ret} {hx r.out} i{r.illegal} {showDecode r.out} r{bit (d.out == p && !p.isInf)}"
  | _ => none

/-- `ellswift_create <seckey32> <auxrnd32|_>` → `ret ell64 i<n> dret dpubkey r<0|1>` (r1 iff the
    decoded key equals `ec_pubkey_create(seckey)`, r0 also when that fails) -/
def hEllCreate : Handler
  | [sk, aux] => do
    let s ← hexN? 32 sk; let a ← optHex? aux
    match a with
    | some b => if b.length ≠ 32 then none else pure ()
    | none => pure ()
    match Ellswift.create Ellswift.defaultFuel s a with
    | none => some "ERR fuel"
    | some r =>
      let d := Ellswift.decode r.out
      let (okc, pkc) := Keys.pubkeyCreate s
      some s!"{r.ret} {hx r.out} i{r.illegal} {showDecode r.out} r{bit (okc == 1 && d.out == pkc)}"
  | _ => none

/-- custom XDH hash of the harness: output = x32 ‖ (ell_a64[0..32] xor ell_b64[32..64] xor data[0..32]);
    returns 2 -/
def xdhCustom (data : Option Bytes) : Ellswift.XdhHashFn := fun x a b =>
  (2, some (x ++ Bytes.xor (Bytes.xor (a.take 32) (b.drop 32)) ((data.getD (Bytes.zeros 64)).take 32)))

/-- `ellswift_xdh <ell_a64> <ell_b64> <seckey32> <party> <hashfn token> <data64|_>` → `ret output64 i<n>`
    hash tokens: `p` prefix (needs data), `b` bip324, `x` custom, `f` failing, `_` NULL pointer -/
def hEllXdh : Handler
  | [ea, eb, sk, party, hf, data] => do
    let a ← hexN? 64 ea; let b ← hexN? 64 eb; let s ← hexN? 32 sk; let pa ← nat? party
    let d ← optHex? data
    match d with
    | some bb => if bb.length ≠ 64 then none else pure ()
    | none => pure ()
    let f : Option Ellswift.XdhHashFn ←
      if hf = "_" then some none
      else if hf = "p" then (match d with | some dd => some (some (Ellswift.hashPrefix dd)) | none => none)
      else if hf = "b" then some (some Ellswift.hashBip324)
      else if hf = "x" then some (some (xdhCustom d))
      else if hf = "f" then some (some (fun _ _ _ => (0, none)))
      else none
    let r := Ellswift.xdh outPrefill a b s pa f
    some s!"{r.ret} {hx r.out} i{r.illegal}"
  | _ => none

/-- `xswiftec <u32> <t32>` → `oncurve(x) xn xd x` -/
def hXswiftec : Handler
  | [u, t] => do
    let uu ← num32? u; let tt ← num32? t
    let (xn, xd) := Ellswift.xswiftecFracVar (uu % P) (tt % P)
    let x := Ellswift.xswiftecVar (uu % P) (tt % P)
    some s!"{bit (Ellswift.geXOnCurveVar x)} {hx (be32 xn)} {hx (be32 xd)} {hx (be32 x)}"
  | _ => none

/-- `xswiftec_inv <x32> <u32> <c>` → `ret t` -/
def hXswiftecInv : Handler
  | [x, u, c] => do
    let xx ← num32? x; let uu ← num32? u; let cc ← nat? c
    if cc ≥ 8 then none else
    match Ellswift.xswiftecInvVar (xx % P) (uu % P) cc with
    | some t => some s!"1 {hx (be32 t)}"
    | none => some "0 -"
  | _ => none

/-- `ecmult_const_xonly <n32> <d32|_> <q32> <known_on_curve>` → `ret x` -/
def hEcmultConstXonly : Handler
  | [n, d, q, k] => do
    let nn ← num32? n; let qq ← num32? q; let kk ← nat? k
    let dd ← if d = "_" then some none else (num32? d).map (fun v => some (v % P))
    match Ellswift.ecmultConstXonly (nn % P) dd (qq % N) (kk ≠ 0) with
    | some x => some s!"1 {hx (be32 x)}"
    | none => some "0 -"
  | _ => none

def ellswiftHandlers : List (String × Handler) := [
  ("ecdh", hEcdh), ("ellswift_decode", hEllDecode), ("ellswift_encode", hEllEncode),
  ("ellswift_create", hEllCreate), ("ellswift_xdh", hEllXdh),
  ("xswiftec", hXswiftec), ("xswiftec_inv", hXswiftecInv), ("ecmult_const_xonly", hEcmultConstXonly)
]

end Driver
end SecpZkp
