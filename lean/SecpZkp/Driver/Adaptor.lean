import SecpZkp.Driver.Core
import SecpZkp.Model.Adaptor
/-
  Handlers: ECDSA adaptor signatures and DLEQ proofs (C14).
-/
namespace SecpZkp
namespace Driver
open Bytes

/-- adaptor nonce-function token: `_` NULL, `d` explicit secp256k1_nonce_function_ecdsa_adaptor,
    `f` failing, `c<hex32>` constant, `p<hex32>:<hex32>` first constant for the 16-byte (signing)
    algo and second for any other (DLEQ) algo, `q<hex32>` constant for the signing algo and failure
    for any other algo. -/
def nonceFnA? (s : String) : Option (Option Adaptor.NonceFnA) :=
  if s = "_" then some none
  else if s = "d" then some (some Adaptor.nonceDefault)
  else if s = "f" then some (some (fun _ _ _ _ _ => none))
  else if s.startsWith "c" then do
    let v ← hexN? 32 (s.drop 1).toString
    some (some (fun _ _ _ _ _ => some v))
  else if s.startsWith "p" then
    match (s.drop 1).toString.splitOn ":" with
    | [a, b] => do
      let va ← hexN? 32 a
      let vb ← hexN? 32 b
      some (some (fun _ _ _ algo _ => if algo.length = 16 then some va else some vb))
    | _ => none
  else if s.startsWith "q" then do
    let v ← hexN? 32 (s.drop 1).toString
    some (some (fun _ _ _ algo _ => if algo.length = 16 then some v else none))
  else none

/-- signature object token: 64 bytes with r, s < n (as `tok_sig`) -/
def sigObj? (s : String) : Option (Nat × Nat) := do
  let sg ← sig? s
  if sg.1 < N ∧ sg.2 < N then some sg else none

def untouched (n : Nat) : Bytes := List.replicate n 0xAA

def hAdaptorEncrypt : Handler
  | [sk, enc, msg, nf, nd] => do
    let k ← hexN? 32 sk; let y ← pt? enc; let m ← hexN? 32 msg
    let f ← nonceFnA? nf; let d ← optHex? nd
    let r := Adaptor.encrypt k y m f d
    let out := r.out.getD (untouched 162)
    let base := s!"{r.ret} {hx out} i{r.illegal}"
    if r.ret = 1 then
      let (_, pub) := Keys.pubkeyCreate k
      let v := Adaptor.verify out pub m y
      some (base ++ s!" {v.ret}")
    else some base
  | _ => none

def hAdaptorVerify : Handler
  | [sg, pk, msg, enc] => do
    let a ← hexN? 162 sg; let x ← pt? pk; let m ← hexN? 32 msg; let y ← pt? enc
    let r := Adaptor.verify a x m y
    some (s!"{r.ret} i{r.illegal}")
  | _ => none

def hAdaptorDecrypt : Handler
  | [dk, sg] => do
    let d ← hexN? 32 dk; let a ← hexN? 162 sg
    let (ret, s) := Adaptor.decrypt d a
    some (s!"{ret} {showSig s}")
  | _ => none

def hAdaptorRecover : Handler
  | [sg, asg, enc] => do
    let s ← sigObj? sg; let a ← hexN? 162 asg; let y ← pt? enc
    let r := Adaptor.recover s a y
    some (s!"{r.ret} {hx (r.out.getD (untouched 32))} i{r.illegal}")
  | _ => none

/-- `adaptor_deser sig162`: the internal codec, full shape then the (sigr, s') shape. -/
def hAdaptorDeser : Handler
  | [sg] => do
    let a ← hexN? 162 sg
    let full := match Adaptor.sigDeserialize true a with
      | none => "0"
      | some p => s!"1 {showPt p.r} {hx (be32 p.sigr)} {showPt p.rp} {hx (be32 p.sp)} {hx (be32 p.e)} {hx (be32 p.s)}"
    let part := match Adaptor.sigDeserialize false a with
      | none => "0"
      | some p => s!"1 {hx (be32 p.sigr)} {hx (be32 p.sp)}"
    some (full ++ " " ++ part)
  | _ => none

/-- `adaptor_ser R R' sp e s` -/
def hAdaptorSer : Handler
  | [r, rp, sp, e, s] => do
    let r ← pt? r; let rp ← pt? rp
    let sp ← num32? sp; let e ← num32? e; let s ← num32? s
    if r.isInf ∨ rp.isInf then none else
    some ("ser " ++ hx (Adaptor.sigSerialize r rp (sp % N) (e % N) (s % N)))
  | _ => none

def hAdaptorNonce : Handler
  | [msg, key, pk33, algo, data] => do
    let m ← hexN? 32 msg; let k ← hexN? 32 key; let p ← hexN? 33 pk33
    let a ← optHex? algo; let d ← optHex? data
    match a with
    | none => some "0 -"
    | some al =>
      match Adaptor.nonceDefault m k p al d with
      | some n => some ("1 " ++ hx n)
      | none => some "0 -"
  | _ => none

/-- `dleq_prove sk32 gen2 noncefn ndata` → ret s e p1 p2 verify -/
def hDleqProve : Handler
  | [sk, g2, nf, nd] => do
    let k ← num32? sk; let gen2 ← pt? g2
    let f ← nonceFnA? nf; let d ← optHex? nd
    let k := k % N
    if k = 0 ∨ gen2.isInf then none else
    let (p1, p2) := Adaptor.dleqPair k gen2
    match Adaptor.dleqProve k p1 gen2 p2 f d with
    | none => some s!"0 - - {showPt p1} {showPt p2} 0"
    | some (s, e) =>
      let v := Adaptor.dleqVerify s e p1 gen2 p2
      some s!"1 {hx (be32 s)} {hx (be32 e)} {showPt p1} {showPt p2} {bit v}"
  | _ => none

/-- `dleq_verify s32 e32 p1 gen2 p2` (scalars reduced mod n) -/
def hDleqVerify : Handler
  | [s, e, p1, g2, p2] => do
    let s ← num32? s; let e ← num32? e
    let p1 ← pt? p1; let gen2 ← pt? g2; let p2 ← pt? p2
    if p1.isInf ∨ gen2.isInf ∨ p2.isInf then none else
    some (bit (Adaptor.dleqVerify (s % N) (e % N) p1 gen2 p2))
  | _ => none

def adaptorHandlers : List (String × Handler) := [
  ("adaptor_encrypt", hAdaptorEncrypt), ("adaptor_verify", hAdaptorVerify),
  ("adaptor_decrypt", hAdaptorDecrypt), ("adaptor_recover", hAdaptorRecover),
  ("adaptor_deser", hAdaptorDeser), ("adaptor_ser", hAdaptorSer), ("adaptor_nonce", hAdaptorNonce),
  ("dleq_prove", hDleqProve), ("dleq_verify", hDleqVerify)]

end Driver
end SecpZkp
