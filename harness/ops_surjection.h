/* ops_surjection.h: surjection proofs (C11). Proof objects travel in serialized form. */

#define SURJ_PRIOR_INDEX ((size_t)999999)

/* the object that surj_parse / surj_initialize overwrite: n_inputs = 3, bitmap 05 aa aa .., data aa aa .. */
static void surj_prior(secp256k1_surjectionproof *p) {
    memset(p, 0xAA, sizeof *p);
    p->n_inputs = 3;
    p->used_inputs[0] = 5;
#ifdef VERIFY
    p->initialized = 1;
#endif
}
/* serialize through the API into an exactly sized heap buffer and print */
static void out_surjproof(const secp256k1_surjectionproof *p) {
    size_t sz = secp256k1_surjectionproof_serialized_size(CTX, p), len = sz;
    unsigned char *buf = (unsigned char*)malloc(sz ? sz : 1);
    if (!secp256k1_surjectionproof_serialize(CTX, buf, &len, p) || len != sz) out_str("SERIALIZE-FAILED");
    else out_hex(buf, len);
    free(buf);
}
/* proof token -> object (zero-filled first); 0 = does not parse */
static int tok_surjproof(int i, secp256k1_surjectionproof *p) {
    memset(p, 0, sizeof *p);
    if (!secp256k1_surjectionproof_parse(CTX, p, A(i)->b, A(i)->n)) return 0;
#ifdef VERIFY
    p->initialized = 1;
#endif
    return 1;
}
/* generator tokens from..to-1 -> fresh array (never NULL) */
static secp256k1_generator *tok_generators(int from, int to) {
    int i, n = to - from;
    secp256k1_generator *g = (secp256k1_generator*)malloc((n > 0 ? (size_t)n : 1) * sizeof *g);
    for (i = 0; i < n; i++) if (!tok_generator(from + i, &g[i])) { free(g); return NULL; }
    return g;
}

/* surj_parse <bytes> -> ret n_inputs n_used ser_size reserialized */
static int op_surj_parse(void) {
    secp256k1_surjectionproof p; int ret;
    NEED(1); NEEDANYHEX(0);
    surj_prior(&p);
    ret = secp256k1_surjectionproof_parse(CTX, &p, A(0)->b, A(0)->n);
    out_int(ret);
    out_int((long long)secp256k1_surjectionproof_n_total_inputs(CTX, &p));
    out_int((long long)secp256k1_surjectionproof_n_used_inputs(CTX, &p));
    out_int((long long)secp256k1_surjectionproof_serialized_size(CTX, &p));
    out_surjproof(&p);
    return 1;
}
/* surj_parse_len <bytes> <claimed_len> -> as surj_parse: the parser is told `claimed_len` (any size_t, also >= 2^32) while the buffer is a
   complete canonical encoding (the harness checks that it parses with its true length first), so nothing beyond it is read */
static int op_surj_parse_len(void) {
    secp256k1_surjectionproof p; int ret; size_t claimed;
    NEED(2); NEEDANYHEX(0);
    claimed = (size_t)strtoull(A(1)->s, NULL, 10);
    if (!tok_surjproof(0, &p)) return -1;
    surj_prior(&p);
    ret = secp256k1_surjectionproof_parse(CTX, &p, A(0)->b, claimed);
    out_int(ret);
    out_int((long long)secp256k1_surjectionproof_n_total_inputs(CTX, &p));
    out_int((long long)secp256k1_surjectionproof_n_used_inputs(CTX, &p));
    out_int((long long)secp256k1_surjectionproof_serialized_size(CTX, &p));
    out_surjproof(&p);
    return 1;
}
/* surj_serialize <proof_ser> <outlen> -> ret outlen bytes */
static int op_surj_serialize(void) {
    secp256k1_surjectionproof p; int ret; size_t len; unsigned char *buf;
    NEED(2); NEEDANYHEX(0);
    if (!tok_surjproof(0, &p)) { out_str("noparse"); return 1; }
    len = (size_t)arg_int(1);
    buf = (unsigned char*)malloc(len ? len : 1);
    ret = secp256k1_surjectionproof_serialize(CTX, buf, &len, &p);
    out_int(ret); out_int((long long)len);
    if (ret) out_hex(buf, len); else out_str("-");
    free(buf);
    return 1;
}
/* surj_initialize <n_to_use> <max_iter> <seed32> <output_tag32> / <input_tag32>* -> ret input_index proof i<n> */
static int op_surj_initialize(void) {
    secp256k1_surjectionproof p, *pa = (secp256k1_surjectionproof*)&p; secp256k1_fixed_asset_tag out, *in;
    size_t n, i, idx = SURJ_PRIOR_INDEX, idx2 = SURJ_PRIOR_INDEX, n_to_use, max_iter; int ret, ret2, ill;
    if (g_argc < 5 || strcmp(A(4)->s, "/")) return -1;
    NEEDHEX(2, 32); NEEDHEX(3, 32);
    n = (size_t)(g_argc - 5);
    for (i = 0; i < n; i++) NEEDHEX(5 + (int)i, 32);
    n_to_use = (size_t)arg_int(0); max_iter = (size_t)arg_int(1);
    in = (secp256k1_fixed_asset_tag*)malloc((n ? n : 1) * sizeof *in);
    for (i = 0; i < n; i++) memcpy(in[i].data, A(5 + (int)i)->b, 32);
    memcpy(out.data, A(3)->b, 32);
    surj_prior(&p);
    ret = secp256k1_surjectionproof_initialize(CTX, &p, &idx, in, n, n_to_use, &out, max_iter, A(2)->b);
    out_int(ret); out_int((long long)idx); out_surjproof(&p); out_ill();
    /* allocate_initialized / destroy: must behave like initialize on a heap object */
    ill = g_illegal;
    ret2 = secp256k1_surjectionproof_allocate_initialized(CTX, &pa, &idx2, in, n, n_to_use, &out, max_iter, A(2)->b);
    if (ret2 != ret || g_illegal - ill != ill) out_str("ALLOC-MISMATCH-ret");
    else if (ret2) {
        if (pa == NULL || pa == &p || idx2 != idx || pa->n_inputs != p.n_inputs || memcmp(pa->used_inputs, p.used_inputs, sizeof p.used_inputs)
            || memcmp(pa->data, p.data, sizeof p.data)) out_str("ALLOC-MISMATCH-obj");
    } else if (pa != NULL || idx2 != SURJ_PRIOR_INDEX) out_str("ALLOC-MISMATCH-null");
    g_illegal = ill;
    secp256k1_surjectionproof_destroy(pa);   /* NULL is allowed */
    free(in);
    return 1;
}
/* surj_generate <proof_ser> <input_index> <in_blind32> <out_blind32> <out_gen> / <in_gen>* -> ret proof verify_ret i<n> */
static int op_surj_generate(void) {
    secp256k1_surjectionproof p; secp256k1_generator outg, *in; size_t n; int ret;
    if (g_argc < 6 || strcmp(A(5)->s, "/")) return -1;
    NEEDANYHEX(0); NEEDHEX(2, 32); NEEDHEX(3, 32);
    if (!tok_generator(4, &outg)) return -1;
    n = (size_t)(g_argc - 6);
    in = tok_generators(6, g_argc); if (!in) return -1;
    if (!tok_surjproof(0, &p)) { out_str("noparse"); free(in); return 1; }
    ret = secp256k1_surjectionproof_generate(CTX, &p, in, n, &outg, (size_t)arg_int(1), A(2)->b, A(3)->b);
    out_int(ret); out_surjproof(&p);
    { int ill = g_illegal; out_int(secp256k1_surjectionproof_verify(CTX, &p, in, n, &outg)); g_illegal = ill; }
    out_ill();
    free(in);
    return 1;
}
/* surj_verify <proof_ser> <out_gen> / <in_gen>* -> ret */
static int op_surj_verify(void) {
    secp256k1_surjectionproof p; secp256k1_generator outg, *in; size_t n;
    if (g_argc < 3 || strcmp(A(2)->s, "/")) return -1;
    NEEDANYHEX(0);
    if (!tok_generator(1, &outg)) return -1;
    n = (size_t)(g_argc - 3);
    in = tok_generators(3, g_argc); if (!in) return -1;
    if (!tok_surjproof(0, &p)) { out_str("noparse"); free(in); return 1; }
    out_int(secp256k1_surjectionproof_verify(CTX, &p, in, n, &outg));
    free(in);
    return 1;
}
static int ops_surjection(const char *op) {
#define OP(name, call) if (!strcmp(op, name)) return call;
    OP("surj_parse", op_surj_parse()) OP("surj_parse_len", op_surj_parse_len()) OP("surj_serialize", op_surj_serialize())
    OP("surj_initialize", op_surj_initialize()) OP("surj_generate", op_surj_generate())
    OP("surj_verify", op_surj_verify())
#undef OP
    return 0;
}
