/* Correspondence harness: one translation unit that includes the library sources from the
 * current working tree of /repo (path given by -I on the command line), with every module
 * enabled, so that both the public API and internal functions are callable.
 *
 * Reads one operation per line on stdin (see docs/PROTOCOL.md), executes it against the real
 * code and prints one canonical result line.  Built with -DSECP256K1_ZKP_VERIF (hook guard).
 */
#define ENABLE_MODULE_ECDH 1
#define ENABLE_MODULE_RECOVERY 1
#define ENABLE_MODULE_EXTRAKEYS 1
#define ENABLE_MODULE_SCHNORRSIG 1
#define ENABLE_MODULE_MUSIG 1
#define ENABLE_MODULE_ELLSWIFT 1
#define ENABLE_MODULE_GENERATOR 1
#define ENABLE_MODULE_RANGEPROOF 1
#define ENABLE_MODULE_WHITELIST 1
#define ENABLE_MODULE_SURJECTIONPROOF 1
#define ENABLE_MODULE_ECDSA_S2C 1
#define ENABLE_MODULE_ECDSA_ADAPTOR 1
#define ENABLE_MODULE_SCHNORRSIG_HALFAGG 1
#define ENABLE_MODULE_BPPP 1

#include <stdio.h>
#include <stdlib.h>
#include <string.h>
#include <stdint.h>

#include "src/secp256k1.c"
#include "src/precomputed_ecmult.c"
#include "src/precomputed_ecmult_gen.c"

/* ---------- callbacks ---------- */
static __thread int g_illegal = 0, g_error = 0;
static void count_illegal(const char *msg, void *data) { (void)msg; (void)data; g_illegal++; }
static void count_error(const char *msg, void *data) { (void)msg; (void)data; g_error++; }

/* ---------- contexts ---------- */
static __thread secp256k1_context *CTX = NULL;

/* ---------- output buffer ---------- */
static __thread char *g_out = NULL;
static __thread size_t g_out_len = 0, g_out_cap = 0;
static void out_reserve(size_t n) {
    if (g_out_len + n + 1 > g_out_cap) {
        g_out_cap = (g_out_len + n + 1) * 2 + 256;
        g_out = (char*)realloc(g_out, g_out_cap);
        if (!g_out) { fprintf(stderr, "oom\n"); exit(3); }
    }
}
static void out_str(const char *s) {
    size_t n = strlen(s);
    out_reserve(n + 1);
    if (g_out_len > 0) g_out[g_out_len++] = ' ';
    memcpy(g_out + g_out_len, s, n);
    g_out_len += n;
    g_out[g_out_len] = 0;
}
static void out_int(long long v) { char b[32]; snprintf(b, sizeof b, "%lld", v); out_str(b); }
static void out_hex(const unsigned char *p, size_t n) {
    static const char *d = "0123456789abcdef";
    size_t i;
    if (n == 0) { out_str("-"); return; }
    out_reserve(2 * n + 2);
    if (g_out_len > 0) g_out[g_out_len++] = ' ';
    for (i = 0; i < n; i++) { g_out[g_out_len++] = d[p[i] >> 4]; g_out[g_out_len++] = d[p[i] & 15]; }
    g_out[g_out_len] = 0;
}
static void out_ill(void) { char b[32]; snprintf(b, sizeof b, "i%d", g_illegal); out_str(b); }

/* ---------- arguments ---------- */
typedef struct { char *s; unsigned char *b; size_t n; int is_hex; int is_null; } arg_t;
#define MAXARGS 65536
static __thread arg_t *g_args = NULL;
static __thread int g_argc;

static int hexval(int c) {
    if (c >= '0' && c <= '9') return c - '0';
    if (c >= 'a' && c <= 'f') return c - 'a' + 10;
    if (c >= 'A' && c <= 'F') return c - 'A' + 10;
    return -1;
}
/* decode token as hex into a fresh buffer (always at least 1 byte allocated, so that pointers are
 * non-NULL and exactly sized for ASan) */
static void arg_decode(arg_t *a) {
    size_t l = strlen(a->s), i;
    a->is_hex = 0; a->is_null = 0; a->b = NULL; a->n = 0;
    if (strcmp(a->s, "_") == 0) { a->is_null = 1; return; }
    if (strcmp(a->s, "-") == 0) { a->is_hex = 1; a->b = (unsigned char*)malloc(1); a->n = 0; return; }
    if (l % 2) return;
    for (i = 0; i < l; i++) if (hexval(a->s[i]) < 0) return;
    a->b = (unsigned char*)malloc(l / 2 ? l / 2 : 1);
    for (i = 0; i < l / 2; i++) a->b[i] = (unsigned char)(hexval(a->s[2*i]) * 16 + hexval(a->s[2*i+1]));
    a->n = l / 2; a->is_hex = 1;
}
#define A(i) (&g_args[i])
#define NEED(n) do { if (g_argc != (n)) return -1; } while (0)
#define NEEDHEX(i, len) do { if (!A(i)->is_hex || A(i)->n != (size_t)(len)) return -1; } while (0)
#define NEEDANYHEX(i) do { if (!A(i)->is_hex) return -1; } while (0)
#define NEEDOPT(i, len) do { if (!A(i)->is_null && (!A(i)->is_hex || A(i)->n != (size_t)(len))) return -1; } while (0)
#define OPT(i) (A(i)->is_null ? NULL : A(i)->b)
static long long arg_int(int i) { return atoll(A(i)->s); }

/* ---------- object helpers ---------- */
static int all_zero(const void *p, size_t n) { const unsigned char *c = (const unsigned char*)p; size_t i; for (i = 0; i < n; i++) if (c[i]) return 0; return 1; }

/* point token -> ge ; "Z" -> infinity */
static int tok_ge(int i, secp256k1_ge *ge) {
    if (strcmp(A(i)->s, "Z") == 0) { secp256k1_ge_set_infinity(ge); return 1; }
    if (!A(i)->is_hex || A(i)->n != 65) return 0;
    {
        secp256k1_fe x, y;
        if (!secp256k1_fe_set_b32_limit(&x, A(i)->b + 1) || !secp256k1_fe_set_b32_limit(&y, A(i)->b + 33)) return 0;
        secp256k1_ge_set_xy(ge, &x, &y);
    }
    return 1;
}
/* point token -> pubkey object; "Z" -> all-zero object */
static int tok_pubkey(int i, secp256k1_pubkey *pk) {
    secp256k1_ge ge;
    if (!tok_ge(i, &ge)) return 0;
    if (ge.infinity) { memset(pk, 0, sizeof *pk); return 1; }
    secp256k1_pubkey_save(pk, &ge);
    return 1;
}
static void out_ge(const secp256k1_ge *g) {
    unsigned char b[65];
    secp256k1_ge t = *g;
    if (t.infinity) { out_str("Z"); return; }
    secp256k1_fe_normalize_var(&t.x); secp256k1_fe_normalize_var(&t.y);
    b[0] = 4; secp256k1_fe_get_b32(b + 1, &t.x); secp256k1_fe_get_b32(b + 33, &t.y);
    out_hex(b, 65);
}
static void out_gej(const secp256k1_gej *j) { secp256k1_ge g; secp256k1_ge_set_gej_var(&g, (secp256k1_gej*)j); out_ge(&g); }
/* pubkey object -> token: all-zero object is "Z" */
static void out_pubkey(const secp256k1_pubkey *pk) {
    secp256k1_ge ge;
    if (all_zero(pk, sizeof *pk)) { out_str("Z"); return; }
    secp256k1_ge_from_bytes(&ge, pk->data);
    out_ge(&ge);
}
static int tok_sig(int i, secp256k1_ecdsa_signature *sig) {
    secp256k1_scalar r, s; int o1, o2;
    if (!A(i)->is_hex || A(i)->n != 64) return 0;
    secp256k1_scalar_set_b32(&r, A(i)->b, &o1);
    secp256k1_scalar_set_b32(&s, A(i)->b + 32, &o2);
    if (o1 || o2) return 0;
    secp256k1_ecdsa_signature_save(sig, &r, &s);
    return 1;
}
static void out_sig(const secp256k1_ecdsa_signature *sig) {
    unsigned char b[64]; secp256k1_scalar r, s;
    secp256k1_ecdsa_signature_load(CTX, &r, &s, sig);
    secp256k1_scalar_get_b32(b, &r); secp256k1_scalar_get_b32(b + 32, &s);
    out_hex(b, 64);
}
static int tok_keypair(int isk, int ipk, secp256k1_keypair *kp) {
    secp256k1_pubkey pk;
    if (!A(isk)->is_hex || A(isk)->n != 32) return 0;
    if (!tok_pubkey(ipk, &pk)) return 0;
    memcpy(&kp->data[0], A(isk)->b, 32);
    memcpy(&kp->data[32], pk.data, 64);
    return 1;
}
static void out_keypair(const secp256k1_keypair *kp) {
    secp256k1_pubkey pk;
    out_hex(&kp->data[0], 32);
    memcpy(pk.data, &kp->data[32], 64);
    out_pubkey(&pk);
}

/* ---------- custom nonce functions ---------- */
typedef struct { unsigned char v[32]; long long failat; } nonce_state;
static __thread nonce_state g_ns;
static void add_ctr(unsigned char *out, const unsigned char *v, unsigned int ctr) {
    int i; unsigned int carry = ctr;
    for (i = 31; i >= 0; i--) { unsigned int t = v[i] + (carry & 0xff); carry = (carry >> 8) + (t >> 8); out[i] = (unsigned char)t; }
}
static int nonce_ctr(unsigned char *nonce32, const unsigned char *msg32, const unsigned char *key32, const unsigned char *algo16, void *data, unsigned int counter) {
    (void)msg32; (void)key32; (void)algo16; (void)data;
    if (g_ns.failat >= 0 && (long long)counter >= g_ns.failat) return 0;
    add_ctr(nonce32, g_ns.v, counter);
    return 1;
}
/* parse ECDSA nonce token; returns 0 on error. *fp = NULL for "_" */
static int tok_noncefn(int i, secp256k1_nonce_function *fp) {
    const char *s = A(i)->s;
    size_t k;
    if (strcmp(s, "_") == 0) { *fp = NULL; return 1; }
    if (strcmp(s, "d") == 0) { *fp = secp256k1_nonce_function_rfc6979; return 1; }
    if (s[0] == 'c' && strlen(s) == 65) {
        for (k = 0; k < 32; k++) { int a = hexval(s[1+2*k]), b = hexval(s[2+2*k]); if (a < 0 || b < 0) return 0; g_ns.v[k] = (unsigned char)(a*16+b); }
        g_ns.failat = -1; *fp = nonce_ctr; return 1;
    }
    if (s[0] == 'f') {
        const char *c = strchr(s, ':');
        if (!c || strlen(c + 1) != 64) return 0;
        g_ns.failat = atoll(s + 1);
        for (k = 0; k < 32; k++) { int a = hexval(c[1+2*k]), b = hexval(c[2+2*k]); if (a < 0 || b < 0) return 0; g_ns.v[k] = (unsigned char)(a*16+b); }
        *fp = nonce_ctr; return 1;
    }
    return 0;
}
static int nonceh_const(unsigned char *nonce32, const unsigned char *msg, size_t msglen, const unsigned char *key32, const unsigned char *xonly_pk32, const unsigned char *algo, size_t algolen, void *data) {
    (void)msg; (void)msglen; (void)key32; (void)xonly_pk32; (void)algo; (void)algolen; (void)data;
    memcpy(nonce32, g_ns.v, 32); return 1;
}
static int nonceh_fail(unsigned char *nonce32, const unsigned char *msg, size_t msglen, const unsigned char *key32, const unsigned char *xonly_pk32, const unsigned char *algo, size_t algolen, void *data) {
    (void)nonce32; (void)msg; (void)msglen; (void)key32; (void)xonly_pk32; (void)algo; (void)algolen; (void)data;
    return 0;
}
/* returns 0 error; *use_extra = 0 means extraparams NULL */
static int tok_noncefn_h(int i, secp256k1_nonce_function_hardened *fp, int *is_null) {
    const char *s = A(i)->s; size_t k;
    *is_null = 0;
    if (strcmp(s, "_") == 0) { *fp = NULL; *is_null = 1; return 1; }
    if (strcmp(s, "d") == 0) { *fp = secp256k1_nonce_function_bip340; return 1; }
    if (strcmp(s, "f") == 0) { *fp = nonceh_fail; return 1; }
    if (s[0] == 'c' && strlen(s) == 65) {
        for (k = 0; k < 32; k++) { int a = hexval(s[1+2*k]), b = hexval(s[2+2*k]); if (a < 0 || b < 0) return 0; g_ns.v[k] = (unsigned char)(a*16+b); }
        *fp = nonceh_const; return 1;
    }
    return 0;
}

/* ---------- op families ---------- */
/* each returns 1 handled, 0 not mine, -1 bad args */
static char *run_nested(const char *line, int *illegal_out);
#include "ops_basic.h"
#include "ops_all.h"

typedef int (*family_fn)(const char *op);
static family_fn g_families[] = { ops_basic, OPS_ALL_FAMILIES NULL };

/* Tokenises `line` in place, dispatches, leaves the result in g_out. Returns a malloc'd result string. */
static char *dispatch_line(char *line) {
    char *tok, *save = NULL, *res; int i, rc = 0; const char *op;
    size_t len = strlen(line);
    arg_t *args = (arg_t*)malloc(MAXARGS * sizeof(arg_t));
    while (len > 0 && (line[len-1] == '\n' || line[len-1] == '\r' || line[len-1] == ' ')) line[--len] = 0;
    g_args = args; g_argc = 0; g_out = NULL; g_out_len = 0; g_out_cap = 0;
    g_illegal = 0; g_error = 0;
    tok = strtok_r(line, " ", &save);
    if (!tok) { free(args); g_args = NULL; return strdup(""); }
    op = tok;
    if (op[0] == '#') { free(args); g_args = NULL; return strdup(op); }
    while ((tok = strtok_r(NULL, " ", &save)) != NULL && g_argc < MAXARGS) { g_args[g_argc].s = tok; arg_decode(&g_args[g_argc]); g_argc++; }
    if (tok != NULL) {   /* more tokens than the harness can hold: never run the operation on a silently truncated line */
        int k; for (k = 0; k < g_argc; k++) free(args[k].b);
        free(args); g_args = NULL; return strdup("ERR too-many-args");
    }
    for (i = 0; g_families[i]; i++) { rc = g_families[i](op); if (rc != 0) break; }
    if (rc == 0) { res = (char*)malloc(strlen(op) + 32); sprintf(res, "ERR unknown-op %s", op); }
    else if (rc < 0) { res = (char*)malloc(strlen(op) + 32); sprintf(res, "ERR bad-args %s", op); }
    else {
        if (g_error) { char b[32]; snprintf(b, sizeof b, "E%d", g_error); out_str(b); }
        res = g_out ? g_out : strdup(""); g_out = NULL;
    }
    for (i = 0; i < g_argc; i++) free(args[i].b);
    free(args); free(g_out);
    g_args = NULL; g_out = NULL; g_out_len = g_out_cap = 0;
    return res;
}

/* Run a protocol line from inside another op (used by the context-history ops): all per-line
 * globals are saved and restored. */
static char *run_nested(const char *line, int *illegal_out) {
    arg_t *sa = g_args; int sc = g_argc; char *so = g_out; size_t sl = g_out_len, scap = g_out_cap; int si = g_illegal, se = g_error;
    char *copy = strdup(line), *res;
    res = dispatch_line(copy);
    if (illegal_out) *illegal_out = g_illegal;
    free(copy);
    g_args = sa; g_argc = sc; g_out = so; g_out_len = sl; g_out_cap = scap; g_illegal = si; g_error = se;
    return res;
}

int main(int argc, char **argv) {
    char *line = NULL; size_t cap = 0; ssize_t len;
    (void)argc; (void)argv;
    CTX = secp256k1_context_create(SECP256K1_CONTEXT_NONE);
    secp256k1_context_set_illegal_callback(CTX, count_illegal, NULL);
    secp256k1_context_set_error_callback(CTX, count_error, NULL);
    harness_init();
    while ((len = getline(&line, &cap, stdin)) > 0) {
        char *res;
        if (line[0] == '#') { while (len > 0 && (line[len-1] == '\n' || line[len-1] == '\r')) line[--len] = 0; printf("%s\n", line); continue; }
        res = dispatch_line(line);
        printf("%s\n", res);
        free(res);
        fflush(stdout);
    }
    free(line);
    harness_fini();
    secp256k1_context_destroy(CTX);
    return 0;
}
