/* ops_ellswift.h: ECDH and ElligatorSwift (C18): public API + internal map pieces */

/* ----- custom hash callbacks ----- */
/* ECDH: output = x32 || (y32 xor data32) (data NULL = zeros); returns 2 (exercises !!ret) */
static int ecdh_hash_custom(unsigned char *output, const unsigned char *x32, const unsigned char *y32, void *data) {
    int i;
    memcpy(output, x32, 32);
    for (i = 0; i < 32; i++) output[32 + i] = (unsigned char)(y32[i] ^ (data ? ((const unsigned char*)data)[i] : 0));
    return 2;
}
static int ecdh_hash_fail(unsigned char *output, const unsigned char *x32, const unsigned char *y32, void *data) {
    (void)output; (void)x32; (void)y32; (void)data;
    return 0;
}
/* XDH: output = x32 || (ell_a64[0..32] xor ell_b64[32..64] xor data[0..32]) (data NULL = zeros); returns 2 */
static int xdh_hash_custom(unsigned char *output, const unsigned char *x32, const unsigned char *ell_a64, const unsigned char *ell_b64, void *data) {
    int i;
    memcpy(output, x32, 32);
    for (i = 0; i < 32; i++) output[32 + i] = (unsigned char)(ell_a64[i] ^ ell_b64[32 + i] ^ (data ? ((const unsigned char*)data)[i] : 0));
    return 2;
}
static int xdh_hash_fail(unsigned char *output, const unsigned char *x32, const unsigned char *ell_a64, const unsigned char *ell_b64, void *data) {
    (void)output; (void)x32; (void)ell_a64; (void)ell_b64; (void)data;
    return 0;
}

/* ecdh <pubkey token> <seckey32> <hashfn token> <data32|_> -> ret output64 i<n> */
static int op_ecdh(void) {
    secp256k1_pubkey pk; unsigned char *out; secp256k1_ecdh_hash_function fp; const char *h; int ret;
    NEED(4); NEEDHEX(1, 32); NEEDOPT(3, 32);
    if (!tok_pubkey(0, &pk)) return -1;
    h = A(2)->s;
    if (!strcmp(h, "_")) fp = NULL;
    else if (!strcmp(h, "d")) fp = secp256k1_ecdh_hash_function_default;
    else if (!strcmp(h, "x")) fp = ecdh_hash_custom;
    else if (!strcmp(h, "f")) fp = ecdh_hash_fail;
    else return -1;
    out = (unsigned char*)malloc(64); memset(out, 0xAA, 64);
    ret = secp256k1_ecdh(CTX, out, &pk, A(1)->b, fp, OPT(3));
    out_int(ret); out_hex(out, 64); out_ill();
    free(out);
    return 1;
}

/* ellswift_decode <ell64> -> ret pubkey */
static int op_ellswift_decode(void) {
    secp256k1_pubkey pk; int ret;
    NEED(1); NEEDHEX(0, 64);
    memset(&pk, 0, sizeof pk);
    ret = secp256k1_ellswift_decode(CTX, &pk, A(0)->b);
    out_int(ret); out_pubkey(&pk);
    return 1;
}
static void out_decode_of(const unsigned char *ell64, secp256k1_pubkey *dec) {
    unsigned char *e = (unsigned char*)malloc(64); int ret;
    memcpy(e, ell64, 64);
    memset(dec, 0, sizeof *dec);
    ret = secp256k1_ellswift_decode(CTX, dec, e);
    out_int(ret); out_pubkey(dec);
    free(e);
}
static int pubkey_equal(const secp256k1_pubkey *a, const secp256k1_pubkey *b) {
    secp256k1_ge ga, gb;
    if (all_zero(a, sizeof *a) || all_zero(b, sizeof *b)) return 0;
    secp256k1_ge_from_bytes(&ga, a->data); secp256k1_ge_from_bytes(&gb, b->data);
    return secp256k1_ge_eq_var(&ga, &gb);
}
/* ellswift_encode <pubkey token> <rnd32> -> ret ell64 i<n> dret dpubkey r<0|1> */
static int op_ellswift_encode(void) {
    secp256k1_pubkey pk, dec; unsigned char *out; int ret, ill; char b[8];
    NEED(2); NEEDHEX(1, 32);
    if (!tok_pubkey(0, &pk)) return -1;
    out = (unsigned char*)malloc(64); memset(out, 0xAA, 64);
    ret = secp256k1_ellswift_encode(CTX, out, &pk, A(1)->b);
    ill = g_illegal;
    out_int(ret); out_hex(out, 64); out_ill();
    out_decode_of(out, &dec);
    snprintf(b, sizeof b, "r%d", pubkey_equal(&dec, &pk)); out_str(b);
    g_illegal = ill;
    free(out);
    return 1;
}
/* ellswift_create <seckey32> <auxrnd32|_> -> ret ell64 i<n> dret dpubkey r<0|1> */
static int op_ellswift_create(void) {
    secp256k1_pubkey pk, dec; unsigned char *out; int ret, ill, okc; char b[8];
    NEED(2); NEEDHEX(0, 32); NEEDOPT(1, 32);
    out = (unsigned char*)malloc(64); memset(out, 0xAA, 64);
    ret = secp256k1_ellswift_create(CTX, out, A(0)->b, OPT(1));
    ill = g_illegal;
    out_int(ret); out_hex(out, 64); out_ill();
    out_decode_of(out, &dec);
    okc = secp256k1_ec_pubkey_create(CTX, &pk, A(0)->b);
    snprintf(b, sizeof b, "r%d", okc && pubkey_equal(&dec, &pk)); out_str(b);
    g_illegal = ill;
    free(out);
    return 1;
}
/* ellswift_xdh <ell_a64> <ell_b64> <seckey32> <party> <hashfn token> <data64|_> -> ret output64 i<n> */
static int op_ellswift_xdh(void) {
    unsigned char *out; secp256k1_ellswift_xdh_hash_function fp; const char *h; int ret;
    NEED(6); NEEDHEX(0, 64); NEEDHEX(1, 64); NEEDHEX(2, 32); NEEDOPT(5, 64);
    h = A(4)->s;
    if (!strcmp(h, "_")) fp = NULL;
    else if (!strcmp(h, "p")) { if (A(5)->is_null) return -1; fp = secp256k1_ellswift_xdh_hash_function_prefix; }
    else if (!strcmp(h, "b")) fp = secp256k1_ellswift_xdh_hash_function_bip324;
    else if (!strcmp(h, "x")) fp = xdh_hash_custom;
    else if (!strcmp(h, "f")) fp = xdh_hash_fail;
    else return -1;
    out = (unsigned char*)malloc(64); memset(out, 0xAA, 64);
    ret = secp256k1_ellswift_xdh(CTX, out, A(0)->b, A(1)->b, A(2)->b, (int)arg_int(3), fp, OPT(5));
    out_int(ret); out_hex(out, 64); out_ill();
    free(out);
    return 1;
}

static void out_fe(const secp256k1_fe *a) {
    unsigned char b[32]; secp256k1_fe t = *a;
    secp256k1_fe_normalize_var(&t); secp256k1_fe_get_b32(b, &t); out_hex(b, 32);
}
/* xswiftec <u32> <t32> -> oncurve(x) xn xd x */
static int op_xswiftec(void) {
    secp256k1_fe u, t, xn, xd, x;
    NEED(2); NEEDHEX(0, 32); NEEDHEX(1, 32);
    secp256k1_fe_set_b32_mod(&u, A(0)->b); secp256k1_fe_set_b32_mod(&t, A(1)->b);
    secp256k1_ellswift_xswiftec_frac_var(&xn, &xd, &u, &t);
    secp256k1_ellswift_xswiftec_var(&x, &u, &t);
    out_int(secp256k1_ge_x_on_curve_var(&x)); out_fe(&xn); out_fe(&xd); out_fe(&x);
    return 1;
}
/* xswiftec_inv <x32> <u32> <c> -> ret t   (x must be a valid X coordinate: VERIFY_CHECK in the C function) */
static int op_xswiftec_inv(void) {
    secp256k1_fe x, u, t; int c, ret;
    NEED(3); NEEDHEX(0, 32); NEEDHEX(1, 32);
    c = (int)arg_int(2); if (c < 0 || c > 7) return -1;
    secp256k1_fe_set_b32_mod(&x, A(0)->b); secp256k1_fe_set_b32_mod(&u, A(1)->b);
    ret = secp256k1_ellswift_xswiftec_inv_var(&t, &x, &u, c);
    out_int(ret); if (ret) out_fe(&t); else out_str("-");
    return 1;
}
/* ecmult_const_xonly <n32> <d32|_> <q32> <known_on_curve> -> ret x   (d != 0, q != 0 mod n required) */
static int op_ecmult_const_xonly(void) {
    secp256k1_fe n, d, r; secp256k1_scalar q; int ret;
    NEED(4); NEEDHEX(0, 32); NEEDOPT(1, 32); NEEDHEX(2, 32);
    secp256k1_fe_set_b32_mod(&n, A(0)->b);
    if (!A(1)->is_null) { secp256k1_fe_set_b32_mod(&d, A(1)->b); if (secp256k1_fe_normalizes_to_zero_var(&d)) return -1; }
    secp256k1_scalar_set_b32(&q, A(2)->b, NULL);
    if (secp256k1_scalar_is_zero(&q)) return -1;
    ret = secp256k1_ecmult_const_xonly(&r, &n, A(1)->is_null ? NULL : &d, &q, (int)arg_int(3));
    out_int(ret); if (ret) out_fe(&r); else out_str("-");
    return 1;
}

static int ops_ellswift(const char *op) {
#define OP(name, call) if (!strcmp(op, name)) return call;
    OP("ecdh", op_ecdh()) OP("ellswift_decode", op_ellswift_decode()) OP("ellswift_encode", op_ellswift_encode())
    OP("ellswift_create", op_ellswift_create()) OP("ellswift_xdh", op_ellswift_xdh())
    OP("xswiftec", op_xswiftec()) OP("xswiftec_inv", op_xswiftec_inv()) OP("ecmult_const_xonly", op_ecmult_const_xonly())
#undef OP
    return 0;
}
