/* ops_musig.h: MuSig2 module (C12, C13).
 *
 * Object tokens (docs/PROTOCOL.md):
 *   keyagg cache  magic:pk:second_pk:pks_hash:parity_acc:tweak
 *   session       magic:parity:fin_nonce:noncecoef:challenge:s_part
 *   secnonce      magic:k1:k2:pk
 *   pubnonce / aggnonce   66-byte serialization, Z = all-zero object
 *   partial sig   32-byte serialization, Z = all-zero object
 * Objects without a public serializer are loaded and dumped through the library's internal
 * save/load helpers (the magic field is copied separately so that objects with a wrong magic can be
 * expressed); raw object bytes are only inspected for "all zero" / "untouched (0xAA fill)". */

/* ---------- small string builder for ':'-joined tokens ---------- */
typedef struct { char b[1400]; size_t n; } msb;
static void msb_init(msb *s) { s->n = 0; s->b[0] = 0; }
static void msb_sep(msb *s) { if (s->n) s->b[s->n++] = ':'; s->b[s->n] = 0; }
static void msb_raw(msb *s, const char *t) { size_t l = strlen(t); msb_sep(s); memcpy(s->b + s->n, t, l + 1); s->n += l; }
static void msb_hex(msb *s, const unsigned char *p, size_t n) {
    static const char *d = "0123456789abcdef"; size_t i;
    msb_sep(s);
    for (i = 0; i < n; i++) { s->b[s->n++] = d[p[i] >> 4]; s->b[s->n++] = d[p[i] & 15]; }
    s->b[s->n] = 0;
}
static void msb_int(msb *s, long v) { char t[24]; snprintf(t, sizeof t, "%ld", v); msb_raw(s, t); }
static void msb_ge(msb *s, const secp256k1_ge *g) {
    unsigned char b[65]; secp256k1_ge t = *g;
    if (t.infinity) { msb_raw(s, "Z"); return; }
    secp256k1_fe_normalize_var(&t.x); secp256k1_fe_normalize_var(&t.y);
    b[0] = 4; secp256k1_fe_get_b32(b + 1, &t.x); secp256k1_fe_get_b32(b + 33, &t.y);
    msb_hex(s, b, 65);
}
static void msb_scalar(msb *s, const secp256k1_scalar *x) { unsigned char b[32]; secp256k1_scalar_get_b32(b, x); msb_hex(s, b, 32); }

/* ---------- field parsing ---------- */
static int mf_split(const char *tok, char *buf, size_t bufsz, char **f, int n) {
    int k = 0; char *p;
    if (strlen(tok) + 1 > bufsz) return 0;
    strcpy(buf, tok);
    p = buf; f[k++] = p;
    while (*p) { if (*p == ':') { *p = 0; if (k >= n) return 0; f[k++] = p + 1; } p++; }
    return k == n;
}
static int mf_hex(const char *s, unsigned char *out, size_t n) {
    size_t i;
    if (strlen(s) != 2 * n) return 0;
    for (i = 0; i < n; i++) { int a = hexval(s[2*i]), b = hexval(s[2*i+1]); if (a < 0 || b < 0) return 0; out[i] = (unsigned char)(a * 16 + b); }
    return 1;
}
static int mf_ge(const char *s, secp256k1_ge *ge) {
    unsigned char b[65]; secp256k1_fe x, y;
    if (!strcmp(s, "Z")) { secp256k1_ge_set_infinity(ge); return 1; }
    if (!mf_hex(s, b, 65)) return 0;
    if (!secp256k1_fe_set_b32_limit(&x, b + 1) || !secp256k1_fe_set_b32_limit(&y, b + 33)) return 0;
    secp256k1_ge_set_xy(ge, &x, &y);
    return 1;
}
static int mf_byte(const char *s, int *v) {
    const char *p = s; long x;
    if (!*p) return 0;
    for (; *p; p++) if (*p < '0' || *p > '9') return 0;
    x = atol(s); if (x > 255) return 0;
    *v = (int)x; return 1;
}
static int all_byte(const void *p, size_t n, unsigned char v) { const unsigned char *c = (const unsigned char*)p; size_t i; for (i = 0; i < n; i++) if (c[i] != v) return 0; return 1; }

/* ---------- keyagg cache ---------- */
static int tok_cache(int i, secp256k1_musig_keyagg_cache *c) {
    char buf[800]; char *f[6]; unsigned char magic[4], tw[32]; secp256k1_keyagg_cache_internal ci;
    if (!mf_split(A(i)->s, buf, sizeof buf, f, 6)) return 0;
    if (!mf_hex(f[0], magic, 4) || !mf_ge(f[1], &ci.pk) || ci.pk.infinity || !mf_ge(f[2], &ci.second_pk)
        || !mf_hex(f[3], ci.pks_hash, 32) || !mf_byte(f[4], &ci.parity_acc) || !mf_hex(f[5], tw, 32)) return 0;
    secp256k1_scalar_set_b32(&ci.tweak, tw, NULL);
    memset(c, 0, sizeof *c);
    secp256k1_keyagg_cache_save(c, &ci);
    memcpy(c->data, magic, 4);
    return 1;
}
static void out_cache(const secp256k1_musig_keyagg_cache *c) {
    secp256k1_musig_keyagg_cache t = *c; secp256k1_keyagg_cache_internal ci; msb s; int ill = g_illegal;
    if (all_byte(c, sizeof *c, 0xAA)) { out_str("U"); return; }
    memcpy(t.data, secp256k1_musig_keyagg_cache_magic, 4);
    secp256k1_keyagg_cache_load(CTX, &ci, &t);
    g_illegal = ill;
    msb_init(&s); msb_hex(&s, c->data, 4); msb_ge(&s, &ci.pk); msb_ge(&s, &ci.second_pk);
    msb_hex(&s, ci.pks_hash, 32); msb_int(&s, ci.parity_acc); msb_scalar(&s, &ci.tweak);
    out_str(s.b);
}

/* ---------- session ---------- */
static int tok_session(int i, secp256k1_musig_session *se) {
    char buf[400]; char *f[6]; unsigned char magic[4], b[32]; secp256k1_musig_session_internal si;
    if (!mf_split(A(i)->s, buf, sizeof buf, f, 6)) return 0;
    if (!mf_hex(f[0], magic, 4) || !mf_byte(f[1], &si.fin_nonce_parity) || !mf_hex(f[2], si.fin_nonce, 32)) return 0;
    if (!mf_hex(f[3], b, 32)) return 0; secp256k1_scalar_set_b32(&si.noncecoef, b, NULL);
    if (!mf_hex(f[4], b, 32)) return 0; secp256k1_scalar_set_b32(&si.challenge, b, NULL);
    if (!mf_hex(f[5], b, 32)) return 0; secp256k1_scalar_set_b32(&si.s_part, b, NULL);
    memset(se, 0, sizeof *se);
    secp256k1_musig_session_save(se, &si);
    memcpy(se->data, magic, 4);
    return 1;
}
static void out_session(const secp256k1_musig_session *se) {
    secp256k1_musig_session t = *se; secp256k1_musig_session_internal si; msb s; int ill = g_illegal;
    if (all_byte(se, sizeof *se, 0xAA)) { out_str("U"); return; }
    memcpy(t.data, secp256k1_musig_session_cache_magic, 4);
    secp256k1_musig_session_load(CTX, &si, &t);
    g_illegal = ill;
    msb_init(&s); msb_hex(&s, se->data, 4); msb_int(&s, si.fin_nonce_parity); msb_hex(&s, si.fin_nonce, 32);
    msb_scalar(&s, &si.noncecoef); msb_scalar(&s, &si.challenge); msb_scalar(&s, &si.s_part);
    out_str(s.b);
}

/* ---------- secnonce ---------- */
static int tok_secnonce(int i, secp256k1_musig_secnonce *sn) {
    char buf[500]; char *f[4]; unsigned char magic[4], b[32]; secp256k1_scalar k[2]; secp256k1_ge pk;
    if (!mf_split(A(i)->s, buf, sizeof buf, f, 4)) return 0;
    if (!mf_hex(f[0], magic, 4) || !mf_ge(f[3], &pk)) return 0;
    if (!mf_hex(f[1], b, 32)) return 0; secp256k1_scalar_set_b32(&k[0], b, NULL);
    if (!mf_hex(f[2], b, 32)) return 0; secp256k1_scalar_set_b32(&k[1], b, NULL);
    memset(sn, 0, sizeof *sn);
    if (pk.infinity) {
        /* zero point field: save with a dummy point, then clear the 64 point bytes */
        secp256k1_musig_secnonce_save(sn, k, &secp256k1_ge_const_g);
        memset(&sn->data[68], 0, 64);
    } else {
        secp256k1_musig_secnonce_save(sn, k, &pk);
    }
    memcpy(sn->data, magic, 4);
    return 1;
}
static void mk_secnonce_str(msb *s, const secp256k1_musig_secnonce *sn) {
    secp256k1_musig_secnonce t = *sn; secp256k1_scalar k[2]; secp256k1_ge pk; int ill = g_illegal, ok;
    static const unsigned char z32[32] = {0};
    msb_init(s);
    if (all_zero(sn, sizeof *sn)) { msb_hex(s, sn->data, 4); msb_hex(s, z32, 32); msb_hex(s, z32, 32); msb_raw(s, "Z"); return; }
    memcpy(t.data, secp256k1_musig_secnonce_magic, 4);
    ok = secp256k1_musig_secnonce_load(CTX, k, &pk, &t);
    g_illegal = ill;
    if (!ok) { msb_raw(s, "?"); return; }
    msb_hex(s, sn->data, 4); msb_scalar(s, &k[0]); msb_scalar(s, &k[1]);
    if (all_zero(&sn->data[68], 64)) msb_raw(s, "Z"); else msb_ge(s, &pk);
}
static void out_secnonce(const secp256k1_musig_secnonce *sn) { msb s; mk_secnonce_str(&s, sn); out_str(s.b); }

/* ---------- pubnonce / aggnonce / partial sig ---------- */
static int tok_pubnonce(int i, secp256k1_musig_pubnonce *pn) {
    memset(pn, 0, sizeof *pn);
    if (!strcmp(A(i)->s, "Z")) return 1;
    if (!A(i)->is_hex || A(i)->n != 66) return 0;
    (void)secp256k1_musig_pubnonce_parse(CTX, pn, A(i)->b);
    return 1;
}
static void out_pubnonce(const secp256k1_musig_pubnonce *pn) {
    unsigned char o[66];
    if (all_byte(pn, sizeof *pn, 0xAA)) { out_str("U"); return; }
    if (all_zero(pn, sizeof *pn)) { out_str("Z"); return; }
    if (memcmp(pn->data, secp256k1_musig_pubnonce_magic, 4)) { out_str("?"); return; }
    secp256k1_musig_pubnonce_serialize(CTX, o, pn); out_hex(o, 66);
}
static int tok_aggnonce(int i, secp256k1_musig_aggnonce *an) {
    memset(an, 0, sizeof *an);
    if (!strcmp(A(i)->s, "Z")) return 1;
    if (!A(i)->is_hex || A(i)->n != 66) return 0;
    (void)secp256k1_musig_aggnonce_parse(CTX, an, A(i)->b);
    return 1;
}
static void out_aggnonce(const secp256k1_musig_aggnonce *an) {
    unsigned char o[66];
    if (all_byte(an, sizeof *an, 0xAA)) { out_str("U"); return; }
    if (all_zero(an, sizeof *an)) { out_str("Z"); return; }
    if (memcmp(an->data, secp256k1_musig_aggnonce_magic, 4)) { out_str("?"); return; }
    secp256k1_musig_aggnonce_serialize(CTX, o, an); out_hex(o, 66);
}
static int tok_psig(int i, secp256k1_musig_partial_sig *ps) {
    memset(ps, 0, sizeof *ps);
    if (!strcmp(A(i)->s, "Z")) return 1;
    if (!A(i)->is_hex || A(i)->n != 32) return 0;
    (void)secp256k1_musig_partial_sig_parse(CTX, ps, A(i)->b);
    return 1;
}
static void out_psig(const secp256k1_musig_partial_sig *ps) {
    unsigned char o[32];
    if (all_byte(ps, sizeof *ps, 0xAA)) { out_str("U"); return; }
    if (all_zero(ps, sizeof *ps)) { out_str("Z"); return; }
    if (memcmp(ps->data, secp256k1_musig_partial_sig_magic, 4)) { out_str("?"); return; }
    secp256k1_musig_partial_sig_serialize(CTX, o, ps); out_hex(o, 32);
}
static void out_buf_or_u(const unsigned char *p, size_t n) { if (all_byte(p, n, 0xAA)) out_str("U"); else out_hex(p, n); }
static int has_flag(int i, char c) { return strchr(A(i)->s, c) != NULL; }
/* keypair from two tokens, "_ _" = NULL */
static int tok_keypair_opt(int isk, int ipk, secp256k1_keypair *kp, int *is_null) {
    *is_null = 0;
    if (A(isk)->is_null && A(ipk)->is_null) { *is_null = 1; return 1; }
    return tok_keypair(isk, ipk, kp);
}
#define ILL_END(ill) do { g_illegal = (ill); out_ill(); } while (0)

/* ---------- ops ---------- */
/* musig_pubkey_agg <flags> <pk|_>* */
static int op_musig_pubkey_agg(void) {
    size_t n, i; secp256k1_pubkey *pks; const secp256k1_pubkey **pp; secp256k1_xonly_pubkey agg; secp256k1_musig_keyagg_cache cache;
    int ret, ill, wa, wc;
    if (g_argc < 1) return -1;
    n = (size_t)g_argc - 1; wa = !has_flag(0, 'a'); wc = !has_flag(0, 'c');
    pks = (secp256k1_pubkey*)malloc((n + 1) * sizeof *pks); pp = (const secp256k1_pubkey**)malloc((n + 1) * sizeof *pp);
    for (i = 0; i < n; i++) {
        if (A(1 + (int)i)->is_null) { pp[i] = NULL; continue; }
        if (!tok_pubkey(1 + (int)i, &pks[i])) { free(pks); free(pp); return -1; }
        pp[i] = &pks[i];
    }
    memset(&agg, 0xAA, sizeof agg); memset(&cache, 0xAA, sizeof cache);
    ret = secp256k1_musig_pubkey_agg(CTX, wa ? &agg : NULL, wc ? &cache : NULL, pp, n);
    ill = g_illegal;
    out_int(ret);
    if (wa) out_pubkey((secp256k1_pubkey*)&agg); else out_str("_");
    out_cache(&cache);
    ILL_END(ill);
    free(pks); free(pp);
    return 1;
}
static int op_musig_pubkey_get(void) {
    secp256k1_musig_keyagg_cache cache; secp256k1_pubkey pk; int ret, ill;
    NEED(1);
    if (!A(0)->is_null && !tok_cache(0, &cache)) return -1;
    memset(&pk, 0xAA, sizeof pk);
    ret = secp256k1_musig_pubkey_get(CTX, &pk, A(0)->is_null ? NULL : &cache);
    ill = g_illegal;
    out_int(ret); out_pubkey(&pk); ILL_END(ill);
    return 1;
}
/* musig_{ec,xonly}_tweak_add <flags> <cache|_> <tweak32|_> */
static int op_musig_tweak_add(int xonly) {
    secp256k1_musig_keyagg_cache cache; secp256k1_pubkey pk; int ret, ill, wo;
    NEED(3); NEEDOPT(2, 32);
    wo = !has_flag(0, 'o');
    if (!A(1)->is_null && !tok_cache(1, &cache)) return -1;
    memset(&pk, 0xAA, sizeof pk);
    if (xonly) ret = secp256k1_musig_pubkey_xonly_tweak_add(CTX, wo ? &pk : NULL, A(1)->is_null ? NULL : &cache, OPT(2));
    else ret = secp256k1_musig_pubkey_ec_tweak_add(CTX, wo ? &pk : NULL, A(1)->is_null ? NULL : &cache, OPT(2));
    ill = g_illegal;
    out_int(ret);
    if (wo) out_pubkey(&pk); else out_str("_");
    if (A(1)->is_null) out_str("_"); else out_cache(&cache);
    ILL_END(ill);
    return 1;
}
static void out_gen_result(int ret, int ill, int ws, const secp256k1_musig_secnonce *sn, const secp256k1_musig_pubnonce *pn, const unsigned char *secrand) {
    out_int(ret);
    if (ws) { out_str(all_zero(sn, sizeof *sn) ? "z1" : "z0"); out_secnonce(sn); } else { out_str("U"); out_str("_"); }
    out_pubnonce(pn);
    if (secrand) out_hex(secrand, 32); else out_str("_");
    ILL_END(ill);
}
/* musig_nonce_gen <flags> <secrand32|_> <seckey32|_> <pubkey|_> <msg32|_> <cache|_> <extra32|_> */
static int op_musig_nonce_gen(void) {
    secp256k1_musig_secnonce sn; secp256k1_musig_pubnonce pn; secp256k1_pubkey pk; secp256k1_musig_keyagg_cache cache;
    int ret, ill, ws, wp;
    NEED(7); NEEDOPT(1, 32); NEEDOPT(2, 32); NEEDOPT(4, 32); NEEDOPT(6, 32);
    ws = !has_flag(0, 's'); wp = !has_flag(0, 'p');
    if (!A(3)->is_null && !tok_pubkey(3, &pk)) return -1;
    if (!A(5)->is_null && !tok_cache(5, &cache)) return -1;
    memset(&sn, 0xAA, sizeof sn); memset(&pn, 0xAA, sizeof pn);
    ret = secp256k1_musig_nonce_gen(CTX, ws ? &sn : NULL, wp ? &pn : NULL, OPT(1), OPT(2), A(3)->is_null ? NULL : &pk, OPT(4),
                                    A(5)->is_null ? NULL : &cache, OPT(6));
    ill = g_illegal;
    out_gen_result(ret, ill, ws, &sn, &pn, OPT(1));
    return 1;
}
/* musig_nonce_gen_counter <flags> <counter> <sk|_> <pk|_> <msg32|_> <cache|_> <extra32|_> */
static int op_musig_nonce_gen_counter(void) {
    secp256k1_musig_secnonce sn; secp256k1_musig_pubnonce pn; secp256k1_keypair kp; secp256k1_musig_keyagg_cache cache;
    int ret, ill, ws, wp, kpnull; uint64_t cnt;
    NEED(7); NEEDOPT(4, 32); NEEDOPT(6, 32);
    ws = !has_flag(0, 's'); wp = !has_flag(0, 'p');
    cnt = (uint64_t)strtoull(A(1)->s, NULL, 10);
    if (!tok_keypair_opt(2, 3, &kp, &kpnull)) return -1;
    if (!A(5)->is_null && !tok_cache(5, &cache)) return -1;
    memset(&sn, 0xAA, sizeof sn); memset(&pn, 0xAA, sizeof pn);
    ret = secp256k1_musig_nonce_gen_counter(CTX, ws ? &sn : NULL, wp ? &pn : NULL, cnt, kpnull ? NULL : &kp, OPT(4),
                                            A(5)->is_null ? NULL : &cache, OPT(6));
    ill = g_illegal;
    out_gen_result(ret, ill, ws, &sn, &pn, NULL);
    return 1;
}
/* musig_nonce_agg <flags> <pubnonce66|Z|_>* */
static int op_musig_nonce_agg(void) {
    size_t n, i; secp256k1_musig_pubnonce *pns; const secp256k1_musig_pubnonce **pp; secp256k1_musig_aggnonce an; int ret, ill, wo;
    if (g_argc < 1) return -1;
    n = (size_t)g_argc - 1; wo = !has_flag(0, 'o');
    pns = (secp256k1_musig_pubnonce*)malloc((n + 1) * sizeof *pns); pp = (const secp256k1_musig_pubnonce**)malloc((n + 1) * sizeof *pp);
    for (i = 0; i < n; i++) {
        if (A(1 + (int)i)->is_null) { pp[i] = NULL; continue; }
        if (!tok_pubnonce(1 + (int)i, &pns[i])) { free(pns); free(pp); return -1; }
        pp[i] = &pns[i];
    }
    memset(&an, 0xAA, sizeof an);
    ret = secp256k1_musig_nonce_agg(CTX, wo ? &an : NULL, pp, n);
    ill = g_illegal;
    out_int(ret); out_aggnonce(&an); ILL_END(ill);
    free(pns); free(pp);
    return 1;
}
/* musig_nonce_process <flags> <aggnonce66|Z|_> <msg32|_> <cache|_> <adaptor pk|_> */
static int op_musig_nonce_process(void) {
    secp256k1_musig_aggnonce an; secp256k1_musig_keyagg_cache cache; secp256k1_pubkey ad; secp256k1_musig_session se; int ret, ill, wo;
    NEED(5); NEEDOPT(2, 32);
    wo = !has_flag(0, 'o');
    if (!A(1)->is_null && !tok_aggnonce(1, &an)) return -1;
    if (!A(3)->is_null && !tok_cache(3, &cache)) return -1;
    if (!A(4)->is_null && !tok_pubkey(4, &ad)) return -1;
    memset(&se, 0xAA, sizeof se);
    ret = secp256k1_musig_nonce_process(CTX, wo ? &se : NULL, A(1)->is_null ? NULL : &an, OPT(2), A(3)->is_null ? NULL : &cache,
                                        A(4)->is_null ? NULL : &ad);
    ill = g_illegal;
    out_int(ret); out_session(&se); ILL_END(ill);
    return 1;
}
/* musig_partial_sign <flags> <secnonce|_> <sk|_> <pk|_> <cache|_> <session|_> */
static int op_musig_partial_sign(void) {
    secp256k1_musig_secnonce sn; secp256k1_keypair kp; secp256k1_musig_keyagg_cache cache; secp256k1_musig_session se;
    secp256k1_musig_partial_sig ps; int ret, ill, wo, kpnull;
    NEED(6);
    wo = !has_flag(0, 'o');
    if (!A(1)->is_null && !tok_secnonce(1, &sn)) return -1;
    if (!tok_keypair_opt(2, 3, &kp, &kpnull)) return -1;
    if (!A(4)->is_null && !tok_cache(4, &cache)) return -1;
    if (!A(5)->is_null && !tok_session(5, &se)) return -1;
    memset(&ps, 0xAA, sizeof ps);
    ret = secp256k1_musig_partial_sign(CTX, wo ? &ps : NULL, A(1)->is_null ? NULL : &sn, kpnull ? NULL : &kp,
                                       A(4)->is_null ? NULL : &cache, A(5)->is_null ? NULL : &se);
    ill = g_illegal;
    out_int(ret); out_psig(&ps);
    if (A(1)->is_null) out_str("_"); else out_str(all_zero(&sn, sizeof sn) ? "z1" : "z0");
    ILL_END(ill);
    return 1;
}
/* musig_partial_sig_verify <psig32|Z|_> <pubnonce66|Z|_> <pk|_> <cache|_> <session|_> */
static int op_musig_partial_sig_verify(void) {
    secp256k1_musig_partial_sig ps; secp256k1_musig_pubnonce pn; secp256k1_pubkey pk; secp256k1_musig_keyagg_cache cache; secp256k1_musig_session se;
    int ret, ill;
    NEED(5);
    if (!A(0)->is_null && !tok_psig(0, &ps)) return -1;
    if (!A(1)->is_null && !tok_pubnonce(1, &pn)) return -1;
    if (!A(2)->is_null && !tok_pubkey(2, &pk)) return -1;
    if (!A(3)->is_null && !tok_cache(3, &cache)) return -1;
    if (!A(4)->is_null && !tok_session(4, &se)) return -1;
    ret = secp256k1_musig_partial_sig_verify(CTX, A(0)->is_null ? NULL : &ps, A(1)->is_null ? NULL : &pn, A(2)->is_null ? NULL : &pk,
                                             A(3)->is_null ? NULL : &cache, A(4)->is_null ? NULL : &se);
    ill = g_illegal;
    out_int(ret); ILL_END(ill);
    return 1;
}
/* musig_partial_sig_agg <flags> <session|_> <psig32|Z|_>* */
static int op_musig_partial_sig_agg(void) {
    size_t n, i; secp256k1_musig_partial_sig *sigs; const secp256k1_musig_partial_sig **pp; secp256k1_musig_session se;
    unsigned char *sig64; int ret, ill, wo;
    if (g_argc < 2) return -1;
    n = (size_t)g_argc - 2; wo = !has_flag(0, 'o');
    if (!A(1)->is_null && !tok_session(1, &se)) return -1;
    sigs = (secp256k1_musig_partial_sig*)malloc((n + 1) * sizeof *sigs); pp = (const secp256k1_musig_partial_sig**)malloc((n + 1) * sizeof *pp);
    for (i = 0; i < n; i++) {
        if (A(2 + (int)i)->is_null) { pp[i] = NULL; continue; }
        if (!tok_psig(2 + (int)i, &sigs[i])) { free(sigs); free(pp); return -1; }
        pp[i] = &sigs[i];
    }
    sig64 = (unsigned char*)malloc(64); memset(sig64, 0xAA, 64);
    ret = secp256k1_musig_partial_sig_agg(CTX, wo ? sig64 : NULL, A(1)->is_null ? NULL : &se, pp, n);
    ill = g_illegal;
    out_int(ret); out_buf_or_u(sig64, 64); ILL_END(ill);
    free(sigs); free(pp); free(sig64);
    return 1;
}
static int op_musig_nonce_parity(void) {
    secp256k1_musig_session se; int par = -1, ret, ill, wo;
    NEED(2);
    wo = !has_flag(0, 'o');
    if (!A(1)->is_null && !tok_session(1, &se)) return -1;
    ret = secp256k1_musig_nonce_parity(CTX, wo ? &par : NULL, A(1)->is_null ? NULL : &se);
    ill = g_illegal;
    out_int(ret); if (par == -1) out_str("U"); else out_int(par); ILL_END(ill);
    return 1;
}
/* musig_adapt <flags> <presig64|_> <sec_adaptor32|_> <parity> */
static int op_musig_adapt(void) {
    unsigned char *sig64; int ret, ill, wo;
    NEED(4); NEEDOPT(1, 64); NEEDOPT(2, 32);
    wo = !has_flag(0, 'o');
    sig64 = (unsigned char*)malloc(64); memset(sig64, 0xAA, 64);
    ret = secp256k1_musig_adapt(CTX, wo ? sig64 : NULL, OPT(1), OPT(2), (int)arg_int(3));
    ill = g_illegal;
    out_int(ret); out_buf_or_u(sig64, 64); ILL_END(ill);
    free(sig64);
    return 1;
}
/* musig_extract_adaptor <flags> <sig64|_> <presig64|_> <parity> */
static int op_musig_extract_adaptor(void) {
    unsigned char *out32; int ret, ill, wo;
    NEED(4); NEEDOPT(1, 64); NEEDOPT(2, 64);
    wo = !has_flag(0, 'o');
    out32 = (unsigned char*)malloc(32); memset(out32, 0xAA, 32);
    ret = secp256k1_musig_extract_adaptor(CTX, wo ? out32 : NULL, OPT(1), OPT(2), (int)arg_int(3));
    ill = g_illegal;
    out_int(ret); out_buf_or_u(out32, 32); ILL_END(ill);
    free(out32);
    return 1;
}
static int op_musig_pubnonce_parse(void) {
    secp256k1_musig_pubnonce pn; int ret;
    NEED(1); NEEDHEX(0, 66);
    memset(&pn, 0xAA, sizeof pn);
    ret = secp256k1_musig_pubnonce_parse(CTX, &pn, A(0)->b);
    out_int(ret); out_pubnonce(&pn);
    return 1;
}
static int op_musig_aggnonce_parse(void) {
    secp256k1_musig_aggnonce an; int ret;
    NEED(1); NEEDHEX(0, 66);
    memset(&an, 0xAA, sizeof an);
    ret = secp256k1_musig_aggnonce_parse(CTX, &an, A(0)->b);
    out_int(ret); out_aggnonce(&an);
    return 1;
}
static int op_musig_partial_sig_parse(void) {
    secp256k1_musig_partial_sig ps; int ret;
    NEED(1); NEEDHEX(0, 32);
    memset(&ps, 0xAA, sizeof ps);
    ret = secp256k1_musig_partial_sig_parse(CTX, &ps, A(0)->b);
    out_int(ret); out_psig(&ps);
    return 1;
}
static int op_musig_pubnonce_serialize(void) {
    secp256k1_musig_pubnonce pn; unsigned char *o; int ret, ill;
    NEED(1);
    if (!A(0)->is_null && !tok_pubnonce(0, &pn)) return -1;
    o = (unsigned char*)malloc(66); memset(o, 0xAA, 66);
    ret = secp256k1_musig_pubnonce_serialize(CTX, o, A(0)->is_null ? NULL : &pn);
    ill = g_illegal;
    out_int(ret); out_hex(o, 66); ILL_END(ill);
    free(o);
    return 1;
}
static int op_musig_aggnonce_serialize(void) {
    secp256k1_musig_aggnonce an; unsigned char *o; int ret, ill;
    NEED(1);
    if (!A(0)->is_null && !tok_aggnonce(0, &an)) return -1;
    o = (unsigned char*)malloc(66); memset(o, 0xAA, 66);
    ret = secp256k1_musig_aggnonce_serialize(CTX, o, A(0)->is_null ? NULL : &an);
    ill = g_illegal;
    out_int(ret); out_hex(o, 66); ILL_END(ill);
    free(o);
    return 1;
}
static int op_musig_partial_sig_serialize(void) {
    secp256k1_musig_partial_sig ps; unsigned char *o; int ret, ill;
    NEED(1);
    if (!A(0)->is_null && !tok_psig(0, &ps)) return -1;
    o = (unsigned char*)malloc(32); memset(o, 0xAA, 32);
    ret = secp256k1_musig_partial_sig_serialize(CTX, o, A(0)->is_null ? NULL : &ps);
    ill = g_illegal;
    out_int(ret); out_buf_or_u(o, 32); ILL_END(ill);
    free(o);
    return 1;
}

/* ---------- histories (C13) ----------
 * musig_history <sk> <pk> <sk2> <pk2> <msg32> <cache> <session> <session2> <seed32> <ctrbase> / step*
 * Two secnonce slots, initially all-zero.  After each step: ret,i<callbacks>,z<slot0 zero><slot1 zero>
 * [,w<randomness buffer all-zero>][,<partial sig>]; after the last step: / <slot0 dump> <slot1 dump>. */
static int op_musig_history(void) {
    secp256k1_keypair kp, kp2, kpneg, kpzero; secp256k1_musig_keyagg_cache cache, badcache; secp256k1_musig_session se, se2, badse;
    secp256k1_musig_secnonce slot[2]; secp256k1_pubkey pk; const unsigned char *msg, *seed; uint64_t ctrbase; int j;
    if (g_argc < 11 || strcmp(A(10)->s, "/")) return -1;
    NEEDHEX(4, 32); NEEDHEX(8, 32);
    if (!tok_keypair(0, 1, &kp) || !tok_keypair(2, 3, &kp2) || !tok_cache(5, &cache) || !tok_session(6, &se) || !tok_session(7, &se2)) return -1;
    if (!tok_pubkey(1, &pk)) return -1;
    msg = A(4)->b; seed = A(8)->b; ctrbase = (uint64_t)strtoull(A(9)->s, NULL, 10);
    memset(&kpzero, 0, sizeof kpzero);
    {   /* keypair with the negated secret key */
        unsigned char nsk[32]; secp256k1_pubkey npk = pk; secp256k1_ge g;
        memcpy(nsk, A(0)->b, 32);
        if (!secp256k1_ec_seckey_negate(CTX, nsk) || !secp256k1_ec_pubkey_negate(CTX, &npk)) return -1;
        (void)g;
        memcpy(&kpneg.data[0], nsk, 32); memcpy(&kpneg.data[32], npk.data, 64);
    }
    badcache = cache; badcache.data[0] ^= 1;
    badse = se; badse.data[0] ^= 1;
    memset(slot, 0, sizeof slot);
    for (j = 0; j + 11 < g_argc; j++) {
        const char *st = A(11 + j)->s; char res[160]; int ret = 0, ill, wiped = -1; unsigned char sig[32]; int have_sig = 0;
        size_t l = strlen(st);
        g_illegal = 0;
        if (!strncmp(st, "sign", 4) && l >= 7 && (st[4] == '0' || st[4] == '1') && st[5] == ':') {
            int s = st[4] - '0'; const char *m = st + 6; secp256k1_musig_partial_sig ps;
            secp256k1_musig_secnonce *snp = &slot[s]; secp256k1_musig_partial_sig *psp = &ps; const secp256k1_keypair *kpp = &kp;
            const secp256k1_musig_keyagg_cache *cp = &cache; const secp256k1_musig_session *sp = &se;
            memset(&ps, 0xAA, sizeof ps);
            if (!strcmp(m, "ok")) {}
            else if (!strcmp(m, "s2")) sp = &se2;
            else if (!strcmp(m, "wrongkp")) kpp = &kp2;
            else if (!strcmp(m, "negkp")) kpp = &kpneg;
            else if (!strcmp(m, "zerokp")) kpp = &kpzero;
            else if (!strcmp(m, "nullout")) psp = NULL;
            else if (!strcmp(m, "nullkp")) kpp = NULL;
            else if (!strcmp(m, "nullcache")) cp = NULL;
            else if (!strcmp(m, "nullsession")) sp = NULL;
            else if (!strcmp(m, "badcache")) cp = &badcache;
            else if (!strcmp(m, "badsession")) sp = &badse;
            else if (!strcmp(m, "zeroed")) memset(&slot[s], 0, sizeof slot[s]);
            else if (!strcmp(m, "badmagic")) slot[s].data[0] ^= 1;
            else if (!strcmp(m, "nullnonce")) snp = NULL;
            else return -1;
            ret = secp256k1_musig_partial_sign(CTX, psp, snp, kpp, cp, sp);
            ill = g_illegal;
            if (ret && psp && secp256k1_musig_partial_sig_serialize(CTX, sig, &ps)) have_sig = 1;
        } else if (!strcmp(st, "copy01")) { slot[1] = slot[0]; ret = 1; ill = 0; }
        else if (!strcmp(st, "copy10")) { slot[0] = slot[1]; ret = 1; ill = 0; }
        else if (!strncmp(st, "gen", 3) && l >= 4 && (st[l-1] == '0' || st[l-1] == '1')) {
            int s = st[l-1] - '0'; char m[32]; unsigned char rnd[32], zsk[32] = {0}; secp256k1_musig_pubnonce pn;
            uint64_t cnt = ctrbase + (uint64_t)j;
            if (l - 1 >= sizeof m) return -1;
            memcpy(m, st, l - 1); m[l-1] = 0;
            memcpy(rnd, seed, 28); rnd[28] = (unsigned char)(j >> 24); rnd[29] = (unsigned char)(j >> 16); rnd[30] = (unsigned char)(j >> 8); rnd[31] = (unsigned char)j;
            if (!strcmp(m, "gen")) { ret = secp256k1_musig_nonce_gen(CTX, &slot[s], &pn, rnd, A(0)->b, &pk, msg, &cache, NULL); wiped = all_zero(rnd, 32); }
            else if (!strcmp(m, "genbad")) { memset(rnd, 0, 32); ret = secp256k1_musig_nonce_gen(CTX, &slot[s], &pn, rnd, A(0)->b, &pk, msg, &cache, NULL); wiped = all_zero(rnd, 32); }
            else if (!strcmp(m, "genbadsk")) { ret = secp256k1_musig_nonce_gen(CTX, &slot[s], &pn, rnd, zsk, &pk, msg, &cache, NULL); wiped = all_zero(rnd, 32); }
            else if (!strcmp(m, "genbadcache")) { ret = secp256k1_musig_nonce_gen(CTX, &slot[s], &pn, rnd, A(0)->b, &pk, msg, &badcache, NULL); wiped = all_zero(rnd, 32); }
            else if (!strcmp(m, "gennullpub")) { ret = secp256k1_musig_nonce_gen(CTX, &slot[s], NULL, rnd, A(0)->b, &pk, msg, &cache, NULL); wiped = all_zero(rnd, 32); }
            else if (!strcmp(m, "genctr")) ret = secp256k1_musig_nonce_gen_counter(CTX, &slot[s], &pn, cnt, &kp, msg, &cache, NULL);
            else if (!strcmp(m, "genctrbadkp")) ret = secp256k1_musig_nonce_gen_counter(CTX, &slot[s], &pn, cnt, &kpzero, msg, &cache, NULL);
            else if (!strcmp(m, "genctrzerosec") || !strcmp(m, "genctrovfsec")) {   /* keypair bytes crafted: secret half invalid, public half intact */
                secp256k1_keypair kpb = kp; memset(&kpb.data[0], m[6] == 'z' ? 0x00 : 0xff, 32);
                ret = secp256k1_musig_nonce_gen_counter(CTX, &slot[s], &pn, cnt, &kpb, msg, &cache, NULL);
            }
            else return -1;
            ill = g_illegal;
        } else return -1;
        snprintf(res, sizeof res, "%d,i%d,z%d%d", ret, ill, all_zero(&slot[0], sizeof slot[0]), all_zero(&slot[1], sizeof slot[1]));
        if (wiped >= 0) snprintf(res + strlen(res), sizeof res - strlen(res), ",w%d", wiped);
        if (have_sig) { size_t k, n = strlen(res); res[n++] = ','; for (k = 0; k < 32; k++) { snprintf(res + n, 3, "%02x", sig[k]); n += 2; } }
        out_str(res);
    }
    g_illegal = 0;
    out_str("/"); out_secnonce(&slot[0]); out_secnonce(&slot[1]);
    return 1;
}

static int ops_musig(const char *op) {
#define OP(name, call) if (!strcmp(op, name)) return call;
    OP("musig_pubkey_agg", op_musig_pubkey_agg()) OP("musig_pubkey_get", op_musig_pubkey_get())
    OP("musig_ec_tweak_add", op_musig_tweak_add(0)) OP("musig_xonly_tweak_add", op_musig_tweak_add(1))
    OP("musig_nonce_gen", op_musig_nonce_gen()) OP("musig_nonce_gen_counter", op_musig_nonce_gen_counter())
    OP("musig_nonce_agg", op_musig_nonce_agg()) OP("musig_nonce_process", op_musig_nonce_process())
    OP("musig_partial_sign", op_musig_partial_sign()) OP("musig_partial_sig_verify", op_musig_partial_sig_verify())
    OP("musig_partial_sig_agg", op_musig_partial_sig_agg()) OP("musig_nonce_parity", op_musig_nonce_parity())
    OP("musig_adapt", op_musig_adapt()) OP("musig_extract_adaptor", op_musig_extract_adaptor())
    OP("musig_pubnonce_parse", op_musig_pubnonce_parse()) OP("musig_aggnonce_parse", op_musig_aggnonce_parse())
    OP("musig_partial_sig_parse", op_musig_partial_sig_parse()) OP("musig_pubnonce_serialize", op_musig_pubnonce_serialize())
    OP("musig_aggnonce_serialize", op_musig_aggnonce_serialize()) OP("musig_partial_sig_serialize", op_musig_partial_sig_serialize())
    OP("musig_history", op_musig_history())
#undef OP
    return 0;
}
